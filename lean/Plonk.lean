import Plonk.Model.Field
import Plonk.Model.Gate
import Plonk.Model.Jubjub
import Plonk.Model.Composer
