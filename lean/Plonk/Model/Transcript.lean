/-
  L6 — Keccak-f[1600], STROBE-128 (the subset Merlin uses) and Merlin's transcript framing,
  re-implemented executably so that challenges are recomputed from bytes, independently of the
  `merlin` crate (external: modelled, compared differentially).
-/
import Plonk.Model.Field
namespace Plonk

namespace Keccak

def RC : Array UInt64 := #[
  0x0000000000000001, 0x0000000000008082, 0x800000000000808a, 0x8000000080008000,
  0x000000000000808b, 0x0000000080000001, 0x8000000080008081, 0x8000000000008009,
  0x000000000000008a, 0x0000000000000088, 0x0000000080008009, 0x000000008000000a,
  0x000000008000808b, 0x800000000000008b, 0x8000000000008089, 0x8000000000008003,
  0x8000000000008002, 0x8000000000000080, 0x000000000000800a, 0x800000008000000a,
  0x8000000080008081, 0x8000000000008080, 0x0000000080000001, 0x8000000080008008]

def ROTC : Array Nat := #[1, 3, 6, 10, 15, 21, 28, 36, 45, 55, 2, 14, 27, 41, 56, 8, 25, 43, 62, 18, 39, 61, 20, 44]
def PILN : Array Nat := #[10, 7, 11, 17, 18, 3, 5, 16, 8, 21, 24, 4, 15, 23, 19, 13, 12, 2, 20, 14, 22, 9, 6, 1]

@[inline] def rotl (x : UInt64) (n : Nat) : UInt64 :=
  let n := n % 64
  if n == 0 then x else (x <<< n.toUInt64) ||| (x >>> (64 - n).toUInt64)

def round (a : Array UInt64) (rc : UInt64) : Array UInt64 := Id.run do
  let mut a := a
  -- theta
  let mut bc : Array UInt64 := Array.replicate 5 0
  for i in [0:5] do
    bc := bc.set! i (a[i]! ^^^ a[i+5]! ^^^ a[i+10]! ^^^ a[i+15]! ^^^ a[i+20]!)
  for i in [0:5] do
    let t := bc[(i + 4) % 5]! ^^^ rotl bc[(i + 1) % 5]! 1
    for j in [0:5] do
      a := a.set! (j * 5 + i) (a[j * 5 + i]! ^^^ t)
  -- rho + pi
  let mut t := a[1]!
  for i in [0:24] do
    let j := PILN[i]!
    let b := a[j]!
    a := a.set! j (rotl t ROTC[i]!)
    t := b
  -- chi
  for j in [0:5] do
    let r0 := a[j*5]!; let r1 := a[j*5+1]!; let r2 := a[j*5+2]!; let r3 := a[j*5+3]!; let r4 := a[j*5+4]!
    a := a.set! (j*5)   (r0 ^^^ ((~~~ r1) &&& r2))
    a := a.set! (j*5+1) (r1 ^^^ ((~~~ r2) &&& r3))
    a := a.set! (j*5+2) (r2 ^^^ ((~~~ r3) &&& r4))
    a := a.set! (j*5+3) (r3 ^^^ ((~~~ r4) &&& r0))
    a := a.set! (j*5+4) (r4 ^^^ ((~~~ r0) &&& r1))
  -- iota
  a := a.set! 0 (a[0]! ^^^ rc)
  return a

def f1600 (a : Array UInt64) : Array UInt64 := RC.foldl round a

def lanesOfBytes (b : Array UInt8) : Array UInt64 :=
  (Array.range 25).map fun i =>
    (List.range 8).foldl (fun acc k => acc ||| ((b[8*i + k]!).toUInt64 <<< (8 * k).toUInt64)) (0 : UInt64)

def bytesOfLanes (a : Array UInt64) : Array UInt8 :=
  (Array.range 200).map fun i => ((a[i / 8]! >>> (8 * (i % 8)).toUInt64) &&& 0xff).toUInt8

def permuteBytes (b : Array UInt8) : Array UInt8 := bytesOfLanes (f1600 (lanesOfBytes b))

end Keccak

/-- STROBE-128 as used by Merlin -/
structure Strobe where
  st : Array UInt8
  pos : Nat
  posBegin : Nat
  deriving Inhabited

namespace Strobe
def RATE : Nat := 166
def FLAG_I : Nat := 1
def FLAG_A : Nat := 2
def FLAG_C : Nat := 4
def FLAG_M : Nat := 16
def FLAG_K : Nat := 32

def xorAt (s : Array UInt8) (i : Nat) (v : Nat) : Array UInt8 := s.set! i (s[i]! ^^^ v.toUInt8)

def runF (s : Strobe) : Strobe :=
  let st := xorAt s.st s.pos s.posBegin
  let st := xorAt st (s.pos + 1) 0x04
  let st := xorAt st (RATE + 1) 0x80
  { st := Keccak.permuteBytes st, pos := 0, posBegin := 0 }

def absorb (s : Strobe) (data : List Nat) : Strobe :=
  data.foldl (fun s b =>
    let s := { s with st := xorAt s.st s.pos b, pos := s.pos + 1 }
    if s.pos == RATE then runF s else s) s

def squeeze (s : Strobe) (n : Nat) : Strobe × List Nat :=
  let (s, out) := (List.range n).foldl (fun (acc : Strobe × List Nat) _ =>
    let (s, out) := acc
    let b := s.st[s.pos]!.toNat
    let s := { s with st := s.st.set! s.pos 0, pos := s.pos + 1 }
    (if s.pos == RATE then runF s else s, b :: out)) (s, [])
  (s, out.reverse)

def beginOp (s : Strobe) (flags : Nat) (more : Bool) : Strobe :=
  if more then s else
  let old := s.posBegin
  let s := { s with posBegin := s.pos + 1 }
  let s := absorb s [old, flags]
  let forceF := (flags &&& (FLAG_C ||| FLAG_K)) != 0
  if forceF && s.pos != 0 then runF s else s

def metaAd (s : Strobe) (data : List Nat) (more : Bool) : Strobe :=
  absorb (beginOp s (FLAG_M ||| FLAG_A) more) data
def ad (s : Strobe) (data : List Nat) (more : Bool) : Strobe :=
  absorb (beginOp s FLAG_A more) data
def prf (s : Strobe) (n : Nat) : Strobe × List Nat :=
  squeeze (beginOp s (FLAG_I ||| FLAG_A ||| FLAG_C) false) n

def strBytes (s : String) : List Nat := s.toUTF8.toList.map (·.toNat)

def new (protocolLabel : List Nat) : Strobe :=
  let init : List Nat := [1, RATE + 2, 1, 0, 1, 96] ++ strBytes "STROBEv1.0.2"
  let st0 : Array UInt8 := Array.replicate 200 0
  let st := (init.zipIdx).foldl (fun (st : Array UInt8) (b, i) => st.set! i b.toUInt8) st0
  let s : Strobe := { st := Keccak.permuteBytes st, pos := 0, posBegin := 0 }
  metaAd s protocolLabel false
end Strobe

def u32le (n : Nat) : List Nat := [n % 256, (n / 256) % 256, (n / 65536) % 256, (n / 16777216) % 256]
def u64le (n : Nat) : List Nat := (List.range 8).map fun i => (n / 256 ^ i) % 256

/-- Merlin transcript -/
structure Transcript where
  s : Strobe
  deriving Inhabited

namespace Transcript
open Strobe

def appendMessage (t : Transcript) (label msg : List Nat) : Transcript :=
  let s := metaAd t.s label false
  let s := metaAd s (u32le msg.length) true
  ⟨ad s msg false⟩

def new (label : List Nat) : Transcript :=
  appendMessage ⟨Strobe.new (strBytes "Merlin v1.0")⟩ (strBytes "dom-sep") label

def appendU64 (t : Transcript) (label : List Nat) (x : Nat) : Transcript :=
  appendMessage t label (u64le x)

def challengeBytes (t : Transcript) (label : List Nat) (n : Nat) : Transcript × List Nat :=
  let s := metaAd t.s label false
  let s := metaAd s (u32le n) true
  let (s, out) := prf s n
  (⟨s⟩, out)

/-- `BlsScalar::to_bytes`: 32 bytes little endian -/
def scalarBytes (x : Nat) : List Nat := (List.range 32).map fun i => ((x % R) / 256 ^ i) % 256

def appendScalar (t : Transcript) (label : String) (x : Nat) : Transcript :=
  appendMessage t (strBytes label) (scalarBytes x)

/-- `challenge_scalar`: 64 bytes, `from_bytes_wide` (little endian, reduced mod r) -/
def challengeScalar (t : Transcript) (label : String) : Transcript × Nat :=
  let (t, bs) := challengeBytes t (strBytes label) 64
  (t, (bs.reverse.foldl (fun acc b => acc * 256 + b) 0) % R)

end Transcript
end Plonk
