/-
  L2 — the turbo composer and its components as a state machine.

  Rust anchors: `src/composer.rs` and `src/composer/{bits,select,range,logic,truncate,point,
  fixed_base}.rs`.  `&mut self` becomes `StateM Composer`; a component returns the witnesses
  it allocates.  Witness *values* live in `wit`; the *layout* is `(gates, pis.map fst, wit.size)`.
-/
import Plonk.Generated
import Plonk.Model.Gate
import Plonk.Model.Jubjub
namespace Plonk

structure Composer where
  gates : Array Gate := #[]
  wit : Array Nat := #[]
  /-- sparse public inputs in insertion order `(row, value)`; rows are distinct because every
      row index is used by exactly one `append_custom_gate`. -/
  pis : Array (Nat × Nat) := #[]
  deriving Repr, Inhabited

abbrev CM := StateM Composer

inductive CErr where
  | degenerate          -- Error::JubJubPointDegenerate
  | notTorsionFree      -- Error::JubJubPointNotTorsionFree
  | generatorNotPrime   -- Error::JubJubGeneratorNotPrimeOrder
  | scalarMalformed     -- Error::JubJubScalarMalformed
  | unsupportedWnaf     -- Error::UnsupportedWNAF2k
  deriving Repr, BEq, DecidableEq

namespace Composer

def ZERO : Nat := 0
def ONE : Nat := 1

/-- value of a witness (`self[w]`); total: unallocated index reads 0 (never happens for
    indices handed out by the composer; the driver rejects programs that would do it). -/
def val (c : Composer) (w : Nat) : Nat := c.wit.getD w 0

def appendWitness (v : Nat) : CM Nat := fun c =>
  (c.wit.size, { c with wit := c.wit.push (v % R) })

def getVal (w : Nat) : CM Nat := fun c => (c.val w, c)

/-- `append_custom_gate_internal` -/
def appendCustomGate (s : Constraint) : CM Unit := fun c =>
  let n := c.gates.size
  let pis := if s.hasPi then c.pis.push (n, s.pi) else c.pis
  ((), { c with gates := c.gates.push s.toGate, pis := pis })

/-- `append_gate` -/
def appendGate (s : Constraint) : CM Unit := appendCustomGate (Constraint.arithmetic s)

/-- allocate a list of witnesses, in order -/
def appendWitnesses : List Nat → CM Unit
  | [] => pure ()
  | v :: vs => do let _ ← appendWitness v; appendWitnesses vs

/-- append a list of custom gates, in order -/
def appendCustomGates : List Constraint → CM Unit
  | [] => pure ()
  | g :: gs => do appendCustomGate g; appendCustomGates gs

/-- `append_evaluated_output` -/
def appendEvaluatedOutput (s : Constraint) : CM (Option Nat) := do
  let a ← getVal s.a
  let b ← getVal s.b
  let d ← getVal s.d
  let x := fadd (fadd (fadd (fadd (fadd (fmul (fmul s.qm a) b) (fmul s.ql a)) (fmul s.qr b))
              (fmul s.qf d)) s.qc) s.pi
  let c? : Option Nat :=
    if s.qo == 1 % R then some (fneg x)
    else if s.qo == R - 1 then some x
    else (finv? s.qo).map fun yi => fmul x (fneg yi)
  match c? with
  | some cv =>
    let o ← appendWitness cv
    appendGate { s with c := o }
    pure (some o)
  | none =>
    appendGate s
    pure none

/-- `gate_add` / `gate_mul`: arithmetic, `q_O := −1`, output solved. -/
def gateAdd (s : Constraint) : CM Nat := do
  let s := { Constraint.arithmetic s with qo := R - 1 }
  match ← appendEvaluatedOutput s with
  | some o => pure o
  | none => pure 0   -- unreachable: q_O = −1

def gateMul (s : Constraint) : CM Nat := gateAdd s

def assertEqual (a b : Nat) : CM Unit :=
  appendGate { ql := 1, qr := R - 1, a := a, b := b }

def assertEqualConstant (a const : Nat) (pub : Option Nat) : CM Unit :=
  let s : Constraint := { ql := R - 1, a := a, qc := const % R }
  appendGate (match pub with | some p => { s with pi := p % R, hasPi := true } | none => s)

def appendConstant (v : Nat) : CM Nat := do
  let w ← appendWitness v
  assertEqualConstant w v none
  pure w

def appendPublic (v : Nat) : CM Nat := do
  let w ← appendWitness v
  appendGate { ql := R - 1, a := w, pi := v % R, hasPi := true }
  pure w

def appendDummyGates : CM Unit := do
  let six ← appendWitness 6
  let one ← appendWitness 1
  let seven ← appendWitness 7
  let minTwenty ← appendWitness (R - 20)
  appendGate { qm := 1, ql := 2, qr := 3, qf := 1, qc := 4, qo := 4,
               a := six, b := seven, d := one, c := minTwenty }
  appendGate { qm := 1, ql := 1, qr := 1, qc := 127, qo := 1,
               a := minTwenty, b := six, c := seven }

/-- `Composer::initialized()` -/
def initialized : Composer :=
  let m : CM Unit := do
    let zero_ ← appendWitness 0
    let one ← appendWitness 1
    assertEqualConstant zero_ 0 none
    assertEqualConstant one 1 none
    appendDummyGates
  (m.run {}).2

/-! ### bits.rs / select.rs -/

def componentBoolean (a : Nat) : CM Unit :=
  appendGate { qm := 1, qo := R - 1, a := a, b := a, c := a, d := ZERO }

/-- `component_decomposition::<N>` (`0 < N ≤ 256`): returns the N bit witnesses (LE). -/
def componentDecomposition (n : Nat) (scalar : Nat) : CM (List Nat) := do
  let v ← getVal scalar
  let rec go : Nat → Nat → Nat → List Nat → CM (Nat × List Nat)
    | 0, _, acc, bits => pure (acc, bits.reverse)
    | k+1, i, acc, bits => do
      let wb ← appendWitness (bit v i)
      componentBoolean wb
      let acc' ← gateAdd { ql := pow2 i, qr := 1, a := wb, b := acc }
      go k (i+1) acc' (wb :: bits)
  let (acc, bits) ← go n 0 ZERO []
  assertEqual acc scalar
  pure bits

def componentSelect (bit a b : Nat) : CM Nat := do
  let bitTimesA ← gateMul { qm := 1, a := bit, b := a }
  let oneMinBit ← gateAdd { ql := R - 1, qc := 1, a := bit }
  let oneMinBitB ← gateMul { qm := 1, a := oneMinBit, b := b }
  gateAdd { ql := 1, qr := 1, a := oneMinBitB, b := bitTimesA }

def componentSelectOne (bit value : Nat) : CM Nat := do
  let b ← getVal bit
  let v ← getVal value
  let fx ← appendWitness (fadd (fsub 1 b) (fmul b v))
  appendGate { qm := 1, ql := R - 1, qo := R - 1, qc := 1, a := bit, b := value, c := fx }
  pure fx

def componentSelectZero (bit value : Nat) : CM Nat :=
  gateMul { qm := 1, a := bit, b := value }

/-! ### range.rs -/

/-- wire slot `i` of the base-4 range layout: the `i − pad`-th accumulator for
    `pad ≤ i ≤ numQuads`, the zero witness otherwise. -/
def rangeSlot (base pad numQuads i : Nat) : Nat :=
  if pad ≤ i ∧ i ≤ numQuads then base + (i - pad) else ZERO

/-- honest accumulator `j` (0-based from the most significant quad) of a `k`-quad check of `v` -/
def rangeAcc (v k j : Nat) : Nat := (v / 2 ^ (2 * (k - 1 - j))) % 4 ^ (j + 1)

/-- the `numGates` selected rows followed by the zeroed closing row -/
def rangeGates (base pad numQuads numGates : Nat) : List Constraint :=
  let slot := rangeSlot base pad numQuads
  ((List.range numGates).map fun g => Constraint.range
      { a := slot (4*g+3), b := slot (4*g+2), c := slot (4*g+1), d := slot (4*g) })
  ++ [{ d := slot numQuads }]

/-- `range_check_even` -/
def rangeCheckEven (witness numBits : Nat) : CM Unit := do
  if numBits == 0 then
    appendGate { ql := 1, a := witness }
  else
    let v ← getVal witness
    let numGates := numBits / 8 + (if numBits % 8 != 0 then 1 else 0)
    let numQuads := numGates * 4
    let pad := 1 + ((numQuads * 2 - numBits) / 2)
    -- accumulators for i = pad..=numQuads: the top (i − pad + 1) quads of the low bits
    let base := (← get).wit.size
    let k := numQuads + 1 - pad
    appendWitnesses ((List.range k).map (rangeAcc v k))
    appendCustomGates (rangeGates base pad numQuads numGates)
    if k > 0 then assertEqual (base + k - 1) witness

/-- `range_check` (odd widths peel the top bit) -/
def rangeCheck (value numBits : Nat) : CM Unit := do
  if numBits % 2 == 0 then
    rangeCheckEven value numBits
  else
    let top := numBits - 1
    let v ← getVal value
    let lower ← appendWitness (recomposeBits v 0 top)
    rangeCheckEven lower top
    let topBit ← appendWitness (bit v top)
    componentBoolean topBit
    let recomposed ← gateAdd { ql := 1, qr := pow2 top, a := lower, b := topBit }
    assertEqual recomposed value

def componentRangeBits (bits witness : Nat) : CM Unit := rangeCheck witness bits
def componentRange (bitPairs witness : Nat) : CM Unit :=
  rangeCheckEven witness (min (bitPairs * 2) Generated.RANGE_PAIRS_CLAMP_BITS)

/-! ### truncate.rs -/

def assertCanonicalTruncation (high low numBits : Nat) : CM Unit := do
  let highBits := Generated.SPLIT_TOTAL_BITS - numBits
  let rLow := recomposeBits (R - 1) 0 numBits
  let rHigh := recomposeBits (R - 1) numBits 256
  let diff ← gateAdd { ql := R - 1, a := high, qc := rHigh }
  rangeCheck diff highBits
  let dv ← getVal diff
  let inverse ← appendWitness ((finv? dv).getD 0)
  let product ← gateMul { qm := 1, a := diff, b := inverse }
  let isTop ← gateAdd { ql := R - 1, a := product, qc := 1 }
  appendGate { qm := 1, a := diff, b := isTop }
  let rLowMinusLow ← gateAdd { ql := R - 1, a := low, qc := rLow }
  let guard ← gateMul { qm := 1, a := isTop, b := rLowMinusLow }
  rangeCheck guard numBits

def bindTruncationSplit (input low numBits : Nat) : CM Unit := do
  let highBits := Generated.SPLIT_TOTAL_BITS - numBits
  let v ← getVal input
  let high ← appendWitness (recomposeBits v numBits 256)
  rangeCheck high highBits
  let recomposed ← gateAdd { ql := pow2 numBits, qr := 1, a := high, b := low }
  assertEqual recomposed input
  assertCanonicalTruncation high low numBits

/-- `component_truncate::<N>` (`N ≤ 254`) -/
def componentTruncate (n witness : Nat) : CM Nat := do
  let v ← getVal witness
  let low ← appendWitness (recomposeBits v 0 n)
  rangeCheck low n
  bindTruncationSplit witness low n
  pure low

/-! ### logic.rs -/

/-- quad `i` counted from the most significant of the low `2·pairs` bits -/
def quadFromTop (v pairs i : Nat) : Nat := (v / 4 ^ (pairs - 1 - i)) % 4

/-- `append_logic_component::<BIT_PAIRS>` (`BIT_PAIRS ≤ 127`) -/
def appendLogicComponent (pairs a b : Nat) (isXor : Bool) : CM Nat := do
  let av ← getVal a
  let bv ← getVal b
  let base : Constraint := if isXor then Constraint.logicXor {} else Constraint.logic {}
  let rec go : Nat → Nat → Constraint → Nat → Nat → Nat → CM Constraint
    | 0, _, s, _, _, _ => pure s
    | k+1, i, s, la, ra, oa => do
      let lq := quadFromTop av pairs i
      let rq := quadFromTop bv pairs i
      let oq := if isXor then lq ^^^ rq else lq &&& rq
      let pq := lq * rq
      let la := fadd (fmul la 4) lq
      let ra := fadd (fmul ra 4) rq
      let oa := fadd (fmul oa 4) oq
      let wa ← appendWitness la
      let wb ← appendWitness ra
      let wc ← appendWitness pq
      let wd ← appendWitness oa
      let s := { s with c := wc }
      appendCustomGate s
      go k (i+1) { s with a := wa, b := wb, d := wd } la ra oa
  let s ← go pairs 0 base 0 0 0
  appendCustomGate { a := s.a, b := s.b, d := s.d }
  if pairs != 0 then
    bindTruncationSplit a s.a (pairs * 2)
    bindTruncationSplit b s.b (pairs * 2)
  pure s.d

/-! ### point.rs -/

def appendAffinePoint (p : Pt) : CM Pt := do
  let x ← appendWitness p.1
  let y ← appendWitness p.2
  pure (x, y)

/-- `append_point` on an extended representation -/
def appendPoint (e : Ext) : CM (Except CErr Pt) := do
  match e.toAffine? with
  | none => pure (.error .degenerate)
  | some a => let w ← appendAffinePoint a; pure (.ok w)

def appendConstantPoint (e : Ext) : CM (Except CErr Pt) := do
  match e.toAffine? with
  | none => pure (.error .degenerate)
  | some a =>
    if !(e.onCurve && e.torsionFree) then pure (.error .notTorsionFree)
    else
      let x ← appendConstant a.1
      let y ← appendConstant a.2
      pure (.ok (x, y))

def appendPublicPoint (e : Ext) : CM (Except CErr Pt) := do
  match e.toAffine? with
  | none => pure (.error .degenerate)
  | some a =>
    let w ← appendAffinePoint a
    assertEqualConstant w.1 0 (some a.1)
    assertEqualConstant w.2 0 (some a.2)
    pure (.ok w)

def assertEqualPoint (a b : Pt) : CM Unit := do
  assertEqual a.1 b.1
  assertEqual a.2 b.2

def assertEqualPublicPoint (p : Pt) (e : Ext) : CM (Except CErr Unit) := do
  match e.toAffine? with
  | none => pure (.error .degenerate)
  | some a =>
    assertEqualConstant p.1 0 (some a.1)
    assertEqualConstant p.2 0 (some a.2)
    pure (.ok ())

/-- `add_point_gates` -/
def addPointGates (a b : Pt) : CM Pt := do
  let x1 ← getVal a.1
  let y1 ← getVal a.2
  let x2 ← getVal b.1
  let y2 ← getVal b.2
  let sum := edAddOrId (x1, y1) (x2, y2)
  let wx1y2 ← appendWitness (fmul x1 y2)
  let wx3 ← appendWitness sum.1
  let wy3 ← appendWitness sum.2
  appendCustomGate (Constraint.groupAddVariableBase { a := a.1, b := a.2, c := b.1, d := b.2 })
  appendCustomGate { a := wx3, b := wy3, d := wx1y2 }
  pure (wx3, wy3)

/-- `assert_torsion_free_gates(point, q)` -/
def assertTorsionFreeGates (point : Pt) (q : Pt) : CM Unit := do
  let qw ← appendAffinePoint q
  let u2 ← gateMul { qm := 1, a := qw.1, b := qw.1 }
  let v2 ← gateMul { qm := 1, a := qw.2, b := qw.2 }
  let u2v2 ← gateMul { qm := 1, a := u2, b := v2 }
  appendGate { ql := R - 1, a := u2, qr := 1, b := v2, qo := fneg EDWARDS_D, c := u2v2, qc := R - 1 }
  let q2 ← addPointGates qw qw
  let q4 ← addPointGates q2 q2
  let q8 ← addPointGates q4 q4
  assertEqualPoint point q8

/-- `assert_torsion_free_point` -/
def assertTorsionFreePoint (point : Pt) : CM Unit := do
  let u ← getVal point.1
  let v ← getVal point.2
  let q := if onCurve (u, v) then edMul Generated.EIGHT_INV (u, v) else Pt.id
  assertTorsionFreeGates point q

def componentNegPoint (p : Pt) : CM Pt := do
  let nx ← gateMul { ql := R - 1, a := p.1 }
  pure (nx, p.2)

def componentAddPoint (a b : Pt) : CM Pt := addPointGates a b

def componentSubPoint (a b : Pt) : CM Pt := do
  let nb ← componentNegPoint b
  componentAddPoint a nb

def selectIdentityGates (bit : Nat) (a : Pt) : CM Pt := do
  let x ← componentSelectZero bit a.1
  let y ← componentSelectOne bit a.2
  pure (x, y)

def componentSelectIdentity (bit : Nat) (a : Pt) : CM Pt := do
  componentBoolean bit
  selectIdentityGates bit a

def componentSelectPoint (bit : Nat) (a b : Pt) : CM Pt := do
  let x ← componentSelect bit a.1 b.1
  let y ← componentSelect bit a.2 b.2
  pure (x, y)

/-- `component_mul_point` -/
def componentMulPoint (jubjub : Nat) (point : Pt) : CM Pt := do
  let bits ← componentDecomposition Generated.MUL_POINT_BITS jubjub
  let rec go : List Nat → Pt → CM Pt
    | [], r => pure r
    | b :: bs, r => do
      let r ← addPointGates r r
      let p ← selectIdentityGates b point
      let r ← addPointGates r p
      go bs r
  go bits.reverse (ZERO, ONE)

/-! ### fixed_base.rs -/

def JUBJUB_SCALAR_BITS : Nat := Generated.JUBJUB_SCALAR_BITS
def FIXED_BASE_LEADING_ZERO_ROUNDS : Nat := Generated.FIXED_BASE_LEADING_ZERO_ROUNDS

def assertCanonicalJubjubScalar (scalar : Nat) : CM Unit := do
  rangeCheck scalar JUBJUB_SCALAR_BITS
  let dist ← gateAdd { ql := R - 1, a := scalar, qc := (RJ - 1) % R }
  rangeCheck dist JUBJUB_SCALAR_BITS

/-- `[2^i]G` for `i = 0..n−1`, affine (generator validated on curve, so no poles). -/
def doublings : Nat → Pt → List Pt
  | 0, _ => []
  | n+1, p => p :: doublings n (edAddOrId p p)

/-- host-side accumulators of the signed-digit ladder: given the digits most-significant first
    with their point multiples, returns per round `(scalarAcc, pointAcc, xyAlpha)` *before* the
    round, and the final `(scalarAcc, pointAcc)`. -/
def fixedAccs : List (Int × Pt) → Nat → Pt → List (Nat × Pt × Nat) × (Nat × Pt)
  | [], sa, pa => ([], (sa, pa))
  | (e, m) :: rest, sa, pa =>
    let (sAdd, pAdd) : Nat × Pt :=
      if e == 0 then (0, Pt.id) else if e == 1 then (1 % R, m) else (R - 1, edNeg m)
    let (rows, fin) := fixedAccs rest (fadd (fmul 2 sa) sAdd) (edAddOrId pa pAdd)
    ((sa, pa, fmul pAdd.1 pAdd.2) :: rows, fin)

/-- `append_fixed_base_signed_digits(jubjub, generator, digits)`; `digits` little endian (as wnaf). -/
def appendFixedBaseSignedDigits (jubjub : Nat) (gen : Pt) (digits : List Int) :
    CM (Except CErr Pt) := do
  assertCanonicalJubjubScalar jubjub
  if digits.any (fun d => d != 0 && d != 1 && d != -1) then
    pure (.error .unsupportedWnaf)
  else
    let rounds := Generated.FIXED_BASE_SIGNED_DIGIT_ROUNDS
    let mults := (doublings rounds gen).reverse      -- mults[i] = [2^(rounds−1−i)]G
    let (rows, fin) := fixedAccs (digits.reverse.zip mults) 0 Pt.id
    let base := (← get).wit.size
    -- witnesses: per round acc_x, acc_y, accumulated_bit, xy_alpha; then the final three
    appendWitnesses (rows.flatMap (fun (sa, pa, xy) => [pa.1, pa.2, sa, xy]) ++ [fin.2.1, fin.2.2, fin.1])
    let accX (i : Nat) := base + 4 * i
    let accY (i : Nat) := base + 4 * i + 1
    let accBit (i : Nat) := base + 4 * i + 2
    let xyAlpha (i : Nat) := base + 4 * i + 3
    -- round 0 is pinned to (identity, 0)
    assertEqualConstant (accX 0) 0 none
    assertEqualConstant (accY 0) 1 none
    assertEqualConstant (accBit 0) 0 none
    appendCustomGates ((mults.zipIdx).map fun (m, i) => Constraint.groupAddFixedBase
        { ql := m.1, qr := m.2, qc := fmul m.1 m.2, a := accX i, b := accY i, c := xyAlpha i, d := accBit i })
    let n := rows.length
    -- closing row carries the final accumulators on wires a, b, d
    appendGate { a := base + 4 * n, b := base + 4 * n + 1, d := base + 4 * n + 2 }
    assertEqualConstant (accBit FIXED_BASE_LEADING_ZERO_ROUNDS) 0 none
    assertEqual (base + 4 * n + 2) jubjub
    pure (.ok (base + 4 * n, base + 4 * n + 1))

/-- `component_mul_generator` -/
def componentMulGenerator (jubjub : Nat) (gen : Ext) : CM (Except CErr Pt) := do
  if gen.z == 0 || !gen.onCurve || !gen.primeOrder then
    pure (.error .generatorNotPrime)
  else
    let s ← getVal jubjub
    if s ≥ RJ then pure (.error .scalarMalformed)
    else
      let g := (gen.toAffine?).getD Pt.id
      appendFixedBaseSignedDigits jubjub g (wnaf2 s)

end Composer
end Plonk
