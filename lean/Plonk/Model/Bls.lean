/-
  L4 — BLS12-381: base field `F_p`, `F_p²`, G1 and G2 arithmetic, compressed / raw point codecs
  with the flag handling of `dusk-bls12_381`, subgroup checks.  External crate: modelled, not
  verified (DESIGN §3); every function here is compared with the crate differentially.
-/
import Plonk.Model.Field
namespace Plonk

/-- base field modulus `p` -/
def P : Nat := 0x1a0111ea397fe69a4b1ba7b6434bacd764774b84f38512bf6730d2a0f6b0f6241eabfffeb153ffffb9feffffffffaaab

@[inline] def padd (a b : Nat) : Nat := (a + b) % P
@[inline] def pneg (a : Nat) : Nat := (P - a % P) % P
@[inline] def psub (a b : Nat) : Nat := (a + (P - b % P)) % P
@[inline] def pmul (a b : Nat) : Nat := (a * b) % P
@[inline] def psq (a : Nat) : Nat := (a * a) % P
def ppow (a e : Nat) : Nat := powModF 384 (a % P) e P (1 % P)
def pinv (a : Nat) : Nat := ppow a (P - 2)

/-- square root in `F_p` (`p ≡ 3 mod 4`): `a^((p+1)/4)` if it squares back -/
def psqrt? (a : Nat) : Option Nat :=
  let s := ppow a ((P + 1) / 4)
  if psq s == a % P then some s else none

/-- `lexicographically_largest`: `y > (p−1)/2` -/
def plexLargest (y : Nat) : Bool := y % P > (P - 1) / 2

/-! ### G1 : y² = x³ + 4 -/

inductive G1 where
  | inf
  | aff (x y : Nat)
  deriving Repr, BEq, DecidableEq, Inhabited

structure J1 where   -- Jacobian coordinates for fast scalar multiplication
  x : Nat
  y : Nat
  z : Nat
  deriving Repr, Inhabited

namespace G1

def gen : G1 := .aff
  0x17f1d3a73197d7942695638c4fa9ac0fc3688c4f9774b905a14e3a3f171bac586c55e83ff97a1aeffb3af00adb22c6bb
  0x08b3f481e3aaa0f1a09e30ed741d8ae4fcf5e095d5d00af600db18cb2c04b3edd03cc744a2888ae40caa232946c5e7e1

def onCurve : G1 → Bool
  | .inf => true
  | .aff x y => psq y == padd (pmul (psq x) x) 4

def neg : G1 → G1
  | .inf => .inf
  | .aff x y => .aff x (pneg y)

/-- affine addition (complete case analysis) -/
def add : G1 → G1 → G1
  | .inf, q => q
  | p, .inf => p
  | .aff x1 y1, .aff x2 y2 =>
    if x1 == x2 then
      if y1 == y2 && y1 != 0 then
        let l := pmul (pmul 3 (psq x1)) (pinv (pmul 2 y1))
        let x3 := psub (psq l) (pmul 2 x1)
        .aff x3 (psub (pmul l (psub x1 x3)) y1)
      else .inf
    else
      let l := pmul (psub y2 y1) (pinv (psub x2 x1))
      let x3 := psub (psub (psq l) x1) x2
      .aff x3 (psub (pmul l (psub x1 x3)) y1)

end G1

namespace J1
def inf : J1 := ⟨1, 1, 0⟩
def ofAffine : G1 → J1
  | .inf => inf
  | .aff x y => ⟨x, y, 1⟩
def toAffine (p : J1) : G1 :=
  if p.z == 0 then .inf else
  let zi := pinv p.z; let zi2 := psq zi
  .aff (pmul p.x zi2) (pmul p.y (pmul zi2 zi))
/-- dbl-2009-l (a = 0) -/
def double (p : J1) : J1 :=
  if p.z == 0 || p.y == 0 then inf else
  let a := psq p.x; let b := psq p.y; let c := psq b
  let d := pmul 2 (psub (psub (psq (padd p.x b)) a) c)
  let e := pmul 3 a; let f := psq e
  let x3 := psub f (pmul 2 d)
  ⟨x3, psub (pmul e (psub d x3)) (pmul 8 c), pmul (pmul 2 p.y) p.z⟩
/-- add-2007-bl with the special cases handled -/
def add (p q : J1) : J1 :=
  if p.z == 0 then q else if q.z == 0 then p else
  let z1z1 := psq p.z; let z2z2 := psq q.z
  let u1 := pmul p.x z2z2; let u2 := pmul q.x z1z1
  let s1 := pmul (pmul p.y q.z) z2z2; let s2 := pmul (pmul q.y p.z) z1z1
  if u1 == u2 then (if s1 == s2 then double p else inf) else
  let h := psub u2 u1; let i := psq (pmul 2 h); let j := pmul h i
  let r := pmul 2 (psub s2 s1); let v := pmul u1 i
  let x3 := psub (psub (psq r) j) (pmul 2 v)
  ⟨x3, psub (pmul r (psub v x3)) (pmul 2 (pmul s1 j)),
   pmul (psub (psub (psq (padd p.z q.z)) z1z1) z2z2) h⟩
/-- MSB-first double-and-add over `bits` bits -/
def mul (p : J1) (k : Nat) (bits : Nat := 256) : J1 :=
  (List.range bits).foldl (fun acc i =>
    let acc := acc.double
    if bit k (bits - 1 - i) == 1 then acc.add p else acc) inf
end J1

namespace G1
/-- scalar multiplication -/
def smul (k : Nat) (p : G1) : G1 := ((J1.ofAffine p).mul k).toAffine
/-- in the prime-order subgroup: on curve and `[r]P = O` -/
def torsionFree (p : G1) : Bool := (smul R p) == .inf
/-- Σ kᵢ·Pᵢ, one shared doubling chain (Straus) -/
def msum (ps : List (Nat × G1)) : G1 :=
  let js := ps.map fun (k, p) => (k % R, J1.ofAffine p)
  ((List.range 255).foldl (fun acc i =>
    let acc := acc.double
    js.foldl (fun acc (k, pj) => if bit k (254 - i) == 1 then acc.add pj else acc) acc) J1.inf).toAffine
end G1

/-! ### bytes -/

def bytesToNatBE (bs : List Nat) : Nat := bs.foldl (fun acc b => acc * 256 + b % 256) 0
def bytesToNatLE (bs : List Nat) : Nat := bytesToNatBE bs.reverse
def natToBytesBE (v len : Nat) : List Nat := (List.range len).map fun i => (v / 256 ^ (len - 1 - i)) % 256
def natToBytesLE (v len : Nat) : List Nat := (List.range len).map fun i => (v / 256 ^ i) % 256

/-- compressed G1 (48 bytes, big endian, flag bits 7/6/5 of byte 0) -/
def G1.toCompressed : G1 → List Nat
  | .inf => (0x80 + 0x40) :: List.replicate 47 0
  | .aff x y =>
    let bs := natToBytesBE (x % P) 48
    match bs with
    | [] => []
    | b0 :: rest => (b0 + 0x80 + (if plexLargest y then 0x20 else 0)) :: rest

/-- `from_compressed_unchecked` (no subgroup check) -/
def G1.fromCompressedUnchecked? (bs : List Nat) : Option G1 :=
  if bs.length != 48 then none else
  let b0 := bs.headD 0
  let comp := (b0 / 128) % 2 == 1
  let infb := (b0 / 64) % 2 == 1
  let sort := (b0 / 32) % 2 == 1
  let x := bytesToNatBE ((b0 % 32) :: bs.tail)
  if x ≥ P then none else
  if infb && comp && !sort && x == 0 then some .inf else
  match psqrt? (padd (pmul (psq x) x) 4) with
  | none => none
  | some y =>
    let y := if plexLargest y != sort then pneg y else y
    if !infb && comp then some (.aff x y) else none

/-- `G1Affine::from_bytes`: compressed decoding + subgroup check -/
def G1.fromCompressed? (bs : List Nat) : Option G1 :=
  match G1.fromCompressedUnchecked? bs with
  | some p => if p.torsionFree then some p else none
  | none => none

/-! ### F_p² and G2 : y² = x³ + 4(1+u) -/

structure Fp2 where
  c0 : Nat
  c1 : Nat
  deriving Repr, BEq, DecidableEq, Inhabited

namespace Fp2
def zero : Fp2 := ⟨0, 0⟩
def one : Fp2 := ⟨1, 0⟩
def add (a b : Fp2) : Fp2 := ⟨padd a.c0 b.c0, padd a.c1 b.c1⟩
def sub (a b : Fp2) : Fp2 := ⟨psub a.c0 b.c0, psub a.c1 b.c1⟩
def neg (a : Fp2) : Fp2 := ⟨pneg a.c0, pneg a.c1⟩
def mul (a b : Fp2) : Fp2 :=
  ⟨psub (pmul a.c0 b.c0) (pmul a.c1 b.c1), padd (pmul a.c0 b.c1) (pmul a.c1 b.c0)⟩
def sq (a : Fp2) : Fp2 := mul a a
def scale (a : Fp2) (k : Nat) : Fp2 := ⟨pmul a.c0 k, pmul a.c1 k⟩
def isZero (a : Fp2) : Bool := a.c0 % P == 0 && a.c1 % P == 0
def inv (a : Fp2) : Fp2 :=
  let n := pinv (padd (psq a.c0) (psq a.c1))
  ⟨pmul a.c0 n, pmul (pneg a.c1) n⟩
def pow (a : Fp2) (e : Nat) : Fp2 :=
  let rec go : Nat → Fp2 → Nat → Fp2 → Fp2
    | 0, _, _, acc => acc
    | f+1, b, e, acc => if e == 0 then acc else go f (sq b) (e / 2) (if e % 2 == 1 then mul acc b else acc)
  go 800 a e one
/-- square root (Algorithm 9 of eprint 2012/685, `p ≡ 3 mod 4`), as in the crate -/
def sqrt? (a : Fp2) : Option Fp2 :=
  if a.isZero then some zero else
  let a1 := pow a ((P - 3) / 4)
  let alpha := mul (sq a1) a
  let x0 := mul a1 a
  let cand :=
    if alpha == neg one then (⟨pneg x0.c1, x0.c0⟩ : Fp2)    -- multiply by u
    else mul (pow (add alpha one) ((P - 1) / 2)) x0
  if sq cand == ⟨a.c0 % P, a.c1 % P⟩ then some cand else none
/-- `lexicographically_largest`: on c1, ties broken by c0 -/
def lexLargest (a : Fp2) : Bool := plexLargest a.c1 || (a.c1 % P == 0 && plexLargest a.c0)
end Fp2

inductive G2 where
  | inf
  | aff (x y : Fp2)
  deriving Repr, BEq, DecidableEq, Inhabited

namespace G2
def B2 : Fp2 := ⟨4, 4⟩
def gen : G2 := .aff
  ⟨0x024aa2b2f08f0a91260805272dc51051c6e47ad4fa403b02b4510b647ae3d1770bac0326a805bbefd48056c8c121bdb8,
   0x13e02b6052719f607dacd3a088274f65596bd0d09920b61ab5da61bbdc7f5049334cf11213945d57e5ac7d055d042b7e⟩
  ⟨0x0ce5d527727d6e118cc9cdc6da2e351aadfd9baa8cbdd3a76d429a695160d12c923ac9cc3baca289e193548608b82801,
   0x0606c4a02ea734cc32acd2b02bc28b99cb3e287e85a763af267492ab572e99ab3f370d275cec1da1aaa9075ff05f79be⟩
def onCurve : G2 → Bool
  | .inf => true
  | .aff x y => y.sq == (x.sq.mul x).add B2
def neg : G2 → G2
  | .inf => .inf
  | .aff x y => .aff x y.neg
def add : G2 → G2 → G2
  | .inf, q => q
  | p, .inf => p
  | .aff x1 y1, .aff x2 y2 =>
    if x1 == x2 then
      if y1 == y2 && !y1.isZero then
        let l := ((x1.sq).scale 3).mul ((y1.scale 2).inv)
        let x3 := (l.sq).sub (x1.scale 2)
        .aff x3 ((l.mul (x1.sub x3)).sub y1)
      else .inf
    else
      let l := (y2.sub y1).mul ((x2.sub x1).inv)
      let x3 := ((l.sq).sub x1).sub x2
      .aff x3 ((l.mul (x1.sub x3)).sub y1)
/-- Jacobian coordinates over `F_p²` (same formulas as `J1`) -/
structure J2 where
  x : Fp2
  y : Fp2
  z : Fp2
  deriving Inhabited

namespace J2
def inf : J2 := ⟨Fp2.one, Fp2.one, Fp2.zero⟩
def double (p : J2) : J2 :=
  if p.z.isZero || p.y.isZero then inf else
  let a := p.x.sq; let b := p.y.sq; let c := b.sq
  let d := (((p.x.add b).sq.sub a).sub c).scale 2
  let e := a.scale 3; let f := e.sq
  let x3 := f.sub (d.scale 2)
  ⟨x3, (e.mul (d.sub x3)).sub (c.scale 8), (p.y.scale 2).mul p.z⟩
def add (p q : J2) : J2 :=
  if p.z.isZero then q else if q.z.isZero then p else
  let z1z1 := p.z.sq; let z2z2 := q.z.sq
  let u1 := p.x.mul z2z2; let u2 := q.x.mul z1z1
  let s1 := (p.y.mul q.z).mul z2z2; let s2 := (q.y.mul p.z).mul z1z1
  if u1 == u2 then (if s1 == s2 then double p else inf) else
  let h := u2.sub u1; let i := (h.scale 2).sq; let j := h.mul i
  let r := (s2.sub s1).scale 2; let v := u1.mul i
  let x3 := (r.sq.sub j).sub (v.scale 2)
  ⟨x3, (r.mul (v.sub x3)).sub ((s1.mul j).scale 2), (((p.z.add q.z).sq.sub z1z1).sub z2z2).mul h⟩
end J2

/-- double-and-add in Jacobian coordinates -/
def smul (k : Nat) (p : G2) : G2 :=
  match p with
  | .inf => .inf
  | .aff x y =>
    let pj : J2 := ⟨x, y, Fp2.one⟩
    let r := (List.range 256).foldl (fun acc i =>
      let acc := acc.double
      if bit k (255 - i) == 1 then acc.add pj else acc) J2.inf
    if r.z.isZero then .inf else
    let zi := r.z.inv; let zi2 := zi.sq
    .aff (r.x.mul zi2) (r.y.mul (zi2.mul zi))
def torsionFree (p : G2) : Bool := smul R p == .inf

/-- compressed G2: 96 bytes, `c1` first then `c0`, flags in byte 0 -/
def toCompressed : G2 → List Nat
  | .inf => (0x80 + 0x40) :: List.replicate 95 0
  | .aff x y =>
    match natToBytesBE (x.c1 % P) 48 ++ natToBytesBE (x.c0 % P) 48 with
    | [] => []
    | b0 :: rest => (b0 + 0x80 + (if y.lexLargest then 0x20 else 0)) :: rest

def fromCompressedUnchecked? (bs : List Nat) : Option G2 :=
  if bs.length != 96 then none else
  let b0 := bs.headD 0
  let comp := (b0 / 128) % 2 == 1
  let infb := (b0 / 64) % 2 == 1
  let sort := (b0 / 32) % 2 == 1
  let xc1 := bytesToNatBE ((b0 % 32) :: (bs.take 48).tail)
  let xc0 := bytesToNatBE (bs.drop 48)
  if xc1 ≥ P || xc0 ≥ P then none else
  let x : Fp2 := ⟨xc0, xc1⟩
  if infb && comp && !sort && x.isZero then some .inf else
  match Fp2.sqrt? ((x.sq.mul x).add B2) with
  | none => none
  | some y =>
    let y := if y.lexLargest != sort then y.neg else y
    if !infb && comp then some (.aff x y) else none

def fromCompressed? (bs : List Nat) : Option G2 :=
  match fromCompressedUnchecked? bs with
  | some p => if p.torsionFree then some p else none
  | none => none
end G2

end Plonk
