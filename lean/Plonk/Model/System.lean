/-
  L1 — satisfaction of a whole compiled system: every row identity on the padded domain
  (next-row wires cyclic), plus the copy constraints of a compiled layout.

  Rust anchors: `src/compiler/prover.rs::prove_inner` (wire vectors padded with zero values),
  `src/proof_system/quotient_poly.rs` (`a_w = a_eval_8n[i + 8]`, cyclic), `src/compiler.rs`
  (`size = constraints.next_power_of_two()`), `src/composer/permutation.rs`.
-/
import Plonk.Model.Composer
namespace Plonk

def nextPow2 (n : Nat) : Nat :=
  let rec go : Nat → Nat → Nat
    | 0, p => p
    | f+1, p => if p ≥ n then p else go f (2 * p)
  go 64 1

structure RowVals where
  a : Nat
  b : Nat
  c : Nat
  d : Nat
  deriving Repr, BEq, Inhabited

namespace Composer

/-- padded size of the proving domain -/
def paddedSize (c : Composer) : Nat := nextPow2 c.gates.size

/-- wire values of row `i` of the padded table (zero beyond the last gate) -/
def rowVals (c : Composer) (i : Nat) : RowVals :=
  match c.gates[i]? with
  | some g => ⟨c.val g.a, c.val g.b, c.val g.c, c.val g.d⟩
  | none => ⟨0, 0, 0, 0⟩

def gateAt (c : Composer) (i : Nat) : Gate := c.gates.getD i {}

/-- dense public input of row `i` (last insertion wins, as `HashMap::insert`) -/
def piAt (c : Composer) (i : Nat) : Nat :=
  c.pis.foldl (fun acc (r, v) => if r == i then v else acc) 0

/-- identity components of row `i` with the next row taken cyclically -/
def rowCompsAt (c : Composer) (i : Nat) : List (String × Nat) :=
  let n := c.paddedSize
  let r := c.rowVals i
  let nx := c.rowVals ((i + 1) % n)
  rowComps (c.gateAt i) r.a r.b r.c r.d nx.a nx.b nx.d (c.piAt i)

def rowHoldsAt (c : Composer) (i : Nat) : Bool :=
  let n := c.paddedSize
  let r := c.rowVals i
  let nx := c.rowVals ((i + 1) % n)
  rowHolds (c.gateAt i) r.a r.b r.c r.d nx.a nx.b nx.d (c.piAt i)

/-- wire values of row `i` under an arbitrary assignment `w` of witness values (what an
    adversarial prover may choose; the layout is fixed) -/
def rowValsW (c : Composer) (w : Nat → Nat) (i : Nat) : RowVals :=
  match c.gates[i]? with
  | some g => ⟨w g.a, w g.b, w g.c, w g.d⟩
  | none => ⟨0, 0, 0, 0⟩

/-- row `i` holds under the assignment `w`; the next row is row `i+1` of the table (zero wires
    past the end — every component ends on an unselected row, so this is only read inside it) -/
def rowHoldsW (c : Composer) (w : Nat → Nat) (i : Nat) : Bool :=
  let r := c.rowValsW w i
  let nx := c.rowValsW w (i + 1)
  rowHolds (c.gateAt i) r.a r.b r.c r.d nx.a nx.b nx.d (c.piAt i)

/-- rows `lo ≤ i < hi` hold under `w` -/
def rowsHoldW (c : Composer) (w : Nat → Nat) (lo hi : Nat) : Prop :=
  ∀ i, lo ≤ i → i < hi → c.rowHoldsW w i = true

/-- first failing `(row, component)` if any -/
def firstFailure (c : Composer) : Option (Nat × String) :=
  (List.range c.paddedSize).findSome? fun i =>
    ((c.rowCompsAt i).find? (fun p => p.2 != 0)).map fun p => (i, p.1)

/-- every row identity holds on the padded domain -/
def sysSat (c : Composer) : Bool :=
  (List.range c.paddedSize).all c.rowHoldsAt

/-- Copy constraints of a *compiled* layout `lay` against the wire values of a proving-time
    composer `c` (same number of gates): positions wired to the same compiled witness carry
    equal values. Returns the first violated compiled witness index. -/
def copyViolation (lay c : Composer) : Option Nat := Id.run do
  let mut seen : Array (Option Nat) := Array.replicate lay.wit.size none
  for i in [0:lay.gates.size] do
    let g := lay.gateAt i
    let r := c.rowVals i
    for (w, v) in [(g.a, r.a), (g.b, r.b), (g.c, r.c), (g.d, r.d)] do
      match seen.getD w none with
      | none => seen := seen.setIfInBounds w (some v)
      | some v0 => if v0 != v then return some w
  return none

/-- identity components of row `i` of the *compiled* layout `lay` evaluated on the wire values
    and public inputs of the proving-time composer `c` (what `Prover::prove` checks) -/
def rowCompsMixed (lay c : Composer) (i : Nat) : List (String × Nat) :=
  let n := lay.paddedSize
  let r := c.rowVals i
  let nx := c.rowVals ((i + 1) % n)
  rowComps (lay.gateAt i) r.a r.b r.c r.d nx.a nx.b nx.d (c.piAt i)

/-- outcome of proving the instance `c` against keys compiled from `lay` -/
def proveOutcome (lay c : Composer) : String :=
  if c.gates.size != lay.gates.size then "sizeerr"
  else
    match (List.range lay.paddedSize).findSome? (fun i =>
        ((rowCompsMixed lay c i).find? (fun p => p.2 != 0)).map fun p => (i, p.1)) with
    | some (i, n) => s!"unsat row={i} comp={n}"
    | none =>
      match copyViolation lay c with
      | some w => s!"unsat copy={w}"
      | none => "sat"

end Composer
end Plonk
