/-
  L7/L8 — proof / verifier-key / verifier byte codecs, the transcript seeding, and the verifier in
  two forms: `verifyTerms` (the regrouped MSM exactly as `Proof::verify` / `verify_legacy` builds
  it) and `verifyRefPoint` (the textbook equation).  The final pairing equation is decided in the
  trapdoor view (`x` known): `[x]·L + Rgt = O` with `L = −(W_z + u·W_zω)`.

  Rust anchors: `src/proof_system/proof.rs`, `src/proof_system/widget.rs`,
  `src/proof_system/widget/*/verifierkey.rs`, `src/proof_system/linearization_poly.rs`
  (`ProofEvaluations`), `src/compiler/verifier.rs`, `src/transcript.rs`.
-/
import Plonk.Generated
import Plonk.Model.Gate
import Plonk.Model.FFT
import Plonk.Model.Bls
import Plonk.Model.Transcript
namespace Plonk

structure Evals where
  a : Nat
  b : Nat
  c : Nat
  d : Nat
  aw : Nat
  bw : Nat
  dw : Nat
  qarith : Nat
  qc : Nat
  ql : Nat
  qr : Nat
  s1 : Nat
  s2 : Nat
  s3 : Nat
  z : Nat
  deriving Repr, BEq, Inhabited

structure ProofM where
  aC : G1
  bC : G1
  cC : G1
  dC : G1
  zC : G1
  tLow : G1
  tMid : G1
  tHigh : G1
  tFourth : G1
  wz : G1
  wzw : G1
  ev : Evals
  deriving Repr, BEq, Inhabited

structure VKey where
  n : Nat
  qm : G1
  ql : G1
  qr : G1
  qo : G1
  qf : G1
  qc : G1
  qarith : G1
  qlogic : G1
  qrange : G1
  qfixed : G1
  qvar : G1
  s1 : G1
  s2 : G1
  s3 : G1
  s4 : G1
  deriving Repr, BEq, Inhabited

structure OpeningKeyM where
  g : G1
  h : G2
  xh : G2
  deriving Repr, BEq, Inhabited

structure VerifierM where
  label : List Nat
  vk : VKey
  ok : OpeningKeyM
  piIndexes : List Nat
  size : Nat
  constraints : Nat
  deriving Repr, Inhabited

inductive PVersion where | v1 | v2 | v3
  deriving Repr, BEq, DecidableEq

/-! ### byte codecs -/

/-- canonical scalar: 32 bytes little endian, value `< r` -/
def scalarFromBytes? (bs : List Nat) : Option Nat :=
  if bs.length != 32 then none else
  let v := bytesToNatLE bs
  if v < R then some v else none

def splitAt? (bs : List Nat) (n : Nat) : Option (List Nat × List Nat) :=
  if bs.length < n then none else some (bs.take n, bs.drop n)

/-- read `k` compressed G1 points -/
def readG1s : Nat → List Nat → Option (List G1 × List Nat)
  | 0, bs => some ([], bs)
  | k+1, bs => do
    let (h, t) ← splitAt? bs 48
    let p ← G1.fromCompressed? h
    let (ps, r) ← readG1s k t
    pure (p :: ps, r)

def readScalars : Nat → List Nat → Option (List Nat × List Nat)
  | 0, bs => some ([], bs)
  | k+1, bs => do
    let (h, t) ← splitAt? bs 32
    let s ← scalarFromBytes? h
    let (ss, r) ← readScalars k t
    pure (s :: ss, r)

/-- `Proof::from_slice` (1008 = 11·48 + 15·32 bytes; longer input: the prefix is read) -/
def ProofM.fromBytes? (bs : List Nat) : Option ProofM := do
  if bs.length < 1008 then none
  let (ps, r) ← readG1s 11 bs
  let (ss, _) ← readScalars 15 r
  match ps, ss with
  | [a, b, c, d, z, tl, tm, th, tf, wz, wzw], [ea, eb, ec, ed, eaw, ebw, edw, eqa, eqc, eql, eqr, es1, es2, es3, ez] =>
    some { aC := a, bC := b, cC := c, dC := d, zC := z, tLow := tl, tMid := tm, tHigh := th, tFourth := tf,
           wz := wz, wzw := wzw,
           ev := { a := ea, b := eb, c := ec, d := ed, aw := eaw, bw := ebw, dw := edw, qarith := eqa, qc := eqc,
                   ql := eql, qr := eqr, s1 := es1, s2 := es2, s3 := es3, z := ez } }
  | _, _ => none

def scalarBytesLE (x : Nat) : List Nat := natToBytesLE (x % R) 32

def ProofM.toBytes (p : ProofM) : List Nat :=
  ([p.aC, p.bC, p.cC, p.dC, p.zC, p.tLow, p.tMid, p.tHigh, p.tFourth, p.wz, p.wzw].flatMap G1.toCompressed) ++
  ([p.ev.a, p.ev.b, p.ev.c, p.ev.d, p.ev.aw, p.ev.bw, p.ev.dw, p.ev.qarith, p.ev.qc, p.ev.ql, p.ev.qr,
    p.ev.s1, p.ev.s2, p.ev.s3, p.ev.z].flatMap scalarBytesLE)

/-- `VerifierKey::from_slice`: 8-byte LE `n` + 15 commitments are read from a 968-byte buffer
    (the trailing 240 bytes are ignored) -/
def VKey.fromBytes? (bs : List Nat) : Option VKey := do
  if bs.length < 968 then none
  let (nb, r) ← splitAt? bs 8
  let (ps, _) ← readG1s 15 r
  match ps with
  | [qm, ql, qr, qo, qf, qc, qa, qlg, qrg, qfx, qv, s1, s2, s3, s4] =>
    some { n := bytesToNatLE nb, qm := qm, ql := ql, qr := qr, qo := qo, qf := qf, qc := qc, qarith := qa,
           qlogic := qlg, qrange := qrg, qfixed := qfx, qvar := qv, s1 := s1, s2 := s2, s3 := s3, s4 := s4 }
  | _ => none

def VKey.toBytes (k : VKey) : List Nat :=
  let body := natToBytesLE k.n 8 ++
    ([k.qm, k.ql, k.qr, k.qo, k.qf, k.qc, k.qarith, k.qlogic, k.qrange, k.qfixed, k.qvar, k.s1, k.s2, k.s3, k.s4].flatMap
      G1.toCompressed)
  body ++ List.replicate (968 - body.length) 0

/-- `OpeningKey::from_slice` (240 bytes): every point on curve, torsion free and not the identity -/
def OpeningKeyM.fromBytes? (bs : List Nat) : Option OpeningKeyM := do
  if bs.length < 240 then none
  let g ← G1.fromCompressed? (bs.take 48)
  let h ← G2.fromCompressed? ((bs.drop 48).take 96)
  let xh ← G2.fromCompressed? ((bs.drop 144).take 96)
  if g == .inf || h == .inf || xh == .inf then none
  some { g := g, h := h, xh := xh }

def OpeningKeyM.toBytes (k : OpeningKeyM) : List Nat :=
  k.g.toCompressed ++ k.h.toCompressed ++ k.xh.toCompressed

def u64be? (bs : List Nat) : Option (Nat × List Nat) := do
  let (h, t) ← splitAt? bs 8
  pure (bytesToNatBE h, t)

def USIZE_MAX : Nat := 2 ^ 64 - 1

inductive VDecErr where | notEnoughBytes | invalid | domain
  deriving Repr, BEq, DecidableEq

/-- `Verifier::try_from_bytes` (framing with checked additions, then the field decoders, then
    `Verifier::new`, which fails when the domain of `vk.n` does not exist) -/
def VerifierM.fromBytes (bs : List Nat) : Except VDecErr VerifierM :=
  if bs.length < 48 then .error .notEnoughBytes else
  match u64be? bs with
  | none => .error .notEnoughBytes
  | some (labelLen, r) =>
  match u64be? r with
  | none => .error .notEnoughBytes
  | some (vkLen, r) =>
  match u64be? r with
  | none => .error .notEnoughBytes
  | some (okLen, r) =>
  match u64be? r with
  | none => .error .notEnoughBytes
  | some (piLen, r) =>
  match u64be? r with
  | none => .error .notEnoughBytes
  | some (size, r) =>
  match u64be? r with
  | none => .error .notEnoughBytes
  | some (constraints, r) =>
    let piBytes := piLen * 8
    if piBytes > USIZE_MAX then .error .notEnoughBytes else
    let req := labelLen + vkLen
    if req > USIZE_MAX then .error .notEnoughBytes else
    let req := req + okLen
    if req > USIZE_MAX then .error .notEnoughBytes else
    let req := req + piBytes
    if req > USIZE_MAX then .error .notEnoughBytes else
    if r.length < req then .error .notEnoughBytes else
    let label := r.take labelLen
    let r := r.drop labelLen
    let vkB := r.take vkLen
    let r := r.drop vkLen
    let okB := r.take okLen
    let r := r.drop okLen
    let piB := r.take piBytes
    match VKey.fromBytes? vkB with
    | none => .error .invalid
    | some vk =>
    match OpeningKeyM.fromBytes? okB with
    | none => .error .invalid
    | some ok =>
      let idx := (List.range piLen).map fun i => bytesToNatBE ((piB.drop (8 * i)).take 8)
      match Domain.new? vk.n with
      | none => .error .domain
      | some _ => .ok { label := label, vk := vk, ok := ok, piIndexes := idx, size := size, constraints := constraints }

def u64beBytes (n : Nat) : List Nat := natToBytesBE n 8

def VerifierM.toBytes (v : VerifierM) : List Nat :=
  let vk := v.vk.toBytes
  let ok := v.ok.toBytes
  u64beBytes v.label.length ++ u64beBytes vk.length ++ u64beBytes ok.length ++ u64beBytes v.piIndexes.length ++
  u64beBytes v.size ++ u64beBytes v.constraints ++ v.label ++ vk ++ ok ++ v.piIndexes.flatMap u64beBytes

/-! ### transcript -/

/-- One framed transcript operation. The verifier's whole transcript is the list of these, in the
    order read from the source (`Generated.SEED_TRANSCRIPT`, `Generated.VERIFIER_TRANSCRIPT`). -/
inductive TOp where
  | msg (label : String) (bytes : List Nat)     -- `append_message(label, bytes)`
  | u64 (label : String) (n : Nat)               -- `append_u64(label, n)`
  | chal (label : String)                        -- `challenge_scalar(label)` (64 bytes, reduced)
  | echo (label : String) (name : String)        -- `append_scalar(label, <challenge drawn as name>)`
  deriving Repr, BEq, DecidableEq

/-- interpret an operation list on a transcript, collecting the challenges by label -/
def runOps (ops : List TOp) (t : Transcript) : Transcript × List (String × Nat) :=
  ops.foldl (fun (st : Transcript × List (String × Nat)) op =>
    let (t, chs) := st
    match op with
    | .msg l b => (t.appendMessage (Strobe.strBytes l) b, chs)
    | .u64 l n => (t.appendU64 (Strobe.strBytes l) n, chs)
    | .chal l => let (t, c) := t.challengeScalar l; (t, (l, c) :: chs)
    | .echo l name => (t.appendScalar l ((chs.find? (·.1 == name)).map (·.2) |>.getD 0), chs)) (t, [])

/-- Merlin's `Transcript::new(label)` is STROBE initialised with "Merlin v1.0" followed by
    `append_message("dom-sep", label)` -/
def merlinInit : Transcript := ⟨Strobe.new (Strobe.strBytes "Merlin v1.0")⟩

def circuitDomainSepOps (n : Nat) : List TOp :=
  [.msg "dom-sep" (Strobe.strBytes "circuit_size"), .u64 "n" n]

/-- the verifier-key commitments in the order read from the source (`Generated.SEED_TRANSCRIPT`) -/
def VKey.byLabel (k : VKey) (bindS4 : Bool) (label : String) : G1 :=
  match label with
  | "q_m" => k.qm | "q_l" => k.ql | "q_r" => k.qr | "q_o" => k.qo | "q_c" => k.qc | "q_f" => k.qf
  | "q_arith" => k.qarith | "q_range" => k.qrange | "q_logic" => k.qlogic
  | "q_variable_group_add" => k.qvar | "q_fixed_group_add" => k.qfixed
  | "s_sigma_1" => k.s1 | "s_sigma_2" => k.s2 | "s_sigma_3" => k.s3
  | "s_sigma_4" => if bindS4 then k.s4 else k.s1
  | _ => .inf

/-- `Transcript::base` (legacy: `v3 = false`) / `base_v3`: label, circuit size, every verifier-key
    commitment (`seed_transcript_inner(bind_s_sigma_4 = v3)`), the key's own `n` -/
def baseOps (label : List Nat) (k : VKey) (constraints : Nat) (v3 : Bool) : List TOp :=
  [.msg "dom-sep" label] ++ circuitDomainSepOps constraints ++
  Generated.SEED_TRANSCRIPT.map (fun l => TOp.msg l (k.byLabel v3 l).toCompressed) ++
  circuitDomainSepOps k.n

def ProofM.commByLabel (p : ProofM) (l : String) : G1 :=
  match l with
  | "a_comm" => p.aC | "b_comm" => p.bC | "c_comm" => p.cC | "d_comm" => p.dC | "z_comm" => p.zC
  | "t_low_comm" => p.tLow | "t_mid_comm" => p.tMid | "t_high_comm" => p.tHigh | "t_fourth_comm" => p.tFourth
  | "w_z_chall_comm" => p.wz | "w_z_chall_w_comm" => p.wzw | _ => .inf

def Evals.byLabel (e : Evals) (l : String) : Nat :=
  match l with
  | "a_eval" => e.a | "b_eval" => e.b | "c_eval" => e.c | "d_eval" => e.d
  | "s_sigma_1_eval" => e.s1 | "s_sigma_2_eval" => e.s2 | "s_sigma_3_eval" => e.s3 | "z_eval" => e.z
  | "a_w_eval" => e.aw | "b_w_eval" => e.bw | "d_w_eval" => e.dw
  | "q_arith_eval" => e.qarith | "q_c_eval" => e.qc | "q_l_eval" => e.ql | "q_r_eval" => e.qr
  | _ => 0

/-- `Proof::verify`'s transcript run, item by item from `Generated.VERIFIER_TRANSCRIPT` -/
def proofOps (p : ProofM) : List TOp :=
  Generated.VERIFIER_TRANSCRIPT.filterMap fun item =>
    match item.splitOn ":" with
    | ["c", l] => some (.msg l (p.commByLabel l).toCompressed)
    | ["s", l] => some (if l == "beta" then .echo l "beta" else .msg l (Transcript.scalarBytes (p.ev.byLabel l)))
    | ["ch", l] => some (.chal l)
    | _ => none

/-- the complete statement-and-proof transcript of one verification -/
def statementOps (label : List Nat) (k : VKey) (constraints : Nat) (v3 : Bool) (pis : List Nat) (p : ProofM) : List TOp :=
  baseOps label k constraints v3 ++ pis.map (fun pi => TOp.msg "pi" (Transcript.scalarBytes pi)) ++ proofOps p

structure Challenges where
  beta : Nat
  gamma : Nat
  alpha : Nat
  rangeSep : Nat
  logicSep : Nat
  fixedSep : Nat
  varSep : Nat
  z : Nat
  v : Nat
  vw : Nat
  u : Nat
  deriving Repr, Inhabited

def challengesOf (chs : List (String × Nat)) : Challenges :=
  let get (l : String) : Nat := (chs.find? (·.1 == l)).map (·.2) |>.getD 0
  { beta := get "beta", gamma := get "gamma", alpha := get "alpha",
    rangeSep := get "range separation challenge", logicSep := get "logic separation challenge",
    fixedSep := get "fixed base separation challenge", varSep := get "variable base separation challenge",
    z := get "z_challenge", v := get "v_challenge", vw := get "v_w_challenge", u := get "u_challenge" }

/-- all challenges of one verification -/
def verifierChallenges (label : List Nat) (k : VKey) (constraints : Nat) (v3 : Bool) (pis : List Nat) (p : ProofM) :
    Challenges :=
  challengesOf (runOps (statementOps label k constraints v3 pis p) merlinInit).2

/-! ### linearisation scalars (one per widget) -/

def rangeScalar (sep : Nat) (e : Evals) : Nat :=
  let k := fsq sep; let k2 := fsq k; let k3 := fmul k2 k
  let cs := rangeComps e.a e.b e.c e.d e.dw
  fmul (fadd (fadd (fadd (cs.getD 0 0) (fmul (cs.getD 1 0) k)) (fmul (cs.getD 2 0) k2)) (fmul (cs.getD 3 0) k3)) sep

def logicScalar (sep : Nat) (e : Evals) : Nat :=
  let k := fsq sep; let k2 := fsq k; let k3 := fmul k2 k; let k4 := fmul k3 k
  let cs := logicComps e.qc e.a e.aw e.b e.bw e.c e.d e.dw
  fmul (fadd (fadd (fadd (fadd (cs.getD 0 0) (fmul (cs.getD 1 0) k)) (fmul (cs.getD 2 0) k2)) (fmul (cs.getD 3 0) k3))
        (fmul (cs.getD 4 0) k4)) sep

def fixedScalar (sep : Nat) (e : Evals) : Nat :=
  let k := fsq sep; let k2 := fsq k; let k3 := fmul k2 k
  let cs := fixedComps e.ql e.qr e.qc e.a e.aw e.b e.bw e.c e.d e.dw
  -- [bitCons, xyCons, xCons, yCons] weighted 1, κ, κ², κ³
  fmul (fadd (fadd (fadd (cs.getD 0 0) (fmul (cs.getD 2 0) k2)) (fmul (cs.getD 3 0) k3)) (fmul (cs.getD 1 0) k)) sep

def varScalar (sep : Nat) (e : Evals) : Nat :=
  let k := fsq sep
  let cs := varComps e.a e.aw e.b e.bw e.c e.d e.dw
  fmul (fadd (fadd (cs.getD 0 0) (fmul (cs.getD 1 0) k)) (fmul (cs.getD 2 0) (fsq k))) sep

/-- the linearisation commitment `[D]` as (scalar, point) terms, in the code's order -/
def linearizationTerms (k : VKey) (p : ProofM) (ch : Challenges) (zh l1 : Nat) : List (Nat × G1) :=
  let e := p.ev
  let K1 := Generated.K1; let K2 := Generated.K2; let K3 := Generated.K3
  let arith : List (Nat × G1) :=
    [(fmul (fmul e.a e.b) e.qarith, k.qm), (fmul e.a e.qarith, k.ql), (fmul e.b e.qarith, k.qr),
     (fmul e.c e.qarith, k.qo), (fmul e.d e.qarith, k.qf), (e.qarith, k.qc)]
  let bz := fmul ch.beta ch.z
  let x := fmul (fmul (fmul (fadd (fadd e.a bz) ch.gamma)
                            (fadd (fadd e.b (fmul (fmul ch.beta K1) ch.z)) ch.gamma))
                      (fadd (fadd e.c (fmul (fmul ch.beta K2) ch.z)) ch.gamma))
                (fmul (fadd (fadd e.d (fmul (fmul ch.beta K3) ch.z)) ch.gamma) ch.alpha)
  let r := fmul l1 (fsq ch.alpha)
  let y := fneg (fmul (fmul (fmul (fadd (fadd e.a (fmul ch.beta e.s1)) ch.gamma)
                                   (fadd (fadd e.b (fmul ch.beta e.s2)) ch.gamma))
                             (fadd (fadd e.c (fmul ch.beta e.s3)) ch.gamma))
                       (fmul (fmul ch.beta e.z) ch.alpha))
  let zhNeg := fneg zh
  let zPowN := fadd zh 1
  let zN := fmul zPowN zhNeg
  let z2N := fmul (fsq zPowN) zhNeg
  let z3N := fmul z2N zPowN
  arith ++
  [(rangeScalar ch.rangeSep e, k.qrange), (logicScalar ch.logicSep e, k.qlogic),
   (fixedScalar ch.fixedSep e, k.qfixed), (varScalar ch.varSep e, k.qvar),
   (fadd (fadd x r) ch.u, p.zC), (y, k.s4),
   (zhNeg, p.tLow), (zN, p.tMid), (z2N, p.tHigh), (z3N, p.tFourth)]

/-- `r_0` -/
def r0Eval (e : Evals) (ch : Challenges) (l1 pi : Nat) : Nat :=
  fsub (fsub pi (fmul l1 (fsq ch.alpha)))
    (fmul (fmul (fmul (fmul (fmul ch.alpha (fadd (fadd e.a (fmul ch.beta e.s1)) ch.gamma))
                                (fadd (fadd e.b (fmul ch.beta e.s2)) ch.gamma))
                          (fadd (fadd e.c (fmul ch.beta e.s3)) ch.gamma))
                    (fadd e.d ch.gamma)) e.z)

/-- powers `v, v², …, v^k` -/
def vPowers (v k : Nat) : List Nat :=
  ((List.range k).foldl (fun (acc : List Nat × Nat) _ => (acc.2 :: acc.1, fmul acc.2 v)) ([], v % R)).1.reverse

/-- The grouped MSM of `Proof::verify` (`legacy = true`: `verify_legacy`), as (scalar, point) terms;
    returns also `L = −(W_z + u·W_zω)` as terms. `none` when `z` hits the domain / a public-input root. -/
def verifyTerms (vkey : VKey) (g : G1) (d : Domain) (roots pis : List Nat) (p : ProofM) (ch : Challenges)
    (legacy : Bool) : Option (List (Nat × G1) × List (Nat × G1)) :=
  match d.lagrangeAndPi roots pis ch.z with
  | none => none
  | some (l1, piEval) =>
    let e := p.ev
    let zh := d.evaluateVanishing ch.z
    let r0 := r0Eval e ch l1 piEval
    let vmax := if legacy then Generated.V_MAX_DEGREE_LEGACY else Generated.V_MAX_DEGREE
    let vs := vPowers ch.v vmax
    let s0 := fmul ch.vw ch.u
    let s1 := fmul s0 ch.vw
    let s2 := fmul s1 ch.vw
    let evalsZ := [e.a, e.b, e.c, e.d, e.s1, e.s2, e.s3] ++ (if legacy then [] else [e.qarith, e.qc, e.ql, e.qr])
    let eScalar := fadd (fadd ((evalsZ ++ [e.aw, e.bw, e.dw]).zip (vs ++ [s0, s1, s2])
                      |>.foldl (fun acc (x, c) => fadd acc (fmul x c)) 0) (fneg r0)) (fmul ch.u e.z)
    let fPoints := [p.aC, p.bC, p.cC, p.dC, vkey.s1, vkey.s2, vkey.s3] ++
                   (if legacy then [] else [vkey.qarith, vkey.qc, vkey.ql, vkey.qr])
    let fScalars := (vs.zipIdx).map fun (c, i) =>
      if i == 0 then fadd c s0 else if i == 1 then fadd c s1 else if i == 3 then fadd c s2 else c
    let right := linearizationTerms vkey p ch zh l1 ++ fScalars.zip fPoints ++
      [(fneg eScalar, g), (ch.z, p.wz), (fmul (fmul ch.u ch.z) d.groupGen, p.wzw)]
    let left := [(R - 1, p.wz), (fneg ch.u, p.wzw)]
    some (right, left)

/-- Textbook form of the right-hand pairing input, as (scalar, point) terms, ungrouped:
    `[D] + Σ vⁱ·Cᵢ + u·Σ v_wⁱ·C'ᵢ − E·g + z·W_z + u·z·ω·W_zω` -/
def verifyRefTerms (vkey : VKey) (g : G1) (d : Domain) (roots pis : List Nat) (p : ProofM) (ch : Challenges)
    (legacy : Bool) : Option (List (Nat × G1)) :=
  match d.lagrangeAndPi roots pis ch.z with
  | none => none
  | some (l1, piEval) =>
    let e := p.ev
    let zh := d.evaluateVanishing ch.z
    let r0 := r0Eval e ch l1 piEval
    let opened : List (Nat × G1) :=
      [(e.a, p.aC), (e.b, p.bC), (e.c, p.cC), (e.d, p.dC), (e.s1, vkey.s1), (e.s2, vkey.s2), (e.s3, vkey.s3)] ++
      (if legacy then [] else [(e.qarith, vkey.qarith), (e.qc, vkey.qc), (e.ql, vkey.ql), (e.qr, vkey.qr)])
    -- unshifted openings carry v¹, v², … (the linearisation polynomial itself carries v⁰ and value r₀)
    let (fz, ez, _) := opened.foldl (fun (acc : List (Nat × G1) × Nat × Nat) (ev, c) =>
        let (ts, es, pw) := acc
        ((pw, c) :: ts, fadd es (fmul pw ev), fmul pw ch.v)) ([], 0, ch.v % R)
    -- shifted openings carry u·v_w⁰, u·v_w¹, …
    let shifted : List (Nat × G1) := [(e.z, p.zC), (e.aw, p.aC), (e.bw, p.bC), (e.dw, p.dC)]
    let (fw, ew, _) := shifted.foldl (fun (acc : List (Nat × G1) × Nat × Nat) (ev, c) =>
        let (ts, es, pw) := acc
        ((fmul ch.u pw, c) :: ts, fadd es (fmul (fmul ch.u pw) ev), fmul pw ch.vw)) ([], 0, 1 % R)
    -- [D] without the `u·[z]` term, which belongs to the shifted opening of z
    let dNoU := linearizationTerms vkey p ch zh l1 ++ [(fneg ch.u, p.zC)]
    let eTotal := fadd (fadd ez ew) (fneg r0)
    some (dNoU ++ fz ++ fw ++ [(fneg eTotal, g), (ch.z, p.wz), (fmul (fmul ch.u ch.z) d.groupGen, p.wzw)])

def verifyRefPoint (vkey : VKey) (g : G1) (d : Domain) (roots pis : List Nat) (p : ProofM) (ch : Challenges)
    (legacy : Bool) : Option G1 :=
  (verifyRefTerms vkey g d roots pis p ch legacy).map G1.msum

inductive VOutcome where | ok | piLen | reject
  deriving Repr, BEq, DecidableEq

/-- `Verifier::verify_with_version`, pairing decided with the trapdoor `x` -/
def VerifierM.verify (v : VerifierM) (x : Nat) (p : ProofM) (pis : List Nat) (ver : PVersion) : VOutcome :=
  if pis.length != v.piIndexes.length then .piLen else
  match Domain.new? v.vk.n with
  | none => .reject
  | some d =>
    let roots := v.piIndexes.map fun i => fpow d.groupGenInv (i % 2 ^ 64)
    let ch := verifierChallenges v.label v.vk v.constraints (ver == .v3) pis p
    match verifyTerms v.vk v.ok.g d roots pis p ch (ver == .v1) with
    | none => .reject
    | some (right, left) =>
      let l := G1.msum left
      let r := G1.msum right
      if G1.add (G1.smul x l) r == .inf then .ok else .reject

end Plonk
