/-
  L5 — KZG10: setup from the RNG draws, trimming, commitment (degree guard + MSM), aggregate
  witness, flattening and the batched opening check decided in the **trapdoor view**: the secret
  `x` is known to the model (the harness scripts the RNG), so `e(−W, [x]H)·e(C, H) = 1` is decided
  as `[x]W = C` in G1.  Assumption: bilinearity and non-degeneracy of the pairing, prime order.

  Rust anchors: `src/commitment_scheme/kzg10/{srs,key,proof}.rs`, `src/util.rs`.
-/
import Plonk.Generated
import Plonk.Model.Bls
import Plonk.Model.Poly
import Plonk.Model.Transcript
namespace Plonk

inductive KErr where
  | degreeIsZero | truncatedDegreeIsZero | truncatedDegreeTooLarge | polynomialDegreeTooLarge
  | proofVerificationError | pairingCheckFailure | notEnoughDraws
  deriving Repr, BEq, DecidableEq

def KErr.name : KErr → String
  | .degreeIsZero => "DegreeIsZero"
  | .truncatedDegreeIsZero => "TruncatedDegreeIsZero"
  | .truncatedDegreeTooLarge => "TruncatedDegreeTooLarge"
  | .polynomialDegreeTooLarge => "PolynomialDegreeTooLarge"
  | .proofVerificationError => "ProofVerificationError"
  | .pairingCheckFailure => "PairingCheckFailure"
  | .notEnoughDraws => "NotEnoughDraws"

structure SRS where
  powers : List G1      -- commit key: [x^i]g
  g : G1
  h : G2
  xh : G2
  x : Nat               -- the trapdoor (known because the RNG is scripted)
  deriving Repr, Inhabited

/-- `BlsScalar::random`: 64 bytes little endian reduced mod r -/
def wideDraw (bytes : List Nat) : Nat := (bytes.reverse.foldl (fun acc b => acc * 256 + b % 256) 0) % R

/-- `random_nonzero_bls_scalar`: first non-zero draw -/
def nextNonzero : List Nat → Option (Nat × List Nat)
  | [] => none
  | d :: ds => if d % R == 0 then nextNonzero ds else some (d % R, ds)

def powersOf (x : Nat) (maxDeg : Nat) : List Nat :=
  ((List.range (maxDeg + 1)).foldl (fun (acc : List Nat × Nat) _ => (acc.2 :: acc.1, fmul acc.2 x)) ([], 1 % R)).1.reverse

/-- `PublicParameters::setup(max_degree, rng)` with the RNG given as its successive scalar draws -/
def SRS.setup (maxDegree : Nat) (draws : List Nat) : Except KErr SRS :=
  if maxDegree < 1 then .error .degreeIsZero else
  let maxDegree := maxDegree + Generated.ADDED_BLINDING_DEGREE
  match nextNonzero draws with
  | none => .error .notEnoughDraws
  | some (x, ds) =>
    match nextNonzero ds with
    | none => .error .notEnoughDraws
    | some (sg, ds) =>
      match nextNonzero ds with
      | none => .error .notEnoughDraws
      | some (sh, _) =>
        let g := G1.smul sg G1.gen
        let powers := (powersOf x maxDegree).map fun k => G1.smul k g
        let h := G2.smul sh G2.gen
        .ok { powers := powers, g := g, h := h, xh := G2.smul x h, x := x }

/-- `CommitKey::truncate` -/
def truncateKey (powers : List G1) (d : Nat) : Except KErr (List G1) :=
  if d == 0 then .error .truncatedDegreeIsZero
  else if d > powers.length - 1 then .error .truncatedDegreeTooLarge
  else .ok (powers.take ((if d == 1 then 2 else d) + 1))

/-- length-only view of `truncate` (what compilation needs from the commit key in the trapdoor view) -/
def truncateLen (len d : Nat) : Except KErr Nat :=
  if d == 0 then .error .truncatedDegreeIsZero
  else if d > len - 1 then .error .truncatedDegreeTooLarge
  else .ok (min len ((if d == 1 then 2 else d) + 1))

/-- the three setup draws without materialising the powers (`powers := []`): for the trapdoor prover -/
def SRS.setupLite (maxDegree : Nat) (draws : List Nat) : Except KErr (SRS × Nat) :=
  if maxDegree < 1 then .error .degreeIsZero else
  let maxDegree := maxDegree + Generated.ADDED_BLINDING_DEGREE
  match nextNonzero draws with
  | none => .error .notEnoughDraws
  | some (x, ds) =>
    match nextNonzero ds with
    | none => .error .notEnoughDraws
    | some (sg, ds) =>
      match nextNonzero ds with
      | none => .error .notEnoughDraws
      | some (sh, _) =>
        let g := G1.smul sg G1.gen
        let h := G2.smul sh G2.gen
        .ok ({ powers := [], g := g, h := h, xh := G2.smul x h, x := x }, maxDegree + 1)

/-- `PublicParameters::trim(n)` -/
def SRS.trim (s : SRS) (n : Nat) : Except KErr (List G1) :=
  truncateKey s.powers (n + Generated.ADDED_BLINDING_DEGREE)

/-- `CommitKey::commit`: degree guard, then MSM over the zipped (points, coefficients) -/
def commit (ck : List G1) (p : Poly) : Except KErr G1 :=
  if Poly.degree p > ck.length - 1 then .error .polynomialDegreeTooLarge
  else .ok (G1.msum (p.zip ck))

/-- `compute_aggregate_witness(polys, z, v)` -/
def aggregateWitness (polys : List Poly) (z v : Nat) : Poly :=
  if polys.isEmpty then [] else
  let maxLen := polys.foldl (fun m p => max m p.length) 0
  let (coeffs, _) := polys.foldl (fun (acc : List Nat × Nat) p =>
      (Poly.zipOnto (fun c t => fadd c (fmul t acc.2)) acc.1 p, fmul acc.2 v)) (List.replicate maxLen 0, 1 % R)
  Poly.ruffini (Poly.ofCoeffs coeffs) z

/-- `AggregateProof::flatten(v)` for a non-empty aggregate: `(Σ vⁱ Cᵢ, Σ vⁱ eᵢ)` -/
def flatten (comms : List G1) (evals : List Nat) (v : Nat) : G1 × Nat :=
  let pows := powersOf v (comms.length - 1)
  (G1.msum (pows.zip comms), (evals.zip pows).foldl (fun acc (e, p) => fadd acc (fmul e p)) 0)

structure KProof where
  witness : G1
  eval : Nat
  comm : G1
  deriving Repr, Inhabited

/-- `batch_challenge` -/
def batchChallenge (t : Transcript) (points : List Nat) (proofs : List KProof) : Transcript × Nat :=
  let t := t.appendMessage (Strobe.strBytes "dom-sep") (Strobe.strBytes "kzg10-batch-check-v1")
  let t := t.appendU64 (Strobe.strBytes "batch-len") proofs.length
  let t := (points.zip proofs).foldl (fun t (z, p) =>
    let t := t.appendScalar "batch-point" z
    let t := t.appendMessage (Strobe.strBytes "batch-polynomial-commitment") p.comm.toCompressed
    let t := t.appendScalar "batch-evaluation" p.eval
    t.appendMessage (Strobe.strBytes "batch-witness-commitment") p.witness.toCompressed) t
  t.challengeScalar "batch-challenge"

/-- `OpeningKey::batch_check`, pairing decided with the trapdoor `x`: `[x]·ΣuⁱWᵢ = Σuⁱ(Cᵢ + zᵢWᵢ) − (Σuⁱeᵢ)·g` -/
def batchCheck (s : SRS) (t : Transcript) (points : List Nat) (proofs : List KProof) : Except KErr Unit :=
  if proofs.isEmpty || points.length != proofs.length then .error .proofVerificationError else
  let (_, u) := batchChallenge t points proofs
  let pows := powersOf u (proofs.length - 1)
  let rows := (proofs.zip pows).zip points
  let totalC := G1.msum (rows.flatMap fun ((p, ui), z) => [(ui, p.comm), (fmul ui z, p.witness)])
  let totalW := G1.msum (rows.map fun ((p, ui), _) => (ui, p.witness))
  let gm := rows.foldl (fun acc ((p, ui), _) => fadd acc (fmul ui p.eval)) 0
  let totalC := G1.add totalC (G1.neg (G1.smul gm s.g))
  if G1.smul s.x totalW == totalC then .ok () else .error .pairingCheckFailure

end Plonk
