/-
  L3 — evaluation domains and FFTs in the code's shape (`src/fft/domain.rs`), with an explicit
  `threads` parameter for the parallel butterfly, next to the O(n²) definition `dft`.
-/
import Plonk.Generated
import Plonk.Model.Poly
namespace Plonk

/-- `dusk_bls12_381::ROOT_OF_UNITY`: a primitive 2^32-th root of unity (= 7^((r−1)/2^32)) -/
def ROOT_OF_UNITY : Nat := 0x16a2a19edfe81f20d09b681922c813b4b63683508c2280b93829971f439f0d2b
/-- `dusk_bls12_381::GENERATOR` (multiplicative generator, coset shift) -/
def GENERATOR : Nat := 7
def TWO_ADACITY : Nat := 32

structure Domain where
  size : Nat
  logSize : Nat
  sizeInv : Nat
  groupGen : Nat
  groupGenInv : Nat
  generatorInv : Nat
  deriving Repr, BEq, Inhabited

def log2 (n : Nat) : Nat :=   -- for powers of two
  let rec go : Nat → Nat → Nat → Nat
    | 0, _, k => k
    | f+1, m, k => if m ≤ 1 then k else go f (m / 2) (k + 1)
  go 64 n 0

def nextPow2' (n : Nat) : Nat :=
  let rec go : Nat → Nat → Nat
    | 0, p => p
    | f+1, p => if p ≥ n then p else go f (2 * p)
  go 64 1

/-- `EvaluationDomain::new(num_coeffs)`; `none` when the 2-adicity is exceeded -/
def Domain.new? (numCoeffs : Nat) : Option Domain :=
  let size := nextPow2' numCoeffs
  let lg := log2 size
  if lg ≥ TWO_ADACITY then none else
  let gen := (List.range (TWO_ADACITY - lg)).foldl (fun g _ => fsq g) ROOT_OF_UNITY
  some { size := size, logSize := lg, sizeInv := finv (size % R), groupGen := gen,
         groupGenInv := finv gen, generatorInv := finv GENERATOR }

/-! ### definition -/

/-- direct evaluation: `(dft ω v)[i] = Σ_j v[j]·ω^(i·j)` for `i < v.length` -/
def dft (omega : Nat) (v : List Nat) : List Nat :=
  (List.range v.length).map fun i => Poly.evaluate' v (fpow omega i)
where
  Poly.evaluate' (p : List Nat) (z : Nat) : Nat :=
    (p.foldl (fun (acc : Nat × Nat) c => (fadd acc.1 (fmul acc.2 c), fmul acc.2 z)) (0, 1 % R)).1

/-- radix-2 recursion (decimation in time) on lists of length `2^k` -/
def fftRec : Nat → Nat → List Nat → List Nat
  | 0, _, v => v
  | k+1, omega, v =>
    let evens := (List.range (v.length / 2)).map fun i => v.getD (2 * i) 0
    let odds := (List.range (v.length / 2)).map fun i => v.getD (2 * i + 1) 0
    let e := fftRec k (fsq omega) evens
    let o := fftRec k (fsq omega) odds
    let half := v.length / 2
    let tw := (List.range half).map fun i => fmul (fpow omega i) (o.getD i 0)
    ((List.range half).map fun i => fadd (e.getD i 0) (tw.getD i 0)) ++
    ((List.range half).map fun i => fsub (e.getD i 0) (tw.getD i 0))

/-! ### code-shaped iterative FFT -/

def bitreverse (n l : Nat) : Nat :=
  (List.range l).foldl (fun (acc : Nat × Nat) _ => ((acc.1 * 2) ||| (acc.2 % 2), acc.2 / 2)) (0, n) |>.1

def bitreversePermute (a : Array Nat) (logN : Nat) : Array Nat :=
  (List.range a.size).foldl (fun a k =>
    let rk := bitreverse k logN
    if k < rk then
      let x := a.getD k 0; let y := a.getD rk 0
      (a.setIfInBounds k y).setIfInBounds rk x
    else a) a

/-- `butterfly_range(left, right, w_m, w)` on the index ranges `[lo+off, lo+off+len)` and
    `[lo+m+off, …)` of `a`, starting twiddle `w` -/
def butterflyRange (a : Array Nat) (lo m off len wm w : Nat) : Array Nat :=
  (List.range len).foldl (fun (st : Array Nat × Nat) j =>
    let (a, w) := st
    let li := lo + off + j
    let ri := lo + m + off + j
    let t := fmul (a.getD ri 0) w
    let l := a.getD li 0
    ((a.setIfInBounds ri (fsub l t)).setIfInBounds li (fadd l t), fmul w wm)) (a, w) |>.1

/-- `butterfly_chunk(chunk, m, w_m)` for the chunk starting at `lo` -/
def butterflyChunk (a : Array Nat) (lo m wm : Nat) : Array Nat :=
  butterflyRange a lo m 0 m wm (1 % R)

def divCeil (a b : Nat) : Nat := (a + b - 1) / b

/-- `parallel_butterfly_chunk` with `threads = rayon::current_num_threads()`: the half is cut into
    `range_len`-sized pieces, piece `r` starts from the seed `w_m^(r·range_len)` -/
def parallelButterflyChunk (a : Array Nat) (lo m wm threads : Nat) : Array Nat :=
  let rangeLen := divCeil m threads
  let rangeCount := divCeil m rangeLen
  let seedStep := fpow wm rangeLen
  (List.range rangeCount).foldl (fun (st : Array Nat × Nat) r =>
    let (a, seed) := st
    let off := r * rangeLen
    let len := min rangeLen (m - off)
    (butterflyRange a lo m off len wm seed, fmul seed seedStep)) (a, 1 % R) |>.1

/-- `serial_fft` -/
def serialFft (a : Array Nat) (omega logN : Nat) : Array Nat :=
  let n := a.size
  let a := bitreversePermute a logN
  (List.range logN).foldl (fun (st : Array Nat × Nat) _ =>
    let (a, m) := st
    let wm := fpow omega (n / (2 * m))
    let a := (List.range (n / (2 * m))).foldl (fun a c => butterflyChunk a (c * 2 * m) m wm) a
    (a, 2 * m)) (a, 1) |>.1

/-- `best_fft` (std build) with an explicit thread count -/
def bestFft (a : Array Nat) (omega logN threads : Nat) : Array Nat :=
  let n := a.size
  if n < Generated.PARALLEL_FFT_MIN_LEN then serialFft a omega logN else
  let a := bitreversePermute a logN
  (List.range logN).foldl (fun (st : Array Nat × Nat) _ =>
    let (a, m) := st
    let wm := fpow omega (n / (2 * m))
    let chunkCount := n / (2 * m)
    let a :=
      if chunkCount ≥ Generated.PARALLEL_FFT_MIN_CHUNKS then
        (List.range chunkCount).foldl (fun a c => butterflyChunk a (c * 2 * m) m wm) a
      else if n ≥ Generated.PARALLEL_FINAL_FFT_MIN_LEN ∧ threads ≥ Generated.PARALLEL_FINAL_FFT_MIN_THREADS then
        (List.range chunkCount).foldl (fun a c => parallelButterflyChunk a (c * 2 * m) m wm threads) a
      else
        (List.range chunkCount).foldl (fun a c => butterflyChunk a (c * 2 * m) m wm) a
    (a, 2 * m)) (a, 1) |>.1

/-- `resize(size, 0)`: zero-pad or **truncate** -/
def resize (v : List Nat) (n : Nat) : List Nat := (v ++ List.replicate (n - v.length) 0).take n

/-- reduction modulo `X^n − 1`: coefficient `i ≥ n` is added onto coefficient `i mod n`
    (what `fft_in_place` does to an input longer than the domain), then zero-padding to `n` -/
def foldMod (v : List Nat) (n : Nat) : List Nat :=
  (List.range n).map fun i =>
    ((List.range ((v.length + n - 1 - i) / n)).foldl (fun acc k => fadd acc (v.getD (i + k * n) 0)) 0)

namespace Domain

def fft (d : Domain) (v : List Nat) (threads : Nat := 1) : List Nat :=
  (bestFft (foldMod (v.map (· % R)) d.size).toArray d.groupGen d.logSize threads).toList

def ifft (d : Domain) (v : List Nat) (threads : Nat := 1) : List Nat :=
  ((bestFft (resize (v.map (· % R)) d.size).toArray d.groupGenInv d.logSize threads).toList).map (fmul · d.sizeInv)

def distributePowers (v : List Nat) (g : Nat) : List Nat :=
  (v.foldl (fun (acc : List Nat × Nat) c => (fmul c acc.2 :: acc.1, fmul acc.2 g)) ([], 1 % R)).1.reverse

def cosetFft (d : Domain) (v : List Nat) (threads : Nat := 1) : List Nat :=
  d.fft (distributePowers v GENERATOR) threads

def cosetIfft (d : Domain) (v : List Nat) (threads : Nat := 1) : List Nat :=
  distributePowers (d.ifft v threads) d.generatorInv

def elements (d : Domain) : List Nat :=
  ((List.range d.size).foldl (fun (acc : List Nat × Nat) _ => (acc.2 :: acc.1, fmul acc.2 d.groupGen)) ([], 1 % R)).1.reverse

def evaluateVanishing (d : Domain) (tau : Nat) : Nat := fsub (fpow tau d.size) 1

end Domain

/-- `batch_inversion`: every non-zero entry inverted, zeros left -/
def batchInversion (v : List Nat) : List Nat := v.map fun x => if x % R == 0 then x % R else finv x

namespace Domain

/-- `evaluate_all_lagrange_coefficients(tau)` -/
def lagrangeCoeffs (d : Domain) (tau : Nat) : List Nat :=
  let tSize := fpow tau d.size
  if tSize == 1 % R then
    -- tau is in the domain: indicator of the first index with ω^i = tau
    let els := d.elements
    match els.findIdx? (· == tau % R) with
    | some k => (List.range d.size).map fun i => if i == k then 1 % R else 0
    | none => List.replicate d.size 0
  else
    let l0 := fmul (fsub tSize 1) d.sizeInv
    let els := d.elements
    let us := batchInversion (els.map fun r => fsub tau r)
    (us.zip els).map fun (u, r) => fmul (fmul l0 r) u

/-- `vanishing_poly_over_coset(poly_degree)` : evaluations of `X^deg − 1` on `g·H` -/
def vanishingOverCoset (d : Domain) (deg : Nat) : List Nat :=
  let p0 := fpow GENERATOR deg
  let step := fpow d.groupGen deg
  ((List.range d.size).foldl (fun (acc : List Nat × Nat) _ => (fsub acc.2 1 :: acc.1, fmul acc.2 step)) ([], p0)).1.reverse

def matchesLinearOverCoset (d : Domain) (ev : List Nat) : Bool :=
  ev.length == d.size &&
  ev == ((List.range d.size).foldl (fun (acc : List Nat × Nat) _ => (acc.2 :: acc.1, fmul acc.2 d.groupGen)) ([], GENERATOR % R)).1.reverse

def matchesVanishingOverCoset (d : Domain) (deg : Nat) (ev : List Nat) : Bool :=
  decide (deg < d.size) && ev.length == d.size && ev == d.vanishingOverCoset deg

/-- `compute_barycentric_eval(evaluations, point, domain)` -/
def barycentric (d : Domain) (evals : List Nat) (point : Nat) : Nat :=
  let numerator := fmul (fsub (fpow point d.size) 1) d.sizeInv
  let terms := evals.zipIdx.filter (fun (e, _) => e % R != 0)
  let dens := batchInversion (terms.map fun (_, i) => fsub (fmul (fpow d.groupGenInv i) point) 1)
  fmul ((terms.zip dens).foldl (fun acc ((e, _), di) => fadd acc (fmul di e)) 0) numerator

/-- `compute_lagrange_and_barycentric_evaluations`; `none` when a denominator vanishes -/
def lagrangeAndPi (d : Domain) (roots evals : List Nat) (point : Nat) : Option (Nat × Nat) :=
  let zh := d.evaluateVanishing point
  let nz := (roots.zip evals).filter (fun (_, e) => e % R != 0)
  let dens := fmul (d.size % R) (fsub point 1) :: nz.map (fun (r, _) => fsub (fmul r point) 1)
  if dens.any (· == 0) then none else
  let inv := batchInversion dens
  let l1 := fmul zh (inv.headD 0)
  let pi := fmul (fmul ((nz.zip inv.tail).foldl (fun acc ((_, e), di) => fadd acc (fmul di e)) 0) zh) d.sizeInv
  some (l1, pi)

end Domain

/-- `&a * &b` of `polynomial.rs`: FFT product on the domain of size ≥ |a| + |b| -/
def Poly.mul (a b : Poly) : Option Poly :=
  if Poly.isZero a || Poly.isZero b then some [] else
  match Domain.new? (a.length + b.length) with
  | none => none
  | some d =>
    let ea := d.fft a
    let eb := d.fft b
    some (Poly.ofCoeffs (d.ifft ((ea.zip eb).map fun (x, y) => fmul x y)))

end Plonk
