/-
  L8 — compilation (`Compiler::preprocess`) and the specification prover (`Prover::prove_inner`,
  rounds 1–5) over the executable model.  Commitments are computed in the trapdoor view
  (`commit p = [p(x)]g`, justified by `commit_eval`, C20), everything else follows the code:
  blinding, permutation vector, coset quotient with the `len > 7n` rule, splitting and
  re-randomising the quotient, evaluations, linearisation polynomial, aggregate witnesses.

  Rust anchors: `src/compiler.rs`, `src/compiler/prover.rs`, `src/proof_system/quotient_poly.rs`,
  `src/proof_system/linearization_poly.rs`, `src/proof_system/widget/*/proverkey.rs`,
  `src/composer/permutation.rs`.
-/
import Plonk.Model.System
import Plonk.Model.Kzg
import Plonk.Model.Verifier
namespace Plonk

inductive PErr where
  | compile (e : KErr)
  | invalidCircuitSize
  | circuitUnsatisfied
  | panicSlice            -- `t_poly[3n..]` out of range (the Rust code panics)
  | panicDenominator      -- `assert!(denominators != 0)` in `compute_permutation_vec`
  | notEnoughDraws
  | commit (e : KErr)
  deriving Repr, BEq

structure PKey where
  n : Nat                 -- domain size
  constraints : Nat
  label : List Nat
  sel : Array Poly        -- q_m q_l q_r q_o q_f q_c q_arith q_range q_logic q_fixed q_var
  sigma : Array Poly      -- s_sigma_1..4
  vk : VKey
  piIndexes : List Nat
  x : Nat                 -- trapdoor
  g : G1
  ckLen : Nat             -- number of points of the trimmed commit key
  lay : Composer          -- the compiled layout (for reference)
  selE : Array (Array Nat) := #[]   -- stored coset evaluations (8n) of the 11 selectors, same order as `sel`
  sigE8 : Array (Array Nat) := #[]  -- stored coset evaluations of the 4 sigma polynomials
  linE : Array Nat := #[]           -- `linear_evaluations`
  vh : Array Nat := #[]             -- `v_h_coset_8n`
  deriving Inhabited

/-- trapdoor commitment with the degree guard of `CommitKey::commit` -/
def commitT (k : PKey) (p : Poly) : Except KErr G1 :=
  if Poly.degree p > k.ckLen - 1 then .error .polynomialDegreeTooLarge
  else .ok (G1.smul (Poly.evaluate (Poly.trim p) k.x) k.g)

def commit4 (k : PKey) (a b c d : Poly) : Except PErr (G1 × G1 × G1 × G1) :=
  match commitT k a, commitT k b, commitT k c, commitT k d with
  | .ok x, .ok y, .ok z, .ok w => .ok (x, y, z, w)
  | .error e, _, _, _ => .error (.commit e)
  | _, .error e, _, _ => .error (.commit e)
  | _, _, .error e, _ => .error (.commit e)
  | _, _, _, .error e => .error (.commit e)

/-- wire positions of every witness, in insertion order (per gate: a, b, c, d) -/
def wirePositions (c : Composer) : Array (List (Nat × Nat)) := Id.run do
  let mut m : Array (List (Nat × Nat)) := Array.replicate c.wit.size []
  for i in [0:c.gates.size] do
    let g := c.gateAt i
    for (col, w) in [(0, g.a), (1, g.b), (2, g.c), (3, g.d)] do
      m := m.modify w (fun l => l ++ [(col, i)])
  return m

/-- `compute_sigma_permutations(n)`: each wire position maps to the next position of the same
    witness (cyclically); positions of padded rows map to themselves -/
def sigmaMaps (c : Composer) (n : Nat) : Array (Array (Nat × Nat)) := Id.run do
  let mut s : Array (Array (Nat × Nat)) := (Array.range 4).map fun col => (Array.range n).map fun i => (col, i)
  for l in wirePositions c do
    let k := l.length
    for (j, (col, i)) in l.zipIdx.map (fun (p, j) => (j, p)) do
      let nxt := l.getD ((j + 1) % k) (col, i)
      s := s.modify col (fun a => a.setIfInBounds i nxt)
  return s

def kOf (col : Nat) : Nat :=
  match col with | 0 => 1 | 1 => Generated.K1 | 2 => Generated.K2 | _ => Generated.K3

/-- `Compiler::compile_with_composer` + `preprocess`: `none`-like errors as `PErr.compile` -/
def compile (srs : SRS) (srsLen : Nat) (label : List Nat) (c : Composer) : Except PErr PKey :=
  let constraints := c.gates.size
  let nTrim := nextPow2 (constraints + Generated.CIRCUIT_SIZE_PADDING)
  match truncateLen srsLen (nTrim + Generated.ADDED_BLINDING_DEGREE) with
  | .error e => .error (.compile e)
  | .ok ckLen =>
    let size := nextPow2 constraints
    match Domain.new? (size - 1) with
    | none => .error (.compile .degreeIsZero)
    | some d =>
      let col (f : Gate → Nat) : Poly :=
        Poly.ofCoeffs (d.ifft ((List.range size).map fun i => f (c.gateAt i)))
      let sel : Array Poly := #[col (·.qm), col (·.ql), col (·.qr), col (·.qo), col (·.qf), col (·.qc), col (·.qarith),
                                col (·.qrange), col (·.qlogic), col (·.qfixed), col (·.qvar)]
      let roots := d.elements.toArray
      let sm := sigmaMaps c size
      let sigma : Array Poly := (Array.range 4).map fun colI =>
        Poly.ofCoeffs (d.ifft ((sm.getD colI #[]).toList.map fun (cc, i) => fmul (kOf cc) (roots.getD i 0)))
      let k0 : PKey := { n := d.size, constraints := constraints, label := label, sel := sel, sigma := sigma,
                         vk := default, piIndexes := [], x := srs.x, g := srs.g, ckLen := ckLen, lay := c }
      -- selector commitments use `unwrap_or_default` (identity on error); sigma commitments propagate errors
      let cs (i : Nat) : G1 := match commitT k0 (sel.getD i []) with | .ok p => p | .error _ => .inf
      match commit4 k0 (sigma.getD 0 []) (sigma.getD 1 []) (sigma.getD 2 []) (sigma.getD 3 []) with
      | .error (.commit e) => .error (.compile e)
      | .error e => .error e
      | .ok (s1, s2, s3, s4) =>
        let vk : VKey := { n := constraints, qm := cs 0, ql := cs 1, qr := cs 2, qo := cs 3, qf := cs 4, qc := cs 5,
                           qarith := cs 6, qrange := cs 7, qlogic := cs 8, qfixed := cs 9, qvar := cs 10,
                           s1 := s1, s2 := s2, s3 := s3, s4 := s4 }
        let piIdx := (Plonk.Driver.sortedRows c)
        match Domain.new? (8 * d.size) with
        | none => .error (.compile .degreeIsZero)
        | some d8 =>
          .ok { k0 with vk := vk, piIndexes := piIdx,
                        selE := sel.map fun p => (d8.cosetFft p).toArray,
                        sigE8 := sigma.map fun p => (d8.cosetFft p).toArray,
                        linE := (d8.cosetFft [0, 1]).toArray,
                        vh := (d8.vanishingOverCoset d.size).toArray }
where
  Plonk.Driver.sortedRows (c : Composer) : List Nat :=
    (c.pis.toList.map (·.1)).foldl (fun acc r =>
      let (lo, hi) := acc.partition (· < r)
      lo ++ [r] ++ hi.filter (· != r)) []

/-- the verifier that `Compiler::compile` returns next to the prover -/
def PKey.verifier (k : PKey) (srs : SRS) : VerifierM :=
  { label := k.label, vk := k.vk, ok := { g := srs.g, h := srs.h, xh := srs.xh }, piIndexes := k.piIndexes,
    size := k.n, constraints := k.constraints }

/-- `blind_poly_with_blinders` -/
def blindPoly (d : Domain) (w : List Nat) (blinders : List Nat) : Poly :=
  let coeffs := d.ifft w
  let coeffs := (blinders.zipIdx).foldl (fun (cs : List Nat) (b, i) =>
      (cs.set i (fsub (cs.getD i 0) b)) ++ [b % R]) coeffs
  Poly.ofCoeffs coeffs

def takeDraws (n : Nat) (draws : List Nat) : Option (List Nat × List Nat) :=
  if draws.length < n then none else some ((draws.take n).map (· % R), draws.drop n)

/-- values of a polynomial on the coset `g·H_{8n}` with 8 wrap-around entries appended -/
def cosetEvals (d8 : Domain) (p : Poly) : Array Nat :=
  let e := d8.cosetFft p
  (e ++ e.take 8).toArray

/-- `compute_permutation_vec`: `z₀ = 1`, `z_{i+1} = z_i · num_i / den_i`; `none` when a denominator vanishes
    (the Rust code asserts) -/
def permVec (n : Nat) (roots aS bS cS dS : List Nat) (sigE : List (List Nat)) (beta gamma : Nat) : Option (List Nat) :=
  let nums := (List.range n).map fun i =>
    let br := fmul beta (roots.getD i 0)
    fmul (fmul (fmul (fadd (fadd (aS.getD i 0) br) gamma) (fadd (fadd (bS.getD i 0) (fmul br Generated.K1)) gamma))
               (fadd (fadd (cS.getD i 0) (fmul br Generated.K2)) gamma))
         (fadd (fadd (dS.getD i 0) (fmul br Generated.K3)) gamma)
  let dens := (List.range n).map fun i =>
    let s (j : Nat) := (sigE.getD j []).getD i 0
    fmul (fmul (fmul (fadd (fadd (aS.getD i 0) (fmul beta (s 0))) gamma) (fadd (fadd (bS.getD i 0) (fmul beta (s 1))) gamma))
               (fadd (fadd (cS.getD i 0) (fmul beta (s 2))) gamma))
         (fadd (fadd (dS.getD i 0) (fmul beta (s 3))) gamma)
  if dens.any (· == 0) then none else
  let densInv := batchInversion dens
  some (((List.range n).foldl (fun (acc : List Nat × Nat) i =>
      (acc.2 :: acc.1, if i + 1 < n then fmul acc.2 (fmul (nums.getD i 0) (densInv.getD i 0)) else acc.2)) ([], 1 % R)).1.reverse)

/-- the quotient's evaluations on the coset of size `8n`: `(t₁ + t₂)·Z_H⁻¹`, index by index, exactly as
    `quotient_poly::compute` (`a_w = a[i+8]`: the wire vectors carry 8 wrap-around entries) -/
def quotientEvals (size8 : Nat) (selE sigE8 : Array (Array Nat)) (linE aE bE cE dE zE piE vh vhInv8 l1Den : Array Nat)
    (nInv8 beta gamma alpha rSep lSep fSep vSep : Nat) : List Nat :=
  let alphaSq := fsq alpha
  let q (j i : Nat) : Nat := (selE.getD j #[]).getD i 0
  (List.range size8).map fun i =>
    let a := aE.getD i 0; let b := bE.getD i 0; let cc := cE.getD i 0; let dd := dE.getD i 0
    let aw := aE.getD (i + 8) 0; let bw := bE.getD (i + 8) 0; let dw := dE.getD (i + 8) 0
    let z := zE.getD i 0; let zw := zE.getD (i + 8) 0
    let g : Gate := { qm := q 0 i, ql := q 1 i, qr := q 2 i, qo := q 3 i, qf := q 4 i, qc := q 5 i, qarith := q 6 i }
    let ev : Evals := { a := a, b := b, c := cc, d := dd, aw := aw, bw := bw, dw := dw, qarith := 0, qc := q 5 i,
                        ql := q 1 i, qr := q 2 i, s1 := 0, s2 := 0, s3 := 0, z := 0 }
    let t1 := fadd (fadd (fadd (fadd (fadd (arithVal g a b cc dd 0) (fmul (q 7 i) (rangeScalar rSep ev)))
                  (fmul (q 8 i) (logicScalar lSep ev))) (fmul (q 9 i) (fixedScalar fSep ev)))
                  (fmul (q 10 i) (varScalar vSep ev))) (piE.getD i 0)
    let xx := linE.getD i 0
    let s (j : Nat) := (sigE8.getD j #[]).getD i 0
    let idp := fmul (fmul (fmul (fmul (fmul (fadd (fadd a (fmul beta xx)) gamma)
                  (fadd (fadd b (fmul (fmul beta Generated.K1) xx)) gamma))
                  (fadd (fadd cc (fmul (fmul beta Generated.K2) xx)) gamma))
                  (fadd (fadd dd (fmul (fmul beta Generated.K3) xx)) gamma)) z) alpha
    let cpp := fneg (fmul (fmul (fmul (fmul (fmul (fadd (fadd a (fmul beta (s 0))) gamma)
                  (fadd (fadd b (fmul beta (s 1))) gamma)) (fadd (fadd cc (fmul beta (s 2))) gamma))
                  (fadd (fadd dd (fmul beta (s 3))) gamma)) zw) alpha)
    let l1 := fmul (fmul (l1Den.getD i 0) (fmul (vh.getD i 0) nInv8)) alphaSq
    let t2 := fadd (fadd idp cpp) (fmul (fsub z 1) l1)
    fmul (fadd t1 t2) (vhInv8.getD (i % 8) 0)

/-- split the quotient into four shares of `n` coefficients and re-randomise them with `b₁₂ b₁₃ b₁₄`
    (`t_low + b₁₂Xⁿ`, `t_mid − b₁₂ + b₁₃Xⁿ`, `t_high − b₁₃ + b₁₄Xⁿ`, `t_fourth − b₁₄`); `none` where the
    Rust slicing `t_poly[3n..]` / `t_fourth_vec[0]` would panic -/
def splitQuotient (n : Nat) (tPoly : Poly) (b12 b13 b14 : Nat) : Option (Poly × Poly × Poly × Poly) :=
  let sub0 (l : List Nat) (b : Nat) : List Nat := match l with | [] => [] | h :: r => fsub h b :: r
  if tPoly.length < 3 * n then none else
  let tFourthV := tPoly.drop (3 * n)
  if tFourthV.isEmpty then none else
  some (Poly.ofCoeffs (tPoly.take n ++ [b12]),
        Poly.ofCoeffs (sub0 ((tPoly.drop n).take n) b12 ++ [b13]),
        Poly.ofCoeffs (sub0 ((tPoly.drop (2 * n)).take n) b13 ++ [b14]),
        Poly.ofCoeffs (sub0 tFourthV b14))

structure ProveTrace where
  proof : ProofM
  pis : List Nat
  ch : Challenges
  drawsUsed : Nat
  deriving Inhabited

/-- `Prover::prove_inner` (V3; `v3 := false` gives the legacy transcript of V2) on the instance `c` -/
def prove (k : PKey) (c : Composer) (draws : List Nat) (v3 : Bool := true) : Except PErr ProveTrace :=
  if c.gates.size != k.constraints then .error .invalidCircuitSize else
  match Domain.new? k.constraints, Domain.new? (8 * k.n) with
  | some d, some d8 =>
    let n := d.size
    let size := k.n
    let pisSorted := Plonk.Driver.sortedPis' c
    let pis := pisSorted.map (·.2)
    let dense : List Nat := (List.range size).map fun i => (pisSorted.find? (·.1 == i)).map (·.2) |>.getD 0
    let wcol (f : RowVals → Nat) : List Nat := (List.range size).map fun i => f (c.rowVals i)
    let aS := wcol (·.a); let bS := wcol (·.b); let cS := wcol (·.c); let dS := wcol (·.d)
    match takeDraws 8 draws with
    | none => .error .notEnoughDraws
    | some (wb, draws) =>
    let aP := blindPoly d aS (wb.take 2)
    let bP := blindPoly d bS ((wb.drop 2).take 2)
    let cP := blindPoly d cS ((wb.drop 4).take 2)
    let dP := blindPoly d dS ((wb.drop 6).take 2)
    match commit4 k aP bP cP dP with
    | .error e => .error e
    | .ok (aC, bC, cC, dC) =>
    -- transcript: base, public inputs, wire commitments
    let ops0 := baseOps k.label k.vk k.constraints v3 ++ pis.map (fun pi => TOp.msg "pi" (Transcript.scalarBytes pi)) ++
      [.msg "a_comm" aC.toCompressed, .msg "b_comm" bC.toCompressed, .msg "c_comm" cC.toCompressed,
       .msg "d_comm" dC.toCompressed, .chal "beta", .echo "beta" "beta", .chal "gamma"]
    let (t, chs) := runOps ops0 merlinInit
    let get (chs : List (String × Nat)) (l : String) : Nat := (chs.find? (·.1 == l)).map (·.2) |>.getD 0
    let beta := get chs "beta"; let gamma := get chs "gamma"
    -- round 2: permutation vector
    let roots := d.elements
    let sigE : List (List Nat) := (List.range 4).map fun i => d.fft (k.sigma.getD i [])
    match permVec n roots aS bS cS dS sigE beta gamma with
    | none => .error .panicDenominator
    | some perm =>
    match takeDraws 3 draws with
    | none => .error .notEnoughDraws
    | some (zb, draws) =>
    let zP := blindPoly d perm zb
    match commitT k zP with
    | .error e => .error (.commit e)
    | .ok zC =>
    let (t, chs3) := runOps [.msg "z_comm" zC.toCompressed, .chal "alpha", .chal "range separation challenge",
        .chal "logic separation challenge", .chal "fixed base separation challenge",
        .chal "variable base separation challenge"] t
    let alpha := get chs3 "alpha"; let rSep := get chs3 "range separation challenge"
    let lSep := get chs3 "logic separation challenge"; let fSep := get chs3 "fixed base separation challenge"
    let vSep := get chs3 "variable base separation challenge"
    -- round 3: quotient on the coset of size 8n
    let piPoly := Poly.ofCoeffs (d.ifft dense)
    let zE := cosetEvals d8 zP; let aE := cosetEvals d8 aP; let bE := cosetEvals d8 bP
    let cE := cosetEvals d8 cP; let dE := cosetEvals d8 dP
    let piE := (d8.cosetFft piPoly).toArray
    let selE := k.selE
    let sigE8 := k.sigE8
    let linE := k.linE
    let vh := k.vh
    let vhInv8 := (batchInversion ((vh.toList).take 8)).toArray
    let l1Den := (batchInversion (linE.toList.map fun e => fsub e 1)).toArray
    let nInv8 := fmul d8.sizeInv 8
    let quot := quotientEvals d8.size selE sigE8 linE aE bE cE dE zE piE vh vhInv8 l1Den nInv8
                  beta gamma alpha rSep lSep fSep vSep
    let tPoly := Poly.ofCoeffs (d8.cosetIfft quot)
    if tPoly.length > 7 * n then .error .circuitUnsatisfied else
    match takeDraws 3 draws with
    | none => .error .notEnoughDraws
    | some (tb, draws) =>
    match splitQuotient n tPoly (tb.getD 0 0) (tb.getD 1 0) (tb.getD 2 0) with
    | none => .error .panicSlice
    | some (tLowP, tMidP, tHighP, tFourthP) =>
    match commit4 k tLowP tMidP tHighP tFourthP with
    | .error e => .error e
    | .ok (tlC, tmC, thC, tfC) =>
    let (t, chs4) := runOps [.msg "t_low_comm" tlC.toCompressed, .msg "t_mid_comm" tmC.toCompressed,
        .msg "t_high_comm" thC.toCompressed, .msg "t_fourth_comm" tfC.toCompressed, .chal "z_challenge"] t
    let zc := get chs4 "z_challenge"
    let zw := fmul zc d.groupGen
    let ev : Evals := {
      a := Poly.evaluate aP zc, b := Poly.evaluate bP zc, c := Poly.evaluate cP zc, d := Poly.evaluate dP zc,
      aw := Poly.evaluate aP zw, bw := Poly.evaluate bP zw, dw := Poly.evaluate dP zw,
      qarith := Poly.evaluate (k.sel.getD 6 []) zc, qc := Poly.evaluate (k.sel.getD 5 []) zc,
      ql := Poly.evaluate (k.sel.getD 1 []) zc, qr := Poly.evaluate (k.sel.getD 2 []) zc,
      s1 := Poly.evaluate (k.sigma.getD 0 []) zc, s2 := Poly.evaluate (k.sigma.getD 1 []) zc,
      s3 := Poly.evaluate (k.sigma.getD 2 []) zc, z := Poly.evaluate zP zw }
    let sc (l : String) (v : Nat) : TOp := .msg l (Transcript.scalarBytes v)
    let (t, chs5) := runOps [sc "a_eval" ev.a, sc "b_eval" ev.b, sc "c_eval" ev.c, sc "d_eval" ev.d,
        sc "s_sigma_1_eval" ev.s1, sc "s_sigma_2_eval" ev.s2, sc "s_sigma_3_eval" ev.s3, sc "z_eval" ev.z,
        sc "a_w_eval" ev.aw, sc "b_w_eval" ev.bw, sc "d_w_eval" ev.dw, sc "q_arith_eval" ev.qarith,
        sc "q_c_eval" ev.qc, sc "q_l_eval" ev.ql, sc "q_r_eval" ev.qr, .chal "v_challenge"] t
    let v := get chs5 "v_challenge"
    -- round 5: linearisation polynomial
    let padd := Poly.add
    let sp (j : Nat) := k.sel.getD j []
    let arithL := Poly.scale (padd (padd (padd (padd (padd (Poly.scale (sp 0) (fmul ev.a ev.b)) (Poly.scale (sp 1) ev.a))
                    (Poly.scale (sp 2) ev.b)) (Poly.scale (sp 3) ev.c)) (Poly.scale (sp 4) ev.d)) (sp 5)) ev.qarith
    let lin0 := padd arithL (Poly.scale (sp 7) (rangeScalar rSep ev))
    let lin1 := Poly.addAssign lin0 (Poly.scale (sp 8) (logicScalar lSep ev))
    let lin2 := Poly.addAssign lin1 (Poly.scale (sp 9) (fixedScalar fSep ev))
    let lin3 := Poly.addAssign lin2 (Poly.scale (sp 10) (varScalar vSep ev))
    let piEvalSparse := d.barycentric pis zc      -- the prover passes the *sparse* list here (see DESIGN §9.2)
    let f1 := Poly.addConst lin3 piEvalSparse
    let bz := fmul beta zc
    let idL := Poly.scale zP (fmul (fmul (fmul (fmul (fadd (fadd ev.a bz) gamma) (fadd (fadd ev.b (fmul Generated.K1 bz)) gamma))
                  (fadd (fadd ev.c (fmul Generated.K2 bz)) gamma)) (fadd (fadd ev.d (fmul Generated.K3 bz)) gamma)) alpha)
    let cpL := Poly.scale (k.sigma.getD 3 []) (fneg (fmul (fmul (fmul (fmul (fadd (fadd ev.a (fmul beta ev.s1)) gamma)
                  (fadd (fadd ev.b (fmul beta ev.s2)) gamma)) (fadd (fadd ev.c (fmul beta ev.s3)) gamma)) (fmul beta ev.z)) alpha))
    let l1Dom := (Domain.new? (Poly.degree zP - 2)).getD d
    let l1z := (l1Dom.lagrangeCoeffs zc).headD 0
    let oneL := Poly.scale zP (fmul l1z (fsq alpha))
    let f2 := padd (padd idL cpL) oneL
    let zn := fpow zc n; let z2n := fpow zc (2 * n); let z3n := fpow zc (3 * n)
    let quotL := padd (padd (padd tLowP (Poly.scale tMidP zn)) (Poly.scale tHighP z2n)) (Poly.scale tFourthP z3n)
    let zhNeg := fneg (d.evaluateVanishing zc)
    let rP := padd (padd f1 f2) (Poly.scale quotL zhNeg)
    let wzP := aggregateWitness [rP, aP, bP, cP, dP, k.sigma.getD 0 [], k.sigma.getD 1 [], k.sigma.getD 2 [],
                                 sp 6, sp 5, sp 1, sp 2] zc v
    match commitT k wzP with
    | .error e => .error (.commit e)
    | .ok wzC =>
    let (_, chs6) := runOps [.chal "v_w_challenge"] t
    let vw := get chs6 "v_w_challenge"
    let wzwP := aggregateWitness [zP, aP, bP, dP] zw vw
    match commitT k wzwP with
    | .error e => .error (.commit e)
    | .ok wzwC =>
      .ok { proof := { aC := aC, bC := bC, cC := cC, dC := dC, zC := zC, tLow := tlC, tMid := tmC, tHigh := thC,
                       tFourth := tfC, wz := wzC, wzw := wzwC, ev := ev },
            pis := pis,
            ch := { beta := beta, gamma := gamma, alpha := alpha, rangeSep := rSep, logicSep := lSep, fixedSep := fSep,
                    varSep := vSep, z := zc, v := v, vw := vw, u := 0 },
            drawsUsed := 14 }
  | _, _ => .error (.compile .degreeIsZero)
where
  Plonk.Driver.sortedPis' (c : Composer) : List (Nat × Nat) :=
    c.pis.toList.foldl (fun acc p =>
      let (lo, hi) := acc.partition (fun q => q.1 < p.1)
      lo ++ [p] ++ hi.filter (fun q => q.1 != p.1)) []

end Plonk
