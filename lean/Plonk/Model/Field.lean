/-
  L0 — scalar field of BLS12-381 as `Nat` reduced modulo `R`, bit helpers.
  Import-free: this file is part of the native driver.

  Rust anchors: `dusk_bls12_381::BlsScalar` (add/sub/neg/mul/square/invert/pow,
  `to_bits`, `to_bytes`, `pow_of_2`), `src/composer/bits.rs::recompose_bits`,
  `src/bit_iterator.rs::BitIterator8`.
-/
namespace Plonk

/-- BLS12-381 scalar field modulus `r`. -/
def R : Nat := 0x73eda753299d7d483339d80809a1d80553bda402fffe5bfeffffffff00000001

/-- JubJub prime-subgroup order `r_J` (modulus of `JubJubScalar`). -/
def RJ : Nat := 0x0e7db4ea6533afa906673b0101343b00a6682093ccc81082d0970e5ed6f72cb7

/-- Twisted Edwards `d` of JubJub (`dusk_jubjub::EDWARDS_D`). -/
def EDWARDS_D : Nat := 0x2a9318e74bfa2b48f5fd9207e6bd7fd4292d7f6d37579d2601065fd6d6343eb1

@[inline] def fadd (a b : Nat) : Nat := (a + b) % R
@[inline] def fneg (a : Nat) : Nat := (R - a % R) % R
@[inline] def fsub (a b : Nat) : Nat := (a + (R - b % R)) % R
@[inline] def fmul (a b : Nat) : Nat := (a * b) % R
@[inline] def fsq (a : Nat) : Nat := (a * a) % R

/-- square-and-multiply with explicit fuel (structural recursion). -/
def powModF : Nat → Nat → Nat → Nat → Nat → Nat
  | 0, _, _, _, acc => acc
  | fuel+1, b, e, m, acc =>
    if e = 0 then acc else
    powModF fuel (b*b % m) (e/2) m (if e % 2 = 1 then acc*b % m else acc)

/-- `a^e mod R` for `e < 2^256`. -/
def fpow (a e : Nat) : Nat := powModF 256 (a % R) e R (1 % R)

/-- Fermat inverse; `finv 0 = 0` (callers that mirror `invert()` test for zero first). -/
def finv (a : Nat) : Nat := fpow a (R - 2)

/-- `BlsScalar::invert()` : `None` on zero. -/
def finv? (a : Nat) : Option Nat := if a % R = 0 then none else some (finv a)

def fdiv (a b : Nat) : Nat := fmul a (finv b)

/-- `BlsScalar::pow_of_2(k)` = `2^k mod r`. -/
def pow2 (k : Nat) : Nat := (2 ^ k) % R

/-- bit `i` (little endian) of the canonical value -/
@[inline] def bit (v i : Nat) : Nat := (v / 2 ^ i) % 2

/-- `recompose_bits(&v.to_bits(), start, end)` : Σ_{i∈[start,end)} bit_i 2^(i-start), reduced. -/
def recomposeBits (v start stop : Nat) : Nat :=
  ((v % 2 ^ stop) / 2 ^ start) % R

/-- from a signed small integer (digits −1,0,1 etc.) into the field -/
def ofInt (z : Int) : Nat := (z % (R : Int)).toNat

end Plonk
