/-
  L7b — the compressed circuit description at the BYTE level (the MessagePack payload inside the deflate stream).

  Rust anchors: `src/composer/compress.rs` — `CompressedCircuit` (derive `MsgPacker`: fields packed one after the other),
  `from_composer` (scalar / polynomial dictionaries, `pack`), `unpack_bounded` + `PackedCircuitReader`
  (`unpack`, `unpack_vec`, `unpack_array_len`, `take`), `validate_indices`, `from_bytes` (reconstruction);
  `src/composer/compress/hades.rs` (`constants`, `mds`: the built-in scalar dictionary).
  External and re-implemented here: the `msgpacker` encodings of `bool`, `usize`, `u8`, `[u8; 32]` and array headers,
  SHA-512 (`Model/Sha512.lean`).  NOT modelled: deflate / inflate (`miniz_oxide`) — requests carry the inflated payload.
  Bytes are `Nat`s below 256.
-/
import Plonk.Model.Compress
import Plonk.Model.Sha512
namespace Plonk.Packed
open Plonk

/-! ### MessagePack primitives (as `msgpacker` 0.4.8 reads / writes them) -/

def beNat (bs : List Nat) : Nat := bs.foldl (fun a b => a * 256 + b) 0
def beBytes (v len : Nat) : List Nat := (List.range len).map fun i => (v / 256 ^ (len - 1 - i)) % 256

/-- `take(len)` of the reader / `take_num` of msgpacker -/
def takeN (n : Nat) (bs : List Nat) : Option (List Nat × List Nat) :=
  if bs.length < n then none else some (bs.take n, bs.drop n)

/-- `usize::unpack` (64-bit target): positive fixint, uint8, uint16, uint32, uint64 — any of them, minimal or not -/
def unpackUsize : List Nat → Option (Nat × List Nat)
  | [] => none
  | t :: r =>
    if t ≤ 0x7f then some (t, r)
    else if t == 0xcc then (takeN 1 r).map fun (v, r) => (beNat v, r)
    else if t == 0xcd then (takeN 2 r).map fun (v, r) => (beNat v, r)
    else if t == 0xce then (takeN 4 r).map fun (v, r) => (beNat v, r)
    else if t == 0xcf then (takeN 8 r).map fun (v, r) => (beNat v, r)
    else none

/-- `usize::pack`: the minimal encoding -/
def packUsize (v : Nat) : List Nat :=
  if v ≤ 127 then [v]
  else if v ≤ 0xff then [0xcc, v]
  else if v ≤ 0xffff then 0xcd :: beBytes v 2
  else if v ≤ 0xffffffff then 0xce :: beBytes v 4
  else 0xcf :: beBytes v 8

/-- `u8::unpack` -/
def unpackU8 : List Nat → Option (Nat × List Nat)
  | [] => none
  | t :: r =>
    if t ≤ 0x7f then some (t, r)
    else if t == 0xcc then (takeN 1 r).map fun (v, r) => (beNat v, r)
    else none

def packU8 (v : Nat) : List Nat := if v ≤ 127 then [v] else [0xcc, v]

/-- `bool::unpack` -/
def unpackBool : List Nat → Option (Bool × List Nat)
  | [] => none
  | t :: r => if t == 0xc3 then some (true, r) else if t == 0xc2 then some (false, r) else none

def packBool (b : Bool) : List Nat := [if b then 0xc3 else 0xc2]

/-- `n` items read one after the other (`[X; N]::unpack`, derived struct fields, the body of `unpack_vec`) -/
def unpackMany {α : Type} (f : List Nat → Option (α × List Nat)) : Nat → List Nat → Option (List α × List Nat)
  | 0, bs => some ([], bs)
  | n+1, bs =>
    match f bs with
    | none => none
    | some (x, r) =>
      match unpackMany f n r with
      | none => none
      | some (xs, r') => some (x :: xs, r')

/-- `PackedCircuitReader::unpack_array_len` -/
def unpackArrayLen : List Nat → Option (Nat × List Nat)
  | [] => none
  | t :: r =>
    if 0x90 ≤ t ∧ t ≤ 0x9f then some (t % 16, r)
    else if t == 0xdc then (takeN 2 r).map fun (v, r) => (beNat v, r)
    else if t == 0xdd then (takeN 4 r).map fun (v, r) => (beNat v, r)
    else none

/-- `pack_array` header -/
def packArrayLen (len : Nat) : List Nat :=
  if len ≤ 15 then [0x90 + len]
  else if len ≤ 0xffff then 0xdc :: beBytes len 2
  else 0xdd :: beBytes len 4

/-- `PackedCircuitReader::unpack_vec(max_len)`: the declared length is checked BEFORE any item is read -/
def unpackVec {α : Type} (f : List Nat → Option (α × List Nat)) (maxLen : Nat) (bs : List Nat) :
    Option (List α × List Nat) :=
  match unpackArrayLen bs with
  | none => none
  | some (len, r) => if len > maxLen then none else unpackMany f len r

/-! ### the packed circuit -/

structure PackedCircuit where
  hades : Bool
  publicInputs : List Nat
  witnesses : Nat
  scalars : List (List Nat)          -- 32 bytes each
  polynomials : List (List Nat)      -- 11 scalar indices each
  constraints : List (List Nat)      -- polynomial, a, b, c, d
  deriving Repr, BEq, DecidableEq

/-- `CompressedCircuit::unpack_bounded` -/
def unpackBounded (bs : List Nat) (maxConstraints : Nat) : Option PackedCircuit :=
  match unpackBool bs with
  | none => none
  | some (hades, r) =>
  match unpackVec unpackUsize maxConstraints r with
  | none => none
  | some (pis, r) =>
  match unpackUsize r with
  | none => none
  | some (wits, r) =>
  match unpackVec (unpackMany unpackU8 32) (maxConstraints * Generated.SELECTORS_PER_POLYNOMIAL) r with
  | none => none
  | some (scalars, r) =>
  match unpackVec (unpackMany unpackUsize 11) maxConstraints r with
  | none => none
  | some (polys, r) =>
  match unpackVec (unpackMany unpackUsize 5) maxConstraints r with
  | none => none
  | some (cons, r) =>
    if r.isEmpty then
      some { hades := hades, publicInputs := pis, witnesses := wits, scalars := scalars, polynomials := polys,
             constraints := cons }
    else none

/-- `Packable::pack` of a `CompressedCircuit` -/
def pack (c : PackedCircuit) : List Nat :=
  packBool c.hades ++
  packArrayLen c.publicInputs.length ++ c.publicInputs.flatMap packUsize ++
  packUsize c.witnesses ++
  packArrayLen c.scalars.length ++ c.scalars.flatMap (·.flatMap packU8) ++
  packArrayLen c.polynomials.length ++ c.polynomials.flatMap (·.flatMap packUsize) ++
  packArrayLen c.constraints.length ++ c.constraints.flatMap (·.flatMap packUsize)

/-! ### the built-in dictionary (`scalar_map`) -/

def leNat (bs : List Nat) : Nat := beNat bs.reverse
def leBytes32 (v : Nat) : List Nat := (List.range 32).map fun i => (v / 256 ^ i) % 256

/-- `hades::constants()`: SHA-512 chain from `b"poseidon-for-plonk"`, each digest reduced (`from_bytes_wide`, little
    endian) plus the running previous constant (starting from 1) -/
def hadesConstants : List Nat :=
  let seed : List Nat := "poseidon-for-plonk".toUTF8.toList.map (·.toNat)
  let step := fun (acc : List Nat × Nat × List Nat) (_ : Nat) =>
    let (bytes, p, out) := acc
    let d := Sha512.sha512 bytes
    let c := (leNat d + p) % R
    (d, c, c :: out)
  ((List.range (67 * 5)).foldl step (seed, 1, [])).2.2.reverse

/-- `hades::mds()` row-major: `1 / (i + (j + 5))` -/
def hadesMds : List Nat :=
  (List.range 5).flatMap fun i => (List.range 5).map fun j => finv (i + j + 5)

/-- `entry(s).or_insert(len)` over a list: the table of distinct values in order of first occurrence -/
def orInsertAll (tbl : List Nat) (xs : List Nat) : List Nat :=
  xs.foldl (fun t x => (dictInsert t x).1) tbl

/-- `scalar_map(hades_optimization)` as the table `index ↦ scalar` -/
def baseScalars (hades : Bool) : List Nat :=
  let b := [0, 1, R - 1]
  if hades then orInsertAll (orInsertAll b hadesConstants) hadesMds else b

/-! ### `from_composer`: dictionaries and the packed structure -/

def gateSelectors (g : Gate) : List Nat :=
  [g.qm, g.ql, g.qr, g.qo, g.qf, g.qc, g.qarith, g.qrange, g.qlogic, g.qfixed, g.qvar]

def dictInsertPoly (tbl : List (List Nat)) (k : List Nat) : List (List Nat) × Nat :=
  match tbl.findIdx? (· == k) with
  | some i => (tbl, i)
  | none => (tbl ++ [k], tbl.length)

/-- `CompressedCircuit::from_composer(hades, composer)` up to (excluding) `pack` + deflate -/
def fromComposer (hades : Bool) (c : Composer) : PackedCircuit :=
  let base := baseScalars hades
  let step := fun (acc : List Nat × List (List Nat) × List (List Nat)) (g : Gate) =>
    let (scal, polys, cons) := acc
    let (scal, idx) := (gateSelectors g).foldl (fun (st : List Nat × List Nat) s =>
        let (t, i) := dictInsert st.1 (s % R); (t, st.2 ++ [i])) (scal, [])
    let (polys, pi) := dictInsertPoly polys idx
    (scal, polys, cons ++ [[pi, g.a, g.b, g.c, g.d]])
  let (scal, polys, cons) := c.gates.toList.foldl step (base, [], [])
  let rows := (c.pis.toList.map (·.1)).foldl (fun acc r =>
      let (lo, hi) := acc.partition (· < r)
      lo ++ [r] ++ hi.filter (· != r)) []
  { hades := hades, publicInputs := rows, witnesses := c.wit.size,
    scalars := (scal.drop base.length).map leBytes32, polynomials := polys, constraints := cons }

/-- the payload `Circuit::compress()` deflates (hades optimisation on) -/
def compressPayload (c : Composer) : List Nat := pack (fromComposer true c)

/-! ### `from_bytes` after inflation -/

inductive PErr where
  | invalid          -- Error::InvalidCompressedCircuit
  | scalarMalformed  -- Error::BlsScalarMalformed
  deriving Repr, BEq, DecidableEq

def PackedCircuit.shape (c : PackedCircuit) : CompressedShape :=
  { publicInputs := c.publicInputs, witnesses := c.witnesses, scalars := c.scalars.length,
    polynomials := c.polynomials,
    constraints := c.constraints.map fun k => (k.getD 0 0, k.getD 1 0, k.getD 2 0, k.getD 3 0, k.getD 4 0) }

/-- `validate_indices(base_scalars)` -/
def validateIndices (c : PackedCircuit) (baseLen : Nat) : Bool :=
  let n := c.constraints.length
  c.publicInputs.all (· < n) &&
  (c.publicInputs.zip c.publicInputs.tail).all (fun (a, b) => a < b) &&
  c.polynomials.all (fun p => p.all (· < baseLen + c.scalars.length)) &&
  c.constraints.all (fun k => k.getD 0 0 < c.polynomials.length &&
      k.getD 1 0 < c.witnesses && k.getD 2 0 < c.witnesses && k.getD 3 0 < c.witnesses && k.getD 4 0 < c.witnesses)

/-- canonical scalar bytes (`BlsScalar::from_bytes`) -/
def scalarOfBytes? (bs : List Nat) : Option Nat :=
  let v := leNat bs
  if v < R then some v else none

def decodeScalars : List (List Nat) → Option (List Nat)
  | [] => some []
  | s :: ss => match scalarOfBytes? s with
    | none => none
    | some v => (decodeScalars ss).map (v :: ·)

/-- reconstruction loop of `from_bytes`: gates with witnesses relabelled in order of first use, a zero-valued public
    input on every listed row -/
def rebuild (c : PackedCircuit) (scalars : List Nat) : Composer :=
  let step := fun (acc : List Gate × List (Nat × Nat) × Nat × List Nat × Nat × List (Nat × Nat)) (k : List Nat) =>
    let (gs, m, next, pisLeft, i, pisOut) := acc
    let sel := (c.polynomials.getD (k.getD 0 0) []).map fun j => scalars.getD j 0
    let (m, next, a) := remapWitness m next (k.getD 1 0)
    let (m, next, b) := remapWitness m next (k.getD 2 0)
    let (m, next, cc) := remapWitness m next (k.getD 3 0)
    let (m, next, d) := remapWitness m next (k.getD 4 0)
    let g : Gate := { qm := sel.getD 0 0, ql := sel.getD 1 0, qr := sel.getD 2 0, qo := sel.getD 3 0, qf := sel.getD 4 0,
                      qc := sel.getD 5 0, qarith := sel.getD 6 0, qrange := sel.getD 7 0, qlogic := sel.getD 8 0,
                      qfixed := sel.getD 9 0, qvar := sel.getD 10 0, a := a, b := b, c := cc, d := d }
    let (pisLeft, pisOut) := match pisLeft with
      | p :: rest => if p == i then (rest, pisOut ++ [(i, 0)]) else (pisLeft, pisOut)
      | [] => (pisLeft, pisOut)
    (gs ++ [g], m, next, pisLeft, i + 1, pisOut)
  let (gs, _, next, _, _, pis) := c.constraints.foldl step ([], [], 0, c.publicInputs, 0, [])
  { gates := gs.toArray, wit := Array.replicate next 0, pis := pis.toArray }

/-- `CompressedCircuit::from_bytes` applied to the INFLATED payload -/
def fromPayload (payload : List Nat) (maxConstraints : Nat) : Except PErr Composer :=
  -- `decompress_to_vec_with_limit(compressed, packed_size_limit(max))`: a longer payload never reaches the reader
  if payload.length > packedSizeLimit maxConstraints then .error .invalid else
  match unpackBounded payload maxConstraints with
  | none => .error .invalid
  | some c =>
    let base := baseScalars c.hades
    if !validateIndices c base.length then .error .invalid
    else match decodeScalars c.scalars with
      | none => .error .scalarMalformed
      | some extra => .ok (rebuild c (base ++ extra))

end Plonk.Packed
