/-
  L6b — SHA-512 (FIPS 180-4), executable and import-free.  Needed only to rebuild the built-in scalar dictionary of the
  compressed circuit format (`src/composer/compress/hades.rs::constants`, which hashes with the external `sha2` crate).
  Bytes are `Nat`s below 256, words are `Nat`s below 2^64.
-/
namespace Plonk.Sha512

def W64 : Nat := 2 ^ 64

@[inline] def add64 (a b : Nat) : Nat := (a + b) % W64
@[inline] def rotr (x n : Nat) : Nat := ((x >>> n) ||| (x <<< (64 - n))) % W64
@[inline] def shr (x n : Nat) : Nat := x >>> n
@[inline] def not64 (x : Nat) : Nat := W64 - 1 - x

def K : Array Nat := #[
  0x428a2f98d728ae22, 0x7137449123ef65cd, 0xb5c0fbcfec4d3b2f, 0xe9b5dba58189dbbc, 0x3956c25bf348b538,
  0x59f111f1b605d019, 0x923f82a4af194f9b, 0xab1c5ed5da6d8118, 0xd807aa98a3030242, 0x12835b0145706fbe,
  0x243185be4ee4b28c, 0x550c7dc3d5ffb4e2, 0x72be5d74f27b896f, 0x80deb1fe3b1696b1, 0x9bdc06a725c71235,
  0xc19bf174cf692694, 0xe49b69c19ef14ad2, 0xefbe4786384f25e3, 0x0fc19dc68b8cd5b5, 0x240ca1cc77ac9c65,
  0x2de92c6f592b0275, 0x4a7484aa6ea6e483, 0x5cb0a9dcbd41fbd4, 0x76f988da831153b5, 0x983e5152ee66dfab,
  0xa831c66d2db43210, 0xb00327c898fb213f, 0xbf597fc7beef0ee4, 0xc6e00bf33da88fc2, 0xd5a79147930aa725,
  0x06ca6351e003826f, 0x142929670a0e6e70, 0x27b70a8546d22ffc, 0x2e1b21385c26c926, 0x4d2c6dfc5ac42aed,
  0x53380d139d95b3df, 0x650a73548baf63de, 0x766a0abb3c77b2a8, 0x81c2c92e47edaee6, 0x92722c851482353b,
  0xa2bfe8a14cf10364, 0xa81a664bbc423001, 0xc24b8b70d0f89791, 0xc76c51a30654be30, 0xd192e819d6ef5218,
  0xd69906245565a910, 0xf40e35855771202a, 0x106aa07032bbd1b8, 0x19a4c116b8d2d0c8, 0x1e376c085141ab53,
  0x2748774cdf8eeb99, 0x34b0bcb5e19b48a8, 0x391c0cb3c5c95a63, 0x4ed8aa4ae3418acb, 0x5b9cca4f7763e373,
  0x682e6ff3d6b2b8a3, 0x748f82ee5defb2fc, 0x78a5636f43172f60, 0x84c87814a1f0ab72, 0x8cc702081a6439ec,
  0x90befffa23631e28, 0xa4506cebde82bde9, 0xbef9a3f7b2c67915, 0xc67178f2e372532b, 0xca273eceea26619c,
  0xd186b8c721c0c207, 0xeada7dd6cde0eb1e, 0xf57d4f7fee6ed178, 0x06f067aa72176fba, 0x0a637dc5a2c898a6,
  0x113f9804bef90dae, 0x1b710b35131c471b, 0x28db77f523047d84, 0x32caab7b40c72493, 0x3c9ebe0a15c9bebc,
  0x431d67c49c100d4c, 0x4cc5d4becb3e42b6, 0x597f299cfc657e2a, 0x5fcb6fab3ad6faec, 0x6c44198c4a475817]

def H0 : List Nat := [
  0x6a09e667f3bcc908, 0xbb67ae8584caa73b, 0x3c6ef372fe94f82b, 0xa54ff53a5f1d36f1,
  0x510e527fade682d1, 0x9b05688c2b3e6c1f, 0x1f83d9abfb41bd6b, 0x5be0cd19137e2179]

def beWord (bs : List Nat) : Nat := bs.foldl (fun a b => a * 256 + b) 0
def wordBytes (w : Nat) : List Nat := (List.range 8).map fun i => (w >>> (8 * (7 - i))) % 256

/-- padding: 0x80, zeros, 128-bit big-endian bit length; total a multiple of 128 bytes -/
def pad (msg : List Nat) : List Nat :=
  let l := msg.length
  let k := (128 - (l + 17) % 128) % 128
  msg ++ [0x80] ++ List.replicate k 0 ++ (List.range 16).map fun i => ((8 * l) >>> (8 * (15 - i))) % 256

def chunks : Nat → List Nat → List (List Nat)
  | 0, _ => []
  | n+1, bs => if bs.isEmpty then [] else bs.take 128 :: chunks n (bs.drop 128)

def schedule (block : List Nat) : Array Nat := Id.run do
  let mut w : Array Nat := ((List.range 16).map fun i => beWord ((block.drop (8 * i)).take 8)).toArray
  for t in [16:80] do
    let w15 := w[t - 15]!
    let w2 := w[t - 2]!
    let s0 := rotr w15 1 ^^^ rotr w15 8 ^^^ shr w15 7
    let s1 := rotr w2 19 ^^^ rotr w2 61 ^^^ shr w2 6
    w := w.push (add64 (add64 (add64 s1 w[t - 7]!) s0) w[t - 16]!)
  return w

def compress (h : List Nat) (block : List Nat) : List Nat := Id.run do
  let w := schedule block
  let g (i : Nat) := h.getD i 0
  let mut a := g 0; let mut b := g 1; let mut c := g 2; let mut d := g 3
  let mut e := g 4; let mut f := g 5; let mut gg := g 6; let mut hh := g 7
  for t in [0:80] do
    let s1 := rotr e 14 ^^^ rotr e 18 ^^^ rotr e 41
    let ch := (e &&& f) ^^^ (not64 e &&& gg)
    let t1 := add64 (add64 (add64 (add64 hh s1) ch) K[t]!) w[t]!
    let s0 := rotr a 28 ^^^ rotr a 34 ^^^ rotr a 39
    let maj := (a &&& b) ^^^ (a &&& c) ^^^ (b &&& c)
    let t2 := add64 s0 maj
    hh := gg; gg := f; f := e; e := add64 d t1
    d := c; c := b; b := a; a := add64 t1 t2
  return [add64 (g 0) a, add64 (g 1) b, add64 (g 2) c, add64 (g 3) d,
          add64 (g 4) e, add64 (g 5) f, add64 (g 6) gg, add64 (g 7) hh]

/-- SHA-512 of a byte string, as 64 bytes -/
def sha512 (msg : List Nat) : List Nat :=
  let p := pad msg
  ((chunks (p.length / 128 + 1) p).foldl compress H0).flatMap wordBytes

end Plonk.Sha512
