/-
  L7 — compressed circuit descriptions at the structural level: what `CompressedCircuit::from_composer`
  followed by `CompressedCircuit::from_bytes` does to a composer (MessagePack / deflate are external
  and not modelled): selectors are recovered through the scalar / polynomial dictionaries (identity
  on values), witness indices are relabelled in order of first use, witness values are zero, public
  input rows keep their positions with value zero.

  Rust anchors: `src/composer/compress.rs`, `src/compiler.rs::max_constraints`.
-/
import Plonk.Model.System
namespace Plonk

/-- index-of-first-occurrence dictionary (`entry(k).or_insert(len)`): returns the table and the index -/
def dictInsert (tbl : List Nat) (k : Nat) : List Nat × Nat :=
  match tbl.findIdx? (· == k) with
  | some i => (tbl, i)
  | none => (tbl ++ [k], tbl.length)

/-- `remap_witness`: serialized label → fresh witness in order of first use -/
def remapWitness (m : List (Nat × Nat)) (next : Nat) (w : Nat) : List (Nat × Nat) × Nat × Nat :=
  match m.find? (·.1 == w) with
  | some (_, v) => (m, next, v)
  | none => ((w, next) :: m, next + 1, next)

/-- the composer rebuilt by `from_bytes (from_composer c)` -/
def decompressCompress (c : Composer) : Composer :=
  let (gates, _, next) := c.gates.toList.foldl (fun (acc : List Gate × List (Nat × Nat) × Nat) g =>
      let (gs, m, next) := acc
      let (m, next, a) := remapWitness m next g.a
      let (m, next, b) := remapWitness m next g.b
      let (m, next, cc) := remapWitness m next g.c
      let (m, next, d) := remapWitness m next g.d
      (gs ++ [{ g with a := a, b := b, c := cc, d := d }], m, next)) ([], [], 0)
  let rows := (c.pis.toList.map (·.1)).foldl (fun acc r =>
      let (lo, hi) := acc.partition (· < r)
      lo ++ [r] ++ hi.filter (· != r)) []
  { gates := gates.toArray, wit := Array.replicate next 0, pis := (rows.map fun r => (r, 0)).toArray }

/-- `Compiler::max_constraints(pp)` with `maxDegree = pp.max_degree()` -/
def maxConstraints (maxDegree : Nat) : Nat :=
  let available := maxDegree - Generated.ADDED_BLINDING_DEGREE
  let maxDomain := if available == 0 then 0 else 2 ^ (Nat.log2 available)
  maxDomain - Generated.CIRCUIT_SIZE_PADDING

/-- inflate limit of `from_bytes` -/
def packedSizeLimit (maxConstraints : Nat) : Nat :=
  maxConstraints * Generated.PACKED_BYTES_PER_CONSTRAINT + Generated.PACKED_FIXED_BYTES

/-- structural validity of a decoded description (`validate_indices` + the bounded reader) -/
structure CompressedShape where
  publicInputs : List Nat
  witnesses : Nat
  scalars : Nat            -- number of extra scalars
  polynomials : List (List Nat)   -- 11 scalar indices each
  constraints : List (Nat × Nat × Nat × Nat × Nat)   -- polynomial, a, b, c, d
  deriving Repr

def CompressedShape.valid (s : CompressedShape) (baseScalars maxConstraints : Nat) : Bool :=
  decide (s.publicInputs.length ≤ maxConstraints) && decide (s.polynomials.length ≤ maxConstraints) &&
  decide (s.constraints.length ≤ maxConstraints) &&
  decide (s.scalars ≤ maxConstraints * Generated.SELECTORS_PER_POLYNOMIAL) &&
  s.publicInputs.all (· < s.constraints.length) &&
  (s.publicInputs.zip s.publicInputs.tail).all (fun (a, b) => a < b) &&
  s.polynomials.all (fun p => p.all (· < baseScalars + s.scalars)) &&
  s.constraints.all (fun (p, a, b, c, d) => p < s.polynomials.length && a < s.witnesses && b < s.witnesses &&
                                             c < s.witnesses && d < s.witnesses)

end Plonk
