/-
  L4 (JubJub part) — twisted Edwards arithmetic over F_r with a = −1, as used by the
  composer's host-side witness computation.

  Rust anchors: `dusk_jubjub::{JubJubAffine, JubJubExtended}` (`+`, `double`, `is_on_curve`,
  `is_torsion_free`, `is_prime_order`, `multiply`), `JubJubScalar::compute_windowed_naf`.
  External crate: modelled, not verified (DESIGN §3); checked differentially.
-/
import Plonk.Model.Field
namespace Plonk

/-- affine point `(u, v)` -/
abbrev Pt := Nat × Nat

def Pt.id : Pt := (0, 1)

/-- `v² − u² − d·u²·v² == 1` -/
def onCurve (p : Pt) : Bool :=
  let u2 := fsq p.1; let v2 := fsq p.2
  fsub (fsub v2 u2) (fmul (fmul EDWARDS_D u2) v2) == 1 % R

/-- denominators of the addition law -/
def edDen (p q : Pt) : Nat × Nat :=
  let k := fmul EDWARDS_D (fmul (fmul p.1 q.1) (fmul p.2 q.2))
  (fadd 1 k, fsub 1 k)

/-- The affine addition law, `none` at a pole (`Z3 = 0` in extended coordinates). -/
def edAdd? (p q : Pt) : Option Pt :=
  let (dx, dy) := edDen p q
  if dx == 0 || dy == 0 then none
  else some (fdiv (fadd (fmul p.1 q.2) (fmul p.2 q.1)) dx,
             fdiv (fadd (fmul p.2 q.2) (fmul p.1 q.1)) dy)

/-- what `add_point_gates` computes on the host: identity when the extended sum has `Z = 0` -/
def edAddOrId (p q : Pt) : Pt := (edAdd? p q).getD Pt.id

def edNeg (p : Pt) : Pt := (fneg p.1, p.2)

/-! Extended coordinates `(U, V, Z, T1, T2)` for fast scalar multiplication in the driver. -/
structure Ext where
  u : Nat
  v : Nat
  z : Nat
  t1 : Nat
  t2 : Nat
  deriving Repr, BEq, Inhabited

def Ext.ofAffine (p : Pt) : Ext := ⟨p.1, p.2, 1 % R, p.1, p.2⟩
def Ext.id : Ext := ⟨0, 1 % R, 1 % R, 0, 0⟩

/-- add-2008-hwcd-3 with a = −1 (as `ExtendedPoint + ExtendedNielsPoint`) -/
def Ext.add (p q : Ext) : Ext :=
  let a := fmul (fsub p.v p.u) (fsub q.v q.u)
  let b := fmul (fadd p.v p.u) (fadd q.v q.u)
  let c := fmul (fmul (fmul p.t1 p.t2) (fmul (fmul q.t1 q.t2) (fmul 2 EDWARDS_D))) 1
  let d := fmul (fmul p.z q.z) 2
  let e := fsub b a; let f := fsub d c; let g := fadd d c; let h := fadd b a
  ⟨fmul e f, fmul g h, fmul f g, e, h⟩

/-- dbl-2008-hwcd with a = −1 (as `ExtendedPoint::double`) -/
def Ext.double (p : Ext) : Ext :=
  let uu := fsq p.u; let vv := fsq p.v
  let zz2 := fmul 2 (fsq p.z)
  let uv2 := fsq (fadd p.u p.v)
  let vvPuu := fadd vv uu
  let vvMuu := fsub vv uu
  -- CompletedPoint { u: uv2 - vv_plus_uu, v: vv_plus_uu, z: vv_minus_uu, t: zz2 - vv_minus_uu }
  let cu := fsub uv2 vvPuu; let cv := vvPuu; let cz := vvMuu; let ct := fsub zz2 vvMuu
  ⟨fmul cu ct, fmul cv cz, fmul cz ct, cu, cv⟩

def Ext.isIdentity (p : Ext) : Bool := p.u == 0 && p.v == p.z

def Ext.toAffine? (p : Ext) : Option Pt :=
  if p.z == 0 then none else let zi := finv p.z; some (fmul p.u zi, fmul p.v zi)

/-- `multiply(by)`: MSB-first double-and-add over bits 251..0 (top four bits skipped). -/
def Ext.mulBits (p : Ext) (k : Nat) : Ext :=
  (List.range 252).foldl (fun acc i =>
      let acc := acc.double
      if bit k (251 - i) == 1 then acc.add p else acc) Ext.id

/-- extended `is_on_curve`: `Z ≠ 0`, affine on curve, `u·v·Z = T1·T2` -/
def Ext.onCurve (p : Ext) : Bool :=
  match p.toAffine? with
  | none => false
  | some a => Plonk.onCurve a && fmul (fmul a.1 a.2) p.z == fmul p.t1 p.t2

def Ext.torsionFree (p : Ext) : Bool := (p.mulBits RJ).isIdentity
def Ext.primeOrder (p : Ext) : Bool := p.torsionFree && !p.isIdentity

/-- scalar multiplication of an affine point, identity on the (impossible for curve points) `Z = 0`. -/
def edMul (k : Nat) (p : Pt) : Pt := (((Ext.ofAffine p).mulBits k).toAffine?).getD Pt.id

/-- width-2 NAF of `k` (256 entries, little endian), as `compute_windowed_naf(2)`. -/
def wnaf2 (k : Nat) : List Int :=
  let rec go : Nat → Nat → List Int → List Int
    | 0, _, acc => acc.reverse
    | n+1, k, acc =>
      if k % 2 == 1 then
        let m := k % 4
        if m ≥ 2 then go n ((k + 1) / 2) ((-1) :: acc)   -- digit m − 4 = −1
        else go n ((k - 1) / 2) (1 :: acc)
      else go n (k / 2) (0 :: acc)
  go 256 k []

end Plonk
