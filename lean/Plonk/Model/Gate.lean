/-
  L1 — gates, the constraint builder, and the row semantics (the five widget
  identities, one Boolean per identity *component*, no separation challenges).

  Rust anchors: `src/composer/gate.rs`, `src/composer/constraint_system/constraint.rs`,
  `src/proof_system/widget/{arithmetic,range,logic,ecc/scalar_mul/fixed_base,
  ecc/curve_addition}/proverkey.rs::compute_quotient_i`.
-/
import Plonk.Model.Field
namespace Plonk

/-- A compiled gate: eleven selectors, four wire witness indices. -/
structure Gate where
  qm : Nat := 0
  ql : Nat := 0
  qr : Nat := 0
  qo : Nat := 0
  qf : Nat := 0
  qc : Nat := 0
  qarith : Nat := 0
  qrange : Nat := 0
  qlogic : Nat := 0
  qfixed : Nat := 0
  qvar : Nat := 0
  a : Nat := 0
  b : Nat := 0
  c : Nat := 0
  d : Nat := 0
  deriving Repr, BEq, DecidableEq, Inhabited

/-- `Constraint`: 12 coefficients (incl. the public input), 4 wires, the `has_public_input` flag. -/
structure Constraint where
  qm : Nat := 0
  ql : Nat := 0
  qr : Nat := 0
  qo : Nat := 0
  qf : Nat := 0
  qc : Nat := 0
  pi : Nat := 0
  qarith : Nat := 0
  qrange : Nat := 0
  qlogic : Nat := 0
  qfixed : Nat := 0
  qvar : Nat := 0
  a : Nat := 0
  b : Nat := 0
  c : Nat := 0
  d : Nat := 0
  hasPi : Bool := false
  deriving Repr, BEq, DecidableEq, Inhabited

namespace Constraint
/-- `Constraint::from_external`: keep the seven external coefficients, wires, flag; drop internal selectors. -/
def fromExternal (s : Constraint) : Constraint :=
  { qm := s.qm, ql := s.ql, qr := s.qr, qo := s.qo, qf := s.qf, qc := s.qc, pi := s.pi,
    a := s.a, b := s.b, c := s.c, d := s.d, hasPi := s.hasPi }
def arithmetic (s : Constraint) : Constraint := { fromExternal s with qarith := 1 }
def range (s : Constraint) : Constraint := { fromExternal s with qrange := 1 }
def logic (s : Constraint) : Constraint := { fromExternal s with qc := 1, qlogic := 1 }
def logicXor (s : Constraint) : Constraint := { fromExternal s with qc := R - 1, qlogic := R - 1 }
def groupAddFixedBase (s : Constraint) : Constraint := { fromExternal s with qfixed := 1 }
def groupAddVariableBase (s : Constraint) : Constraint := { fromExternal s with qvar := 1 }
def toGate (s : Constraint) : Gate :=
  { qm := s.qm, ql := s.ql, qr := s.qr, qo := s.qo, qf := s.qf, qc := s.qc,
    qarith := s.qarith, qrange := s.qrange, qlogic := s.qlogic, qfixed := s.qfixed, qvar := s.qvar,
    a := s.a, b := s.b, c := s.c, d := s.d }
end Constraint

/-! ### Row semantics -/

/-- `delta(f) = f(f-1)(f-2)(f-3)` -/
def delta (f : Nat) : Nat :=
  fmul (fmul (fmul f (fsub f 1)) (fsub f 2)) (fsub f 3)

/-- arithmetic identity incl. public input: `(qm·a·b+ql·a+qr·b+qo·c+qf·d+qc)·qarith + PI` -/
def arithVal (g : Gate) (a b c d pi : Nat) : Nat :=
  fadd (fmul (fadd (fadd (fadd (fadd (fadd (fmul (fmul a b) g.qm) (fmul a g.ql)) (fmul b g.qr))
      (fmul c g.qo)) (fmul d g.qf)) g.qc) g.qarith) pi

/-- the four range components -/
def rangeComps (a b c d dn : Nat) : List Nat :=
  [delta (fsub c (fmul 4 d)), delta (fsub b (fmul 4 c)), delta (fsub a (fmul 4 b)),
   delta (fsub dn (fmul 4 a))]

/-- `delta_xor_and(a, b, w, c, q_c)` -/
def deltaXorAnd (a b w c qc : Nat) : Nat :=
  let ab := fadd a b
  let f := fmul w (fadd (fsub (fadd (fmul w (fadd (fsub (fmul 4 w) (fmul 18 ab)) 81))
              (fmul 18 (fadd (fsq a) (fsq b)))) (fmul 81 ab)) 83)
  let e := fsub (fmul 3 (fadd ab c)) (fmul 2 f)
  let bb := fmul qc (fsub (fmul 9 c) (fmul 3 ab))
  fadd bb e

/-- the five logic components (order c_0..c_4 of the source) -/
def logicComps (qc a an b bn c d dn : Nat) : List Nat :=
  let qa := fsub an (fmul 4 a)
  let qb := fsub bn (fmul 4 b)
  let qd := fsub dn (fmul 4 d)
  [delta qa, delta qb, delta qd, fsub c (fmul qa qb), deltaXorAnd qa qb c qd qc]

/-- the four fixed-base components: bit consistency, xy consistency, x and y accumulation -/
def fixedComps (ql qr qc a an b bn c d dn : Nat) : List Nat :=
  let bit := fsub (fsub dn d) d
  let bitCons := fmul (fmul bit (fsub bit 1)) (fadd bit 1)
  let yAlpha := fadd (fmul (fsq bit) (fsub qr 1)) 1
  let xAlpha := fmul bit ql
  let xyCons := fsub (fmul bit qc) c
  let k := fmul (fmul (fmul c a) b) EDWARDS_D
  let xCons := fsub (fadd an (fmul an k)) (fadd (fmul a yAlpha) (fmul b xAlpha))
  let yCons := fsub (fsub bn (fmul bn k)) (fadd (fmul b yAlpha) (fmul a xAlpha))
  [bitCons, xyCons, xCons, yCons]

/-- the three variable-base (curve addition) components -/
def varComps (a an b bn c d dn : Nat) : List Nat :=
  let x1 := a; let x3 := an; let y1 := b; let y3 := bn; let x2 := c; let y2 := d; let x1y2 := dn
  let xy := fsub (fmul x1 y2) x1y2
  let y1x2 := fmul y1 x2
  let y1y2 := fmul y1 y2
  let x1x2 := fmul x1 x2
  let k := fmul (fmul EDWARDS_D x1y2) y1x2
  let xc := fsub (fadd x1y2 y1x2) (fadd x3 (fmul x3 k))
  let yc := fsub (fadd y1y2 x1x2) (fsub y3 (fmul y3 k))
  [xy, xc, yc]

def allZero (l : List Nat) : Bool := l.all (· == 0)

/-- All identity components of one row, as `(name, value)`; a component whose selector is zero
    is reported as `0`. The row holds iff every value is `0`. -/
def rowComps (g : Gate) (a b c d an bn dn pi : Nat) : List (String × Nat) :=
  [("arith", arithVal g a b c d pi)] ++
  ((rangeComps a b c d dn).zipIdx.map fun (v, i) => ("range" ++ toString i, fmul g.qrange v)) ++
  ((logicComps g.qc a an b bn c d dn).zipIdx.map fun (v, i) => ("logic" ++ toString i, fmul g.qlogic v)) ++
  ((fixedComps g.ql g.qr g.qc a an b bn c d dn).zipIdx.map fun (v, i) => ("fixed" ++ toString i, fmul g.qfixed v)) ++
  ((varComps a an b bn c d dn).zipIdx.map fun (v, i) => ("var" ++ toString i, fmul g.qvar v))

/-- The row identity: every widget component vanishes (selector-weighted). -/
def rowHolds (g : Gate) (a b c d an bn dn pi : Nat) : Bool :=
  arithVal g a b c d pi == 0
  && (g.qrange == 0 || allZero (rangeComps a b c d dn))
  && (g.qlogic == 0 || allZero (logicComps g.qc a an b bn c d dn))
  && (g.qfixed == 0 || allZero (fixedComps g.ql g.qr g.qc a an b bn c d dn))
  && (g.qvar == 0 || allZero (varComps a an b bn c d dn))

end Plonk
