/-
  L7 — byte codecs of the prover side: `EvaluationDomain`, `Evaluations`, `Polynomial`,
  `ProverKey::{to_var_bytes, from_slice}`, raw `CommitKey`, `Prover::{to_bytes, try_from_bytes}`
  (+ the checks of `Prover::new`), `PublicParameters::{to_var_bytes, from_slice}`.

  Rust anchors: `src/fft/{domain,evaluations,polynomial}.rs`, `src/proof_system/widget.rs`,
  `src/commitment_scheme/kzg10/{key,srs}.rs`, `src/compiler/prover.rs`.
-/
import Plonk.Model.Prover
namespace Plonk

inductive DecErr where
  | notEnoughBytes
  | invalidData
  | pointMalformed
  | domain           -- `EvaluationDomain::new` failed (`InvalidEvalDomainSize`)
  deriving Repr, BEq, DecidableEq

def DecErr.name : DecErr → String
  | .notEnoughBytes => "NotEnoughBytes"
  | .invalidData => "InvalidData"
  | .pointMalformed => "PointMalformed"
  | .domain => "InvalidEvalDomainSize"

/-! ### scalars, domains, evaluations, polynomials -/

def Domain.toBytes (d : Domain) : List Nat :=
  natToBytesLE d.size 8 ++ natToBytesLE d.logSize 4 ++ scalarBytesLE (d.size % R) ++ scalarBytesLE d.sizeInv ++
  scalarBytesLE d.groupGen ++ scalarBytesLE d.groupGenInv ++ scalarBytesLE d.generatorInv

def DOMAIN_SIZE : Nat := 8 + 4 + 5 * 32

/-- `Evaluations::to_var_bytes` -/
def evalsToBytes (d : Domain) (ev : List Nat) : List Nat := d.toBytes ++ ev.flatMap scalarBytesLE

/-- `Evaluations::from_slice`: the serialized domain must be exactly `EvaluationDomain::new(size)`,
    the payload exactly `size` canonical scalars -/
def evalsFromBytes (bs : List Nat) : Except DecErr (Domain × List Nat) :=
  if bs.length < DOMAIN_SIZE then .error .invalidData else
  let size := bytesToNatLE (bs.take 8)
  let dom := bs.take DOMAIN_SIZE
  -- the five scalars of the domain must decode (canonical) before anything else
  match readScalars 5 (bs.drop 12 |>.take 160) with
  | none => .error .invalidData
  | some _ =>
  if nextPow2' size != size then .error .invalidData else
  match Domain.new? size with
  | none => .error .domain
  | some d =>
    if d.toBytes != dom then .error .invalidData else
    let body := bs.drop DOMAIN_SIZE
    if body.length != size * 32 then .error .invalidData else
    match readScalars size body with
    | some (ev, _) => .ok (d, ev)
    | none => .error .invalidData

/-- `Polynomial::to_var_bytes`: coefficients up to the degree -/
def polyToBytes (p : Poly) : List Nat := ((p.take (Poly.degree p + 1))).flatMap scalarBytesLE

/-! ### ProverKey -/

structure PKeyRaw where
  n : Nat
  polys : Array Poly            -- serialization order: qm ql qr qo qf qc qarith qlogic qrange qfixed qvar s1 s2 s3 s4
  evals : Array (List Nat)      -- same order
  lin : List Nat
  vh : List Nat
  deriving Inhabited

def u64le? (bs : List Nat) : Option (Nat × List Nat) :=
  if bs.length < 8 then none else some (bytesToNatLE (bs.take 8), bs.drop 8)

/-- `ProverKey::from_slice` -/
def PKeyRaw.fromBytes (bs : List Nat) : Except DecErr PKeyRaw :=
  match u64le? bs with
  | none => .error .invalidData
  | some (n, r) =>
  match u64le? r with
  | none => .error .invalidData
  | some (evSize, r) =>
    let dsize := n * 8
    if dsize > USIZE_MAX then .error .invalidData else
    if nextPow2' dsize != dsize then .error .invalidData else
    match Domain.new? dsize with
    | none => .error .domain
    | some d8 =>
      -- 15 × (poly, evals), then linear evals, then vanishing evals
      let readPoly (r : List Nat) : Except DecErr (Poly × List Nat) :=
        match u64le? r with
        | none => .error .invalidData
        | some (len, r) =>
          if len > n then .error .invalidData else
          let sz := len * 32
          if sz == 0 then .ok ([], r) else
          if r.length < sz then .error .notEnoughBytes else
          match readScalars len (r.take sz) with
          | some (cs, _) => .ok (Poly.trim cs, r.drop sz)
          | none => .error .invalidData
      let readEvals (r : List Nat) : Except DecErr (List Nat × List Nat) :=
        if r.length < evSize then .error .notEnoughBytes else
        match evalsFromBytes (r.take evSize) with
        | .error e => .error e
        | .ok (d, ev) => if d != d8 then .error .invalidData else .ok (ev, r.drop evSize)
      let rec go : Nat → List Nat → Array Poly → Array (List Nat) → Except DecErr (Array Poly × Array (List Nat) × List Nat)
        | 0, r, ps, es => .ok (ps, es, r)
        | k+1, r, ps, es =>
          match readPoly r with
          | .error e => .error e
          | .ok (p, r) =>
            match readEvals r with
            | .error e => .error e
            | .ok (ev, r) => go k r (ps.push p) (es.push ev)
      match go 15 r #[] #[] with
      | .error e => .error e
      | .ok (ps, es, r) =>
        match readEvals r with
        | .error e => .error e
        | .ok (lin, r) =>
          if !d8.matchesLinearOverCoset lin then .error .invalidData else
          match readEvals r with
          | .error e => .error e
          | .ok (vh, _) =>
            if !d8.matchesVanishingOverCoset n vh then .error .invalidData else
            .ok { n := n, polys := ps, evals := es, lin := lin, vh := vh }

/-- `ProverKey::to_var_bytes` (buffer sized from the longest polynomial, zero padded) -/
def PKeyRaw.toBytes (k : PKeyRaw) : List Nat :=
  match Domain.new? (8 * k.n) with
  | none => []
  | some d8 =>
    let evSize := (k.evals.getD 0 []).length * 32 + DOMAIN_SIZE
    let maxLen := k.polys.foldl (fun m p => max m p.length) 0
    let size := maxLen * 32 * 15 + evSize * 17 + 8 * 17
    let body := natToBytesLE k.n 8 ++ natToBytesLE evSize 8 ++
      ((List.range 15).flatMap fun i =>
        let p := k.polys.getD i []
        natToBytesLE p.length 8 ++ polyToBytes p ++ evalsToBytes d8 (k.evals.getD i [])) ++
      evalsToBytes d8 k.lin ++ evalsToBytes d8 k.vh
    body ++ List.replicate (size - body.length) 0

/-! ### raw commit key (Montgomery limbs) -/

/-- Montgomery radix of the base field: `2^384 mod p` and its inverse -/
def MONT_R : Nat := 2 ^ 384 % P
def MONT_RINV : Nat := pinv MONT_R

/-- raw G1 point: 12 little-endian u64 limbs (x, y in Montgomery form) + infinity flag byte -/
def G1.toRaw : G1 → List Nat
  | .inf => natToBytesLE 0 48 ++ natToBytesLE (pmul 1 MONT_R) 48 ++ [1]
  | .aff x y => natToBytesLE (pmul x MONT_R) 48 ++ natToBytesLE (pmul y MONT_R) 48 ++ [0]

/-- `raw_g1_is_canonical` + `G1Affine::from_slice_unchecked` + `is_on_curve & is_torsion_free`, as
    `CommitKey::from_raw_var_bytes` does for every chunk of 97 bytes: the flag byte must be 0 or 1,
    both coordinates must have limbs below `p`, the point at infinity must be the canonical
    identity encoding (x = 0, y = Montgomery one) -/
def G1.fromRawChecked (bs : List Nat) : Option G1 :=
  let xm := bytesToNatLE (bs.take 48)
  let ym := bytesToNatLE ((bs.drop 48).take 48)
  let flag := bs.getD 96 0
  if flag > 1 || xm ≥ P || ym ≥ P then none else
  if flag == 1 then (if xm == 0 && ym == MONT_R then some .inf else none) else
  let pt := G1.aff (pmul xm MONT_RINV) (pmul ym MONT_RINV)
  if pt.onCurve && pt.torsionFree then some pt else none

/-- `CommitKey::from_raw_var_bytes` -/
def commitKeyFromRaw (bs : List Nat) : Except DecErr (List G1) :=
  if bs.length < 8 then .error .notEnoughBytes else
  let len := bytesToNatLE (bs.take 8)
  if len == 0 then .error .invalidData else
  if len * 97 > USIZE_MAX || 8 + len * 97 > USIZE_MAX then .error .notEnoughBytes else
  if bs.length != 8 + len * 97 then .error .notEnoughBytes else
  let rec go : Nat → List Nat → List G1 → Except DecErr (List G1)
    | 0, _, acc => .ok acc.reverse
    | k+1, r, acc =>
      match G1.fromRawChecked (r.take 97) with
      | some p => go k (r.drop 97) (p :: acc)
      | none => .error .pointMalformed
  go len (bs.drop 8) []

def commitKeyToRaw (ck : List G1) : List Nat := natToBytesLE ck.length 8 ++ ck.flatMap G1.toRaw

/-! ### Prover -/

structure ProverM where
  label : List Nat
  key : PKeyRaw
  ck : List G1
  vk : VKey
  size : Nat
  constraints : Nat
  deriving Inhabited

/-- `Prover::try_from_bytes` including the checks of `Prover::new` -/
def ProverM.fromBytes (bs : List Nat) : Except DecErr ProverM :=
  if bs.length < 48 then .error .notEnoughBytes else
  let rd (r : List Nat) : Nat × List Nat := (bytesToNatBE (r.take 8), r.drop 8)
  let (labelLen, r) := rd bs
  let (pkLen, r) := rd r
  let (ckLen, r) := rd r
  let (vkLen, r) := rd r
  let (size, r) := rd r
  let (constraints, r) := rd r
  let req := labelLen + pkLen
  if req > USIZE_MAX then .error .notEnoughBytes else
  let req := req + ckLen
  if req > USIZE_MAX then .error .notEnoughBytes else
  let req := req + vkLen
  if req > USIZE_MAX then .error .notEnoughBytes else
  if r.length < req then .error .notEnoughBytes else
  if constraints > 2 ^ 63 || nextPow2' constraints != size then .error .invalidData else
  let label := r.take labelLen
  let r := r.drop labelLen
  let pkB := r.take pkLen
  let r := r.drop pkLen
  let ckB := r.take ckLen
  let r := r.drop ckLen
  let vkB := r.take vkLen
  match PKeyRaw.fromBytes pkB with
  | .error e => .error e
  | .ok key =>
    if key.n != size then .error .invalidData else
    match commitKeyFromRaw ckB with
    | .error e => .error e
    | .ok ck =>
      match VKey.fromBytes? vkB with
      | none => .error .invalidData
      | some vk =>
        -- Prover::new
        match Domain.new? constraints with
        | none => .error .domain
        | some d =>
          match Domain.new? (d.size * 8) with
          | none => .error .domain
          | some d8 =>
            if key.vh.length != d8.size || key.vh.any (· == 0) then .error .invalidData else
            .ok { label := label, key := key, ck := ck, vk := vk, size := size, constraints := constraints }

def ProverM.toBytes (p : ProverM) : List Nat :=
  let pk := p.key.toBytes
  let ck := commitKeyToRaw p.ck
  let vk := p.vk.toBytes
  u64beBytes p.label.length ++ u64beBytes pk.length ++ u64beBytes ck.length ++ u64beBytes vk.length ++
  u64beBytes p.size ++ u64beBytes p.constraints ++ p.label ++ pk ++ ck ++ vk

/-- the model proving key of a decoded prover (trapdoor `x` supplied by the harness) -/
def ProverM.toPKey (p : ProverM) (x : Nat) : PKey :=
  let sel (i : Nat) := p.key.polys.getD i []
  let ev (i : Nat) := (p.key.evals.getD i []).toArray
  { n := p.key.n, constraints := p.constraints, label := p.label,
    sel := #[sel 0, sel 1, sel 2, sel 3, sel 4, sel 5, sel 6, sel 8, sel 7, sel 9, sel 10],
    sigma := #[sel 11, sel 12, sel 13, sel 14],
    vk := p.vk, piIndexes := [], x := x, g := p.ck.headD .inf, ckLen := p.ck.length, lay := {},
    selE := #[ev 0, ev 1, ev 2, ev 3, ev 4, ev 5, ev 6, ev 8, ev 7, ev 9, ev 10],
    sigE8 := #[ev 11, ev 12, ev 13, ev 14], linE := p.key.lin.toArray, vh := p.key.vh.toArray }

/-! ### PublicParameters -/

/-- `CommitKey::from_slice` (compressed points, `chunks(48)`) -/
def commitKeyFromCompressed (bs : List Nat) : Except DecErr (List G1) :=
  let rec go : Nat → List Nat → List G1 → Except DecErr (List G1)
    | 0, _, acc => .ok acc.reverse
    | f+1, r, acc =>
      if r.isEmpty then .ok acc.reverse else
      match G1.fromCompressed? (r.take 48) with
      | some p => go f (r.drop 48) (p :: acc)
      | none => .error .invalidData
  go (bs.length / 48 + 2) bs []

/-- `PublicParameters::from_slice` -/
def ppFromBytes (bs : List Nat) : Except DecErr (OpeningKeyM × List G1) :=
  if bs.length ≤ 240 then .error .notEnoughBytes else
  match OpeningKeyM.fromBytes? (bs.take 240) with
  | none => .error .invalidData
  | some ok =>
    match commitKeyFromCompressed (bs.drop 240) with
    | .error e => .error e
    | .ok ck => .ok (ok, ck)

def ppToBytes (ok : OpeningKeyM) (ck : List G1) : List Nat := ok.toBytes ++ ck.flatMap G1.toCompressed

end Plonk
