/-
  L3 — polynomials as little-endian coefficient lists over F_r, exactly the branchy arithmetic of
  `src/fft/polynomial.rs` (trimmed representation, `Add`/`Sub`/`AddAssign`/`SubAssign`, scalar ops,
  `evaluate`, `ruffini`), next to the schoolbook definitions.
-/
import Plonk.Model.Field
namespace Plonk

abbrev Poly := List Nat

namespace Poly

/-- drop trailing zero coefficients (`truncate_leading_zeros`) -/
def trim (p : Poly) : Poly := (p.reverse.dropWhile (· == 0)).reverse

/-- `from_coefficients_vec` -/
def ofCoeffs (p : Poly) : Poly := trim (p.map (· % R))

def isZero (p : Poly) : Bool := p.all (· == 0)

/-- `degree()`: 0 for the zero polynomial, else index of the last non-zero coefficient -/
def degree (p : Poly) : Nat := (trim p).length - 1

/-- coefficient-wise combination over the longer of the two lists -/
def zipLong (f : Nat → Nat → Nat) : Poly → Poly → Poly
  | [], [] => []
  | a :: as, [] => f a 0 :: zipLong f as []
  | [], b :: bs => f 0 b :: zipLong f [] bs
  | a :: as, b :: bs => f a b :: zipLong f as bs

/-- zip `f` over `a`, reading `0` past the end of `b`; result has the length of `a` -/
def zipOnto (f : Nat → Nat → Nat) : Poly → Poly → Poly
  | [], _ => []
  | a :: as, [] => f a 0 :: zipOnto f as []
  | a :: as, b :: bs => f a b :: zipOnto f as bs

/-- `&a + &b` -/
def add (a b : Poly) : Poly :=
  trim (if isZero a then b
        else if isZero b then a
        else if degree a ≥ degree b then zipOnto fadd a (b.take a.length)
        else zipOnto (fun x y => fadd y x) b (a.take b.length))

/-- `a += &b` -/
def addAssign (a b : Poly) : Poly :=
  trim (if isZero a then b
        else if isZero b then a
        else if degree a ≥ degree b then zipOnto fadd a (b.take a.length)
        else zipLong fadd a b)

/-- `a += (f, &b)` -/
def addAssignScaled (a : Poly) (f : Nat) (b : Poly) : Poly :=
  trim (if isZero a then b.map (fmul · f)
        else if isZero b then a
        else if degree a ≥ degree b then zipOnto (fun x y => fadd x (fmul f y)) a (b.take a.length)
        else zipLong (fun x y => fadd x (fmul f y)) a b)

/-- `&a - &b` -/
def sub (a b : Poly) : Poly :=
  trim (if isZero a then b.map fneg
        else if isZero b then a
        else if degree a ≥ degree b then zipOnto fsub a (b.take a.length)
        else zipLong fsub a b)

/-- `a -= &b` -/
def subAssign (a b : Poly) : Poly :=
  trim (if isZero a then zipLong fsub (a.take b.length) b
        else if isZero b then a
        else if degree a ≥ degree b then zipOnto fsub a (b.take a.length)
        else zipLong fsub a b)

/-- `&p * &k` -/
def scale (p : Poly) (k : Nat) : Poly :=
  if isZero p || k % R == 0 then [] else ofCoeffs (p.map (fmul · k))

/-- `&p + &k` -/
def addConst (p : Poly) (k : Nat) : Poly :=
  if isZero p then ofCoeffs [k]
  else if k % R == 0 then p
  else match p with
    | [] => []
    | c :: cs => fadd c k :: cs

def subConst (p : Poly) (k : Nat) : Poly := addConst p (fneg k)

/-- Horner-free evaluation as in the source: Σ cᵢ·zⁱ with running powers -/
def evaluate (p : Poly) (z : Nat) : Nat :=
  if isZero p then 0 else
  (p.foldl (fun (acc : Nat × Nat) c => (fadd acc.1 (fmul acc.2 c), fmul acc.2 z)) (0, 1 % R)).1

/-- `ruffini(z)`: quotient of the division by `X − z` (remainder dropped) -/
def ruffini (p : Poly) (z : Nat) : Poly :=
  let (q, _) := p.reverse.foldl (fun (acc : List Nat × Nat) c =>
      let t := fadd c acc.2
      (t :: acc.1, fmul z t)) ([], 0)
  -- `q` now holds the running values lowest-degree first; its head is the remainder
  ofCoeffs q.tail

/-- schoolbook product (definition) -/
def mulSchool : Poly → Poly → Poly
  | [], _ => []
  | a :: as, b => zipLong fadd (b.map (fmul a)) (0 :: mulSchool as b)

end Poly
end Plonk
