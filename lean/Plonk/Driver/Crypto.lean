/-
  Line-protocol front end: transcript, BLS12-381 point codecs and group operations.
-/
import Plonk.Model.Bls
import Plonk.Model.Transcript
import Plonk.Model.Kzg
import Plonk.Model.Verifier
import Plonk.Model.Prover
import Plonk.Driver.Forge
import Plonk.Model.Codec
import Plonk.Driver.Parse
import Plonk.Driver.Kernels
import Plonk.Driver.Prog
namespace Plonk.Driver
open Plonk

def parseBytes? (s : String) : Option (List Nat) :=
  if s == "-" then some [] else
  let cs := s.toList
  if cs.length % 2 != 0 then none else
  let rec go : Nat → List Char → List Nat → Option (List Nat)
    | 0, _, acc => some acc.reverse
    | _, [], acc => some acc.reverse
    | f+1, a :: b :: rest, acc =>
      match hexDigit? a, hexDigit? b with
      | some x, some y => go f rest ((x * 16 + y) :: acc)
      | _, _ => none
    | _, _, _ => none
  go (cs.length + 1) cs []

def showBytes (bs : List Nat) : String :=
  if bs.isEmpty then "-" else String.ofList (bs.flatMap fun b => [hexChar (b / 16), hexChar (b % 16)])

/-- `tr new:<label> msg:<l>:<m> u64:<l>:<n> ch:<l>:<n> …` → the challenge byte strings in order -/
def transcriptAnswer (ops : List String) : String :=
  let step (st : Option Transcript × List String × Bool) (op : String) : Option Transcript × List String × Bool :=
    let (t?, outs, bad) := st
    if bad then st else
    match op.splitOn ":", t? with
    | ["new", l], _ => match parseBytes? l with
      | some l => (some (Transcript.new l), outs, false)
      | none => (t?, outs, true)
    | ["msg", l, m], some t => match parseBytes? l, parseBytes? m with
      | some l, some m => (some (t.appendMessage l m), outs, false)
      | _, _ => (t?, outs, true)
    | ["u64", l, n], some t => match parseBytes? l, n.toNat? with
      | some l, some n => (some (t.appendU64 l n), outs, false)
      | _, _ => (t?, outs, true)
    | ["ch", l, n], some t => match parseBytes? l, n.toNat? with
      | some l, some n =>
        let (t, bs) := t.challengeBytes l n
        (some t, showBytes bs :: outs, false)
      | _, _ => (t?, outs, true)
    | _, _ => (t?, outs, true)
  let (_, outs, bad) := ops.foldl step (none, [], false)
  if bad then "bad-request" else String.intercalate " " outs.reverse

def cryptoAnswer (toks : List String) : String :=
  match toks with
  | "tr" :: ops => transcriptAnswer ops
  | ["g1dec", h] =>
    match parseBytes? h with
    | some bs => match G1.fromCompressed? bs with
      | some p => "ok " ++ showBytes p.toCompressed
      | none => "err"
    | none => "bad-request"
  | ["g2dec", h] =>
    match parseBytes? h with
    | some bs => match G2.fromCompressed? bs with
      | some p => "ok " ++ showBytes p.toCompressed
      | none => "err"
    | none => "bad-request"
  | ["g1mul", k, h] =>
    match parseHex? k, parseBytes? h with
    | some k, some bs => match G1.fromCompressed? bs with
      | some p => showBytes (G1.smul k p).toCompressed
      | none => "err"
    | _, _ => "bad-request"
  | ["g1add", a, b] =>
    match parseBytes? a, parseBytes? b with
    | some a, some b => match G1.fromCompressed? a, G1.fromCompressed? b with
      | some p, some q => showBytes (G1.add p q).toCompressed
      | _, _ => "err"
    | _, _ => "bad-request"
  | ["g2mul", k, h] =>
    match parseHex? k, parseBytes? h with
    | some k, some bs => match G2.fromCompressed? bs with
      | some p => showBytes (G2.smul k p).toCompressed
      | none => "err"
    | _, _ => "bad-request"
  | _ => "bad-request"

end Plonk.Driver

namespace Plonk.Driver
open Plonk

def drawOf? (h : String) : Option Nat := (parseBytes? h).bind fun bs => if bs.length == 64 then some (wideDraw bs) else none

def srsOf? (deg d1 d2 d3 : String) : Option (Except KErr SRS) :=
  match deg.toNat?, drawOf? d1, drawOf? d2, drawOf? d3 with
  | some deg, some a, some b, some c => some (SRS.setup deg [a, b, c])
  | _, _, _, _ => none

def kzgAnswer (toks : List String) : String :=
  match toks with
  | ["kzgsetup", deg, d1, d2, d3] =>
    match srsOf? deg d1 d2 d3 with
    | some (.ok s) =>
      let bytes := s.powers.flatMap G1.toCompressed
      s!"g={showBytes s.g.toCompressed} h={showBytes s.h.toCompressed} xh={showBytes s.xh.toCompressed} n={s.powers.length} hk={toHex (hashList bytes)}"
    | some (.error e) => "err:" ++ e.name
    | none => "bad-request"
  | ["kzgtrim", deg, d1, d2, d3, trim] =>
    match srsOf? deg d1 d2 d3, trim.toNat? with
    | some (.ok s), some t => match s.trim t with
      | .ok k => toString k.length
      | .error e => "err:" ++ e.name
    | some (.error e), _ => "err:" ++ e.name
    | _, _ => "bad-request"
  | ["kzgcommit", deg, d1, d2, d3, trim, coeffs] =>
    match srsOf? deg d1 d2 d3, trim.toNat?, parseList? coeffs with
    | some (.ok s), some t, some p => match s.trim t with
      | .ok ck => match commit ck (Poly.ofCoeffs p) with
        | .ok c =>
          -- spec: the commitment is [p(x)]g
          let spec := G1.smul (Poly.evaluate (Poly.ofCoeffs p) s.x) s.g
          showBytes c.toCompressed ++ (if spec == c then " spec=ok" else " spec=MISMATCH")
        | .error e => "err:" ++ e.name
      | .error e => "err:" ++ e.name
    | some (.error e), _, _ => "err:" ++ e.name
    | _, _, _ => "bad-request"
  | "kzgbatch" :: deg :: d1 :: d2 :: d3 :: trim :: items :: rest =>
    match srsOf? deg d1 d2 d3, trim.toNat? with
    | some (.ok s), some t => match s.trim t with
      | .error e => "err:" ++ e.name
      | .ok ck =>
        let parseItem (it : String) : Option (Nat × KProof) :=
          match it.splitOn "|" with
          | [z, v, polys, evals, wz] =>
            match parseHex? z, parseHex? v, optionAll parseList? (polys.splitOn ";"), parseHex? wz with
            | some z, some v, some polys, some wz =>
              let polys := polys.map Poly.ofCoeffs
              let evs? : Option (List Nat) := if evals == "=" then some (polys.map (Poly.evaluate · z)) else parseList? evals
              match evs?, optionAll (fun p => (commit ck p).toOption) polys,
                    (commit ck (aggregateWitness polys wz v)).toOption with
              | some evs, some comms, some w =>
                let (c, e) := flatten comms evs v
                some (z, { witness := w, eval := e, comm := c })
              | _, _, _ => none
            | _, _, _, _ => none
          | _ => none
        let its := if items == "-" then some [] else optionAll parseItem (items.splitOn "/")
        match its with
        | none => "err:item"
        | some its =>
          let points := its.map (·.1)
          let proofs := its.map (·.2)
          let proofs := match rest.find? (·.startsWith "perm=") with
            | some p => ((p.drop 5).toString.splitOn ",").filterMap fun i => i.toNat?.bind fun i => proofs[i]?
            | none => proofs
          let points := match rest.find? (·.startsWith "npoints=") with
            | some p => match (p.drop 8).toString.toNat? with
              | some n => (points ++ List.replicate n (points.headD 1)).take n
              | none => points
            | none => points
          match batchCheck s (Transcript.new (Strobe.strBytes "kzg-verif")) points proofs with
          | .ok () => "ok"
          | .error e => "err:" ++ e.name
    | some (.error e), _ => "err:" ++ e.name
    | _, _ => "bad-request"
  | ["kzgaggw", polys, z, v] =>
    match optionAll parseList? (polys.splitOn ";"), parseHex? z, parseHex? v with
    | some ps, some z, some v => showList (aggregateWitness (ps.map Poly.ofCoeffs) z v)
    | _, _, _ => "bad-request"
  | _ => "bad-request"

end Plonk.Driver

namespace Plonk.Driver
open Plonk

def verName? (s : String) : Option PVersion :=
  match s with | "1" => some .v1 | "2" => some .v2 | "3" => some .v3 | _ => none

/-- `verify <ver> <x> <verifier-hex> <pis> <proof-hex>`; `cache` holds the last decoded verifier -/
def verifyAnswer (cache : Option (String × Except VDecErr VerifierM)) (toks : List String) :
    String × Option (String × Except VDecErr VerifierM) :=
  match toks with
  | ["verify", ver, x, vhex, pis, phex] =>
    match verName? ver, parseHex? x, parseList? pis, parseBytes? phex with
    | some ver, some x, some pis, some pb =>
      let (dv, cache) : Except VDecErr VerifierM × Option (String × Except VDecErr VerifierM) :=
        match cache with
        | some (k, v) => if k == vhex then (v, cache) else
            match parseBytes? vhex with
            | some vb => let v := VerifierM.fromBytes vb; (v, some (vhex, v))
            | none => (.error .invalid, cache)
        | none =>
            match parseBytes? vhex with
            | some vb => let v := VerifierM.fromBytes vb; (v, some (vhex, v))
            | none => (.error .invalid, cache)
      match dv with
      | .error .notEnoughBytes => ("err:verifier-NotEnoughBytes", cache)
      | .error .invalid => ("err:verifier-invalid", cache)
      | .error .domain => ("err:verifier-domain", cache)
      | .ok v =>
        match ProofM.fromBytes? pb with
        | none => ("err:proof-decode", cache)
        | some p =>
          -- canonicity: an accepted byte string re-encodes to itself
          let canon := if p.toBytes == pb.take 1008 then "" else " NONCANONICAL"
          match v.verify x p pis ver with
          | .ok =>
            -- cross-check the grouped MSM against the textbook equation
            let spec := match Domain.new? v.vk.n with
              | some d =>
                let roots := v.piIndexes.map fun i => fpow d.groupGenInv (i % 2 ^ 64)
                let ch := verifierChallenges v.label v.vk v.constraints (ver == .v3) pis p
                match verifyTerms v.vk v.ok.g d roots pis p ch (ver == .v1), verifyRefPoint v.vk v.ok.g d roots pis p ch (ver == .v1) with
                | some (right, _), some refp => if G1.msum right == refp then " spec=ok" else " spec=MISMATCH"
                | _, _ => " spec=MISMATCH"
              | none => " spec=MISMATCH"
            ("ok" ++ canon ++ spec, cache)
          | .piLen => ("err:pilen", cache)
          | .reject => ("err:verify" ++ canon, cache)
    | _, _, _, _ => ("bad-request", cache)
  | "vkscalars" :: ver :: _x :: vhex :: pis :: phex :: ovr =>
    -- the TOTAL scalar each of the 15 verifier-key commitments carries in the right-hand side of the verification
    -- equation (textbook form), for the challenges of this statement and proof: scalars depend on evaluations and
    -- challenges only, so they are read off a copy of the terms in which every commitment is a distinct marker.
    -- Used by the search for a failing input (a key commitment that the transcript does not bind can be shifted).
    match verName? ver, parseList? pis, parseBytes? phex, parseBytes? vhex with
    | some ver, some pis, some pb, some vb =>
      match VerifierM.fromBytes vb, ProofM.fromBytes? pb with
      | .ok v, some p =>
        match Domain.new? v.vk.n with
        | none => ("err", cache)
        | some d =>
          let ch0 := verifierChallenges v.label v.vk v.constraints (ver == .v3) pis p
          -- optional overrides `name=hex` (the challenges the REAL verifier derived, when its transcript is under suspicion)
          let ov (n : String) (dflt : Nat) : Nat :=
            match ovr.find? (fun t => t.startsWith (n ++ "=")) with
            | some t => (parseHex? ((t.drop (n.length + 1)).toString)).getD dflt
            | none => dflt
          let ch : Challenges :=
            { beta := ov "beta" ch0.beta
              gamma := ov "gamma" ch0.gamma
              alpha := ov "alpha" ch0.alpha
              rangeSep := ov "rsep" ch0.rangeSep
              logicSep := ov "lsep" ch0.logicSep
              fixedSep := ov "fsep" ch0.fixedSep
              varSep := ov "vsep" ch0.varSep
              z := ov "z" ch0.z
              v := ov "v" ch0.v
              vw := ov "vw" ch0.vw
              u := ov "u" ch0.u }
          let roots := v.piIndexes.map fun i => fpow d.groupGenInv (i % 2 ^ 64)
          let mk (i : Nat) : G1 := .aff (1000 + i) 1
          let vkM : VKey := { n := v.vk.n, qm := mk 0, ql := mk 1, qr := mk 2, qo := mk 3, qf := mk 4, qc := mk 5, qarith := mk 6,
                              qlogic := mk 7, qrange := mk 8, qfixed := mk 9, qvar := mk 10, s1 := mk 11, s2 := mk 12,
                              s3 := mk 13, s4 := mk 14 }
          let pM : ProofM := { p with aC := mk 20, bC := mk 21, cC := mk 22, dC := mk 23, zC := mk 24, tLow := mk 25,
                                      tMid := mk 26, tHigh := mk 27, tFourth := mk 28, wz := mk 29, wzw := mk 30 }
          match verifyRefTerms vkM (mk 40) d roots pis pM ch (ver == .v1) with
          | none => ("err", cache)
          | some terms =>
            let sc (i : Nat) : Nat := terms.foldl (fun acc (s, pt) => if pt == mk i then fadd acc s else acc) 0
            let ss := String.intercalate "," ((List.range 15).map fun i => toHex (sc i))
            (s!"z={toHex ch.z} n={v.vk.n} g={showBytes v.ok.g.toCompressed} scalars={ss}", cache)
      | _, _ => ("err", cache)
    | _, _, _, _ => ("bad-request", cache)
  | ["chals", ver, _x, vhex, pis, phex] =>
    -- the challenges the (current) transcript order yields for this statement and proof; used by the search for a
    -- failing input to build proofs that depend on a challenge (e.g. shifted opening commitments)
    match verName? ver, parseList? pis, parseBytes? phex, parseBytes? vhex with
    | some ver, some pis, some pb, some vb =>
      match VerifierM.fromBytes vb, ProofM.fromBytes? pb with
      | .ok v, some p =>
        let ch := verifierChallenges v.label v.vk v.constraints (ver == .v3) pis p
        let gen := match Domain.new? v.vk.n with | some d => d.groupGen | none => 0
        (s!"z={toHex ch.z} u={toHex ch.u} v={toHex ch.v} vw={toHex ch.vw} alpha={toHex ch.alpha} beta={toHex ch.beta} gamma={toHex ch.gamma} n={v.vk.n} omega={toHex gen} g={showBytes v.ok.g.toCompressed}", cache)
      | _, _ => ("err", cache)
    | _, _, _, _ => ("bad-request", cache)
  | ["vroundtrip", vhex] =>
    match parseBytes? vhex with
    | some vb => match VerifierM.fromBytes vb with
      | .ok v => ("ok " ++ showBytes v.toBytes, cache)
      | .error .notEnoughBytes => ("err:verifier-NotEnoughBytes", cache)
      | .error .invalid => ("err:verifier-invalid", cache)
      | .error .domain => ("err:verifier-domain", cache)
    | none => ("bad-request", cache)
  | ["proofdec", phex] =>
    match parseBytes? phex with
    | some pb => match ProofM.fromBytes? pb with
      | some p => ("ok " ++ showBytes p.toBytes, cache)
      | none => ("err", cache)
    | none => ("bad-request", cache)
  | _ => ("bad-request", cache)

end Plonk.Driver

namespace Plonk.Driver
open Plonk

def pErrName : PErr → String
  | .compile e => "compile:" ++ e.name
  | .invalidCircuitSize => "sizeerr"
  | .circuitUnsatisfied => "unsat"
  | .panicSlice => "panic"
  | .panicDenominator => "panic"
  | .notEnoughDraws => "draws"
  | .commit e => "commit:" ++ e.name

/-- `prove <deg> <d1> <d2> <d3> <label> <14 draws comma separated> <version> || <progA> || <progB>` -/
def proveAnswer (line : String) : String :=
  match line.splitOn "||" with
  | [head, a, b] =>
    match (head.splitOn " ").filter (· ≠ "") with
    | "prove" :: deg :: d1 :: d2 :: d3 :: label :: draws :: ver :: _ =>
      let lite : Option (Except KErr (SRS × Nat)) :=
        match deg.toNat?, drawOf? d1, drawOf? d2, drawOf? d3 with
        | some deg, some a, some b, some c => some (SRS.setupLite deg [a, b, c])
        | _, _, _, _ => none
      match lite, parseBytes? label, optionAll drawOf? (draws.splitOn ","), verName? ver with
      | some (.ok (srs, srsLen)), some label, some draws, some ver =>
        let sa := runProg a
        let sb := runProg b
        if sa.bad.isSome || sb.bad.isSome then "bad-op" else
        match compile srs srsLen label sa.c with
        | .error e => "err:" ++ pErrName e
        | .ok k =>
          let vb := (k.verifier srs).toBytes
          let vh := toHex (hashList vb)
          if ver == .v1 then s!"err:UnsupportedProvingVersion vh={vh}" else
          match prove k sb.c draws (ver == .v3) with
          | .error e => s!"err:{pErrName e} vh={vh}"
          | .ok tr =>
            -- completeness check in the model: the model verifier accepts the model prover's proof
            let acc := (k.verifier srs).verify srs.x tr.proof tr.pis ver
            s!"proof={showBytes tr.proof.toBytes} pis={showList tr.pis} vh={vh} calls={tr.drawsUsed}" ++
              (if acc == .ok then " spec=ok" else " spec=REJECTED")
      | some (.error e), _, _, _ => "err:srs:" ++ e.name
      | _, _, _, _ => "bad-request"
    | _ => "bad-request"
  | _ => "bad-request"

/-- `provelie <k> <delta> <shift 0|1> prove …`: the lying prover of Driver/Forge.lean on a `prove` request; prints the forged
    proof, the public inputs and the verifier bytes -/
def proveLieAnswer (line : String) : String :=
  match (line.splitOn " ").filter (· ≠ "") with
  | "provelie" :: kk :: dl :: sh :: rest =>
    let rline := String.intercalate " " rest
    match kk.toNat?, parseHex? dl, rline.splitOn "||" with
    | some lie, some delta, [head, a, b] =>
      match (head.splitOn " ").filter (· ≠ "") with
      | "prove" :: deg :: d1 :: d2 :: d3 :: label :: draws :: ver :: _ =>
        let lite : Option (Except KErr (SRS × Nat)) :=
          match deg.toNat?, drawOf? d1, drawOf? d2, drawOf? d3 with
          | some deg, some a, some b, some c => some (SRS.setupLite deg [a, b, c])
          | _, _, _, _ => none
        match lite, parseBytes? label, optionAll drawOf? (draws.splitOn ","), verName? ver with
        | some (.ok (srs, srsLen)), some label, some draws, some ver =>
          let sa := runProg a
          let sb := runProg b
          if sa.bad.isSome || sb.bad.isSome then "bad-op" else
          match compile srs srsLen label sa.c with
          | .error e => "err:" ++ pErrName e
          | .ok k =>
            match proveLying lie delta (sh == "1") k sb.c draws (ver == .v3) with
            | .error e => s!"err:{pErrName e}"
            | .ok tr => s!"proof={showBytes tr.proof.toBytes} pis={showList tr.pis} x={toHex srs.x} vbytes={showBytes (k.verifier srs).toBytes}"
        | _, _, _, _ => "bad-request"
      | _ => "bad-request"
    | _, _, _ => "bad-request"
  | _ => "bad-request"

end Plonk.Driver

namespace Plonk.Driver
open Plonk

def hashBytes (bs : List Nat) : String := toHex (hashList bs)

/-- prover-side codec commands -/
def codecAnswer (line : String) : String :=
  let toks := (line.splitOn " ").filter (· ≠ "")
  match toks with
  | ["proverdec", h] =>
    match parseBytes? h with
    | some bs => match ProverM.fromBytes bs with
      | .ok p => s!"ok h={hashBytes p.toBytes}"
      | .error e => "err:" ++ e.name
    | none => "bad-request"
  | ["ckraw", h] =>
    match parseBytes? h with
    | some bs =>
      match commitKeyFromRaw bs with
      | .ok ck => s!"ok h={hashBytes (commitKeyToRaw ck)} n={ck.length}"
      | .error e => "err:" ++ e.name
    | none => "bad-request"
  | ["ppdec", h] =>
    match parseBytes? h with
    | some bs => match ppFromBytes bs with
      | .ok (ok, ck) => s!"ok h={hashBytes (ppToBytes ok ck)} n={ck.length}"
      | .error e => "err:" ++ e.name
    | none => "bad-request"
  | ["evalsdec", h] =>
    match parseBytes? h with
    | some bs => match evalsFromBytes bs with
      | .ok (d, ev) => s!"ok h={hashBytes (evalsToBytes d ev)} n={ev.length}"
      | .error e => "err:" ++ e.name
    | none => "bad-request"
  | _ =>
    -- `proveruse <x> <hex> <draws> || <prog>`
    match line.splitOn "||" with
    | [head, prog] =>
      match (head.splitOn " ").filter (· ≠ "") with
      | ["proveruse", x, h, draws] =>
        match parseHex? x, parseBytes? h, optionAll drawOf? (draws.splitOn ",") with
        | some x, some bs, some draws =>
          match ProverM.fromBytes bs with
          | .error e => "err:" ++ e.name
          | .ok p =>
            let s := runProg prog
            if s.bad.isSome then "bad-op" else
            match prove (p.toPKey x) s.c draws true with
            | .ok tr => s!"proof={showBytes tr.proof.toBytes} pis={showList tr.pis}"
            | .error e => "err:" ++ pErrName e
        | _, _, _ => "bad-request"
      | _ => "bad-request"
    | _ => "bad-request"

end Plonk.Driver
