/-
  Line-protocol front end: transcript, BLS12-381 point codecs and group operations.
-/
import Plonk.Model.Bls
import Plonk.Model.Transcript
import Plonk.Driver.Parse
namespace Plonk.Driver
open Plonk

def parseBytes? (s : String) : Option (List Nat) :=
  if s == "-" then some [] else
  let cs := s.toList
  if cs.length % 2 != 0 then none else
  let rec go : Nat → List Char → List Nat → Option (List Nat)
    | 0, _, acc => some acc.reverse
    | _, [], acc => some acc.reverse
    | f+1, a :: b :: rest, acc =>
      match hexDigit? a, hexDigit? b with
      | some x, some y => go f rest ((x * 16 + y) :: acc)
      | _, _ => none
    | _, _, _ => none
  go (cs.length + 1) cs []

def showBytes (bs : List Nat) : String :=
  if bs.isEmpty then "-" else String.ofList (bs.flatMap fun b => [hexChar (b / 16), hexChar (b % 16)])

/-- `tr new:<label> msg:<l>:<m> u64:<l>:<n> ch:<l>:<n> …` → the challenge byte strings in order -/
def transcriptAnswer (ops : List String) : String :=
  let step (st : Option Transcript × List String × Bool) (op : String) : Option Transcript × List String × Bool :=
    let (t?, outs, bad) := st
    if bad then st else
    match op.splitOn ":", t? with
    | ["new", l], _ => match parseBytes? l with
      | some l => (some (Transcript.new l), outs, false)
      | none => (t?, outs, true)
    | ["msg", l, m], some t => match parseBytes? l, parseBytes? m with
      | some l, some m => (some (t.appendMessage l m), outs, false)
      | _, _ => (t?, outs, true)
    | ["u64", l, n], some t => match parseBytes? l, n.toNat? with
      | some l, some n => (some (t.appendU64 l n), outs, false)
      | _, _ => (t?, outs, true)
    | ["ch", l, n], some t => match parseBytes? l, n.toNat? with
      | some l, some n =>
        let (t, bs) := t.challengeBytes l n
        (some t, showBytes bs :: outs, false)
      | _, _ => (t?, outs, true)
    | _, _ => (t?, outs, true)
  let (_, outs, bad) := ops.foldl step (none, [], false)
  if bad then "bad-request" else String.intercalate " " outs.reverse

def cryptoAnswer (toks : List String) : String :=
  match toks with
  | "tr" :: ops => transcriptAnswer ops
  | ["g1dec", h] =>
    match parseBytes? h with
    | some bs => match G1.fromCompressed? bs with
      | some p => "ok " ++ showBytes p.toCompressed
      | none => "err"
    | none => "bad-request"
  | ["g2dec", h] =>
    match parseBytes? h with
    | some bs => match G2.fromCompressed? bs with
      | some p => "ok " ++ showBytes p.toCompressed
      | none => "err"
    | none => "bad-request"
  | ["g1mul", k, h] =>
    match parseHex? k, parseBytes? h with
    | some k, some bs => match G1.fromCompressed? bs with
      | some p => showBytes (G1.smul k p).toCompressed
      | none => "err"
    | _, _ => "bad-request"
  | ["g1add", a, b] =>
    match parseBytes? a, parseBytes? b with
    | some a, some b => match G1.fromCompressed? a, G1.fromCompressed? b with
      | some p, some q => showBytes (G1.add p q).toCompressed
      | _, _ => "err"
    | _, _ => "bad-request"
  | ["g2mul", k, h] =>
    match parseHex? k, parseBytes? h with
    | some k, some bs => match G2.fromCompressed? bs with
      | some p => showBytes (G2.smul k p).toCompressed
      | none => "err"
    | _, _ => "bad-request"
  | _ => "bad-request"

end Plonk.Driver
