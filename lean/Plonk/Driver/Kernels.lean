/-
  Line-protocol front end for the numeric kernels (C19).
-/
import Plonk.Model.FFT
import Plonk.Driver.Parse
namespace Plonk.Driver
open Plonk

def parseList? (s : String) : Option (List Nat) :=
  if s == "-" then some [] else
  (s.splitOn ",").foldr (fun t acc => match acc, parseHex? t with
    | some l, some v => if v < R then some (v :: l) else none
    | _, _ => none) (some [])

def showList (l : List Nat) : String :=
  if l.isEmpty then "-" else String.intercalate "," (l.map toHex)

def showVec (l : List Nat) : String :=
  s!"n={l.length} h={toHex (hashList l)} head={showList (l.take 3)}"

def kernelAnswer (toks : List String) : String :=
  match toks with
  | ["fft", kind, n, threads, v] =>
    match n.toNat?, threads.toNat?, parseList? v with
    | some n, some t, some v =>
      match Domain.new? n with
      | none => "err"
      | some d =>
        let out := match kind with
          | "fft" => d.fft v t
          | "ifft" => d.ifft v t
          | "cfft" => d.cosetFft v t
          | _ => d.cosetIfft v t
        -- self-checks against the definitions (small sizes): code-shaped == recursive == O(n²) DFT
        let chk :=
          if kind == "fft" && d.size ≤ 256 then
            -- the definition: evaluate the *whole* input polynomial at every domain element
            let a := d.elements.map fun x => Poly.evaluate (if Poly.isZero v then [] else v) x
            let padded := foldMod v d.size
            let b := fftRec d.logSize d.groupGen padded
            let c := dft d.groupGen padded
            if a == out && b == out && c == out then " spec=ok" else " spec=MISMATCH"
          else ""
        showVec out ++ chk
    | _, _, _ => "bad-request"
  | ["domain", n] =>
    match n.toNat? with
    | some n => match Domain.new? n with
      | none => "err"
      | some d => s!"size={d.size} log={d.logSize} inv={toHex d.sizeInv} gen={toHex d.groupGen} geninv={toHex d.groupGenInv} ginv={toHex d.generatorInv}"
    | none => "bad-request"
  | ["elements", n] =>
    match n.toNat? with
    | some n => match Domain.new? n with
      | none => "err"
      | some d => showVec d.elements
    | none => "bad-request"
  | ["poly", op, a, b] =>
    match parseList? a, parseList? b with
    | some a, some b =>
      let a := Poly.ofCoeffs a
      let k := b.headD 0
      match op with
      | "trim" => showList a
      | "degree" => toString (Poly.degree a)
      | "add" => showList (Poly.add a (Poly.ofCoeffs b))
      | "addassign" => showList (Poly.addAssign a (Poly.ofCoeffs b))
      | "sub" => showList (Poly.sub a (Poly.ofCoeffs b))
      | "subassign" => showList (Poly.subAssign a (Poly.ofCoeffs b))
      | "mul" => match Poly.mul a (Poly.ofCoeffs b) with
        | some p =>
          let sch := Poly.ofCoeffs (Poly.mulSchool a (Poly.ofCoeffs b))
          showList p ++ (if sch == p then " spec=ok" else " spec=MISMATCH")
        | none => "err"
      | "scale" => showList (Poly.scale a k)
      | "addc" => showList (Poly.addConst a k)
      | "subc" => showList (Poly.subConst a k)
      | "eval" => toHex (Poly.evaluate a k)
      | "ruffini" => showList (Poly.ruffini a k)
      | _ => "bad-request"
    | _, _ => "bad-request"
  | ["polyscaled", a, f, b] =>
    match parseList? a, parseHex? f, parseList? b with
    | some a, some f, some b => showList (Poly.addAssignScaled (Poly.ofCoeffs a) f (Poly.ofCoeffs b))
    | _, _, _ => "bad-request"
  | ["binv", v] =>
    match parseList? v with
    | some v => showList (batchInversion v)
    | none => "bad-request"
  | ["lagrange", n, tau] =>
    match n.toNat?, parseHex? tau with
    | some n, some tau => match Domain.new? n with
      | none => "err"
      | some d => showVec (d.lagrangeCoeffs tau)
    | _, _ => "bad-request"
  | ["vanish", n, tau] =>
    match n.toNat?, parseHex? tau with
    | some n, some tau => match Domain.new? n with
      | none => "err"
      | some d => toHex (d.evaluateVanishing tau)
    | _, _ => "bad-request"
  | ["vcoset", n, deg] =>
    match n.toNat?, deg.toNat? with
    | some n, some deg => match Domain.new? n with
      | none => "err"
      | some d => if deg < d.size then showVec (d.vanishingOverCoset deg) else "panic"
    | _, _ => "bad-request"
  | ["mlin", n, v] =>
    match n.toNat?, parseList? v with
    | some n, some v => match Domain.new? n with
      | none => "err"
      | some d => toString (d.matchesLinearOverCoset v)
    | _, _ => "bad-request"
  | ["mvan", n, deg, v] =>
    match n.toNat?, deg.toNat?, parseList? v with
    | some n, some deg, some v => match Domain.new? n with
      | none => "err"
      | some d => toString (d.matchesVanishingOverCoset deg v)
    | _, _, _ => "bad-request"
  | ["bary", n, ev, pt] =>
    match n.toNat?, parseList? ev, parseHex? pt with
    | some n, some ev, some pt => match Domain.new? n with
      | none => "err"
      | some d => toHex (d.barycentric ev pt)
    | _, _, _ => "bad-request"
  | ["lpi", n, roots, ev, pt] =>
    match n.toNat?, parseList? roots, parseList? ev, parseHex? pt with
    | some n, some roots, some ev, some pt => match Domain.new? n with
      | none => "err"
      | some d => match d.lagrangeAndPi roots ev pt with
        | some (l1, pi) => s!"{toHex l1} {toHex pi}"
        | none => "err"
    | _, _, _, _ => "bad-request"
  | _ => "bad-request"

end Plonk.Driver
