/-
  Interpreter for composer programs (the op language shared with the Rust harness).
  One program = ops separated by ';'.  Witness operands: `$k` = register k (values returned
  by earlier ops, in order), `#k` = absolute witness index.
-/
import Plonk.Model.System
import Plonk.Driver.Parse
namespace Plonk.Driver
open Plonk Plonk.Composer

structure PState where
  c : Composer
  regs : Array Nat := #[]
  rets : Array Nat := #[]      -- stream hashed into `hr`
  errs : Array (Nat × Nat) := #[]   -- (op index, error code)
  bad : Option String := none
  deriving Inhabited

def errCode : CErr → Nat
  | .degenerate => 1
  | .notTorsionFree => 2
  | .generatorNotPrime => 3
  | .scalarMalformed => 4
  | .unsupportedWnaf => 5

abbrev PM := StateM PState

def runC {α} (m : CM α) : PM α := fun s =>
  let (a, c') := m.run s.c
  (a, { s with c := c' })

def pushRegs (ws : List Nat) : PM Unit :=
  modify fun s => { s with regs := s.regs ++ ws.toArray, rets := s.rets ++ ws.toArray }

def fail (msg : String) : PM Unit :=
  modify fun s => if s.bad.isNone then { s with bad := some msg } else s

/-- resolve a witness operand -/
def wit? (s : PState) (t : String) : Option Nat :=
  if t.startsWith "$" then
    match (t.drop 1).toString.toNat? with
    | some k => s.regs[k]?
    | none => none
  else if t.startsWith "#" then
    match (t.drop 1).toString.toNat? with
    | some k => if k < s.c.wit.size then some k else none
    | none => none
  else none

def fe? (t : String) : Option Nat :=
  match parseHex? t with
  | some v => if v < R then some v else none
  | none => none

def digit? (c : Char) : Option Int :=
  if c == '0' then some 0 else if c == '+' then some 1 else if c == '-' then some (-1)
  else if c == '2' then some 2 else if c == 'm' then some (-2) else none

def optionAll {α β} (f : α → Option β) : List α → Option (List β)
  | [] => some []
  | x :: xs => match f x, optionAll f xs with
    | some y, some ys => some (y :: ys)
    | _, _ => none

def handleErr (idx : Nat) (n : Nat) (r : Except CErr (List Nat)) : PM Unit :=
  match r with
  | .ok ws => pushRegs ws
  | .error e => do
    modify fun s => { s with errs := s.errs.push (idx, errCode e) }
    pushRegs (List.replicate n 0)

def ptOf (e : Except CErr Pt) : Except CErr (List Nat) := e.map fun p => [p.1, p.2]

/-- execute one op -/
def execOp (idx : Nat) (toks : List String) : PM Unit := do
  let s ← get
  let W := wit? s
  match toks with
  | ["w", v] =>
    match fe? v with
    | some v => do let w ← runC (appendWitness v); pushRegs [w]
    | none => fail s!"op {idx}: bad value"
  | ["setw", w, v] =>
    match W w, fe? v with
    | some w, some v => modify fun s => { s with c := { s.c with wit := s.c.wit.setIfInBounds w v } }
    | _, _ => fail s!"op {idx}: bad setw"
  | ["setpi", row, v] =>
    match row.toNat?, fe? v with
    | some row, some v => modify fun s =>
        { s with c := { s.c with pis := s.c.pis.map fun (r, x) => if r == row then (r, v) else (r, x) } }
    | _, _ => fail s!"op {idx}: bad setpi"
  | ["gate", qm, ql, qr, qo, qf, qc, pi, a, b, c, d] =>
    match optionAll fe? [qm, ql, qr, qo, qf, qc], optionAll W [a, b, c, d] with
    | some [qm, ql, qr, qo, qf, qc], some [a, b, c, d] =>
      let k : Constraint := { qm, ql, qr, qo, qf, qc, a, b, c, d }
      if pi == "-" then runC (appendGate k)
      else match fe? pi with
        | some p => runC (appendGate { k with pi := p, hasPi := true })
        | none => fail s!"op {idx}: bad pi"
    | _, _ => fail s!"op {idx}: bad gate"
  | ["raw", qm, ql, qr, qo, qf, qc, qa, qrg, qlg, qfx, qv, pi, a, b, c, d] =>
    match optionAll fe? [qm, ql, qr, qo, qf, qc, qa, qrg, qlg, qfx, qv], optionAll W [a, b, c, d] with
    | some [qm, ql, qr, qo, qf, qc, qa, qrg, qlg, qfx, qv], some [a, b, c, d] =>
      let k : Constraint := { qm, ql, qr, qo, qf, qc, qarith := qa, qrange := qrg, qlogic := qlg,
                              qfixed := qfx, qvar := qv, a, b, c, d }
      if pi == "-" then runC (appendCustomGate k)
      else match fe? pi with
        | some p => runC (appendCustomGate { k with pi := p, hasPi := true })
        | none => fail s!"op {idx}: bad pi"
    | _, _ => fail s!"op {idx}: bad raw"
  | ["evalout", qm, ql, qr, qo, qf, qc, pi, a, b, d] =>
    match optionAll fe? [qm, ql, qr, qo, qf, qc], optionAll W [a, b, d] with
    | some [qm, ql, qr, qo, qf, qc], some [a, b, d] =>
      let k : Constraint := { qm, ql, qr, qo, qf, qc, a, b, d }
      let k? : Option Constraint :=
        if pi == "-" then some k else (fe? pi).map fun p => { k with pi := p, hasPi := true }
      match k? with
      | some k => do
        let o ← runC (appendEvaluatedOutput k)
        match o with
        | some w => pushRegs [w]
        | none => do
          modify fun s => { s with errs := s.errs.push (idx, 9) }
          pushRegs [0]
      | none => fail s!"op {idx}: bad pi"
    | _, _ => fail s!"op {idx}: bad evalout"
  | [op, qm, ql, qr, qf, qc, pi, a, b, d] =>
    if op == "gadd" || op == "gmul" then
      match optionAll fe? [qm, ql, qr, qf, qc], optionAll W [a, b, d] with
      | some [qm, ql, qr, qf, qc], some [a, b, d] =>
        let k : Constraint := { qm, ql, qr, qf, qc, a, b, d }
        let k? : Option Constraint :=
          if pi == "-" then some k else (fe? pi).map fun p => { k with pi := p, hasPi := true }
        match k? with
        | some k => do let w ← runC (gateAdd k); pushRegs [w]
        | none => fail s!"op {idx}: bad pi"
      | _, _ => fail s!"op {idx}: bad {op}"
    else fail s!"op {idx}: unknown op {op}"
  | ["aeq", a, b] =>
    match W a, W b with
    | some a, some b => runC (assertEqual a b)
    | _, _ => fail s!"op {idx}: bad aeq"
  | ["aeqc", a, k, pi] =>
    match W a, fe? k with
    | some a, some k =>
      if pi == "-" then runC (assertEqualConstant a k none)
      else match fe? pi with
        | some p => runC (assertEqualConstant a k (some p))
        | none => fail s!"op {idx}: bad pi"
    | _, _ => fail s!"op {idx}: bad aeqc"
  | ["const", v] =>
    match fe? v with
    | some v => do let w ← runC (appendConstant v); pushRegs [w]
    | none => fail s!"op {idx}: bad const"
  | ["pub", v] =>
    match fe? v with
    | some v => do let w ← runC (appendPublic v); pushRegs [w]
    | none => fail s!"op {idx}: bad pub"
  | ["bool", a] =>
    match W a with
    | some a => runC (componentBoolean a)
    | none => fail s!"op {idx}: bad bool"
  | ["sel", bit, a, b] =>
    match W bit, W a, W b with
    | some bit, some a, some b => do let w ← runC (componentSelect bit a b); pushRegs [w]
    | _, _, _ => fail s!"op {idx}: bad sel"
  | ["sel1", bit, a] =>
    match W bit, W a with
    | some bit, some a => do let w ← runC (componentSelectOne bit a); pushRegs [w]
    | _, _ => fail s!"op {idx}: bad sel1"
  | ["sel0", bit, a] =>
    match W bit, W a with
    | some bit, some a => do let w ← runC (componentSelectZero bit a); pushRegs [w]
    | _, _ => fail s!"op {idx}: bad sel0"
  | ["rangebits", n, w] =>
    match n.toNat?, W w with
    | some n, some w => if n ≤ Generated.RANGE_MAX_BITS then runC (componentRangeBits n w) else fail s!"op {idx}: width"
    | _, _ => fail s!"op {idx}: bad rangebits"
  | ["range", n, w] =>
    match n.toNat?, W w with
    | some n, some w => runC (componentRange n w)
    | _, _ => fail s!"op {idx}: bad range"
  | ["rangert", n, w] =>   -- runtime-width seam `verif_range_check`
    match n.toNat?, W w with
    | some n, some w => if n ≤ 256 then runC (rangeCheck w n) else fail s!"op {idx}: width"
    | _, _ => fail s!"op {idx}: bad rangert"
  | ["and", n, a, b] =>
    match n.toNat?, W a, W b with
    | some n, some a, some b =>
      if n ≤ Generated.LOGIC_MAX_PAIRS then do let w ← runC (appendLogicComponent n a b false); pushRegs [w]
      else fail s!"op {idx}: width"
    | _, _, _ => fail s!"op {idx}: bad and"
  | ["xor", n, a, b] =>
    match n.toNat?, W a, W b with
    | some n, some a, some b =>
      if n ≤ Generated.LOGIC_MAX_PAIRS then do let w ← runC (appendLogicComponent n a b true); pushRegs [w]
      else fail s!"op {idx}: width"
    | _, _, _ => fail s!"op {idx}: bad xor"
  | ["trunc", n, w] =>
    match n.toNat?, W w with
    | some n, some w =>
      if n ≤ Generated.TRUNCATE_MAX_BITS then do let o ← runC (componentTruncate n w); pushRegs [o]
      else fail s!"op {idx}: width"
    | _, _ => fail s!"op {idx}: bad trunc"
  | ["bindsplit", n, inp, low] =>
    match n.toNat?, W inp, W low with
    | some n, some i, some l =>
      if n ≤ 254 then runC (bindTruncationSplit i l n) else fail s!"op {idx}: width"
    | _, _, _ => fail s!"op {idx}: bad bindsplit"
  | ["decomp", n, w] =>
    match n.toNat?, W w with
    | some n, some w =>
      if 0 < n ∧ n ≤ Generated.DECOMP_MAX_BITS then do let bs ← runC (componentDecomposition n w); pushRegs bs
      else fail s!"op {idx}: width"
    | _, _ => fail s!"op {idx}: bad decomp"
  | ["selpt", bit, ax, ay, bx, by_] =>
    match optionAll W [bit, ax, ay, bx, by_] with
    | some [bit, ax, ay, bx, by_] => do
      let p ← runC (componentSelectPoint bit (ax, ay) (bx, by_)); pushRegs [p.1, p.2]
    | _ => fail s!"op {idx}: bad selpt"
  | ["fbdigits", s_, u, v, ds] =>
    match W s_, fe? u, fe? v, optionAll digit? ds.toList with
    | some s_, some u, some v, some ds =>
      if ds.length == 256 then do
        let r ← runC (appendFixedBaseSignedDigits s_ (u, v) ds); handleErr idx 2 (ptOf r)
      else fail s!"op {idx}: digits length"
    | _, _, _, _ => fail s!"op {idx}: bad fbdigits"
  | [op, u, v, z, t1, t2] =>
    match optionAll fe? [u, v, z, t1, t2] with
    | some [u, v, z, t1, t2] =>
      let e : Ext := ⟨u, v, z, t1, t2⟩
      if op == "pt" then do let r ← runC (appendPoint e); handleErr idx 2 (ptOf r)
      else if op == "cpt" then do let r ← runC (appendConstantPoint e); handleErr idx 2 (ptOf r)
      else if op == "ppt" then do let r ← runC (appendPublicPoint e); handleErr idx 2 (ptOf r)
      else fail s!"op {idx}: unknown op {op}"
    | _ => fail s!"op {idx}: bad point op"
  | ["aeqpt", ax, ay, bx, by_] =>
    match optionAll W [ax, ay, bx, by_] with
    | some [ax, ay, bx, by_] => runC (assertEqualPoint (ax, ay) (bx, by_))
    | _ => fail s!"op {idx}: bad aeqpt"
  | ["aeqppt", ax, ay, u, v, z, t1, t2] =>
    match optionAll W [ax, ay], optionAll fe? [u, v, z, t1, t2] with
    | some [ax, ay], some [u, v, z, t1, t2] => do
      let r ← runC (assertEqualPublicPoint (ax, ay) ⟨u, v, z, t1, t2⟩)
      handleErr idx 0 (r.map fun _ => [])
    | _, _ => fail s!"op {idx}: bad aeqppt"
  | ["tf", x, y] =>
    match W x, W y with
    | some x, some y => runC (assertTorsionFreePoint (x, y))
    | _, _ => fail s!"op {idx}: bad tf"
  | ["tfq", x, y, qu, qv] =>
    match W x, W y, fe? qu, fe? qv with
    | some x, some y, some qu, some qv => runC (assertTorsionFreeGates (x, y) (qu, qv))
    | _, _, _, _ => fail s!"op {idx}: bad tfq"
  | ["neg", x, y] =>
    match W x, W y with
    | some x, some y => do let p ← runC (componentNegPoint (x, y)); pushRegs [p.1, p.2]
    | _, _ => fail s!"op {idx}: bad neg"
  | [op, ax, ay, bx, by_] =>
    match optionAll W [ax, ay, bx, by_] with
    | some [ax, ay, bx, by_] =>
      if op == "add" then do let p ← runC (componentAddPoint (ax, ay) (bx, by_)); pushRegs [p.1, p.2]
      else if op == "addraw" then do let p ← runC (addPointGates (ax, ay) (bx, by_)); pushRegs [p.1, p.2]
      else if op == "sub" then do let p ← runC (componentSubPoint (ax, ay) (bx, by_)); pushRegs [p.1, p.2]
      else fail s!"op {idx}: unknown op {op}"
    | _ => fail s!"op {idx}: bad {op}"
  | ["selid", bit, x, y] =>
    match optionAll W [bit, x, y] with
    | some [bit, x, y] => do let p ← runC (componentSelectIdentity bit (x, y)); pushRegs [p.1, p.2]
    | _ => fail s!"op {idx}: bad selid"
  | ["mulpt", s_, x, y] =>
    match optionAll W [s_, x, y] with
    | some [s_, x, y] => do let p ← runC (componentMulPoint s_ (x, y)); pushRegs [p.1, p.2]
    | _ => fail s!"op {idx}: bad mulpt"
  | ["mulgen", s_, u, v, z, t1, t2] =>
    match W s_, optionAll fe? [u, v, z, t1, t2] with
    | some s_, some [u, v, z, t1, t2] => do
      let r ← runC (componentMulGenerator s_ ⟨u, v, z, t1, t2⟩); handleErr idx 2 (ptOf r)
    | _, _ => fail s!"op {idx}: bad mulgen"
  | [] => pure ()
  | t :: _ => fail s!"op {idx}: unknown op {t}"

def runProg (src : String) : PState :=
  let ops := (src.splitOn ";").map splitWs
  let m : PM Unit := do
    let mut i := 0
    for o in ops do
      execOp i o
      i := i + 1
  (m.run { c := Composer.initialized }).2

def gateItems (g : Gate) : List Nat :=
  [g.qm, g.ql, g.qr, g.qo, g.qf, g.qc, g.qarith, g.qrange, g.qlogic, g.qfixed, g.qvar, g.a, g.b, g.c, g.d]

def sortedPis (c : Composer) : List (Nat × Nat) :=
  -- rows are distinct; sort by row (insertion sort is fine for the sizes used)
  c.pis.toList.foldl (fun acc p =>
    let (lo, hi) := acc.partition (fun q => q.1 < p.1)
    lo ++ [p] ++ hi.filter (fun q => q.1 != p.1)) []

def summary (s : PState) : String :=
  match s.bad with
  | some m => "bad-op " ++ m
  | none =>
    let c := s.c
    let hg := hashList (c.gates.toList.flatMap gateItems)
    let hw := hashList c.wit.toList
    let hp := hashList ((sortedPis c).flatMap fun p => [p.1, p.2])
    let hpr := hashList ((sortedPis c).map fun p => p.1)
    let hr := hashList s.rets.toList
    let rv := hashList (s.regs.toList.map c.val)
    let errs := String.intercalate "," (s.errs.toList.map fun (i, e) => s!"{i}:{e}")
    s!"gates={c.gates.size} wit={c.wit.size} pis={c.pis.size} hg={toHex hg} hw={toHex hw} hp={toHex hp} hpr={toHex hpr} hr={toHex hr} rv={toHex rv} errs=[{errs}]"

def satSummary (s : PState) : String :=
  match s.c.firstFailure with
  | none => "sat"
  | some (i, n) => s!"unsat row={i} comp={n}"

end Plonk.Driver
