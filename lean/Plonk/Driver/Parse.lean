/-
  Line-protocol helpers for the model driver (no imports beyond the model).
-/
import Plonk.Model.Field
namespace Plonk.Driver
open Plonk

def hexDigit? (c : Char) : Option Nat :=
  if '0' ≤ c ∧ c ≤ '9' then some (c.toNat - '0'.toNat)
  else if 'a' ≤ c ∧ c ≤ 'f' then some (c.toNat - 'a'.toNat + 10)
  else if 'A' ≤ c ∧ c ≤ 'F' then some (c.toNat - 'A'.toNat + 10)
  else none

/-- big-endian hex numeral (no prefix) -/
def parseHex? (s : String) : Option Nat :=
  if s.isEmpty then none else
  s.toList.foldl (fun acc c => match acc, hexDigit? c with
    | some a, some d => some (a * 16 + d)
    | _, _ => none) (some 0)

def hexChar (d : Nat) : Char :=
  if d < 10 then Char.ofNat ('0'.toNat + d) else Char.ofNat ('a'.toNat + d - 10)

def toHex (n : Nat) : String :=
  if n == 0 then "0" else
  let rec go : Nat → Nat → List Char → List Char
    | 0, _, acc => acc
    | f+1, n, acc => if n == 0 then acc else go f (n / 16) (hexChar (n % 16) :: acc)
  String.ofList (go 80 n [])

/-- rolling hash over the field, same in the Rust harness -/
def HK : Nat := 0x1f3d5b79a2c4e6081f3d5b79a2c4e6081f3d5b79a2c4e6081f3d5b79a2c4e609 % R
def hstep (h x : Nat) : Nat := ((h * HK) + x + 1) % R
def hashList (xs : List Nat) : Nat := xs.foldl hstep 0

def splitWs (s : String) : List String :=
  (s.splitOn " ").filter (· ≠ "")

end Plonk.Driver
