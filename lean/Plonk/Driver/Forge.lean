/-
  Search support (NOT part of the model the theorems are about): a LYING copy of the specification prover.
  It is `Plonk.prove` (Model/Prover.lean) verbatim except that one carried evaluation is shifted and the polynomial it belongs
  to contributes nothing to the aggregated opening witness (an empty polynomial keeps the positions, hence the powers of the
  aggregation challenge, of all other entries). Against a verifier whose batched openings cover every evaluation the
  resulting proof is rejected; a verifier that forgot exactly this evaluation accepts it when the evaluation does not enter the
  linearisation for the circuit at hand (shifted wire evaluations and the q_c / q_l / q_r evaluations in a circuit without
  range, logic and curve rows). Generated from Model/Prover.lean by a text transformation kept in DESIGN.md §10.11.
-/
import Plonk.Model.Prover
namespace Plonk

def proveLying (lie : Nat) (delta : Nat) (shift : Bool) (k : PKey) (c : Composer) (draws : List Nat) (v3 : Bool := true) : Except PErr ProveTrace :=
  if c.gates.size != k.constraints then .error .invalidCircuitSize else
  match Domain.new? k.constraints, Domain.new? (8 * k.n) with
  | some d, some d8 =>
    let n := d.size
    let size := k.n
    let pisSorted := Plonk.Driver.sortedPisL c
    let pis := pisSorted.map (·.2)
    let dense : List Nat := (List.range size).map fun i => (pisSorted.find? (·.1 == i)).map (·.2) |>.getD 0
    let wcol (f : RowVals → Nat) : List Nat := (List.range size).map fun i => f (c.rowVals i)
    let aS := wcol (·.a); let bS := wcol (·.b); let cS := wcol (·.c); let dS := wcol (·.d)
    match takeDraws 8 draws with
    | none => .error .notEnoughDraws
    | some (wb, draws) =>
    let aP := blindPoly d aS (wb.take 2)
    let bP := blindPoly d bS ((wb.drop 2).take 2)
    let cP := blindPoly d cS ((wb.drop 4).take 2)
    let dP := blindPoly d dS ((wb.drop 6).take 2)
    match commit4 k aP bP cP dP with
    | .error e => .error e
    | .ok (aC, bC, cC, dC) =>
    -- transcript: base, public inputs, wire commitments
    let ops0 := baseOps k.label k.vk k.constraints v3 ++ pis.map (fun pi => TOp.msg "pi" (Transcript.scalarBytes pi)) ++
      [.msg "a_comm" aC.toCompressed, .msg "b_comm" bC.toCompressed, .msg "c_comm" cC.toCompressed,
       .msg "d_comm" dC.toCompressed, .chal "beta", .echo "beta" "beta", .chal "gamma"]
    let (t, chs) := runOps ops0 merlinInit
    let get (chs : List (String × Nat)) (l : String) : Nat := (chs.find? (·.1 == l)).map (·.2) |>.getD 0
    let beta := get chs "beta"; let gamma := get chs "gamma"
    -- round 2: permutation vector
    let roots := d.elements
    let sigE : List (List Nat) := (List.range 4).map fun i => d.fft (k.sigma.getD i [])
    match permVec n roots aS bS cS dS sigE beta gamma with
    | none => .error .panicDenominator
    | some perm =>
    match takeDraws 3 draws with
    | none => .error .notEnoughDraws
    | some (zb, draws) =>
    let zP := blindPoly d perm zb
    match commitT k zP with
    | .error e => .error (.commit e)
    | .ok zC =>
    let (t, chs3) := runOps [.msg "z_comm" zC.toCompressed, .chal "alpha", .chal "range separation challenge",
        .chal "logic separation challenge", .chal "fixed base separation challenge",
        .chal "variable base separation challenge"] t
    let alpha := get chs3 "alpha"; let rSep := get chs3 "range separation challenge"
    let lSep := get chs3 "logic separation challenge"; let fSep := get chs3 "fixed base separation challenge"
    let vSep := get chs3 "variable base separation challenge"
    -- round 3: quotient on the coset of size 8n
    let piPoly := Poly.ofCoeffs (d.ifft dense)
    let zE := cosetEvals d8 zP; let aE := cosetEvals d8 aP; let bE := cosetEvals d8 bP
    let cE := cosetEvals d8 cP; let dE := cosetEvals d8 dP
    let piE := (d8.cosetFft piPoly).toArray
    let selE := k.selE
    let sigE8 := k.sigE8
    let linE := k.linE
    let vh := k.vh
    let vhInv8 := (batchInversion ((vh.toList).take 8)).toArray
    let l1Den := (batchInversion (linE.toList.map fun e => fsub e 1)).toArray
    let nInv8 := fmul d8.sizeInv 8
    let quot := quotientEvals d8.size selE sigE8 linE aE bE cE dE zE piE vh vhInv8 l1Den nInv8
                  beta gamma alpha rSep lSep fSep vSep
    let tPoly := Poly.ofCoeffs (d8.cosetIfft quot)
    if tPoly.length > 7 * n then .error .circuitUnsatisfied else
    match takeDraws 3 draws with
    | none => .error .notEnoughDraws
    | some (tb, draws) =>
    match splitQuotient n tPoly (tb.getD 0 0) (tb.getD 1 0) (tb.getD 2 0) with
    | none => .error .panicSlice
    | some (tLowP, tMidP, tHighP, tFourthP) =>
    match commit4 k tLowP tMidP tHighP tFourthP with
    | .error e => .error e
    | .ok (tlC, tmC, thC, tfC) =>
    let (t, chs4) := runOps [.msg "t_low_comm" tlC.toCompressed, .msg "t_mid_comm" tmC.toCompressed,
        .msg "t_high_comm" thC.toCompressed, .msg "t_fourth_comm" tfC.toCompressed, .chal "z_challenge"] t
    let zc := get chs4 "z_challenge"
    let zw := fmul zc d.groupGen
    let ev : Evals := {
      a := Poly.evaluate aP zc, b := Poly.evaluate bP zc, c := Poly.evaluate cP zc, d := Poly.evaluate dP zc,
      aw := Poly.evaluate aP zw, bw := Poly.evaluate bP zw, dw := Poly.evaluate dP zw,
      qarith := Poly.evaluate (k.sel.getD 6 []) zc, qc := Poly.evaluate (k.sel.getD 5 []) zc,
      ql := Poly.evaluate (k.sel.getD 1 []) zc, qr := Poly.evaluate (k.sel.getD 2 []) zc,
      s1 := Poly.evaluate (k.sigma.getD 0 []) zc, s2 := Poly.evaluate (k.sigma.getD 1 []) zc,
      s3 := Poly.evaluate (k.sigma.getD 2 []) zc, z := Poly.evaluate zP zw }
    -- THE LIE: evaluation number `lie` (0 a_w, 1 b_w, 2 d_w, 3 q_c, 4 q_l, 5 q_r) is shifted by `delta`; the polynomial it
    -- belongs to is left out of the aggregated opening below, as a prover would do against a verifier that forgot it
    let ev : Evals := match lie with
      | 0 => { ev with aw := fadd ev.aw delta } | 1 => { ev with bw := fadd ev.bw delta } | 2 => { ev with dw := fadd ev.dw delta }
      | 3 => { ev with qc := fadd ev.qc delta } | 4 => { ev with ql := fadd ev.ql delta } | _ => { ev with qr := fadd ev.qr delta }
    let sc (l : String) (v : Nat) : TOp := .msg l (Transcript.scalarBytes v)
    let (t, chs5) := runOps [sc "a_eval" ev.a, sc "b_eval" ev.b, sc "c_eval" ev.c, sc "d_eval" ev.d,
        sc "s_sigma_1_eval" ev.s1, sc "s_sigma_2_eval" ev.s2, sc "s_sigma_3_eval" ev.s3, sc "z_eval" ev.z,
        sc "a_w_eval" ev.aw, sc "b_w_eval" ev.bw, sc "d_w_eval" ev.dw, sc "q_arith_eval" ev.qarith,
        sc "q_c_eval" ev.qc, sc "q_l_eval" ev.ql, sc "q_r_eval" ev.qr, .chal "v_challenge"] t
    let v := get chs5 "v_challenge"
    -- round 5: linearisation polynomial
    let padd := Poly.add
    let sp (j : Nat) := k.sel.getD j []
    let arithL := Poly.scale (padd (padd (padd (padd (padd (Poly.scale (sp 0) (fmul ev.a ev.b)) (Poly.scale (sp 1) ev.a))
                    (Poly.scale (sp 2) ev.b)) (Poly.scale (sp 3) ev.c)) (Poly.scale (sp 4) ev.d)) (sp 5)) ev.qarith
    let lin0 := padd arithL (Poly.scale (sp 7) (rangeScalar rSep ev))
    let lin1 := Poly.addAssign lin0 (Poly.scale (sp 8) (logicScalar lSep ev))
    let lin2 := Poly.addAssign lin1 (Poly.scale (sp 9) (fixedScalar fSep ev))
    let lin3 := Poly.addAssign lin2 (Poly.scale (sp 10) (varScalar vSep ev))
    let piEvalSparse := d.barycentric pis zc      -- the prover passes the *sparse* list here (see DESIGN §9.2)
    let f1 := Poly.addConst lin3 piEvalSparse
    let bz := fmul beta zc
    let idL := Poly.scale zP (fmul (fmul (fmul (fmul (fadd (fadd ev.a bz) gamma) (fadd (fadd ev.b (fmul Generated.K1 bz)) gamma))
                  (fadd (fadd ev.c (fmul Generated.K2 bz)) gamma)) (fadd (fadd ev.d (fmul Generated.K3 bz)) gamma)) alpha)
    let cpL := Poly.scale (k.sigma.getD 3 []) (fneg (fmul (fmul (fmul (fmul (fadd (fadd ev.a (fmul beta ev.s1)) gamma)
                  (fadd (fadd ev.b (fmul beta ev.s2)) gamma)) (fadd (fadd ev.c (fmul beta ev.s3)) gamma)) (fmul beta ev.z)) alpha))
    let l1Dom := (Domain.new? (Poly.degree zP - 2)).getD d
    let l1z := (l1Dom.lagrangeCoeffs zc).headD 0
    let oneL := Poly.scale zP (fmul l1z (fsq alpha))
    let f2 := padd (padd idL cpL) oneL
    let zn := fpow zc n; let z2n := fpow zc (2 * n); let z3n := fpow zc (3 * n)
    let quotL := padd (padd (padd tLowP (Poly.scale tMidP zn)) (Poly.scale tHighP z2n)) (Poly.scale tFourthP z3n)
    let zhNeg := fneg (d.evaluateVanishing zc)
    let rP := padd (padd f1 f2) (Poly.scale quotL zhNeg)
    -- `shift = false`: the left-out entry keeps its position (an empty polynomial); `shift = true`: it is removed and the
    -- later entries move up one power of the aggregation challenge
    let build (l : List (Bool × Poly)) : List Poly :=
      if shift then (l.filter (fun e => !e.1)).map (·.2) else l.map fun e => if e.1 then [] else e.2
    let wzP := aggregateWitness (build [(false, rP), (false, aP), (false, bP), (false, cP), (false, dP),
        (false, k.sigma.getD 0 []), (false, k.sigma.getD 1 []), (false, k.sigma.getD 2 []),
        (false, sp 6), (lie == 3, sp 5), (lie == 4, sp 1), (lie == 5, sp 2)]) zc v
    match commitT k wzP with
    | .error e => .error (.commit e)
    | .ok wzC =>
    let (_, chs6) := runOps [.chal "v_w_challenge"] t
    let vw := get chs6 "v_w_challenge"
    let wzwP := aggregateWitness (build [(false, zP), (lie == 0, aP), (lie == 1, bP), (lie == 2, dP)]) zw vw
    match commitT k wzwP with
    | .error e => .error (.commit e)
    | .ok wzwC =>
      .ok { proof := { aC := aC, bC := bC, cC := cC, dC := dC, zC := zC, tLow := tlC, tMid := tmC, tHigh := thC,
                       tFourth := tfC, wz := wzC, wzw := wzwC, ev := ev },
            pis := pis,
            ch := { beta := beta, gamma := gamma, alpha := alpha, rangeSep := rSep, logicSep := lSep, fixedSep := fSep,
                    varSep := vSep, z := zc, v := v, vw := vw, u := 0 },
            drawsUsed := 14 }
  | _, _ => .error (.compile .degreeIsZero)
where
  Plonk.Driver.sortedPisL (c : Composer) : List (Nat × Nat) :=
    c.pis.toList.foldl (fun acc p =>
      let (lo, hi) := acc.partition (fun q => q.1 < p.1)
      lo ++ [p] ++ hi.filter (fun q => q.1 != p.1)) []

end Plonk
