/-
  G1Law — the group law of the executable BLS12-381 `G1` model (`Plonk/Model/Bls.lean`).

  Closes the gap stated in C03 / C02 / C20 ("the group law of the executable G1 model is not
  proved"): the model's affine and Jacobian arithmetic, scalar multiplication, subgroup test and
  multi-scalar multiplication are the corresponding operations of the Mathlib group of points
  `WeierstrassCurve.Affine.Point` of `y² = x³ + 4` over `ZMod P` (`P` proved prime in `PrimeP.lean`).

  Vocabulary
  * `G1.W` — the curve, `G1.Pt := G1.W.toAffine.Point` (an `AddCommGroup`, Mathlib).
  * `G1.Valid p` (from `CodecG1.lean`) — `p` is the identity, or has reduced coordinates `< P`
    satisfying `G1.onCurve`.  Everything the decoders accept and everything the arithmetic returns
    is valid.
  * `G1.toPoint : {p // p.onCurve} → G1.Pt`, and its total version `G1.pt : G1 → G1.Pt`
    (`pt_is_toPoint`; off-curve junk ↦ 0).
  * `J1.Rep j p` — the Jacobian triple `j` (reduced) represents the valid affine point `p`:
    `Z = 0 ∧ p = ∞`, or `Z ≠ 0 ∧ X = x·Z² ∧ Y = y·Z³`.
  * `G1.Sub = E(F_p)[r]`, an `F`-module (`F = ZMod R`), and `G1.ιR : G1 → G1.Sub` the canonical
    interpretation of model points; `evalTerms` is the symbolic MSM of `VerifierAlgebra.lean`.

  All statements are at full strength; no `_partial` theorem.  Hypotheses forced by the proofs
  (each is a property of the model's representation, none points at a defect of the Rust code):
  * **reduced coordinates** (`Valid`): `G1.add` and `J1.add/double` compare raw `Nat`s
    (`x1 == x2`, `z == 0`), so `x` and `x + P` would be treated as different abscissae.  The Rust
    field type has a unique representation per residue, and all model values are reduced.
  * **scalars**: `G1.smul k` reads 256 bits of `k` (`smul_refines'`: the result is
    `(k mod 2^256)•P`), `G1.msum` first reduces every scalar mod `r` and reads 255 bits
    (`msum_refines`: the result is `Σ (kᵢ mod r)•Pᵢ`).  This is `Σ kᵢ•Pᵢ` exactly when the points
    are in the prime-order subgroup (`msum_refines_torsionFree`); for a point with a cofactor
    component the two differ (BLS12-381 `G1` has cofactor ≠ 1) — the subgroup checks of the
    decoders (C16/C17) are what makes scalar reduction sound.
  * `J1.add` needs **no** side condition: `P = Q` falls back to `double`, `P = −Q` and `Z = 0`
    return / pass infinity, and these branches are proved (`jac_add_rep`).  `J1.double` returns
    infinity when `Y = 0`; on this curve no such point exists (`−4` is not a cube), so the branch
    is dead for valid inputs.
  * `verifier_equation_in_group`: the term lists must consist of valid subgroup points; this is
    discharged from well-formedness of key, proof and generator (`VKey.WF`, `ProofM.WF`: what the
    decoders guarantee, `G1.fromCompressed_wf`, C16/C17) by `verifier_terms_wf`, giving
    `accept_iff_group_equation`.  The trapdoor `x` must be below `2^256` (`G1.smul` reads 256 bits).
-/
import Plonk.Proofs.G1GroupVerifier
import Plonk.Proofs.CodecExamples

set_option Elab.async false

namespace Plonk.Props.G1Law
open Plonk WeierstrassCurve

/-! ## 1. The curve and the denotation of model points -/

/-- the curve is `y² = x³ + 4` -/
theorem curve_coefficients :
    G1.W.a₁ = 0 ∧ G1.W.a₂ = 0 ∧ G1.W.a₃ = 0 ∧ G1.W.a₄ = 0 ∧ G1.W.a₆ = 4 := ⟨rfl, rfl, rfl, rfl, rfl⟩

/-- it is an elliptic curve over `ZMod P` (discriminant `−6912 = −432·16 ≠ 0`) -/
theorem curve_isElliptic : G1.W.IsElliptic ∧ G1.W.Δ = -6912 := ⟨inferInstance, G1.W_Δ⟩

/-- its (nonsingular) points are the solutions of the equation the model tests -/
theorem onCurve_iff_point (x y : Nat) :
    (G1.aff x y).onCurve = true ↔ G1.W.toAffine.Nonsingular (toP x) (toP y) := by
  rw [G1.W_nonsingular_iff, G1.onCurve_aff_iff]

theorem toPoint_inf (h : G1.inf.onCurve = true) : G1.toPoint ⟨.inf, h⟩ = 0 := rfl

theorem toPoint_aff (x y : Nat) (h : (G1.aff x y).onCurve = true) :
    G1.toPoint ⟨.aff x y, h⟩ = .some (toP x) (toP y) (G1.nonsingular_of_onCurve h) := rfl

theorem pt_is_toPoint {p : G1} (h : p.onCurve = true) : G1.pt p = G1.toPoint ⟨p, h⟩ :=
  G1.pt_eq_toPoint h

/-- valid model points denote distinct group elements -/
theorem pt_injective {p q : G1} (hp : p.Valid) (hq : q.Valid) (h : G1.pt p = G1.pt q) : p = q :=
  G1.pt_injective hp hq h

theorem gen_valid : G1.gen.Valid :=
  show _ < P ∧ _ < P ∧ _ from ⟨by decide +kernel, by decide +kernel, by decide +kernel⟩

-- non-vacuity: the generator is a valid point and denotes a non-zero group element
example : G1.gen.Valid ∧ G1.pt G1.gen ≠ 0 :=
  ⟨gen_valid, fun h => absurd ((G1.pt_eq_zero_iff gen_valid).mp h) (by decide)⟩

/-! ## 2. Affine negation and addition -/

theorem neg_refines {p : G1} (hp : p.Valid) : p.neg.Valid ∧ G1.pt p.neg = - G1.pt p :=
  G1.neg_spec hp

/-- **`G1.add` is the group law** (every branch: infinity, opposite points, doubling, chord),
    and it preserves validity. -/
theorem add_refines {p q : G1} (hp : p.Valid) (hq : q.Valid) :
    (p.add q).Valid ∧ G1.pt (p.add q) = G1.pt p + G1.pt q :=
  G1.add_spec hp hq

/-- the same, spelled with `toPoint` on the subtype of on-curve points -/
theorem add_refines_toPoint {p q : G1} (hp : p.Valid) (hq : q.Valid) :
    ∃ h : (p.add q).onCurve = true,
      G1.toPoint ⟨p.add q, h⟩ = G1.toPoint ⟨p, hp.onCurve⟩ + G1.toPoint ⟨q, hq.onCurve⟩ := by
  refine ⟨(G1.add_valid hp hq).onCurve, ?_⟩
  rw [← G1.pt_eq_toPoint, ← G1.pt_eq_toPoint, ← G1.pt_eq_toPoint]
  exact G1.pt_add hp hq

-- non-vacuity: doubling and the opposite-point branch on the generator
example : (G1.gen.add G1.gen).Valid ∧ G1.pt (G1.gen.add G1.gen) = G1.pt G1.gen + G1.pt G1.gen :=
  add_refines gen_valid gen_valid
example : G1.gen.add G1.gen.neg = .inf := by decide +kernel

/-! ## 3. Jacobian coordinates, scalar multiplication, subgroup test -/

theorem jac_ofAffine_rep {p : G1} (hp : p.Valid) : J1.Rep (J1.ofAffine p) p := J1.ofAffine_rep hp

theorem jac_toAffine_rep {j : J1} {p : G1} (h : J1.Rep j p) : j.toAffine = p := J1.toAffine_rep h

theorem jac_double_rep {j : J1} {p : G1} (h : J1.Rep j p) : J1.Rep j.double (p.add p) :=
  J1.double_rep h

/-- `J1.add` (add-2007-bl with fall-backs) agrees with the affine law on **all** inputs,
    including `P = Q`, `P = −Q` and infinity — no side condition. -/
theorem jac_add_rep {j k : J1} {p q : G1} (h1 : J1.Rep j p) (h2 : J1.Rep k q) :
    J1.Rep (j.add k) (p.add q) :=
  J1.add_rep h1 h2

-- non-vacuity: a representative with `Z ≠ 1`, and the `P = Q` branch of `J1.add`
example : J1.Rep (J1.ofAffine G1.gen).double (G1.gen.add G1.gen) :=
  jac_double_rep (jac_ofAffine_rep gen_valid)
example : J1.Rep ((J1.ofAffine G1.gen).add (J1.ofAffine G1.gen)) (G1.gen.add G1.gen) :=
  jac_add_rep (jac_ofAffine_rep gen_valid) (jac_ofAffine_rep gen_valid)
example : ((J1.ofAffine G1.gen).double).z ≠ 1 := by decide +kernel

/-- double-and-add over `bits` bits computes `(k mod 2^bits)•P` -/
theorem jac_mul_rep {p : G1} (hp : p.Valid) (k bits : Nat) :
    ((J1.ofAffine p).mul k bits).toAffine.Valid ∧
      G1.pt ((J1.ofAffine p).mul k bits).toAffine = (k % 2 ^ bits) • G1.pt p :=
  (J1.mul_repPt (J1.RepPt.ofAffine hp) k bits).toAffine

theorem smul_refines' (k : Nat) {p : G1} (hp : p.Valid) :
    (G1.smul k p).Valid ∧ G1.pt (G1.smul k p) = (k % 2 ^ 256) • G1.pt p :=
  G1.smul_spec' k hp

/-- **`G1.smul` is scalar multiplication** for scalars below `2^256` -/
theorem smul_refines {k : Nat} (hk : k < 2 ^ 256) {p : G1} (hp : p.Valid) :
    (G1.smul k p).Valid ∧ G1.pt (G1.smul k p) = k • G1.pt p :=
  G1.smul_spec hk hp

/-- the model's subgroup test is `r•P = 0` -/
theorem torsionFree_iff {p : G1} (hp : p.Valid) : p.torsionFree = true ↔ R • G1.pt p = 0 :=
  G1.torsionFree_iff hp

theorem gen_torsionFree : G1.gen.torsionFree = true := by decide +kernel

-- non-vacuity: the generator has order dividing `r` in the Mathlib group
example : R • G1.pt G1.gen = 0 := (torsionFree_iff gen_valid).mp gen_torsionFree
example : (12345 : Nat) < 2 ^ 256 := by decide

/-! ## 4. Multi-scalar multiplication -/

/-- **`G1.msum` (Straus loop) is `Σ (kᵢ mod r)•Pᵢ`** -/
theorem msum_refines {ps : List (Nat × G1)} (hv : ∀ t ∈ ps, t.2.Valid) :
    (G1.msum ps).Valid ∧ G1.pt (G1.msum ps) = (ps.map fun t => (t.1 % R) • G1.pt t.2).sum :=
  G1.msum_spec hv

/-- … which is `Σ kᵢ•Pᵢ` for points of the prime-order subgroup, and stays in the subgroup -/
theorem msum_refines_torsionFree {ps : List (Nat × G1)} (hv : ∀ t ∈ ps, t.2.Valid)
    (ht : ∀ t ∈ ps, t.2.torsionFree = true) :
    G1.pt (G1.msum ps) = (ps.map fun t => t.1 • G1.pt t.2).sum ∧ (G1.msum ps).torsionFree = true :=
  ⟨G1.msum_spec_torsionFree hv ht, G1.msum_torsionFree hv ht⟩

-- non-vacuity: a term list with an unreduced scalar and the identity
example : ∀ t ∈ [(5, G1.gen), (R + 3, G1.gen), (7, G1.inf)], t.2.Valid ∧ t.2.torsionFree = true := by
  intro t ht
  simp only [List.mem_cons, List.not_mem_nil, or_false] at ht
  rcases ht with rfl | rfl | rfl
  · exact ⟨gen_valid, gen_torsionFree⟩
  · exact ⟨gen_valid, gen_torsionFree⟩
  · exact ⟨trivial, torsionFree_inf⟩

/-! ## 5. Bridge to the verifier algebra (`evalTerms`) -/

/-- every additive map from the curve group to an `F`-module sends the model's MSM result to the
    symbolic `F`-linear combination of `VerifierAlgebra.lean` -/
theorem msum_evalTerms_hom {G : Type*} [AddCommGroup G] [Module F G] (φ : G1.Pt →+ G)
    {ts : List (Nat × G1)} (hv : ∀ t ∈ ts, t.2.Valid) :
    φ (G1.pt (G1.msum ts)) = evalTerms (fun p => φ (G1.pt p)) ts :=
  G1.msum_evalTerms_hom φ hv

/-- **`msum_evalTerms`**: with the canonical interpretation `ιR` of model points in the `F`-module
    `E(F_p)[r]`, the model's MSM *is* `evalTerms`; `ιR` is additive and faithful on valid subgroup
    points, so statements about `evalTerms ιR` are statements about the model's values. -/
theorem msum_evalTerms {ts : List (Nat × G1)} (hv : ∀ t ∈ ts, t.2.Valid)
    (ht : ∀ t ∈ ts, t.2.torsionFree = true) : G1.ιR (G1.msum ts) = evalTerms G1.ιR ts :=
  G1.msum_evalTerms hv ht

theorem ιR_faithful {p q : G1} (hp : p.Valid) (hq : q.Valid) (tp : p.torsionFree = true)
    (tq : q.torsionFree = true) :
    (G1.ιR p = G1.ιR q → p = q) ∧ G1.ιR (p.add q) = G1.ιR p + G1.ιR q ∧
      ((G1.ιR p : G1.Pt) = G1.pt p) ∧ (G1.ιR p = 0 ↔ p = .inf) :=
  ⟨G1.ιR_injective hp hq tp tq, G1.ιR_add hp hq tp tq, G1.coe_ιR hp tp, G1.ιR_eq_zero_iff hp tp⟩

theorem ιR_smul {k : Nat} (hk : k < 2 ^ 256) {p : G1} (hp : p.Valid) (tp : p.torsionFree = true) :
    G1.ιR (G1.smul k p) = toF k • G1.ιR p :=
  G1.ιR_smul hk hp tp

-- non-vacuity: `ιR` is not the zero interpretation
example : G1.ιR G1.gen ≠ 0 :=
  fun h => absurd ((G1.ιR_eq_zero_iff gen_valid gen_torsionFree).mp h) (by decide)

/-- **The verifier's check, in the curve group.**  For term lists of valid subgroup points (what
    `verifyTerms` builds from decoded keys and proofs) the model's executable test
    `[x]·msum(left) + msum(right) = O` — the one `VerifierM.verify` / C03 `accept_iff_equation`
    decides — is the equation `x·(−(W_z + u·W_zω)) + (textbook right-hand side) = 0` in `E(F_p)[r]`:
    `verifyCode_eq_verifyRef` applies to the model's actual MSM values. -/
theorem verifier_equation_in_group (vkey : VKey) (g : G1) (d : Domain) (roots pis : List Nat)
    (p : ProofM) (ch : Challenges) (legacy : Bool) (right left ref : List (Nat × G1))
    (hc : verifyTerms vkey g d roots pis p ch legacy = some (right, left))
    (hr : verifyRefTerms vkey g d roots pis p ch legacy = some ref)
    {x : Nat} (hx : x < 2 ^ 256)
    (hvl : ∀ t ∈ left, t.2.Valid) (htl : ∀ t ∈ left, t.2.torsionFree = true)
    (hvr : ∀ t ∈ right, t.2.Valid) (htr : ∀ t ∈ right, t.2.torsionFree = true) :
    (G1.ιR (G1.msum right) = evalTerms G1.ιR ref ∧
      G1.ιR (G1.msum left) = -(G1.ιR p.wz + toF ch.u • G1.ιR p.wzw)) ∧
    (G1.add (G1.smul x (G1.msum left)) (G1.msum right) = .inf ↔
      toF x • -(G1.ιR p.wz + toF ch.u • G1.ιR p.wzw) + evalTerms G1.ιR ref = 0) := by
  obtain ⟨e1, e2⟩ := verifyCode_eq_verifyRef G1.ιR vkey g d roots pis p ch legacy right left ref hc hr
  refine ⟨⟨?_, ?_⟩, ?_⟩
  · rw [G1.msum_evalTerms hvr htr, e1]
  · rw [G1.msum_evalTerms hvl htl, e2]
  · rw [G1.add_smul_msum_eq_inf_iff hx hvl htl hvr htr, e1, e2]

-- non-vacuity: both term lists are defined on a concrete domain record / challenge point
example (vkey : VKey) (g : G1) (p : ProofM) (legacy : Bool) :
    ∃ right left ref,
      verifyTerms vkey g { size := 4, logSize := 2, sizeInv := 0, groupGen := 1, groupGenInv := 1, generatorInv := 0 }
        [] [] p { (default : Challenges) with z := 5 } legacy = some (right, left) ∧
      verifyRefTerms vkey g { size := 4, logSize := 2, sizeInv := 0, groupGen := 1, groupGenInv := 1, generatorInv := 0 }
        [] [] p { (default : Challenges) with z := 5 } legacy = some ref :=
  verifyTerms_some_of_lagrange _ _ _ _ _ _ _ _ (by decide +kernel)

/-- every point of the verifier's grouped MSM is a key point, a proof point or the generator; so
    well-formed inputs give term lists of valid subgroup points -/
theorem verifier_terms_wf (vkey : VKey) (g : G1) (d : Domain) (roots pis : List Nat)
    (p : ProofM) (ch : Challenges) (legacy : Bool) (right left : List (Nat × G1))
    (hc : verifyTerms vkey g d roots pis p ch legacy = some (right, left)) :
    (∀ t, t ∈ right ∨ t ∈ left → t.2 ∈ vkey.points ++ p.points ++ [g]) ∧
    (vkey.WF → p.WF → g.Valid ∧ g.torsionFree = true →
      ∀ t, t ∈ right ∨ t ∈ left → t.2.Valid ∧ t.2.torsionFree = true) :=
  ⟨verifyTerms_points vkey g d roots pis p ch legacy right left hc,
   verifyTerms_wf vkey g d roots pis p ch legacy right left hc⟩

/-- **Acceptance = the textbook equation in the curve group.**  For a well-formed key, proof and
    generator, the model verifier (C03 `accept_iff_equation`, pairing decided with the trapdoor
    `x < 2^256`) returns `.ok` exactly when the public-input length matches, the domain exists, the
    textbook term list is defined and
    `x·(−(W_z + u·W_zω)) + ([D] + Σ vⁱCᵢ + u Σ v_wⁱC'ᵢ − E·g + z·W_z + u·z·ω·W_zω) = 0` holds in
    `E(F_p)[r]` under the canonical (faithful, additive) interpretation `ιR` of the model's points. -/
theorem accept_iff_group_equation (v : VerifierM) {x : Nat} (hx : x < 2 ^ 256) (p : ProofM)
    (pis : List Nat) (ver : PVersion) (hk : v.vk.WF) (hp : p.WF)
    (hg : v.ok.g.Valid ∧ v.ok.g.torsionFree = true) :
    v.verify x p pis ver = .ok ↔
      pis.length = v.piIndexes.length ∧ ∃ d, Domain.new? v.vk.n = some d ∧ ∃ ref,
        verifyRefTerms v.vk v.ok.g d (v.piIndexes.map fun i => fpow d.groupGenInv (i % 2 ^ 64)) pis p
          (verifierChallenges v.label v.vk v.constraints (ver == .v3) pis p) (ver == .v1) = some ref ∧
        toF x • -(G1.ιR p.wz +
            toF (verifierChallenges v.label v.vk v.constraints (ver == .v3) pis p).u • G1.ιR p.wzw) +
          evalTerms G1.ιR ref = 0 :=
  verify_ok_iff_group v hx p pis ver hk hp hg

-- non-vacuity: a well-formed verifier record, proof and generator (from the codec examples)
example : CodecEx.exVerifier.vk.WF ∧ CodecEx.exProof.WF ∧
    (CodecEx.exVerifier.ok.g.Valid ∧ CodecEx.exVerifier.ok.g.torsionFree = true) ∧ (7 : Nat) < 2 ^ 256 :=
  ⟨CodecEx.exVKey_wf 4 (by norm_num), CodecEx.exProof_wf, CodecEx.gen_ok, by norm_num⟩

end Plonk.Props.G1Law
