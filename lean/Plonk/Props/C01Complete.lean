/-
  C01 — "Completeness: for every circuit that compiles and every witness assignment that satisfies
  all of its gates, copy constraints and public inputs, `Prover::prove` returns a proof and the
  matching `Verifier::verify` accepts it (degenerate blinders excepted)."

  This file is the ALGEBRAIC COMPLETENESS COMPOSITION, the mirror image of the soundness
  composition of `Props/C02.lean`.  It talks about the SAME objects: a compiled layout `lay`
  (`lay.gateAt`, `lay.piAt`, `Perm.sigmaFn lay`), prover polynomials `P : ProverPolys F` with
  `Sound.KeyInterp ω n lay P`, the row predicate `Sound.rowOKP` (the model's `Plonk.rowHolds` on the
  values read off the wire polynomials, next row cyclic), the per-row quantities `gateAtRow`,
  `permAtRow`, `l1AtRow`, and the SAME numerator polynomial `Quot.NumP` (whose coset values are the
  entries of the model's `quotientEvals`, C05 `quotient_in_prove`).  The domain size `n` is
  arbitrary (`soundness_algebraic` is stated for `n = 2^k`).

  What IS proved (all FULL, no `_partial`):

   1. `accumulator_exists`, `perm_vec_is_accumulator`, `perm_identities_vanish`
   2. `gate_identity_vanishes`
   3. `numerator_divisible`, `quotient_degree_bound`, `quotient_fits`
   4. `verifier_equation_holds`
   5. `completeness_algebraic`, `completeness_witness`

  How the pieces compose into "satisfied ⇒ proves and verifies": by `completeness_witness` the
  model's own notions (`sysSat` / `rowHolds` on the padded table, `copyViolation = none`) give the
  row predicate and the class-constancy of the values of ANY wire polynomials interpolating the
  table — `blindPoly` with arbitrary blinders does (C05 `blind_agrees_on_domain`); by
  `perm_vec_is_accumulator` the model's `permVec` returns a vector exactly when `γ ∉ denBadM β`
  (at most `4n` values per `β`: the "degenerate" exception, explicit) and every polynomial
  interpolating it satisfies `AccInterp`; by `completeness_algebraic` the numerator is
  `T·(Xⁿ − 1)` for EVERY `α` and every separation challenge, `deg T ≤ 4n + 6` for the honest degree
  profile, so the quotient has at most `4n + 7` coefficients and the four shares fit the commit key
  (`quotient_fits` + C01 `commitments_fit`); and for EVERY `z, v, v_w, u` the batched opening check
  in the trapdoor view — the field equation of `Props/C02.forged_evaluation_rejected`, which C20
  `pairing_check_iff` turns into the pairing check — holds for the honest openings.

  What is NOT covered (stated, not hidden):

  (N1) the executable curve arithmetic: commitments are `[p(x)]g` (C20 `commit_eval`, level (A));
       the statement is about an arbitrary `F`-module `G` and ANY `g` (no non-degeneracy needed in
       this direction);
  (N2) Fiat–Shamir only fixes WHICH challenges are used: the theorems hold for all of them (except
       `γ ∈ denBadM β`), so nothing about the transcript is needed beyond C03
       `prover_verifier_transcripts_agree`;
  (N3) that the model's `prove` computes exactly these polynomials: wires / accumulator /
       openings are tied by `ProverMask.prove_commitments_blinded`, `prove_openings_masked`
       (C06), the quotient shares by `ProverMask.split_recombine` (hypothesis `hq` below) and C05
       `quotient_in_prove` (coset values of `Num/Z_H`); the remaining glue — `tPoly` of `prove` IS
       the `T` of `numerator_divisible` (coset interpolation of `8n` values of a polynomial of degree
       `≤ 4n + 6 < 8n`), and `lagrangeAndPi` computes `L₁(z)`, `PI(z)` (hypotheses `hl1`, `hpi`, as in
       C02) — is not stated as one theorem;
  (N4) the opening witness of the model prover is the quotient of `r + Σ vʲ pⱼ` where `r` differs
       from the verifier's `D − u·Z` by a constant; dividing by `X − z` kills constants, so the
       witness polynomial is the `agg … /ₘ (X − C z)` used here.

  Findings:
   * The coarse bound of C02 `numerator_degree_bound` (`deg Num ≤ 5e + n`, one bound `e` for all
     polynomials) gives, for the honest `e = n + 2`, only `deg T ≤ 5n + 10`: NOT enough for
     `commitments_fit` (`t.length ≤ 4n + 7`).  The refined bound `quotient_degree_bound`
     (accumulator kept apart: `deg Num ≤ 4e + f`) gives exactly `deg T ≤ 4n + 6`, i.e. `4n + 7`
     coefficients: the capacity `n + 7` of the trimmed key is tight, with the permutation term
     `Z·∏(w + β·k·X + γ)` of degree `(n+2) + 4(n+1)` as the extremal one.
   * `4n + 7 ≤ 7n` only for `n ≥ 3`: for domains of size `n ≤ 2` the code's rule
     `tPoly.length > 7n ⇒ circuitUnsatisfied` can misfire on a SATISFIED circuit with generic
     blinders (`deg T = 4n + 6`, length `4n + 7 > 7n`).  Whether `n ≤ 2` is reachable through
     `Composer::initialized` + `compile` is a question for the differential harness.
   * No `SelReduced` hypothesis is needed in the completeness direction (`gate_identity_vanishes`
     holds for arbitrary, possibly non-canonical, selectors), unlike C05 `gate_sum_zero_iff`.
   * `completeness_witness` needs canonical witness values (`c.val x < R`): `rowHolds` is evaluated
     on the `Nat` representatives.  The composer reduces every appended witness, so this is a
     property of the model's representation, as `SelReduced` in C05.
-/
import Plonk.Proofs.CompletenessCore
import Plonk.Proofs.CompletenessModel
import Plonk.Proofs.CompletenessDegree
import Plonk.Proofs.CompletenessVerifier
import Plonk.Proofs.CompletenessProver
import Plonk.Proofs.CompletenessExamples

namespace Plonk.Props.C01Complete
open Plonk Polynomial Plonk.Quot Plonk.Perm Plonk.Sound Plonk.Complete
open Plonk.KzgMath (agg)

/-! ### 1. the accumulator -/

/-- **`accumulator_exists`.**  Layout `lay` on a domain `⟨ω⟩` of size `n ≥` number of gates; wire
    values (read off ARBITRARY wire polynomials `P.a … P.d`) constant on the wiring classes —
    equivalently `copyViolation = none`, see `completeness_witness`.  For every `β` the bad set
    `denBadM β` of `γ` (some factor `w + β·id(σ p) + γ` of a denominator vanishes) has at most `4n`
    elements, and it is contained in the soundness bad set `gammaBadM β`.  For `γ ∉ denBadM β` the
    running product `z_i = ∏_{j<i} num_j/den_j` (`accVal`) satisfies `z₀ = 1`,
    `z_{i+1}·den_i = z_i·num_i` and CLOSES: `z_n = 1 = z₀`; there is a polynomial `Z` of degree `< n`
    interpolating it, and for every blinding `Z + B·(Xⁿ − 1)` both permutation identities vanish on
    every row of the domain (`permAtRow`, `l1AtRow`: the summands of `Num`, as in C02). -/
theorem accumulator_exists {ω : F} {n : ℕ} (hn0 : 0 < n) (hω : IsPrimitiveRoot ω n) (lay : Composer)
    (hn : lay.gates.size ≤ n) (P : ProverPolys F)
    (hconst : ∀ p q, SameClass lay p q → wireVal ω P p = wireVal ω P q) (β : F) :
    (denBadM ω n lay P β).card ≤ 4 * n ∧ denBadM ω n lay P β ⊆ gammaBadM ω n lay P β ∧
    ∀ γ, γ ∉ denBadM ω n lay P β →
      (∀ i < n, denRow ω lay P β γ i ≠ 0) ∧
      accVal ω lay P β γ 0 = 1 ∧
      (∀ i < n, accVal ω lay P β γ (i + 1) * denRow ω lay P β γ i =
        accVal ω lay P β γ i * numRow ω P β γ i) ∧
      accVal ω lay P β γ n = 1 ∧
      ∃ Z : F[X], Z.degree < n ∧ ∀ B : F[X],
        AccInterp ω n lay (withZ P (Z + B * (X ^ n - 1))) β γ ∧
        (∀ i < n, permAtRow ω n lay (withZ P (Z + B * (X ^ n - 1))) β γ i = 0) ∧
        (∀ i < n, l1AtRow ω (withZ P (Z + B * (X ^ n - 1))) i = 0) := by
  have hres := (respects_iff_const lay (wireVal ω P)).mpr hconst
  refine ⟨denBadM_card_le ω n lay P β, denBad_subset_gammaBad _ _ _ _ _, fun γ hγ => ?_⟩
  have hden := denRow_ne_zero ω n lay P β γ hγ
  refine ⟨hden, accSeq_zero _ _, fun i hi => accSeq_step _ _ i (hden i hi),
    accSeq_closes n _ _ hden (prod_rows_eq ω n lay hn P hres β γ), ?_⟩
  obtain ⟨Z, hd, hZ⟩ := accumulator_exists_core hω lay P β γ
  refine ⟨Z, hd, fun B => ⟨hZ B, ?_⟩⟩
  exact perm_rows_vanish ω n hn0 lay hn _ (fun p => by simp only [wireVal_withZ]; exact hres p) β γ
    (by rw [denBadM_withZ]; exact hγ) (hZ B)

/-- non-vacuity: the instance `cLay / cP` (two rows on the SAME four witnesses, `σ` swaps the rows,
    domain `{1, −1}`): the structural hypotheses hold, the values are constant on the classes, `σ` is
    not the identity, and a good `γ` exists for every `β` -/
example : 0 < 2 ∧ IsPrimitiveRoot (-1 : F) 2 ∧ cLay.gates.size ≤ 2 ∧
    (∀ p q, SameClass cLay p q → wireVal (-1) cP p = wireVal (-1) cP q) ∧
    sigmaFn cLay (0, 0) = (0, 1) ∧ ∀ β : F, ∃ γ, γ ∉ denBadM (-1) 2 cLay cP β :=
  ⟨cStruct.1, cStruct.2.1, cStruct.2.2, cConst, cLay_sigma_nontrivial, c_good_gamma⟩

/-- **The permutation identities vanish** for ANY accumulator polynomial interpolating the running
    product (`AccInterp`) — row form (`permAtRow`, `l1AtRow`) and polynomial form
    (`Z(ωX)·Den − Z·Num`, `(Z − 1)·L₁` vanish on the domain; mirror of C02
    `accumulator_telescopes_poly`). -/
theorem perm_identities_vanish {ω : F} {n : ℕ} (hn0 : 0 < n) (hω : IsPrimitiveRoot ω n)
    (lay : Composer) (hn : lay.gates.size ≤ n) (P : ProverPolys F) (I : KeyInterp ω n lay P)
    (hconst : ∀ p q, SameClass lay p q → wireVal ω P p = wireVal ω P q) (β γ : F)
    (hγ : γ ∉ denBadM ω n lay P β) (hz : AccInterp ω n lay P β γ) :
    (∀ i < n, permAtRow ω n lay P β γ i = 0) ∧ (∀ i < n, l1AtRow ω P i = 0) ∧
    (∀ i < n, (shiftP ω P.z * permDenP P β γ - P.z * permNumP P β γ).eval (ω ^ i) = 0) ∧
    (∀ i < n, ((P.z - 1) * L1P n).eval (ω ^ i) = 0) := by
  have hres := (respects_iff_const lay (wireVal ω P)).mpr hconst
  obtain ⟨h1, h2⟩ := perm_rows_vanish ω n hn0 lay hn P hres β γ hγ hz
  obtain ⟨h3, h4⟩ := perm_identities_poly hn0 hω lay hn P I hres β γ hγ hz
  exact ⟨h1, h2, h3, h4⟩

/-- non-vacuity: for the instance, an accumulator satisfying `AccInterp` exists (with the key
    polynomials interpolating the layout) -/
example : KeyInterp (-1) 2 cLay cP ∧ ∀ β γ : F, ∃ Z : F[X],
    KeyInterp (-1) 2 cLay (withZ cP Z) ∧ AccInterp (-1) 2 cLay (withZ cP Z) β γ := by
  refine ⟨cKey, fun β γ => ?_⟩
  obtain ⟨Z, -, hZ⟩ := accumulator_exists_core cStruct.2.1 cLay cP β γ
  refine ⟨Z + 0 * (X ^ 2 - 1), keyInterp_withZ cKey _, hZ 0⟩

/-- **`perm_vec_is_accumulator`** (the model's `permVec`, `compute_permutation_vec`).  When
    `permVec` returns `some z`: `z` has `n` entries, no denominator vanishes, and `z` IS the running
    product of its row numerators / denominators.  For polynomials `P` interpolating the table and
    `z` (`Interpolates`: true of the `ifft` / `blindPoly` polynomials of the specification prover with
    ANY blinders, C05 `model_polys_interpolate`) whose key polynomials interpolate the layout:
    `AccInterp` holds, and `permVec` returns `some _` — i.e. does not hit the Rust
    `assert!(denominators != 0)` — EXACTLY when `γ ∉ denBadM β`. -/
theorem perm_vec_is_accumulator {ω : F} {n : ℕ} (lay : Composer) (P : ProverPolys F) (G : Nat → Gate)
    (roots aS bS cS dS piS : List Nat) (sigE : List (List Nat)) (beta gamma : Nat) :
    (∀ z, permVec n roots aS bS cS dS sigE beta gamma = some z →
      z.length = n ∧ (∀ i < n, denF aS bS cS dS sigE beta gamma i ≠ 0) ∧
      (∀ i < n, toF (z.getD i 0) =
        accSeq (numF roots aS bS cS dS beta gamma) (denF aS bS cS dS sigE beta gamma) i) ∧
      (Interpolates ω n P G roots aS bS cS dS piS sigE z → KeyInterp ω n lay P →
        AccInterp ω n lay P (toF beta) (toF gamma))) ∧
    (∀ z0, Interpolates ω n P G roots aS bS cS dS piS sigE z0 → KeyInterp ω n lay P →
      ((∃ z, permVec n roots aS bS cS dS sigE beta gamma = some z) ↔
        toF gamma ∉ denBadM ω n lay P (toF beta))) := by
  refine ⟨fun z hz => ?_, fun z0 hI I => permVec_some_iff hI I beta gamma⟩
  obtain ⟨h1, h2, h3⟩ := permVec_is_accSeq n roots aS bS cS dS sigE beta gamma z hz
  exact ⟨h1, h2, h3, fun hI I => accInterp_of_permVec hI I beta gamma hz⟩

/-- non-vacuity: the model's `permVec` does return a vector on a two-row table (C05 instance) -/
example : ∃ (n : Nat) (roots sig : _) (z : List Nat), 0 < n ∧
    permVec n roots [1, 2] [2, 3] [3, 5] [0, 0] sig 5 9 = some z := by
  obtain ⟨d, z, _, hs, hz⟩ := ex_permVec
  exact ⟨d.size, d.elements, exSig d, z, by omega, hz⟩

/-! ### 2. the gate identity -/

/-- **`gate_identity_vanishes`.**  If the model's row check `rowHolds` holds on a row (for its `Nat`
    arguments — no canonicity of the selectors is needed), the gate expression
    `arith + q_range·range(ρ) + q_logic·logic(λ) + q_fixed·fixed(φ) + q_var·var(ν) + PI` of that row
    vanishes for ALL separation challenges: completeness needs no bad set here.  In particular, if
    `rowOKP` (the row predicate of `soundness_algebraic`: values read off the wire polynomials, next
    row cyclic) holds on every row of the domain, the gate part of `Num` (`gateAtRow`) vanishes on
    the domain.  Blinding terms — multiples of `Xⁿ − 1` — do not change the values on the domain
    (C05 `blind_agrees_on_domain`), so this applies to the blinded wire polynomials. -/
theorem gate_identity_vanishes :
    (∀ (g : Gate) (a b c d an bn dn pi : Nat), rowHolds g a b c d an bn dn pi = true →
      ∀ s : Seps F, gateSumR (Quot.selF g) (wiresF a b c d an bn dn) (toF pi) s = 0) ∧
    (∀ (ω : F) (n : ℕ) (lay : Composer) (P : ProverPolys F),
      (∀ i < n, rowOKP ω n lay P i) → ∀ s : Seps F, ∀ i < n, gateAtRow ω n lay P i s = 0) :=
  ⟨fun g a b c d an bn dn pi h s => gate_sum_zero_of_rowHolds' g a b c d an bn dn pi h s,
    fun ω n lay P h s i hi => gate_row_vanishes ω n lay P i (h i hi) s⟩

/-- non-vacuity: a row with a NON-canonical selector (`q_range = R ≡ 0`) that holds, and the rows of
    the instance -/
example : rowHolds { qrange := R } 0 0 0 0 0 0 0 0 = true ∧
    ∀ i < 2, rowOKP (-1) 2 cLay cP i := by
  refine ⟨by decide +kernel, cRows⟩

/-! ### 3. the numerator is divisible by the vanishing polynomial -/

/-- **`numerator_divisible`.**  Key polynomials interpolating the layout (`KeyInterp`), every row of
    the padded table holding (`rowOKP`), wire values constant on the wiring classes, `γ ∉ denBadM β`
    and an accumulator interpolating the running product: for EVERY `α` and EVERY separation
    challenge, `Num` vanishes on the whole domain, `(Xⁿ − 1) ∣ Num`, and there is `T` with
    `Num = T·(Xⁿ − 1)`. -/
theorem numerator_divisible {ω : F} {n : ℕ} (hn0 : 0 < n) (hω : IsPrimitiveRoot ω n)
    (lay : Composer) (hn : lay.gates.size ≤ n) (P : ProverPolys F) (I : KeyInterp ω n lay P)
    (hrows : ∀ i < n, rowOKP ω n lay P i)
    (hconst : ∀ p q, SameClass lay p q → wireVal ω P p = wireVal ω P q) (β γ : F)
    (hγ : γ ∉ denBadM ω n lay P β) (hz : AccInterp ω n lay P β γ) (α : F) (s : Seps F) :
    (∀ i : ℕ, (NumP ω n P ⟨β, γ, α⟩ s).eval (ω ^ i) = 0) ∧
    (X ^ n - 1 : F[X]) ∣ NumP ω n P ⟨β, γ, α⟩ s ∧
    ∃ T : F[X], NumP ω n P ⟨β, γ, α⟩ s = T * (X ^ n - 1) := by
  have hres := (respects_iff_const lay (wireVal ω P)).mpr hconst
  obtain ⟨hd, T, hT⟩ := Complete.numerator_divisible hn0 hω lay hn P I hrows hres β γ hγ hz α s
  refine ⟨fun i => ?_, hd, T, hT⟩
  have h1 : (ω ^ i) ^ n = 1 := by rw [← pow_mul, mul_comm, pow_mul, hω.pow_eq_one, one_pow]
  rw [hT, eval_mul, eval_sub, eval_pow, eval_X, eval_one, h1, sub_self, mul_zero]

/-- non-vacuity: every hypothesis is satisfiable on the instance (`σ ≠ id`), for every `β`, a good
    `γ` and a suitable accumulator -/
example : 0 < 2 ∧ IsPrimitiveRoot (-1 : F) 2 ∧ cLay.gates.size ≤ 2 ∧ ∀ β : F, ∃ γ Z,
    KeyInterp (-1) 2 cLay (withZ cP Z) ∧ (∀ i < 2, rowOKP (-1) 2 cLay (withZ cP Z) i) ∧
    (∀ p q, SameClass cLay p q → wireVal (-1) (withZ cP Z) p = wireVal (-1) (withZ cP Z) q) ∧
    γ ∉ denBadM (-1) 2 cLay (withZ cP Z) β ∧ AccInterp (-1) 2 cLay (withZ cP Z) β γ := by
  refine ⟨cStruct.1, cStruct.2.1, cStruct.2.2, fun β => ?_⟩
  obtain ⟨γ, hγ⟩ := c_good_gamma β
  obtain ⟨Z, -, hZ⟩ := accumulator_exists_core cStruct.2.1 cLay cP β γ
  refine ⟨γ, Z + 0 * (X ^ 2 - 1), keyInterp_withZ cKey _,
    fun i hi => (rowOKP_withZ _ _ _ _ _ _).mpr (cRows i hi),
    fun p q h => by simp only [wireVal_withZ]; exact cConst p q h,
    by rw [denBadM_withZ]; exact hγ, hZ 0⟩

/-- **Degree of the quotient.**  If the selector, public-input, sigma and wire polynomials have
    degree `≤ e` and the accumulator degree `≤ f` (`1 ≤ e ≤ f`, `n ≤ 4e + 1`), then
    `deg Num ≤ 4e + f`, and every `T` with `Num = T·(Xⁿ − 1)` has `deg T ≤ 4e + f − n`.  For the
    honest profile — wires blinded with two scalars (`e = n + 1`), accumulator with three
    (`f = n + 2`) — `deg Num ≤ 5n + 6` and `deg T ≤ 4n + 6`.  (The one-parameter bound of C02
    `numerator_degree_bound`, `5e + n` with `e = n + 2`, gives only `deg T ≤ 5n + 10`.) -/
theorem quotient_degree_bound (ω : F) (n : ℕ) (hn0 : 0 < n) (P : ProverPolys F) (ch : Chal F)
    (s : Seps F) (T : F[X]) (hT : NumP ω n P ch s = T * (X ^ n - 1)) :
    (∀ e f : ℕ, 1 ≤ e → e ≤ f → n ≤ 4 * e + 1 → PolysDeg2 P e f →
      (NumP ω n P ch s).natDegree ≤ 4 * e + f ∧ T.natDegree ≤ 4 * e + f - n) ∧
    (PolysDeg2 P (n + 1) (n + 2) →
      (NumP ω n P ch s).natDegree ≤ 5 * n + 6 ∧ T.natDegree ≤ 4 * n + 6) :=
  ⟨fun e f he hef hn hP => ⟨natDegree_NumP_le2 ω n P ch s e f he hef hn hP,
      natDegree_quotient_le2 ω n hn0 P ch s e f he hef hn hP T hT⟩,
    fun hP => natDegree_quotient_honest ω n hn0 P ch s hP T hT⟩

/-- non-vacuity: the instance with an accumulator of degree `< 2` has the honest degree profile
    (`n = 2`) -/
example (Z : F[X]) (hZ : Z.degree < (2 : ℕ)) : PolysDeg2 (withZ cP Z) (2 + 1) (2 + 2) := cDeg Z hZ

/-- **The quotient fits the commit key.**  A reduced, trimmed coefficient list `t` (what
    `Poly.ofCoeffs` returns: the model's `tPoly`) representing a polynomial `T` of degree `≤ 4n + 6`
    has at most `4n + 7` entries — the hypothesis of C01 `commitments_fit` under which the four
    re-randomised shares of `splitQuotient` are accepted by the degree guard of `commit`. -/
theorem quotient_fits (n : ℕ) (t : List Nat) (hr : Reduced t) (ht : Trimmed t) (T : F[X])
    (hT : toPoly t = T) (hdeg : T.natDegree ≤ 4 * n + 6) : t.length ≤ 4 * n + 7 :=
  quotient_list_fits t hr ht T hT (4 * n + 6) hdeg

example : Reduced (Poly.ofCoeffs [1, 2, 3]) ∧ Trimmed (Poly.ofCoeffs [1, 2, 3]) :=
  ⟨reduced_ofCoeffs _, trimmed_ofCoeffs _⟩

/-! ### 4. the verification equation -/

/-- **`verifier_equation_holds`.**  `ι` interprets the commitments of the verifier key and of the
    proof as the polynomials they commit to (`AgmRep`; for the honest prover these ARE the committed
    polynomials, (N1)), the fifteen evaluations of the proof are the true evaluations (`TrueEvals`:
    the honest prover computes them with `Poly.evaluate`), `zh = zⁿ − 1`, `l1 = L₁(z)`,
    `piEval = PI(z)`; the numerator is `T·(Xⁿ − 1)` and the four quotient shares recombine to `T`
    (`quotientOf ι p n = T`; C01 `quotient_shares_eval` / `ProverMask.split_recombine` for the model's
    `splitQuotient`).  Then
      (a) the model verifier's opening claim holds: `(D − u·Z)(z) = −r₀` for the model's own
          `linearizationTerms` and `r0Eval`, at EVERY `z`;
      (b) the batched opening check in the trapdoor view — the equation of
          `Props/C02.forged_evaluation_rejected` with the two points `z`, `ωz`, the polynomials
          `D − u·Z, a, b, c, d, σ₁, σ₂, σ₃, q_arith, q_c, q_l, q_r` (the last four only for
          `legacy = false`) resp. `Z, a, b, d`, claimed values `−r₀` and the evaluations of the proof,
          aggregation challenges `v`, `v_w`, batching challenge `u`, honest witnesses — HOLDS, for
          every trapdoor `x`, every `g` and all challenges. -/
theorem verifier_equation_holds {G : Type*} [AddCommGroup G] [Module F G] (g : G) (x : F)
    (ι : G1 → F[X]) (k : VKey) (p : ProofM) (ch : Challenges) (zh l1 piEval : Nat)
    (ω : F) (n : ℕ) (P : ProverPolys F) (A : AgmRep ι k p P) (E : TrueEvals ω (toF ch.z) p.ev P)
    (hzh : toF zh = toF ch.z ^ n - 1) (hl1 : toF l1 = (L1P n).eval (toF ch.z))
    (hpi : toF piEval = P.pi.eval (toF ch.z)) (T : F[X]) (hq : quotientOf ι p n = T)
    (hT : NumP ω n P ⟨toF ch.beta, toF ch.gamma, toF ch.alpha⟩
      ⟨toF ch.rangeSep, toF ch.logicSep, toF ch.fixedSep, toF ch.varSep⟩ = T * (X ^ n - 1))
    (legacy : Bool) :
    (evalTerms ι (linearizationTerms k p ch zh l1) - toF ch.u • ι p.zC).eval (toF ch.z) =
      - toF (r0Eval p.ev ch l1 piEval) ∧
    (let D := linPoly ι k p ch zh l1
     let r0 := toF (r0Eval p.ev ch l1 piEval)
     let v := openChal (toF ch.v) (toF ch.vw)
     let pt := openPoint ω (toF ch.z)
     let cnt := openCount legacy
     x • agg (toF ch.u) 2 (fun i =>
          KzgMath.commit x g (agg (v i) (cnt i) (openPolys D P i) /ₘ (X - C (pt i))))
      = agg (toF ch.u) 2 (fun i =>
            agg (v i) (cnt i) (fun j => KzgMath.commit x g (openPolys D P i j))
            + pt i • KzgMath.commit x g (agg (v i) (cnt i) (openPolys D P i) /ₘ (X - C (pt i))))
          - agg (toF ch.u) 2 (fun i => agg (v i) (cnt i) (openEvals r0 p.ev i)) • g) :=
  ⟨linPoly_eval ι k p ch zh l1 piEval ω n P A E hzh hl1 hpi T hq hT,
    verifier_equation_core g x ι k p ch zh l1 piEval ω n P A E hzh hl1 hpi T hq hT legacy⟩

/-- non-vacuity: the polynomials `exP2` of the soundness instance (numerator identically zero,
    `T = 0`), a verifier key and a proof whose commitments are interpreted by `vIota`, `z = 5`,
    `n = 2`, `ω = −1` (`zh = 24`, `L₁(5) = 3`): every hypothesis holds -/
example : AgmRep vIota vKey vProof exP2 ∧
    TrueEvals (-1) (toF ({ (default : Challenges) with z := 5 } : Challenges).z) vProof.ev exP2 ∧
    toF 24 = toF 5 ^ 2 - 1 ∧ toF 3 = (L1P 2).eval (toF 5) ∧ toF 0 = exP2.pi.eval (toF 5) ∧
    quotientOf vIota vProof 2 = 0 ∧
    ∀ (β γ α : F) (s : Seps F), NumP (-1) 2 exP2 ⟨β, γ, α⟩ s = 0 * (X ^ 2 - 1) :=
  ⟨v_agmRep, v_trueEvals, v_side.1, v_side.2.1, v_side.2.2, v_quotient, v_numerator⟩

/-! ### 5. the composition -/

/-- **`completeness_algebraic`.**  Compiled layout `lay` (selector rows `lay.gateAt`, public inputs
    `lay.piAt`, permutation `σ = sigmaFn lay`) on the domain `⟨ω⟩` of size `n ≥` number of gates;
    preprocessed polynomials interpolating the layout (`KeyInterp`); wire polynomials `P.a … P.d`
    with ARBITRARY blinding whose values on the domain satisfy the model's row check on EVERY row of
    the padded table (`rowOKP`, next row cyclic) and are constant on the wiring classes (no copy
    violation); `β` arbitrary, `γ ∉ denBadM β` (at most `4n` values); accumulator `P.z` — any
    polynomial interpolating the running product (`AccInterp`; it exists, `accumulator_exists`, and
    the model's `permVec` computes it, `perm_vec_is_accumulator`).  Then for EVERY `α` and EVERY
    separation challenges `(ρ,λ,φ,ν)` there is a quotient `T` with
      * `Num = T·(Xⁿ − 1)`, hence the quotient identity `Num(z) = T(z)·(zⁿ − 1)` — the hypothesis
        `hid` of `soundness_algebraic` — at EVERY `z`;
      * `deg T ≤ 4n + 6` for the honest degree profile;
      * for every verifier key / proof / challenges whose commitments are interpreted by these
        polynomials (`AgmRep`), with true evaluations, the shares recombining to `T`, and the
        challenges `β γ α ρ λ φ ν` of `ch` being the ones above: the verifier's opening claim
        `(D − u·Z)(z) = −r₀` holds and the batched opening check in the trapdoor view holds, for
        every `z, v, v_w, u`, every trapdoor `x` and every `g`. -/
theorem completeness_algebraic {G : Type*} [AddCommGroup G] [Module F G] (g : G) (x : F)
    {ω : F} {n : ℕ} (hn0 : 0 < n) (hω : IsPrimitiveRoot ω n) (lay : Composer)
    (hn : lay.gates.size ≤ n) (P : ProverPolys F) (I : KeyInterp ω n lay P)
    (hrows : ∀ i < n, rowOKP ω n lay P i)
    (hconst : ∀ p q, SameClass lay p q → wireVal ω P p = wireVal ω P q) (β γ : F)
    (hγ : γ ∉ denBadM ω n lay P β) (hz : AccInterp ω n lay P β γ) (α : F) (t : F × F × F × F) :
    ∃ T : F[X],
      NumP ω n P ⟨β, γ, α⟩ (sepsOf t) = T * (X ^ n - 1) ∧
      (∀ z : F, (NumP ω n P ⟨β, γ, α⟩ (sepsOf t)).eval z = T.eval z * (z ^ n - 1)) ∧
      (PolysDeg2 P (n + 1) (n + 2) → T.natDegree ≤ 4 * n + 6) ∧
      ∀ (ι : G1 → F[X]) (k : VKey) (p : ProofM) (ch : Challenges) (zh l1 piEval : Nat)
        (legacy : Bool),
        AgmRep ι k p P → TrueEvals ω (toF ch.z) p.ev P → toF zh = toF ch.z ^ n - 1 →
        toF l1 = (L1P n).eval (toF ch.z) → toF piEval = P.pi.eval (toF ch.z) →
        toF ch.beta = β → toF ch.gamma = γ → toF ch.alpha = α →
        (⟨toF ch.rangeSep, toF ch.logicSep, toF ch.fixedSep, toF ch.varSep⟩ : Seps F) = sepsOf t →
        quotientOf ι p n = T →
        (evalTerms ι (linearizationTerms k p ch zh l1) - toF ch.u • ι p.zC).eval (toF ch.z) =
          - toF (r0Eval p.ev ch l1 piEval) ∧
        (let D := linPoly ι k p ch zh l1
         let r0 := toF (r0Eval p.ev ch l1 piEval)
         let v := openChal (toF ch.v) (toF ch.vw)
         let pt := openPoint ω (toF ch.z)
         let cnt := openCount legacy
         x • agg (toF ch.u) 2 (fun i =>
              KzgMath.commit x g (agg (v i) (cnt i) (openPolys D P i) /ₘ (X - C (pt i))))
          = agg (toF ch.u) 2 (fun i =>
                agg (v i) (cnt i) (fun j => KzgMath.commit x g (openPolys D P i j))
                + pt i • KzgMath.commit x g (agg (v i) (cnt i) (openPolys D P i) /ₘ (X - C (pt i))))
              - agg (toF ch.u) 2 (fun i => agg (v i) (cnt i) (openEvals r0 p.ev i)) • g) := by
  obtain ⟨-, -, T, hT⟩ := numerator_divisible hn0 hω lay hn P I hrows hconst β γ hγ hz α (sepsOf t)
  refine ⟨T, hT, fun z => eval_of_quotient _ T hT z,
    fun hP => (natDegree_quotient_honest ω n hn0 P _ _ hP T hT).2, ?_⟩
  intro ι k p ch zh l1 piEval legacy A E hzh hl1 hpi hb hg ha hs hq
  subst hb hg ha
  rw [← hs] at hT
  exact verifier_equation_holds g x ι k p ch zh l1 piEval ω n P A E hzh hl1 hpi T hq hT legacy

/-- non-vacuity: on the instance `cLay / cP` (`σ ≠ id`) all hypotheses are satisfiable — for every
    `β` there are `γ` and an accumulator `Z` with the key polynomials interpolating the layout, all
    rows holding, values constant on the classes, `γ` good, `Z` interpolating the running product and
    the honest degree profile -/
example : 0 < 2 ∧ IsPrimitiveRoot (-1 : F) 2 ∧ cLay.gates.size ≤ 2 ∧ sigmaFn cLay (0, 0) = (0, 1) ∧
    ∀ β : F, ∃ γ Z,
      KeyInterp (-1) 2 cLay (withZ cP Z) ∧ (∀ i < 2, rowOKP (-1) 2 cLay (withZ cP Z) i) ∧
      (∀ p q, SameClass cLay p q → wireVal (-1) (withZ cP Z) p = wireVal (-1) (withZ cP Z) q) ∧
      γ ∉ denBadM (-1) 2 cLay (withZ cP Z) β ∧ AccInterp (-1) 2 cLay (withZ cP Z) β γ ∧
      PolysDeg2 (withZ cP Z) (2 + 1) (2 + 2) := by
  refine ⟨cStruct.1, cStruct.2.1, cStruct.2.2, cLay_sigma_nontrivial, fun β => ?_⟩
  obtain ⟨γ, hγ⟩ := c_good_gamma β
  obtain ⟨Z, hd, hZ⟩ := accumulator_exists_core cStruct.2.1 cLay cP β γ
  have e : Z + 0 * (X ^ 2 - 1) = Z := by ring
  have hZ0 := hZ 0
  rw [e] at hZ0
  exact ⟨γ, Z, keyInterp_withZ cKey _, fun i hi => (rowOKP_withZ _ _ _ _ _ _).mpr (cRows i hi),
    fun p q h => by simp only [wireVal_withZ]; exact cConst p q h,
    by rw [denBadM_withZ]; exact hγ, hZ0, cDeg Z hd⟩

/-- **Bridge from the model's notions of a satisfying witness** (mirror of C02
    `soundness_witness`).  Compiled layout `lay`, proving-time composer `c` with canonical witness
    values; wire polynomials interpolating the padded wire table `c.rowVals` on the domain
    (`WireInterp`; true of `blindPoly` with any blinders).  If the model's row check of the compiled
    gates holds on every row of the padded table of `c` (next row cyclic; for `c = lay` and
    `n = lay.paddedSize` this is `lay.sysSat = true`) and `c` has no copy violation against the
    layout (`copyViolation lay c = none`; automatic for `c = lay`), then the hypotheses `rowOKP` and
    "constant on the wiring classes" of `completeness_algebraic` hold. -/
theorem completeness_witness {ω : F} {n : ℕ} (hn0 : 0 < n) (lay c : Composer)
    (hn : lay.gates.size ≤ n) (P : ProverPolys F) (W : WireInterp ω n c P) (hc : ∀ x, c.val x < R)
    (hrows : ∀ i < n, rowHolds (lay.gateAt i) (c.rowVals i).a (c.rowVals i).b (c.rowVals i).c
      (c.rowVals i).d (c.rowVals ((i + 1) % n)).a (c.rowVals ((i + 1) % n)).b
      (c.rowVals ((i + 1) % n)).d (lay.piAt i) = true)
    (hcopy : Composer.copyViolation lay c = none) :
    (∀ i < n, rowOKP ω n lay P i) ∧
    (∀ p q, SameClass lay p q → wireVal ω P p = wireVal ω P q) ∧
    (∀ p, wireVal ω P (sigmaFn lay p) = wireVal ω P p) := by
  have h2 := const_of_copyViolation lay c hn W hcopy
  exact ⟨rows_of_model hn0 lay c W hc hrows, h2, (respects_iff_const lay (wireVal ω P)).mpr h2⟩

/-- the case `c = lay`: a satisfied system (`sysSat`) has the row hypothesis on its padded domain,
    and no copy violation against itself -/
theorem completeness_witness_self (c : Composer) (h : c.sysSat = true) :
    (∀ i < c.paddedSize, rowHolds (c.gateAt i) (c.rowVals i).a (c.rowVals i).b (c.rowVals i).c
      (c.rowVals i).d (c.rowVals ((i + 1) % c.paddedSize)).a
      (c.rowVals ((i + 1) % c.paddedSize)).b (c.rowVals ((i + 1) % c.paddedSize)).d (c.piAt i)
        = true) ∧
    Composer.copyViolation c c = none :=
  ⟨sysSat_rows c h, copyViolation_self c⟩

/-- non-vacuity: the layout `cLay` (with its own witness values `1, 2, −3, 0`) is a satisfied
    system padded to `2`, with canonical values; the constant wire polynomials interpolate it -/
example : cLay.sysSat = true ∧ cLay.paddedSize = 2 ∧ (∀ x, cLay.val x < R) ∧
    WireInterp (-1) 2 cLay cP := by
  refine ⟨by decide +kernel, by decide +kernel, c_val_lt, cWire⟩

end Plonk.Props.C01Complete
