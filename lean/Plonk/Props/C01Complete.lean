/-
  C01 — "Completeness: for every circuit that compiles and every witness assignment that satisfies
  all of its gates, copy constraints and public inputs, `Prover::prove` returns a proof and the
  matching `Verifier::verify` accepts it (degenerate blinders excepted)."

  This file is the ALGEBRAIC COMPLETENESS COMPOSITION, the mirror image of the soundness
  composition of `Props/C02.lean`.  It talks about the SAME objects: a compiled layout `lay`
  (`lay.gateAt`, `lay.piAt`, `Perm.sigmaFn lay`), prover polynomials `P : ProverPolys F` with
  `Sound.KeyInterp ω n lay P`, the row predicate `Sound.rowOKP` (the model's `Plonk.rowHolds` on the
  values read off the wire polynomials, next row cyclic), the per-row quantities `gateAtRow`,
  `permAtRow`, `l1AtRow`, and the SAME numerator polynomial `Quot.NumP` (whose coset values are the
  entries of the model's `quotientEvals`, C05 `quotient_in_prove`).  The domain size `n` is
  arbitrary (`soundness_algebraic` is stated for `n = 2^k`).

  What IS proved (all FULL, no `_partial`):

   1. `accumulator_exists`, `perm_vec_is_accumulator`, `perm_identities_vanish`
   2. `gate_identity_vanishes`
   3. `numerator_divisible`, `quotient_degree_bound`, `quotient_fits`
   4. `verifier_equation_holds`, `verifier_accepts`, `verifier_accepts_legacy` (the model verifier's
      OWN grouped MSM `verifyTerms` vanishes on the honest prover's data, V2/V3 and V1)
   5. `completeness_algebraic`, `completeness_witness`, `completeness_witness_self`
   6. `completeness_model_polys` (the polynomials the specification prover builds — `ifft` columns,
      `blindPoly` wires and accumulator of the model's `permVec`, ANY blinders — satisfy every
      hypothesis of `completeness_algebraic`, for a layout whose own witness satisfies all rows),
      `quotient_in_prove_complete` (the `tPoly` that the model's `prove` interpolates from
      `quotientEvals` IS the quotient `T`; it has `≤ 4n + 7` coefficients, passes the `len > 7n` test
      for `n ≥ 3`, and its shares fit the commit key)

  How the pieces compose into "satisfied ⇒ proves and verifies": by `completeness_witness` the
  model's own notions (`sysSat` / `rowHolds` on the padded table, `copyViolation = none`) give the
  row predicate and the class-constancy of the values of ANY wire polynomials interpolating the
  table — `blindPoly` with arbitrary blinders does (C05 `blind_agrees_on_domain`); by
  `perm_vec_is_accumulator` the model's `permVec` returns a vector exactly when `γ ∉ denBadM β`
  (at most `4n` values per `β`: the "degenerate" exception, explicit) and every polynomial
  interpolating it satisfies `AccInterp`; by `completeness_algebraic` the numerator is
  `T·(Xⁿ − 1)` for EVERY `α` and every separation challenge, `deg T ≤ 4n + 6` for the honest degree
  profile, so the quotient has at most `4n + 7` coefficients and the four shares fit the commit key
  (`quotient_fits` + C01 `commitments_fit`); and for EVERY `z, v, v_w, u` the batched opening check
  in the trapdoor view — the field equation of `Props/C02.forged_evaluation_rejected`, which C20
  `pairing_check_iff` turns into the pairing check — holds for the honest openings; in the code's
  own grouping (`verifier_accepts`): `[x]·Σ left + Σ right = O` for the term lists of the model's
  `verifyTerms`, the condition under which `VerifierM.verify` returns `.ok` (C03
  `accept_iff_equation`), once every point is read as `[q(x)]g`.

  What is NOT covered (stated, not hidden):

  (N1) the executable curve arithmetic: commitments are `[p(x)]g` (C20 `commit_eval`, level (A));
       the statement is about an arbitrary `F`-module `G` and ANY `g` (no non-degeneracy needed in
       this direction);
  (N2) Fiat–Shamir only fixes WHICH challenges are used: the theorems hold for all of them (except
       `γ ∈ denBadM β`), so nothing about the transcript is needed beyond C03
       `prover_verifier_transcripts_agree`;
  (N3) that the model's `prove` computes exactly these polynomials: wires / accumulator /
       openings are tied by `ProverMask.prove_commitments_blinded`, `prove_openings_masked`
       (C06), the quotient shares by `ProverMask.split_recombine` (hypothesis `hq` below) and C05
       `quotient_in_prove` (coset values of `Num/Z_H`) and `quotient_in_prove_complete` below
       (`tPoly` of `prove` IS the `T` of `numerator_divisible`); that `lagrangeAndPi` computes
       `L₁(z)`, `PI(z)` are the hypotheses `hl1`, `hpi` (as in C02; C03/C12 `lagrangeAndPi_some`).
       The walk through the `match` chain of `prove` that identifies its local arrays with the
       arguments of these theorems (they are syntactically the same expressions) is not done here;
  (N4) the opening witness of the model prover is the quotient of `r + Σ vʲ pⱼ` where `r` differs
       from the verifier's `D − u·Z` by a constant; dividing by `X − z` kills constants, so the
       witness polynomial is the `agg … /ₘ (X − C z)` used here.

  Findings:
   * The coarse bound of C02 `numerator_degree_bound` (`deg Num ≤ 5e + n`, one bound `e` for all
     polynomials) gives, for the honest `e = n + 2`, only `deg T ≤ 5n + 10`: NOT enough for
     `commitments_fit` (`t.length ≤ 4n + 7`).  The refined bound `quotient_degree_bound`
     (accumulator kept apart: `deg Num ≤ 4e + f`) gives exactly `deg T ≤ 4n + 6`, i.e. `4n + 7`
     coefficients: the capacity `n + 7` of the trimmed key is tight, with the permutation term
     `Z·∏(w + β·k·X + γ)` of degree `(n+2) + 4(n+1)` as the extremal one.
   * `4n + 7 ≤ 7n` only for `n ≥ 3`: for domains of size `n ≤ 2` the code's rule
     `tPoly.length > 7n ⇒ circuitUnsatisfied` can misfire on a SATISFIED circuit whenever the bound
     is attained (`deg T = 4n + 6`, length `4n + 7 > 7n`; that generic blinders attain it is NOT
     proved here — only the upper bound is).  `Composer::initialized` already has four
     gates (`n ≥ 4`), so this is not reachable through the public API of the crate; the model's
     `prove` accepts any composer, hence the hypothesis `3 ≤ n` in `quotient_in_prove_complete`.
   * No `SelReduced` hypothesis is needed in the completeness direction (`gate_identity_vanishes`
     holds for arbitrary, possibly non-canonical, selectors), unlike C05 `gate_sum_zero_iff`.
   * `completeness_witness` needs canonical witness values (`c.val x < R`): `rowHolds` is evaluated
     on the `Nat` representatives.  The composer reduces every appended witness, so this is a
     property of the model's representation, as `SelReduced` in C05.
-/
import Plonk.Proofs.CompletenessCore
import Plonk.Proofs.CompletenessModel
import Plonk.Proofs.CompletenessDegree
import Plonk.Proofs.CompletenessVerifier
import Plonk.Proofs.CompletenessProver
import Plonk.Proofs.CompletenessExamples
import Plonk.Proofs.CompletenessAccept
import Plonk.Proofs.CompletenessQuotient
import Plonk.Proofs.CompletenessModelPolys
import Plonk.Proofs.CompletenessExamples2

namespace Plonk.Props.C01Complete
open Plonk Polynomial Plonk.Quot Plonk.Perm Plonk.Sound Plonk.Complete
open Plonk.KzgMath (agg)

/-! ### 1. the accumulator -/

/-- **`accumulator_exists`.**  Layout `lay` on a domain `⟨ω⟩` of size `n ≥` number of gates; wire
    values (read off ARBITRARY wire polynomials `P.a … P.d`) constant on the wiring classes —
    equivalently `copyViolation = none`, see `completeness_witness`.  For every `β` the bad set
    `denBadM β` of `γ` (some factor `w + β·id(σ p) + γ` of a denominator vanishes) has at most `4n`
    elements, and it is contained in the soundness bad set `gammaBadM β`.  For `γ ∉ denBadM β` the
    running product `z_i = ∏_{j<i} num_j/den_j` (`accVal`) satisfies `z₀ = 1`,
    `z_{i+1}·den_i = z_i·num_i` and CLOSES: `z_n = 1 = z₀`; there is a polynomial `Z` of degree `< n`
    interpolating it, and for every blinding `Z + B·(Xⁿ − 1)` both permutation identities vanish on
    every row of the domain (`permAtRow`, `l1AtRow`: the summands of `Num`, as in C02). -/
theorem accumulator_exists {ω : F} {n : ℕ} (hn0 : 0 < n) (hω : IsPrimitiveRoot ω n) (lay : Composer)
    (hn : lay.gates.size ≤ n) (P : ProverPolys F)
    (hconst : ∀ p q, SameClass lay p q → wireVal ω P p = wireVal ω P q) (β : F) :
    (denBadM ω n lay P β).card ≤ 4 * n ∧ denBadM ω n lay P β ⊆ gammaBadM ω n lay P β ∧
    ∀ γ, γ ∉ denBadM ω n lay P β →
      (∀ i < n, denRow ω lay P β γ i ≠ 0) ∧
      accVal ω lay P β γ 0 = 1 ∧
      (∀ i < n, accVal ω lay P β γ (i + 1) * denRow ω lay P β γ i =
        accVal ω lay P β γ i * numRow ω P β γ i) ∧
      accVal ω lay P β γ n = 1 ∧
      ∃ Z : F[X], Z.degree < n ∧ ∀ B : F[X],
        AccInterp ω n lay (withZ P (Z + B * (X ^ n - 1))) β γ ∧
        (∀ i < n, permAtRow ω n lay (withZ P (Z + B * (X ^ n - 1))) β γ i = 0) ∧
        (∀ i < n, l1AtRow ω (withZ P (Z + B * (X ^ n - 1))) i = 0) := by
  have hres := (respects_iff_const lay (wireVal ω P)).mpr hconst
  refine ⟨denBadM_card_le ω n lay P β, denBad_subset_gammaBad _ _ _ _ _, fun γ hγ => ?_⟩
  have hden := denRow_ne_zero ω n lay P β γ hγ
  refine ⟨hden, accSeq_zero _ _, fun i hi => accSeq_step _ _ i (hden i hi),
    accSeq_closes n _ _ hden (prod_rows_eq ω n lay hn P hres β γ), ?_⟩
  obtain ⟨Z, hd, hZ⟩ := accumulator_exists_core hω lay P β γ
  refine ⟨Z, hd, fun B => ⟨hZ B, ?_⟩⟩
  exact perm_rows_vanish ω n hn0 lay hn _ (fun p => by simp only [wireVal_withZ]; exact hres p) β γ
    (by rw [denBadM_withZ]; exact hγ) (hZ B)

/-- non-vacuity: the instance `cLay / cP` (two rows on the SAME four witnesses, `σ` swaps the rows,
    domain `{1, −1}`): the structural hypotheses hold, the values are constant on the classes, `σ` is
    not the identity, and a good `γ` exists for every `β` -/
example : 0 < 2 ∧ IsPrimitiveRoot (-1 : F) 2 ∧ cLay.gates.size ≤ 2 ∧
    (∀ p q, SameClass cLay p q → wireVal (-1) cP p = wireVal (-1) cP q) ∧
    sigmaFn cLay (0, 0) = (0, 1) ∧ ∀ β : F, ∃ γ, γ ∉ denBadM (-1) 2 cLay cP β :=
  ⟨cStruct.1, cStruct.2.1, cStruct.2.2, cConst, cLay_sigma_nontrivial, c_good_gamma⟩

/-- **The permutation identities vanish** for ANY accumulator polynomial interpolating the running
    product (`AccInterp`) — row form (`permAtRow`, `l1AtRow`) and polynomial form
    (`Z(ωX)·Den − Z·Num`, `(Z − 1)·L₁` vanish on the domain; mirror of C02
    `accumulator_telescopes_poly`). -/
theorem perm_identities_vanish {ω : F} {n : ℕ} (hn0 : 0 < n) (hω : IsPrimitiveRoot ω n)
    (lay : Composer) (hn : lay.gates.size ≤ n) (P : ProverPolys F) (I : KeyInterp ω n lay P)
    (hconst : ∀ p q, SameClass lay p q → wireVal ω P p = wireVal ω P q) (β γ : F)
    (hγ : γ ∉ denBadM ω n lay P β) (hz : AccInterp ω n lay P β γ) :
    (∀ i < n, permAtRow ω n lay P β γ i = 0) ∧ (∀ i < n, l1AtRow ω P i = 0) ∧
    (∀ i < n, (shiftP ω P.z * permDenP P β γ - P.z * permNumP P β γ).eval (ω ^ i) = 0) ∧
    (∀ i < n, ((P.z - 1) * L1P n).eval (ω ^ i) = 0) := by
  have hres := (respects_iff_const lay (wireVal ω P)).mpr hconst
  obtain ⟨h1, h2⟩ := perm_rows_vanish ω n hn0 lay hn P hres β γ hγ hz
  obtain ⟨h3, h4⟩ := perm_identities_poly hn0 hω lay hn P I hres β γ hγ hz
  exact ⟨h1, h2, h3, h4⟩

/-- non-vacuity: for the instance, an accumulator satisfying `AccInterp` exists (with the key
    polynomials interpolating the layout) -/
example : KeyInterp (-1) 2 cLay cP ∧ ∀ β γ : F, ∃ Z : F[X],
    KeyInterp (-1) 2 cLay (withZ cP Z) ∧ AccInterp (-1) 2 cLay (withZ cP Z) β γ := by
  refine ⟨cKey, fun β γ => ?_⟩
  obtain ⟨Z, -, hZ⟩ := accumulator_exists_core cStruct.2.1 cLay cP β γ
  refine ⟨Z + 0 * (X ^ 2 - 1), keyInterp_withZ cKey _, hZ 0⟩

/-- **`perm_vec_is_accumulator`** (the model's `permVec`, `compute_permutation_vec`).  When
    `permVec` returns `some z`: `z` has `n` entries, no denominator vanishes, and `z` IS the running
    product of its row numerators / denominators.  For polynomials `P` interpolating the table and
    `z` (`Interpolates`: true of the `ifft` / `blindPoly` polynomials of the specification prover with
    ANY blinders, C05 `model_polys_interpolate`) whose key polynomials interpolate the layout:
    `AccInterp` holds, and `permVec` returns `some _` — i.e. does not hit the Rust
    `assert!(denominators != 0)` — EXACTLY when `γ ∉ denBadM β`. -/
theorem perm_vec_is_accumulator {ω : F} {n : ℕ} (lay : Composer) (P : ProverPolys F) (G : Nat → Gate)
    (roots aS bS cS dS piS : List Nat) (sigE : List (List Nat)) (beta gamma : Nat) :
    (∀ z, permVec n roots aS bS cS dS sigE beta gamma = some z →
      z.length = n ∧ (∀ i < n, denF aS bS cS dS sigE beta gamma i ≠ 0) ∧
      (∀ i < n, toF (z.getD i 0) =
        accSeq (numF roots aS bS cS dS beta gamma) (denF aS bS cS dS sigE beta gamma) i) ∧
      (Interpolates ω n P G roots aS bS cS dS piS sigE z → KeyInterp ω n lay P →
        AccInterp ω n lay P (toF beta) (toF gamma))) ∧
    (∀ z0, Interpolates ω n P G roots aS bS cS dS piS sigE z0 → KeyInterp ω n lay P →
      ((∃ z, permVec n roots aS bS cS dS sigE beta gamma = some z) ↔
        toF gamma ∉ denBadM ω n lay P (toF beta))) := by
  refine ⟨fun z hz => ?_, fun z0 hI I => permVec_some_iff hI I beta gamma⟩
  obtain ⟨h1, h2, h3⟩ := permVec_is_accSeq n roots aS bS cS dS sigE beta gamma z hz
  exact ⟨h1, h2, h3, fun hI I => accInterp_of_permVec hI I beta gamma hz⟩

/-- non-vacuity: the model's `permVec` does return a vector on a two-row table (C05 instance) -/
example : ∃ (n : Nat) (roots sig : _) (z : List Nat), 0 < n ∧
    permVec n roots [1, 2] [2, 3] [3, 5] [0, 0] sig 5 9 = some z := by
  obtain ⟨d, z, _, hs, hz⟩ := ex_permVec
  exact ⟨d.size, d.elements, exSig d, z, by omega, hz⟩

/-! ### 2. the gate identity -/

/-- **`gate_identity_vanishes`.**  If the model's row check `rowHolds` holds on a row (for its `Nat`
    arguments — no canonicity of the selectors is needed), the gate expression
    `arith + q_range·range(ρ) + q_logic·logic(λ) + q_fixed·fixed(φ) + q_var·var(ν) + PI` of that row
    vanishes for ALL separation challenges: completeness needs no bad set here.  In particular, if
    `rowOKP` (the row predicate of `soundness_algebraic`: values read off the wire polynomials, next
    row cyclic) holds on every row of the domain, the gate part of `Num` (`gateAtRow`) vanishes on
    the domain.  Blinding terms — multiples of `Xⁿ − 1` — do not change the values on the domain
    (C05 `blind_agrees_on_domain`), so this applies to the blinded wire polynomials. -/
theorem gate_identity_vanishes :
    (∀ (g : Gate) (a b c d an bn dn pi : Nat), rowHolds g a b c d an bn dn pi = true →
      ∀ s : Seps F, gateSumR (Quot.selF g) (wiresF a b c d an bn dn) (toF pi) s = 0) ∧
    (∀ (ω : F) (n : ℕ) (lay : Composer) (P : ProverPolys F),
      (∀ i < n, rowOKP ω n lay P i) → ∀ s : Seps F, ∀ i < n, gateAtRow ω n lay P i s = 0) :=
  ⟨fun g a b c d an bn dn pi h s => gate_sum_zero_of_rowHolds' g a b c d an bn dn pi h s,
    fun ω n lay P h s i hi => gate_row_vanishes ω n lay P i (h i hi) s⟩

/-- non-vacuity: a row with a NON-canonical selector (`q_range = R ≡ 0`) that holds, and the rows of
    the instance -/
example : rowHolds { qrange := R } 0 0 0 0 0 0 0 0 = true ∧
    ∀ i < 2, rowOKP (-1) 2 cLay cP i := by
  refine ⟨by decide +kernel, cRows⟩

/-! ### 3. the numerator is divisible by the vanishing polynomial -/

/-- **`numerator_divisible`.**  Key polynomials interpolating the layout (`KeyInterp`), every row of
    the padded table holding (`rowOKP`), wire values constant on the wiring classes, `γ ∉ denBadM β`
    and an accumulator interpolating the running product: for EVERY `α` and EVERY separation
    challenge, `Num` vanishes on the whole domain, `(Xⁿ − 1) ∣ Num`, and there is `T` with
    `Num = T·(Xⁿ − 1)`. -/
theorem numerator_divisible {ω : F} {n : ℕ} (hn0 : 0 < n) (hω : IsPrimitiveRoot ω n)
    (lay : Composer) (hn : lay.gates.size ≤ n) (P : ProverPolys F) (I : KeyInterp ω n lay P)
    (hrows : ∀ i < n, rowOKP ω n lay P i)
    (hconst : ∀ p q, SameClass lay p q → wireVal ω P p = wireVal ω P q) (β γ : F)
    (hγ : γ ∉ denBadM ω n lay P β) (hz : AccInterp ω n lay P β γ) (α : F) (s : Seps F) :
    (∀ i : ℕ, (NumP ω n P ⟨β, γ, α⟩ s).eval (ω ^ i) = 0) ∧
    (X ^ n - 1 : F[X]) ∣ NumP ω n P ⟨β, γ, α⟩ s ∧
    ∃ T : F[X], NumP ω n P ⟨β, γ, α⟩ s = T * (X ^ n - 1) := by
  have hres := (respects_iff_const lay (wireVal ω P)).mpr hconst
  obtain ⟨hd, T, hT⟩ := Complete.numerator_divisible hn0 hω lay hn P I hrows hres β γ hγ hz α s
  refine ⟨fun i => ?_, hd, T, hT⟩
  have h1 : (ω ^ i) ^ n = 1 := by rw [← pow_mul, mul_comm, pow_mul, hω.pow_eq_one, one_pow]
  rw [hT, eval_mul, eval_sub, eval_pow, eval_X, eval_one, h1, sub_self, mul_zero]

/-- non-vacuity: every hypothesis is satisfiable on the instance (`σ ≠ id`), for every `β`, a good
    `γ` and a suitable accumulator -/
example : 0 < 2 ∧ IsPrimitiveRoot (-1 : F) 2 ∧ cLay.gates.size ≤ 2 ∧ ∀ β : F, ∃ γ Z,
    KeyInterp (-1) 2 cLay (withZ cP Z) ∧ (∀ i < 2, rowOKP (-1) 2 cLay (withZ cP Z) i) ∧
    (∀ p q, SameClass cLay p q → wireVal (-1) (withZ cP Z) p = wireVal (-1) (withZ cP Z) q) ∧
    γ ∉ denBadM (-1) 2 cLay (withZ cP Z) β ∧ AccInterp (-1) 2 cLay (withZ cP Z) β γ := by
  refine ⟨cStruct.1, cStruct.2.1, cStruct.2.2, fun β => ?_⟩
  obtain ⟨γ, hγ⟩ := c_good_gamma β
  obtain ⟨Z, -, hZ⟩ := accumulator_exists_core cStruct.2.1 cLay cP β γ
  refine ⟨γ, Z + 0 * (X ^ 2 - 1), keyInterp_withZ cKey _,
    fun i hi => (rowOKP_withZ _ _ _ _ _ _).mpr (cRows i hi),
    fun p q h => by simp only [wireVal_withZ]; exact cConst p q h,
    by rw [denBadM_withZ]; exact hγ, hZ 0⟩

/-- **Degree of the quotient.**  If the selector, public-input, sigma and wire polynomials have
    degree `≤ e` and the accumulator degree `≤ f` (`1 ≤ e ≤ f`, `n ≤ 4e + 1`), then
    `deg Num ≤ 4e + f`, and every `T` with `Num = T·(Xⁿ − 1)` has `deg T ≤ 4e + f − n`.  For the
    honest profile — wires blinded with two scalars (`e = n + 1`), accumulator with three
    (`f = n + 2`) — `deg Num ≤ 5n + 6` and `deg T ≤ 4n + 6`.  (The one-parameter bound of C02
    `numerator_degree_bound`, `5e + n` with `e = n + 2`, gives only `deg T ≤ 5n + 10`.) -/
theorem quotient_degree_bound (ω : F) (n : ℕ) (hn0 : 0 < n) (P : ProverPolys F) (ch : Chal F)
    (s : Seps F) (T : F[X]) (hT : NumP ω n P ch s = T * (X ^ n - 1)) :
    (∀ e f : ℕ, 1 ≤ e → e ≤ f → n ≤ 4 * e + 1 → PolysDeg2 P e f →
      (NumP ω n P ch s).natDegree ≤ 4 * e + f ∧ T.natDegree ≤ 4 * e + f - n) ∧
    (PolysDeg2 P (n + 1) (n + 2) →
      (NumP ω n P ch s).natDegree ≤ 5 * n + 6 ∧ T.natDegree ≤ 4 * n + 6) :=
  ⟨fun e f he hef hn hP => ⟨natDegree_NumP_le2 ω n P ch s e f he hef hn hP,
      natDegree_quotient_le2 ω n hn0 P ch s e f he hef hn hP T hT⟩,
    fun hP => natDegree_quotient_honest ω n hn0 P ch s hP T hT⟩

/-- non-vacuity: the instance with an accumulator of degree `< 2` has the honest degree profile
    (`n = 2`) -/
example (Z : F[X]) (hZ : Z.degree < (2 : ℕ)) : PolysDeg2 (withZ cP Z) (2 + 1) (2 + 2) := cDeg Z hZ

/-- **The quotient fits the commit key.**  A reduced, trimmed coefficient list `t` (what
    `Poly.ofCoeffs` returns: the model's `tPoly`) representing a polynomial `T` of degree `≤ 4n + 6`
    has at most `4n + 7` entries — the hypothesis of C01 `commitments_fit` under which the four
    re-randomised shares of `splitQuotient` are accepted by the degree guard of `commit`. -/
theorem quotient_fits (n : ℕ) (t : List Nat) (hr : Reduced t) (ht : Trimmed t) (T : F[X])
    (hT : toPoly t = T) (hdeg : T.natDegree ≤ 4 * n + 6) : t.length ≤ 4 * n + 7 :=
  quotient_list_fits t hr ht T hT (4 * n + 6) hdeg

example : Reduced (Poly.ofCoeffs [1, 2, 3]) ∧ Trimmed (Poly.ofCoeffs [1, 2, 3]) :=
  ⟨reduced_ofCoeffs _, trimmed_ofCoeffs _⟩

/-! ### 4. the verification equation -/

/-- **`verifier_equation_holds`.**  `ι` interprets the commitments of the verifier key and of the
    proof as the polynomials they commit to (`AgmRep`; for the honest prover these ARE the committed
    polynomials, (N1)), the fifteen evaluations of the proof are the true evaluations (`TrueEvals`:
    the honest prover computes them with `Poly.evaluate`), `zh = zⁿ − 1`, `l1 = L₁(z)`,
    `piEval = PI(z)`; the numerator is `T·(Xⁿ − 1)` and the four quotient shares recombine to `T`
    (`quotientOf ι p n = T`; C01 `quotient_shares_eval` / `ProverMask.split_recombine` for the model's
    `splitQuotient`).  Then
      (a) the model verifier's opening claim holds: `(D − u·Z)(z) = −r₀` for the model's own
          `linearizationTerms` and `r0Eval`, at EVERY `z`;
      (b) the batched opening check in the trapdoor view — the equation of
          `Props/C02.forged_evaluation_rejected` with the two points `z`, `ωz`, the polynomials
          `D − u·Z, a, b, c, d, σ₁, σ₂, σ₃, q_arith, q_c, q_l, q_r` (the last four only for
          `legacy = false`) resp. `Z, a, b, d`, claimed values `−r₀` and the evaluations of the proof,
          aggregation challenges `v`, `v_w`, batching challenge `u`, honest witnesses — HOLDS, for
          every trapdoor `x`, every `g` and all challenges. -/
theorem verifier_equation_holds {G : Type*} [AddCommGroup G] [Module F G] (g : G) (x : F)
    (ι : G1 → F[X]) (k : VKey) (p : ProofM) (ch : Challenges) (zh l1 piEval : Nat)
    (ω : F) (n : ℕ) (P : ProverPolys F) (A : AgmRep ι k p P) (E : TrueEvals ω (toF ch.z) p.ev P)
    (hzh : toF zh = toF ch.z ^ n - 1) (hl1 : toF l1 = (L1P n).eval (toF ch.z))
    (hpi : toF piEval = P.pi.eval (toF ch.z)) (T : F[X]) (hq : quotientOf ι p n = T)
    (hT : NumP ω n P ⟨toF ch.beta, toF ch.gamma, toF ch.alpha⟩
      ⟨toF ch.rangeSep, toF ch.logicSep, toF ch.fixedSep, toF ch.varSep⟩ = T * (X ^ n - 1))
    (legacy : Bool) :
    (evalTerms ι (linearizationTerms k p ch zh l1) - toF ch.u • ι p.zC).eval (toF ch.z) =
      - toF (r0Eval p.ev ch l1 piEval) ∧
    (let D := linPoly ι k p ch zh l1
     let r0 := toF (r0Eval p.ev ch l1 piEval)
     let v := openChal (toF ch.v) (toF ch.vw)
     let pt := openPoint ω (toF ch.z)
     let cnt := openCount legacy
     x • agg (toF ch.u) 2 (fun i =>
          KzgMath.commit x g (agg (v i) (cnt i) (openPolys D P i) /ₘ (X - C (pt i))))
      = agg (toF ch.u) 2 (fun i =>
            agg (v i) (cnt i) (fun j => KzgMath.commit x g (openPolys D P i j))
            + pt i • KzgMath.commit x g (agg (v i) (cnt i) (openPolys D P i) /ₘ (X - C (pt i))))
          - agg (toF ch.u) 2 (fun i => agg (v i) (cnt i) (openEvals r0 p.ev i)) • g) :=
  ⟨linPoly_eval ι k p ch zh l1 piEval ω n P A E hzh hl1 hpi T hq hT,
    verifier_equation_core g x ι k p ch zh l1 piEval ω n P A E hzh hl1 hpi T hq hT legacy⟩

/-- non-vacuity: the polynomials `exP2` of the soundness instance (numerator identically zero,
    `T = 0`), a verifier key and a proof whose commitments are interpreted by `vIota`, `z = 5`,
    `n = 2`, `ω = −1` (`zh = 24`, `L₁(5) = 3`): every hypothesis holds -/
example : AgmRep vIota vKey vProof exP2 ∧
    TrueEvals (-1) (toF ({ (default : Challenges) with z := 5 } : Challenges).z) vProof.ev exP2 ∧
    toF 24 = toF 5 ^ 2 - 1 ∧ toF 3 = (L1P 2).eval (toF 5) ∧ toF 0 = exP2.pi.eval (toF 5) ∧
    quotientOf vIota vProof 2 = 0 ∧
    ∀ (β γ α : F) (s : Seps F), NumP (-1) 2 exP2 ⟨β, γ, α⟩ s = 0 * (X ^ 2 - 1) :=
  ⟨v_agmRep, v_trueEvals, v_side.1, v_side.2.1, v_side.2.2, v_quotient, v_numerator⟩

/-! ### 5. the composition -/

/-- **`completeness_algebraic`.**  Compiled layout `lay` (selector rows `lay.gateAt`, public inputs
    `lay.piAt`, permutation `σ = sigmaFn lay`) on the domain `⟨ω⟩` of size `n ≥` number of gates;
    preprocessed polynomials interpolating the layout (`KeyInterp`); wire polynomials `P.a … P.d`
    with ARBITRARY blinding whose values on the domain satisfy the model's row check on EVERY row of
    the padded table (`rowOKP`, next row cyclic) and are constant on the wiring classes (no copy
    violation); `β` arbitrary, `γ ∉ denBadM β` (at most `4n` values); accumulator `P.z` — any
    polynomial interpolating the running product (`AccInterp`; it exists, `accumulator_exists`, and
    the model's `permVec` computes it, `perm_vec_is_accumulator`).  Then for EVERY `α` and EVERY
    separation challenges `(ρ,λ,φ,ν)` there is a quotient `T` with
      * `Num = T·(Xⁿ − 1)`, hence the quotient identity `Num(z) = T(z)·(zⁿ − 1)` — the hypothesis
        `hid` of `soundness_algebraic` — at EVERY `z`;
      * `deg T ≤ 4n + 6` for the honest degree profile;
      * for every verifier key / proof / challenges whose commitments are interpreted by these
        polynomials (`AgmRep`), with true evaluations, the shares recombining to `T`, and the
        challenges `β γ α ρ λ φ ν` of `ch` being the ones above: the verifier's opening claim
        `(D − u·Z)(z) = −r₀` holds and the batched opening check in the trapdoor view holds, for
        every `z, v, v_w, u`, every trapdoor `x` and every `g`. -/
theorem completeness_algebraic {G : Type*} [AddCommGroup G] [Module F G] (g : G) (x : F)
    {ω : F} {n : ℕ} (hn0 : 0 < n) (hω : IsPrimitiveRoot ω n) (lay : Composer)
    (hn : lay.gates.size ≤ n) (P : ProverPolys F) (I : KeyInterp ω n lay P)
    (hrows : ∀ i < n, rowOKP ω n lay P i)
    (hconst : ∀ p q, SameClass lay p q → wireVal ω P p = wireVal ω P q) (β γ : F)
    (hγ : γ ∉ denBadM ω n lay P β) (hz : AccInterp ω n lay P β γ) (α : F) (t : F × F × F × F) :
    ∃ T : F[X],
      NumP ω n P ⟨β, γ, α⟩ (sepsOf t) = T * (X ^ n - 1) ∧
      (∀ z : F, (NumP ω n P ⟨β, γ, α⟩ (sepsOf t)).eval z = T.eval z * (z ^ n - 1)) ∧
      (PolysDeg2 P (n + 1) (n + 2) → T.natDegree ≤ 4 * n + 6) ∧
      ∀ (ι : G1 → F[X]) (k : VKey) (p : ProofM) (ch : Challenges) (zh l1 piEval : Nat)
        (legacy : Bool),
        AgmRep ι k p P → TrueEvals ω (toF ch.z) p.ev P → toF zh = toF ch.z ^ n - 1 →
        toF l1 = (L1P n).eval (toF ch.z) → toF piEval = P.pi.eval (toF ch.z) →
        toF ch.beta = β → toF ch.gamma = γ → toF ch.alpha = α →
        (⟨toF ch.rangeSep, toF ch.logicSep, toF ch.fixedSep, toF ch.varSep⟩ : Seps F) = sepsOf t →
        quotientOf ι p n = T →
        (evalTerms ι (linearizationTerms k p ch zh l1) - toF ch.u • ι p.zC).eval (toF ch.z) =
          - toF (r0Eval p.ev ch l1 piEval) ∧
        (let D := linPoly ι k p ch zh l1
         let r0 := toF (r0Eval p.ev ch l1 piEval)
         let v := openChal (toF ch.v) (toF ch.vw)
         let pt := openPoint ω (toF ch.z)
         let cnt := openCount legacy
         x • agg (toF ch.u) 2 (fun i =>
              KzgMath.commit x g (agg (v i) (cnt i) (openPolys D P i) /ₘ (X - C (pt i))))
          = agg (toF ch.u) 2 (fun i =>
                agg (v i) (cnt i) (fun j => KzgMath.commit x g (openPolys D P i j))
                + pt i • KzgMath.commit x g (agg (v i) (cnt i) (openPolys D P i) /ₘ (X - C (pt i))))
              - agg (toF ch.u) 2 (fun i => agg (v i) (cnt i) (openEvals r0 p.ev i)) • g) := by
  obtain ⟨-, -, T, hT⟩ := numerator_divisible hn0 hω lay hn P I hrows hconst β γ hγ hz α (sepsOf t)
  refine ⟨T, hT, fun z => eval_of_quotient _ T hT z,
    fun hP => (natDegree_quotient_honest ω n hn0 P _ _ hP T hT).2, ?_⟩
  intro ι k p ch zh l1 piEval legacy A E hzh hl1 hpi hb hg ha hs hq
  subst hb hg ha
  rw [← hs] at hT
  exact verifier_equation_holds g x ι k p ch zh l1 piEval ω n P A E hzh hl1 hpi T hq hT legacy

/-- non-vacuity: on the instance `cLay / cP` (`σ ≠ id`) all hypotheses are satisfiable — for every
    `β` there are `γ` and an accumulator `Z` with the key polynomials interpolating the layout, all
    rows holding, values constant on the classes, `γ` good, `Z` interpolating the running product and
    the honest degree profile -/
example : 0 < 2 ∧ IsPrimitiveRoot (-1 : F) 2 ∧ cLay.gates.size ≤ 2 ∧ sigmaFn cLay (0, 0) = (0, 1) ∧
    ∀ β : F, ∃ γ Z,
      KeyInterp (-1) 2 cLay (withZ cP Z) ∧ (∀ i < 2, rowOKP (-1) 2 cLay (withZ cP Z) i) ∧
      (∀ p q, SameClass cLay p q → wireVal (-1) (withZ cP Z) p = wireVal (-1) (withZ cP Z) q) ∧
      γ ∉ denBadM (-1) 2 cLay (withZ cP Z) β ∧ AccInterp (-1) 2 cLay (withZ cP Z) β γ ∧
      PolysDeg2 (withZ cP Z) (2 + 1) (2 + 2) := by
  refine ⟨cStruct.1, cStruct.2.1, cStruct.2.2, cLay_sigma_nontrivial, fun β => ?_⟩
  obtain ⟨γ, hγ⟩ := c_good_gamma β
  obtain ⟨Z, hd, hZ⟩ := accumulator_exists_core cStruct.2.1 cLay cP β γ
  have e : Z + 0 * (X ^ 2 - 1) = Z := by ring
  have hZ0 := hZ 0
  rw [e] at hZ0
  exact ⟨γ, Z, keyInterp_withZ cKey _, fun i hi => (rowOKP_withZ _ _ _ _ _ _).mpr (cRows i hi),
    fun p q h => by simp only [wireVal_withZ]; exact cConst p q h,
    by rw [denBadM_withZ]; exact hγ, hZ0, cDeg Z hd⟩

/-- **Bridge from the model's notions of a satisfying witness** (mirror of C02
    `soundness_witness`).  Compiled layout `lay`, proving-time composer `c` with canonical witness
    values; wire polynomials interpolating the padded wire table `c.rowVals` on the domain
    (`WireInterp`; true of `blindPoly` with any blinders).  If the model's row check of the compiled
    gates holds on every row of the padded table of `c` (next row cyclic; for `c = lay` and
    `n = lay.paddedSize` this is `lay.sysSat = true`) and `c` has no copy violation against the
    layout (`copyViolation lay c = none`; automatic for `c = lay`), then the hypotheses `rowOKP` and
    "constant on the wiring classes" of `completeness_algebraic` hold. -/
theorem completeness_witness {ω : F} {n : ℕ} (hn0 : 0 < n) (lay c : Composer)
    (hn : lay.gates.size ≤ n) (P : ProverPolys F) (W : WireInterp ω n c P) (hc : ∀ x, c.val x < R)
    (hrows : ∀ i < n, rowHolds (lay.gateAt i) (c.rowVals i).a (c.rowVals i).b (c.rowVals i).c
      (c.rowVals i).d (c.rowVals ((i + 1) % n)).a (c.rowVals ((i + 1) % n)).b
      (c.rowVals ((i + 1) % n)).d (lay.piAt i) = true)
    (hcopy : Composer.copyViolation lay c = none) :
    (∀ i < n, rowOKP ω n lay P i) ∧
    (∀ p q, SameClass lay p q → wireVal ω P p = wireVal ω P q) ∧
    (∀ p, wireVal ω P (sigmaFn lay p) = wireVal ω P p) := by
  have h2 := const_of_copyViolation lay c hn W hcopy
  exact ⟨rows_of_model hn0 lay c W hc hrows, h2, (respects_iff_const lay (wireVal ω P)).mpr h2⟩

/-- the case `c = lay`: a satisfied system (`sysSat`) has the row hypothesis on its padded domain,
    and no copy violation against itself -/
theorem completeness_witness_self (c : Composer) (h : c.sysSat = true) :
    (∀ i < c.paddedSize, rowHolds (c.gateAt i) (c.rowVals i).a (c.rowVals i).b (c.rowVals i).c
      (c.rowVals i).d (c.rowVals ((i + 1) % c.paddedSize)).a
      (c.rowVals ((i + 1) % c.paddedSize)).b (c.rowVals ((i + 1) % c.paddedSize)).d (c.piAt i)
        = true) ∧
    Composer.copyViolation c c = none :=
  ⟨sysSat_rows c h, copyViolation_self c⟩

/-- non-vacuity: the layout `cLay` (with its own witness values `1, 2, −3, 0`) is a satisfied
    system padded to `2`, with canonical values; the constant wire polynomials interpolate it -/
example : cLay.sysSat = true ∧ cLay.paddedSize = 2 ∧ (∀ x, cLay.val x < R) ∧
    WireInterp (-1) 2 cLay cP := by
  refine ⟨by decide +kernel, by decide +kernel, c_val_lt, cWire⟩

/-! ### 4'. the model verifier's own equation -/

/-- **`verifier_accepts`** (current equation, V2/V3).  `right`, `left` are the term lists of the
    model's OWN `verifyTerms` — `VerifierM.verify` returns `.ok` iff
    `[x]·(Σ left) + Σ right = O` (C03 `accept_iff_equation`).  Every point is interpreted by the
    commitment `ι' c = [ι c (x)]g` of the polynomial it commits to: verifier key and accumulator
    (`AgmRep`), wires, opened key polynomials, the generator `↦ 1` and the two opening witnesses `↦`
    the quotients of the aggregated polynomials by `X − z`, `X − ωz` (`OpenRep`; (N4)).  With true
    evaluations, `Num = T·(Xⁿ − 1)` and the shares recombining to `T`, the combination vanishes:
    the honest proof satisfies the verifier's equation, for every trapdoor `x`, every `g`, all
    challenges.  Missing link to `verify = .ok`: (N1) only. -/
theorem verifier_accepts {G : Type*} [AddCommGroup G] [Module F G] (g : G) (x : F) (ι : G1 → F[X])
    (vk : VKey) (g1 : G1) (d : Domain) (roots pis : List Nat) (p : ProofM) (ch : Challenges)
    (l1 piEval : Nat) (right left : List (Nat × G1))
    (hlp : d.lagrangeAndPi roots pis ch.z = some (l1, piEval))
    (hc : verifyTerms vk g1 d roots pis p ch false = some (right, left))
    (n : ℕ) (P : ProverPolys F) (A : AgmRep ι vk p P)
    (E : TrueEvals (toF d.groupGen) (toF ch.z) p.ev P)
    (hzh : toF (d.evaluateVanishing ch.z) = toF ch.z ^ n - 1)
    (hl1 : toF l1 = (L1P n).eval (toF ch.z)) (hpi : toF piEval = P.pi.eval (toF ch.z))
    (T : F[X]) (hq : quotientOf ι p n = T)
    (hT : NumP (toF d.groupGen) n P ⟨toF ch.beta, toF ch.gamma, toF ch.alpha⟩
      ⟨toF ch.rangeSep, toF ch.logicSep, toF ch.fixedSep, toF ch.varSep⟩ = T * (X ^ n - 1))
    (O : OpenRep ι vk g1 p P
      (agg (toF ch.v) 12 (openPolys (linPoly ι vk p ch (d.evaluateVanishing ch.z) l1) P 0) /ₘ
        (X - C (toF ch.z)))
      (agg (toF ch.vw) 4 (openPolys (linPoly ι vk p ch (d.evaluateVanishing ch.z) l1) P 1) /ₘ
        (X - C (toF d.groupGen * toF ch.z)))) :
    x • evalTerms (fun c => KzgMath.commit x g (ι c)) left +
      evalTerms (fun c => KzgMath.commit x g (ι c)) right = 0 :=
  verify_msm_zero g x ι vk g1 d roots pis p ch l1 piEval right left hlp hc n P A E hzh hl1 hpi T hq
    hT O

/-- non-vacuity: a domain of `Domain.new? 2`, `z = 5`, the polynomials `exP2` (two addition rows,
    `T = 0`), a key and a proof with nine distinct points interpreted by `aIota`: every hypothesis
    of `verifier_accepts` holds -/
example : ∃ (d : Domain) (l1 piEval : Nat) (right left : List (Nat × G1)) (W W' : F[X]),
    let ch : Challenges := { (default : Challenges) with z := 5 }
    d.lagrangeAndPi [] [] ch.z = some (l1, piEval) ∧
    verifyTerms aKey (.aff 1 0) d [] [] aProof ch false = some (right, left) ∧
    AgmRep (aIota W W') aKey aProof exP2 ∧
    TrueEvals (toF d.groupGen) (toF ch.z) aProof.ev exP2 ∧
    toF (d.evaluateVanishing ch.z) = toF ch.z ^ 2 - 1 ∧
    toF l1 = (L1P 2).eval (toF ch.z) ∧ toF piEval = exP2.pi.eval (toF ch.z) ∧
    quotientOf (aIota W W') aProof 2 = 0 ∧
    NumP (toF d.groupGen) 2 exP2 ⟨toF ch.beta, toF ch.gamma, toF ch.alpha⟩
      ⟨toF ch.rangeSep, toF ch.logicSep, toF ch.fixedSep, toF ch.varSep⟩ = 0 * (X ^ 2 - 1) ∧
    OpenRep (aIota W W') aKey (.aff 1 0) aProof exP2
      (agg (toF ch.v) 12 (openPolys (linPoly (aIota W W') aKey aProof ch
        (d.evaluateVanishing ch.z) l1) exP2 0) /ₘ (X - C (toF ch.z)))
      (agg (toF ch.vw) 4 (openPolys (linPoly (aIota W W') aKey aProof ch
        (d.evaluateVanishing ch.z) l1) exP2 1) /ₘ (X - C (toF d.groupGen * toF ch.z))) :=
  a_hyps_gen false 12

/-- **the same for the legacy V1 equation** (`verify_legacy`: only `a, b, c, d, σ₁, σ₂, σ₃` are opened
    at `z` besides `D − u·Z`) -/
theorem verifier_accepts_legacy {G : Type*} [AddCommGroup G] [Module F G] (g : G) (x : F)
    (ι : G1 → F[X]) (vk : VKey) (g1 : G1) (d : Domain) (roots pis : List Nat) (p : ProofM)
    (ch : Challenges) (l1 piEval : Nat) (right left : List (Nat × G1))
    (hlp : d.lagrangeAndPi roots pis ch.z = some (l1, piEval))
    (hc : verifyTerms vk g1 d roots pis p ch true = some (right, left))
    (n : ℕ) (P : ProverPolys F) (A : AgmRep ι vk p P)
    (E : TrueEvals (toF d.groupGen) (toF ch.z) p.ev P)
    (hzh : toF (d.evaluateVanishing ch.z) = toF ch.z ^ n - 1)
    (hl1 : toF l1 = (L1P n).eval (toF ch.z)) (hpi : toF piEval = P.pi.eval (toF ch.z))
    (T : F[X]) (hq : quotientOf ι p n = T)
    (hT : NumP (toF d.groupGen) n P ⟨toF ch.beta, toF ch.gamma, toF ch.alpha⟩
      ⟨toF ch.rangeSep, toF ch.logicSep, toF ch.fixedSep, toF ch.varSep⟩ = T * (X ^ n - 1))
    (O : OpenRep ι vk g1 p P
      (agg (toF ch.v) 8 (openPolys (linPoly ι vk p ch (d.evaluateVanishing ch.z) l1) P 0) /ₘ
        (X - C (toF ch.z)))
      (agg (toF ch.vw) 4 (openPolys (linPoly ι vk p ch (d.evaluateVanishing ch.z) l1) P 1) /ₘ
        (X - C (toF d.groupGen * toF ch.z)))) :
    x • evalTerms (fun c => KzgMath.commit x g (ι c)) left +
      evalTerms (fun c => KzgMath.commit x g (ι c)) right = 0 :=
  verify_msm_zero_legacy g x ι vk g1 d roots pis p ch l1 piEval right left hlp hc n P A E hzh hl1
    hpi T hq hT O

/-- non-vacuity: the same instance, with the witness at `z` built from eight polynomials -/
example : ∃ (d : Domain) (l1 piEval : Nat) (right left : List (Nat × G1)) (W W' : F[X]),
    let ch : Challenges := { (default : Challenges) with z := 5 }
    d.lagrangeAndPi [] [] ch.z = some (l1, piEval) ∧
    verifyTerms aKey (.aff 1 0) d [] [] aProof ch true = some (right, left) ∧
    AgmRep (aIota W W') aKey aProof exP2 ∧
    TrueEvals (toF d.groupGen) (toF ch.z) aProof.ev exP2 ∧
    toF (d.evaluateVanishing ch.z) = toF ch.z ^ 2 - 1 ∧
    toF l1 = (L1P 2).eval (toF ch.z) ∧ toF piEval = exP2.pi.eval (toF ch.z) ∧
    quotientOf (aIota W W') aProof 2 = 0 ∧
    NumP (toF d.groupGen) 2 exP2 ⟨toF ch.beta, toF ch.gamma, toF ch.alpha⟩
      ⟨toF ch.rangeSep, toF ch.logicSep, toF ch.fixedSep, toF ch.varSep⟩ = 0 * (X ^ 2 - 1) ∧
    OpenRep (aIota W W') aKey (.aff 1 0) aProof exP2
      (agg (toF ch.v) 8 (openPolys (linPoly (aIota W W') aKey aProof ch
        (d.evaluateVanishing ch.z) l1) exP2 0) /ₘ (X - C (toF ch.z)))
      (agg (toF ch.vw) 4 (openPolys (linPoly (aIota W W') aKey aProof ch
        (d.evaluateVanishing ch.z) l1) exP2 1) /ₘ (X - C (toF d.groupGen * toF ch.z))) :=
  a_hyps_gen true 8

/-! ### 6. the quotient inside `prove` -/

/-- **`quotient_in_prove_complete`.**  The two domains of `prove` (`d` of size `n ≥ 2`, `d8` of size
    `8n`), arbitrary coefficient lists for the key / wire / accumulator / public-input polynomials
    (`polysOf`), whose polynomials satisfy the hypotheses of `completeness_algebraic` for the layout
    `lay` and have the honest lengths (`≤ n + 2` coefficients, accumulator `≤ n + 3`: C06
    `blindPoly_length_le`).  Then for all `α` and separation challenges the list
    `tPoly = ofCoeffs (d8.cosetIfft (quotientEvals …))` that `prove` computes — on exactly the arrays
    `compile` / `prove` build, as in C05 `quotient_in_prove` — represents the quotient `T` of
    `numerator_divisible`; it has at most `4n + 7` entries; for `n ≥ 3` it passes the test
    `tPoly.length > 7n ⇒ circuitUnsatisfied`; and whenever `splitQuotient` succeeds (it fails, with
    the Rust slice panic, only if `tPoly.length ≤ 3n`: degenerate blinders, C01
    `splitQuotient_none_iff`) the four shares are accepted by `commit` for a key of `n + 7`
    points. -/
theorem quotient_in_prove_complete (m : Nat) (d d8 : Domain) (hd : Domain.new? m = some d)
    (hd8 : Domain.new? (8 * d.size) = some d8) (hn2 : 2 ≤ d.size)
    (sel sigma : Array Poly) (aP bP cP dP zP piP : Poly)
    (vh linE : Array Nat) (hvh : vh = (d8.vanishingOverCoset d.size).toArray)
    (hlin : linE = (d8.cosetFft [0, 1]).toArray)
    (hsel : ∀ j, (sel.getD j []).length ≤ d.size + 2)
    (hsig : ∀ j, (sigma.getD j []).length ≤ d.size + 2)
    (ha : aP.length ≤ d.size + 2) (hb : bP.length ≤ d.size + 2) (hc : cP.length ≤ d.size + 2)
    (hdd : dP.length ≤ d.size + 2) (hpi : piP.length ≤ d.size + 2) (hzl : zP.length ≤ d.size + 3)
    (lay : Composer) (hn : lay.gates.size ≤ d.size)
    (I : KeyInterp (toF d.groupGen) d.size lay (polysOf sel sigma aP bP cP dP zP piP))
    (hrows : ∀ i < d.size, rowOKP (toF d.groupGen) d.size lay (polysOf sel sigma aP bP cP dP zP piP) i)
    (hconst : ∀ p q, SameClass lay p q →
      wireVal (toF d.groupGen) (polysOf sel sigma aP bP cP dP zP piP) p =
        wireVal (toF d.groupGen) (polysOf sel sigma aP bP cP dP zP piP) q)
    (beta gamma : Nat)
    (hγ : toF gamma ∉ denBadM (toF d.groupGen) d.size lay (polysOf sel sigma aP bP cP dP zP piP)
      (toF beta))
    (hz : AccInterp (toF d.groupGen) d.size lay (polysOf sel sigma aP bP cP dP zP piP) (toF beta)
      (toF gamma))
    (alpha rSep lSep fSep vSep : Nat) :
    let tPoly := Poly.ofCoeffs (d8.cosetIfft
      (quotientEvals d8.size (sel.map fun p => (d8.cosetFft p).toArray)
        (sigma.map fun p => (d8.cosetFft p).toArray) linE (cosetEvals d8 aP) (cosetEvals d8 bP)
        (cosetEvals d8 cP) (cosetEvals d8 dP) (cosetEvals d8 zP) (d8.cosetFft piP).toArray vh
        (batchInversion ((vh.toList).take 8)).toArray
        (batchInversion (linE.toList.map fun e => fsub e 1)).toArray (fmul d8.sizeInv 8)
        beta gamma alpha rSep lSep fSep vSep))
    ∃ T : F[X],
      NumP (toF d.groupGen) d.size (polysOf sel sigma aP bP cP dP zP piP)
        ⟨toF beta, toF gamma, toF alpha⟩ ⟨toF rSep, toF lSep, toF fSep, toF vSep⟩ =
          T * (X ^ d.size - 1) ∧
      toPoly tPoly = T ∧ tPoly.length ≤ 4 * d.size + 7 ∧
      (3 ≤ d.size → ¬ tPoly.length > 7 * d.size) ∧
      ∀ (k : PKey), d.size + 7 ≤ k.ckLen → ∀ (b12 b13 b14 : Nat) (tl tm th tf : Poly),
        splitQuotient d.size tPoly b12 b13 b14 = some (tl, tm, th, tf) →
        ∃ r, commit4 k tl tm th tf = .ok r := by
  intro tPoly
  have hw := Domain.new?_WF m d hd
  obtain ⟨-, -, T, hT⟩ := numerator_divisible hw.size_pos hw.prim lay hn _ I hrows hconst (toF beta)
    (toF gamma) hγ hz (toF alpha) ⟨toF rSep, toF lSep, toF fSep, toF vSep⟩
  have hP := polysDeg2_of_lengths sel sigma aP bP cP dP zP piP (d.size + 1) (d.size + 2) hsel hsig ha
    hb hc hdd hpi hzl
  have hdeg := (natDegree_quotient_honest _ d.size hw.size_pos _ _ _ hP T hT).2
  obtain ⟨h1, h2, h3⟩ := tPoly_length_le m d d8 hd hd8 sel sigma aP bP cP dP zP piP vh linE hvh hlin
    beta gamma alpha rSep lSep fSep vSep T hT hdeg hn2
  refine ⟨T, hT, h1, h2, h3, fun k hk b12 b13 b14 tl tm th tf hs => ?_⟩
  exact (ProverMask.commitments_fit k d hw hk).2.1 _ b12 b13 b14 tl tm th tf hs h2

/-- non-vacuity: the two domains exist for `n = 2`, and coefficient lists for `exP2` (`T = 0`) with
    the honest lengths -/
example : ∃ d d8, Domain.new? 2 = some d ∧ Domain.new? (8 * d.size) = some d8 ∧ 2 ≤ d.size ∧
    (∀ j, (qSel.getD j []).length ≤ d.size + 2) ∧ (∀ j, (qSigma.getD j []).length ≤ d.size + 2) ∧
    ∀ (ω : F) (β γ α : F) (s : Seps F),
      NumP ω d.size (polysOf qSel qSigma [1] [2] [R - 3] [] [1] []) ⟨β, γ, α⟩ s =
        0 * (X ^ d.size - 1) := by
  obtain ⟨d, d8, hd, hd8, h2⟩ := q_domains
  refine ⟨d, d8, hd, hd8, h2, fun j => ?_, fun j => ?_, fun ω β γ α s => q_numerator ω _ β γ α s⟩
  · exact le_trans (q_sel_len j) (by omega)
  · exact le_trans (q_sigma_len j) (by omega)

/-- **`completeness_model_polys`.**  Domain `d` of `Domain.new?` (size `n`); layout `lay` with at most
    `n` gates and canonical witness values, every row of whose padded table holds (next row cyclic;
    `lay.sysSat` when `n = lay.paddedSize`) — its copy constraints hold by construction
    (`copyViolation lay lay = none`); dense public inputs `piS` and sigma values `sigE` of the layout
    (what `compile` interpolates, C05Perm `sigma_column_evals`); `z` the vector returned by the
    model's `permVec` on the wire columns of the table for the challenges `β, γ` (it returns one
    iff `γ ∉ denBadM β`, `perm_vec_is_accumulator`); ARBITRARY blinders (at most two per wire, three
    for the accumulator, as `prove` draws them).  Then the polynomials of the specification prover
    (`modelPolys`: `ifft` columns, `blindPoly`) satisfy EVERY hypothesis of `completeness_algebraic`
    and have the honest degree profile; consequently, for every `α` and all separation challenges,
    the numerator is `T·(Xⁿ − 1)` with `deg T ≤ 4n + 6`. -/
theorem completeness_model_polys (m : Nat) (d : Domain) (hd : Domain.new? m = some d)
    (lay : Composer) (hn : lay.gates.size ≤ d.size) (hval : ∀ x, lay.val x < R)
    (hrows : ∀ i < d.size, rowHolds (lay.gateAt i) (lay.rowVals i).a (lay.rowVals i).b
      (lay.rowVals i).c (lay.rowVals i).d (lay.rowVals ((i + 1) % d.size)).a
      (lay.rowVals ((i + 1) % d.size)).b (lay.rowVals ((i + 1) % d.size)).d (lay.piAt i) = true)
    (piS : List Nat) (hpil : piS.length = d.size)
    (hpi : ∀ i < d.size, toF (piS.getD i 0) = toF (lay.piAt i))
    (sigE : List (List Nat)) (hsl : ∀ j < 4, (sigE.getD j []).length = d.size)
    (hs : ∀ col < 4, ∀ i < d.size,
      toF ((sigE.getD col []).getD i 0) = idLabel (toF d.groupGen) (sigmaFn lay (col, i)))
    (beta gamma : Nat) (z : List Nat)
    (hz : permVec d.size d.elements (tableCol d.size lay (·.a)) (tableCol d.size lay (·.b))
      (tableCol d.size lay (·.c)) (tableCol d.size lay (·.d)) sigE beta gamma = some z)
    (ba bb bc bd bz : List Nat) (ha : ba.length ≤ 2) (hb : bb.length ≤ 2) (hc : bc.length ≤ 2)
    (hdd : bd.length ≤ 2) (hbz : bz.length ≤ 3) :
    let P := modelPolys d lay.gateAt (tableCol d.size lay (·.a)) (tableCol d.size lay (·.b))
      (tableCol d.size lay (·.c)) (tableCol d.size lay (·.d)) piS sigE z ba bb bc bd bz
    (0 < d.size ∧ IsPrimitiveRoot (toF d.groupGen) d.size ∧
      KeyInterp (toF d.groupGen) d.size lay P ∧
      (∀ i < d.size, rowOKP (toF d.groupGen) d.size lay P i) ∧
      (∀ p q, SameClass lay p q → wireVal (toF d.groupGen) P p = wireVal (toF d.groupGen) P q) ∧
      toF gamma ∉ denBadM (toF d.groupGen) d.size lay P (toF beta) ∧
      AccInterp (toF d.groupGen) d.size lay P (toF beta) (toF gamma) ∧
      PolysDeg2 P (d.size + 1) (d.size + 2)) ∧
    ∀ (α : F) (s : Seps F), ∃ T : F[X],
      NumP (toF d.groupGen) d.size P ⟨toF beta, toF gamma, α⟩ s = T * (X ^ d.size - 1) ∧
      T.natDegree ≤ 4 * d.size + 6 ∧
      ∀ zz : F, (NumP (toF d.groupGen) d.size P ⟨toF beta, toF gamma, α⟩ s).eval zz =
        T.eval zz * (zz ^ d.size - 1) := by
  intro P
  have hB := model_polys_complete m d hd lay hn hval hrows piS hpil hpi sigE hsl hs beta gamma z hz
    ba bb bc bd bz ha hb hc hdd hbz
  obtain ⟨h0, hω, I, hr, hcst, hγ, hacc, hdeg⟩ := hB
  refine ⟨⟨h0, hω, I, hr, hcst, hγ, hacc, hdeg⟩, fun α s => ?_⟩
  obtain ⟨-, -, T, hT⟩ := numerator_divisible h0 hω lay hn P I hr hcst (toF beta) (toF gamma) hγ hacc
    α s
  exact ⟨T, hT, (natDegree_quotient_honest _ d.size h0 P _ _ hdeg T hT).2,
    fun zz => eval_of_quotient _ T hT zz⟩

/-- non-vacuity: the layout `cLay` (two rows on the same four witnesses, `σ ≠ id`) on a domain of
    `Domain.new? 2`, `β = 1`, a suitable `γ`: the model's `permVec` returns a vector and every
    hypothesis holds (the blinder lists are arbitrary) -/
example : ∃ (d : Domain) (gamma : Nat) (z : List Nat), Domain.new? 2 = some d ∧
    cLay.gates.size ≤ d.size ∧ (∀ x, cLay.val x < R) ∧
    (∀ i < d.size, rowHolds (cLay.gateAt i) (cLay.rowVals i).a (cLay.rowVals i).b
      (cLay.rowVals i).c (cLay.rowVals i).d (cLay.rowVals ((i + 1) % d.size)).a
      (cLay.rowVals ((i + 1) % d.size)).b (cLay.rowVals ((i + 1) % d.size)).d (cLay.piAt i) = true) ∧
    ([0, 0] : List Nat).length = d.size ∧
    (∀ i < d.size, toF (([0, 0] : List Nat).getD i 0) = toF (cLay.piAt i)) ∧
    (∀ j < 4, ((mSig d cLay).getD j []).length = d.size) ∧
    (∀ col < 4, ∀ i < d.size, toF (((mSig d cLay).getD col []).getD i 0) =
      idLabel (toF d.groupGen) (sigmaFn cLay (col, i))) ∧
    permVec d.size d.elements (tableCol d.size cLay (·.a)) (tableCol d.size cLay (·.b))
      (tableCol d.size cLay (·.c)) (tableCol d.size cLay (·.d)) (mSig d cLay) 1 gamma = some z :=
  m_hyps

end Plonk.Props.C01Complete
