/-
  Property C14 — fixed-base multiplication returns `[s]G` for canonical `s` only.

  Conventions.  `c` is the composer state before the call, `(res, c')` the result of running the
  model's function on `c`, `w : Nat → Nat` an arbitrary assignment of values to witness indices
  (everything a prover may choose: all accumulators, all digits), `c''` any later state
  (`Extends c' c''`), `c''.rowsHoldW w c.gates.size c'.gates.size` says that the rows appended by
  the call hold under `w`, `toF : Nat → F = ZMod R` interprets values in the BLS scalar field,
  `smulF n P` is the `n`-fold sum of `P` under the field-level twisted Edwards addition law `addF`
  (`EdwardsGroup.lean`), `sdPointF G d n k` the iterated Edwards sum
  `Σ_{i<k} d_(n−1−i) • [2^(n−1−i)]G` of the first `k` ladder rounds (`FixedBase.lean`).

  Theorems: `assertCanonicalJubjubScalar_extends / _sound / _complete`, `fixedBase_extends`,
  `fixedBase_bad_digits`, `fixedBase_sound`, `ladder_sum_is_scalar_mul`, `fixedBase_complete`,
  `fixedBase_complete_digits`, `mulGenerator_error_iff`, `mulGenerator_exact`,
  `mulGenerator_satisfiable_iff`, `no_wrap_depends_on_constants`.
  Everything is proved at full strength; there is no `_partial` theorem.  The group-law corollary
  ("the returned point is `[s]G`") is **unconditional**: it needs associativity of the addition
  law, which is proved in `EdwardsAssoc.lean`; the hypothesis structure `JubjubGroupFacts` (group
  order) is *not* used anywhere in this file.

  Forced hypotheses (findings; none of them is a defect of the Rust code):
    * `WF c` (every stored witness value is reduced and no public input is recorded for a row that
      does not exist yet): an invariant of every state reachable from `initialized`
      (`initialized_wf`, preserved: `fixedBase_extends`).
    * `toF (w 0) = 0` in the soundness statements: the padding slots of the two range checks are
      wired to the constant-zero witness (index 0), whose value is pinned by row 0 of
      `Composer::initialized()`, not by the component.
    * `digits.length = 256`: in Rust the digit vector has type `&[i8; 256]`; the model takes a
      list, and a shorter list would move the closing row (`rows.length`), so the layout would no
      longer be the one of the widget.
    * completeness: `s < c.wit.size` (the scalar witness was allocated), `c.val 0 = 0`.
    * `mulGenerator_satisfiable_iff`: the proposed value `v` is canonical in the field (`v < R`)
      and `s = 0 → v = 0` (multiplying by the zero witness itself is satisfiable for `0` only).
    * the generator only has to be *on the curve* for soundness and completeness of the rows;
      prime order is checked by the host (`mulGenerator_error_iff`) and is what makes the result a
      subgroup element, but no row depends on it.
  Remark (not a soundness issue): on the error `UnsupportedWNAF2k` of
  `append_fixed_base_signed_digits` (a digit outside `{−1,0,1}`; unreachable from
  `component_mul_generator`, whose NAF digits are always admissible) the canonical-scalar rows
  have already been appended — the state is *not* unchanged (`fixedBase_bad_digits`).  The two
  errors of `component_mul_generator` leave the state unchanged (`mulGenerator_error_iff`).
-/
import Plonk.Proofs.FixedBase
import Plonk.Proofs.EdwardsExamples
namespace Plonk.Props.C14
open Plonk Plonk.Composer

/-! ## the canonical-scalar gadget -/

/-- `assert_canonical_jubjub_scalar` only appends: 69 gates (two 252-bit range checks of 34 gates
    and the distance gate) and 253 witnesses; no public input; the last gate is plain; `WF` is
    preserved. -/
theorem assertCanonicalJubjubScalar_extends (c : Composer) (s : Nat) :
    let c' := ((assertCanonicalJubjubScalar s).run c).2
    Extends c c' ∧ c'.gates.size = c.gates.size + 69 ∧ c'.wit.size = c.wit.size + 253 ∧
    c'.pis = c.pis ∧ (∀ i, i + 1 = c'.gates.size → Gate.plain (c'.gateAt i)) ∧
    (WF c → WF c') := by
  intro c'
  have e : c' = canonOut c s JUBJUB_SCALAR_BITS := by
    show ((assertCanonicalJubjubScalar s).run c).2 = _
    rw [assertCanonicalJubjubScalar_eq, canonM_run]
  rw [e]
  exact ⟨canonOut_extends c s _, canonOut_gates_size c s _, canonOut_wit_size c s _,
    canonOut_pis c s _, canonOut_last_plain c s _, canonOut_wf c s _ scalar_bits_even⟩

/-- **Soundness of `assert_canonical_jubjub_scalar`.**  For every assignment `w` with the zero
    witness equal to `0`: if the rows appended by the gadget hold under `w` (read in `c'` or in any
    later state), the canonical value of the scalar witness is below the subgroup order `r_J`. -/
theorem assertCanonicalJubjubScalar_sound (c : Composer) (s : Nat) (hwf : WF c)
    (c'' : Composer) (hext : Extends ((assertCanonicalJubjubScalar s).run c).2 c'')
    (w : Nat → Nat) (h0 : toF (w 0) = 0)
    (h : c''.rowsHoldW w c.gates.size ((assertCanonicalJubjubScalar s).run c).2.gates.size) :
    (toF (w s)).val < RJ := by
  have e : ((assertCanonicalJubjubScalar s).run c).2 = canonOut c s JUBJUB_SCALAR_BITS := by
    rw [assertCanonicalJubjubScalar_eq, canonM_run]
  rw [e] at hext h
  exact Composer.assertCanonicalJubjubScalar_sound c s hwf c'' hext w h0 h

/-- **Completeness of `assert_canonical_jubjub_scalar`.**  When the stored scalar is below `r_J`
    the model's own witness table (read in any later state) satisfies the rows of the gadget. -/
theorem assertCanonicalJubjubScalar_complete (c : Composer) (s : Nat) (hwf : WF c)
    (hs : s < c.wit.size) (hz : c.val 0 = 0) (hv : c.val s < RJ)
    (c'' : Composer) (hext : Extends ((assertCanonicalJubjubScalar s).run c).2 c'') :
    c''.rowsHoldW c''.val c.gates.size ((assertCanonicalJubjubScalar s).run c).2.gates.size := by
  have e : ((assertCanonicalJubjubScalar s).run c).2 = canonOut c s JUBJUB_SCALAR_BITS := by
    rw [assertCanonicalJubjubScalar_eq, canonM_run]
  rw [e] at hext ⊢
  exact Composer.assertCanonicalJubjubScalar_complete c s hwf hs hz hv c'' hext

/-- non-vacuity: on `initialized`, witness 2 holds `6 < r_J`; the honest table satisfies the rows
    and soundness applies to it. -/
example : (toF (((assertCanonicalJubjubScalar 2).run initialized).2.val 2)).val < RJ :=
  assertCanonicalJubjubScalar_sound initialized 2 initialized_wf _ (Extends.refl _) _
    (by rw [(assertCanonicalJubjubScalar_extends initialized 2).1.val_eq (by decide)]; rfl)
    (assertCanonicalJubjubScalar_complete initialized 2 initialized_wf (by decide) (by decide)
      (by decide +kernel) _ (Extends.refl _))

/-! ## what `append_fixed_base_signed_digits` appends -/

/-- **Framing and layout.**  With admissible digits the call succeeds and only appends:
    `69 + 3 + 256 + 3 = 331` gates and `253 + 4·256 + 3 = 1280` witnesses, no public input, last
    gate plain, `WF` preserved.  The ladder's witnesses start at `base = c.wit.size + 253`
    (round `i`: `acc_x, acc_y, accumulated_bit, xy_alpha` at `base + 4i ..`), and the returned
    point is the pair of final accumulators `(base + 1024, base + 1025)`. -/
theorem fixedBase_extends (c : Composer) (s : Nat) (g : Pt) (digits : List Int)
    (hd : ValidDigits digits) :
    let r := (appendFixedBaseSignedDigits s g digits).run c
    r.1 = .ok (c.wit.size + 253 + 1024, c.wit.size + 253 + 1025) ∧
    Extends c r.2 ∧ r.2.gates.size = c.gates.size + 331 ∧ r.2.wit.size = c.wit.size + 1280 ∧
    r.2.pis = c.pis ∧ (∀ i, i + 1 = r.2.gates.size → Gate.plain (r.2.gateAt i)) ∧
    (WF c → WF r.2) := by
  obtain ⟨hlen, hbad⟩ := (validDigits_iff digits).mp hd
  intro r
  have e : r = (.ok (fbBase c s + 4 * fbN, fbBase c s + 4 * fbN + 1), fbState c s g digits) :=
    appendFixedBaseSignedDigits_ok s g digits c hbad hlen
  have hb : fbBase c s = c.wit.size + 253 := canonOut_wit_size c s _
  rw [e, hb]
  exact ⟨rfl, fbState_extends c s g digits, fbState_gates_size c s g digits,
    fbState_wit_size c s g digits hlen, fbState_pis c s g digits,
    fbState_last_plain c s g digits, fbState_wf c s g digits⟩

/-- With an inadmissible digit the call fails with `UnsupportedWNAF2k` — *after* the
    canonical-scalar rows have been appended (the state is the one after
    `assert_canonical_jubjub_scalar`, not `c`). -/
theorem fixedBase_bad_digits (c : Composer) (s : Nat) (g : Pt) (digits : List Int)
    (hbad : ∃ d ∈ digits, d ≠ 0 ∧ d ≠ 1 ∧ d ≠ -1) :
    (appendFixedBaseSignedDigits s g digits).run c =
      (.error .unsupportedWnaf, ((assertCanonicalJubjubScalar s).run c).2) := by
  have hb : digitsBad digits = true := by
    unfold digitsBad
    rw [List.any_eq_true]
    obtain ⟨d, hd, h0, h1, h2⟩ := hbad
    exact ⟨d, hd, by simp [h0, h1, h2]⟩
  rw [appendFixedBaseSignedDigits_bad s g digits c hb, assertCanonicalJubjubScalar_eq, canonM_run]

/-- non-vacuity: the NAF of any scalar is admissible; a vector containing `2` is not, and then
    the state has grown by the 69 canonical-scalar gates. -/
example (k : Nat) : ValidDigits (wnaf2 k) :=
  (validDigits_iff _).mpr ⟨wnaf2_length k, wnaf2_not_bad k⟩
example : ∃ c', (appendFixedBaseSignedDigits 2 exG [2]).run initialized
      = (.error .unsupportedWnaf, c') ∧ c'.gates.size = initialized.gates.size + 69 :=
  ⟨_, fixedBase_bad_digits initialized 2 exG [2] ⟨2, by simp, by decide, by decide, by decide⟩,
    (assertCanonicalJubjubScalar_extends initialized 2).2.1⟩

/-! ## soundness of the ladder -/

open Finset in
/-- **Soundness of `append_fixed_base_signed_digits`**, for *every* assignment.
    Let the generator `g` be on the curve and the host digits admissible (they only fix the
    layout; their values play no role).  If an assignment `w` (zero witness `0`) satisfies all rows
    appended by the call, then with `base = c.wit.size + 253`:
    * the scalar witness is canonical: `(toF (w s)).val < r_J`;
    * there are integer digits `d_i ∈ {−1, 0, 1}`, `i < 256`, **extracted from `w`** (they are the
      increments `acc_bit(i+1) − 2·acc_bit(i)` of the scalar accumulator, most significant first),
      whose `FIXED_BASE_LEADING_ZERO_ROUNDS = 3` leading ones vanish and which recompose the
      scalar **over ℤ**: `Σ d_i·2^i = (toF (w s)).val` — no wrap modulo `r`, so no digit vector
      encodes `s + k·r` or `s + k·r_J` for `k ≠ 0`;
    * the point accumulator of every round `k ≤ 256` is the iterated Edwards sum
      `Σ_{i<k} d_(255−i) • [2^(255−i)]g`;
    * the returned point `(base + 1024, base + 1025)` carries exactly `[s]g`
      (`smulF (toF (w s)).val (toFP g)`): it is the same for every admissible digit vector, not
      only for the NAF, and it is unique. -/
theorem fixedBase_sound (c : Composer) (s : Nat) (g : Pt) (digits : List Int) (hwf : WF c)
    (hg : onCurve g = true) (hd : ValidDigits digits)
    (c'' : Composer) (hext : Extends ((appendFixedBaseSignedDigits s g digits).run c).2 c'')
    (w : Nat → Nat) (h0 : toF (w 0) = 0)
    (h : c''.rowsHoldW w c.gates.size ((appendFixedBaseSignedDigits s g digits).run c).2.gates.size) :
    let base := c.wit.size + 253
    (toF (w s)).val < RJ ∧
    ∃ d : Nat → ℤ,
      (∀ i < 256, d i = -1 ∨ d i = 0 ∨ d i = 1) ∧
      (∀ i < 256, toF (w (base + 4 * (i + 1) + 2)) - 2 * toF (w (base + 4 * i + 2))
          = ((d (255 - i) : ℤ) : F)) ∧
      (∀ j < Generated.FIXED_BASE_LEADING_ZERO_ROUNDS, d (255 - j) = 0) ∧
      (∑ i ∈ range 256, d i * 2 ^ i = ((toF (w s)).val : ℤ)) ∧
      (∀ k ≤ 256, (toF (w (base + 4 * k)), toF (w (base + 4 * k + 1)))
          = sdPointF (toFP g) d 256 k) ∧
      (toF (w (base + 1024)), toF (w (base + 1025))) = smulF (toF (w s)).val (toFP g) := by
  obtain ⟨hlen, hbad⟩ := (validDigits_iff digits).mp hd
  rw [appendFixedBaseSignedDigits_ok s g digits c hbad hlen] at hext h
  have hb : fbBase c s = c.wit.size + 253 := canonOut_wit_size c s _
  have := Composer.fixedBase_sound c s g digits hwf hg hlen c'' hext w h0 h
  rw [hb] at this
  exact this

/-- the field-level iterated sum is the scalar multiple by the accumulated integer, and the
    full sum of any digit function is `[Σ d_i·2^i]G` — the group-law step of `fixedBase_sound`,
    stated on its own (unconditional: associativity is proved). -/
theorem ladder_sum_is_scalar_mul {G : PtF} (hG : OnCurveP G) (d : Nat → ℤ) (n : Nat) :
    sdPointF G d n n = zsmulF (∑ i ∈ Finset.range n, d i * 2 ^ i) G := by
  rw [sdPointF_eq hG, sdPartZ_full]

/-- non-vacuity of `ladder_sum_is_scalar_mul`: a curve point exists -/
example : OnCurveP (toFP exG) := (onCurve_iff_P exG).mp exG_on_curve

/-! ## completeness of the ladder -/

/-- **Completeness of `append_fixed_base_signed_digits`.**  For a stored scalar below `r_J`, an
    on-curve generator and the digits the host actually uses (`wnaf2` of the stored scalar), the
    model's own witness table — read in `c'` or any later state — satisfies all rows. -/
theorem fixedBase_complete (c : Composer) (s : Nat) (g : Pt) (hwf : WF c)
    (hs : s < c.wit.size) (hz : c.val 0 = 0) (hg : onCurve g = true) (hv : c.val s < RJ)
    (c'' : Composer)
    (hext : Extends ((appendFixedBaseSignedDigits s g (wnaf2 (c.val s))).run c).2 c'') :
    c''.rowsHoldW c''.val c.gates.size
      ((appendFixedBaseSignedDigits s g (wnaf2 (c.val s))).run c).2.gates.size := by
  rw [appendFixedBaseSignedDigits_ok s g _ c (wnaf2_not_bad _) (wnaf2_length _)] at hext ⊢
  exact fixedBase_complete_naf c s g hwf hs hz hg hv c'' hext

/-- the same for *any* admissible digit vector that recomposes the scalar with three leading
    zero rounds (`sdAccZ d 256 k` is the integer accumulator after `k` rounds, most significant
    digit first) -/
theorem fixedBase_complete_digits (c : Composer) (s : Nat) (g : Pt) (digits : List Int)
    (hwf : WF c) (hs : s < c.wit.size) (hz : c.val 0 = 0) (hg : onCurve g = true)
    (hd : ValidDigits digits)
    (hLz : sdAccZ (fun i => digits.getD i 0) 256 Generated.FIXED_BASE_LEADING_ZERO_ROUNDS = 0)
    (hfin : sdAccZ (fun i => digits.getD i 0) 256 256 = (c.val s : ℤ))
    (hv : c.val s < RJ) (c'' : Composer)
    (hext : Extends ((appendFixedBaseSignedDigits s g digits).run c).2 c'') :
    c''.rowsHoldW c''.val c.gates.size
      ((appendFixedBaseSignedDigits s g digits).run c).2.gates.size := by
  obtain ⟨hlen, hbad⟩ := (validDigits_iff digits).mp hd
  rw [appendFixedBaseSignedDigits_ok s g digits c hbad hlen] at hext ⊢
  refine Composer.fixedBase_complete c s g digits hwf hs hz hg hlen ?_ hLz hfin hv c'' hext
  intro i
  by_cases hi : i < digits.length
  · rw [List.getD_eq_getElem _ _ hi]; exact hd.2 _ (List.getElem_mem hi)
  · rw [List.getD_eq_default _ _ (by omega)]; exact Or.inr (Or.inl rfl)

/-- non-vacuity (and the two theorems together): on `initialized` with scalar witness 2 (value
    `6 < r_J`) and the curve point `exG`, the honest table satisfies the rows, hence by soundness
    the returned point carries `[6]·exG`. -/
example :
    let c' := ((appendFixedBaseSignedDigits 2 exG (wnaf2 (initialized.val 2))).run initialized).2
    (toF (c'.val (initialized.wit.size + 253 + 1024)),
      toF (c'.val (initialized.wit.size + 253 + 1025))) = smulF 6 (toFP exG) := by
  intro c'
  have hd : ValidDigits (wnaf2 (initialized.val 2)) :=
    (validDigits_iff _).mpr ⟨wnaf2_length _, wnaf2_not_bad _⟩
  have hx := (fixedBase_extends initialized 2 exG _ hd).2.1
  have h6 : initialized.val 2 = 6 := by decide +kernel
  have hrows := fixedBase_complete initialized 2 exG initialized_wf (by decide) (by decide)
    exG_on_curve (by decide +kernel) _ (Extends.refl _)
  have hs := fixedBase_sound initialized 2 exG _ initialized_wf exG_on_curve hd _ (Extends.refl _)
    _ (by rw [hx.val_eq (by decide)]; rfl) hrows
  obtain ⟨-, d, -, -, -, -, -, hpt⟩ := hs
  rw [hx.val_eq (show 2 < initialized.wit.size by decide), h6] at hpt
  have : (toF 6).val = 6 := val_toF_of_lt (by decide +kernel)
  rw [this] at hpt
  exact hpt

/-! ## `component_mul_generator` -/

/-- **Host-side decision logic of `component_mul_generator`.**
    * `JubJubGeneratorNotPrimeOrder` is returned iff `Z = 0`, or the point is not on the curve, or
      it is not of prime order;
    * `JubJubScalarMalformed` is returned iff the generator is accepted and the stored scalar is
      `≥ r_J`;
    * in both cases the composer state is unchanged;
    * otherwise the call succeeds (no other error is possible: the NAF digits are admissible) and
      behaves as `append_fixed_base_signed_digits` on the affine generator and the NAF of the
      stored scalar. -/
theorem mulGenerator_error_iff (c : Composer) (s : Nat) (gen : Ext) :
    let r := (componentMulGenerator s gen).run c
    (r.1 = .error .generatorNotPrime ↔
      (gen.z = 0 ∨ gen.onCurve = false ∨ gen.primeOrder = false)) ∧
    (r.1 = .error .scalarMalformed ↔
      ((gen.z ≠ 0 ∧ gen.onCurve = true ∧ gen.primeOrder = true) ∧ RJ ≤ c.val s)) ∧
    ((∃ e, r.1 = .error e) → r.2 = c) ∧
    ((gen.z ≠ 0 ∧ gen.onCurve = true ∧ gen.primeOrder = true) → c.val s < RJ →
      r = (appendFixedBaseSignedDigits s (genAffine gen) (wnaf2 (c.val s))).run c ∧
      ∃ p, r.1 = .ok p) := by
  intro r
  have hr : r = _ := componentMulGenerator_run s gen c
  have hk := genOk_iff gen
  by_cases h1 : genOk gen = true
  · have h1' := hk.mp h1
    have hne : ¬ (gen.z = 0 ∨ gen.onCurve = false ∨ gen.primeOrder = false) := by
      rintro (h | h | h) <;> simp [h] at h1'
    by_cases h2 : RJ ≤ c.val s
    · rw [if_neg (by simp [h1]), if_pos h2] at hr
      rw [hr]
      refine ⟨⟨fun h => by simp at h, fun h => absurd h hne⟩, ⟨fun _ => ⟨h1', h2⟩, fun _ => rfl⟩,
        fun _ => rfl, fun _ h => absurd h2 (by omega)⟩
    · rw [if_neg (by simp [h1]), if_neg h2] at hr
      rw [hr]
      refine ⟨⟨fun h => by simp at h, fun h => absurd h hne⟩,
        ⟨fun h => by simp at h, fun h => absurd h.2 h2⟩, fun ⟨e, he⟩ => by simp at he,
        fun _ _ => ⟨?_, _, rfl⟩⟩
      exact (appendFixedBaseSignedDigits_ok s _ _ c (wnaf2_not_bad _) (wnaf2_length _)).symm
  · have h1f : genOk gen = false := by simpa using h1
    have hbad : gen.z = 0 ∨ gen.onCurve = false ∨ gen.primeOrder = false := by
      by_contra hc
      apply h1
      rw [hk]
      refine ⟨fun h => hc (Or.inl h), ?_, ?_⟩
      · cases h : gen.onCurve
        · exact absurd (Or.inr (Or.inl h)) hc
        · rfl
      · cases h : gen.primeOrder
        · exact absurd (Or.inr (Or.inr h)) hc
        · rfl
    rw [if_pos h1f] at hr
    rw [hr]
    refine ⟨⟨fun _ => hbad, fun _ => rfl⟩, ⟨fun h => by simp at h, fun h => ?_⟩, fun _ => rfl,
      fun h => ?_⟩
    · exact absurd (hk.mpr h.1) h1
    · exact absurd (hk.mpr h) h1

/-- non-vacuity: the extended form of `exG` is an accepted generator (on the curve, `Z = 1`,
    prime order), the identity is rejected. -/
example : genOk (Ext.ofAffine exG) = true ∧ genOk Ext.id = false := by decide +kernel

/-- **C14, property form.**  Let `component_mul_generator(s, gen)` be called in a well-formed
    state in which the scalar witness `s` is allocated and the zero witness holds `0`.
    * If the call succeeds — i.e. (`mulGenerator_error_iff`) the generator is accepted and the
      stored scalar is canonical — then with `G` the affine generator and `p` the returned point:
      (completeness) the model's own table satisfies the appended rows, and (soundness) **every**
      assignment `w` satisfying them has a canonical scalar, `(toF (w s)).val < r_J`, and carries
      exactly `[(toF (w s)).val]·G` on `p`.  Hence no signed-digit assignment whatsoever — in
      particular none encoding the scalar plus a multiple of `r` or `r_J` — yields another point.
    * Conversely the rows cannot be satisfied with a non-canonical scalar witness (first
      conclusion of the soundness part), and the host refuses to build the circuit for one. -/
theorem mulGenerator_exact (c : Composer) (s : Nat) (gen : Ext) (hwf : WF c)
    (hs : s < c.wit.size) (hz : c.val 0 = 0) (p : Pt) (c' : Composer)
    (hrun : (componentMulGenerator s gen).run c = (.ok p, c')) :
    (gen.z ≠ 0 ∧ gen.onCurve = true ∧ gen.primeOrder = true) ∧ c.val s < RJ ∧
    onCurve (genAffine gen) = true ∧ Extends c c' ∧ WF c' ∧
    p = (c.wit.size + 253 + 1024, c.wit.size + 253 + 1025) ∧
    (∀ c'', Extends c' c'' → c''.rowsHoldW c''.val c.gates.size c'.gates.size) ∧
    (∀ c'', Extends c' c'' → ∀ w : Nat → Nat, toF (w 0) = 0 →
      c''.rowsHoldW w c.gates.size c'.gates.size →
        (toF (w s)).val < RJ ∧
        (toF (w p.1), toF (w p.2)) = smulF (toF (w s)).val (toFP (genAffine gen))) := by
  obtain ⟨h1, hv, hp, hc'⟩ := componentMulGenerator_ok_inv c s gen p c' hrun
  have hb : fbBase c s = c.wit.size + 253 := canonOut_wit_size c s _
  have hg := genOk_on_curve gen h1
  rw [hb] at hp
  subst hc'
  refine ⟨(genOk_iff gen).mp h1, hv, hg, fbState_extends c s _ _, fbState_wf c s _ _ hwf, hp,
    fun c'' hext => fixedBase_complete_naf c s _ hwf hs hz hg hv c'' hext, ?_⟩
  intro c'' hext w h0 hrows
  obtain ⟨r1, d, -, -, -, -, -, r2⟩ :=
    Composer.fixedBase_sound c s _ _ hwf hg (wnaf2_length _) c'' hext w h0 hrows
  rw [hb] at r2
  rw [hp]
  exact ⟨r1, r2⟩

/-- **C14, "satisfiable exactly when".**  Take the circuit produced by a successful call and any
    canonical field value `v < r` proposed for the scalar witness `s` (`v = 0` if `s` is the zero
    witness itself).  There is an assignment of *all* witnesses — digits and accumulators
    included — that gives `s` the value `v`, the zero witness the value `0`, and satisfies the
    appended rows **iff `v < r_J`**; and every such assignment carries `[v]·G` on the returned
    point.  (The layout does not depend on the stored witness values, so this speaks about the
    compiled circuit, not about the particular run.) -/
theorem mulGenerator_satisfiable_iff (c : Composer) (s : Nat) (gen : Ext) (hwf : WF c)
    (hs : s < c.wit.size) (p : Pt) (c' : Composer)
    (hrun : (componentMulGenerator s gen).run c = (.ok p, c'))
    (v : Nat) (hvR : v < R) (hs0 : s = 0 → v = 0) :
    ((∃ w : Nat → Nat, w s = v ∧ w 0 = 0 ∧ c'.rowsHoldW w c.gates.size c'.gates.size) ↔
      v < RJ) ∧
    (∀ w : Nat → Nat, w s = v → w 0 = 0 → c'.rowsHoldW w c.gates.size c'.gates.size →
      (toF (w p.1), toF (w p.2)) = smulF v (toFP (genAffine gen))) := by
  obtain ⟨h1, -, hp, hc'⟩ := componentMulGenerator_ok_inv c s gen p c' hrun
  have hg := genOk_on_curve gen h1
  subst hc'
  refine ⟨fbState_satisfiable_iff c s _ _ hwf hs hg (wnaf2_length _) v hvR hs0, ?_⟩
  intro w hws hw0 hrows
  obtain ⟨-, d, -, -, -, -, -, r2⟩ :=
    Composer.fixedBase_sound c s _ _ hwf hg (wnaf2_length _) _ (Extends.refl _) w
      (by rw [hw0]; simp) hrows
  rw [hws, val_toF_of_lt hvR] at r2
  rw [hp]
  exact r2

/-- non-vacuity: `component_mul_generator(2, exG)` on `initialized` succeeds. -/
example : ∃ p c', (componentMulGenerator 2 (Ext.ofAffine exG)).run initialized = (.ok p, c') := by
  have hr := componentMulGenerator_run 2 (Ext.ofAffine exG) initialized
  have g1 : ¬ (genOk (Ext.ofAffine exG) = false) := by decide +kernel
  have g2 : ¬ (RJ ≤ initialized.val 2) := by decide +kernel
  rw [if_neg g1, if_neg g2] at hr
  exact ⟨_, _, hr⟩

/-- non-vacuity of `mulGenerator_satisfiable_iff` and both of its directions on that circuit:
    the value `5 < r_J` is satisfiable for the scalar witness, the value `r_J` is not. -/
example : ∃ p c', (componentMulGenerator 2 (Ext.ofAffine exG)).run initialized = (.ok p, c') ∧
    (∃ w : Nat → Nat, w 2 = 5 ∧ w 0 = 0 ∧
      c'.rowsHoldW w initialized.gates.size c'.gates.size) ∧
    ¬ (∃ w : Nat → Nat, w 2 = RJ ∧ w 0 = 0 ∧
      c'.rowsHoldW w initialized.gates.size c'.gates.size) := by
  have hr := componentMulGenerator_run 2 (Ext.ofAffine exG) initialized
  have g1 : ¬ (genOk (Ext.ofAffine exG) = false) := by decide +kernel
  have g2 : ¬ (RJ ≤ initialized.val 2) := by decide +kernel
  rw [if_neg g1, if_neg g2] at hr
  refine ⟨_, _, hr, ?_, ?_⟩
  · exact (mulGenerator_satisfiable_iff initialized 2 _ initialized_wf (by decide) _ _ hr 5
      (by decide +kernel) (by decide)).1.mpr (by decide +kernel)
  · rw [(mulGenerator_satisfiable_iff initialized 2 _ initialized_wf (by decide) _ _ hr RJ
      (by decide +kernel) (by decide)).1]
    exact Nat.lt_irrefl _

/-! ## the no-wrap inequality depends on the extracted constants -/

/-- The soundness proof (`fixedBase_sound` → `signed_digits_no_wrap_generated`) uses exactly the
    following facts about the constants extracted from `fixed_base.rs`; they are re-checked by the
    kernel whenever `Generated.lean` changes.  With `FIXED_BASE_LEADING_ZERO_ROUNDS` lowered below
    `2` the first conjunct is false (third conjunct: with one pinned round `2^255 + 2^252 > r`), so
    the build breaks; likewise if `JUBJUB_SCALAR_BITS` no longer covers `r_J` (soundness), or if
    more rounds are pinned than the 253-digit NAF of a canonical scalar leaves free (last
    conjunct, completeness). -/
theorem no_wrap_depends_on_constants :
    (2 ^ (Generated.FIXED_BASE_SIGNED_DIGIT_ROUNDS - Generated.FIXED_BASE_LEADING_ZERO_ROUNDS)
      + 2 ^ Generated.JUBJUB_SCALAR_BITS ≤ R) ∧
    (2 ^ (Generated.FIXED_BASE_SIGNED_DIGIT_ROUNDS - 2) + 2 ^ Generated.JUBJUB_SCALAR_BITS ≤ R) ∧
    ¬ (2 ^ (Generated.FIXED_BASE_SIGNED_DIGIT_ROUNDS - 1) + 2 ^ Generated.JUBJUB_SCALAR_BITS ≤ R) ∧
    2 ≤ Generated.FIXED_BASE_LEADING_ZERO_ROUNDS ∧
    Generated.FIXED_BASE_LEADING_ZERO_ROUNDS ≤ Generated.FIXED_BASE_SIGNED_DIGIT_ROUNDS ∧
    Generated.FIXED_BASE_SIGNED_DIGIT_ROUNDS = 256 ∧
    RJ ≤ 2 ^ Generated.JUBJUB_SCALAR_BITS ∧
    Generated.JUBJUB_SCALAR_BITS + 1
      ≤ Generated.FIXED_BASE_SIGNED_DIGIT_ROUNDS - Generated.FIXED_BASE_LEADING_ZERO_ROUNDS :=
  ⟨no_wrap, no_wrap_two, no_wrap_fails_below_two, by decide, leading_le_rounds, rfl,
    RJ_le_two_pow, by decide⟩

/-- non-vacuity / sharpness: the wrap the bound excludes really exists as an integer — with all
    256 rounds free, `r` itself is a sum of signed digits (`|Σ| < 2^256`, `r < 2^255`), so without
    the leading pins the closing equality would hold modulo `r` only. -/
example : R < 2 ^ 255 ∧ RJ < R ∧ R - RJ < 2 ^ 255 := by decide +kernel

end Plonk.Props.C14
