import Plonk.Model.Verifier
namespace Plonk.Props.C04
open Plonk
theorem placeholder_consts : Generated.V_MAX_DEGREE = 11 ∧ Generated.V_MAX_DEGREE_LEGACY = 7 := by decide
end Plonk.Props.C04
