/-
  C04 — "A proof binds its statement: public inputs, circuit, label, version."

  What is proved (model functions `VerifierM.verify`, `statementOps`, `verifierChallenges`,
  `Domain.lagrangeAndPi`):

  * `len_mismatch_rejected` — a public-input vector of the wrong length yields `.piLen`, never
    `.ok`; `verify` is a total function into `{ok, piLen, reject}` (no panic in the model).
  * `pi_changes_transcript`, `label_changes_transcript`, `circuit_changes_transcript` — any change
    of a public input (value mod `r`, order, length), of the label, of `constraints`, of `vk.n` or
    of a transcript-bound verifier-key commitment changes the operation list the challenges are
    computed from (whatever else is changed at the same time).
  * `version_matrix` — how the protocol version enters: V1 = (legacy transcript, legacy equation),
    V2 = (legacy transcript, current equation), V3 = (V3 transcript, current equation); acceptance
    depends on the version through these two flags only (`version_enters_through_two_flags`), and
    the V3 transcript differs from the legacy one exactly by binding `s_sigma_4`.
  * `pi_eval_is_barycentric`, `pi_eval_injective` — the `PI(z)` used in the equation is
    `(zⁿ−1)/n · Σ piᵢ/(ω^{−idxᵢ}·z − 1)`, and changing exactly one public input changes it
    (for `z` off the domain and off that input's root).

  Not proved: "every other combination yields an error" as a statement about *acceptance* is a
  soundness claim that rests on the transcript hash (random-oracle style) and on KZG binding; what
  is machine-checked is that every such change alters the hashed operation list (and, for public
  inputs, the value `PI(z)` for fixed challenges), and the exact error outcome for length mismatch.
  Scalars are compared modulo `r` (non-canonical representatives are identified by `to_bytes`);
  points must be decodable for point-level conclusions (byte-level statements need nothing).
-/
import Plonk.Proofs.VerifierAlgebra
import Plonk.Proofs.TranscriptInj

namespace Plonk.Props.C04
open Plonk

/-- **wrong number of public inputs: error `piLen`, never acceptance** -/
theorem len_mismatch_rejected (v : VerifierM) (x : Nat) (p : ProofM) (pis : List Nat) (ver : PVersion)
    (h : pis.length ≠ v.piIndexes.length) :
    v.verify x p pis ver = .piLen ∧ v.verify x p pis ver ≠ .ok := by
  rw [len_mismatch v x p pis ver h]; exact ⟨rfl, by decide⟩

example : ([1, 2] : List Nat).length ≠ ({ (default : VerifierM) with piIndexes := [0] }).piIndexes.length := by
  decide

/-- the outcome is always one of the three values (the model has no panic path) -/
theorem outcome_total (v : VerifierM) (x : Nat) (p : ProofM) (pis : List Nat) (ver : PVersion) :
    v.verify x p pis ver = .ok ∨ v.verify x p pis ver = .piLen ∨ v.verify x p pis ver = .reject := by
  cases v.verify x p pis ver <;> simp

/-- **changing the public inputs changes the transcript**: different residues, a different order or
    a different length of `pis` give a different operation list, whatever label / key / proof. -/
theorem pi_changes_transcript {label label' : List Nat} {k k' : VKey} {c c' : Nat} {v3 : Bool}
    {pis pis' : List Nat} {p p' : ProofM} (h : pis.map (· % R) ≠ pis'.map (· % R)) :
    statementOps label k c v3 pis p ≠ statementOps label' k' c' v3 pis' p' := by
  intro he
  have := statementOps_bytes_inj he
  unfold statementBytes at this
  simp only [StatementBytes.mk.injEq] at this
  exact h this.2.2.2.2.1

-- one value changed / order swapped / length changed (values canonical)
example : ([1, 2, 3] : List Nat).map (· % R) ≠ [1, 5, 3].map (· % R) := by decide +kernel
example : ([1, 2, 3] : List Nat).map (· % R) ≠ [2, 1, 3].map (· % R) := by decide +kernel
example : ([1, 2, 3] : List Nat).map (· % R) ≠ [1, 2].map (· % R) := by decide +kernel
example : ([1, 2, 3] : List Nat).map (· % R) ≠ [1, 2, 3, 0].map (· % R) := by decide +kernel

/-- **changing the label changes the transcript** -/
theorem label_changes_transcript {label label' : List Nat} {k k' : VKey} {c c' : Nat} {v3 : Bool}
    {pis pis' : List Nat} {p p' : ProofM} (h : label ≠ label') :
    statementOps label k c v3 pis p ≠ statementOps label' k' c' v3 pis' p' := by
  intro he
  have := statementOps_bytes_inj he
  unfold statementBytes at this
  simp only [StatementBytes.mk.injEq] at this
  exact h this.1

/-- **changing the circuit changes the transcript**: a different `constraints`, a different
    `vk.n`, or (for decodable keys) a different transcript-bound commitment. -/
theorem circuit_changes_transcript {label label' : List Nat} {k k' : VKey} {c c' : Nat} {v3 : Bool}
    {pis pis' : List Nat} {p p' : ProofM} (hk : k.Decodable) (hk' : k'.Decodable)
    (h : c ≠ c' ∨ k.n ≠ k'.n ∨ k.boundComms v3 ≠ k'.boundComms v3) :
    statementOps label k c v3 pis p ≠ statementOps label' k' c' v3 pis' p' := by
  intro he
  have hb := statementOps_bytes_inj he
  unfold statementBytes at hb
  simp only [StatementBytes.mk.injEq] at hb
  obtain ⟨-, hc, hn, hkc, -⟩ := hb
  rcases h with h | h | h
  · exact h hc
  · exact h hn
  · apply h
    cases v3
    · exact map_toCompressed_inj (fun q hq => hk q (boundComms_false_subset k q hq))
        (fun q hq => hk' q (boundComms_false_subset k' q hq)) hkc
    · exact map_toCompressed_inj hk hk' hkc

-- non-vacuity: two decodable keys that differ in one selector commitment
example : ({ (default : VKey) with ql := G1.gen } : VKey).boundComms false ≠ (default : VKey).boundComms false := by
  decide

/-- acceptance depends on the version only through the transcript flag and the equation flag -/
theorem version_enters_through_two_flags (v : VerifierM) (x : Nat) (p : ProofM) (pis : List Nat)
    (ver : PVersion) :
    v.verify x p pis ver =
      verifyGiven v x p pis (verifierChallenges v.label v.vk v.constraints (ver == .v3) pis p) (ver == .v1) :=
  verify_eq_given v x p pis ver

/-- **version matrix**: (transcript flag `v3`, equation flag `legacy`) per version -/
theorem version_matrix (v : VerifierM) (x : Nat) (p : ProofM) (pis : List Nat) :
    v.verify x p pis .v1 =
      verifyGiven v x p pis (verifierChallenges v.label v.vk v.constraints false pis p) true ∧
    v.verify x p pis .v2 =
      verifyGiven v x p pis (verifierChallenges v.label v.vk v.constraints false pis p) false ∧
    v.verify x p pis .v3 =
      verifyGiven v x p pis (verifierChallenges v.label v.vk v.constraints true pis p) false :=
  ⟨verify_eq_given v x p pis .v1, verify_eq_given v x p pis .v2, verify_eq_given v x p pis .v3⟩

/-- V1 and V2 share the transcript (they differ in the equation only); the V3 transcript differs
    from it exactly in what is absorbed under `"s_sigma_4"` -/
theorem version_transcripts (label : List Nat) (k : VKey) (c : Nat) (pis : List Nat) (p : ProofM) :
    (statementOps label k c true pis p = statementOps label k c false pis p ↔
      k.s4.toCompressed = k.s1.toCompressed) := by
  constructor
  · intro h
    unfold statementOps at h
    rw [List.append_assoc, List.append_assoc] at h
    have hb := (List.append_inj h (by rw [baseOps_length, baseOps_length])).1
    rw [baseOps_eq, baseOps_eq] at hb
    simp only [List.cons.injEq, TOp.msg.injEq, true_and, and_true, if_true, Bool.false_eq_true, if_false] at hb
    exact hb
  · intro h
    unfold statementOps
    rw [baseOps_eq, baseOps_eq]
    simp only [if_true, Bool.false_eq_true, if_false, h]

/-- **the model's `PI(z)` is the sparse barycentric sum** -/
theorem pi_eval_is_barycentric (d : Domain) (roots pis : List Nat) (z l1 pi : Nat)
    (h : d.lagrangeAndPi roots pis z = some (l1, pi)) :
    toF pi = piEvalF (roots.map toF) (pis.map toF) (toF z) (toF (d.evaluateVanishing z)) (toF d.sizeInv) :=
  lagrangeAndPi_pi d roots pis z l1 pi h

/-- **`PI(z)` is injective in each single public input**: for `z` outside the domain (`zh ≠ 0`,
    `n⁻¹ ≠ 0`) and off the `j`-th root, changing exactly the `j`-th value changes `PI(z)`. -/
theorem pi_eval_injective (rs es : List F) (z zh ninv : F) (j : Nat) (hj : j < es.length)
    (hjr : j < rs.length) (x : F) (hx : x ≠ es[j]) (hden : rs[j] * z - 1 ≠ 0) (hzh : zh ≠ 0)
    (hn : ninv ≠ 0) : piEvalF rs (es.set j x) z zh ninv ≠ piEvalF rs es z zh ninv :=
  piEvalF_set_ne rs es z zh ninv j hj hjr x hx hden hzh hn

example : ∃ (rs es : List F) (z zh ninv x : F) (j : Nat) (hj : j < es.length) (hjr : j < rs.length),
    x ≠ es[j] ∧ rs[j] * z - 1 ≠ 0 ∧ zh ≠ 0 ∧ ninv ≠ 0 :=
  ⟨[1, 1], [0, 0], 0, 1, 1, 1, 1, by decide, by decide, by simp, by simp, one_ne_zero, one_ne_zero⟩

end Plonk.Props.C04
