/-
  C20 — "KZG commitments and openings are exact."

  TWO LEVELS — read this before relying on a statement.

  (A) ABSTRACT GROUP LEVEL (§1–§5).  `G` is an arbitrary additive commutative group with a
      `Module F G` structure, `F = ZMod R` the BLS12-381 scalar field; `g : G` is a
      non-degenerate generator, `Nondeg F g : ∀ a, a • g = 0 → a = 0` (prime order).  The SRS is
      `srs x g i = xⁱ • g`, a commitment is `KzgMath.commit x g p = Σᵢ pᵢ • srs x g i`.
      These theorems are NOT about the executable curve code `G1.add / G1.smul / G1.msum` of
      `Plonk/Model/Bls.lean`: the elliptic-curve group law of that model is not proved, it is
      tied to the `dusk-bls12_381` crate (and hence to this algebra) only by the differential
      test harness.  What IS taken from the executable model at this level is all the scalar /
      polynomial code: polynomials are the model's coefficient lists (`toPoly`), the witnesses are
      the model's `Poly.ruffini` and `aggregateWitness`, the true values are the model's
      `Poly.evaluate`, and the flattened evaluation is the model's `flatten`.
      The verifier's equation is the *trapdoor form* used by the model's `batchCheck`
      (`[x]·ΣuⁱWᵢ = Σuⁱ(Cᵢ + zᵢWᵢ) − (Σuⁱeᵢ)·g`); §5 (`pairing_trapdoor`) shows that for an
      abstract bilinear non-degenerate pairing this is the pairing equation
      `e(−W, [x]h)·e(C, h) = 1` of the source.
      Theorems of this level: `commit_eval commit_add commit_zero commit_smul commit_injective
      commit_msm_shape single_open_iff single_open_iff_poly aggregate_open_iff
      aggregate_open_complete aggregate_open_one_wrong aggregate_open_generic batch_check_iff
      modelDefect_def batch_check_complete batch_check_generic pairing_trapdoor
      pairing_check_iff` (`aggregate_flatten_eval` links the flattened evaluation to the
      executable `flatten`).

  (B) EXECUTABLE LEVEL (§6–§9).  Statements about the functions the driver runs
      (`SRS.setup nextNonzero powersOf truncateKey SRS.trim commit flatten aggregateWitness
      batchCheck` of `Plonk/Model/Kzg.lean`), with the G1/G2 operations left uninterpreted
      (the statements say which scalars / points / error codes are handed to them).
      Theorems of this level: `setup_consistent setup_rejects_zero_degree powers_of_spec
      next_nonzero_spec trim_prefix trim_enough trim_setup_cases lite_views_agree
      commit_degree_guard
      empty_or_mismatched_rejected batch_check_decision flatten_linear aggregate_flatten_eval
      aggregate_witness_is_quotient`.

  Scope notes (nothing below is weakened, these delimit what the statements say):
  * Openings are characterised for the HONEST witness (the quotient computed by the model).
    `single_check_general` (Proofs/KzgMath) gives the equation for an arbitrary witness
    `W = [w]g`: `(x − z)·w = p(x) − e`; that no adversary can find such a `w` for a wrong `e`
    without knowing `x` is the computational (q-SDH) assumption and is out of scope.
  * "for all but at most `k − 1` challenges": the challenges are Fiat–Shamir outputs; the
    theorems are the algebraic Schwartz–Zippel statements, the random-oracle argument is out of
    scope.
  * Finding (edge case, model ≠ source only where the source panics): `truncateKey powers 1` on
    a TWO-point key asks for 3 points; the model's `take` returns the 2 available ones whereas
    `powers_of_g[..=2]` would panic.  Unreachable through `SRS.setup`, whose keys have at least
    `1 + 6 + 1 = 8` points (`setup_consistent`), hence the explicit hypothesis
    `2 < powers.length` in the length clause of `trim_prefix`.
  * `flatten` on an empty aggregate is outside the statement (`comms ≠ []`): the source computes
    `len − 1` on `usize` there (recorded earlier as a suspected defect, hook-only reachability).
-/
import Plonk.Proofs.KzgMath
import Plonk.Proofs.KzgModel

namespace Plonk.Props.C20
open Plonk Polynomial
open Plonk.KzgMath (Nondeg srs agg msmZip ofList Pairing)

variable {G : Type*} [AddCommGroup G] [Module F G]

/-! ## 1. (A) commitments are the linear image of the coefficient vector -/

/-- a commitment `Σᵢ pᵢ • [xⁱ]g` is the evaluation at the secret, in the exponent -/
theorem commit_eval (x : F) (g : G) (p : F[X]) : KzgMath.commit x g p = p.eval x • g :=
  KzgMath.commit_eval x g p
example : KzgMath.commit (2 : F) (1 : F) (X ^ 2 + C 3) = 7 := by
  rw [commit_eval]; simp; norm_num

/-- additive -/
theorem commit_add (x : F) (g : G) (p q : F[X]) :
    KzgMath.commit x g (p + q) = KzgMath.commit x g p + KzgMath.commit x g q :=
  KzgMath.commit_add x g p q

/-- identity for the zero polynomial -/
theorem commit_zero (x : F) (g : G) : KzgMath.commit x g (0 : F[X]) = 0 :=
  KzgMath.commit_zero x g

/-- homogeneous -/
theorem commit_smul (x : F) (g : G) (a : F) (p : F[X]) :
    KzgMath.commit x g (a • p) = a • KzgMath.commit x g p :=
  KzgMath.commit_smul x g a p

/-- two commitments coincide exactly when the polynomials agree at the secret -/
theorem commit_injective {g : G} (hg : Nondeg F g) (x : F) (p q : F[X]) :
    KzgMath.commit x g p = KzgMath.commit x g q ↔ p.eval x = q.eval x :=
  KzgMath.commit_eq_iff hg x p q
example : Nondeg F (1 : F) := nondeg_one

/-- the zipped MSM `Σ (cᵢ, Pᵢ)` over `coeffs.zip key` (the shape of the executable
    `G1.msum (p.zip ck)`), for a key `[x⁰]g … [x^(n−1)]g` that is long enough, is the commitment
    of the polynomial with these coefficients -/
theorem commit_msm_shape (x : F) (g : G) (cs : List F) (n : ℕ) (h : cs.length ≤ n) :
    msmZip (cs.zip ((List.range n).map (srs x g))) = KzgMath.commit x g (ofList cs) := by
  rw [KzgMath.msmZip_zip_srs x g cs n h, KzgMath.commit_eval]
example : msmZip (([3, 0, 1] : List F).zip ((List.range 4).map (srs (2 : F) (1 : F)))) = (7 : F) := by
  rw [commit_msm_shape _ _ _ _ (by simp), commit_eval]; simp [ofList]; norm_num

/-! ## 2. (A) single opening -/

/-- **Single opening.**  `p` a coefficient list of the model, witness = commitment of the model's
    `Poly.ruffini p z`: the verifier's equation `[x]W = C + [z]W − [e]g` holds exactly when the
    claimed value `e` is the value `Poly.evaluate p z` computed by the model (as field
    elements; for reduced `e` this is equality of the numbers). -/
theorem single_open_iff {g : G} (hg : Nondeg F g) (x : F) (p : Poly) (z e : Nat) :
    x • KzgMath.commit x g (toPoly (Poly.ruffini p z))
        = KzgMath.commit x g (toPoly p) + toF z • KzgMath.commit x g (toPoly (Poly.ruffini p z))
          - toF e • g
      ↔ toF e = toF (Poly.evaluate p z) :=
  single_open_model hg x p z e

/-- the true value passes … -/
example : (7 : F) • KzgMath.commit 7 (1 : F) (toPoly (Poly.ruffini [1, 2, 3] 5))
    = KzgMath.commit 7 (1 : F) (toPoly [1, 2, 3])
      + toF 5 • KzgMath.commit 7 (1 : F) (toPoly (Poly.ruffini [1, 2, 3] 5)) - toF 86 • 1 := by
  have ev : Poly.evaluate [1, 2, 3] 5 = 86 := by decide +kernel
  exact (single_open_iff nondeg_one 7 [1, 2, 3] 5 86).mpr (by rw [ev])
/-- … and a wrong value does not -/
example : ¬ ((7 : F) • KzgMath.commit 7 (1 : F) (toPoly (Poly.ruffini [1, 2, 3] 5))
    = KzgMath.commit 7 (1 : F) (toPoly [1, 2, 3])
      + toF 5 • KzgMath.commit 7 (1 : F) (toPoly (Poly.ruffini [1, 2, 3] 5)) - toF 85 • 1) := by
  have ev : Poly.evaluate [1, 2, 3] 5 = 86 := by decide +kernel
  rw [single_open_iff nondeg_one, ev, toF_inj_of_lt (by decide +kernel) (by decide +kernel)]
  decide

/-- the same for arbitrary polynomials of `F[X]` and the quotient by `X − z` -/
theorem single_open_iff_poly {g : G} (hg : Nondeg F g) (x z e : F) (p : F[X]) :
    x • KzgMath.commit x g (p /ₘ (X - C z))
        = KzgMath.commit x g p + z • KzgMath.commit x g (p /ₘ (X - C z)) - e • g
      ↔ e = p.eval z :=
  KzgMath.single_open_iff hg x z e p

/-! ## 3. (A) aggregated opening at one point -/

/-- **Aggregated opening.**  Polynomials `polys` (model lists) opened at `z` with challenge `v`;
    witness = commitment of the model's `aggregateWitness polys z v`; the verifier flattens the
    commitments to `Σ vʲ Cⱼ` and the claimed evaluations to `Σ vʲ eⱼ`.  The check holds exactly
    when `Σⱼ vʲ (eⱼ − pⱼ(z)) = 0`, the true values `pⱼ(z)` being the model's `Poly.evaluate`. -/
theorem aggregate_open_iff {g : G} (hg : Nondeg F g) (x : F) (polys : List Poly)
    (evals : ℕ → Nat) (z v : Nat) :
    x • KzgMath.commit x g (toPoly (aggregateWitness polys z v))
        = agg (toF v) polys.length (fun j => KzgMath.commit x g (toPoly (polys.getD j [])))
          + toF z • KzgMath.commit x g (toPoly (aggregateWitness polys z v))
          - agg (toF v) polys.length (fun j => toF (evals j)) • g
      ↔ agg (toF v) polys.length
          (fun j => toF (evals j) - toF (Poly.evaluate (polys.getD j []) z)) = 0 :=
  aggregate_open_model hg x polys evals z v

/-- the flattened evaluation used above is what the model's `flatten` returns -/
theorem aggregate_flatten_eval (comms : List G1) (evals : List Nat) (v : Nat) (hne : comms ≠ [])
    (hlen : evals.length = comms.length) :
    toF (flatten comms evals v).2 = agg (toF v) evals.length (fun j => toF (evals.getD j 0)) :=
  flatten_snd comms evals v hne hlen
example : ([G1.inf, G1.gen] : List G1) ≠ [] ∧ ([5, 6] : List Nat).length = ([G1.inf, G1.gen] : List G1).length :=
  ⟨by simp, rfl⟩

/-- completeness: true evaluations pass, for every challenge -/
theorem aggregate_open_complete {g : G} (hg : Nondeg F g) (x : F) (polys : List Poly)
    (evals : ℕ → Nat) (z v : Nat)
    (h : ∀ j < polys.length, toF (evals j) = toF (Poly.evaluate (polys.getD j []) z)) :
    x • KzgMath.commit x g (toPoly (aggregateWitness polys z v))
        = agg (toF v) polys.length (fun j => KzgMath.commit x g (toPoly (polys.getD j [])))
          + toF z • KzgMath.commit x g (toPoly (aggregateWitness polys z v))
          - agg (toF v) polys.length (fun j => toF (evals j)) • g :=
  (aggregate_open_model hg x polys evals z v).mpr (modelDefect_eq_zero_of_true polys evals z v h)
example : ∀ j < ([[1, 2], [3]] : List Poly).length,
    toF ((fun j => Poly.evaluate (([[1, 2], [3]] : List Poly).getD j []) 4) j)
      = toF (Poly.evaluate (([[1, 2], [3]] : List Poly).getD j []) 4) := fun _ _ => rfl

/-- exactly one wrong evaluation and a non-zero challenge: the check fails -/
theorem aggregate_open_one_wrong {g : G} (hg : Nondeg F g) (x : F) (polys : List Poly)
    (evals : ℕ → Nat) (z v : Nat) (hv : toF v ≠ 0) (j0 : ℕ) (hj0 : j0 < polys.length)
    (hw : toF (evals j0) ≠ toF (Poly.evaluate (polys.getD j0 []) z))
    (hoth : ∀ j < polys.length, j ≠ j0 →
      toF (evals j) = toF (Poly.evaluate (polys.getD j []) z)) :
    ¬ (x • KzgMath.commit x g (toPoly (aggregateWitness polys z v))
        = agg (toF v) polys.length (fun j => KzgMath.commit x g (toPoly (polys.getD j [])))
          + toF z • KzgMath.commit x g (toPoly (aggregateWitness polys z v))
          - agg (toF v) polys.length (fun j => toF (evals j)) • g) := by
  rw [aggregate_open_iff hg]
  exact KzgMath.agg_single_ne_zero (toF v) hv _ _ j0 hj0 (sub_ne_zero.mpr hw)
    (fun j hj hne => by rw [hoth j hj hne, sub_self])
/-- hypotheses satisfiable: two polynomials, second evaluation wrong -/
example : toF 2 ≠ 0 ∧ (1 : ℕ) < ([[1, 2], [3]] : List Poly).length ∧
    toF ((fun j => if j = 0 then 9 else 4) 1)
      ≠ toF (Poly.evaluate (([[1, 2], [3]] : List Poly).getD 1 []) 4) ∧
    ∀ j < ([[1, 2], [3]] : List Poly).length, j ≠ 1 →
      toF ((fun j => if j = 0 then 9 else 4) j)
        = toF (Poly.evaluate (([[1, 2], [3]] : List Poly).getD j []) 4) := by
  have e0 : Poly.evaluate [1, 2] 4 = 9 := by decide +kernel
  have e1 : Poly.evaluate [3] 4 = 3 := by decide +kernel
  refine ⟨?_, by decide, ?_, ?_⟩
  · rw [Ne, toF_eq_zero_of_lt (by decide +kernel)]; decide
  · show toF 4 ≠ toF (Poly.evaluate [3] 4)
    rw [e1, Ne, toF_inj_of_lt (by decide +kernel) (by decide +kernel)]; decide
  · intro j hj hne
    have : j = 0 := by simp at hj; omega
    subst this
    show toF 9 = toF (Poly.evaluate [1, 2] 4)
    rw [e0]

/-- for all but at most `k − 1` challenges `v` (`k` the number of polynomials) the aggregated
    check passes exactly when EVERY claimed evaluation is the true value -/
theorem aggregate_open_generic {g : G} (hg : Nondeg F g) (x : F) (polys : List Poly)
    (evals : ℕ → Nat) (z : Nat) :
    ∃ bad : Finset F, bad.card ≤ polys.length - 1 ∧ ∀ v : Nat, toF v ∉ bad →
      (x • KzgMath.commit x g (toPoly (aggregateWitness polys z v))
          = agg (toF v) polys.length (fun j => KzgMath.commit x g (toPoly (polys.getD j [])))
            + toF z • KzgMath.commit x g (toPoly (aggregateWitness polys z v))
            - agg (toF v) polys.length (fun j => toF (evals j)) • g
        ↔ ∀ j < polys.length, toF (evals j) = toF (Poly.evaluate (polys.getD j []) z)) := by
  obtain ⟨bad, hc, hb⟩ := KzgMath.agg_zero_generic polys.length
    (fun j => toF (evals j) - toF (Poly.evaluate (polys.getD j []) z))
  refine ⟨bad, hc, fun v hv => ?_⟩
  rw [aggregate_open_iff hg, hb (toF v) hv]
  exact forall₂_congr (fun j _ => sub_eq_zero)

/-! ## 4. (A) batched opening over several points -/

/-- **Batched opening.**  `n` points `zᵢ`; at point `i` the polynomials `polys i` with claimed
    evaluations `evals i j`, flattened with `vᵢ`, witness = commitment of the model's
    `aggregateWitness`; outer challenge `u`.  The accumulated equation of `batch_check`
    `[x]·ΣuⁱWᵢ = Σuⁱ(Cᵢ + [zᵢ]Wᵢ) − [Σuⁱeᵢ]g` holds exactly when `Σᵢ uⁱ δᵢ = 0` with
    `δᵢ = Σⱼ vᵢʲ (eᵢⱼ − pᵢⱼ(zᵢ))` (`modelDefect`). -/
theorem batch_check_iff {g : G} (hg : Nondeg F g) (x u : F) (n : ℕ) (polys : ℕ → List Poly)
    (evals : ℕ → ℕ → Nat) (z v : ℕ → Nat) :
    x • agg u n (fun i => KzgMath.commit x g (toPoly (aggregateWitness (polys i) (z i) (v i))))
        = agg u n (fun i =>
            agg (toF (v i)) (polys i).length
              (fun j => KzgMath.commit x g (toPoly ((polys i).getD j [])))
            + toF (z i) • KzgMath.commit x g (toPoly (aggregateWitness (polys i) (z i) (v i))))
          - agg u n (fun i => agg (toF (v i)) (polys i).length (fun j => toF (evals i j))) • g
      ↔ agg u n (fun i => modelDefect (polys i) (evals i) (z i) (v i)) = 0 :=
  batch_check_model hg x u n polys evals z v

/-- `modelDefect` spelled out -/
theorem modelDefect_def (polys : List Poly) (evals : ℕ → Nat) (z v : Nat) :
    modelDefect polys evals z v
      = agg (toF v) polys.length
          (fun j => toF (evals j) - toF (Poly.evaluate (polys.getD j []) z)) := rfl

/-- completeness: if all claimed evaluations are true the batch passes, for all challenges -/
theorem batch_check_complete {g : G} (hg : Nondeg F g) (x u : F) (n : ℕ) (polys : ℕ → List Poly)
    (evals : ℕ → ℕ → Nat) (z v : ℕ → Nat)
    (h : ∀ i < n, ∀ j < (polys i).length,
      toF (evals i j) = toF (Poly.evaluate ((polys i).getD j []) (z i))) :
    x • agg u n (fun i => KzgMath.commit x g (toPoly (aggregateWitness (polys i) (z i) (v i))))
        = agg u n (fun i =>
            agg (toF (v i)) (polys i).length
              (fun j => KzgMath.commit x g (toPoly ((polys i).getD j [])))
            + toF (z i) • KzgMath.commit x g (toPoly (aggregateWitness (polys i) (z i) (v i))))
          - agg u n (fun i => agg (toF (v i)) (polys i).length (fun j => toF (evals i j))) • g := by
  rw [batch_check_iff hg]
  rw [KzgMath.agg_congr u n (h := fun _ => 0)
    (fun i hi => modelDefect_eq_zero_of_true _ _ _ _ (h i hi)), KzgMath.agg_zero_fun]
example : ∀ i < 2, ∀ j < ((fun _ => [[1, 2], [3]]) i : List Poly).length,
    toF ((fun i j => Poly.evaluate (((fun _ => [[1, 2], [3]]) i : List Poly).getD j []) (i + 4)) i j)
      = toF (Poly.evaluate (((fun _ => [[1, 2], [3]]) i : List Poly).getD j []) ((fun i => i + 4) i)) :=
  fun _ _ _ _ => rfl

/-- soundness for generic `u`: outside an exceptional set of at most `n − 1` values of `u`, the
    batch passes exactly when every per-point defect vanishes; in particular a batch containing
    an aggregated proof with `δᵢ ≠ 0` fails for all but at most `n − 1` values of `u` -/
theorem batch_check_generic {g : G} (hg : Nondeg F g) (x : F) (n : ℕ) (polys : ℕ → List Poly)
    (evals : ℕ → ℕ → Nat) (z v : ℕ → Nat) :
    ∃ bad : Finset F, bad.card ≤ n - 1 ∧ ∀ u, u ∉ bad →
      (x • agg u n (fun i =>
            KzgMath.commit x g (toPoly (aggregateWitness (polys i) (z i) (v i))))
          = agg u n (fun i =>
              agg (toF (v i)) (polys i).length
                (fun j => KzgMath.commit x g (toPoly ((polys i).getD j [])))
              + toF (z i) • KzgMath.commit x g (toPoly (aggregateWitness (polys i) (z i) (v i))))
            - agg u n (fun i => agg (toF (v i)) (polys i).length (fun j => toF (evals i j))) • g
        ↔ ∀ i < n, modelDefect (polys i) (evals i) (z i) (v i) = 0) := by
  obtain ⟨bad, hc, hb⟩ := KzgMath.agg_zero_generic n
    (fun i => modelDefect (polys i) (evals i) (z i) (v i))
  exact ⟨bad, hc, fun u hu => by rw [batch_check_iff hg, hb u hu]⟩

/-! ## 5. (A) the trapdoor decision is the pairing check -/

section
variable {r : ℕ} [Fact r.Prime] {G₁ H T : Type*} [AddCommGroup G₁] [Module (ZMod r) G₁]
  [AddCommGroup H] [Module (ZMod r) H] [CommGroup T]

/-- for a bilinear pairing into a group of exponent `r` with `e(g, h) ≠ 1`, and `A`, `B` in the
    span of `g`: `e(A, [x]h) · e(B, h) = 1 ⇔ [x]A + B = 0` -/
theorem pairing_trapdoor (E : Pairing r G₁ H T) {g : G₁} {h : H} (hgh : E.e g h ≠ 1)
    (x a b : ZMod r) :
    E.e (a • g) (x • h) * E.e (b • g) h = 1 ↔ x • (a • g) + b • g = 0 :=
  KzgMath.pairing_trapdoor E hgh x a b

/-- the form of `batch_check`: `e(−W, [x]h) · e(C, h) = 1 ⇔ [x]W = C` -/
theorem pairing_check_iff (E : Pairing r G₁ H T) {g : G₁} {h : H} (hgh : E.e g h ≠ 1)
    (x w c : ZMod r) :
    E.e (-(w • g)) (x • h) * E.e (c • g) h = 1 ↔ x • (w • g) = c • g :=
  KzgMath.pairing_check_iff E hgh x w c

end

/-- non-vacuity: a pairing with `e(g,h) ≠ 1` exists (`G₁ = H = ZMod 3`, `T` = its additive group
    written multiplicatively, `e(a,b) = a·b`) -/
example : ∃ E : Pairing 3 (ZMod 3) (ZMod 3) (Multiplicative (ZMod 3)), E.e 1 1 ≠ 1 := by
  refine ⟨{ e := fun a b => Multiplicative.ofAdd (a * b)
            map_add_left := fun P P' Q => by rw [add_mul]; rfl
            map_smul_left := fun a P Q => by
              rw [← ofAdd_nsmul, smul_eq_mul, nsmul_eq_mul, ZMod.natCast_zmod_val, mul_assoc]
            map_smul_right := fun a P Q => by
              rw [← ofAdd_nsmul, smul_eq_mul, nsmul_eq_mul, ZMod.natCast_zmod_val]
              congr 1; ring
            pow_card := fun P Q => by
              rw [← ofAdd_nsmul, nsmul_eq_mul]
              have : ((3 : ℕ) : ZMod 3) = 0 := ZMod.natCast_self 3
              rw [this, zero_mul]; rfl }, ?_⟩
  intro h
  have h' : ((1 : ZMod 3) * 1) = 0 := Multiplicative.ofAdd.injective h
  exact absurd h' (by decide)

/-! ## 6. (B) generated public parameters -/

/-- `setup` fails with `DegreeIsZero` exactly for `max_degree < 1` -/
theorem setup_rejects_zero_degree (m : Nat) (draws : List Nat) :
    SRS.setup m draws = .error .degreeIsZero ↔ m < 1 :=
  setup_degreeIsZero_iff m draws
example : SRS.setup 0 [1, 2, 3] = .error .degreeIsZero := (setup_rejects_zero_degree 0 _).mpr (by decide)

/-- **Consistent parameters.**  A successful `setup` uses ONE secret `x = s.x`, the first
    non-zero draw (reduced, `≠ 0`); the commit key has `max_degree + blind + 1` points and its
    `i`-th point is `G1.smul (xⁱ mod r) g` for the single generator `g = s.g`; the opening key's
    G2 elements are `h` and `G2.smul x h` for the same `x`. -/
theorem setup_consistent {m : Nat} {draws : List Nat} {s : SRS} (h : SRS.setup m draws = .ok s) :
    1 ≤ m ∧
    (∃ rest, nextNonzero draws = some (s.x, rest)) ∧ s.x ≠ 0 ∧ s.x < R ∧
    s.powers.length = m + Generated.ADDED_BLINDING_DEGREE + 1 ∧
    s.powers = (List.range (m + Generated.ADDED_BLINDING_DEGREE + 1)).map
      (fun i => G1.smul (s.x ^ i % R) s.g) ∧
    s.powers = (powersOf s.x (m + Generated.ADDED_BLINDING_DEGREE)).map (fun k => G1.smul k s.g) ∧
    s.xh = G2.smul s.x s.h := by
  obtain ⟨hm, sg, sh, d1, d2, d3, h1, _, _, _, _, hxh, hp⟩ := setup_ok h
  have hx := setup_secret_nonzero h
  exact ⟨hm, ⟨d1, h1⟩, hx.1, hx.2.1, setup_powers_length h, setup_powers_eq h, hp, hxh⟩
/-- a successful run (first draw zero, skipped) -/
example : (SRS.setup 1 [0, 5, R, 7, 9]).toBool = true := by decide +kernel

/-- `powers_of(x, n) = [x⁰, …, xⁿ]` -/
theorem powers_of_spec (x n : Nat) :
    powersOf x n = (List.range (n + 1)).map (fun i => x ^ i % R) ∧
    (powersOf x n).map toF = (List.range (n + 1)).map (fun i => toF x ^ i) :=
  ⟨powersOf_eq x n, map_toF_powersOf x n⟩
example : powersOf 3 3 = [1, 3, 9, 27] := by decide +kernel

/-- `random_nonzero_bls_scalar`: skips zero draws, returns the first non-zero one -/
theorem next_nonzero_spec {ds : List Nat} {x : Nat} {rest : List Nat}
    (h : nextNonzero ds = some (x, rest)) :
    ∃ pre d, ds = pre ++ d :: rest ∧ (∀ a ∈ pre, a % R = 0) ∧ x = d % R ∧ x ≠ 0 ∧ x < R :=
  nextNonzero_some h
example : nextNonzero [0, R, 5, 6] = some (5, [6]) := by decide +kernel

/-! ## 7. (B) trimming -/

/-- **Trimming keeps a prefix.**  `truncate(d)`: `TruncatedDegreeIsZero` exactly for `d = 0`,
    `TruncatedDegreeTooLarge` exactly for `0 < d` beyond the key's degree, otherwise exactly the
    prefix of `(if d = 1 then 2 else d) + 1` points; `trim(n) = truncate(n + blind)`. -/
theorem trim_prefix (s : SRS) (n : Nat) (powers : List G1) (d : Nat) :
    SRS.trim s n = truncateKey s.powers (n + Generated.ADDED_BLINDING_DEGREE) ∧
    (truncateKey powers d = .error .truncatedDegreeIsZero ↔ d = 0) ∧
    (truncateKey powers d = .error .truncatedDegreeTooLarge ↔ d ≠ 0 ∧ d > powers.length - 1) ∧
    (∀ ck, truncateKey powers d = .ok ck ↔
      d ≠ 0 ∧ d ≤ powers.length - 1 ∧ ck = powers.take ((if d = 1 then 2 else d) + 1)) ∧
    (∀ ck, truncateKey powers d = .ok ck → ck <+: powers ∧
      (2 < powers.length → ck.length = (if d = 1 then 2 else d) + 1)) :=
  ⟨rfl, truncateKey_zero_iff _ _, truncateKey_tooLarge_iff _ _, truncateKey_ok_iff _ _,
    fun _ h => ⟨truncateKey_prefix h, truncateKey_length h⟩⟩
example : truncateKey [G1.inf, G1.gen, G1.inf, G1.gen, G1.inf] 3 = .ok [G1.inf, G1.gen, G1.inf, G1.gen] := by
  decide
example : truncateKey [G1.inf, G1.gen, G1.inf] 3 = .error .truncatedDegreeTooLarge := by decide

/-- **The trimmed key is long enough.**  As in `Compiler::compile`: a circuit with `c`
    constraints is proved over the domain `size = next_pow2(c)`, the key is trimmed to
    `n = next_pow2(c + padding)`.  On a generated SRS with `n ≤ max_degree` the trim succeeds,
    is a prefix with exactly `n + blind + 1` points, supports degree `n + blind ≥ size + 6`, and
    `commit` accepts every polynomial of degree `≤ size + 6` (the prover commits degrees up to
    `size + 1, size + 2, size + 5, size + 6`). -/
theorem trim_enough {m : Nat} {draws : List Nat} {s : SRS} (hs : SRS.setup m draws = .ok s)
    (c : Nat) (hfit : nextPow2' (c + Generated.CIRCUIT_SIZE_PADDING) ≤ m) :
    ∃ ck, SRS.trim s (nextPow2' (c + Generated.CIRCUIT_SIZE_PADDING)) = .ok ck ∧
      ck <+: s.powers ∧
      ck.length = nextPow2' (c + Generated.CIRCUIT_SIZE_PADDING)
        + Generated.ADDED_BLINDING_DEGREE + 1 ∧
      nextPow2' c + 6 ≤ ck.length - 1 ∧
      ∀ p : Poly, Poly.degree p ≤ nextPow2' c + 6 →
        Plonk.commit ck p = .ok (G1.msum (p.zip ck)) :=
  Plonk.trim_enough hs c hfit
example : (SRS.setup 16 [3, 5, 7]).toBool = true ∧
    nextPow2' (5 + Generated.CIRCUIT_SIZE_PADDING) ≤ 16 := by
  constructor <;> decide +kernel

/-- trimming a generated SRS succeeds exactly up to `max_degree` -/
theorem trim_setup_cases {m : Nat} {draws : List Nat} {s : SRS} (h : SRS.setup m draws = .ok s)
    (n : Nat) :
    (n ≤ m ∧ SRS.trim s n = .ok (s.powers.take (n + Generated.ADDED_BLINDING_DEGREE + 1)) ∧
      (s.powers.take (n + Generated.ADDED_BLINDING_DEGREE + 1)).length
        = n + Generated.ADDED_BLINDING_DEGREE + 1) ∨
    (m < n ∧ SRS.trim s n = .error .truncatedDegreeTooLarge) :=
  trim_setup h n

/-- the powers-free views used by the trapdoor prover (`SRS.setupLite`, `truncateLen`) agree with
    the full functions: same errors, same `g, h, [x]h, x`, and the reported lengths are the
    lengths of the full / truncated key -/
theorem lite_views_agree (m : Nat) (draws : List Nat) (powers : List G1) (d : Nat) :
    SRS.setupLite m draws
      = (SRS.setup m draws).map (fun s => ({ s with powers := [] }, s.powers.length)) ∧
    truncateLen powers.length d = (truncateKey powers d).map List.length :=
  ⟨setupLite_eq m draws, truncateLen_eq powers d⟩
example : truncateLen 5 3 = .ok 4 := by decide

/-! ## 8. (B) commitment degree guard -/

/-- **Degree guard.**  `commit` fails, with `PolynomialDegreeTooLarge`, exactly when the degree
    of the polynomial exceeds the key's degree; otherwise it returns the MSM of the zipped
    (coefficient, point) pairs, and the coefficients that the zip drops (raw list longer than
    the key) are all zero. -/
theorem commit_degree_guard (ck : List G1) (p : Poly) :
    (Plonk.commit ck p = .error .polynomialDegreeTooLarge ↔ Poly.degree p > ck.length - 1) ∧
    (∀ e, Plonk.commit ck p = .error e → e = .polynomialDegreeTooLarge) ∧
    (Poly.degree p ≤ ck.length - 1 → Plonk.commit ck p = .ok (G1.msum (p.zip ck))) ∧
    (ck ≠ [] → Poly.degree p ≤ ck.length - 1 → ∀ i, ck.length ≤ i → p.getD i 0 = 0) := by
  refine ⟨?_, ?_, ?_, ?_⟩
  · rw [commit_error_iff]; simp
  · intro e he; exact ((commit_error_iff ck p e).mp he).1
  · intro h; exact (commit_ok_iff ck p _).mpr ⟨h, rfl⟩
  · intro hck h i hi; exact commit_guard_no_loss hck h hi
example : Plonk.commit [G1.gen, G1.gen] [1, 2, 3] = .error .polynomialDegreeTooLarge :=
  (commit_degree_guard _ _).1.mpr (by decide)
example : Poly.degree [1, 2, 0] ≤ ([G1.gen, G1.gen] : List G1).length - 1 := by decide

/-! ## 9. (B) batch check, flattening, aggregate witness -/

/-- **Empty or mismatched batches are rejected** with `ProofVerificationError`, before anything
    else, and only those are. -/
theorem empty_or_mismatched_rejected (s : SRS) (t : Transcript) (points : List Nat)
    (proofs : List KProof) :
    batchCheck s t points proofs = .error .proofVerificationError
      ↔ proofs = [] ∨ points.length ≠ proofs.length :=
  batchCheck_reject_iff s t points proofs
example (s : SRS) (t : Transcript) : batchCheck s t [] [] = .error .proofVerificationError :=
  (empty_or_mismatched_rejected s t [] []).mpr (Or.inl rfl)
example (s : SRS) (t : Transcript) (p : KProof) :
    batchCheck s t [0] [p, p] = .error .proofVerificationError :=
  (empty_or_mismatched_rejected s t [0] [p, p]).mpr (Or.inr (by simp))

/-- on a well-formed batch the outcome is `Ok` or `PairingCheckFailure`, decided by the single
    G1 equation `[x]·ΣuⁱWᵢ = Σuⁱ(Cᵢ + zᵢWᵢ) − (Σuⁱeᵢ)·g` with `u` the transcript challenge and
    `uⁱ` taken from `powersOf u` -/
theorem batch_check_decision (s : SRS) (t : Transcript) (points : List Nat)
    (proofs : List KProof) (hne : proofs ≠ []) (hlen : points.length = proofs.length) :
    (batchCheck s t points proofs = .ok () ∨
      batchCheck s t points proofs = .error .pairingCheckFailure) ∧
    (batchCheck s t points proofs = .ok () ↔
      (let u := (batchChallenge t points proofs).2
       let rows := (proofs.zip (powersOf u (proofs.length - 1))).zip points
       G1.smul s.x (G1.msum (rows.map fun r => (r.1.2, r.1.1.witness)))
        = G1.add (G1.msum (rows.flatMap fun r =>
              [(r.1.2, r.1.1.comm), (fmul r.1.2 r.2, r.1.1.witness)]))
            (G1.neg (G1.smul (rows.foldl (fun acc r => fadd acc (fmul r.1.2 r.1.1.eval)) 0)
              s.g)))) := by
  refine ⟨?_, batchCheck_ok_iff s t points proofs hne hlen⟩
  rcases batchCheck_cases s t points proofs with h | h | h
  · exact Or.inl h
  · exact absurd ((batchCheck_reject_iff s t points proofs).mp h) (by simp [hne, hlen])
  · exact Or.inr h
example : ([default] : List KProof) ≠ [] ∧ ([0] : List Nat).length = ([default] : List KProof).length :=
  ⟨by simp, rfl⟩

/-- **`flatten` is the linear combination with the powers of `v`**: the G1 component is the MSM
    of the commitments against `powersOf v`, the scalar component is `Σⱼ vʲ eⱼ` -/
theorem flatten_linear (comms : List G1) (evals : List Nat) (v : Nat) (hne : comms ≠ [])
    (hlen : evals.length = comms.length) :
    (flatten comms evals v).1 = G1.msum ((powersOf v (comms.length - 1)).zip comms) ∧
    powersOf v (comms.length - 1) = (List.range comms.length).map (fun i => v ^ i % R) ∧
    toF (flatten comms evals v).2
      = agg (toF v) evals.length (fun j => toF (evals.getD j 0)) := by
  refine ⟨rfl, ?_, flatten_snd comms evals v hne hlen⟩
  have : 0 < comms.length := List.length_pos_iff.mpr hne
  rw [powersOf_eq, show comms.length - 1 + 1 = comms.length by omega]
example : (flatten [G1.inf, G1.inf, G1.inf] [5, 6, 7] 10).2 = 765 := by decide +kernel
example : ([G1.inf, G1.inf, G1.inf] : List G1) ≠ [] ∧
    ([5, 6, 7] : List Nat).length = ([G1.inf, G1.inf, G1.inf] : List G1).length := ⟨by simp, rfl⟩

/-- **`compute_aggregate_witness`** is the quotient of `Σⱼ vʲ pⱼ` by `X − z` -/
theorem aggregate_witness_is_quotient (polys : List Poly) (z v : Nat) :
    toPoly (aggregateWitness polys z v)
      = agg (toF v) polys.length (fun j => toPoly (polys.getD j [])) /ₘ (X - C (toF z)) :=
  toPoly_aggregateWitness_agg polys z v
example : aggregateWitness [[1, 2, 1], [0, 1]] 1 2 = [5, 1] := by decide +kernel

/-- the extracted constants used above (name kept from the scaffold) -/
theorem placeholder_consts : Generated.ADDED_BLINDING_DEGREE = 6 := by decide

end Plonk.Props.C20
