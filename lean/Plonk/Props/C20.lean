import Plonk.Model.Kzg
namespace Plonk.Props.C20
open Plonk
theorem placeholder_consts : Generated.ADDED_BLINDING_DEGREE = 6 := by decide
end Plonk.Props.C20
