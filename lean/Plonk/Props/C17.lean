import Plonk.Model.Codec
namespace Plonk.Props.C17
open Plonk
theorem placeholder_consts : DOMAIN_SIZE = 172 ∧ USIZE_MAX = 2 ^ 64 - 1 := by decide
end Plonk.Props.C17
