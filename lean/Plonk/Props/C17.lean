/-
  C17 — checked decoders are total, bounded and accept only well-formed data.

  Totality: every decoder of `Plonk/Model/{Bls,Verifier,Codec}.lean` is a Lean `def` accepted by the
  kernel through structural recursion only (`readG1s`, `readScalars`, `commitKeyFromRaw.go`,
  `PKeyRaw.fromBytes.go`, `commitKeyFromCompressed.go` recurse on a `Nat` counter; everything else is
  non-recursive), without `partial`, so each of them returns a value (`some/none`, `.ok/.error`) on
  every input list.  Boundedness is stated as *work bounds*: whatever a decoder returns is backed by
  input bytes that were present — nothing is allocated from a length field before the bytes behind it
  have been checked to exist (`*_bound`, and the length clauses of the `*_wf` theorems).

  Well-formedness: `G1.Valid p` = identity, or coordinates `< P` on the curve `y² = x³ + 4`;
  `torsionFree` = `[r]p = O` (prime-order subgroup).  `ProofM.WF`, `VKey.WF`, `PKeyRaw.WF` collect the
  per-field statements.  For the two `G2` points of an opening key, on-curve follows from the
  decoder's own check of the square root it computed.  None of these needs the input to be a byte
  list.

  All theorems are full.  Not covered: that the entries of the vanishing-polynomial evaluations are
  non-zero as a consequence of the closed form (`pkey_wf` gives the closed form, `prover_wf` gives
  non-zero from the explicit check of `Prover::new`).
-/
import Plonk.Proofs.CodecExamples
import Plonk.Proofs.CodecAllBytes

-- sequential elaboration (thread creation fails under the memory cap of the shared machine)
set_option Elab.async false

namespace Plonk.Props.C17
open Plonk Plonk.CodecEx

theorem placeholder_consts : DOMAIN_SIZE = 172 ∧ USIZE_MAX = 2 ^ 64 - 1 := by decide

/-! ### work bounds of the two readers -/

/-- `readG1s k` returns exactly `k` points and consumes exactly `48·k` bytes, which were present -/
theorem readG1s_bound {k : Nat} {bs r : List Nat} {ps : List G1} (h : readG1s k bs = some (ps, r)) :
    ps.length = k ∧ r.length + 48 * k = bs.length ∧ r = bs.drop (48 * k) :=
  ⟨(readG1s_decode h).1, (readG1s_decode h).2.1, (readG1s_decode h).2.2.1⟩

example : readG1s 2 ([G1.gen, .inf].flatMap G1.toCompressed ++ [7]) = some ([G1.gen, .inf], [7]) :=
  readG1s_encode [G1.gen, .inf] [7] (by
    intro p hp; simp at hp; rcases hp with rfl | rfl
    · exact gen_ok
    · exact inf_ok)

/-- `readScalars k` returns exactly `k` canonical scalars and consumes exactly `32·k` bytes -/
theorem readScalars_bound {k : Nat} {bs ss r : List Nat} (h : readScalars k bs = some (ss, r)) :
    ss.length = k ∧ r.length + 32 * k = bs.length ∧ r = bs.drop (32 * k) ∧ ∀ s ∈ ss, s < R :=
  ⟨(readScalars_decode h).1, (readScalars_decode h).2.1, (readScalars_decode h).2.2.1, (readScalars_decode h).2.2.2.1⟩

example : readScalars 2 ([5, 6].flatMap scalarBytesLE ++ [7]) = some ([5, 6], [7]) :=
  readScalars_encode [5, 6] [7] (by intro x hx; simp at hx; rcases hx with rfl | rfl <;> decide +kernel)

/-! ### group elements and scalars -/

/-- `G1Affine::from_bytes`: accepted ⇒ 48 bytes, reduced coordinates, on curve, prime-order subgroup -/
theorem g1_compressed_wf {bs : List Nat} {p : G1} (h : G1.fromCompressed? bs = some p) :
    bs.length = 48 ∧ p.Valid ∧ p.onCurve = true ∧ p.torsionFree = true := by
  obtain ⟨v, t⟩ := G1.fromCompressed_wf h
  refine ⟨G1.fromCompressed?_length h, v, ?_, t⟩
  cases p with
  | inf => rfl
  | aff x y => exact v.2.2

example : G1.fromCompressed? G1.gen.toCompressed = some G1.gen :=
  G1.fromCompressed_toCompressed gen_valid gen_torsionFree

/-- canonical scalars only -/
theorem scalar_wf {bs : List Nat} {x : Nat} (h : scalarFromBytes? bs = some x) : bs.length = 32 ∧ x < R :=
  ⟨scalarFromBytes_length h, scalarFromBytes_lt h⟩

example : scalarFromBytes? (scalarBytesLE 5) = some 5 := scalarFromBytes_scalarBytesLE (by decide +kernel)

/-- raw (Montgomery) points: flag ∈ {0,1}, limbs `< P`, canonical identity, on curve, torsion free -/
theorem raw_wf {bs : List Nat} {p : G1} (h : G1.fromRawChecked bs = some p) :
    bs.getD 96 0 ≤ 1 ∧ bytesToNatLE (bs.take 48) < P ∧ bytesToNatLE ((bs.drop 48).take 48) < P ∧
    (bs.getD 96 0 = 1 → p = .inf ∧ bytesToNatLE (bs.take 48) = 0 ∧ bytesToNatLE ((bs.drop 48).take 48) = MONT_R) ∧
    (bs.getD 96 0 = 0 → p = .aff (pmul (bytesToNatLE (bs.take 48)) MONT_RINV)
        (pmul (bytesToNatLE ((bs.drop 48).take 48)) MONT_RINV)) ∧
    p.Valid ∧ p.torsionFree = true :=
  G1.fromRawChecked_wf h

example : G1.fromRawChecked G1.gen.toRaw = some G1.gen := G1.fromRawChecked_toRaw gen_valid gen_torsionFree

/-! ### verifier side -/

/-- accepted proofs: every point reduced, on curve, in the subgroup; every evaluation `< R`;
    1008 bytes were present -/
theorem proof_wf {bs : List Nat} {p : ProofM} (h : ProofM.fromBytes? bs = some p) :
    (∀ q ∈ p.points, q.Valid ∧ q.torsionFree = true) ∧ (∀ s ∈ p.ev.toList, s < R) ∧ 1008 ≤ bs.length := by
  obtain ⟨wf, hl⟩ := ProofM.fromBytes_wf h
  exact ⟨wf.1, wf.2, hl⟩

example : ProofM.fromBytes? (exProof.toBytes ++ [1, 2, 3]) = some exProof :=
  ProofM.fromBytes_toBytes_append exProof_wf _

/-- accepted verifier keys: `n < 2^64`, the fifteen commitments reduced, on curve, in the subgroup -/
theorem vkey_wf {bs : List Nat} {k : VKey} (h : VKey.fromBytes? bs = some k) :
    k.n < 2 ^ 64 ∧ (∀ q ∈ k.points, q.Valid ∧ q.torsionFree = true) ∧ 968 ≤ bs.length := by
  obtain ⟨wf, hl⟩ := VKey.fromBytes_wf h
  exact ⟨wf.1, wf.2, hl⟩

example : VKey.fromBytes? (exVKey 4).toBytes = some (exVKey 4) := VKey.fromBytes_toBytes (exVKey_wf 4 (by norm_num))

/-- accepted opening keys: the three points are on their curves, in the prime-order subgroups, and none
    of them is the identity -/
theorem openingkey_wf {bs : List Nat} {k : OpeningKeyM} (h : OpeningKeyM.fromBytes? bs = some k) :
    (k.g.Valid ∧ k.g.torsionFree = true ∧ k.g ≠ .inf) ∧
    (k.h.onCurve = true ∧ k.h.torsionFree = true ∧ k.h ≠ .inf) ∧
    (k.xh.onCurve = true ∧ k.xh.torsionFree = true ∧ k.xh ≠ .inf) ∧ 240 ≤ bs.length :=
  OpeningKeyM.fromBytes_wf' h

example : OpeningKeyM.fromBytes? exOK.toBytes = some exOK := exOK_roundtrip

/-- accepted verifiers: well-formed keys, an existing domain, `u64` fields, and the work bound (label and
    index table are backed by bytes that were present) -/
theorem verifier_wf {bs : List Nat} {v : VerifierM} (h : VerifierM.fromBytes bs = .ok v) :
    v.vk.WF ∧
    ((v.ok.g.Valid ∧ v.ok.g.torsionFree = true ∧ v.ok.g ≠ .inf) ∧
     (v.ok.h.onCurve = true ∧ v.ok.h.torsionFree = true ∧ v.ok.h ≠ .inf) ∧
     (v.ok.xh.onCurve = true ∧ v.ok.xh.torsionFree = true ∧ v.ok.xh ≠ .inf)) ∧
    (Domain.new? v.vk.n).isSome = true ∧
    (∀ i ∈ v.piIndexes, i < 2 ^ 64) ∧ v.size < 2 ^ 64 ∧ v.constraints < 2 ^ 64 ∧
    48 + v.label.length + 968 + 240 + 8 * v.piIndexes.length ≤ bs.length :=
  VerifierM.fromBytes_wf h

example : VerifierM.fromBytes exVerifier.toBytes = .ok exVerifier := exVerifier_roundtrip

/-- the error is exactly `notEnoughBytes` when the header is incomplete or the announced lengths
    (label + verifier key + opening key + 8·#indices) exceed what follows the header — decided before
    any payload byte is touched -/
theorem verifier_not_enough_bytes {bs : List Nat}
    (h : bs.length < 48 ∨ (bs.drop 48).length < bytesToNatBE (bs.take 8) + bytesToNatBE ((bs.drop 8).take 8) +
      bytesToNatBE ((bs.drop 16).take 8) + bytesToNatBE ((bs.drop 24).take 8) * 8) :
    VerifierM.fromBytes bs = .error .notEnoughBytes := by
  by_cases hlen : bs.length < 48
  · exact VerifierM.fromBytes_short hlen
  · rcases h with h | h
    · exact absurd h hlen
    · exact VerifierM.fromBytes_announced_too_long hlen h

example : ([1, 2, 3] : List Nat).length < 48 := by decide

/-! ### prover side -/

/-- accepted evaluation vectors: the serialized domain is exactly `Domain.new? size`, `size` a power of
    two (`< 2^32`), exactly `172 + 32·size` input bytes, `size` canonical scalars -/
theorem evals_wf {bs : List Nat} {d : Domain} {ev : List Nat} (h : evalsFromBytes bs = .ok (d, ev)) :
    Domain.new? (bytesToNatLE (bs.take 8)) = some d ∧ d.size = bytesToNatLE (bs.take 8) ∧
    nextPow2' d.size = d.size ∧ (∃ j, j < 32 ∧ d.size = 2 ^ j) ∧
    d.toBytes = bs.take 172 ∧ bs.length = 172 + 32 * d.size ∧
    ev.length = d.size ∧ (∀ e ∈ ev, e < R) := by
  obtain ⟨a, b, c, d', e, f, g, i, _⟩ := evalsFromBytes_wf h
  exact ⟨a, b, c, d', e, f, g, i⟩

example : ∃ (d : Domain) (ev : List Nat), evalsFromBytes (evalsToBytes d ev) = .ok (d, ev) := by
  obtain ⟨d, ev, h1, h2, h3, _⟩ := exEvals
  exact ⟨d, ev, evalsFromBytes_evalsToBytes h1 h2 h3⟩

/-- the raw commit-key decoder accepts only non-empty keys of exactly `8 + 97·len` bytes, every point
    reduced, on curve, torsion free -/
theorem commitkey_raw_wf {bs : List Nat} {ck : List G1} (h : commitKeyFromRaw bs = .ok ck) :
    ck ≠ [] ∧ 97 * ck.length + 8 = bs.length ∧ ck.length = bytesToNatLE (bs.take 8) ∧
    ∀ p ∈ ck, p.Valid ∧ p.torsionFree = true := by
  obtain ⟨a, b, c, d, _⟩ := commitKeyFromRaw_wf h
  exact ⟨a, b, c, d⟩

example : commitKeyFromRaw (commitKeyToRaw [G1.gen]) = .ok [G1.gen] :=
  commitKeyFromRaw_toRaw (by simp) (by rw [USIZE_MAX_eq]; simp) (by
    intro p hp; simp at hp; subst hp; exact gen_ok)

/-- accepted prover keys (`PKeyRaw.WF`): `8n` a power of two with its domain, 15 polynomials of length
    `≤ n` with entries `< R` and no trailing zero, 15 + 2 evaluation vectors of length `8n` with entries `< R` over the
    canonical domain, `lin` and `vh` equal to their closed forms (`vh` of degree `n < 8n`); and the work
    bound: every decoded scalar is backed by 32 input bytes -/
theorem pkey_wf {bs : List Nat} {k : PKeyRaw} (h : PKeyRaw.fromBytes bs = .ok k) :
    (∃ d8, k.WF d8) ∧ 32 * k.cells ≤ bs.length :=
  PKeyRaw.fromBytes_wf h

example : PKeyRaw.fromBytes exPKey.toBytes = .ok exPKey := exPKey_roundtrip

/-- accepted provers: `size = nextPow2' constraints`, `key.n = size`, well-formed prover key, non-empty
    well-formed commit key, well-formed verifier key, `vh` of length `8·size` with no zero entry (so the
    model prover's slicing of `vh` is defined), and the work bound -/
theorem prover_wf {bs : List Nat} {p : ProverM} (h : ProverM.fromBytes bs = .ok p) :
    p.constraints ≤ 2 ^ 63 ∧ p.size = nextPow2' p.constraints ∧ p.key.n = p.size ∧
    (∃ d8, p.key.WF d8) ∧
    (p.ck ≠ [] ∧ ∀ q ∈ p.ck, q.Valid ∧ q.torsionFree = true) ∧ p.vk.WF ∧
    (∃ d, Domain.new? p.constraints = some d ∧ d.size = p.size) ∧
    p.key.vh.length = 8 * p.size ∧ (∀ x ∈ p.key.vh, x ≠ 0) ∧
    p.label.length + 32 * p.key.cells + 97 * p.ck.length ≤ bs.length :=
  ProverM.fromBytes_wf h

example : ProverM.fromBytes exProver.toBytes = .ok exProver := exProver_roundtrip

/-- accepted public parameters: well-formed opening key, every commit-key point reduced, on curve,
    torsion free, each backed by 48 input bytes -/
theorem pp_wf {bs : List Nat} {ok : OpeningKeyM} {ck : List G1} (h : ppFromBytes bs = .ok (ok, ck)) :
    (ok.g.Valid ∧ ok.g.torsionFree = true ∧ ok.h.torsionFree = true ∧ ok.xh.torsionFree = true ∧
      ok.g ≠ .inf ∧ ok.h ≠ .inf ∧ ok.xh ≠ .inf) ∧
    (∀ p ∈ ck, p.Valid ∧ p.torsionFree = true) ∧ 240 + 48 * ck.length ≤ bs.length :=
  ppFromBytes_wf h

example : ppFromBytes (ppToBytes exOK [G1.gen]) = .ok (exOK, [G1.gen]) :=
  ppFromBytes_ppToBytes exOK_roundtrip (by simp) (by intro p hp; simp at hp; subst hp; exact gen_ok)

end Plonk.Props.C17
