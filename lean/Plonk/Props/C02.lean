/-
  C02 — "Soundness: the verifier never accepts a proof and public-input vector for which the
  compiled circuit has no satisfying witness."

  Soundness of PLONK is COMPUTATIONAL.  What is proved here is the ALGEBRAIC CORE with explicit
  bad-challenge sets (Finsets with cardinality bounds).  NOT proved, and assumed whenever the
  statements below are read as statements about accepted proofs:

  (A1) knowledge soundness of KZG / the algebraic group model: every commitment of the proof
       (`a_comm … d_comm`, `z_comm`, `t_*_comm`, the opening witnesses) comes with a polynomial of
       bounded degree that it commits to — in the theorems these polynomials are the data
       `P : ProverPolys F`, `T : F[X]`, `h : ℕ → F[X]`; that no adversary finds the trapdoor from
       the SRS (so that `x ∉ trapdoorBad`, the roots of an explicit polynomial the adversary knows);
  (A2) Fiat–Shamir in the random-oracle model: each challenge is uniform and independent of
       everything committed before it, so that "outside a set of at most `N` values" reads
       "except with probability `N/|F|`".  The order of the quantifiers in the theorems is the order
       of the transcript: wires ▸ `β γ` ▸ `Z` ▸ `α, (ρ,λ,φ,ν)` ▸ `T` ▸ `z` ▸ evaluations ▸ `v` ▸
       witnesses ▸ `u`.  (`α` and the four separation challenges are drawn with nothing committed in
       between, so the bad set of `α` may depend on the separation challenges.)
  (A3) the executable curve arithmetic `G1.add / G1.smul / G1.msum` of `Model/Bls.lean` implements
       a prime-order group (as in C20, level (A): the opening theorems are stated for an arbitrary
       `F`-module `G` with a non-degenerate generator).

  What IS proved (all FULL, no `_partial`):

   1. `accumulator_telescopes`, `accumulator_telescopes_poly`, `perm_identities_no_copy_violation`
   2. `identity_at_point_lifts`
   3. `forced_proof_rejected_outside_bad_set`
   4. `challenge_separation_alpha`, `challenge_separation_widgets`
   5. `soundness_algebraic` (+ bounds on the bad sets `soundness_bad_sets`,
      `numerator_degree_bound`), `soundness_witness` (bridge to the model's `sysSat`, `rowsHoldW`,
      `copyViolation`), `verifier_identity_is_quotient_identity` (the model verifier's linearisation
      claim `(D − u·Z)(z) = −r₀` is the quotient identity at `z`)
   6. `forged_evaluation_rejected`, `forged_evaluation_rejected_model`, `forged_evaluation_rejected_agm`

  How the pieces compose into "accepted ⇒ satisfiable" (with (A1)–(A3)): acceptance is the batched
  opening check (C03 `accept_iff_equation`, `code_equation_is_textbook`); by 6 the fifteen
  evaluations of the proof are the true evaluations of the committed polynomials and
  `(D − u·Z)(z) = −r₀`; by `verifier_identity_is_quotient_identity` this is `Num(z) = T(z)·Z_H(z)`;
  by 5 every row holds and there is no copy violation; by `soundness_witness` the layout has a
  satisfying witness in the model's sense.  The composition itself is NOT stated as one theorem:
  the missing formal links are exactly (A1)–(A3), the identification `L₁(z), PI(z)` of the model's
  `lagrangeAndPi` with `L1P.eval`, `P.pi.eval` (hypotheses `hl1`, `hpi` below; C03/C12 give the
  closed forms `lagrangeAndPi_some`, `lagrangeF_zero_eq_L1P`), and the legacy V1 equation, which
  does not open `q_arith, q_c, q_l, q_r` (C03 `textbook_equation_written_out_legacy`): for V1 the
  hypothesis `TrueEvals` is not enforced by the opening check for those four evaluations.

  Forced hypotheses (findings):
   * `SelReduced` (canonical widget selectors) in the cardinality of `sepBad` — a property of the
     model's representation (as in C05).
   * `LayoutWF` in `soundness_witness`: (i) every wire of the layout is an allocated witness (the
     Rust code asserts it; the model's `sigmaMaps` silently ignores such wires, C05Perm finding);
     (ii) the LAST gate row reads no next-row wire.  Without (ii) the statement is false: the row
     after the last gate is a padding row (or row 0, cyclically) whose wire values are fixed
     points of `σ`, hence unconstrained for an adversary, whereas a widget on the last row reads
     them.  The composer's gadgets always end on an unselected row, so this is a property of the
     circuits the crate builds, not enforced by `compile`.

  Model objects the statements talk about: `Plonk.rowHolds` (row semantics, `Model/Gate.lean`),
  `Composer.gateAt / piAt` (`Model/System.lean`), `Perm.sigmaFn lay` (the function tabulated by the
  model's `sigmaMaps`, C05Perm), `Composer.copyViolation`, the numerator polynomial `Quot.NumP`
  (whose coset values are the entries of the model's `quotientEvals`, C05 `quotient_in_prove`),
  `aggregateWitness`, `Poly.evaluate` (`Model/Kzg.lean`, `Model/Poly.lean`).
-/
import Plonk.Model.Verifier
import Plonk.Proofs.SoundnessCore
import Plonk.Proofs.SoundnessOpen
import Plonk.Proofs.SoundnessModel
import Plonk.Proofs.SoundnessExamples
import Plonk.Proofs.SoundnessCount
import Plonk.Proofs.SoundnessInstance
import Plonk.Proofs.SoundnessWitness
import Plonk.Proofs.SoundnessVerifier
import Plonk.Proofs.SoundnessDegree

namespace Plonk.Props.C02
open Plonk Polynomial Plonk.Quot Plonk.Perm Plonk.Sound
open Plonk.KzgMath (Nondeg agg defect)

theorem placeholder_consts : Generated.V_MAX_DEGREE = 11 ∧ Generated.V_MAX_DEGREE_LEGACY = 7 := by decide

/-! ### 1. the accumulator telescopes -/

/-- **`accumulator_telescopes`.**  `ωⁿ = 1`; if `z(ω⁰) = 1` and `z(ω^(i+1))·den_i = z(ω^i)·num_i`
    for every `i < n`, with every `den_i ≠ 0`, then `∏ num_i = ∏ den_i`. -/
theorem accumulator_telescopes {K : Type*} [Field K] {ω : K} {n : ℕ} (hω : ω ^ n = 1) (z : K → K)
    (num den : ℕ → K) (hden : ∀ i < n, den i ≠ 0) (hz0 : z (ω ^ 0) = 1)
    (hstep : ∀ i < n, z (ω ^ (i + 1)) * den i = z (ω ^ i) * num i) :
    ∏ i ∈ Finset.range n, num i = ∏ i ∈ Finset.range n, den i :=
  Sound.accumulator_telescopes hω z num den hden hz0 hstep

/-- non-vacuity: `ω = −1`, `n = 2`, `z(x) = 2 − x` (`z(1) = 1`, `z(−1) = 3`), `num = (3, 1)`,
    `den = (1, 3)` -/
example : ((-1 : F) ^ 2 = 1) ∧
    (∀ i < 2, (fun i => if i = 0 then (1 : F) else 3) i ≠ 0) ∧
    ((fun x : F => 2 - x) ((-1) ^ 0) = 1) ∧
    (∀ i < 2, (fun x : F => 2 - x) ((-1) ^ (i + 1)) * (fun i => if i = 0 then (1 : F) else 3) i =
      (fun x : F => 2 - x) ((-1) ^ i) * (fun i => if i = 0 then (3 : F) else 1) i) := by
  refine ⟨neg_one_sq_F, ?_, by norm_num, ?_⟩
  · intro i hi
    interval_cases i
    · simp
    · simpa using three_ne_zero_F
  · intro i hi
    interval_cases i <;> norm_num

/-- **Polynomial form.**  `ω` a primitive `n`-th root of unity.  If the two permutation identities
    `Z(ωX)·Den(X) − Z(X)·Num(X)` and `(Z(X) − 1)·L₁(X)` vanish on the domain and `Den` has no zero on
    the domain, then `∏ Num(ω^i) = ∏ Den(ω^i)`. -/
theorem accumulator_telescopes_poly {K : Type*} [Field K] {ω : K} {n : ℕ}
    (hω : IsPrimitiveRoot ω n) (hn : (n : K) ≠ 0) (Z Num Den : K[X])
    (hden : ∀ i < n, Den.eval (ω ^ i) ≠ 0)
    (h1 : ∀ i < n, (shiftP ω Z * Den - Z * Num).eval (ω ^ i) = 0)
    (h2 : ∀ i < n, ((Z - 1) * L1P n).eval (ω ^ i) = 0) :
    ∏ i ∈ Finset.range n, Num.eval (ω ^ i) = ∏ i ∈ Finset.range n, Den.eval (ω ^ i) :=
  Sound.accumulator_telescopes_poly hω hn Z Num Den hden h1 h2

/-- non-vacuity: `Z = 2 − X`, `Num = 2 + X`, `Den = 2 − X` over the domain `{1, −1}` -/
example : IsPrimitiveRoot (-1 : F) 2 ∧ ((2 : ℕ) : F) ≠ 0 ∧
    (∀ i < 2, exDen.eval ((-1 : F) ^ i) ≠ 0) ∧
    (∀ i < 2, (shiftP (-1) exZ * exDen - exZ * exNum).eval ((-1 : F) ^ i) = 0) ∧
    (∀ i < 2, ((exZ - 1) * L1P 2).eval ((-1 : F) ^ i) = 0) :=
  ⟨neg_one_primitive, natCast_two_ne_zero_F, ex_telescope_hyps⟩

/-- **PLONK instance, chained to the copy constraints.**  Compiled layout `lay` on a domain of size
    `n = 2^k ≥` number of gates, `σ = sigmaFn lay`; wire polynomials `P.a … P.d` and accumulator `P.z`
    arbitrary.  If the two permutation identities of the quotient vanish on the domain
    (`permAtRow`: `num_i·Z(ω^i) − den_i·Z(ω^((i+1) mod n))` with
    `num_i = ∏_col (w + β·K_col·ω^i + γ)`, `den_i = ∏_col (w + β·id(σ(col,i)) + γ)`;
    `l1AtRow`: `L₁(ω^i)·(Z(ω^i) − 1)`), then for `β ∉ betaBad` (at most `(4n)²` values) and
    `γ ∉ gammaBadM β` (at most `8n` values) — both fixed by the wire polynomials alone — the values
    read off the wire polynomials respect `σ`, are constant on every wiring class, and every
    proving-time composer carrying these values has no copy violation. -/
theorem perm_identities_no_copy_violation (lay : Composer) {k : Nat} (hk : k ≤ 32)
    (hn : lay.gates.size ≤ 2 ^ k) {ω : F} (hω : IsPrimitiveRoot ω (2 ^ k)) (P : ProverPolys F) :
    (betaBad ω (2 ^ k) lay P).card ≤ (4 * 2 ^ k) * (4 * 2 ^ k) ∧
    ∀ β, β ∉ betaBad ω (2 ^ k) lay P →
      (gammaBadM ω (2 ^ k) lay P β).card ≤ 8 * 2 ^ k ∧
      ∀ γ, γ ∉ gammaBadM ω (2 ^ k) lay P β →
        (∀ i < 2 ^ k, permAtRow ω (2 ^ k) lay P β γ i = 0) →
        (∀ i < 2 ^ k, l1AtRow ω P i = 0) →
        (∀ p, wireVal ω P (sigmaFn lay p) = wireVal ω P p) ∧
        (∀ p q, SameClass lay p q → wireVal ω P p = wireVal ω P q) ∧
        (∀ c : Composer, (∀ p : Nat × Nat, p.1 < 4 → p.2 < lay.gates.size →
            valAt c p < R ∧ toF (valAt c p) = wireVal ω P p) →
          Composer.copyViolation lay c = none) := by
  refine ⟨betaBad_card_le _ _ _ _, fun β hβ => ⟨gammaBadM_card_le _ _ _ _ _, fun γ hγ h1 h2 => ?_⟩⟩
  have hres := perm_identities_sound lay hk hn hω P β γ hβ hγ h1 h2
  have hconst := (respects_iff_const lay (wireVal ω P)).mp hres
  refine ⟨hres, hconst, fun c hc => ?_⟩
  rw [copyViolation_eq_none_iff]
  intro p q hpq
  obtain ⟨hp1, hp2⟩ := hc p hpq.1.1 hpq.1.2
  obtain ⟨hq1, hq2⟩ := hc q hpq.2.1.1 hpq.2.1.2
  exact (toF_inj_of_lt hp1 hq1).mp (by rw [hp2, hq2]; exact hconst p q hpq)

/-- non-vacuity: the instance `exLay2 / exP2` (two rows, domain `{1, −1}`, `Z = 1`): the structural
    hypotheses hold, good `β γ` exist and both permutation identities vanish on the domain -/
example : (1 ≤ 32) ∧ exLay2.gates.size ≤ 2 ^ 1 ∧ IsPrimitiveRoot (-1 : F) (2 ^ 1) ∧
    (∃ β γ, β ∉ betaBad (-1) (2 ^ 1) exLay2 exP2 ∧ γ ∉ gammaBadM (-1) (2 ^ 1) exLay2 exP2 β ∧
      (∀ i < 2 ^ 1, permAtRow (-1) (2 ^ 1) exLay2 exP2 β γ i = 0) ∧
      (∀ i < 2 ^ 1, l1AtRow (-1) exP2 i = 0)) := by
  obtain ⟨β, γ, hβ, hγ⟩ := ex_good_beta_gamma
  exact ⟨ex_soundness_struct.1, ex_soundness_struct.2.1, ex_soundness_struct.2.2, β, γ, hβ, hγ,
    fun i _ => (ex_perm_identities β γ i).1, fun i _ => (ex_perm_identities β γ i).2⟩

/-! ### 2. / 3. Schwartz–Zippel for the quotient identity -/

/-- **`identity_at_point_lifts`.**  `idBad P T n` is the root set of `P − T·(Xⁿ − 1)`, of at most
    `max (deg P) (deg T + n)` elements.  If `P(z) = T(z)·Z_H(z)` at ONE point `z ∉ idBad P T n`,
    then `P = T·Z_H`, `Z_H ∣ P`, and `P` vanishes on the whole domain. -/
theorem identity_at_point_lifts {K : Type*} [Field K] [DecidableEq K] {ω : K} {n : ℕ}
    (hω : ω ^ n = 1) (P T : K[X]) (z : K) (h : P.eval z = T.eval z * (z ^ n - 1))
    (hz : z ∉ idBad P T n) :
    (idBad P T n).card ≤ max P.natDegree (T.natDegree + n) ∧
    P = T * (X ^ n - 1) ∧ (X ^ n - 1 : K[X]) ∣ P ∧ ∀ i : ℕ, P.eval (ω ^ i) = 0 :=
  ⟨idBad_card_le P T n, Sound.identity_at_point_lifts P T n z h hz,
    identity_at_point_dvd P T n z h hz, identity_at_point_vanishes hω P T z h hz⟩

/-- non-vacuity: `P = (X + 3)·(X² − 1)`, `T = X + 3`, `z = 5` -/
example : ((-1 : F) ^ 2 = 1) ∧
    (((X + C 3) * (X ^ 2 - 1) : F[X]).eval 5 = (X + C 3 : F[X]).eval 5 * ((5 : F) ^ 2 - 1)) ∧
    (5 : F) ∉ idBad ((X + C 3) * (X ^ 2 - 1) : F[X]) (X + C 3) 2 := by
  refine ⟨neg_one_sq_F, by simp, ?_⟩
  simp [idBad]

/-- **`forced_proof_rejected_outside_bad_set`.**  If the numerator `P` does NOT vanish somewhere
    on the domain (a violated row: the honest algorithm would stop with "circuit unsatisfied"),
    then for EVERY candidate quotient `T` the identity `P(z) = T(z)·Z_H(z)` fails for all `z`
    outside `idBad P T n`, at most `max (deg P) (deg T + n)` points — in particular for the
    polynomial obtained by dropping the remainder of the division. -/
theorem forced_proof_rejected_outside_bad_set {K : Type*} [Field K] [DecidableEq K] {ω : K} {n : ℕ}
    (hω : ω ^ n = 1) (P : K[X]) (hP : ∃ i : ℕ, P.eval (ω ^ i) ≠ 0) (T : K[X]) (D : ℕ)
    (hT : T.natDegree ≤ D) :
    (idBad P T n).card ≤ max P.natDegree (D + n) ∧
    ∀ z, z ∉ idBad P T n → P.eval z ≠ T.eval z * (z ^ n - 1) :=
  ⟨idBad_card_le_of_le P T n _ D (le_refl _) hT,
    (Sound.forced_proof_rejected_outside_bad_set hω P hP T).2⟩

/-- non-vacuity: `P = X` does not vanish at `ω⁰ = 1` -/
example : ((-1 : F) ^ 2 = 1) ∧ (∃ i : ℕ, (X : F[X]).eval ((-1 : F) ^ i) ≠ 0) ∧
    ((0 : F[X]).natDegree ≤ 0) :=
  ⟨neg_one_sq_F, ⟨0, by simp⟩, by simp⟩

/-! ### 4. separation of the summands -/

/-- **`challenge_separation` (α).**  Per row `i < n`: gate value `g i`, first permutation identity
    `p i`, second permutation identity times `L₁` `l i`.  If the `α`-weighted sums
    `g i + α·p i + α²·l i` all vanish and `α ∉ alphaBadRows n g p l` (at most `2n` values: the roots
    of the non-zero quadratics), every summand vanishes on every row. -/
theorem challenge_separation_alpha {K : Type*} [Field K] [DecidableEq K] (n : ℕ) (g p l : ℕ → K) :
    (alphaBadRows n g p l).card ≤ 2 * n ∧
    ∀ α, α ∉ alphaBadRows n g p l → (∀ i < n, g i + α * p i + α ^ 2 * l i = 0) →
      ∀ i < n, g i = 0 ∧ p i = 0 ∧ l i = 0 :=
  ⟨alphaBadRows_card_le n g p l, fun α hα h => alpha_separation_rows n g p l α hα h⟩

/-- non-vacuity: one row with a violated gate identity (`g = 1`): the bad set is empty, the sum
    never vanishes -/
example : alphaBadRows 1 (fun _ => (1 : F)) (fun _ => 0) (fun _ => 0) = ∅ := by
  simp [alphaBadRows, alphaBad, alphaPoly]

/-- **`challenge_separation` (widgets).**  For a row whose model check `rowHolds` FAILS
    (canonical widget selectors), the gate expression
    `arith + q_range·range(ρ) + q_logic·logic(λ) + q_fixed·fixed(φ) + q_var·var(ν) + PI`
    is either never zero, or there is one separation challenge such that, whatever the other
    three, at most `7 / 9 / 7 / 5` values of it make the expression vanish.  (C05
    `gate_sum_bad_set`, restated; the converse `rowHolds → expression ≡ 0` is C05
    `gate_sum_zero_iff`.) -/
theorem challenge_separation_widgets (g : Gate) (hg : SelReduced g) (a b c d an bn dn pi : Nat)
    (h : rowHolds g a b c d an bn dn pi = false) :
    let E := fun s : Seps F => gateSumR (Quot.selF g) (wiresF a b c d an bn dn) (toF pi) s
    (∀ s, E s ≠ 0) ∨
    (∀ l φ ν, ∀ S : Finset F, (∀ ρ ∈ S, E ⟨ρ, l, φ, ν⟩ = 0) → S.card ≤ 7) ∨
    (∀ ρ φ ν, ∀ S : Finset F, (∀ l ∈ S, E ⟨ρ, l, φ, ν⟩ = 0) → S.card ≤ 9) ∨
    (∀ ρ l ν, ∀ S : Finset F, (∀ φ ∈ S, E ⟨ρ, l, φ, ν⟩ = 0) → S.card ≤ 7) ∨
    (∀ ρ l φ, ∀ S : Finset F, (∀ ν ∈ S, E ⟨ρ, l, φ, ν⟩ = 0) → S.card ≤ 5) :=
  Quot.gate_sum_bad_set g hg a b c d an bn dn pi h

example : SelReduced { qrange := 1 } ∧ rowHolds { qrange := 1 } 0 0 0 1 0 0 0 0 = false := by
  refine ⟨⟨R_gt_one, R_pos, R_pos, R_pos⟩, ?_⟩
  decide +kernel

/-! ### 6. the opening layer -/

/-- **`forged_evaluation_rejected`** (honest witnesses, polynomials of `F[X]`).  `n` opening
    points `zᵢ`, at point `i` the committed polynomials `p i j` (`j < kᵢ`) with claimed evaluations
    `e i j`, flattened with `vᵢ`, batched with `u`.  For `vᵢ ∉ aggBad` (at most `kᵢ − 1` values,
    fixed by the polynomials, the points and the claimed evaluations) and `u ∉ aggBad` (at most
    `n − 1` values, fixed moreover by the `vᵢ`): the batched check in the trapdoor view passes IFF
    every claimed evaluation is the true one; so a single forged evaluation — or a field-wise
    splice, whose evaluations do not match the spliced commitments — is rejected. -/
theorem forged_evaluation_rejected {G : Type*} [AddCommGroup G] [Module F G] {g : G}
    (hg : Nondeg F g) (x : F) (n : ℕ) (z : ℕ → F) (k : ℕ → ℕ) (p : ℕ → ℕ → F[X])
    (e : ℕ → ℕ → F) (v : ℕ → F) :
    (∀ i, (aggBad (k i) (evalErr z p e i)).card ≤ k i - 1) ∧
    ((∀ i < n, v i ∉ aggBad (k i) (evalErr z p e i)) →
      (aggBad n (defect v z k p e)).card ≤ n - 1 ∧
      ∀ u, u ∉ aggBad n (defect v z k p e) →
        ((x • agg u n (fun i => KzgMath.commit x g (agg (v i) (k i) (p i) /ₘ (X - C (z i))))
            = agg u n (fun i => agg (v i) (k i) (fun j => KzgMath.commit x g (p i j))
                + z i • KzgMath.commit x g (agg (v i) (k i) (p i) /ₘ (X - C (z i))))
              - agg u n (fun i => agg (v i) (k i) (e i)) • g)
          ↔ ∀ i < n, ∀ j < k i, e i j = (p i j).eval (z i))) :=
  ⟨fun i => aggBad_card_le _ _, fun hv => ⟨aggBad_card_le _ _, fun u hu =>
    batch_open_sound hg x n z k p e v hv u hu⟩⟩

/-- non-vacuity: one point, one polynomial `p = X`, `z = 2`, forged evaluation `3 ≠ 2`: both bad
    sets are empty, every `v`, `u` rejects -/
example : Nondeg F (1 : F) ∧
    aggBad 1 (evalErr (fun _ => (2 : F)) (fun _ _ => X) (fun _ _ => 3) 0) = ∅ ∧
    (∀ v : ℕ → F, aggBad 1 (defect v (fun _ => (2 : F)) (fun _ => 1) (fun _ _ => X) (fun _ _ => 3)) = ∅) ∧
    ((fun _ _ => (3 : F)) 0 0 ≠ ((fun _ _ => (X : F[X])) 0 0).eval ((fun _ => (2 : F)) 0)) := by
  refine ⟨nondeg_one, aggBad_one_empty _, fun v => aggBad_one_empty _, ?_⟩
  simp only [eval_X]
  intro h
  have : (1 : F) = 0 := by linear_combination h
  exact one_ne_zero this

/-- the same on the model's functions: witnesses are commitments of the model's
    `aggregateWitness`, true values are the model's `Poly.evaluate` on the coefficient lists -/
theorem forged_evaluation_rejected_model {G : Type*} [AddCommGroup G] [Module F G] {g : G}
    (hg : Nondeg F g) (x : F) (n : ℕ) (polys : ℕ → List Poly) (evals : ℕ → ℕ → Nat) (z v : ℕ → Nat)
    (hv : ∀ i < n, toF (v i) ∉ aggBad (polys i).length
      (fun j => toF (evals i j) - toF (Poly.evaluate ((polys i).getD j []) (z i))))
    (u : F) (hu : u ∉ aggBad n (fun i => modelDefect (polys i) (evals i) (z i) (v i))) :
    (∀ i, (aggBad (polys i).length
      (fun j => toF (evals i j) - toF (Poly.evaluate ((polys i).getD j []) (z i)))).card
        ≤ (polys i).length - 1) ∧
    (aggBad n (fun i => modelDefect (polys i) (evals i) (z i) (v i))).card ≤ n - 1 ∧
    ((x • agg u n (fun i => KzgMath.commit x g (toPoly (aggregateWitness (polys i) (z i) (v i))))
        = agg u n (fun i =>
            agg (toF (v i)) (polys i).length
              (fun j => KzgMath.commit x g (toPoly ((polys i).getD j [])))
            + toF (z i) • KzgMath.commit x g (toPoly (aggregateWitness (polys i) (z i) (v i))))
          - agg u n (fun i => agg (toF (v i)) (polys i).length (fun j => toF (evals i j))) • g)
      ↔ ∀ i < n, ∀ j < (polys i).length,
          toF (evals i j) = toF (Poly.evaluate ((polys i).getD j []) (z i))) :=
  ⟨fun _ => aggBad_card_le _ _, aggBad_card_le _ _,
    batch_open_sound_model hg x n polys evals z v hv u hu⟩

/-- non-vacuity: one point, the coefficient list `[1, 2]` (`1 + 2X`) at `z = 4` -/
example : (∀ i < 1, toF ((fun _ => 7) i) ∉ aggBad ((fun _ => [[1, 2]]) i : List Poly).length
      (fun j => toF ((fun _ _ => 9) i j) -
        toF (Poly.evaluate (((fun _ => [[1, 2]]) i : List Poly).getD j []) ((fun _ => 4) i)))) ∧
    (∀ u : F, u ∉ aggBad 1 (fun i => modelDefect ((fun _ => [[1, 2]]) i) ((fun _ _ => 9) i)
      ((fun _ => 4) i) ((fun _ => 7) i))) := by
  refine ⟨fun _ _ => ?_, fun u => ?_⟩
  · show _ ∉ aggBad 1 _
    rw [aggBad_one_empty]; exact Finset.notMem_empty _
  · rw [aggBad_one_empty]; exact Finset.notMem_empty _

/-- **Algebraic adversary** (A1 made explicit): the witnesses are commitments of ARBITRARY
    polynomials `hᵢ`, chosen after the `vᵢ`.  If the batched check passes with
    `vᵢ ∉ aggBad` (`≤ kᵢ − 1` values), `u ∉ agmUBad` (`≤ n − 1` values, fixed by everything before
    `u`) and the trapdoor `x ∉ trapdoorBad` (the roots of the explicit polynomial `openPoly`, at most
    `D + 1` when `deg hᵢ ≤ D`, `deg pᵢⱼ ≤ D + 1`), then every claimed evaluation is the true one. -/
theorem forged_evaluation_rejected_agm {G : Type*} [AddCommGroup G] [Module F G] {g : G}
    (hg : Nondeg F g) (n : ℕ) (z : ℕ → F) (k : ℕ → ℕ) (p : ℕ → ℕ → F[X]) (e : ℕ → ℕ → F)
    (v : ℕ → F) (hv : ∀ i < n, v i ∉ aggBad (k i) (evalErr z p e i)) (h : ℕ → F[X]) (D : ℕ)
    (hh : ∀ i < n, (h i).natDegree ≤ D) (hp : ∀ i < n, ∀ j < k i, (p i j).natDegree ≤ D + 1) :
    (agmUBad n (openTerm v z k p e h)).card ≤ n - 1 ∧
    ∀ u, u ∉ agmUBad n (openTerm v z k p e h) →
      (trapdoorBad u n v z k p e h).card ≤ D + 1 ∧
      ∀ x, x ∉ trapdoorBad u n v z k p e h →
        (x • agg u n (fun i => KzgMath.commit x g (h i))
          = agg u n (fun i => agg (v i) (k i) (fun j => KzgMath.commit x g (p i j))
              + z i • KzgMath.commit x g (h i))
            - agg u n (fun i => agg (v i) (k i) (e i)) • g) →
        ∀ i < n, ∀ j < k i, e i j = (p i j).eval (z i) :=
  ⟨agmUBad_card_le _ _, fun u hu => ⟨trapdoorBad_card_le u n v z k p e h D hh hp, fun x hx hc =>
    agm_batch_open_sound hg n z k p e v hv h u hu x hx hc⟩⟩

/-- non-vacuity: one point, `p = X`, `z = 2`, `h = 1` (the true quotient), any `v` -/
example : (∀ v : ℕ → F, ∀ i < 1,
      v i ∉ aggBad ((fun _ => 1) i) (evalErr (fun _ => (2 : F)) (fun _ _ => X) (fun _ _ => 2) i)) ∧
    (∀ i < 1, ((fun _ => (1 : F[X])) i).natDegree ≤ 0) ∧
    (∀ i < 1, ∀ j < (fun _ => 1) i, ((fun _ _ => (X : F[X])) i j).natDegree ≤ 0 + 1) := by
  refine ⟨fun v _ _ => ?_, fun i _ => by simp, fun i _ j _ => by simp⟩
  show _ ∉ aggBad 1 _
  rw [aggBad_one_empty]; exact Finset.notMem_empty _

/-! ### 5. the composition -/

/-- **`soundness_algebraic`.**  Compiled layout `lay` (selector rows `lay.gateAt`, public inputs
    `lay.piAt`, permutation `σ = sigmaFn lay`) on the domain `⟨ω⟩` of size `n = 2^k ≥` number of
    gates; preprocessed polynomials interpolating the layout (`KeyInterp`); ARBITRARY wire
    polynomials `P.a … P.d`, accumulator `P.z` and quotient `T` (assumption (A1)).  If the quotient
    identity `Num(z) = T(z)·(zⁿ − 1)` holds at ONE point `z`, with
    `β ∉ betaBad`, `γ ∉ gammaBadM β`, `(ρ,λ,φ,ν) ∉ sepBad`, `α ∉ alphaBadM`, `z ∉ idBad Num T n`,
    then the assignment read off the wire polynomials on the domain satisfies the model's row
    check `rowHolds` on EVERY row of the padded table (next row cyclic) and respects `σ`, i.e. has
    no copy violation. -/
theorem soundness_algebraic (lay : Composer) {k : Nat} (hk : k ≤ 32) (hn : lay.gates.size ≤ 2 ^ k)
    {ω : F} (hω : IsPrimitiveRoot ω (2 ^ k)) (P : ProverPolys F)
    (I : KeyInterp ω (2 ^ k) lay P)
    (β γ : F) (hβ : β ∉ betaBad ω (2 ^ k) lay P) (hγ : γ ∉ gammaBadM ω (2 ^ k) lay P β)
    (t : F × F × F × F) (ht : t ∉ sepBad ω (2 ^ k) lay P)
    (α : F) (hα : α ∉ alphaBadM ω (2 ^ k) lay P β γ (sepsOf t))
    (T : F[X]) (z : F) (hz : z ∉ idBad (NumP ω (2 ^ k) P ⟨β, γ, α⟩ (sepsOf t)) T (2 ^ k))
    (hid : (NumP ω (2 ^ k) P ⟨β, γ, α⟩ (sepsOf t)).eval z = T.eval z * (z ^ 2 ^ k - 1)) :
    (∀ i < 2 ^ k,
      rowHolds (lay.gateAt i) (wireNat ω P 0 i) (wireNat ω P 1 i) (wireNat ω P 2 i) (wireNat ω P 3 i)
        (wireNat ω P 0 ((i + 1) % 2 ^ k)) (wireNat ω P 1 ((i + 1) % 2 ^ k))
        (wireNat ω P 3 ((i + 1) % 2 ^ k)) (lay.piAt i) = true) ∧
    (∀ p, wireVal ω P (sigmaFn lay p) = wireVal ω P p) ∧
    (∀ p q, SameClass lay p q → wireVal ω P p = wireVal ω P q) := by
  obtain ⟨h1, h2⟩ := soundness_core lay hk hn hω P I β γ hβ hγ t ht α hα T z hz hid
  exact ⟨h1, h2, (respects_iff_const lay (wireVal ω P)).mp h2⟩

/-- non-vacuity: for the instance `exLay2 / exP2` (two addition rows `1 + 2 − 3 = 0`, eight distinct
    witnesses, domain `{1, −1}`) every hypothesis is satisfiable: the layout is interpolated, and
    challenges outside all five bad sets exist, with the quotient identity holding at `z = 5` for
    `T = 0` -/
example : (1 ≤ 32) ∧ exLay2.gates.size ≤ 2 ^ 1 ∧ IsPrimitiveRoot (-1 : F) (2 ^ 1) ∧
    KeyInterp (-1) (2 ^ 1) exLay2 exP2 ∧
    ∃ β γ t α,
      β ∉ betaBad (-1) (2 ^ 1) exLay2 exP2 ∧ γ ∉ gammaBadM (-1) (2 ^ 1) exLay2 exP2 β ∧
      t ∉ sepBad (-1) (2 ^ 1) exLay2 exP2 ∧
      α ∉ alphaBadM (-1) (2 ^ 1) exLay2 exP2 β γ (sepsOf t) ∧
      (5 : F) ∉ idBad (NumP (-1) (2 ^ 1) exP2 ⟨β, γ, α⟩ (sepsOf t)) 0 (2 ^ 1) ∧
      (NumP (-1) (2 ^ 1) exP2 ⟨β, γ, α⟩ (sepsOf t)).eval 5 =
        (0 : F[X]).eval 5 * ((5 : F) ^ 2 ^ 1 - 1) :=
  ⟨ex_soundness_struct.1, ex_soundness_struct.2.1, ex_soundness_struct.2.2, exKey, ex_soundness_hyps⟩

/-- **The bad sets of `soundness_algebraic` are small.**  With `n = 2^k` rows:
    `|betaBad| ≤ (4n)²`, `|gammaBadM| ≤ 8n`, `|sepBad| ≤ 9n·|F|³` (of the `|F|⁴` tuples `(ρ,λ,φ,ν)`;
    needs canonical widget selectors), `|alphaBadM| ≤ 2n`, `|idBad| ≤ max (deg Num) (deg T + n)`.
    By a union bound (A2) an accepting transcript has a bad challenge with probability at most
    `((4n)² + 8n + 9n + 2n + max (deg Num) (deg T + n)) / |F|`. -/
theorem soundness_bad_sets (lay : Composer) (n : Nat) (ω : F) (P : ProverPolys F)
    (hG : ∀ i < n, SelReduced (lay.gateAt i)) (β γ α : F) (t : F × F × F × F) (T : F[X]) :
    (betaBad ω n lay P).card ≤ (4 * n) * (4 * n) ∧
    (gammaBadM ω n lay P β).card ≤ 8 * n ∧
    (sepBad ω n lay P).card ≤ n * (9 * (R * (R * R))) ∧
    Fintype.card (F × F × F × F) = R * (R * (R * R)) ∧
    (alphaBadM ω n lay P β γ (sepsOf t)).card ≤ 2 * n ∧
    (idBad (NumP ω n P ⟨β, γ, α⟩ (sepsOf t)) T n).card ≤
      max (NumP ω n P ⟨β, γ, α⟩ (sepsOf t)).natDegree (T.natDegree + n) :=
  ⟨betaBad_card_le ω n lay P, gammaBadM_card_le ω n lay P β, sepBad_card_le ω n lay P hG, card_F4,
    alphaBadM_card_le ω n lay P β γ (sepsOf t), idBad_card_le _ T n⟩

/-- non-vacuity: the selectors of the instance are canonical -/
example : ∀ i < 2 ^ 1, SelReduced (exLay2.gateAt i) := fun i _ => exLay2_selReduced i

/-- **Degree of the numerator.**  If the eleven selector polynomials, the four wire polynomials,
    the public-input polynomial, the four sigma polynomials and the accumulator all have degree
    `≤ e` (`1 ≤ e`; for an algebraic adversary `e` is the size of the commit key), then
    `deg Num ≤ 5e + n`, so `|idBad Num T n| ≤ max (5e + n) (D + n)` for every quotient of degree
    `≤ D`. -/
theorem numerator_degree_bound (ω : F) (n : ℕ) (P : ProverPolys F) (ch : Chal F) (s : Seps F)
    (e : ℕ) (he : 1 ≤ e) (hP : PolysDeg P e) (T : F[X]) (D : ℕ) (hT : T.natDegree ≤ D) :
    (NumP ω n P ch s).natDegree ≤ 5 * e + n ∧
    (idBad (NumP ω n P ch s) T n).card ≤ max (5 * e + n) (D + n) :=
  ⟨natDegree_NumP_le ω n P ch s e he hP,
    idBad_card_le_of_le _ T n _ D (natDegree_NumP_le ω n P ch s e he hP) hT⟩

/-- non-vacuity: the constant polynomials of the instance have degree `≤ 1` -/
example : PolysDeg exP3 1 ∧ (0 : F[X]).natDegree ≤ 0 := by
  refine ⟨?_, by simp⟩
  constructor
  · constructor <;> simp [exP3]
  all_goals simp [exP3]

/-- **Bridge to the model's notions of a satisfying witness.**  Layout `lay` with
    `lay.paddedSize = 2^k` (the domain the compiler uses), well formed (`LayoutWF`: every wire is an
    allocated witness; the last gate row reads no next-row wire).  Under the hypotheses of
    `soundness_algebraic`, the witness assignment `extractW` read off the wire polynomials
    satisfies every gate row of the layout (`rowsHoldW`), and the layout carrying these witness
    values (`extractC`: same gates, same public inputs) satisfies the whole padded system
    (`sysSat`) and has no copy violation against the compiled layout. -/
theorem soundness_witness (lay : Composer) {k : Nat} (hk : k ≤ 32) (hpad : lay.paddedSize = 2 ^ k)
    (hn : lay.gates.size ≤ 2 ^ k) (hwf : LayoutWF lay)
    {ω : F} (hω : IsPrimitiveRoot ω (2 ^ k)) (P : ProverPolys F)
    (I : KeyInterp ω (2 ^ k) lay P)
    (β γ : F) (hβ : β ∉ betaBad ω (2 ^ k) lay P) (hγ : γ ∉ gammaBadM ω (2 ^ k) lay P β)
    (t : F × F × F × F) (ht : t ∉ sepBad ω (2 ^ k) lay P)
    (α : F) (hα : α ∉ alphaBadM ω (2 ^ k) lay P β γ (sepsOf t))
    (T : F[X]) (z : F) (hz : z ∉ idBad (NumP ω (2 ^ k) P ⟨β, γ, α⟩ (sepsOf t)) T (2 ^ k))
    (hid : (NumP ω (2 ^ k) P ⟨β, γ, α⟩ (sepsOf t)).eval z = T.eval z * (z ^ 2 ^ k - 1)) :
    lay.rowsHoldW (extractW ω P lay) 0 lay.gates.size ∧
    (∀ x, extractW ω P lay x < R) ∧
    (extractC ω P lay).gates = lay.gates ∧ (extractC ω P lay).pis = lay.pis ∧
    (extractC ω P lay).sysSat = true ∧
    Composer.copyViolation lay (extractC ω P lay) = none := by
  obtain ⟨h1, h2⟩ := soundness_core lay hk hn hω P I β γ hβ hγ t ht α hα T z hz hid
  have hconst := (respects_iff_const lay (wireVal ω P)).mp h2
  have hs := sysSat_extract (ω := ω) (P := P) hwf (by rw [hpad]; exact h1) (by rw [hpad]; exact hn)
    hconst
  exact ⟨rowsHoldW_extract hn hwf h1 hconst, extractW_lt ω P lay, rfl, rfl, hs.1, hs.2⟩

/-- non-vacuity: the instance layout is well formed and padded to `2^1` (the other hypotheses are
    those of `soundness_algebraic`, satisfiable by the example above) -/
example : LayoutWF exLay2 ∧ exLay2.paddedSize = 2 ^ 1 ∧ exLay2.gates.size ≤ 2 ^ 1 :=
  ⟨exLay2_wf, exLay2_padded, by decide⟩

/-- **The verifier's equation is the quotient identity.**  `ι` interprets the commitments of the
    verifier key and of the proof as the polynomials they commit to ((A1); `AgmRep`), the fifteen
    evaluations of the proof are the true evaluations at `z` and `ωz` (`TrueEvals`, enforced by the
    opening layer), `zh = zⁿ − 1`, `l1 = L₁(z)`, `piEval = PI(z)` (what `lagrangeAndPi` and
    `evaluateVanishing` compute).  Then for the model's own `linearizationTerms` and `r0Eval`
    (the polynomial `D = evalTerms ι (linearizationTerms …)` is the linearisation polynomial):
      `(D − u·Z)(z) + r₀ = Num(z) − (zⁿ − 1)·T(z)`, `T = t_low + Xⁿ t_mid + X²ⁿ t_high + X³ⁿ t_4`,
    so the opening claim `(D − u·Z)(z) = −r₀` that the verifier checks holds iff
    `Num(z) = T(z)·(zⁿ − 1)`, the hypothesis of `soundness_algebraic`. -/
theorem verifier_identity_is_quotient_identity (ι : G1 → F[X]) (k : VKey) (p : ProofM)
    (ch : Challenges) (zh l1 piEval : Nat) (ω : F) (n : ℕ) (P : ProverPolys F) (A : AgmRep ι k p P)
    (E : TrueEvals ω (toF ch.z) p.ev P) (hzh : toF zh = toF ch.z ^ n - 1)
    (hl1 : toF l1 = (L1P n).eval (toF ch.z)) (hpi : toF piEval = P.pi.eval (toF ch.z)) :
    ((evalTerms ι (linearizationTerms k p ch zh l1) - toF ch.u • ι p.zC).eval (toF ch.z) +
        toF (r0Eval p.ev ch l1 piEval) =
      (NumP ω n P ⟨toF ch.beta, toF ch.gamma, toF ch.alpha⟩
          ⟨toF ch.rangeSep, toF ch.logicSep, toF ch.fixedSep, toF ch.varSep⟩).eval (toF ch.z) -
        (toF ch.z ^ n - 1) * (quotientOf ι p n).eval (toF ch.z)) ∧
    ((evalTerms ι (linearizationTerms k p ch zh l1) - toF ch.u • ι p.zC).eval (toF ch.z) =
        - toF (r0Eval p.ev ch l1 piEval) ↔
      (NumP ω n P ⟨toF ch.beta, toF ch.gamma, toF ch.alpha⟩
          ⟨toF ch.rangeSep, toF ch.logicSep, toF ch.fixedSep, toF ch.varSep⟩).eval (toF ch.z) =
        (quotientOf ι p n).eval (toF ch.z) * (toF ch.z ^ n - 1)) :=
  ⟨linearisation_is_quotient_identity ι k p ch zh l1 piEval ω n P A E hzh hl1 hpi,
    verifier_claim_iff_quotient_identity ι k p ch zh l1 piEval ω n P A E hzh hl1 hpi⟩

/-- non-vacuity: every commitment interpreted as the constant polynomial `7`, wires `1, 2, 3, 4`,
    `z = 5`, `n = 2`, `ω = −1`: `zh = 24`, `L₁(5) = 3` -/
example (k : VKey) (p : ProofM) :
    AgmRep (fun _ => C 7) k { p with ev := exEv3 } exP3 ∧
    TrueEvals (-1) (toF ({ (default : Challenges) with z := 5 } : Challenges).z)
      ({ p with ev := exEv3 } : ProofM).ev exP3 ∧
    toF 24 = toF 5 ^ 2 - 1 ∧ toF 3 = (L1P 2).eval (toF 5) ∧ toF 0 = exP3.pi.eval (toF 5) :=
  ⟨ex_agmRep k _, ex_trueEvals, ex_verifier_side⟩

end Plonk.Props.C02
