/-
  C15 — "Compressed circuit descriptions compile to the identical keys."

  Status of the statements below (all about the model's own `dictInsert`, `remapWitness`,
  `decompressCompress`, `maxConstraints`, `truncateLen`, `nextPow2`, `compile`, `CompressedShape.valid`,
  `packedSizeLimit`):

  * items 1, 2, 3, 6: full.
  * item 4 (`capacity_equiv`): the literal equivalence `c ≤ maxConstraints d ↔ trim succeeds` is FALSE for the
    empty description on small parameters (`c = 0`, `d < 14`: `max_constraints` saturates at `0`, so `0 ≤ 0`
    passes `from_bytes`, while `trim(nextPow2(6) = 8)` needs degree `14`); see `capacity_counterexample`.
    Delivered: `capacity_exact` (the exact characterisation, all `c`, `d`), `capacity_equiv` (the literal
    equivalence under the forced hypothesis `0 < c ∨ 14 ≤ d`), and `routes_agree` (what the property needs, for
    ALL `c`, `d`: the compressed route = bound of `from_bytes` AND THEN the same `trim`, so both routes succeed
    or fail together; the bound never rejects what `trim` accepts).  Forced hypothesis in all three:
    `c + 6 ≤ 2^64` (the model's `nextPow2` runs 64 doublings, as `usize::next_power_of_two`; beyond that the
    Rust code overflows).
  * item 5: full under one forced hypothesis.  `compress_compile_same_keys`: for every `srs`, commit-key
    length, label and composer `c` with `WiresInRange c` (every gate wire `< c.wit.size`),
    `compile … (decompressCompress c) = (compile … c).map (fun k => { k with lay := decompressCompress c })`,
    i.e. the same error, or a prover key equal in every field (`n constraints label sel sigma vk piIndexes x g
    ckLen selE sigE8 linE vh`, hence `PKey.verifier` too) except the recorded layout `lay`, which is not
    serialized (`compress_compile_same_fields`, `compress_compile_same_error`).  The sigma maps come from
    `Perm.relabel_sigma` (lean-c05b, Plonk/Proofs/PermutationRelabel.lean).  `WiresInRange c` is FORCED: the
    model's `wirePositions` silently drops wires `≥ wit.size` (the Rust code would panic on them), whereas the
    rebuilt composer gives them fresh in-range labels, so the sigma maps would differ.  It holds for every
    composer built by the gadgets.  `compress_compile_same_keys_of_sigma` is the hypothesis-free reduction to
    the equality of the sigma maps.  The model has no `PKey → bytes` serializer, so "identical bytes" is stated
    as equality of all the fields that reach the serializers.
-/
import Plonk.Proofs.CompressModel
namespace Plonk.Props.C15
open Plonk Plonk.CompressModel

theorem placeholder_consts : Generated.PACKED_BYTES_PER_CONSTRAINT = 857 ∧ Generated.PACKED_FIXED_BYTES = 30 ∧ Generated.SELECTORS_PER_POLYNOMIAL = 11 := by decide

/-! ### the running example: 3 gates, witness 2 unused, gates 0 and 2 share their selector tuple,
    a zero-valued public input on row 0 and row 2 inserted twice -/

def exC : Composer :=
  { gates := #[{ ql := 1, qo := 2, qarith := 1, a := 4, b := 1, c := 4, d := 0 },
               { qm := 3, qc := 5, a := 1, b := 3, c := 0, d := 0 },
               { ql := 1, qo := 2, qarith := 1, a := 3, b := 3, c := 4, d := 0 }],
    wit := #[0, 11, 12, 13, 14],
    pis := #[(2, 9), (0, 0), (2, 5)] }

/-! ## 1. the dictionary -/

/-- `dictInsert` is an index-of-first-occurrence dictionary -/
theorem dictInsert_first_occurrence {tbl tbl' : List Nat} {k i : Nat} (h : dictInsert tbl k = (tbl', i)) :
    tbl'[i]? = some k ∧ tbl <+: tbl' ∧ (∀ j, j < i → tbl'[j]? ≠ some k) :=
  dictInsert_spec h

example : dictInsert [7, 5, 7, 9] 7 = ([7, 5, 7, 9], 0) ∧ dictInsert [7, 5, 7, 9] 4 = ([7, 5, 7, 9, 4], 4) := by decide

/-- `dict_roundtrip`: folding keys through the dictionary and looking the indices up in the final table returns
    the keys, for ANY initial table (duplicates included); the initial table stays a prefix -/
theorem dict_roundtrip (tbl keys : List Nat) :
    (dictFold tbl keys).2.map (fun i => (dictFold tbl keys).1[i]?) = keys.map some ∧
    tbl <+: (dictFold tbl keys).1 ∧ (dictFold tbl keys).2.length = keys.length ∧
    (dictFold tbl keys).1.length ≤ tbl.length + keys.length :=
  ⟨(CompressModel.dict_roundtrip tbl keys).1, (CompressModel.dict_roundtrip tbl keys).2.1,
   (CompressModel.dict_roundtrip tbl keys).2.2, dictFold_length_le keys tbl⟩

/-- base table with a duplicate (`0` twice), repeated keys: first index wins, new keys are appended once -/
example : dictFold [0, 1, 2, 0] [5, 0, 5, 7, 2] = ([0, 1, 2, 0, 5, 7], [4, 0, 4, 5, 2]) := by decide

/-! ## 2. the witness relabelling -/

/-- `first_use_relabel_injective`: after any sequence of labels the map is a bijection between the labels seen
    and `{0..next-1}`, assigned in order of first use; the outputs are the images of the labels -/
theorem first_use_relabel_injective (ws : List Nat) :
    (remapAll ws).2.2 = ws.map (look (remapAll ws).1) ∧
    (∀ u, u ∈ ws → ∀ v, v ∈ ws → look (remapAll ws).1 u = look (remapAll ws).1 v → u = v) ∧
    (∀ u, u ∈ ws → look (remapAll ws).1 u < (remapAll ws).2.1) ∧
    (∀ v, v < (remapAll ws).2.1 → ∃ u, u ∈ ws ∧ look (remapAll ws).1 u = v) ∧
    (∀ u, u ∈ ws → ∀ v, v ∈ ws →
      (look (remapAll ws).1 u < look (remapAll ws).1 v ↔ ws.idxOf u < ws.idxOf v)) ∧
    (remapAll ws).2.1 = ws.toFinset.card ∧
    (∀ u, u ∈ (remapAll ws).1.map (·.1) ↔ u ∈ ws) := by
  obtain ⟨h, e⟩ := remapAll_spec ws
  exact ⟨e, fun u hu v hv => h.inj hu hv, h.bound, h.surj, h.order, h.card, h.keys⟩

example : remapAll [4, 1, 4, 0, 1, 3] = ([(3, 3), (0, 2), (1, 1), (4, 0)], 4, [0, 1, 0, 2, 1, 3]) := by decide

/-! ## 3. structure of `decompressCompress` -/

/-- same gates up to the first-use relabelling `f` of the wires (injective on the used labels, onto
    `{0..count-1}`, ordered by first use), `count` = number of distinct labels used, all witness values zero,
    public-input rows = the original rows sorted and de-duplicated, with value zero -/
theorem decompress_structure (c : Composer) :
    (decompressCompress c).gates = c.gates.map (relabel (firstUseMap c)) ∧
    (decompressCompress c).gates.size = c.gates.size ∧
    (decompressCompress c).paddedSize = c.paddedSize ∧
    (∀ i, selectorsOf ((decompressCompress c).gateAt i) = selectorsOf (c.gateAt i)) ∧
    (decompressCompress c).wit = Array.replicate (usedWires c).toFinset.card 0 ∧
    (∀ u, u ∈ usedWires c → ∀ v, v ∈ usedWires c → firstUseMap c u = firstUseMap c v → u = v) ∧
    (∀ u, u ∈ usedWires c → firstUseMap c u < (usedWires c).toFinset.card) ∧
    (∀ v, v < (usedWires c).toFinset.card → ∃ u, u ∈ usedWires c ∧ firstUseMap c u = v) ∧
    (∀ u, u ∈ usedWires c → ∀ v, v ∈ usedWires c →
      (firstUseMap c u < firstUseMap c v ↔ (usedWires c).idxOf u < (usedWires c).idxOf v)) ∧
    (∃ rows : List Nat, (decompressCompress c).pis = (rows.map fun r => (r, 0)).toArray ∧
      rows.Pairwise (· < ·) ∧ ∀ r, r ∈ rows ↔ r ∈ c.pis.toList.map (·.1)) := by
  refine ⟨dc_gates c, dc_size c, dc_paddedSize c, dc_selectors c, ?_, fun u hu v hv => firstUse_inj c hu hv, ?_, ?_,
    fun u hu v hv => firstUse_order c hu hv, _, dc_pis c, (sortedRows_spec c).1, (sortedRows_spec c).2⟩
  · rw [dc_wit, firstUseCount_eq]
  · intro u hu; rw [← firstUseCount_eq]; exact firstUse_lt c hu
  · intro v hv; rw [← firstUseCount_eq] at hv; exact firstUse_surj c hv

/-- on the example: labels `4,1,0,3` become `0,1,2,3`; the unused witness `2` disappears (4 witnesses instead
    of 5, all zero); rows `2,0,2` become `0,2` with value zero; selectors untouched -/
example :
    (decompressCompress exC).gates.toList =
      [{ ql := 1, qo := 2, qarith := 1, a := 0, b := 1, c := 0, d := 2 },
       { qm := 3, qc := 5, a := 1, b := 3, c := 2, d := 2 },
       { ql := 1, qo := 2, qarith := 1, a := 3, b := 3, c := 0, d := 2 }] ∧
    (decompressCompress exC).wit.toList = [0, 0, 0, 0] ∧
    (decompressCompress exC).pis.toList = [(0, 0), (2, 0)] ∧
    usedWires exC = [4, 1, 4, 0, 1, 3, 0, 0, 3, 3, 4, 0] := by decide

/-! ## 4. capacity -/

/-- exact characterisation of the direct route, for all `c` and all `maxDegree` (= `pp.max_degree()`) -/
theorem capacity_exact (c maxDegree : Nat) (hc : c + Generated.CIRCUIT_SIZE_PADDING ≤ 2 ^ 64) :
    (∃ k, truncateLen (maxDegree + 1)
        (nextPow2 (c + Generated.CIRCUIT_SIZE_PADDING) + Generated.ADDED_BLINDING_DEGREE) = .ok k) ↔
    (c ≤ maxConstraints maxDegree ∧ (0 < c ∨ 14 ≤ maxDegree)) :=
  CompressModel.capacity_exact c maxDegree hc

/-- `capacity_equiv` (literal statement, under the forced hypothesis `0 < c ∨ 14 ≤ maxDegree`) -/
theorem capacity_equiv (c maxDegree : Nat) (hc : c + Generated.CIRCUIT_SIZE_PADDING ≤ 2 ^ 64)
    (hne : 0 < c ∨ 14 ≤ maxDegree) :
    c ≤ maxConstraints maxDegree ↔
    (∃ k, truncateLen (maxDegree + 1)
        (nextPow2 (c + Generated.CIRCUIT_SIZE_PADDING) + Generated.ADDED_BLINDING_DEGREE) = .ok k) :=
  CompressModel.capacity_equiv c maxDegree hc hne

/-- the two routes succeed or fail for exactly the same capacities (ALL `c`, `maxDegree`): the compressed route
    is `c ≤ max_constraints` (in `from_bytes`) followed by the same `trim` -/
theorem routes_agree (c maxDegree : Nat) (hc : c + Generated.CIRCUIT_SIZE_PADDING ≤ 2 ^ 64) :
    (c ≤ maxConstraints maxDegree ∧
      ∃ k, truncateLen (maxDegree + 1)
        (nextPow2 (c + Generated.CIRCUIT_SIZE_PADDING) + Generated.ADDED_BLINDING_DEGREE) = .ok k) ↔
    (∃ k, truncateLen (maxDegree + 1)
        (nextPow2 (c + Generated.CIRCUIT_SIZE_PADDING) + Generated.ADDED_BLINDING_DEGREE) = .ok k) :=
  CompressModel.routes_agree c maxDegree hc

/-- when `trim` succeeds the trimmed key has `nextPow2(c+6) + 7` points and the `d == 1` branch of `truncate`
    is unreachable (`d ≥ 14`) -/
theorem trim_value {c maxDegree k : Nat} (hc : c + Generated.CIRCUIT_SIZE_PADDING ≤ 2 ^ 64)
    (h : truncateLen (maxDegree + 1)
        (nextPow2 (c + Generated.CIRCUIT_SIZE_PADDING) + Generated.ADDED_BLINDING_DEGREE) = .ok k) :
    k = nextPow2 (c + Generated.CIRCUIT_SIZE_PADDING) + Generated.ADDED_BLINDING_DEGREE + 1 ∧
    14 ≤ nextPow2 (c + Generated.CIRCUIT_SIZE_PADDING) + Generated.ADDED_BLINDING_DEGREE :=
  trim_ok_value hc h

/-- the hypotheses are satisfiable and the boundary is sharp: `max_degree = 22` holds exactly 10 constraints -/
example : (10 + Generated.CIRCUIT_SIZE_PADDING ≤ 2 ^ 64) ∧ maxConstraints 22 = 10 ∧
    truncateLen 23 (nextPow2 (10 + Generated.CIRCUIT_SIZE_PADDING) + Generated.ADDED_BLINDING_DEGREE) = .ok 23 ∧
    truncateLen 23 (nextPow2 (11 + Generated.CIRCUIT_SIZE_PADDING) + Generated.ADDED_BLINDING_DEGREE)
      = .error .truncatedDegreeTooLarge ∧ maxConstraints 6 = 0 ∧ maxConstraints 0 = 0 := by
  refine ⟨by decide, by decide, rfl, rfl, by decide, by decide⟩

/-- why the literal equivalence needs `0 < c ∨ 14 ≤ maxDegree`: the empty description passes the bound of
    `from_bytes` on parameters of degree 13, where `trim` fails (harmless: the compressed route runs the same
    `trim` afterwards and fails there) -/
theorem capacity_counterexample : 0 ≤ maxConstraints 13 ∧
    truncateLen (13 + 1) (nextPow2 (0 + Generated.CIRCUIT_SIZE_PADDING) + Generated.ADDED_BLINDING_DEGREE)
      = .error .truncatedDegreeTooLarge := ⟨Nat.zero_le _, rfl⟩

/-! ## 5. same keys -/

/-- the two compilations agree (success or error; every field of the prover key other than the recorded layout,
    hence the verifier as well) as soon as the sigma maps agree -/
theorem compress_compile_same_keys_of_sigma (srs : SRS) (srsLen : Nat) (label : List Nat) (c : Composer)
    (hsig : sigmaMaps (decompressCompress c) (nextPow2 c.gates.size) = sigmaMaps c (nextPow2 c.gates.size)) :
    compile srs srsLen label (decompressCompress c) =
      (compile srs srsLen label c).map (fun k => { k with lay := decompressCompress c }) :=
  dc_compile_of_sigma srs srsLen label c hsig

/-- the hypothesis holds on the example (sigma maps on the padded domain of size 4) -/
example : sigmaMaps (decompressCompress exC) (nextPow2 exC.gates.size) = sigmaMaps exC (nextPow2 exC.gates.size) := by
  decide +kernel

/-- `compress_compile_same_keys`: for every circuit whose gate wires are allocated witnesses, every
    parameter set and every label, compiling the rebuilt composer returns the same result as compiling the
    circuit directly — the same error, or a prover key equal in every field except the recorded layout -/
theorem compress_compile_same_keys (srs : SRS) (srsLen : Nat) (label : List Nat) (c : Composer)
    (h : WiresInRange c) :
    compile srs srsLen label (decompressCompress c) =
      (compile srs srsLen label c).map (fun k => { k with lay := decompressCompress c }) :=
  dc_compile srs srsLen label c h

/-- field by field (everything that reaches the serialized prover and verifier) -/
theorem compress_compile_same_fields (srs : SRS) (srsLen : Nat) (label : List Nat) (c : Composer)
    (h : WiresInRange c) {k : PKey} (hk : compile srs srsLen label c = .ok k) :
    ∃ k', compile srs srsLen label (decompressCompress c) = .ok k' ∧
      k'.n = k.n ∧ k'.constraints = k.constraints ∧ k'.label = k.label ∧ k'.sel = k.sel ∧ k'.sigma = k.sigma ∧
      k'.vk = k.vk ∧ k'.piIndexes = k.piIndexes ∧ k'.ckLen = k.ckLen ∧ k'.selE = k.selE ∧ k'.sigE8 = k.sigE8 ∧
      k'.linE = k.linE ∧ k'.vh = k.vh ∧ k'.x = k.x ∧ k'.g = k.g ∧ k'.verifier srs = k.verifier srs := by
  rw [dc_compile srs srsLen label c h, hk]
  exact ⟨_, rfl, rfl, rfl, rfl, rfl, rfl, rfl, rfl, rfl, rfl, rfl, rfl, rfl, rfl, rfl, rfl⟩

/-- and the two routes fail with the same error -/
theorem compress_compile_same_error (srs : SRS) (srsLen : Nat) (label : List Nat) (c : Composer)
    (h : WiresInRange c) {e : PErr} (hk : compile srs srsLen label c = .error e) :
    compile srs srsLen label (decompressCompress c) = .error e := by
  rw [dc_compile srs srsLen label c h, hk]; rfl

/-- the hypothesis holds on the example, whose compressed form is a genuinely different composer -/
example : WiresInRange exC ∧ (decompressCompress exC).gates ≠ exC.gates ∧
    (decompressCompress exC).wit.size ≠ exC.wit.size := by
  refine ⟨?_, by decide, by decide⟩
  intro i hi
  have hi' : i < 3 := hi
  rcases i with _ | _ | _ | i
  · clear hi'; decide +revert
  · clear hi'; decide +revert
  · clear hi'; decide +revert
  · omega

/-! ## 6. bounded decoding -/

/-- after validation every count is within the capacity and no out-of-range index can reach reconstruction -/
theorem bounded_decode {s : CompressedShape} {base max : Nat} (h : s.valid base max = true) :
    s.publicInputs.length ≤ max ∧ s.polynomials.length ≤ max ∧ s.constraints.length ≤ max ∧
    s.scalars ≤ 11 * max ∧
    (∀ r, r ∈ s.publicInputs → r < s.constraints.length) ∧
    s.publicInputs.Pairwise (· < ·) ∧
    (∀ p, p ∈ s.polynomials → ∀ i, i ∈ p → i < base + s.scalars) ∧
    (∀ q, q ∈ s.constraints → q.1 < s.polynomials.length ∧ q.2.1 < s.witnesses ∧ q.2.2.1 < s.witnesses ∧
        q.2.2.2.1 < s.witnesses ∧ q.2.2.2.2 < s.witnesses) :=
  CompressModel.bounded_decode h

/-- a valid description: the compressed form of the example (2 polynomials, 3 constraints, rows 0 and 2) -/
example : CompressedShape.valid
    { publicInputs := [0, 2], witnesses := 5, scalars := 3,
      polynomials := [[0, 1, 0, 3, 0, 0, 1, 0, 0, 0, 0], [4, 0, 0, 0, 0, 5, 0, 0, 0, 0, 0]],
      constraints := [(0, 4, 1, 4, 0), (1, 1, 3, 0, 0), (0, 3, 3, 4, 0)] } 3 3 = true := by decide

/-- a description with more constraints than the capacity is rejected -/
theorem too_many_constraints_rejected {s : CompressedShape} {base max : Nat} (h : max < s.constraints.length) :
    s.valid base max = false :=
  too_many_constraints_invalid h

example : CompressedShape.valid
    { publicInputs := [0, 2], witnesses := 5, scalars := 3,
      polynomials := [[0, 1, 0, 3, 0, 0, 1, 0, 0, 0, 0], [4, 0, 0, 0, 0, 5, 0, 0, 0, 0, 0]],
      constraints := [(0, 4, 1, 4, 0), (1, 1, 3, 0, 0), (0, 3, 3, 4, 0)] } 3 2 = false := by decide

/-- the inflate limit of `from_bytes` is linear in the capacity -/
theorem packed_size_limit (max : Nat) : packedSizeLimit max = 857 * max + 30 := packedSizeLimit_eq max

theorem packed_size_limit_mono {a b : Nat} (h : a ≤ b) : packedSizeLimit a ≤ packedSizeLimit b :=
  packedSizeLimit_mono h

example : packedSizeLimit 2 = 1744 := by decide

end Plonk.Props.C15
