import Plonk.Model.Compress
namespace Plonk.Props.C15
open Plonk
theorem placeholder_consts : Generated.PACKED_BYTES_PER_CONSTRAINT = 857 ∧ Generated.PACKED_FIXED_BYTES = 30 ∧ Generated.SELECTORS_PER_POLYNOMIAL = 11 := by decide
end Plonk.Props.C15
