/-
  C12 — Curve-group components compute the JubJub group law.

  "For points of the prime-order subgroup, component_add_point, component_sub_point,
  component_neg_point, component_mul_point and component_select_identity are always satisfiable
  and return exactly the group sum, difference, negation, scalar multiple (for any 252-bit scalar)
  and bit-selected point; component_select_point returns the chosen input for a boolean bit.  The
  coordinates they return are uniquely determined, and component_select_identity is unsatisfiable
  for a non-boolean bit."

  STATUS: everything is proved at full strength about the model's own functions
  (`Composer.componentAddPoint` = `addPointGates`, `componentNegPoint`, `componentSubPoint`,
  `componentSelectIdentity`, `componentSelectPoint`, `componentMulPoint`); there is no `_partial`
  theorem.  Part I is the math-level core (field facts, host-side addition, the row semantics of
  the curve-addition gate, the ladder); Part II is the composer level.

  Conventions (Part II).  `c` is the composer state before the call, `c'` the state after it,
  `c''` any later state (`Extends c' c''`); `w : Nat → Nat` is an ARBITRARY assignment of values
  to witness indices (inputs, outputs and helper wires all prover-chosen);
  `c''.rowsHoldW w c.gates.size c'.gates.size` says that the rows appended by the call hold under
  `w`; `ptW w p = (toF (w p.1), toF (w p.2))` is the field point carried by the wire pair `p`;
  `PtAlloc c p` says both wires are allocated.  `AppendsL c c' k m` (`Proofs/PointGadgets.lean`):
  `c'` extends `c` by exactly `k` gates and `m` witnesses and the last appended gate is plain (reads
  no next-row wire — so nothing appended later changes the meaning of the component's rows).
  `WF c` (C08): witness values reduced and no public input registered for a non-existent row
  (`PiFresh`); an invariant of every state reachable from `initialized`.
  For each component: `X_extends` (returned indices, counts, invariants), `X_sound` (every
  satisfying assignment carries the group-law result; unique coordinates, unique helper wires),
  `X_complete` (the model's own witness table satisfies the rows and stores the group-law result),
  `X_exact` (the set of satisfying assignments, as an iff).

  ON "POINTS OF THE PRIME-ORDER SUBGROUP".  All results are stated for input points ON THE CURVE
  (field-level `OnCurveP`); the prime-order subgroup is a subset, so they hold a fortiori for its
  points.  "P in the subgroup" is ONLY needed to call the result "the group law of the prime-order
  subgroup": the subgroup (`InSubgroup P` := on the curve and `[r_J]P = O`) is closed under sum,
  negation, difference, scalar multiples and bit selection (`subgroup_closed`,
  `subgroup_closed_sel`) — a consequence of the `AddCommGroup` structure on curve points
  (`CurvePt.addCommGroup`, associativity proved in `Proofs/EdwardsAssoc.lean`).  Nothing depends
  on the hypothesis structure `JubjubGroupFacts` (the group order is not needed for C12).
  The completeness of the addition law on ALL curve points (`d` non-square) is what makes the
  components "always satisfiable": the host never hits a pole.

  Forced hypotheses (findings; none is a defect of the Rust code):
    * inputs on the curve: off the curve the addition row can be unsatisfiable (a pole, see the
      example after `add_complete`) or satisfied by values that are not a group law.  The
      components do NOT check curve membership; callers get it from `append_point`-style
      constructors / the on-curve output of earlier components (every `X_sound` returns
      `OnCurveP` of the output so that components chain).
    * `PiFresh c` / `WF c`: as in C08/C09 (stale sparse public inputs would leak into fresh rows).
    * `component_mul_point`: `toF (w 0) = 0 ∧ toF (w 1) = 1` — the ladder starts from the constant
      witnesses `(ZERO, ONE)` = identity, whose values are pinned by rows 0, 1 of
      `Composer::initialized()` (`initialized_base_ext`), not by the component; and the zero
      witness is the initial accumulator of the decomposition.
    * completeness: inputs allocated (`PtAlloc`, `bit < c.wit.size`, `s < c.wit.size`).
    * `component_select_point` does NOT constrain the bit to be boolean (the property only claims
      the chosen input "for a boolean bit"); for a non-boolean bit the output is the affine
      combination `bit·a + (1 − bit)·b`, in general off the curve.
    * `component_select_identity` with bit value `b ∉ {0,1}` is unsatisfiable
      (`componentSelectIdentity_unsat`).
    * `component_mul_point`: the rows force the scalar witness below `2^252`
      (`componentMulPoint_sound`), and are satisfiable exactly then; a scalar witness `≥ 2^252`
      (e.g. a reduced JubJub scalar is always below, but an arbitrary BLS scalar need not be) makes
      the circuit unsatisfiable (`componentMulPoint_unsat`).
-/
import Plonk.Proofs.PointExamples
namespace Plonk.Props.C12
open Plonk Plonk.Composer

theorem placeholder_consts : Generated.JUBJUB_SCALAR_BITS = 252 ∧ Generated.FIXED_BASE_LEADING_ZERO_ROUNDS = 3 ∧ Generated.MUL_POINT_BITS = 252 := by decide

/-- `EDWARDS_D` is a quadratic non-residue of `F_r` (Euler's criterion, kernel-evaluated). -/
theorem d_nonresidue : ¬ IsSquare (toF EDWARDS_D) := Plonk.d_nonresidue

/-- `−1` is a quadratic residue of `F_r`. -/
theorem neg_one_residue : IsSquare (-1 : F) := Plonk.neg_one_is_square

/-- Completeness of the addition law on the model's points: on curve points the denominators
    `1 ± d·x₁x₂y₁y₂` do not vanish, `edAdd?` succeeds, `edAddOrId` (what `add_point_gates`
    computes on the host) never takes its identity fallback, and the sum is on the curve. -/
theorem add_complete (p q : Pt) (hp : onCurve p = true) (hq : onCurve q = true) :
    (1 + toF EDWARDS_D * toF p.1 * toF q.1 * toF p.2 * toF q.2 ≠ 0 ∧
     1 - toF EDWARDS_D * toF p.1 * toF q.1 * toF p.2 * toF q.2 ≠ 0) ∧
    edAdd? p q = some (edAddOrId p q) ∧
    onCurve (edAddOrId p q) = true :=
  ⟨Plonk.add_complete ((onCurve_iff p).mp hp) ((onCurve_iff q).mp hq),
   edAdd?_on_curve p q hp hq, edAddOrId_on_curve p q hp hq⟩

example : onCurve exG = true ∧ exG ≠ Pt.id := ⟨exG_on_curve, by decide +kernel⟩
example : edAdd? exG exG = some (edAddOrId exG exG) := (add_complete exG exG exG_on_curve exG_on_curve).2.1
/-- the hypothesis matters: off the curve `edAdd?` does hit poles -/
example : ∃ p q : Pt, edAdd? p q = none := ⟨(1, 1), (fneg (finv EDWARDS_D), 1), by decide +kernel⟩

/-- The host-side addition is associative and commutative on curve points (so the points with
    `edAddOrId`, `Pt.id`, `edNeg` form an abelian group: `CurvePt.addCommGroup`). -/
theorem add_assoc_comm (p q r : Pt) (hp : onCurve p = true) (hq : onCurve q = true)
    (hr : onCurve r = true) :
    edAddOrId (edAddOrId p q) r = edAddOrId p (edAddOrId q r) ∧ edAddOrId p q = edAddOrId q p :=
  ⟨edAddOrId_assoc p q r hp hq hr, edAddOrId_comm p q hp hq⟩

example : edAddOrId (edAddOrId exG exG) (edNeg exG) = edAddOrId exG (edAddOrId exG (edNeg exG)) :=
  (add_assoc_comm exG exG (edNeg exG) exG_on_curve exG_on_curve
    (edNeg_on_curve exG exG_on_curve)).1

/-- The three components of the curve-addition widget in the field
    (`x1=a, y1=b, x2=c, y2=d` on the row; `x3=a', y3=b', x1y2=d'` on the next row). -/
theorem var_add_comps_iff (a an b bn c d dn : Nat) :
    allZero (varComps a an b bn c d dn) = true ↔
      toF a * toF d = toF dn ∧
      toF an * (1 + toF EDWARDS_D * toF dn * (toF b * toF c)) = toF dn + toF b * toF c ∧
      toF bn * (1 - toF EDWARDS_D * toF dn * (toF b * toF c)) = toF b * toF d + toF a * toF c :=
  varComps_zero_iff a an b bn c d dn

/-- `var_add_rows_iff`, row form: for the gate laid down by `Constraint.groupAddVariableBase`, with
    on-curve inputs on the row and canonical (reduced) values on the next row, the row holds iff
    the helper wire is `x₁·y₂` and `(x₃, y₃)` is the host's sum — unique helper, unique output. -/
theorem var_add_row_iff (s : Constraint) (a b c d an bn dn : Nat)
    (h1 : onCurve (a, b) = true) (h2 : onCurve (c, d) = true)
    (han : an < R) (hbn : bn < R) (hdn : dn < R) :
    rowHolds (Constraint.groupAddVariableBase s).toGate a b c d an bn dn 0 = true ↔
      dn = fmul a d ∧ (an, bn) = edAddOrId (a, b) (c, d) := by
  obtain ⟨hv, ha, hr, hl, hf⟩ := groupAddVariableBase_selectors s
  rw [rowHolds_var _ hv ha hr hl hf, ← varComps_zero_iff_VarRowF,
    varComps_zero_iff_model _ _ _ _ _ _ _ h1 h2 han hbn hdn]

/-- non-vacuity: the honest next row satisfies it, a wrong helper wire does not -/
example : ∃ an bn dn, an < R ∧ bn < R ∧ dn < R ∧
    rowHolds (Constraint.groupAddVariableBase { a := 1, b := 2, c := 1, d := 2 }).toGate
      exG.1 exG.2 exG.1 exG.2 an bn dn 0 = true :=
  have h : onCurve (exG.1, exG.2) = true := exG_on_curve
  have hlt := edAddOrId_lt (exG.1, exG.2) (exG.1, exG.2)
  ⟨_, _, _, hlt.1, hlt.2, fmul_lt exG.1 exG.2,
    (var_add_row_iff _ _ _ _ _ _ _ _ h h hlt.1 hlt.2 (fmul_lt _ _)).mpr ⟨rfl, rfl⟩⟩
example : rowHolds (Constraint.groupAddVariableBase { a := 1, b := 2, c := 1, d := 2 }).toGate
    exG.1 exG.2 exG.1 exG.2 (edAddOrId exG exG).1 (edAddOrId exG exG).2 0 0 = false := by
  decide +kernel

/-- Closure through a row: on-curve inputs and a satisfied row force an on-curve output (this is
    what lets the doublings of the torsion-free gadget and the ladder be chained). -/
theorem var_add_row_on_curve (a an b bn c d dn : Nat)
    (h1 : onCurve (a, b) = true) (h2 : onCurve (c, d) = true)
    (hr : allZero (varComps a an b bn c d dn) = true) : onCurve (an, bn) = true :=
  varComps_on_curve a an b bn c d dn h1 h2 hr

/-- `ladder_is_scalar_mul`: the MSB-first double-and-add ladder
    `acc ← edAddOrId (edAddOrId acc acc) (if bᵢ then P else O)` from the identity (the host-side
    computation of `component_mul_point`) stays on the curve and computes the scalar multiple
    `[Σ bᵢ 2^…]P` defined by repeated addition.  Unconditional. -/
theorem ladder_is_scalar_mul (P : Pt) (hP : onCurve P = true) (bits : List Bool) :
    onCurve (bits.foldl (fun acc b => edAddOrId (edAddOrId acc acc) (if b then P else Pt.id))
      Pt.id) = true ∧
    toFP (bits.foldl (fun acc b => edAddOrId (edAddOrId acc acc) (if b then P else Pt.id)) Pt.id)
      = smulF (bitsValMSB bits 0) (toFP P) :=
  ladderModel_is_scalar_mul P hP bits

example : toFP ([true, false, true].foldl
    (fun acc b => edAddOrId (edAddOrId acc acc) (if b then exG else Pt.id)) Pt.id)
      = smulF 5 (toFP exG) :=
  (ladder_is_scalar_mul exG exG_on_curve [true, false, true]).2

/-! # Part II — the composer components -/

/-! ## the prime-order subgroup is closed -/

/-- **subgroup_closed**: `[r_J]P = O ∧ [r_J]Q = O → [r_J](P+Q) = O`, likewise for `−P`, `P − Q`,
    `[n]P` and `O`: the results of the components on subgroup points are subgroup points. -/
theorem subgroup_closed {P Q : PtF} (hP : OnCurveP P) (hQ : OnCurveP Q)
    (kP : smulF RJ P = idF) (kQ : smulF RJ Q = idF) (n : ℕ) :
    smulF RJ (addF P Q) = idF ∧ smulF RJ (negF P) = idF ∧ smulF RJ (addF P (negF Q)) = idF ∧
    smulF RJ (smulF n P) = idF ∧ smulF RJ idF = idF :=
  Plonk.subgroup_closed hP hQ kP kQ n

/-- … and under bit selection -/
theorem subgroup_closed_sel {P : PtF} (hP : InSubgroup P) {b : F} (hb : b = 0 ∨ b = 1) :
    InSubgroup (selIdF b P) := hP.sel hb

/-- non-vacuity: the identity is a subgroup point; a point of order 2 is on the curve but not in
    the subgroup (`r_J` is odd) -/
example : InSubgroup idF := inSubgroup_id
example : OnCurveP ((0, -1) : PtF) ∧ addF ((0, -1) : PtF) (0, -1) = idF := by
  constructor
  · unfold OnCurveP OnCurveF; ring
  · unfold addF idF; simp

/-! ## `component_add_point` (= `add_point_gates`) -/

/-- `component_add_point a b` returns `(n+1, n+2)` (`n = c.wit.size`; the helper wire is `n`),
    appends 2 gates (a variable-base row and a plain closing row) and 3 witnesses, and preserves
    the invariants. -/
theorem componentAddPoint_extends (a b : Pt) (c : Composer) :
    ((componentAddPoint a b).run c).1 = (c.wit.size + 1, c.wit.size + 2) ∧
    AppendsL c ((componentAddPoint a b).run c).2 2 3 ∧
    (PiFresh c → PiFresh ((componentAddPoint a b).run c).2) ∧
    (WF c → WF ((componentAddPoint a b).run c).2) :=
  ⟨addPointGates_fst a b c, addPointGates_appendsL a b c, addPointGates_piFresh a b c,
    addPointGates_wf a b c⟩

/-- **Soundness.**  For every assignment `w` whose input wires carry curve points: if the rows
    hold (read in `c'` or any later state), the helper wire carries `x₁·y₂`, the returned pair
    carries the group sum — so all three new wires are uniquely determined — and the sum is on the
    curve. -/
theorem componentAddPoint_sound (a b : Pt) (c : Composer) (hpi : PiFresh c)
    (c'' : Composer) (hext : Extends ((componentAddPoint a b).run c).2 c'') (w : Nat → Nat)
    (h1 : OnCurveP (ptW w a)) (h2 : OnCurveP (ptW w b))
    (hrows : c''.rowsHoldW w c.gates.size ((componentAddPoint a b).run c).2.gates.size) :
    toF (w c.wit.size) = toF (w a.1) * toF (w b.2) ∧
    ptW w ((componentAddPoint a b).run c).1 = addF (ptW w a) (ptW w b) ∧
    OnCurveP (ptW w ((componentAddPoint a b).run c).1) :=
  addPointGates_sound a b c hpi w h1 h2
    (((addPointGates_appendsL a b c).rows_ext hext w).mp hrows)

/-- **Completeness.**  For allocated on-curve inputs the model's own witness table satisfies the
    rows (always satisfiable), and the returned pair stores the group sum of the input values. -/
theorem componentAddPoint_complete (a b : Pt) (c : Composer) (hpi : PiFresh c)
    (ha : PtAlloc c a) (hb : PtAlloc c b)
    (h1 : OnCurveP (ptW c.val a)) (h2 : OnCurveP (ptW c.val b))
    (c'' : Composer) (hext : Extends ((componentAddPoint a b).run c).2 c'') :
    c''.rowsHoldW c''.val c.gates.size ((componentAddPoint a b).run c).2.gates.size ∧
    ptW ((componentAddPoint a b).run c).2.val ((componentAddPoint a b).run c).1 =
      addF (ptW c.val a) (ptW c.val b) :=
  ⟨((addPointGates_appendsL a b c).rows_ext hext _).mpr
      (addPointGates_honest_ext a b c hpi ha hb h1 h2 hext),
    (addPointGates_val a b c h1 h2).2⟩

/-- **Exactness.**  On curve inputs, the satisfying assignments are exactly those whose helper
    wire is `x₁·y₂` and whose returned pair is the group sum. -/
theorem componentAddPoint_exact (a b : Pt) (c : Composer) (hpi : PiFresh c)
    (c'' : Composer) (hext : Extends ((componentAddPoint a b).run c).2 c'') (w : Nat → Nat)
    (h1 : OnCurveP (ptW w a)) (h2 : OnCurveP (ptW w b)) :
    c''.rowsHoldW w c.gates.size ((componentAddPoint a b).run c).2.gates.size ↔
      toF (w c.wit.size) = toF (w a.1) * toF (w b.2) ∧
      ptW w (c.wit.size + 1, c.wit.size + 2) = addF (ptW w a) (ptW w b) :=
  ((addPointGates_appendsL a b c).rows_ext hext w).trans
    (addPointGates_rows_iff_on_curve a b c hpi w h1 h2)

/-- completeness for every assignment of the old wires (not only the model's): it extends to the
    three new wires -/
theorem componentAddPoint_satisfiable (a b : Pt) (c : Composer) (hpi : PiFresh c)
    (ha : PtAlloc c a) (hb : PtAlloc c b) (w0 : Nat → Nat)
    (h1 : OnCurveP (ptW w0 a)) (h2 : OnCurveP (ptW w0 b)) :
    ∃ w, (∀ i, i < c.wit.size → w i = w0 i) ∧
      ((componentAddPoint a b).run c).2.rowsHoldW w c.gates.size
        ((componentAddPoint a b).run c).2.gates.size :=
  addPointGates_exists a b c hpi ha hb w0 h1 h2

/-- non-vacuity (instance `exC`: `initialized` + `exG` on wires (6,7) + `2·exG` on wires (8,9)):
    the model's table satisfies the rows of `exG + 2·exG`, stores the sum, and soundness applied to
    that table returns an on-curve output -/
example : ptW ((componentAddPoint (6, 7) (8, 9)).run exC).2.val
      ((componentAddPoint (6, 7) (8, 9)).run exC).1 = addF (toFP exG) (toFP exH) := by
  have := (componentAddPoint_complete (6, 7) (8, 9) exC exC_wf.piFresh exC_allocG exC_allocH
    exC_onG exC_onH _ (Extends.refl _)).2
  rwa [exC_ptG, exC_ptH] at this
example : OnCurveP (ptW ((componentAddPoint (6, 7) (8, 9)).run exC).2.val
      ((componentAddPoint (6, 7) (8, 9)).run exC).1) :=
  have hx := (componentAddPoint_extends (6, 7) (8, 9) exC).2.1.ext
  (componentAddPoint_sound (6, 7) (8, 9) exC exC_wf.piFresh _ (Extends.refl _) _
    (by rw [hx.ptW_val_eq exC_allocG]; exact exC_onG)
    (by rw [hx.ptW_val_eq exC_allocH]; exact exC_onH)
    (componentAddPoint_complete (6, 7) (8, 9) exC exC_wf.piFresh exC_allocG exC_allocH
      exC_onG exC_onH _ (Extends.refl _)).1).2.2

/-! ## `component_neg_point` -/

/-- `component_neg_point p` returns `(n, p.2)`, appends one plain gate and one witness -/
theorem componentNegPoint_extends (p : Pt) (c : Composer) :
    ((componentNegPoint p).run c).1 = (c.wit.size, p.2) ∧
    AppendsL c ((componentNegPoint p).run c).2 1 1 ∧
    (WF c → WF ((componentNegPoint p).run c).2) :=
  ⟨Composer.componentNegPoint_fst p c, componentNegPoint_appendsL p c,
    Composer.componentNegPoint_wf p c⟩

/-- **Soundness** (no curve hypothesis needed for the value): the returned pair carries `−P`; it
    is on the curve if `P` is. -/
theorem componentNegPoint_sound (p : Pt) (c : Composer) (h : WF c)
    (c'' : Composer) (hext : Extends ((componentNegPoint p).run c).2 c'') (w : Nat → Nat)
    (hrows : c''.rowsHoldW w c.gates.size ((componentNegPoint p).run c).2.gates.size) :
    ptW w ((componentNegPoint p).run c).1 = negF (ptW w p) ∧
    (OnCurveP (ptW w p) → OnCurveP (ptW w ((componentNegPoint p).run c).1)) :=
  Composer.componentNegPoint_sound p c h w
    (((componentNegPoint_appendsL p c).rows_ext hext w).mp hrows)

/-- **Completeness**: always satisfiable (allocated input); the model stores `−P`. -/
theorem componentNegPoint_complete (p : Pt) (c : Composer) (h : WF c) (hp : PtAlloc c p)
    (c'' : Composer) (hext : Extends ((componentNegPoint p).run c).2 c'') :
    c''.rowsHoldW c''.val c.gates.size ((componentNegPoint p).run c).2.gates.size ∧
    ptW ((componentNegPoint p).run c).2.val ((componentNegPoint p).run c).1 =
      negF (ptW c.val p) :=
  ⟨((componentNegPoint_appendsL p c).rows_ext hext _).mpr
      (componentNegPoint_honest_ext p c h hp hext),
    componentNegPoint_ptW_val p c hp⟩

/-- **Exactness**: the row holds iff the new wire carries `−x`. -/
theorem componentNegPoint_exact (p : Pt) (c : Composer) (h : WF c)
    (c'' : Composer) (hext : Extends ((componentNegPoint p).run c).2 c'') (w : Nat → Nat) :
    c''.rowsHoldW w c.gates.size ((componentNegPoint p).run c).2.gates.size ↔
      toF (w c.wit.size) = - toF (w p.1) :=
  ((componentNegPoint_appendsL p c).rows_ext hext w).trans (componentNegPoint_rows_iff p c h w)

example : ptW ((componentNegPoint (6, 7)).run exC).2.val ((componentNegPoint (6, 7)).run exC).1 =
    negF (toFP exG) := by
  have := (componentNegPoint_complete (6, 7) exC exC_wf exC_allocG _ (Extends.refl _)).2
  rwa [exC_ptG] at this

/-! ## `component_sub_point` -/

/-- `component_sub_point a b` returns `(n+2, n+3)`; wire `n` is `−x₂`, wire `n+1` the helper;
    3 gates, 4 witnesses -/
theorem componentSubPoint_extends (a b : Pt) (c : Composer) :
    ((componentSubPoint a b).run c).1 = (c.wit.size + 2, c.wit.size + 3) ∧
    AppendsL c ((componentSubPoint a b).run c).2 3 4 ∧
    (WF c → WF ((componentSubPoint a b).run c).2) :=
  ⟨Composer.componentSubPoint_fst a b c, componentSubPoint_appendsL a b c,
    Composer.componentSubPoint_wf a b c⟩

/-- **Soundness.**  On curve inputs the rows force all four new wires: `n = −x₂`,
    `n+1 = x₁·y₂`, returned pair `= A − B`, which is on the curve. -/
theorem componentSubPoint_sound (a b : Pt) (c : Composer) (h : WF c)
    (c'' : Composer) (hext : Extends ((componentSubPoint a b).run c).2 c'') (w : Nat → Nat)
    (h1 : OnCurveP (ptW w a)) (h2 : OnCurveP (ptW w b))
    (hrows : c''.rowsHoldW w c.gates.size ((componentSubPoint a b).run c).2.gates.size) :
    toF (w c.wit.size) = - toF (w b.1) ∧
    toF (w (c.wit.size + 1)) = toF (w a.1) * toF (w b.2) ∧
    ptW w ((componentSubPoint a b).run c).1 = addF (ptW w a) (negF (ptW w b)) ∧
    OnCurveP (ptW w ((componentSubPoint a b).run c).1) :=
  Composer.componentSubPoint_sound a b c h w h1 h2
    (((componentSubPoint_appendsL a b c).rows_ext hext w).mp hrows)

/-- **Completeness**: always satisfiable for allocated curve points; the model stores `A − B`. -/
theorem componentSubPoint_complete (a b : Pt) (c : Composer) (h : WF c)
    (ha : PtAlloc c a) (hb : PtAlloc c b)
    (h1 : OnCurveP (ptW c.val a)) (h2 : OnCurveP (ptW c.val b))
    (c'' : Composer) (hext : Extends ((componentSubPoint a b).run c).2 c'') :
    c''.rowsHoldW c''.val c.gates.size ((componentSubPoint a b).run c).2.gates.size ∧
    ptW ((componentSubPoint a b).run c).2.val ((componentSubPoint a b).run c).1 =
      addF (ptW c.val a) (negF (ptW c.val b)) :=
  ⟨((componentSubPoint_appendsL a b c).rows_ext hext _).mpr
      (componentSubPoint_honest_ext a b c h ha hb h1 h2 hext),
    componentSubPoint_ptW_val a b c h ha hb h1 h2⟩

/-- **Exactness.**  On curve inputs the satisfying assignments are exactly those with
    `n = −x₂`, `n+1 = x₁·y₂` and returned pair `A − B`. -/
theorem componentSubPoint_exact (a b : Pt) (c : Composer) (h : WF c)
    (c'' : Composer) (hext : Extends ((componentSubPoint a b).run c).2 c'') (w : Nat → Nat)
    (h1 : OnCurveP (ptW w a)) (h2 : OnCurveP (ptW w b)) :
    c''.rowsHoldW w c.gates.size ((componentSubPoint a b).run c).2.gates.size ↔
      toF (w c.wit.size) = - toF (w b.1) ∧
      toF (w (c.wit.size + 1)) = toF (w a.1) * toF (w b.2) ∧
      ptW w (c.wit.size + 2, c.wit.size + 3) = addF (ptW w a) (negF (ptW w b)) := by
  refine ((componentSubPoint_appendsL a b c).rows_ext hext w).trans
    ((componentSubPoint_rows_iff a b c h w).trans ?_)
  constructor
  · rintro ⟨e1, e2⟩
    have hn : (toF (w c.wit.size), toF (w b.2)) = negF (ptW w b) := by
      unfold negF ptW; simp only [e1]
    have h2' : OnCurveP (toF (w c.wit.size), toF (w b.2)) := by
      rw [hn]; exact neg_on_curveP h2
    obtain ⟨e3, e4⟩ := (varRowF_iff_of_on_curve h1 h2' _ _ _).mp e2
    exact ⟨e1, e3, by rw [← hn]; exact e4⟩
  · rintro ⟨e1, e3, e4⟩
    have hn : (toF (w c.wit.size), toF (w b.2)) = negF (ptW w b) := by
      unfold negF ptW; simp only [e1]
    have h2' : OnCurveP (toF (w c.wit.size), toF (w b.2)) := by
      rw [hn]; exact neg_on_curveP h2
    exact ⟨e1, (varRowF_iff_of_on_curve h1 h2' _ _ _).mpr ⟨e3, by rw [hn]; exact e4⟩⟩

example : ptW ((componentSubPoint (8, 9) (6, 7)).run exC).2.val
      ((componentSubPoint (8, 9) (6, 7)).run exC).1 = addF (toFP exH) (negF (toFP exG)) := by
  have := (componentSubPoint_complete (8, 9) (6, 7) exC exC_wf exC_allocH exC_allocG
    exC_onH exC_onG _ (Extends.refl _)).2
  rwa [exC_ptG, exC_ptH] at this

/-! ## `component_select_identity` -/

/-- `component_select_identity bit a` returns `(n, n+1)`; 3 plain gates (boolean, select-zero,
    select-one), 2 witnesses -/
theorem componentSelectIdentity_extends (bit : Nat) (a : Pt) (c : Composer) :
    ((componentSelectIdentity bit a).run c).1 = (c.wit.size, c.wit.size + 1) ∧
    AppendsL c ((componentSelectIdentity bit a).run c).2 3 2 ∧
    (WF c → WF ((componentSelectIdentity bit a).run c).2) :=
  ⟨Composer.componentSelectIdentity_fst bit a c, componentSelectIdentity_appendsL bit a c,
    Composer.componentSelectIdentity_wf bit a c⟩

/-- **Soundness.**  Every satisfying assignment has a boolean bit wire, and the returned pair
    carries the identity for `0` and the input point for `1` (unique coordinates). -/
theorem componentSelectIdentity_sound (bit : Nat) (a : Pt) (c : Composer) (h : WF c)
    (c'' : Composer) (hext : Extends ((componentSelectIdentity bit a).run c).2 c'')
    (w : Nat → Nat)
    (hrows : c''.rowsHoldW w c.gates.size ((componentSelectIdentity bit a).run c).2.gates.size) :
    (toF (w bit) = 0 ∧ ptW w ((componentSelectIdentity bit a).run c).1 = idF) ∨
    (toF (w bit) = 1 ∧ ptW w ((componentSelectIdentity bit a).run c).1 = ptW w a) :=
  Composer.componentSelectIdentity_sound bit a c h w
    (((componentSelectIdentity_appendsL bit a c).rows_ext hext w).mp hrows)

/-- **Unsatisfiable for a non-boolean bit.** -/
theorem componentSelectIdentity_unsat (bit : Nat) (a : Pt) (c : Composer) (h : WF c)
    (c'' : Composer) (hext : Extends ((componentSelectIdentity bit a).run c).2 c'')
    (w : Nat → Nat) (h0 : toF (w bit) ≠ 0) (h1 : toF (w bit) ≠ 1) :
    ¬ c''.rowsHoldW w c.gates.size ((componentSelectIdentity bit a).run c).2.gates.size :=
  fun hrows => Composer.componentSelectIdentity_unsat bit a c h w h0 h1
    (((componentSelectIdentity_appendsL bit a c).rows_ext hext w).mp hrows)

/-- **Completeness.**  For an allocated bit with value `0` or `1` and an allocated point the
    model's table satisfies the rows; it stores `(bit·x, 1 − bit + bit·y)`, i.e. `P` or `O`. -/
theorem componentSelectIdentity_complete (bit : Nat) (a : Pt) (c : Composer) (h : WF c)
    (hb : bit < c.wit.size) (ha : PtAlloc c a) (hbit : c.val bit = 0 ∨ c.val bit = 1)
    (c'' : Composer) (hext : Extends ((componentSelectIdentity bit a).run c).2 c'') :
    c''.rowsHoldW c''.val c.gates.size ((componentSelectIdentity bit a).run c).2.gates.size ∧
    ptW ((componentSelectIdentity bit a).run c).2.val ((componentSelectIdentity bit a).run c).1 =
      (if c.val bit = 1 then ptW c.val a else idF) := by
  refine ⟨((componentSelectIdentity_appendsL bit a c).rows_ext hext _).mpr
      (componentSelectIdentity_honest_ext bit a c h hb ha hbit hext), ?_⟩
  rw [componentSelectIdentity_ptW_val bit a c h hb ha]
  rcases hbit with e | e <;> simp [e]

/-- **Exactness.**  The satisfying assignments are exactly those with a boolean bit wire and the
    returned pair `(bit·x, 1 − bit + bit·y)`. -/
theorem componentSelectIdentity_exact (bit : Nat) (a : Pt) (c : Composer) (h : WF c)
    (c'' : Composer) (hext : Extends ((componentSelectIdentity bit a).run c).2 c'')
    (w : Nat → Nat) :
    c''.rowsHoldW w c.gates.size ((componentSelectIdentity bit a).run c).2.gates.size ↔
      (toF (w bit) = 0 ∨ toF (w bit) = 1) ∧
      ptW w (c.wit.size, c.wit.size + 1) = selIdF (toF (w bit)) (ptW w a) :=
  ((componentSelectIdentity_appendsL bit a c).rows_ext hext w).trans
    (componentSelectIdentity_rows_iff bit a c h w)

/-- the model's own table satisfies the rows iff the bit value is boolean -/
theorem componentSelectIdentity_honest_iff (bit : Nat) (a : Pt) (c : Composer) (h : WF c)
    (hb : bit < c.wit.size) (ha : PtAlloc c a) :
    ((componentSelectIdentity bit a).run c).2.rowsHoldW
        ((componentSelectIdentity bit a).run c).2.val c.gates.size
        ((componentSelectIdentity bit a).run c).2.gates.size ↔
      (c.val bit = 0 ∨ c.val bit = 1) :=
  Composer.componentSelectIdentity_honest_iff bit a c h hb ha

/-- non-vacuity: bit wire 1 (value 1) selects `exG`; bit wire 0 (value 0) selects the identity;
    bit wire 2 (value 6) makes the model's table violate the rows -/
example : ptW ((componentSelectIdentity 1 (6, 7)).run exC).2.val
      ((componentSelectIdentity 1 (6, 7)).run exC).1 = toFP exG := by
  have := (componentSelectIdentity_complete 1 (6, 7) exC exC_wf (by rw [exC_wit_size]; decide)
    exC_allocG (Or.inr exC_val1) _ (Extends.refl _)).2
  rwa [if_pos exC_val1, exC_ptG] at this
example : ptW ((componentSelectIdentity 0 (6, 7)).run exC).2.val
      ((componentSelectIdentity 0 (6, 7)).run exC).1 = idF := by
  have := (componentSelectIdentity_complete 0 (6, 7) exC exC_wf (by rw [exC_wit_size]; decide)
    exC_allocG (Or.inl exC_val0) _ (Extends.refl _)).2
  rwa [if_neg (by rw [exC_val0]; decide)] at this
example : ¬ ((componentSelectIdentity 2 (6, 7)).run exC).2.rowsHoldW
    ((componentSelectIdentity 2 (6, 7)).run exC).2.val exC.gates.size
    ((componentSelectIdentity 2 (6, 7)).run exC).2.gates.size := by
  rw [componentSelectIdentity_honest_iff 2 (6, 7) exC exC_wf (by rw [exC_wit_size]; decide)
    exC_allocG, exC_val2]
  decide

/-! ## `component_select_point` -/

/-- `component_select_point bit a b` returns `(n+3, n+7)`; 8 plain gates, 8 witnesses -/
theorem componentSelectPoint_extends (bit : Nat) (a b : Pt) (c : Composer) :
    ((componentSelectPoint bit a b).run c).1 = (c.wit.size + 3, c.wit.size + 7) ∧
    AppendsL c ((componentSelectPoint bit a b).run c).2 8 8 ∧
    (WF c → WF ((componentSelectPoint bit a b).run c).2) :=
  ⟨Composer.componentSelectPoint_fst bit a b c, componentSelectPoint_appendsL bit a b c,
    Composer.componentSelectPoint_wf bit a b c⟩

/-- **Soundness.**  The returned coordinates are `bit·a + (1 − bit)·b`: the first input for
    `bit = 1`, the second for `bit = 0`.  (Booleanity is not enforced by this component.) -/
theorem componentSelectPoint_sound (bit : Nat) (a b : Pt) (c : Composer) (h : WF c)
    (c'' : Composer) (hext : Extends ((componentSelectPoint bit a b).run c).2 c'')
    (w : Nat → Nat)
    (hrows : c''.rowsHoldW w c.gates.size ((componentSelectPoint bit a b).run c).2.gates.size) :
    ptW w ((componentSelectPoint bit a b).run c).1 = selPtF (toF (w bit)) (ptW w a) (ptW w b) ∧
    (toF (w bit) = 1 → ptW w ((componentSelectPoint bit a b).run c).1 = ptW w a) ∧
    (toF (w bit) = 0 → ptW w ((componentSelectPoint bit a b).run c).1 = ptW w b) :=
  Composer.componentSelectPoint_sound bit a b c h w
    (((componentSelectPoint_appendsL bit a b c).rows_ext hext w).mp hrows)

/-- **Completeness**: always satisfiable (allocated inputs); the model stores
    `bit·a + (1 − bit)·b`. -/
theorem componentSelectPoint_complete (bit : Nat) (a b : Pt) (c : Composer) (h : WF c)
    (hbit : bit < c.wit.size) (ha : PtAlloc c a) (hb : PtAlloc c b)
    (c'' : Composer) (hext : Extends ((componentSelectPoint bit a b).run c).2 c'') :
    c''.rowsHoldW c''.val c.gates.size ((componentSelectPoint bit a b).run c).2.gates.size ∧
    ptW ((componentSelectPoint bit a b).run c).2.val ((componentSelectPoint bit a b).run c).1 =
      selPtF (toF (c.val bit)) (ptW c.val a) (ptW c.val b) :=
  ⟨((componentSelectPoint_appendsL bit a b c).rows_ext hext _).mpr
      (componentSelectPoint_honest_ext bit a b c h hbit ha hb hext),
    componentSelectPoint_ptW_val bit a b c h hbit ha hb⟩

/-- **Exactness**: the rows hold iff the eight new wires carry the two selection chains
    (`bit·u`, `1 − bit`, `(1 − bit)·v`, their sum) — every wire is determined. -/
theorem componentSelectPoint_exact (bit : Nat) (a b : Pt) (c : Composer) (h : WF c)
    (c'' : Composer) (hext : Extends ((componentSelectPoint bit a b).run c).2 c'')
    (w : Nat → Nat) :
    c''.rowsHoldW w c.gates.size ((componentSelectPoint bit a b).run c).2.gates.size ↔
      (toF (w c.wit.size) = toF (w bit) * toF (w a.1) ∧
       toF (w (c.wit.size + 1)) = 1 - toF (w bit) ∧
       toF (w (c.wit.size + 2)) = toF (w (c.wit.size + 1)) * toF (w b.1) ∧
       toF (w (c.wit.size + 3)) = toF (w (c.wit.size + 2)) + toF (w c.wit.size)) ∧
      (toF (w (c.wit.size + 4)) = toF (w bit) * toF (w a.2) ∧
       toF (w (c.wit.size + 5)) = 1 - toF (w bit) ∧
       toF (w (c.wit.size + 6)) = toF (w (c.wit.size + 5)) * toF (w b.2) ∧
       toF (w (c.wit.size + 7)) = toF (w (c.wit.size + 6)) + toF (w (c.wit.size + 4))) :=
  ((componentSelectPoint_appendsL bit a b c).rows_ext hext w).trans
    (componentSelectPoint_rows_iff bit a b c h w)

example : ptW ((componentSelectPoint 1 (6, 7) (8, 9)).run exC).2.val
      ((componentSelectPoint 1 (6, 7) (8, 9)).run exC).1 = toFP exG := by
  have := (componentSelectPoint_complete 1 (6, 7) (8, 9) exC exC_wf (by rw [exC_wit_size]; decide)
    exC_allocG exC_allocH _ (Extends.refl _)).2
  rwa [exC_val1, toF_one, selPtF_one, exC_ptG] at this
example : ptW ((componentSelectPoint 0 (6, 7) (8, 9)).run exC).2.val
      ((componentSelectPoint 0 (6, 7) (8, 9)).run exC).1 = toFP exH := by
  have := (componentSelectPoint_complete 0 (6, 7) (8, 9) exC exC_wf (by rw [exC_wit_size]; decide)
    exC_allocG exC_allocH _ (Extends.refl _)).2
  rwa [exC_val0, toF_zero, selPtF_zero, exC_ptH] at this

/-! ## `component_mul_point` -/

/-- `component_mul_point s P` returns the last two of its `2520` witnesses
    (`504 = 2·252` for the decomposition, `8` per ladder round), and appends
    `2017 = (2·252 + 1) + 6·252` gates; the last gate is plain. -/
theorem componentMulPoint_extends (s : Nat) (P : Pt) (c : Composer) :
    ((componentMulPoint s P).run c).1 = (c.wit.size + 2518, c.wit.size + 2519) ∧
    AppendsL c ((componentMulPoint s P).run c).2 2017 2520 ∧
    (WF c → WF ((componentMulPoint s P).run c).2) :=
  ⟨Composer.componentMulPoint_fst s P c, componentMulPoint_appendsL s P c,
    Composer.componentMulPoint_wf s P c⟩

/-- **Soundness.**  For every assignment `w` with the constants in place (`w 0 = 0`, `w 1 = 1`,
    pinned by rows 0, 1 of `initialized`) and the base-point wires on the curve: if the rows hold,
    the scalar witness is below `2^252` and the returned pair carries the scalar multiple
    `[s]P = P + … + P` (`smulF`, repeated addition; the ladder equals it unconditionally since
    associativity is proved), which is on the curve. -/
theorem componentMulPoint_sound (s : Nat) (P : Pt) (c : Composer) (h : WF c)
    (c'' : Composer) (hext : Extends ((componentMulPoint s P).run c).2 c'') (w : Nat → Nat)
    (h0 : toF (w 0) = 0) (h1 : toF (w 1) = 1) (hP : OnCurveP (ptW w P))
    (hrows : c''.rowsHoldW w c.gates.size ((componentMulPoint s P).run c).2.gates.size) :
    (toF (w s)).val < 2 ^ 252 ∧
    ptW w ((componentMulPoint s P).run c).1 = smulF (toF (w s)).val (ptW w P) ∧
    OnCurveP (ptW w ((componentMulPoint s P).run c).1) :=
  Composer.componentMulPoint_sound s P c h w h0 h1 hP
    (((componentMulPoint_appendsL s P c).rows_ext hext w).mp hrows)

/-- **Unsatisfiable for a scalar witness `≥ 2^252`.** -/
theorem componentMulPoint_unsat (s : Nat) (P : Pt) (c : Composer) (h : WF c)
    (c'' : Composer) (hext : Extends ((componentMulPoint s P).run c).2 c'') (w : Nat → Nat)
    (h0 : toF (w 0) = 0) (h1 : toF (w 1) = 1) (hP : OnCurveP (ptW w P))
    (hs : 2 ^ 252 ≤ (toF (w s)).val) :
    ¬ c''.rowsHoldW w c.gates.size ((componentMulPoint s P).run c).2.gates.size :=
  fun hrows => absurd (componentMulPoint_sound s P c h c'' hext w h0 h1 hP hrows).1 (by omega)

/-- **Every intermediate wire is determined.**  Two satisfying assignments that agree on the
    scalar and on the base point agree (as field elements) on all `2520` wires the component
    allocates: bits, accumulators of the decomposition, and per round the doubling, the selected
    point, the two helper wires and the new accumulator. -/
theorem componentMulPoint_determ (s : Nat) (P : Pt) (c : Composer) (h : WF c)
    (c'' : Composer) (hext : Extends ((componentMulPoint s P).run c).2 c'') (w w' : Nat → Nat)
    (h0 : toF (w 0) = 0) (h1 : toF (w 1) = 1) (h0' : toF (w' 0) = 0) (h1' : toF (w' 1) = 1)
    (hP : OnCurveP (ptW w P)) (es : toF (w s) = toF (w' s)) (eP : ptW w P = ptW w' P)
    (hrows : c''.rowsHoldW w c.gates.size ((componentMulPoint s P).run c).2.gates.size)
    (hrows' : c''.rowsHoldW w' c.gates.size ((componentMulPoint s P).run c).2.gates.size) :
    ∀ i, c.wit.size ≤ i → i < c.wit.size + 2520 → toF (w i) = toF (w' i) := by
  have A := componentMulPoint_appendsL s P c
  intro i hlo hhi
  exact Composer.componentMulPoint_determ s P c h w w' h0 h1 h0' h1' hP es eP
    ((A.rows_ext hext w).mp hrows) ((A.rows_ext hext w').mp hrows') i hlo (by rw [A.wit]; exact hhi)

/-- **Completeness.**  For an allocated scalar witness with value below `2^252`, an allocated
    on-curve base point and the constants `0`, `1` in place, the model's own table satisfies all
    rows (always satisfiable for any 252-bit scalar), and the returned pair stores `[s]P`. -/
theorem componentMulPoint_complete (s : Nat) (P : Pt) (c : Composer) (h : WF c)
    (hs : s < c.wit.size) (hP : PtAlloc c P) (hz : c.val 0 = 0) (ho : c.val 1 = 1)
    (hv : c.val s < 2 ^ 252) (cP : OnCurveP (ptW c.val P))
    (c'' : Composer) (hext : Extends ((componentMulPoint s P).run c).2 c'') :
    c''.rowsHoldW c''.val c.gates.size ((componentMulPoint s P).run c).2.gates.size ∧
    ptW ((componentMulPoint s P).run c).2.val ((componentMulPoint s P).run c).1 =
      smulF (c.val s) (ptW c.val P) :=
  ⟨((componentMulPoint_appendsL s P c).rows_ext hext _).mpr
      (componentMulPoint_honest_ext s P c h hs hP hz ho hv cP hext),
    componentMulPoint_ptW_val s P c h hs hP hz ho hv cP⟩

/-- **Exactness**: the model's table satisfies the rows iff the scalar value is below `2^252`
    (other hypotheses as in completeness). -/
theorem componentMulPoint_exact (s : Nat) (P : Pt) (c : Composer) (h : WF c)
    (hs : s < c.wit.size) (hP : PtAlloc c P) (hz : c.val 0 = 0) (ho : c.val 1 = 1)
    (cP : OnCurveP (ptW c.val P)) :
    ((componentMulPoint s P).run c).2.rowsHoldW ((componentMulPoint s P).run c).2.val
        c.gates.size ((componentMulPoint s P).run c).2.gates.size ↔ c.val s < 2 ^ 252 := by
  have hx := (componentMulPoint_appendsL s P c).ext
  have h1lt : 1 < c.wit.size := by
    by_contra hn
    rw [val_of_size_le c (Nat.le_of_not_lt hn)] at ho
    exact absurd ho (by decide)
  constructor
  · intro hrows
    have := (componentMulPoint_sound s P c h _ (Extends.refl _) _
      (by rw [hx.val_eq (show 0 < c.wit.size by omega), hz]; exact toF_zero)
      (by rw [hx.val_eq h1lt, ho]; exact toF_one)
      (by rw [hx.ptW_val_eq hP]; exact cP) hrows).1
    rwa [hx.val_eq hs, val_toF_of_lt (h.val_lt s)] at this
  · intro hv
    exact (componentMulPoint_complete s P c h hs hP hz ho hv cP _ (Extends.refl _)).1

/-- **Soundness, self-contained form**: in any circuit built on `Composer::initialized()`, the
    two constant hypotheses follow from rows 0 and 1 of the circuit itself. -/
theorem componentMulPoint_sound_initialized (s : Nat) (P : Pt) (c : Composer) (h : WF c)
    (hinit : Extends initialized c)
    (c'' : Composer) (hext : Extends ((componentMulPoint s P).run c).2 c'') (w : Nat → Nat)
    (hbase : c''.rowsHoldW w 0 2) (hP : OnCurveP (ptW w P))
    (hrows : c''.rowsHoldW w c.gates.size ((componentMulPoint s P).run c).2.gates.size) :
    (toF (w s)).val < 2 ^ 252 ∧
    ptW w ((componentMulPoint s P).run c).1 = smulF (toF (w s)).val (ptW w P) ∧
    OnCurveP (ptW w ((componentMulPoint s P).run c).1) := by
  obtain ⟨h0, h1⟩ := initialized_base_ext
    ((hinit.trans (componentMulPoint_appendsL s P c).ext).trans hext) w hbase
  exact componentMulPoint_sound s P c h c'' hext w h0 h1 hP hrows

/-- non-vacuity: on `initialized` itself (scalar wire 2 holds 6, base point = the constant wires
    `(0, 1)`, i.e. the identity) the model's table satisfies the base rows and the component's
    rows, and the theorem yields `6 < 2^252` -/
example : (toF (((componentMulPoint 2 (0, 1)).run initialized).2.val 2)).val < 2 ^ 252 := by
  have hid : OnCurveP (ptW initialized.val (0, 1)) := by
    unfold ptW; rw [initialized_val_zero, initialized_val_one, toF_zero, toF_one]
    exact id_on_curveP
  have hal : PtAlloc initialized (0, 1) := by
    unfold PtAlloc; rw [initialized_wit_size]; decide
  have hx := (componentMulPoint_appendsL 2 (0, 1) initialized).ext
  have hc := componentMulPoint_complete 2 (0, 1) initialized initialized_wf
    (by rw [initialized_wit_size]; decide) hal initialized_val_zero initialized_val_one
    (by decide +kernel) hid _ (Extends.refl _)
  refine (componentMulPoint_sound_initialized 2 (0, 1) initialized initialized_wf (Extends.refl _)
    _ (Extends.refl _) _ (initialized_base_rows_honest _ hx)
    (by rw [hx.ptW_val_eq hal]; exact hid) hc.1).1

/-- non-vacuity: scalar wire 2 of `exC` holds 6; the model's table satisfies the 2017 rows of
    `[6]·exG` and stores the scalar multiple -/
example : ptW ((componentMulPoint 2 (6, 7)).run exC).2.val ((componentMulPoint 2 (6, 7)).run exC).1
    = smulF 6 (toFP exG) := by
  have := (componentMulPoint_complete 2 (6, 7) exC exC_wf (by rw [exC_wit_size]; decide)
    exC_allocG exC_val0 exC_val1 (by rw [exC_val2]; norm_num) exC_onG _ (Extends.refl _)).2
  rwa [exC_val2, exC_ptG] at this
example : ((componentMulPoint 2 (6, 7)).run exC).2.rowsHoldW
    ((componentMulPoint 2 (6, 7)).run exC).2.val exC.gates.size
    ((componentMulPoint 2 (6, 7)).run exC).2.gates.size :=
  (componentMulPoint_exact 2 (6, 7) exC exC_wf (by rw [exC_wit_size]; decide) exC_allocG exC_val0
    exC_val1 exC_onG).mpr (by rw [exC_val2]; norm_num)

end Plonk.Props.C12
