/-
  C12 — Curve-group components compute the JubJub group law.

  STATUS: this file holds the *math-level core* of C12 (field facts, the host-side addition
  `edAdd?`/`edAddOrId`, the row semantics of the curve-addition gate, the ladder), each about the
  model's own functions, each followed by a non-vacuity example.
  MISSING (composer glue, not in this file yet): the gadget-level theorems about
  `Composer.addPointGates`, `componentNegPoint`, `componentSubPoint`, `componentSelectIdentity`,
  `componentSelectPoint`, `componentMulPoint` (rows appended to a `Composer` state, `sysSat`).
  Nothing here depends on `JubjubGroupFacts`: associativity of the addition law is proved
  (`Plonk/Proofs/EdwardsAssoc.lean`); the group *order* is not needed for C12.
-/
import Plonk.Proofs.EdwardsExamples
namespace Plonk.Props.C12
open Plonk

theorem placeholder_consts : Generated.JUBJUB_SCALAR_BITS = 252 ∧ Generated.FIXED_BASE_LEADING_ZERO_ROUNDS = 3 ∧ Generated.MUL_POINT_BITS = 252 := by decide

/-- `EDWARDS_D` is a quadratic non-residue of `F_r` (Euler's criterion, kernel-evaluated). -/
theorem d_nonresidue : ¬ IsSquare (toF EDWARDS_D) := Plonk.d_nonresidue

/-- `−1` is a quadratic residue of `F_r`. -/
theorem neg_one_residue : IsSquare (-1 : F) := Plonk.neg_one_is_square

/-- Completeness of the addition law on the model's points: on curve points the denominators
    `1 ± d·x₁x₂y₁y₂` do not vanish, `edAdd?` succeeds, `edAddOrId` (what `add_point_gates`
    computes on the host) never takes its identity fallback, and the sum is on the curve. -/
theorem add_complete (p q : Pt) (hp : onCurve p = true) (hq : onCurve q = true) :
    (1 + toF EDWARDS_D * toF p.1 * toF q.1 * toF p.2 * toF q.2 ≠ 0 ∧
     1 - toF EDWARDS_D * toF p.1 * toF q.1 * toF p.2 * toF q.2 ≠ 0) ∧
    edAdd? p q = some (edAddOrId p q) ∧
    onCurve (edAddOrId p q) = true :=
  ⟨Plonk.add_complete ((onCurve_iff p).mp hp) ((onCurve_iff q).mp hq),
   edAdd?_on_curve p q hp hq, edAddOrId_on_curve p q hp hq⟩

example : onCurve exG = true ∧ exG ≠ Pt.id := ⟨exG_on_curve, by decide +kernel⟩
example : edAdd? exG exG = some (edAddOrId exG exG) := (add_complete exG exG exG_on_curve exG_on_curve).2.1
/-- the hypothesis matters: off the curve `edAdd?` does hit poles -/
example : ∃ p q : Pt, edAdd? p q = none := ⟨(1, 1), (fneg (finv EDWARDS_D), 1), by decide +kernel⟩

/-- The host-side addition is associative and commutative on curve points (so the points with
    `edAddOrId`, `Pt.id`, `edNeg` form an abelian group: `CurvePt.addCommGroup`). -/
theorem add_assoc_comm (p q r : Pt) (hp : onCurve p = true) (hq : onCurve q = true)
    (hr : onCurve r = true) :
    edAddOrId (edAddOrId p q) r = edAddOrId p (edAddOrId q r) ∧ edAddOrId p q = edAddOrId q p :=
  ⟨edAddOrId_assoc p q r hp hq hr, edAddOrId_comm p q hp hq⟩

example : edAddOrId (edAddOrId exG exG) (edNeg exG) = edAddOrId exG (edAddOrId exG (edNeg exG)) :=
  (add_assoc_comm exG exG (edNeg exG) exG_on_curve exG_on_curve
    (edNeg_on_curve exG exG_on_curve)).1

/-- The three components of the curve-addition widget in the field
    (`x1=a, y1=b, x2=c, y2=d` on the row; `x3=a', y3=b', x1y2=d'` on the next row). -/
theorem var_add_comps_iff (a an b bn c d dn : Nat) :
    allZero (varComps a an b bn c d dn) = true ↔
      toF a * toF d = toF dn ∧
      toF an * (1 + toF EDWARDS_D * toF dn * (toF b * toF c)) = toF dn + toF b * toF c ∧
      toF bn * (1 - toF EDWARDS_D * toF dn * (toF b * toF c)) = toF b * toF d + toF a * toF c :=
  varComps_zero_iff a an b bn c d dn

/-- `var_add_rows_iff`, row form: for the gate laid down by `Constraint.groupAddVariableBase`, with
    on-curve inputs on the row and canonical (reduced) values on the next row, the row holds iff
    the helper wire is `x₁·y₂` and `(x₃, y₃)` is the host's sum — unique helper, unique output. -/
theorem var_add_row_iff (s : Constraint) (a b c d an bn dn : Nat)
    (h1 : onCurve (a, b) = true) (h2 : onCurve (c, d) = true)
    (han : an < R) (hbn : bn < R) (hdn : dn < R) :
    rowHolds (Constraint.groupAddVariableBase s).toGate a b c d an bn dn 0 = true ↔
      dn = fmul a d ∧ (an, bn) = edAddOrId (a, b) (c, d) := by
  obtain ⟨hv, ha, hr, hl, hf⟩ := groupAddVariableBase_selectors s
  rw [rowHolds_var _ hv ha hr hl hf, ← varComps_zero_iff_VarRowF,
    varComps_zero_iff_model _ _ _ _ _ _ _ h1 h2 han hbn hdn]

/-- non-vacuity: the honest next row satisfies it, a wrong helper wire does not -/
example : ∃ an bn dn, an < R ∧ bn < R ∧ dn < R ∧
    rowHolds (Constraint.groupAddVariableBase { a := 1, b := 2, c := 1, d := 2 }).toGate
      exG.1 exG.2 exG.1 exG.2 an bn dn 0 = true :=
  have h : onCurve (exG.1, exG.2) = true := exG_on_curve
  have hlt := edAddOrId_lt (exG.1, exG.2) (exG.1, exG.2)
  ⟨_, _, _, hlt.1, hlt.2, fmul_lt exG.1 exG.2,
    (var_add_row_iff _ _ _ _ _ _ _ _ h h hlt.1 hlt.2 (fmul_lt _ _)).mpr ⟨rfl, rfl⟩⟩
example : rowHolds (Constraint.groupAddVariableBase { a := 1, b := 2, c := 1, d := 2 }).toGate
    exG.1 exG.2 exG.1 exG.2 (edAddOrId exG exG).1 (edAddOrId exG exG).2 0 0 = false := by
  decide +kernel

/-- Closure through a row: on-curve inputs and a satisfied row force an on-curve output (this is
    what lets the doublings of the torsion-free gadget and the ladder be chained). -/
theorem var_add_row_on_curve (a an b bn c d dn : Nat)
    (h1 : onCurve (a, b) = true) (h2 : onCurve (c, d) = true)
    (hr : allZero (varComps a an b bn c d dn) = true) : onCurve (an, bn) = true :=
  varComps_on_curve a an b bn c d dn h1 h2 hr

/-- `ladder_is_scalar_mul`: the MSB-first double-and-add ladder
    `acc ← edAddOrId (edAddOrId acc acc) (if bᵢ then P else O)` from the identity (the host-side
    computation of `component_mul_point`) stays on the curve and computes the scalar multiple
    `[Σ bᵢ 2^…]P` defined by repeated addition.  Unconditional. -/
theorem ladder_is_scalar_mul (P : Pt) (hP : onCurve P = true) (bits : List Bool) :
    onCurve (bits.foldl (fun acc b => edAddOrId (edAddOrId acc acc) (if b then P else Pt.id))
      Pt.id) = true ∧
    toFP (bits.foldl (fun acc b => edAddOrId (edAddOrId acc acc) (if b then P else Pt.id)) Pt.id)
      = smulF (bitsValMSB bits 0) (toFP P) :=
  ladderModel_is_scalar_mul P hP bits

example : toFP ([true, false, true].foldl
    (fun acc b => edAddOrId (edAddOrId acc acc) (if b then exG else Pt.id)) Pt.id)
      = smulF 5 (toFP exG) :=
  (ladder_is_scalar_mul exG exG_on_curve [true, false, true]).2

end Plonk.Props.C12
