import Plonk.Model.Composer
namespace Plonk.Props.C07
open Plonk
theorem placeholder_bounds : Generated.RANGE_MAX_BITS = 256 ∧ Generated.DECOMP_MAX_BITS = 256 := by decide
end Plonk.Props.C07
