/-
  C07 — Circuit shape is independent of witness values; generation is total.

  The gates a composer component emits (selectors, wiring), the public-input rows and their
  count, and the number of witnesses it allocates depend only on the sequence of component calls
  and their constant parameters, never on witness values or public-input values.

  Vocabulary (defined in `Plonk/Proofs/Shape.lean`, `ShapeProg.lean`):
    * `Composer.shape c = ⟨c.gates, c.pis.map (·.1), c.wit.size⟩`, `SameShape c₁ c₂ := c₁.shape = c₂.shape`
    * `ShapeEq m₁ m₂` : for all states `c₁ c₂` of the same shape, `m₁` on `c₁` and `m₂` on `c₂`
      return the same result (component results are witness *indices*) and states of the same
      shape; `ShapeStable m := ShapeEq m m`.  `shapeEq_iff` below spells it out.
    * `ShapeEqE` : the same for programs with early exit (`?`), "if both runs succeed".

  What is proved, at full strength, for every component of `Plonk/Model/Composer.lean`:
    * `…_value_free` : `ShapeStable (X params)` for components all of whose parameters are circuit
      constants or wire indices; `ShapeEq (X v₁) (X v₂)` where `v` is a value parameter
      (`appendWitness`, `appendPublic`, public value of `assertEqualConstant`, the `pi` field of a
      constraint, the coordinates of `appendAffinePoint/appendPoint/appendPublicPoint/
      assertEqualPublicPoint`, the eighth-point of `assertTorsionFreeGates`, the digits of
      `appendFixedBaseSignedDigits`).
    * the error-returning entry points: `…_error_iff` (exact decision logic), `…_error_state`
      (state unchanged on error; for `appendFixedBaseSignedDigits` the state after the
      canonical-scalar gates), and value-freeness on the success path.
    * `program_shape_value_free` : any sequence of calls (register machine with early exit).

  Totality.  Every function of the model is defined by structural recursion or without recursion
  (`componentDecomposition.go`, `appendLogicComponent.go`, `componentMulPoint.go`,
  `appendWitnesses`, `appendCustomGates`, `doublings`, `fixedAccs`, `wnaf2.go`, `powModF`); Lean
  accepted them as total definitions (no `partial`, no opaque escape hatch), reads are `getD`, and no `panic`/`!`-indexing occurs.
  So for any field values whatsoever (non-boolean bits, out-of-range scalars, off-curve or `Z = 0`
  points) a component returns; `component_total` records this, and the `error_iff` lemmas say
  exactly when the result is an error.

  Findings (no hypothesis was forced beyond the ones stated in the task):
    * `appendFixedBaseSignedDigits`: the number of rounds recorded is
      `min digits.length FIXED_BASE_SIGNED_DIGIT_ROUNDS`, so besides the generator and digit
      validity the shape depends on the *length* of the digit string.  `wnaf2` always returns 256
      valid digits (`wnaf2_length`, `badDigits_wnaf2`), hence `componentMulGenerator` is
      value-free on its success path with no extra hypothesis.
    * `componentMulGenerator`: whether it fails with `scalarMalformed` depends on the scalar
      *value* (`≥ r_J`); on failure the state is unchanged.  A default instance whose scalar is
      canonical therefore compiles the same circuit as every later canonical instance; a later
      non-canonical instance gets an error, not a different circuit.
    * `appendPoint`/`appendPublicPoint`/`assertEqualPublicPoint`: failure depends on the value
      `Z = 0`; state unchanged.
-/
import Plonk.Proofs.ShapeProg

namespace Plonk.Props.C07
open Plonk Plonk.Composer

/-- the bounds used by the source -/
theorem placeholder_bounds : Generated.RANGE_MAX_BITS = 256 ∧ Generated.DECOMP_MAX_BITS = 256 := by
  decide

/-! ## meaning of the vocabulary -/

/-- `ShapeEq` spelled out -/
theorem shapeEq_iff {α : Type} (m₁ m₂ : CM α) :
    ShapeEq m₁ m₂ ↔ ∀ c₁ c₂ : Composer,
      (c₁.gates = c₂.gates ∧ c₁.pis.map (·.1) = c₂.pis.map (·.1) ∧ c₁.wit.size = c₂.wit.size) →
      (m₁.run c₁).1 = (m₂.run c₂).1 ∧
      (m₁.run c₁).2.gates = (m₂.run c₂).2.gates ∧
      (m₁.run c₁).2.pis.map (·.1) = (m₂.run c₂).2.pis.map (·.1) ∧
      (m₁.run c₁).2.wit.size = (m₂.run c₂).2.wit.size := by
  constructor
  · intro h c₁ c₂ hc
    obtain ⟨h1, h2⟩ := h c₁ c₂ (sameShape_iff.mpr hc)
    exact ⟨h1, sameShape_iff.mp h2⟩
  · intro h c₁ c₂ hc
    obtain ⟨h1, h2⟩ := h c₁ c₂ (sameShape_iff.mp hc)
    exact ⟨h1, sameShape_iff.mpr h2⟩

/-! Two concrete states of the same shape with different witness values: the initialized
    composer plus one witness (index 6) holding `5` resp. `200` (not a bit, not 4-bit). -/

def c5 : Composer := ((appendWitness 5).run Composer.initialized).2
def c200 : Composer := ((appendWitness 200).run Composer.initialized).2

theorem c5_c200 : SameShape c5 c200 ∧ c5.val 6 = 5 ∧ c200.val 6 = 200 ∧ c5.wit.size = 7 := by
  decide +kernel

/-- `SameShape` discriminates: a different *constant* is a different shape -/
example : ¬ SameShape ((appendConstant 5).run c5).2 ((appendConstant 6).run c5).2 := by
  decide +kernel

/-! ## `component_shape_value_free` family -/

/-- the statement form of the task, for `range_check` -/
theorem rangeCheck_shape {c₁ c₂ : Composer} (x bits : Nat) (h : SameShape c₁ c₂) :
    SameShape ((rangeCheck x bits).run c₁).2 ((rangeCheck x bits).run c₂).2 :=
  (rangeCheck_stable x bits c₁ c₂ h).2

/-- non-vacuity: a 4-bit check of witness 6 holding `5` resp. `200`; the component really emits
    rows (two gates of the range layout plus the closing row and the equality) -/
example : SameShape ((rangeCheck 6 4).run c5).2 ((rangeCheck 6 4).run c200).2 :=
  rangeCheck_shape 6 4 c5_c200.1
example : ((rangeCheck 6 4).run c5).2.gates.size = c5.gates.size + 3 ∧
    ((rangeCheck 6 4).run c5).2.wit ≠ ((rangeCheck 6 4).run c200).2.wit := by decide +kernel

/-- primitives: witness allocation (any two values), gates (same constraint up to the
    public-input value), evaluated output, `gate_add`/`gate_mul` -/
theorem primitives_value_free :
    (∀ v₁ v₂, ShapeEq (appendWitness v₁) (appendWitness v₂)) ∧
    (∀ s₁ s₂ : Constraint, s₁.SameUpToPi s₂ → ShapeEq (appendCustomGate s₁) (appendCustomGate s₂)) ∧
    (∀ s₁ s₂ : Constraint, s₁.SameUpToPi s₂ → ShapeEq (appendGate s₁) (appendGate s₂)) ∧
    (∀ s₁ s₂ : Constraint, s₁.SameUpToPi s₂ →
      ShapeEq (appendEvaluatedOutput s₁) (appendEvaluatedOutput s₂)) ∧
    (∀ s₁ s₂ : Constraint, s₁.SameUpToPi s₂ → ShapeEq (gateAdd s₁) (gateAdd s₂)) ∧
    (∀ s₁ s₂ : Constraint, s₁.SameUpToPi s₂ → ShapeEq (gateMul s₁) (gateMul s₂)) ∧
    (∀ l₁ l₂ : List Nat, l₁.length = l₂.length →
      ShapeEq (appendWitnesses l₁) (appendWitnesses l₂)) ∧
    (∀ l₁ l₂ : List Constraint,
      l₁.map (fun s => { s with pi := 0 }) = l₂.map (fun s => { s with pi := 0 }) →
      ShapeEq (appendCustomGates l₁) (appendCustomGates l₂)) :=
  ⟨appendWitness_shape, fun _ _ => appendCustomGate_shape, fun _ _ => appendGate_shape,
   fun _ _ => appendEvaluatedOutput_shape, fun _ _ => gateAdd_shape, fun _ _ => gateMul_shape,
   fun _ _ => appendWitnesses_shape, fun _ _ => appendCustomGates_shape⟩

/-- `SameUpToPi` is exactly "equal except for the `pi` field" -/
example (s : Constraint) (p : Nat) : s.SameUpToPi { s with pi := p } :=
  Constraint.sameUpToPi_iff.mpr ⟨p, rfl⟩
example : ¬ Constraint.SameUpToPi { ql := 1 } { ql := 2 } := by decide
/-- the solved output of `gate_add` differs (11 vs 401), the layout does not -/
example :
    let s : Constraint := { ql := 2, qc := 1, a := 6 }
    SameShape ((gateAdd s).run c5).2 ((gateAdd s).run c200).2 ∧
    ((gateAdd s).run c5).1 = ((gateAdd s).run c200).1 ∧
    ((gateAdd s).run c5).2.val 7 = 11 ∧ ((gateAdd s).run c200).2.val 7 = 401 := by
  decide +kernel

/-- the branch `append_evaluated_output` takes (allocate an output or not) is decided by the
    selector `q_O` alone, never by a value -/
theorem appendEvaluatedOutput_branch (s : Constraint) (c : Composer) :
    ((appendEvaluatedOutput s).run c).1.isSome =
      (s.qo == 1 % R || s.qo == R - 1 || (finv? s.qo).isSome) :=
  appendEvaluatedOutput_isSome s c

example : ((appendEvaluatedOutput { ql := 1, qo := 0, a := 6 }).run c5).1 = none ∧
    ((appendEvaluatedOutput { ql := 1, qo := 3, a := 6 }).run c5).1 = some 7 := by
  decide +kernel

/-- equality assertions, constants, public inputs -/
theorem equality_public_value_free :
    (∀ a b, ShapeStable (assertEqual a b)) ∧
    (∀ a k (p₁ p₂ : Option Nat), p₁.isSome = p₂.isSome →
      ShapeEq (assertEqualConstant a k p₁) (assertEqualConstant a k p₂)) ∧
    (∀ v, ShapeStable (appendConstant v)) ∧
    (∀ v₁ v₂, ShapeEq (appendPublic v₁) (appendPublic v₂)) ∧
    ShapeStable appendDummyGates :=
  ⟨assertEqual_stable, fun a k _ _ => assertEqualConstant_shape a k, appendConstant_stable,
   appendPublic_shape, appendDummyGates_stable⟩

/-- two different public values: same public-input rows, different public-input values -/
example :
    SameShape ((appendPublic 3).run c5).2 ((appendPublic 4).run c200).2 ∧
    ((appendPublic 3).run c5).2.pis ≠ ((appendPublic 4).run c200).2.pis ∧
    ((appendPublic 3).run c5).2.pis.size = 1 := by decide +kernel

/-- bits.rs / select.rs: every width of the decomposition -/
theorem bits_select_value_free :
    (∀ a, ShapeStable (componentBoolean a)) ∧
    (∀ n scalar, ShapeStable (componentDecomposition n scalar)) ∧
    (∀ bit a b, ShapeStable (componentSelect bit a b)) ∧
    (∀ bit value, ShapeStable (componentSelectOne bit value)) ∧
    (∀ bit value, ShapeStable (componentSelectZero bit value)) :=
  ⟨componentBoolean_stable, componentDecomposition_stable, componentSelect_stable,
   componentSelectOne_stable, componentSelectZero_stable⟩

/-- a non-boolean "bit" (`5` / `200`) and a value that does not fit 3 bits: same layout, same
    returned bit indices -/
example :
    SameShape ((componentDecomposition 3 6).run c5).2 ((componentDecomposition 3 6).run c200).2 ∧
    ((componentDecomposition 3 6).run c5).1 = [7, 9, 11] ∧
    ((componentDecomposition 3 6).run c200).1 = [7, 9, 11] ∧
    SameShape ((componentSelect 6 0 1).run c5).2 ((componentSelect 6 0 1).run c200).2 := by
  decide +kernel

/-- range.rs: all widths, even and odd -/
theorem range_value_free :
    (∀ w n, ShapeStable (rangeCheckEven w n)) ∧
    (∀ w n, ShapeStable (rangeCheck w n)) ∧
    (∀ bits w, ShapeStable (componentRangeBits bits w)) ∧
    (∀ pairs w, ShapeStable (componentRange pairs w)) :=
  ⟨rangeCheckEven_stable, rangeCheck_stable, componentRangeBits_stable, componentRange_stable⟩

/-- odd width 5 on in-range `5` and out-of-range `200` -/
example : SameShape ((componentRangeBits 5 6).run c5).2 ((componentRangeBits 5 6).run c200).2 ∧
    ((componentRangeBits 5 6).run c5).2.gates.size = c5.gates.size + 6 := by decide +kernel

/-- truncate.rs -/
theorem truncate_value_free :
    (∀ high low n, ShapeStable (assertCanonicalTruncation high low n)) ∧
    (∀ input low n, ShapeStable (bindTruncationSplit input low n)) ∧
    (∀ n w, ShapeStable (componentTruncate n w)) :=
  ⟨assertCanonicalTruncation_stable, bindTruncationSplit_stable, componentTruncate_stable⟩

example : SameShape ((componentTruncate 4 6).run c5).2 ((componentTruncate 4 6).run c200).2 ∧
    ((componentTruncate 4 6).run c5).1 = ((componentTruncate 4 6).run c200).1 :=
  ⟨(componentTruncate_stable 4 6 c5 c200 c5_c200.1).2, (componentTruncate_stable 4 6 c5 c200 c5_c200.1).1⟩

/-- logic.rs: all pair counts, AND and XOR -/
theorem logic_value_free (pairs a b : Nat) (isXor : Bool) :
    ShapeStable (appendLogicComponent pairs a b isXor) :=
  appendLogicComponent_stable pairs a b isXor

example :
    SameShape ((appendLogicComponent 1 6 5 true).run c5).2
      ((appendLogicComponent 1 6 5 true).run c200).2 ∧
    ((appendLogicComponent 1 6 5 true).run c5).1 = ((appendLogicComponent 1 6 5 true).run c200).1 :=
  ⟨(logic_value_free 1 6 5 true c5 c200 c5_c200.1).2, (logic_value_free 1 6 5 true c5 c200 c5_c200.1).1⟩

/-- point.rs: total components.  `addPointGates` computes its sum on the host with the pole
    fallback `edAddOrId`; `assertTorsionFreePoint` computes the eighth of the point only if it is
    on the curve — both are value-only. -/
theorem point_value_free :
    (∀ p₁ p₂, ShapeEq (appendAffinePoint p₁) (appendAffinePoint p₂)) ∧
    (∀ a b, ShapeStable (assertEqualPoint a b)) ∧
    (∀ a b, ShapeStable (addPointGates a b)) ∧
    (∀ point q₁ q₂, ShapeEq (assertTorsionFreeGates point q₁) (assertTorsionFreeGates point q₂)) ∧
    (∀ point, ShapeStable (assertTorsionFreePoint point)) ∧
    (∀ p, ShapeStable (componentNegPoint p)) ∧
    (∀ a b, ShapeStable (componentAddPoint a b)) ∧
    (∀ a b, ShapeStable (componentSubPoint a b)) ∧
    (∀ bit a, ShapeStable (selectIdentityGates bit a)) ∧
    (∀ bit a, ShapeStable (componentSelectIdentity bit a)) ∧
    (∀ bit a b, ShapeStable (componentSelectPoint bit a b)) ∧
    (∀ jubjub point, ShapeStable (componentMulPoint jubjub point)) :=
  ⟨appendAffinePoint_shape, assertEqualPoint_stable, addPointGates_stable,
   assertTorsionFreeGates_shape, assertTorsionFreePoint_stable, componentNegPoint_stable,
   componentAddPoint_stable, componentSubPoint_stable, selectIdentityGates_stable,
   componentSelectIdentity_stable, componentSelectPoint_stable, componentMulPoint_stable⟩

/-- an off-curve "point" `(w6, w1)` = `(5, 1)` resp. `(200, 1)`: same gates for addition and for
    the torsion check -/
example :
    SameShape ((addPointGates (6, 1) (6, 1)).run c5).2 ((addPointGates (6, 1) (6, 1)).run c200).2 ∧
    onCurve (5, 1) = false := by decide +kernel
example :
    SameShape ((assertTorsionFreePoint (6, 1)).run c5).2 ((assertTorsionFreePoint (6, 1)).run c200).2 :=
  (point_value_free.2.2.2.2.1 (6, 1) c5 c200 c5_c200.1).2

/-- fixed_base.rs: the canonical-scalar check -/
theorem assertCanonicalJubjubScalar_value_free (scalar : Nat) :
    ShapeStable (assertCanonicalJubjubScalar scalar) :=
  assertCanonicalJubjubScalar_stable scalar

/-! ## error-returning entry points -/

/-- `append_point`: either `.error .degenerate` with the state unchanged (exactly when `Z = 0`),
    or the same shape change as for any other non-degenerate point -/
theorem appendPoint_value_free (e₁ e₂ : Ext) :
    (e₁.z = 0 → ∀ c, (appendPoint e₁).run c = (.error .degenerate, c)) ∧
    (e₁.z ≠ 0 → e₂.z ≠ 0 → ShapeEq (appendPoint e₁) (appendPoint e₂)) ∧
    (e₁.z ≠ 0 → ∀ c, ((appendPoint e₁).run c).1 = .ok (c.wit.size, c.wit.size + 1)) :=
  ⟨fun h c => appendPoint_degenerate h c, appendPoint_shape, fun h c => appendPoint_ok h c⟩

theorem appendPoint_error_iff (e : Ext) (c : Composer) (err : CErr) :
    ((appendPoint e).run c).1 = .error err ↔ err = .degenerate ∧ e.z = 0 :=
  Composer.appendPoint_error_iff e c err

example : (appendPoint ⟨1, 1, 0, 1, 1⟩).run c5 = (.error .degenerate, c5) :=
  appendPoint_degenerate rfl c5
/-- two different off-curve points with `Z ≠ 0` -/
example : SameShape ((appendPoint ⟨1, 1, 1, 1, 1⟩).run c5).2 ((appendPoint ⟨2, 3, 5, 0, 0⟩).run c200).2 :=
  (appendPoint_shape (by decide) (by decide) c5 c200 c5_c200.1).2

/-- `append_constant_point`: the point is a circuit constant -/
theorem appendConstantPoint_value_free (e : Ext) : ShapeStable (appendConstantPoint e) :=
  appendConstantPoint_stable e

theorem appendConstantPoint_error_iff (e : Ext) (c : Composer) (err : CErr) :
    ((appendConstantPoint e).run c).1 = .error err ↔
      (err = .degenerate ∧ e.z = 0) ∨
      (err = .notTorsionFree ∧ e.z ≠ 0 ∧ ¬(e.onCurve = true ∧ e.torsionFree = true)) :=
  Composer.appendConstantPoint_error_iff e c err

theorem appendConstantPoint_error_state (e : Ext) (c : Composer) (err : CErr)
    (h : ((appendConstantPoint e).run c).1 = .error err) :
    ((appendConstantPoint e).run c).2 = c :=
  Composer.appendConstantPoint_error_state e c err h

/-- all three outcomes occur: `Z = 0`; off-curve; the prime-order point `exG'` -/
def exG' : Ext :=
  Ext.ofAffine (0x341b2606e5f117a1413de7daf9cb0b1f257ee8e102920711b20847ff13841537, 18)

example : ((appendConstantPoint ⟨1, 1, 0, 1, 1⟩).run c5).1 = .error .degenerate ∧
    ((appendConstantPoint ⟨1, 1, 1, 1, 1⟩).run c5).1 = .error .notTorsionFree ∧
    ((appendConstantPoint exG').run c5).1 = .ok (7, 8) := by decide +kernel

/-- `append_public_point` -/
theorem appendPublicPoint_value_free (e₁ e₂ : Ext) :
    (e₁.z = 0 → ∀ c, (appendPublicPoint e₁).run c = (.error .degenerate, c)) ∧
    (e₁.z ≠ 0 → e₂.z ≠ 0 → ShapeEq (appendPublicPoint e₁) (appendPublicPoint e₂)) ∧
    (e₁.z ≠ 0 → ∀ c, ((appendPublicPoint e₁).run c).1 = .ok (c.wit.size, c.wit.size + 1)) :=
  ⟨fun h c => appendPublicPoint_degenerate h c, appendPublicPoint_shape,
   fun h c => appendPublicPoint_ok h c⟩

theorem appendPublicPoint_error_iff (e : Ext) (c : Composer) (err : CErr) :
    ((appendPublicPoint e).run c).1 = .error err ↔ err = .degenerate ∧ e.z = 0 :=
  Composer.appendPublicPoint_error_iff e c err

example : SameShape ((appendPublicPoint ⟨1, 1, 1, 1, 1⟩).run c5).2
    ((appendPublicPoint ⟨2, 3, 5, 0, 0⟩).run c200).2 :=
  (appendPublicPoint_shape (by decide) (by decide) c5 c200 c5_c200.1).2

/-- `assert_equal_public_point` -/
theorem assertEqualPublicPoint_value_free (p : Pt) (e₁ e₂ : Ext) :
    (e₁.z = 0 → ∀ c, (assertEqualPublicPoint p e₁).run c = (.error .degenerate, c)) ∧
    (e₁.z ≠ 0 → e₂.z ≠ 0 →
      ShapeEq (assertEqualPublicPoint p e₁) (assertEqualPublicPoint p e₂)) ∧
    (e₁.z ≠ 0 → ∀ c, ((assertEqualPublicPoint p e₁).run c).1 = .ok ()) :=
  ⟨fun h c => assertEqualPublicPoint_degenerate p h c, assertEqualPublicPoint_shape p,
   fun h c => assertEqualPublicPoint_ok p h c⟩

theorem assertEqualPublicPoint_error_iff (p : Pt) (e : Ext) (c : Composer) (err : CErr) :
    ((assertEqualPublicPoint p e).run c).1 = .error err ↔ err = .degenerate ∧ e.z = 0 :=
  Composer.assertEqualPublicPoint_error_iff p e c err

example : SameShape ((assertEqualPublicPoint (6, 1) ⟨1, 1, 1, 1, 1⟩).run c5).2
    ((assertEqualPublicPoint (6, 1) ⟨2, 3, 5, 0, 0⟩).run c200).2 :=
  (assertEqualPublicPoint_shape (6, 1) (by decide) (by decide) c5 c200 c5_c200.1).2

/-- `append_fixed_base_signed_digits`.  The shape depends on the generator (a circuit constant),
    on whether some digit is outside `{-1, 0, 1}` (`badDigits`), and on the effective number of
    digits `min digits.length ROUNDS`; the digits themselves only influence values.
    With an unsupported digit the component *is* `assertCanonicalJubjubScalar` followed by
    `.error .unsupportedWnaf` (so the state change is the value-independent one of
    `assertCanonicalJubjubScalar`). -/
theorem appendFixedBaseSignedDigits_value_free (jubjub : Nat) (gen : Pt) (ds₁ ds₂ : List Int) :
    (badDigits ds₁ = true →
      appendFixedBaseSignedDigits jubjub gen ds₁ =
        (do assertCanonicalJubjubScalar jubjub; pure (.error .unsupportedWnaf))) ∧
    (badDigits ds₁ = false → badDigits ds₂ = false →
      min ds₁.length Generated.FIXED_BASE_SIGNED_DIGIT_ROUNDS =
        min ds₂.length Generated.FIXED_BASE_SIGNED_DIGIT_ROUNDS →
      ShapeEq (appendFixedBaseSignedDigits jubjub gen ds₁)
        (appendFixedBaseSignedDigits jubjub gen ds₂)) ∧
    (badDigits ds₁ = true → badDigits ds₂ = true →
      ShapeEq (appendFixedBaseSignedDigits jubjub gen ds₁)
        (appendFixedBaseSignedDigits jubjub gen ds₂)) :=
  ⟨appendFixedBaseSignedDigits_invalid jubjub gen, appendFixedBaseSignedDigits_shape jubjub gen,
   appendFixedBaseSignedDigits_shape_invalid jubjub gen gen⟩

theorem badDigits_iff (ds : List Int) :
    badDigits ds = false ↔ ∀ d ∈ ds, d = 0 ∨ d = 1 ∨ d = -1 := badDigits_eq_false_iff ds

theorem appendFixedBaseSignedDigits_error_iff (jubjub : Nat) (gen : Pt) (digits : List Int)
    (c : Composer) (err : CErr) :
    ((appendFixedBaseSignedDigits jubjub gen digits).run c).1 = .error err ↔
      err = .unsupportedWnaf ∧ badDigits digits = true :=
  Composer.appendFixedBaseSignedDigits_error_iff jubjub gen digits c err

theorem appendFixedBaseSignedDigits_error_state (jubjub : Nat) (gen : Pt) (digits : List Int)
    (c : Composer) (err : CErr)
    (h : ((appendFixedBaseSignedDigits jubjub gen digits).run c).1 = .error err) :
    ((appendFixedBaseSignedDigits jubjub gen digits).run c).2 =
      ((assertCanonicalJubjubScalar jubjub).run c).2 :=
  Composer.appendFixedBaseSignedDigits_error_state jubjub gen digits c err h

/-- hypotheses satisfiable with genuinely different digit strings; a digit `2` is rejected -/
example : badDigits [1, 0, -1] = false ∧ badDigits [-1, -1, 0] = false ∧
    min [1, 0, -1].length Generated.FIXED_BASE_SIGNED_DIGIT_ROUNDS =
      min [(-1 : Int), -1, 0].length Generated.FIXED_BASE_SIGNED_DIGIT_ROUNDS ∧
    badDigits [1, 2] = true := by decide

/-- `component_mul_generator`: decision logic -/
theorem componentMulGenerator_error_iff (jubjub : Nat) (gen : Ext) (c : Composer) (err : CErr) :
    ((componentMulGenerator jubjub gen).run c).1 = .error err ↔
      (err = .generatorNotPrime ∧
        ¬(gen.z ≠ 0 ∧ gen.onCurve = true ∧ gen.primeOrder = true)) ∨
      (err = .scalarMalformed ∧
        (gen.z ≠ 0 ∧ gen.onCurve = true ∧ gen.primeOrder = true) ∧ c.val jubjub ≥ RJ) :=
  Composer.componentMulGenerator_error_iff jubjub gen c err

theorem componentMulGenerator_error_state (jubjub : Nat) (gen : Ext) (c : Composer) (err : CErr)
    (h : ((componentMulGenerator jubjub gen).run c).1 = .error err) :
    ((componentMulGenerator jubjub gen).run c).2 = c :=
  Composer.componentMulGenerator_error_state jubjub gen c err h

/-- `component_mul_generator`: same generator, two states of the same shape whose scalar values
    are both canonical — same result indices and same shape; and it succeeds exactly then -/
theorem componentMulGenerator_value_free (jubjub : Nat) (gen : Ext) {c₁ c₂ : Composer}
    (h : SameShape c₁ c₂) (h₁ : c₁.val jubjub < RJ) (h₂ : c₂.val jubjub < RJ) :
    ((componentMulGenerator jubjub gen).run c₁).1 = ((componentMulGenerator jubjub gen).run c₂).1 ∧
    SameShape ((componentMulGenerator jubjub gen).run c₁).2
      ((componentMulGenerator jubjub gen).run c₂).2 :=
  componentMulGenerator_shape jubjub gen h h₁ h₂

theorem componentMulGenerator_ok_iff (jubjub : Nat) (gen : Ext) (c : Composer) :
    (∃ p, ((componentMulGenerator jubjub gen).run c).1 = .ok p) ↔
      (gen.z ≠ 0 ∧ gen.onCurve = true ∧ gen.primeOrder = true) ∧ c.val jubjub < RJ :=
  Composer.componentMulGenerator_ok_iff jubjub gen c

/-- `compute_windowed_naf(2)` always yields 256 supported digits, whatever the scalar -/
theorem wnaf2_shape (k : Nat) : (wnaf2 k).length = 256 ∧ badDigits (wnaf2 k) = false :=
  ⟨wnaf2_length k, badDigits_wnaf2 k⟩

/-- non-vacuity: `exG'` passes the generator test, the scalars `5` and `200` are canonical, so
    the multiplication succeeds on both states, with the same circuit; an off-curve generator and
    a non-canonical scalar produce the two errors -/
example : (exG'.z ≠ 0 ∧ exG'.onCurve = true ∧ exG'.primeOrder = true) ∧
    c5.val 6 < RJ ∧ c200.val 6 < RJ := by decide +kernel
example : SameShape ((componentMulGenerator 6 exG').run c5).2 ((componentMulGenerator 6 exG').run c200).2 :=
  (componentMulGenerator_value_free 6 exG' c5_c200.1 (by decide +kernel) (by decide +kernel)).2
example : ((componentMulGenerator 6 ⟨1, 1, 1, 1, 1⟩).run c5).1 = .error .generatorNotPrime :=
  (componentMulGenerator_error_iff 6 _ c5 _).mpr (.inl ⟨rfl, by decide +kernel⟩)
example : ((componentMulGenerator 5 exG').run c5).1 = .error .scalarMalformed :=
  (componentMulGenerator_error_iff 5 _ c5 _).mpr (.inr ⟨rfl, by decide +kernel, by decide +kernel⟩)

/-! ## totality -/

/-- Generation is total: every component, on every state and for all parameter values, returns a
    result and a state (no panic, no abort; the error paths are ordinary results).  In Lean this
    holds by construction — all model functions are total, structurally recursive definitions —
    so the statement is immediate for any `m`; it is recorded for the record. -/
theorem component_total {α : Type} (m : CM α) (c : Composer) : ∃ r c', m.run c = (r, c') :=
  ⟨(m.run c).1, (m.run c).2, rfl⟩

/-- e.g. a range check of a witness index that was never allocated still returns -/
example : ((rangeCheck 1000 7).run c5).2.gates.size = c5.gates.size + 6 := by decide +kernel

/-! ## programs -/

/-- Sequences of component calls.  A program is a list of steps; a step reads operand indices
    from the register file (indices returned by earlier steps) and returns new indices, or an
    error that stops synthesis.  If two programs are step-by-step the same calls up to value
    parameters (`StepsRel`), then, run on states of the same shape, whenever both succeed they
    produce the same registers and the same circuit shape.  In particular the description compiled
    from a default instance is the one every later (successfully synthesised) instance is proved
    against. -/
theorem program_shape_value_free {fs gs : List Step} (h : StepsRel fs gs) (regs : List Nat)
    {c₁ c₂ : Composer} (hc : SameShape c₁ c₂) {r₁ r₂ : List Nat}
    (h₁ : ((runSteps fs regs).run.run c₁).1 = .ok r₁)
    (h₂ : ((runSteps gs regs).run.run c₂).1 = .ok r₂) :
    r₁ = r₂ ∧ SameShape ((runSteps fs regs).run.run c₁).2 ((runSteps gs regs).run.run c₂).2 :=
  runSteps_shapeE h regs c₁ c₂ hc r₁ r₂ h₁ h₂

/-- programs without error-returning steps always succeed, so the conclusion is unconditional:
    same registers, same shape, for all value parameters -/
theorem program_shape_value_free_total {fs gs : List Step} (h : StepsRel fs gs)
    (tf : ∀ f ∈ fs, Step.Total f) (tg : ∀ g ∈ gs, Step.Total g) (regs : List Nat)
    {c₁ c₂ : Composer} (hc : SameShape c₁ c₂) :
    ∃ r, ((runSteps fs regs).run.run c₁).1 = .ok r ∧ ((runSteps gs regs).run.run c₂).1 = .ok r ∧
      SameShape ((runSteps fs regs).run.run c₁).2 ((runSteps gs regs).run.run c₂).2 := by
  obtain ⟨r₁, h₁⟩ := runSteps_total tf regs c₁
  obtain ⟨r₂, h₂⟩ := runSteps_total tg regs c₂
  obtain ⟨rfl, hs⟩ := runSteps_shapeE h regs c₁ c₂ hc r₁ r₂ h₁ h₂
  exact ⟨r₁, h₁, h₂, hs⟩

/-- non-vacuity: a two-step total program (allocate, then a 4-bit range check) with the witness
    values `5` and `200` -/
def exTot (w : Nat) : List Step :=
  [fun _ => liftM (do let x ← appendWitness w; pure [x]),
   fun regs => liftM (do rangeCheck (regs.getD 0 0) 4; pure [])]

theorem exTot_total (w : Nat) : ∀ f ∈ exTot w, Step.Total f := by
  intro f hf
  simp only [exTot, List.mem_cons, List.not_mem_nil, or_false] at hf
  rcases hf with rfl | rfl <;> exact Step.total_lift _

example : ∃ r,
    ((runSteps (exTot 5) []).run.run Composer.initialized).1 = .ok r ∧
    ((runSteps (exTot 200) []).run.run Composer.initialized).1 = .ok r ∧
    SameShape ((runSteps (exTot 5) []).run.run Composer.initialized).2
      ((runSteps (exTot 200) []).run.run Composer.initialized).2 :=
  program_shape_value_free_total
    (.cons (fun _ => .lift (.bind (appendWitness_shape 5 200) fun _ => .pure _))
      (.cons (fun _ => .lift (.bind (rangeCheck_stable _ _) fun _ => .pure _)) .nil))
    (exTot_total 5) (exTot_total 200) [] (SameShape.refl _)

/-- closure properties from which `StepsRel` is established: total components (`liftM`),
    entry points (`ExceptT.mk`), sequencing -/
theorem program_closure {α β : Type} :
    (∀ a : α, ShapeEqE (pure a : CME α) (pure a)) ∧
    (∀ m₁ m₂ : CM α, ShapeEq m₁ m₂ → ShapeEqE (liftM m₁ : CME α) (liftM m₂)) ∧
    (∀ (m₁ m₂ : CME α) (k₁ k₂ : α → CME β), ShapeEqE m₁ m₂ → (∀ a, ShapeEqE (k₁ a) (k₂ a)) →
      ShapeEqE (m₁ >>= k₁) (m₂ >>= k₂)) ∧
    (∀ e₁ e₂, ShapeEqE (ExceptT.mk (appendPoint e₁)) (ExceptT.mk (appendPoint e₂))) ∧
    (∀ e, ShapeEqE (ExceptT.mk (appendConstantPoint e)) (ExceptT.mk (appendConstantPoint e))) ∧
    (∀ e₁ e₂, ShapeEqE (ExceptT.mk (appendPublicPoint e₁)) (ExceptT.mk (appendPublicPoint e₂))) ∧
    (∀ p e₁ e₂, ShapeEqE (ExceptT.mk (assertEqualPublicPoint p e₁))
      (ExceptT.mk (assertEqualPublicPoint p e₂))) ∧
    (∀ j gen, ShapeEqE (ExceptT.mk (componentMulGenerator j gen))
      (ExceptT.mk (componentMulGenerator j gen))) :=
  ⟨ShapeEqE.pure, fun _ _ => ShapeEqE.lift, fun _ _ _ _ => ShapeEqE.bind, appendPoint_shapeE,
   appendConstantPoint_shapeE, appendPublicPoint_shapeE, assertEqualPublicPoint_shapeE,
   componentMulGenerator_shapeE⟩

/-- a concrete program with value parameters `(w, p, e)`: allocate a witness `w`, a public input
    `p`, range-check the witness to 4 bits, decompose the public input into 3 bits, append a
    point `e`, and select between the point's coordinates with the lowest bit -/
def exProg (w p : Nat) (e : Ext) : List Step :=
  [ fun _ => liftM (do let x ← appendWitness w; pure [x]),
    fun _ => liftM (do let x ← appendPublic p; pure [x]),
    fun regs => liftM (do rangeCheck (regs.getD 0 0) 4; pure []),
    fun regs => liftM (componentDecomposition 3 (regs.getD 1 0)),
    fun _ => do let q ← (ExceptT.mk (appendPoint e) : CME Pt); pure [q.1, q.2],
    fun regs => liftM (do
      let x ← componentSelect (regs.getD 2 0) (regs.getD 5 0) (regs.getD 6 0); pure [x]) ]

theorem exProg_rel (w₁ p₁ w₂ p₂ : Nat) (e₁ e₂ : Ext) :
    StepsRel (exProg w₁ p₁ e₁) (exProg w₂ p₂ e₂) := by
  refine .cons (fun _ => .lift ?_) <| .cons (fun _ => .lift ?_) <| .cons (fun _ => .lift ?_) <|
    .cons (fun _ => .lift ?_) <| .cons (fun _ => ?_) <| .cons (fun _ => .lift ?_) .nil
  · exact .bind (appendWitness_shape _ _) fun _ => .pure _
  · exact .bind (appendPublic_shape _ _) fun _ => .pure _
  · exact .bind (rangeCheck_stable _ _) fun _ => .pure _
  · exact componentDecomposition_stable _ _
  · exact .bind (appendPoint_shapeE _ _) fun _ => .pure _
  · exact .bind (componentSelect_stable _ _ _) fun _ => .pure _

/-- non-vacuity: the program run with `(5, 3, off-curve point)` and with `(200, 77, another
    point)` — a non-4-bit witness, a different public input — succeeds both times, with the same
    registers and hence (by the theorem) the same shape; with a `Z = 0` point it stops with an
    error instead -/
example :
    ((runSteps (exProg 5 3 ⟨1, 1, 1, 1, 1⟩) []).run.run Composer.initialized).1
      = .ok [6, 7, 10, 12, 14, 16, 17, 21] ∧
    ((runSteps (exProg 200 77 ⟨2, 3, 5, 0, 0⟩) []).run.run Composer.initialized).1
      = .ok [6, 7, 10, 12, 14, 16, 17, 21] ∧
    ((runSteps (exProg 200 77 ⟨2, 3, 0, 0, 0⟩) []).run.run Composer.initialized).1
      = .error .degenerate := by decide +kernel

example : SameShape
    ((runSteps (exProg 5 3 ⟨1, 1, 1, 1, 1⟩) []).run.run Composer.initialized).2
    ((runSteps (exProg 200 77 ⟨2, 3, 5, 0, 0⟩) []).run.run Composer.initialized).2 :=
  (program_shape_value_free (exProg_rel 5 3 200 77 _ _) [] (SameShape.refl _)
    (r₁ := [6, 7, 10, 12, 14, 16, 17, 21]) (r₂ := [6, 7, 10, 12, 14, 16, 17, 21])
    (by decide +kernel) (by decide +kernel)).2

end Plonk.Props.C07
