/-
  Property C09 — the range check accepts exactly the interval `[0, 2^BITS)`.

  Conventions.  `c` is the composer state before the call, `c' := ((rangeCheck x bits).run c).2`
  the state after it (`componentRangeBits bits x` *is* `rangeCheck x bits`), `w : Nat → Nat` an
  arbitrary assignment of values to witness indices (everything a prover may choose, including
  all accumulators), `c''.rowsHoldW w c.gates.size c'.gates.size` says that the rows appended by
  the call hold under `w` (read in `c'` itself or in any later state `c''`), and
  `toF : Nat → F = ZMod R` interprets values in the scalar field.

  Everything is proved at full strength, for even and odd widths and width 0; there is no
  `_partial` theorem.

  Forced hypotheses (findings; none of them is a defect of the Rust code):
    * `PiFresh c` (no public input is recorded for a row index that does not exist yet): it is
      the `pis_zero` component of `Composer.WF` of C08, an invariant of every state reachable
      from `initialized` (`piFresh_initialized`, preserved: `rangeCheck_extends`).  Without it a
      stale sparse public input would leak into the fresh rows.
    * `toF (w 0) = 0`: the padding slots of the first range row are wired to the constant-zero
      witness (index 0); its value is pinned by row 0 of `Composer::initialized()`, not by the
      component.  If witness 0 were free the check would accept values up to `4^numQuads`.
    * completeness: `x < c.wit.size` (the witness was allocated) and `c.val 0 = 0`.
      The bounds "witness values `< R`" and `bits ≤ 256` of the informal statement are *not*
      needed: completeness holds for every width.
    * `range_exact`: `x = 0 → v = 0` (range-checking the zero witness itself is satisfiable for the
      value 0 only) and `v < R` (`v` is a canonical value).
  Remark on widths 255 and 256 (`range_255_256_trivial`): every canonical value is accepted, so
  the component constrains nothing; soundness is only claimed up to 254 (`2^254 < R < 2^255`).
-/
import Plonk.Proofs.Range
namespace Plonk.Props.C09
open Plonk Plonk.Composer

/-! ## what is appended -/

/-- `range_check` only appends: `c'` extends `c`; the number of gates and witnesses appended is a
    function of the width alone; no public input is added; the last appended gate is plain (it
    reads no next-row wire, so whatever is appended later does not disturb the component); the
    invariant `PiFresh` is preserved.

    Counts: even `bits > 0`: `⌈bits/8⌉ + 2` gates, `bits/2` witnesses; `bits = 0`: one gate;
    odd `bits`: those of `bits − 1`, plus 3 gates and 3 witnesses. -/
theorem rangeCheck_extends (c : Composer) (x bits : Nat) :
    Extends c ((rangeCheck x bits).run c).2 ∧
    ((rangeCheck x bits).run c).2.gates.size = c.gates.size + rangeGateCount bits ∧
    ((rangeCheck x bits).run c).2.wit.size = c.wit.size + rangeWitCount bits ∧
    ((rangeCheck x bits).run c).2.pis = c.pis ∧
    (∀ i, i + 1 = ((rangeCheck x bits).run c).2.gates.size →
      Gate.plain (((rangeCheck x bits).run c).2.gateAt i)) ∧
    (PiFresh c → PiFresh ((rangeCheck x bits).run c).2) :=
  ⟨Composer.rangeCheck_extends c x bits, rangeCheck_gates_size c x bits,
    rangeCheck_wit_size c x bits, rangeCheck_pis c x bits, rangeCheck_last_plain c x bits,
    rangeCheck_piFresh c x bits⟩

/-- the counts, in closed form -/
theorem rangeCheck_counts (bits : Nat) :
    rangeGateCount bits =
      (if bits % 2 = 0 then (if bits = 0 then 1 else (bits + 7) / 8 + 2)
       else (if bits = 1 then 1 else (bits + 6) / 8 + 2) + 3) ∧
    rangeWitCount bits = (if bits % 2 = 0 then bits / 2 else (bits - 1) / 2 + 3) := by
  unfold rangeGateCount rangeWitCount evenGateCount
  refine ⟨?_, rfl⟩
  split
  · rfl
  · next h =>
    have e1 : (bits - 1 = 0) = (bits = 1) := by apply propext; omega
    have e2 : (bits - 1 + 7) / 8 = (bits + 6) / 8 := by congr 1; omega
    simp only [e1, e2]

/-- non-vacuity: a 64-bit check costs 10 gates and 32 witnesses, a 7-bit check 6 and 6;
    `initialized` satisfies the invariant -/
example : rangeGateCount 64 = 10 ∧ rangeWitCount 64 = 32 ∧ rangeGateCount 7 = 6 ∧
    rangeWitCount 7 = 6 ∧ PiFresh initialized :=
  ⟨by decide, by decide, by decide, by decide, piFresh_initialized⟩

/-! ## soundness -/

/-- **Soundness.**  For every width `bits ≤ 254` (even or odd, or 0) and *every* assignment `w`
    (all accumulator choices) with the zero witness equal to 0: if the rows appended by
    `range_check` hold under `w` — read in `c'` or in any later state `c''` — then the canonical
    value of witness `x` is below `2^bits`. -/
theorem rangeCheck_sound (c : Composer) (x bits : Nat) (hbits : bits ≤ 254) (hpi : PiFresh c)
    (c'' : Composer) (hext : Extends ((rangeCheck x bits).run c).2 c'')
    (w : Nat → Nat) (h0 : toF (w 0) = 0)
    (hrows : c''.rowsHoldW w c.gates.size ((rangeCheck x bits).run c).2.gates.size) :
    (toF (w x)).val < 2 ^ bits :=
  rangeCheck_sound_ext c x bits hbits hpi c'' hext w h0 hrows

/-- width 0 forces the value 0 -/
theorem rangeCheck_sound_zero (c : Composer) (x : Nat) (hpi : PiFresh c)
    (c'' : Composer) (hext : Extends ((rangeCheck x 0).run c).2 c'')
    (w : Nat → Nat) (h0 : toF (w 0) = 0)
    (hrows : c''.rowsHoldW w c.gates.size ((rangeCheck x 0).run c).2.gates.size) :
    toF (w x) = 0 := by
  have := rangeCheck_sound_ext c x 0 (by norm_num) hpi c'' hext w h0 hrows
  exact (ZMod.val_eq_zero _).mp (by omega)

/-! ## completeness -/

/-- **Completeness.**  If witness `x` was allocated, the zero witness holds 0 and the value of
    `x` is below `2^bits` (any width), the model's own witness table satisfies the appended rows —
    read in `c'` or in any later state `c''`. -/
theorem rangeCheck_complete (c : Composer) (x bits : Nat) (hpi : PiFresh c)
    (hx : x < c.wit.size) (hz : c.val 0 = 0) (hv : c.val x < 2 ^ bits)
    (c'' : Composer) (hext : Extends ((rangeCheck x bits).run c).2 c'') :
    c''.rowsHoldW c''.val c.gates.size ((rangeCheck x bits).run c).2.gates.size :=
  rangeCheck_complete_ext c x bits hpi hx hz hv c'' hext

/-- non-vacuity of soundness and completeness together, odd width: on `initialized`, witness 2
    holds 6; a 3-bit check of it is satisfied by the model's table, and soundness applied to that
    table yields `6 < 2^3`. -/
example : (toF (((rangeCheck 2 3).run initialized).2.val 2)).val < 2 ^ 3 :=
  rangeCheck_sound initialized 2 3 (by norm_num) piFresh_initialized _ (Extends.refl _) _
    (by decide +kernel)
    (rangeCheck_complete initialized 2 3 piFresh_initialized (by decide) (by decide) (by decide)
      _ (Extends.refl _))

/-- non-vacuity, even width: witness 4 of `initialized` holds 7 `< 2^4`. -/
example : (toF (((rangeCheck 4 4).run initialized).2.val 4)).val < 2 ^ 4 :=
  rangeCheck_sound initialized 4 4 (by norm_num) piFresh_initialized _ (Extends.refl _) _
    (by decide +kernel)
    (rangeCheck_complete initialized 4 4 piFresh_initialized (by decide) (by decide) (by decide)
      _ (Extends.refl _))

/-! ## the property -/

/-- **C09, bit-counted entry point.**  For every width `bits ≤ 254` and every canonical value
    `v`, the rows appended by `component_range_bits::<bits>(x)` are satisfiable by an assignment
    giving `x` the value `v` (and the zero witness the value 0) exactly when `v < 2^bits`. -/
theorem range_exact (c : Composer) (x bits v : Nat) (hbits : bits ≤ 254) (hpi : PiFresh c)
    (hx : x < c.wit.size) (hx0 : x = 0 → v = 0) (hv : v < R) :
    (∃ w : Nat → Nat, w x = v ∧ w 0 = 0 ∧
        ((componentRangeBits bits x).run c).2.rowsHoldW w c.gates.size
          ((componentRangeBits bits x).run c).2.gates.size)
      ↔ v < 2 ^ bits :=
  range_exact_core c x bits v hbits hpi hx hx0 hv

/-- **C09, deprecated bit-pair-counted entry point**: `component_range::<p>(x)`, `p ≤ 127`,
    accepts exactly `[0, 4^p)`. -/
theorem range_exact_pairs (c : Composer) (x p v : Nat) (hp : p ≤ 127) (hpi : PiFresh c)
    (hx : x < c.wit.size) (hx0 : x = 0 → v = 0) (hv : v < R) :
    (∃ w : Nat → Nat, w x = v ∧ w 0 = 0 ∧
        ((componentRange p x).run c).2.rowsHoldW w c.gates.size
          ((componentRange p x).run c).2.gates.size)
      ↔ v < 2 ^ (2 * p) := by
  rw [componentRange_eq_bits p x (by omega)]
  exact range_exact_core c x (2 * p) v (by omega) hpi hx hx0 hv

/-- non-vacuity: both sides of the equivalence occur — on `initialized` with `x = 2`, the value 5
    is accepted by a 3-bit check and the value 9 is not. -/
example :
    (∃ w : Nat → Nat, w 2 = 5 ∧ w 0 = 0 ∧
      ((componentRangeBits 3 2).run initialized).2.rowsHoldW w initialized.gates.size
        ((componentRangeBits 3 2).run initialized).2.gates.size) ∧
    ¬ (∃ w : Nat → Nat, w 2 = 9 ∧ w 0 = 0 ∧
      ((componentRangeBits 3 2).run initialized).2.rowsHoldW w initialized.gates.size
        ((componentRangeBits 3 2).run initialized).2.gates.size) := by
  constructor
  · exact (range_exact initialized 2 3 5 (by norm_num) piFresh_initialized (by decide)
      (by decide) (by decide +kernel)).mpr (by norm_num)
  · rw [range_exact initialized 2 3 9 (by norm_num) piFresh_initialized (by decide)
      (by decide) (by decide +kernel)]
    norm_num

/-! ## the two entry points -/

/-- Both entry points are the same state transformer for equal widths: `component_range::<p>`
    is `component_range_bits::<2p>` for `p ≤ 128` (in particular they emit identical gates and
    allocate identical witnesses), and clamps to width 256 beyond
    (`Generated.RANGE_PAIRS_CLAMP_BITS = 256`). -/
theorem entry_points_agree (p x : Nat) :
    (p ≤ 128 → componentRange p x = componentRangeBits (2 * p) x) ∧
    (128 < p → componentRange p x = componentRangeBits 256 x) :=
  ⟨componentRange_eq_bits p x, componentRange_eq_clamp p x⟩

example : componentRange 32 7 = componentRangeBits 64 7 := (entry_points_agree 32 7).1 (by norm_num)
example : componentRange 200 7 = componentRangeBits 256 7 := (entry_points_agree 200 7).2 (by norm_num)

/-! ## widths 255 and 256 constrain nothing -/

/-- For `bits ∈ {255, 256}` *every* canonical value `v < R` of witness `x` is accepted: there is
    a satisfying assignment giving `x` the value `v`, and (`rangeCheck_complete`) the model's own
    table satisfies the rows whatever the value of `x` is.  So these widths constrain nothing —
    as documented; in particular they do **not** bound the value by `2^255`/`2^256` in any useful
    sense, and the deprecated `component_range::<p>` with `p ≥ 128` is equally vacuous. -/
theorem range_255_256_trivial (c : Composer) (x bits v : Nat) (hbits : bits = 255 ∨ bits = 256)
    (hpi : PiFresh c) (hx : x < c.wit.size) (hx0 : x = 0 → v = 0) (hv : v < R) :
    ∃ w : Nat → Nat, w x = v ∧ w 0 = 0 ∧
      ((componentRangeBits bits x).run c).2.rowsHoldW w c.gates.size
        ((componentRangeBits bits x).run c).2.gates.size := by
  refine range_exists_core c x bits v hpi hx hx0 ?_
  have h1 := R_lt_two_pow_255
  have h2 : 2 ^ 255 ≤ 2 ^ bits := Nat.pow_le_pow_right (by norm_num) (by omega)
  omega

/-- non-vacuity: the largest canonical value `R − 1` passes a 255-bit and a 256-bit check -/
example (bits : Nat) (hbits : bits = 255 ∨ bits = 256) :
    ∃ w : Nat → Nat, w 2 = R - 1 ∧ w 0 = 0 ∧
      ((componentRangeBits bits 2).run initialized).2.rowsHoldW w initialized.gates.size
        ((componentRangeBits bits 2).run initialized).2.gates.size :=
  range_255_256_trivial initialized 2 bits (R - 1) hbits piFresh_initialized (by decide)
    (by decide) (by decide +kernel)

end Plonk.Props.C09
