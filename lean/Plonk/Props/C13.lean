import Plonk.Model.Composer
namespace Plonk.Props.C13
open Plonk
theorem placeholder_consts : Generated.JUBJUB_SCALAR_BITS = 252 ∧ Generated.FIXED_BASE_LEADING_ZERO_ROUNDS = 3 ∧ Generated.MUL_POINT_BITS = 252 := by decide
end Plonk.Props.C13
