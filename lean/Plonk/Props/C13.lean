/-
  C13 — Subgroup boundary: only prime-order subgroup points are let in.

  "assert_torsion_free_point is satisfiable exactly when the witness coordinates are an on-curve
   point of the prime-order subgroup (identity included), whatever auxiliary point the prover
   supplies.  append_constant_point and the generator check of component_mul_generator accept
   exactly such points (the latter additionally excluding the identity) and every point entry
   point rejects a zero-Z representation with an error instead of panicking."

  STATUS — everything below is proved in full (no `_partial`), about the model's own functions
  (`Composer.assertTorsionFreeGates`, `assertTorsionFreePoint`, `appendPoint`,
  `appendConstantPoint`, `appendPublicPoint`, `assertEqualPublicPoint`, `componentMulGenerator`,
  `edMul`, `Ext.onCurve`, `Ext.torsionFree`, `Ext.primeOrder`).

  * The `mulBits`–`smulF` bridge (`edMul_eq_smulF`, extended-coordinate add/double = affine law on
    curve points, `Z ≠ 0` invariant) is PROVED, so nothing is relative to it.
  * What is NOT proved and appears as an explicit hypothesis: the group order `8·r_J` of JubJub
    (`JubjubGroupFacts`, single field `order`).  It is used only for the direction
    "satisfiable ⇒ `[r_J]P = O`" (`tf_sat_torsion_free`, `tf_sat_iff_subgroup`,
    `assertTorsionFreePoint_sound`).  Unconditional: satisfiable ⇔ `P ∈ [8]·E(F_r)`
    (`tf_sat_iff`), satisfiable ⇒ on curve, (`[r_J]P = O` ∧ on curve) ⇒ satisfiable, and the
    completeness of the host's own witness.
  * Forced hypotheses (findings, none is a defect of the Rust code):
      - `WF c` (witness values reduced, no public input registered for a future row) and
        `PtAlloc c P` (the wires of `P` are allocated) — composer invariants;
      - the Boolean tests of `JubJubExtended` are characterised for CANONICAL coordinates
        (`e.z < R`, resp. `e.Red`): the model compares `Z` / `U` / `V` as raw naturals, exactly
        as the Rust code compares canonical `BlsScalar`s;  the `Z = 0` test of the entry points
        is the raw test `e.z = 0` (for canonical `Z`: `toF e.z = 0`).
-/
import Plonk.Proofs.TorsionFree
namespace Plonk.Props.C13
open Plonk Plonk.Composer

/-! ## 1. `assert_torsion_free_gates` / `assert_torsion_free_point` -/

/-- **tf_rows_iff.**  For ANY assignment `w` of the wires (so for any auxiliary point
    `Q = (w n, w (n+1))` the prover supplies, `n = c.wit.size`), all twelve rows appended by
    `assert_torsion_free_gates P q` hold iff `Q` is on the curve, every other new wire carries
    the value forced by `Q` (`TFAux`: squares, helper products, and the three doublings
    `[2]Q, [4]Q, [8]Q` — the addition law is complete on curve points, so no pole leaves a wire
    free), and `[8]Q = P`. -/
theorem tf_rows_iff (P q : Pt) (c : Composer) (h : WF c) (w : Nat → Nat) :
    ((assertTorsionFreeGates P q).run c).2.rowsHoldW w c.gates.size
        ((assertTorsionFreeGates P q).run c).2.gates.size ↔
      OnCurveP (ptW w (c.wit.size, c.wit.size + 1)) ∧ TFAux w c.wit.size ∧
      smulF 8 (ptW w (c.wit.size, c.wit.size + 1)) = ptW w P :=
  Composer.tf_rows_iff P q c h w

/-- non-vacuity: on a concrete state the rows are satisfied by one assignment and violated by
    another (the model's table for the prime-order point `exG`; the all-zero assignment). -/
example : ∃ w, ((assertTorsionFreeGates (6, 7) (0, 1)).run (tfExC exG)).2.rowsHoldW w
    (tfExC exG).gates.size ((assertTorsionFreeGates (6, 7) (0, 1)).run (tfExC exG)).2.gates.size :=
  let ⟨w, _, hw⟩ := tf_sat_of_torsion_free (6, 7) (0, 1) (tfExC exG) (tfExC_wf _) (tfExC_alloc _)
    (tfExC exG).val (by rw [tfExC_val]; exact (onCurve_iff_P exG).mp exG_on_curve)
    (by rw [tfExC_val]; exact exG_torsion)
  ⟨w, hw⟩
example : ¬ ((assertTorsionFreeGates (6, 7) (0, 1)).run (tfExC exG)).2.rowsHoldW (fun _ => 0)
    (tfExC exG).gates.size ((assertTorsionFreeGates (6, 7) (0, 1)).run (tfExC exG)).2.gates.size := by
  rw [tf_rows_iff _ _ _ (tfExC_wf _)]
  rintro ⟨hc, -, -⟩
  have : OnCurveF (0 : F) 0 := by simpa [OnCurveP, ptW] using hc
  unfold OnCurveF at this
  norm_num at this

/-- **tf_sat_iff.**  Whatever values `w0` the already allocated wires carry (the coordinates of
    `P` and the base wires `0`, `1` included), some choice of the 14 new wires satisfies the rows
    iff `P = [8]Q` for some curve point `Q`.  Unconditional. -/
theorem tf_sat_iff (P q : Pt) (c : Composer) (h : WF c) (hP : PtAlloc c P) (w0 : Nat → Nat) :
    (∃ w, (∀ i, i < c.wit.size → w i = w0 i) ∧
      ((assertTorsionFreeGates P q).run c).2.rowsHoldW w c.gates.size
        ((assertTorsionFreeGates P q).run c).2.gates.size) ↔
    ∃ Q : PtF, OnCurveP Q ∧ smulF 8 Q = ptW w0 P :=
  Composer.tf_sat_iff P q c h hP w0

example : WF (tfExC exG) ∧ PtAlloc (tfExC exG) (6, 7) := ⟨tfExC_wf _, tfExC_alloc _⟩

/-- satisfiable ⇒ the coordinates of `P` are a curve point.  Unconditional. -/
theorem tf_sat_on_curve (P q : Pt) (c : Composer) (h : WF c) (hP : PtAlloc c P) (w0 : Nat → Nat)
    (hs : ∃ w, (∀ i, i < c.wit.size → w i = w0 i) ∧
      ((assertTorsionFreeGates P q).run c).2.rowsHoldW w c.gates.size
        ((assertTorsionFreeGates P q).run c).2.gates.size) :
    OnCurveP (ptW w0 P) :=
  Composer.tf_sat_on_curve P q c h hP w0 hs

/-- non-vacuity (rejection): with the off-curve point `(1, 1)` on the wires of `P`, no choice of
    the new wires satisfies the rows. -/
example : ¬ ∃ w, (∀ i, i < (tfExC (1, 1)).wit.size → w i = (tfExC (1, 1)).val i) ∧
    ((assertTorsionFreeGates (6, 7) (0, 1)).run (tfExC (1, 1))).2.rowsHoldW w
      (tfExC (1, 1)).gates.size
      ((assertTorsionFreeGates (6, 7) (0, 1)).run (tfExC (1, 1))).2.gates.size := by
  intro hs
  have hc := tf_sat_on_curve (6, 7) (0, 1) _ (tfExC_wf _) (tfExC_alloc _) _ hs
  rw [tfExC_val, ← onCurve_iff_P] at hc
  exact absurd hc (by decide +kernel)

/-- a curve point killed by `r_J` ⇒ satisfiable (witness `Q = [8⁻¹ mod r_J]P`).  Unconditional;
    the identity is included. -/
theorem tf_sat_of_torsion_free (P q : Pt) (c : Composer) (h : WF c) (hP : PtAlloc c P)
    (w0 : Nat → Nat) (hc : OnCurveP (ptW w0 P)) (hk : smulF RJ (ptW w0 P) = idF) :
    ∃ w, (∀ i, i < c.wit.size → w i = w0 i) ∧
      ((assertTorsionFreeGates P q).run c).2.rowsHoldW w c.gates.size
        ((assertTorsionFreeGates P q).run c).2.gates.size :=
  Composer.tf_sat_of_torsion_free P q c h hP w0 hc hk

/-- non-vacuity: the hypotheses hold for `exG` (prime order) and for the identity `(0, 1)`. -/
example : OnCurveP (toFP exG) ∧ smulF RJ (toFP exG) = idF ∧ toFP exG ≠ idF :=
  ⟨(onCurve_iff_P exG).mp exG_on_curve, exG_torsion, exG_ne_id⟩
example : ∃ w, (∀ i, i < (tfExC (0, 1)).wit.size → w i = (tfExC (0, 1)).val i) ∧
    ((assertTorsionFreeGates (6, 7) (0, 1)).run (tfExC (0, 1))).2.rowsHoldW w
      (tfExC (0, 1)).gates.size
      ((assertTorsionFreeGates (6, 7) (0, 1)).run (tfExC (0, 1))).2.gates.size :=
  tf_sat_of_torsion_free (6, 7) (0, 1) _ (tfExC_wf _) (tfExC_alloc _) _
    (by rw [tfExC_val]; show OnCurveP (toFP Pt.id); rw [toFP_id]; exact id_on_curveP)
    (by rw [tfExC_val]; show smulF RJ (toFP Pt.id) = idF; rw [toFP_id]; exact smulF_id RJ)

/-- satisfiable ⇒ `[r_J]P = O`, under the group-order hypothesis `JubjubGroupFacts` only. -/
theorem tf_sat_torsion_free (H : JubjubGroupFacts) (P q : Pt) (c : Composer) (h : WF c)
    (hP : PtAlloc c P) (w0 : Nat → Nat)
    (hs : ∃ w, (∀ i, i < c.wit.size → w i = w0 i) ∧
      ((assertTorsionFreeGates P q).run c).2.rowsHoldW w c.gates.size
        ((assertTorsionFreeGates P q).run c).2.gates.size) :
    smulF RJ (ptW w0 P) = idF :=
  Composer.tf_sat_torsion_free H P q c h hP w0 hs

/-- **Subgroup boundary** (group-order hypothesis): satisfiable ⇔ the coordinates of `P` are a
    curve point of the subgroup killed by `r_J` (identity included). -/
theorem tf_sat_iff_subgroup (H : JubjubGroupFacts) (P q : Pt) (c : Composer) (h : WF c)
    (hP : PtAlloc c P) (w0 : Nat → Nat) :
    (∃ w, (∀ i, i < c.wit.size → w i = w0 i) ∧
      ((assertTorsionFreeGates P q).run c).2.rowsHoldW w c.gates.size
        ((assertTorsionFreeGates P q).run c).2.gates.size) ↔
    OnCurveP (ptW w0 P) ∧ smulF RJ (ptW w0 P) = idF :=
  Composer.tf_sat_iff_subgroup H P q c h hP w0

/-- non-vacuity (rejection of a small-order curve point): with the order-2 point `(0, −1)` on
    the wires of `P` — on the curve but outside the subgroup — the rows are unsatisfiable. -/
example (H : JubjubGroupFacts) :
    ¬ ∃ w, (∀ i, i < (tfExC (0, R - 1)).wit.size → w i = (tfExC (0, R - 1)).val i) ∧
    ((assertTorsionFreeGates (6, 7) (0, 1)).run (tfExC (0, R - 1))).2.rowsHoldW w
      (tfExC (0, R - 1)).gates.size
      ((assertTorsionFreeGates (6, 7) (0, 1)).run (tfExC (0, R - 1))).2.gates.size := by
  intro hs
  have hk := tf_sat_torsion_free H (6, 7) (0, 1) _ (tfExC_wf _) (tfExC_alloc _) _ hs
  rw [tfExC_val, toFP_exT2] at hk
  exact exT2F_not_torsion hk
example : OnCurveP exT2F := exT2F_on_curve

/-- `assert_torsion_free_point P` lays down the same gates whatever the host computes, so for an
    ARBITRARY assignment its rows mean the same (`tf_rows_iff` for the entry point itself). -/
theorem assertTorsionFreePoint_rows_iff (P : Pt) (c : Composer) (h : WF c) (w : Nat → Nat) :
    ((assertTorsionFreePoint P).run c).2.rowsHoldW w c.gates.size
        ((assertTorsionFreePoint P).run c).2.gates.size ↔
      OnCurveP (ptW w (c.wit.size, c.wit.size + 1)) ∧ TFAux w c.wit.size ∧
      smulF 8 (ptW w (c.wit.size, c.wit.size + 1)) = ptW w P :=
  Composer.assertTorsionFreePoint_rows_iff P c h w

example : WF (tfExC exG) := tfExC_wf _

/-- **Completeness of the entry point.**  If the model's table carries on the wires of `P` a curve
    point killed by `r_J`, the host's own choice `q = [EIGHT_INV]P` makes the model's own witness
    table satisfy all rows of `assert_torsion_free_point P`.  Unconditional. -/
theorem assertTorsionFreePoint_complete (P : Pt) (c : Composer) (h : WF c) (hP : PtAlloc c P)
    (hc : onCurve (c.val P.1, c.val P.2) = true) (hk : smulF RJ (ptW c.val P) = idF) :
    ((assertTorsionFreePoint P).run c).2.rowsHoldW ((assertTorsionFreePoint P).run c).2.val
      c.gates.size ((assertTorsionFreePoint P).run c).2.gates.size :=
  Composer.assertTorsionFreePoint_complete P c h hP hc hk

/-- non-vacuity: the concrete prime-order point `exG` -/
example : ((assertTorsionFreePoint (6, 7)).run (tfExC exG)).2.rowsHoldW
    ((assertTorsionFreePoint (6, 7)).run (tfExC exG)).2.val (tfExC exG).gates.size
    ((assertTorsionFreePoint (6, 7)).run (tfExC exG)).2.gates.size :=
  assertTorsionFreePoint_complete (6, 7) _ (tfExC_wf _) (tfExC_alloc _)
    (by rw [(tfExC_val_nat exG).1, (tfExC_val_nat exG).2]; decide +kernel)
    (by rw [tfExC_val]; exact exG_torsion)

/-- **Soundness of the entry point** (group-order hypothesis): whatever assignment satisfies the
    rows, it carries on the wires of `P` a curve point killed by `r_J`. -/
theorem assertTorsionFreePoint_sound (H : JubjubGroupFacts) (P : Pt) (c : Composer) (h : WF c)
    (w : Nat → Nat)
    (hr : ((assertTorsionFreePoint P).run c).2.rowsHoldW w c.gates.size
        ((assertTorsionFreePoint P).run c).2.gates.size) :
    OnCurveP (ptW w P) ∧ smulF RJ (ptW w P) = idF :=
  Composer.assertTorsionFreePoint_sound H P c h w hr

example : ∃ w, ((assertTorsionFreePoint (6, 7)).run (tfExC exG)).2.rowsHoldW w
    (tfExC exG).gates.size ((assertTorsionFreePoint (6, 7)).run (tfExC exG)).2.gates.size :=
  ⟨_, assertTorsionFreePoint_complete (6, 7) _ (tfExC_wf _) (tfExC_alloc _)
    (by rw [(tfExC_val_nat exG).1, (tfExC_val_nat exG).2]; decide +kernel)
    (by rw [tfExC_val]; exact exG_torsion)⟩

/-! ## 2. The host's scalar multiplication and Boolean tests, in the group law -/

/-- **edMul_eq_smulF** (the `mulBits`–`smulF` bridge, proved): on a curve point the host's
    extended-coordinate double-and-add `edMul k` computes the scalar multiple `[k]P` of the affine
    group law, for every `k < 2^252` (every `JubJubScalar`); the result is canonical and on the
    curve. -/
theorem edMul_eq_smulF (k : Nat) (p : Pt) (hp : onCurve p = true) (hk : k < 2 ^ 252) :
    toFP (edMul k p) = smulF k (toFP p) ∧ onCurve (edMul k p) = true ∧
      (edMul k p).1 < R ∧ (edMul k p).2 < R :=
  ⟨Plonk.edMul_eq_smulF k p hp hk, edMul_on_curve k p hp hk, edMul_lt k p⟩

example : onCurve exG = true ∧ Generated.EIGHT_INV < 2 ^ 252 ∧ RJ < 2 ^ 252 :=
  ⟨exG_on_curve, EIGHT_INV_lt, RJ_lt⟩
example : smulF 8 (toFP (edMul Generated.EIGHT_INV exG)) = toFP exG := by
  rw [(edMul_eq_smulF _ _ exG_on_curve EIGHT_INV_lt).1]
  exact eight_smul_eight_inv ((onCurve_iff_P exG).mp exG_on_curve) exG_torsion

/-- **`is_on_curve` (extended)**: `Z ≠ 0`, the affine point `(U/Z, V/Z)` is on the curve, and
    `T1·T2 = U·V/Z`. -/
theorem ext_onCurve_iff (e : Ext) :
    e.onCurve = true ↔ e.z ≠ 0 ∧ OnCurveP e.affF ∧
      e.affF.1 * e.affF.2 * toF e.z = toF e.t1 * toF e.t2 :=
  Ext.onCurve_iff e

example : (Ext.ofAffine exG).onCurve = true ∧ (⟨1, 1, 1, 1, 1⟩ : Ext).onCurve = false :=
  ⟨exG_ext_onCurve, by decide +kernel⟩

/-- **`is_torsion_free`** on an accepted point with canonical `Z`: `[r_J]P = O`. -/
theorem ext_torsionFree_iff (e : Ext) (h : e.onCurve = true) (hz : e.z < R) :
    e.torsionFree = true ↔ smulF RJ e.affF = idF :=
  Ext.torsionFree_iff h hz

example : (Ext.ofAffine exG).torsionFree = true ∧ exT2.onCurve = true ∧ exT2.torsionFree = false :=
  ⟨exG_ext_torsionFree, exT2_onCurve, exT2_not_torsionFree⟩

/-- **`is_prime_order`** on an accepted canonical point: `[r_J]P = O` and `P ≠ O`. -/
theorem ext_primeOrder_iff (e : Ext) (h : e.onCurve = true) (hr : e.Red) :
    e.primeOrder = true ↔ smulF RJ e.affF = idF ∧ e.affF ≠ idF :=
  Ext.primeOrder_iff h hr

example : (Ext.ofAffine exG).primeOrder = true ∧ Ext.id.primeOrder = false ∧
    (Ext.ofAffine exG).Red :=
  ⟨exG_ext_primeOrder, id_ext_not_primeOrder, ofAffine_red exG_lt.1 exG_lt.2⟩

/-! ## 3. Host-side decision logic of the point entry points -/

/-- **`append_point`**: fails with `JubJubPointDegenerate` exactly when `Z = 0`, leaving the
    state unchanged; otherwise it returns the wires `(n, n+1)`, appends no gate, allocates exactly
    these two witnesses, and they carry the affine point `(U/Z, V/Z)`. -/
theorem appendPoint_spec (e : Ext) (c : Composer) :
    (((appendPoint e).run c).1 = .error .degenerate ↔ e.z = 0) ∧
    (e.z = 0 → (appendPoint e).run c = (.error .degenerate, c)) ∧
    (e.z ≠ 0 → ∃ c', (appendPoint e).run c = (.ok (c.wit.size, c.wit.size + 1), c') ∧
      Appends c c' 0 2 ∧ ptW c'.val (c.wit.size, c.wit.size + 1) = e.affF) :=
  ⟨appendPoint_degenerate_iff e c, appendPoint_error_state e c,
   fun h => ⟨_, appendPoint_ok e c h, apS_appends _ c, apS_ptW e c⟩⟩

example : ((appendPoint ⟨1, 1, 0, 1, 1⟩).run initialized).1 = .error .degenerate :=
  (appendPoint_spec _ _).1.mpr rfl
example : ((appendPoint (Ext.ofAffine exG)).run initialized).1 ≠ .error .degenerate := by
  rw [Ne, (appendPoint_spec _ _).1]; decide +kernel

/-- **`append_public_point`**: `JubJubPointDegenerate` exactly when `Z = 0`, state unchanged;
    otherwise the two appended rows hold under `w` iff the returned wires carry the affine point
    (which the two public inputs expose). -/
theorem appendPublicPoint_spec (e : Ext) (c : Composer) (h : WF c) :
    (((appendPublicPoint e).run c).1 = .error .degenerate ↔ e.z = 0) ∧
    (e.z = 0 → (appendPublicPoint e).run c = (.error .degenerate, c)) ∧
    (e.z ≠ 0 → ∃ c', (appendPublicPoint e).run c = (.ok (c.wit.size, c.wit.size + 1), c') ∧
      Appends c c' 2 2 ∧ ∀ w, c'.rowsHoldW w c.gates.size c'.gates.size ↔
        ptW w (c.wit.size, c.wit.size + 1) = e.affF) := by
  refine ⟨appendPublicPoint_degenerate_iff e c, fun hz => ?_, fun hz => ?_⟩
  · rw [appendPublicPoint_run, if_pos hz]
  · refine ⟨appS e.aff c, by rw [appendPublicPoint_run, if_neg hz], appS_appends _ c, fun w => ?_⟩
    rw [appS_rows_iff _ c h, Ext.toFP_aff]

example : ((appendPublicPoint ⟨1, 1, 0, 1, 1⟩).run initialized).1 = .error .degenerate :=
  (appendPublicPoint_spec _ _ initialized_wf).1.mpr rfl

/-- **`assert_equal_public_point`**: `JubJubPointDegenerate` exactly when `Z = 0`, state
    unchanged; otherwise two rows that hold iff the wires of `p` carry the affine point. -/
theorem assertEqualPublicPoint_spec (p : Pt) (e : Ext) (c : Composer) (h : WF c) :
    (((assertEqualPublicPoint p e).run c).1 = .error .degenerate ↔ e.z = 0) ∧
    (e.z = 0 → (assertEqualPublicPoint p e).run c = (.error .degenerate, c)) ∧
    (e.z ≠ 0 → ∃ c', (assertEqualPublicPoint p e).run c = (.ok (), c') ∧
      ∀ w, c'.rowsHoldW w c.gates.size c'.gates.size ↔ ptW w p = e.affF) := by
  refine ⟨assertEqualPublicPoint_degenerate_iff p e c, fun hz => ?_, fun hz => ?_⟩
  · rw [assertEqualPublicPoint_run, if_pos hz]
  · refine ⟨aeppS p e.aff c, by rw [assertEqualPublicPoint_run, if_neg hz], fun w => ?_⟩
    rw [aeppS_rows_iff _ _ c h, Ext.toFP_aff]

example : ((assertEqualPublicPoint (0, 1) ⟨1, 1, 0, 1, 1⟩).run initialized).1
    = .error .degenerate :=
  (assertEqualPublicPoint_spec _ _ _ initialized_wf).1.mpr rfl

/-- **`append_constant_point`**, decisions: `JubJubPointDegenerate` ⇔ `Z = 0`;
    `JubJubPointNotTorsionFree` ⇔ `Z ≠ 0` and not (on curve and torsion free); success ⇔ `Z ≠ 0`,
    on curve and torsion free; the state is unchanged unless it succeeds. -/
theorem appendConstantPoint_decision (e : Ext) (c : Composer) :
    (((appendConstantPoint e).run c).1 = .error .degenerate ↔ e.z = 0) ∧
    (((appendConstantPoint e).run c).1 = .error .notTorsionFree ↔
      e.z ≠ 0 ∧ ¬ (e.onCurve = true ∧ e.torsionFree = true)) ∧
    ((∃ p, ((appendConstantPoint e).run c).1 = .ok p) ↔
      e.z ≠ 0 ∧ e.onCurve = true ∧ e.torsionFree = true) ∧
    (¬ (e.z ≠ 0 ∧ e.onCurve = true ∧ e.torsionFree = true) →
      ((appendConstantPoint e).run c).2 = c) :=
  ⟨appendConstantPoint_degenerate_iff e c, appendConstantPoint_notTorsionFree_iff e c,
   appendConstantPoint_ok_iff e c, appendConstantPoint_error_state e c⟩

example : ((appendConstantPoint ⟨1, 1, 0, 1, 1⟩).run initialized).1 = .error .degenerate :=
  (appendConstantPoint_decision _ _).1.mpr rfl
example : ((appendConstantPoint exT2).run initialized).1 = .error .notTorsionFree :=
  (appendConstantPoint_decision _ _).2.1.mpr
    ⟨by decide, by rw [exT2_not_torsionFree]; simp⟩
example : ∃ p, ((appendConstantPoint (Ext.ofAffine exG)).run initialized).1 = .ok p :=
  (appendConstantPoint_decision _ _).2.2.1.mpr
    ⟨by decide +kernel, exG_ext_onCurve, exG_ext_torsionFree⟩

/-- **`append_constant_point` accepts exactly the subgroup points** (canonical `Z`): the
    acceptance condition is `Z ≠ 0`, `(U/Z, V/Z)` on the curve with consistent `T1·T2`, and
    `[r_J](U/Z, V/Z) = O` (identity included). -/
theorem appendConstantPoint_accepts_iff (e : Ext) (c : Composer) (hz : e.z < R) :
    (∃ p, ((appendConstantPoint e).run c).1 = .ok p) ↔
      toF e.z ≠ 0 ∧ OnCurveP e.affF ∧ e.affF.1 * e.affF.2 * toF e.z = toF e.t1 * toF e.t2 ∧
      smulF RJ e.affF = idF := by
  rw [(appendConstantPoint_decision e c).2.2.1]
  exact Composer.appendConstantPoint_accepts_iff e hz

example : (Ext.ofAffine exG).z < R ∧ Ext.id.z < R :=
  ⟨Nat.mod_lt _ R_pos, Nat.mod_lt _ R_pos⟩
/-- the identity is accepted -/
example : ∃ p, ((appendConstantPoint Ext.id).run initialized).1 = .ok p :=
  (appendConstantPoint_decision _ _).2.2.1.mpr ⟨by decide +kernel, by decide +kernel,
    by decide +kernel⟩

/-- **`append_constant_point` on success**: wires `(n, n+1)`, two `append_constant` rows that
    hold under `w` iff the wires carry the affine point; the model's own table satisfies them. -/
theorem appendConstantPoint_success (e : Ext) (c : Composer) (h : WF c) (hz : e.z ≠ 0)
    (h1 : e.onCurve = true) (h2 : e.torsionFree = true) :
    ∃ c', (appendConstantPoint e).run c = (.ok (c.wit.size, c.wit.size + 1), c') ∧
      Appends c c' 2 2 ∧
      (∀ w, c'.rowsHoldW w c.gates.size c'.gates.size ↔
        ptW w (c.wit.size, c.wit.size + 1) = e.affF) ∧
      c'.rowsHoldW c'.val c.gates.size c'.gates.size := by
  refine ⟨acpS e.aff c, appendConstantPoint_ok e c hz h1 h2, acpS_appends _ c, fun w => ?_,
    acpS_honest _ c h⟩
  rw [acpS_rows_iff _ c h, Ext.toFP_aff]

example : (Ext.ofAffine exG).z ≠ 0 ∧ (Ext.ofAffine exG).onCurve = true ∧
    (Ext.ofAffine exG).torsionFree = true :=
  ⟨by decide +kernel, exG_ext_onCurve, exG_ext_torsionFree⟩

/-- **`component_mul_generator`, host-side checks.**  The `Z = 0` test comes first (before any
    projection), then `is_on_curve`, then `is_prime_order`: `JubJubGeneratorNotPrimeOrder` ⇔ one
    of them fails; `JubJubScalarMalformed` ⇔ the generator passes and the scalar value is
    `≥ r_J`; the state is unchanged in both cases; otherwise the fixed-base gates are laid down
    for the affine generator and the width-2 NAF of the scalar. -/
theorem componentMulGenerator_decision (j : Nat) (e : Ext) (c : Composer) :
    (((componentMulGenerator j e).run c).1 = .error .generatorNotPrime ↔
      (e.z = 0 ∨ e.onCurve = false ∨ e.primeOrder = false)) ∧
    (((componentMulGenerator j e).run c).1 = .error .scalarMalformed ↔
      ¬ (e.z = 0 ∨ e.onCurve = false ∨ e.primeOrder = false) ∧ RJ ≤ c.val j) ∧
    ((e.z = 0 ∨ e.onCurve = false ∨ e.primeOrder = false) ∨ RJ ≤ c.val j →
      ((componentMulGenerator j e).run c).2 = c) ∧
    (¬ (e.z = 0 ∨ e.onCurve = false ∨ e.primeOrder = false) → c.val j < RJ →
      (componentMulGenerator j e).run c =
        (appendFixedBaseSignedDigits j e.aff (wnaf2 (c.val j))).run c) := by
  refine ⟨componentMulGenerator_generatorNotPrime_iff j e c,
    componentMulGenerator_scalarMalformed_iff j e c, componentMulGenerator_error_state j e c,
    fun h1 h2 => ?_⟩
  rw [componentMulGenerator_run, if_neg h1, if_neg (Nat.not_le.mpr h2)]

/-- non-vacuity: zero-`Z` and the identity are rejected; `exG` passes the generator test (then
    the scalar on wire `0`, value `0 < r_J`, passes too) -/
example : ((componentMulGenerator 0 ⟨1, 1, 0, 1, 1⟩).run initialized).1
    = .error .generatorNotPrime :=
  (componentMulGenerator_decision _ _ _).1.mpr (Or.inl rfl)
example : ((componentMulGenerator 0 Ext.id).run initialized).1 = .error .generatorNotPrime :=
  (componentMulGenerator_decision _ _ _).1.mpr (Or.inr (Or.inr id_ext_not_primeOrder))
example : ((componentMulGenerator 0 (Ext.ofAffine exG)).run initialized).1
    ≠ .error .generatorNotPrime := by
  rw [Ne, (componentMulGenerator_decision _ _ _).1, exG_ext_onCurve, exG_ext_primeOrder]
  decide +kernel
example : ((componentMulGenerator 0 (Ext.ofAffine exG)).run
    (tfExC (RJ, 0))).1 ≠ .error .scalarMalformed ∧
    ((componentMulGenerator 6 (Ext.ofAffine exG)).run (tfExC (RJ, 0))).1
      = .error .scalarMalformed := by
  constructor
  · rw [Ne, (componentMulGenerator_decision _ _ _).2.1]
    rintro ⟨-, h⟩
    have h0 : (tfExC (RJ, 0)).val 0 = 0 := by
      unfold tfExC
      rw [(apS_appends (RJ, 0) initialized).ext.val_eq (w := 0)
        (by rw [initialized_wit_size]; decide)]
      exact initialized_val_zero
    rw [h0] at h; exact absurd h (by decide +kernel)
  · rw [(componentMulGenerator_decision _ _ _).2.1, exG_ext_onCurve, exG_ext_primeOrder,
      (tfExC_val_nat (RJ, 0)).1]
    decide +kernel

/-- **the generator test accepts exactly the non-identity subgroup points** (canonical
    coordinates). -/
theorem componentMulGenerator_accepts_iff (e : Ext) (hr : e.Red) :
    ¬ (e.z = 0 ∨ e.onCurve = false ∨ e.primeOrder = false) ↔
      toF e.z ≠ 0 ∧ OnCurveP e.affF ∧ e.affF.1 * e.affF.2 * toF e.z = toF e.t1 * toF e.t2 ∧
      smulF RJ e.affF = idF ∧ e.affF ≠ idF :=
  Composer.componentMulGenerator_accepts_iff e hr

example : (Ext.ofAffine exG).Red := ofAffine_red exG_lt.1 exG_lt.2

/-- **Zero-`Z` is always an error, never a panic**: each of the five point entry points returns
    its error value on a `Z = 0` representation and leaves the composer untouched (the model is
    total; no projection `U/Z` is evaluated on this path). -/
theorem zero_z_rejected (e : Ext) (hz : e.z = 0) (p : Pt) (j : Nat) (c : Composer) :
    (appendPoint e).run c = (.error .degenerate, c) ∧
    (appendConstantPoint e).run c = (.error .degenerate, c) ∧
    (appendPublicPoint e).run c = (.error .degenerate, c) ∧
    (assertEqualPublicPoint p e).run c = (.error .degenerate, c) ∧
    (componentMulGenerator j e).run c = (.error .generatorNotPrime, c) := by
  refine ⟨?_, ?_, ?_, ?_, ?_⟩
  · rw [appendPoint_run, if_pos hz]
  · rw [appendConstantPoint_run, if_pos hz]
  · rw [appendPublicPoint_run, if_pos hz]
  · rw [assertEqualPublicPoint_run, if_pos hz]
  · rw [componentMulGenerator_run, if_pos (Or.inl hz)]

example : (⟨5, 7, 0, 1, 2⟩ : Ext).z = 0 := rfl

end Plonk.Props.C13
