/-
  C01 — completeness: algebraic ingredients (model level).

  "Every satisfied circuit proves and verifies."  The end-to-end statement needs the quotient
  identity of a satisfied circuit and the verifier's linearisation; this file delivers the
  ingredients that concern the commitment scheme and the prover's bookkeeping, all about the
  model's own functions (`aggregateWitness`, `truncateLen`, `compile`, `commitT`, `blindPoly`,
  `splitQuotient`; `Plonk/Model/{Kzg,Prover}.lean`):

  * `prover_transcript_prefix` (kept): the prover's transcript is a prefix of the verifier's.
  * `opening_identity`, `opening_identity_at`: `W·(X − z) = Σ_j v^j (p_j − p_j(z))` for the
    aggregate witness the prover commits to (hence the batched pairing check holds for honest
    openings, cf. C20 `aggregate_open_iff`).
  * `capacity`: for EVERY constraint count `c` the compiler's trimmed key has
    `nextPow2 (c + 6) + 7 ≥ nextPow2 c + 7` points; `compile_truncated_degree_too_large_iff`: the exact
    boundary at which compilation reports `TruncatedDegreeTooLarge`; `compile_capacity`: the key
    recorded by a successful `compile` has `n + 7` points, `n` the size of the proving domain.
  * `commitments_fit`: with `n + 7` points, `commitT` accepts every polynomial the prover commits:
    blinded wire / permutation polynomials (≤ n + 2, n + 3 coefficients), the four quotient shares
    (when the quotient has ≤ 4n + 7 coefficients), aggregate witnesses of polynomials of ≤ n + 8
    coefficients.
  * `quotient_shares_eval`: the re-randomised shares evaluate to `t(z)`.

  Nothing here is `_partial`.  Remarks / findings:
  * `t.length ≤ 4n + 7` is a hypothesis of the quotient-share part of `commitments_fit`: `prove`
    itself only checks `t.length ≤ 7n` (`circuitUnsatisfied` otherwise); the degree bound of the
    quotient of a satisfied circuit is not proved here.
  * Because of the padding `+6` BEFORE rounding to a power of two, a circuit with
    `2^k − 5 ≤ c ≤ 2^k` constraints is trimmed to `2^(k+1) + 7` points although its domain has size
    `2^k` (`capacity_boundary_examples`): public parameters sized for `2^k` are rejected with
    `TruncatedDegreeTooLarge` for such circuits.
  * `compile` builds its domain with `Domain.new? (size − 1)` (as the Rust code does,
    `EvaluationDomain::new(size - 1)`), `prove` with `Domain.new? constraints`; they have the same
    size except for `constraints = 2` (sizes 1 and 2).  Not pursued further here.
-/
import Plonk.Proofs.ProverMask

namespace Plonk.Props.C01
open Plonk Plonk.ProverMask Polynomial

/-- the prover's transcript (after the public inputs) is a prefix of the verifier's -/
theorem prover_transcript_prefix :
    (Generated.PROVER_TRANSCRIPT.drop 1) = Generated.VERIFIER_TRANSCRIPT.take (Generated.PROVER_TRANSCRIPT.length - 1) := by
  decide

/-! ## the opening identity -/

/-- **Opening identity.** For the polynomials `p_j`, the aggregation challenge `v` and the point
    `z`: `W·(X − z) = Σ_j v^j·(p_j − p_j(z))`, `W = aggregateWitness ps z v`, `p_j(z)` computed by
    the model's `Poly.evaluate` (these are the evaluations the prover puts in the proof). -/
theorem opening_identity (ps : List Poly) (z v : Nat) :
    toPoly (aggregateWitness ps z v) * (X - C (toF z))
      = ∑ j ∈ Finset.range ps.length,
          C (toF v ^ j) * (toPoly (ps.getD j []) - C (toF (Poly.evaluate (ps.getD j []) z))) :=
  ProverMask.opening_identity ps z v

example : aggregateWitness [[1, 2, 3], [4, 5]] 2 3 = [23, 3] ∧
    Poly.evaluate [1, 2, 3] 2 = 17 ∧ Poly.evaluate [4, 5] 2 = 14 := by decide +kernel

/-- the same identity at the trapdoor `x` (what the pairing check decides):
    `W(x)·(x − z) = Σ_j v^j (p_j(x) − p_j(z))` -/
theorem opening_identity_at (ps : List Poly) (z v x : Nat) :
    toF (Poly.evaluate (aggregateWitness ps z v) x) * (toF x - toF z)
      = ∑ j ∈ Finset.range ps.length,
          toF v ^ j * (toF (Poly.evaluate (ps.getD j []) x) - toF (Poly.evaluate (ps.getD j []) z)) := by
  have h := congrArg (Polynomial.eval (toF x)) (ProverMask.opening_identity ps z v)
  simp only [eval_mul, eval_sub, eval_X, eval_C, eval_finsetSum] at h
  simpa only [evaluate_spec] using h

example : fmul (Poly.evaluate (aggregateWitness [[1, 2, 3], [4, 5]] 2 3) 5) (fsub 5 2)
    = fadd (fsub (Poly.evaluate [1, 2, 3] 5) 17) (fmul 3 (fsub (Poly.evaluate [4, 5] 5) 14)) := by
  decide +kernel

/-! ## capacity of the trimmed commit key -/

/-- **Capacity.** For every constraint count `c` and every SRS length: if trimming succeeds then the
    trimmed key has exactly `nextPow2 (c + 6) + 7` points, at least `nextPow2 c + 7`. -/
theorem capacity (c srsLen ckLen : Nat)
    (h : truncateLen srsLen (nextPow2 (c + Generated.CIRCUIT_SIZE_PADDING)
          + Generated.ADDED_BLINDING_DEGREE) = .ok ckLen) :
    ckLen = nextPow2 (c + Generated.CIRCUIT_SIZE_PADDING) + 7 ∧ nextPow2 c + 7 ≤ ckLen :=
  ProverMask.capacity c srsLen ckLen h

/-- `c = 2^10 − 8`, `2^10 + 8` with exactly fitting parameters; and the boundary: `c = 2^10 − 5`
    (domain size `2^10`) is rejected by parameters of `2^10 + 7` points -/
theorem capacity_boundary_examples :
    truncateLen 1031 (nextPow2 (1016 + Generated.CIRCUIT_SIZE_PADDING)
        + Generated.ADDED_BLINDING_DEGREE) = .ok 1031 ∧
    truncateLen 2055 (nextPow2 (1032 + Generated.CIRCUIT_SIZE_PADDING)
        + Generated.ADDED_BLINDING_DEGREE) = .ok 2055 ∧
    nextPow2 1019 = 1024 ∧
    truncateLen 1031 (nextPow2 (1019 + Generated.CIRCUIT_SIZE_PADDING)
        + Generated.ADDED_BLINDING_DEGREE) = .error .truncatedDegreeTooLarge := by
  decide +kernel

/-- **Converse boundary.** `compile` reports `TruncatedDegreeTooLarge` exactly when
    `nextPow2 (constraints + 6) + 6 > srsLen − 1`. -/
theorem compile_truncated_degree_too_large_iff (srs : SRS) (srsLen : Nat) (label : List Nat)
    (c : Composer) :
    compile srs srsLen label c = .error (.compile .truncatedDegreeTooLarge) ↔
      nextPow2 (c.gates.size + Generated.CIRCUIT_SIZE_PADDING) + Generated.ADDED_BLINDING_DEGREE
        > srsLen - 1 :=
  ⟨compile_tooLarge_imp srs srsLen label c, compile_tooLarge_of srs srsLen label c⟩

example : nextPow2 ((default : Composer).gates.size + Generated.CIRCUIT_SIZE_PADDING)
    + Generated.ADDED_BLINDING_DEGREE > 10 - 1 := by decide +kernel

/-- the key recorded by a successful compilation: trimmed as in `capacity`, trapdoor view of the
    SRS, and `n + 7` points for the domain (of size `n`) that `prove` works on -/
theorem compile_capacity (srs : SRS) (srsLen : Nat) (label : List Nat) (c : Composer) (k : PKey)
    (h : compile srs srsLen label c = .ok k) :
    truncateLen srsLen (nextPow2 (c.gates.size + Generated.CIRCUIT_SIZE_PADDING)
        + Generated.ADDED_BLINDING_DEGREE) = .ok k.ckLen ∧
    k.constraints = c.gates.size ∧ k.x = srs.x ∧ k.g = srs.g ∧
    ∀ d, Domain.new? k.constraints = some d → d.size = nextPow2 k.constraints ∧ d.size + 7 ≤ k.ckLen := by
  obtain ⟨h1, h2, h3, h4, _⟩ := compile_ok srs srsLen label c k h
  refine ⟨h1, h2, h3, h4, fun d hd => ⟨?_, compiled_key_capacity h hd⟩⟩
  rw [Domain.new?_size_eq hd, nextPow2_eq]

/-- **The prover's commitments fit.** With `n + 7` points (`n = d.size`), the degree guard of
    `commit` accepts: every blinded polynomial with ≤ 7 blinders (wires: 2, permutation: 3), the four
    quotient shares of a quotient with ≤ `4n + 7` coefficients, and every aggregate witness of
    polynomials with ≤ `n + 8` coefficients. -/
theorem commitments_fit (m : Nat) (d : Domain) (hd : Domain.new? m = some d) (k : PKey)
    (hcap : d.size + 7 ≤ k.ckLen) :
    (∀ w bs : List Nat, bs.length ≤ 7 → ∃ g, commitT k (blindPoly d w bs) = .ok g) ∧
    (∀ (t : Poly) (b12 b13 b14 : Nat) (tl tm th tf : Poly),
      splitQuotient d.size t b12 b13 b14 = some (tl, tm, th, tf) → t.length ≤ 4 * d.size + 7 →
      ∃ r, commit4 k tl tm th tf = .ok r) ∧
    (∀ (ps : List Poly) (z v : Nat), (∀ p ∈ ps, p.length ≤ d.size + 8) →
      ∃ g, commitT k (aggregateWitness ps z v) = .ok g) :=
  ProverMask.commitments_fit k d (Domain.new?_WF m d hd) hcap

example : ∃ d, Domain.new? 4 = some d ∧ d.size + 7 ≤ ({ (default : PKey) with ckLen := 11 }).ckLen ∧
    ∃ tl tm th tf, splitQuotient d.size (List.range 23) 21 22 23 = some (tl, tm, th, tf) ∧
      (List.range 23).length ≤ 4 * d.size + 7 := by
  obtain ⟨d, hd⟩ : ∃ d, Domain.new? 4 = some d := Option.isSome_iff_exists.mp (by decide +kernel)
  have hs : d.size = 4 := by
    have : (Domain.new? 4).map (·.size) = some 4 := by decide +kernel
    rw [hd] at this; simpa using this
  refine ⟨d, hd, by rw [hs], ?_⟩
  rw [hs]
  obtain ⟨r, hr⟩ : ∃ r, splitQuotient 4 (List.range 23) 21 22 23 = some r :=
    Option.isSome_iff_exists.mp (by decide +kernel)
  obtain ⟨tl, tm, th, tf⟩ := r
  exact ⟨tl, tm, th, tf, hr, by decide⟩

/-- the degree guard itself: a coefficient list not longer than the key is committed to
    `[p(x)]g` (trapdoor view) -/
theorem commit_accepts (k : PKey) (p : Poly) (h : p.length ≤ k.ckLen) :
    commitT k p = .ok (G1.smul (Poly.evaluate (Poly.trim p) k.x) k.g) :=
  commitT_ok_of_length h

example : ([1, 2, 3] : Poly).length ≤ ({ (default : PKey) with ckLen := 3 }).ckLen := by decide

/-! ## the quotient shares evaluate to the quotient -/

/-- `t_low(z) + zⁿ·t_mid(z) + z²ⁿ·t_high(z) + z³ⁿ·t_fourth(z) = t(z)`: the re-randomisation of the
    shares does not change the value the linearisation polynomial uses. -/
theorem quotient_shares_eval (n : Nat) (hn : 0 < n) (t : Poly) (b12 b13 b14 : Nat)
    (tl tm th tf : Poly) (h : splitQuotient n t b12 b13 b14 = some (tl, tm, th, tf)) (z : Nat) :
    toF (Poly.evaluate tl z) + toF z ^ n * toF (Poly.evaluate tm z)
      + toF z ^ (2 * n) * toF (Poly.evaluate th z) + toF z ^ (3 * n) * toF (Poly.evaluate tf z)
      = toF (Poly.evaluate t z) :=
  split_eval hn h z

example : (∃ r, splitQuotient 4 [1, 2, 3, 4, 5, 6, 7, 8, 9, 10, 11, 12, 13, 14] 21 22 23 = some r) ∧
    0 < 4 := ⟨Option.isSome_iff_exists.mp (by decide +kernel), by decide⟩

end Plonk.Props.C01
