import Plonk.Model.Prover
namespace Plonk.Props.C01
open Plonk
/-- the prover's transcript (after the public inputs) is a prefix of the verifier's -/
theorem prover_transcript_prefix :
    (Generated.PROVER_TRANSCRIPT.drop 1) = Generated.VERIFIER_TRANSCRIPT.take (Generated.PROVER_TRANSCRIPT.length - 1) := by
  decide
end Plonk.Props.C01
