/-
  C03 — "Verifier decides exactly the protocol's equation and transcript."

  What is proved here (all about the model's own functions `VerifierM.verify`, `verifyTerms`,
  `verifyRefTerms`, `linearizationTerms`, `rangeScalar …`, `statementOps`, `verifierChallenges`):

  * `accept_iff_equation` — `verify` returns `.ok` exactly when the public-input length matches,
    the domain exists, `z` is off the domain / public-input roots, and the pairing equation of the
    grouped MSM holds (decided with the trapdoor `x`, as in the model).
  * `code_equation_is_textbook` — under every interpretation of the points in every `F`-module,
    the grouped MSM of the code equals the textbook expression
    `[D] + Σ vⁱCᵢ + u Σ v_wⁱC'ᵢ − E·g + z·W_z + u·z·ω·W_zω`, and the left input is `−(W_z + u·W_zω)`;
    both for the current equation (11 openings at `z`) and the legacy one (7).  The two forms are
    defined for the same inputs (`equation_defined_iff`).
  * `textbook_equation_written_out(_legacy)`, `r0_is_textbook` — the textbook expression spelled out
    with explicit powers of `v`, `v_w` (all 15 evaluations covered in V2/V3; in V1 the four selector
    evaluations are not opened); `prover_verifier_transcripts_agree`.
  * `linearisation_is_textbook`, `widget_terms_match`, `widget_terms_vanish`, `quotient_powers` —
    `[D]` term by term: arithmetic, the four custom widgets (scalars = the row identities
    `rangeComps / logicComps / fixedComps / varComps` of the row semantics with the separation
    challenge weights), the permutation argument, the quotient.  (The prover model
    `Plonk/Model/Prover.lean::quotientEvals` calls the very same `rangeScalar … varScalar` with the
    same separation challenges, so the weighting agrees with the prover's by construction.)
  * `transcript_function_of_ops`, `transcript_binds_statement`, `transcript_binds_proof`,
    `v3_binds_s4`, `legacy_ignores_s4` — the challenges are a function of the operation list, and
    the operation list is injective in label, circuit size, `vk.n`, every transcript-bound
    verifier-key commitment, every public input (mod `r`) and every proof element.
  * `nothing_else` — `verify` does not depend on `v.size`, `v.ok.h`, `v.ok.xh`.

  Not proved / limits (stated, not hidden):
  * The group law of the executable `G1` model is not used: the link between `G1.msum` (what
    `accept_iff_equation` talks about) and `evalTerms ι` (what `code_equation_is_textbook` talks
    about) is the statement "`G1.msum` is `Σ sᵢ•Pᵢ` in the curve group", which is outside this file.
  * Injectivity is proved for the *operation list* (labels + message bytes).  That Merlin/STROBE
    maps different operation lists to different challenges is a hash assumption, not a theorem.
    The `u64` operations hold the number itself; `append_u64` absorbs it as 8 bytes, which is
    injective below `2^64` (`Plonk.u64le_inj`).
  * Point-level injectivity needs the points to be decodable (`G1.Decodable`: some 48-byte string
    decodes to them); every decoded proof / key satisfies this (`decoded_inputs_are_valid`).
    Scalars are bound modulo `r` (`scalarBytes` reduces), i.e. exactly for canonical scalars.
-/
import Plonk.Proofs.VerifierAlgebra
import Plonk.Proofs.TranscriptInj

namespace Plonk.Props.C03
open Plonk

/-- **Acceptance = the equation.** -/
theorem accept_iff_equation (v : VerifierM) (x : Nat) (p : ProofM) (pis : List Nat) (ver : PVersion) :
    v.verify x p pis ver = .ok ↔
      pis.length = v.piIndexes.length ∧ ∃ d, Domain.new? v.vk.n = some d ∧ ∃ right left,
        verifyTerms v.vk v.ok.g d (v.piIndexes.map fun i => fpow d.groupGenInv (i % 2 ^ 64)) pis p
          (verifierChallenges v.label v.vk v.constraints (ver == .v3) pis p) (ver == .v1) = some (right, left) ∧
        G1.add (G1.smul x (G1.msum left)) (G1.msum right) = .inf :=
  verify_ok_iff v x p pis ver

-- the right-hand side is not always true: a wrong-length public-input vector is refused
example : (default : VerifierM).verify 7 default [1] .v3 = .piLen :=
  len_mismatch _ _ _ _ _ (by decide)

/-- **The code's grouped MSM is the textbook equation** (both equations). -/
theorem code_equation_is_textbook {G : Type*} [AddCommGroup G] [Module F G] (ι : G1 → G)
    (vkey : VKey) (g : G1) (d : Domain) (roots pis : List Nat) (p : ProofM) (ch : Challenges)
    (legacy : Bool) (right left ref : List (Nat × G1))
    (hc : verifyTerms vkey g d roots pis p ch legacy = some (right, left))
    (hr : verifyRefTerms vkey g d roots pis p ch legacy = some ref) :
    evalTerms ι right = evalTerms ι ref ∧ evalTerms ι left = -(ι p.wz + toF ch.u • ι p.wzw) :=
  verifyCode_eq_verifyRef ι vkey g d roots pis p ch legacy right left ref hc hr

-- non-vacuity: a concrete domain record and challenge point for which both forms are defined,
-- for both equations, with the interpretation `G := F`, `ι := fun _ => 1`
example (vkey : VKey) (g : G1) (p : ProofM) (legacy : Bool) :
    ∃ right left ref,
      verifyTerms vkey g { size := 4, logSize := 2, sizeInv := 0, groupGen := 1, groupGenInv := 1, generatorInv := 0 }
        [] [] p { (default : Challenges) with z := 5 } legacy = some (right, left) ∧
      verifyRefTerms vkey g { size := 4, logSize := 2, sizeInv := 0, groupGen := 1, groupGenInv := 1, generatorInv := 0 }
        [] [] p { (default : Challenges) with z := 5 } legacy = some ref :=
  verifyTerms_some_of_lagrange _ _ _ _ _ _ _ _ (by decide +kernel)

example : ∃ (G : Type) (_ : AddCommGroup G) (_ : Module F G) (ι : G1 → G), ι G1.gen ≠ 0 :=
  ⟨F, inferInstance, inferInstance, fun _ => 1, one_ne_zero⟩

/-- **The textbook equation written out**, current protocol (V2/V3): all fifteen evaluations carried
    in the proof are covered by the two batched openings (eleven at `z`, four at `zω`). -/
theorem textbook_equation_written_out {G : Type*} [AddCommGroup G] [Module F G] (ι : G1 → G)
    (vkey : VKey) (g : G1) (d : Domain) (roots pis : List Nat)
    (p : ProofM) (ch : Challenges) (l1 piEval : Nat) (ref : List (Nat × G1))
    (hlp : d.lagrangeAndPi roots pis ch.z = some (l1, piEval))
    (hr : verifyRefTerms vkey g d roots pis p ch false = some ref) :
    evalTerms ι ref =
      evalTerms ι (linearizationTerms vkey p ch (d.evaluateVanishing ch.z) l1) - toF ch.u • ι p.zC +
      (toF ch.v • ι p.aC + toF ch.v ^ 2 • ι p.bC + toF ch.v ^ 3 • ι p.cC + toF ch.v ^ 4 • ι p.dC +
       toF ch.v ^ 5 • ι vkey.s1 + toF ch.v ^ 6 • ι vkey.s2 + toF ch.v ^ 7 • ι vkey.s3 +
       toF ch.v ^ 8 • ι vkey.qarith + toF ch.v ^ 9 • ι vkey.qc + toF ch.v ^ 10 • ι vkey.ql +
       toF ch.v ^ 11 • ι vkey.qr) +
      toF ch.u • (ι p.zC + toF ch.vw • ι p.aC + toF ch.vw ^ 2 • ι p.bC + toF ch.vw ^ 3 • ι p.dC) -
      ((toF ch.v * toF p.ev.a + toF ch.v ^ 2 * toF p.ev.b + toF ch.v ^ 3 * toF p.ev.c +
        toF ch.v ^ 4 * toF p.ev.d + toF ch.v ^ 5 * toF p.ev.s1 + toF ch.v ^ 6 * toF p.ev.s2 +
        toF ch.v ^ 7 * toF p.ev.s3 + toF ch.v ^ 8 * toF p.ev.qarith + toF ch.v ^ 9 * toF p.ev.qc +
        toF ch.v ^ 10 * toF p.ev.ql + toF ch.v ^ 11 * toF p.ev.qr) +
       toF ch.u * (toF p.ev.z + toF ch.vw * toF p.ev.aw + toF ch.vw ^ 2 * toF p.ev.bw +
        toF ch.vw ^ 3 * toF p.ev.dw) - toF (r0Eval p.ev ch l1 piEval)) • ι g +
      toF ch.z • ι p.wz + (toF ch.u * toF ch.z * toF d.groupGen) • ι p.wzw :=
  verifyRef_explicit_current ι vkey g d roots pis p ch l1 piEval ref hlp hr

/-- the same for the legacy V1 equation: only seven commitments are opened at `z`; the evaluations
    `q_arith, q_c, q_l, q_r` carried in the proof (and used in `[D]`) are **not** covered — the
    documented V1 behaviour, visible here as the missing `v⁸ … v¹¹` terms. -/
theorem textbook_equation_written_out_legacy {G : Type*} [AddCommGroup G] [Module F G] (ι : G1 → G)
    (vkey : VKey) (g : G1) (d : Domain) (roots pis : List Nat)
    (p : ProofM) (ch : Challenges) (l1 piEval : Nat) (ref : List (Nat × G1))
    (hlp : d.lagrangeAndPi roots pis ch.z = some (l1, piEval))
    (hr : verifyRefTerms vkey g d roots pis p ch true = some ref) :
    evalTerms ι ref =
      evalTerms ι (linearizationTerms vkey p ch (d.evaluateVanishing ch.z) l1) - toF ch.u • ι p.zC +
      (toF ch.v • ι p.aC + toF ch.v ^ 2 • ι p.bC + toF ch.v ^ 3 • ι p.cC + toF ch.v ^ 4 • ι p.dC +
       toF ch.v ^ 5 • ι vkey.s1 + toF ch.v ^ 6 • ι vkey.s2 + toF ch.v ^ 7 • ι vkey.s3) +
      toF ch.u • (ι p.zC + toF ch.vw • ι p.aC + toF ch.vw ^ 2 • ι p.bC + toF ch.vw ^ 3 • ι p.dC) -
      ((toF ch.v * toF p.ev.a + toF ch.v ^ 2 * toF p.ev.b + toF ch.v ^ 3 * toF p.ev.c +
        toF ch.v ^ 4 * toF p.ev.d + toF ch.v ^ 5 * toF p.ev.s1 + toF ch.v ^ 6 * toF p.ev.s2 +
        toF ch.v ^ 7 * toF p.ev.s3) +
       toF ch.u * (toF p.ev.z + toF ch.vw * toF p.ev.aw + toF ch.vw ^ 2 * toF p.ev.bw +
        toF ch.vw ^ 3 * toF p.ev.dw) - toF (r0Eval p.ev ch l1 piEval)) • ι g +
      toF ch.z • ι p.wz + (toF ch.u * toF ch.z * toF d.groupGen) • ι p.wzw :=
  verifyRef_explicit_legacy ι vkey g d roots pis p ch l1 piEval ref hlp hr

-- non-vacuity of `hlp`: the concrete domain record used above
example : ∃ l1 piEval, Domain.lagrangeAndPi
    { size := 4, logSize := 2, sizeInv := 0, groupGen := 1, groupGenInv := 1, generatorInv := 0 } [] []
    ({ (default : Challenges) with z := 5 } : Challenges).z = some (l1, piEval) := by
  have h : (Domain.lagrangeAndPi
    { size := 4, logSize := 2, sizeInv := 0, groupGen := 1, groupGenInv := 1, generatorInv := 0 } [] [] 5).isSome = true := by
    decide +kernel
  obtain ⟨lp, hlp⟩ := Option.isSome_iff_exists.mp h
  exact ⟨lp.1, lp.2, hlp⟩

/-- `r₀`, the constant term moved to the right-hand side -/
theorem r0_is_textbook (e : Evals) (ch : Challenges) (l1 pi : Nat) :
    toF (r0Eval e ch l1 pi) = toF pi - toF l1 * toF ch.alpha ^ 2 -
      toF ch.alpha * (toF e.a + toF ch.beta * toF e.s1 + toF ch.gamma) *
        (toF e.b + toF ch.beta * toF e.s2 + toF ch.gamma) *
        (toF e.c + toF ch.beta * toF e.s3 + toF ch.gamma) * (toF e.d + toF ch.gamma) * toF e.z :=
  toF_r0Eval e ch l1 pi

/-- prover and verifier run the same transcript: the prover's item list is `"pi"` followed by the
    first 35 items of the verifier's (which then continues with the two opening commitments and `u`) -/
theorem prover_verifier_transcripts_agree :
    Generated.PROVER_TRANSCRIPT = "s:pi" :: Generated.VERIFIER_TRANSCRIPT.take 35 := by decide

/-- the two forms are defined for exactly the same inputs -/
theorem equation_defined_iff (vkey : VKey) (g : G1) (d : Domain) (roots pis : List Nat) (p : ProofM)
    (ch : Challenges) (legacy : Bool) :
    (verifyTerms vkey g d roots pis p ch legacy = none ↔ d.lagrangeAndPi roots pis ch.z = none) ∧
    (verifyRefTerms vkey g d roots pis p ch legacy = none ↔ d.lagrangeAndPi roots pis ch.z = none) :=
  verifyTerms_none_iff vkey g d roots pis p ch legacy

/-- **`[D]` term by term**: arithmetic, the four custom widgets, permutation, quotient. -/
theorem linearisation_is_textbook {G : Type*} [AddCommGroup G] [Module F G] (ι : G1 → G) (k : VKey)
    (p : ProofM) (ch : Challenges) (zh l1 : Nat) :
    evalTerms ι (linearizationTerms k p ch zh l1) =
      toF p.ev.qarith • ((toF p.ev.a * toF p.ev.b) • ι k.qm + toF p.ev.a • ι k.ql + toF p.ev.b • ι k.qr +
        toF p.ev.c • ι k.qo + toF p.ev.d • ι k.qf + ι k.qc) +
      toF (rangeScalar ch.rangeSep p.ev) • ι k.qrange + toF (logicScalar ch.logicSep p.ev) • ι k.qlogic +
      toF (fixedScalar ch.fixedSep p.ev) • ι k.qfixed + toF (varScalar ch.varSep p.ev) • ι k.qvar +
      ((toF p.ev.a + toF ch.beta * toF ch.z + toF ch.gamma) *
        (toF p.ev.b + toF ch.beta * toF Generated.K1 * toF ch.z + toF ch.gamma) *
        (toF p.ev.c + toF ch.beta * toF Generated.K2 * toF ch.z + toF ch.gamma) *
        (toF p.ev.d + toF ch.beta * toF Generated.K3 * toF ch.z + toF ch.gamma) * toF ch.alpha +
        toF l1 * toF ch.alpha ^ 2 + toF ch.u) • ι p.zC -
      ((toF p.ev.a + toF ch.beta * toF p.ev.s1 + toF ch.gamma) *
        (toF p.ev.b + toF ch.beta * toF p.ev.s2 + toF ch.gamma) *
        (toF p.ev.c + toF ch.beta * toF p.ev.s3 + toF ch.gamma) * toF ch.beta * toF p.ev.z * toF ch.alpha) • ι k.s4 -
      toF zh • (ι p.tLow + (toF zh + 1) • ι p.tMid + (toF zh + 1) ^ 2 • ι p.tHigh +
        (toF zh + 1) ^ 3 • ι p.tFourth) :=
  linearization_eval ι k p ch zh l1

/-- `zh + 1 = zⁿ`: the quotient scalars are `−zh, −zh·zⁿ, −zh·z²ⁿ, −zh·z³ⁿ` -/
theorem quotient_powers (n : Nat) (d : Domain) (hd : Domain.new? n = some d) (z : Nat) :
    toF (d.evaluateVanishing z) + 1 = toF z ^ d.size := by
  rw [toF_evaluateVanishing (Domain.new?_WF n d hd)]; ring

example : ∃ d, Domain.new? 4 = some d := by
  have : (Domain.new? 4).isSome = true := by decide +kernel
  exact Option.isSome_iff_exists.mp this

/-- **Each custom-gate scalar is the widget's row identity** with the separation-challenge
    weighting (`sep·(c₀ + sep²c₁ + sep⁴c₂ + …)`), the components being the model's row semantics. -/
theorem widget_terms_match (sep : Nat) (e : Evals) :
    toF (rangeScalar sep e) = toF sep *
      (deltaF (toF e.c - 4 * toF e.d) + toF sep ^ 2 * deltaF (toF e.b - 4 * toF e.c) +
       toF sep ^ 4 * deltaF (toF e.a - 4 * toF e.b) + toF sep ^ 6 * deltaF (toF e.dw - 4 * toF e.a)) ∧
    toF (logicScalar sep e) = toF sep *
      (deltaF (toF e.aw - 4 * toF e.a) + toF sep ^ 2 * deltaF (toF e.bw - 4 * toF e.b) +
       toF sep ^ 4 * deltaF (toF e.dw - 4 * toF e.d) +
       toF sep ^ 6 * (toF e.c - (toF e.aw - 4 * toF e.a) * (toF e.bw - 4 * toF e.b)) +
       toF sep ^ 8 * deltaXorAndF (toF e.aw - 4 * toF e.a) (toF e.bw - 4 * toF e.b) (toF e.c)
         (toF e.dw - 4 * toF e.d) (toF e.qc)) ∧
    toF (fixedScalar sep e) =
      (let bit := toF e.dw - 2 * toF e.d
       let k := toF e.c * toF e.a * toF e.b * dF
       let yα := bit ^ 2 * (toF e.qr - 1) + 1
       let xα := bit * toF e.ql
       toF sep *
        (bit * (bit - 1) * (bit + 1) + toF sep ^ 2 * (bit * toF e.qc - toF e.c) +
         toF sep ^ 4 * (toF e.aw + toF e.aw * k - (toF e.a * yα + toF e.b * xα)) +
         toF sep ^ 6 * (toF e.bw - toF e.bw * k - (toF e.b * yα + toF e.a * xα)))) ∧
    toF (varScalar sep e) =
      (let k := dF * toF e.dw * (toF e.b * toF e.c)
       toF sep *
        (toF e.a * toF e.d - toF e.dw +
         toF sep ^ 2 * (toF e.dw + toF e.b * toF e.c - (toF e.aw + toF e.aw * k)) +
         toF sep ^ 4 * (toF e.b * toF e.d + toF e.a * toF e.c - (toF e.bw - toF e.bw * k)))) :=
  ⟨toF_rangeScalar sep e, toF_logicScalar sep e, toF_fixedScalar sep e, toF_varScalar sep e⟩

/-- **Vanishing**: evaluations that satisfy a widget's row identity (the model's row semantics,
    literally the functions `rowHolds` uses) make that widget's scalar `0`. -/
theorem widget_terms_vanish (sep : Nat) (e : Evals) :
    (allZero (rangeComps e.a e.b e.c e.d e.dw) = true → rangeScalar sep e = 0) ∧
    (allZero (logicComps e.qc e.a e.aw e.b e.bw e.c e.d e.dw) = true → logicScalar sep e = 0) ∧
    (allZero (fixedComps e.ql e.qr e.qc e.a e.aw e.b e.bw e.c e.d e.dw) = true → fixedScalar sep e = 0) ∧
    (allZero (varComps e.a e.aw e.b e.bw e.c e.d e.dw) = true → varScalar sep e = 0) :=
  widget_scalars_vanish sep e

-- non-vacuity: a non-trivial range row (quads 0, 1, 1, 3: d=0, c=0, b=1, a=5, d_next=23)
example : allZero (rangeComps 5 1 0 0 23) = true := by decide +kernel
example : rangeScalar 12345 { (default : Evals) with a := 5, b := 1, c := 0, d := 0, dw := 23 } = 0 :=
  (widget_terms_vanish 12345 _).1 (by decide +kernel)

/-- the challenges are, by definition, a function of the operation list … -/
theorem transcript_function_of_ops (label : List Nat) (k : VKey) (c : Nat) (v3 : Bool) (pis : List Nat)
    (p : ProofM) :
    verifierChallenges label k c v3 pis p =
      challengesOf (runOps (statementOps label k c v3 pis p) merlinInit).2 :=
  Plonk.transcript_function_of_ops label k c v3 pis p

/-- … **and the operation list binds the whole statement**: label, circuit size, `vk.n`, every
    transcript-bound verifier-key commitment (`VKey.boundComms`: all fifteen in V3; all but
    `s_sigma_4` in V1/V2), every public input (value, order, length; modulo `r`), all eleven proof
    commitments and all fifteen evaluations (modulo `r`). -/
theorem transcript_binds_statement {label label' : List Nat} {k k' : VKey} {c c' : Nat} {v3 : Bool}
    {pis pis' : List Nat} {p p' : ProofM}
    (hk : k.Decodable) (hk' : k'.Decodable) (hp : p.Decodable) (hp' : p'.Decodable)
    (h : statementOps label k c v3 pis p = statementOps label' k' c' v3 pis' p') :
    label = label' ∧ c = c' ∧ k.n = k'.n ∧ k.boundComms v3 = k'.boundComms v3 ∧
      pis.map (· % R) = pis'.map (· % R) ∧ p.comms = p'.comms ∧
      p.ev.toList.map (· % R) = p'.ev.toList.map (· % R) :=
  statementOps_injective hk hk' hp hp' h

/-- with canonical evaluations the whole proof is bound -/
theorem transcript_binds_proof {label label' : List Nat} {k k' : VKey} {c c' : Nat} {v3 : Bool}
    {pis pis' : List Nat} {p p' : ProofM}
    (hp : p.Decodable) (hp' : p'.Decodable) (he : p.ev.Reduced) (he' : p'.ev.Reduced)
    (h : statementOps label k c v3 pis p = statementOps label' k' c' v3 pis' p') : p = p' :=
  statementOps_injective_proof hp hp' he he' h

/-- the hypotheses above hold for everything that comes out of the byte decoders -/
theorem decoded_inputs_are_valid {bs bs' : List Nat} {p : ProofM} {k : VKey}
    (hp : ProofM.fromBytes? bs = some p) (hk : VKey.fromBytes? bs' = some k) :
    p.Decodable ∧ p.ev.Reduced ∧ k.Decodable :=
  ⟨(ProofM.fromBytes_valid hp).1, (ProofM.fromBytes_valid hp).2, VKey.fromBytes_valid hk⟩

-- non-vacuity: a key and a proof with a non-trivial decodable point
example : ({ (default : VKey) with qm := G1.gen } : VKey).Decodable := by
  intro q hq
  simp only [VKey.boundComms, if_true, List.cons_append, List.nil_append, List.mem_cons,
    List.mem_nil_iff, or_false] at hq
  rcases hq with h | h | h | h | h | h | h | h | h | h | h | h | h | h | h <;> rw [h] <;>
    first | exact G1.decodable_gen | exact G1.decodable_inf
example : ({ (default : ProofM) with aC := G1.gen } : ProofM).Decodable ∧ (default : ProofM).ev.Reduced := by
  constructor
  · intro q hq
    simp only [ProofM.comms, List.mem_cons, List.mem_nil_iff, or_false] at hq
    rcases hq with h | h | h | h | h | h | h | h | h | h | h <;> rw [h] <;>
      first | exact G1.decodable_gen | exact G1.decodable_inf
  · intro x hx
    simp only [Evals.toList, List.mem_cons, List.mem_nil_iff, or_false] at hx
    rcases hx with h | h | h | h | h | h | h | h | h | h | h | h | h | h | h <;> rw [h] <;> exact R_pos

/-- V3 binds `s_sigma_4` … -/
theorem v3_binds_s4 (label : List Nat) (k : VKey) (c : Nat) (pis : List Nat) (p : ProofM) (s4' : G1)
    (hd : G1.Decodable k.s4) (hd' : G1.Decodable s4') (hne : s4' ≠ k.s4) :
    statementOps label { k with s4 := s4' } c true pis p ≠ statementOps label k c true pis p :=
  Plonk.v3_binds_s4 label k c pis p s4' hd hd' hne

example : G1.Decodable (default : VKey).s4 ∧ G1.Decodable G1.gen ∧ G1.gen ≠ (default : VKey).s4 :=
  ⟨G1.decodable_inf, G1.decodable_gen, by decide⟩

/-- … while the V1/V2 transcript does not (documented legacy behaviour) -/
theorem legacy_ignores_s4 (label : List Nat) (k : VKey) (c : Nat) (pis : List Nat) (p : ProofM) (s4' : G1) :
    statementOps label { k with s4 := s4' } c false pis p = statementOps label k c false pis p :=
  Plonk.legacy_ignores_s4 label k c pis p s4'

/-- **Nothing else influences acceptance**: two verifiers that agree on `label`, `constraints`,
    `vk`, `ok.g` and `piIndexes` decide identically (whatever `size`, `ok.h`, `ok.xh` are). -/
theorem nothing_else (v v' : VerifierM) (x : Nat) (p : ProofM) (pis : List Nat) (ver : PVersion)
    (hl : v.label = v'.label) (hc : v.constraints = v'.constraints) (hk : v.vk = v'.vk)
    (hg : v.ok.g = v'.ok.g) (hi : v.piIndexes = v'.piIndexes) :
    v.verify x p pis ver = v'.verify x p pis ver :=
  verify_congr v v' x p pis ver hl hc hk hg hi

example (v : VerifierM) (x : Nat) (p : ProofM) (pis : List Nat) (ver : PVersion) (s : Nat) (h h' : G2) :
    ({ v with size := s, ok := { v.ok with h := h, xh := h' } } : VerifierM).verify x p pis ver =
      v.verify x p pis ver :=
  nothing_else _ _ x p pis ver rfl rfl rfl rfl rfl

/-- **Every transcript label carries the value of the same name** (tie by translation, re-read from the source on every run):
    in `VerifierKey::seed_transcript_inner`, `Prover::prove_inner`, `Proof::verify` and `Proof::verify_legacy` the value passed
    to `append_commitment(b"<label>", …)` / `append_scalar(b"<label>", …)` is the field / variable named `<label>` — so no
    commitment or evaluation is absorbed under another one's label, twice, or not at all (the label lists themselves are
    `SEED_TRANSCRIPT`, `PROVER_TRANSCRIPT`, `VERIFIER_TRANSCRIPT`, which the model's operation list is built from). -/
theorem transcript_labels_bind_same_named_values :
    Generated.SEED_BOUND_FIELDS = Generated.SEED_BOUND_LABELS ∧ Generated.SEED_BOUND_LABELS = Generated.SEED_TRANSCRIPT ∧
    Generated.PROVER_BOUND_FIELDS = Generated.PROVER_BOUND_LABELS ∧
    Generated.VERIFIER_BOUND_FIELDS = Generated.VERIFIER_BOUND_LABELS ∧
    Generated.VERIFIER_LEGACY_BOUND_FIELDS = Generated.VERIFIER_LEGACY_BOUND_LABELS ∧
    Generated.VERIFIER_LEGACY_BOUND_LABELS = Generated.VERIFIER_BOUND_LABELS ∧
    Generated.PROVER_BOUND_LABELS.length = 26 ∧ Generated.VERIFIER_BOUND_LABELS.length = 27 := by decide

end Plonk.Props.C03
