/-
  Property C11 — truncation and bit decomposition return the canonical bits.

  "`component_truncate::<N>` is satisfiable for every input and returns exactly the canonical
  value of the input modulo `2^N`, for every `N` up to 254.  `component_decomposition::<N>` is
  satisfiable exactly when the canonical value is below `2^N` and then returns its `N`
  little-endian bits — no other bit vector satisfies it."

  Conventions (as in C08/C09).  `c` is the composer state before the call,
  `c' := ((gadget …).run c).2` the state after it, `((gadget …).run c).1` what it returns;
  `w : Nat → Nat` is an arbitrary assignment of values to witness indices — everything a prover
  may choose: `high`, `diff`, `inverse`, `product`, `isTop`, `guard`, every range accumulator,
  every bit and accumulator of the decomposition; `c''.rowsHoldW w c.gates.size c'.gates.size` says
  that the rows appended by the call hold under `w`, read in `c'` or in any later state `c''`
  (`Extends c' c''`); `toF : Nat → F = ZMod R`; `(toF a).val` is the canonical value.
  `WF c` (C08) = all witness values reduced ∧ no public input recorded for a row that does not
  exist yet (`PiFresh` of C09); it holds for `initialized` and is preserved by every component
  (`…_extends`).

  Everything is proved at full strength; there is no `_partial` theorem.

  Results.
    * truncation (`N ≤ Generated.TRUNCATE_MAX_BITS = 254`, split width
      `Generated.SPLIT_TOTAL_BITS = 255`; the proofs go through these constants):
      `componentTruncate_extends`, `componentTruncate_sound`, `componentTruncate_complete`
      (always satisfiable, also for `N = 0` and `N = 255`), `truncate_exact`, `truncate_unique`;
      the same for the shared helper `bind_truncation_split` (used by the logic component, C10).
    * decomposition: `componentDecomposition_extends`, `componentDecomposition_sound` (`N ≤ 254`),
      `componentDecomposition_complete` (every `N`), `decomposition_exact`,
      `decomposition_unique` (`N ≤ 254`).
    * **Finding (known defect, recorded in `known-findings.txt`, keys
      `decomposition-alias:N=255|256:…`)**: the property's "no other bit vector satisfies it" is
      FALSE for the two largest widths the crate allows, `N ∈ {255, 256}`:
      `decomposition_alias_255_256` exhibits, for `x = 0`, two assignments satisfying every row
      of the circuit with different bit vectors (all zeros / the bits of `R`).  There is no
      `< r` guard in `component_decomposition`.  Uniqueness is proved for `N ≤ 254` only, and
      that bound is sharp in the sense that `2^254 < R < 2^255`.

  Forced hypotheses (none is a defect):
    * `WF c` — composer invariant, see above.
    * `toF (w 0) = 0` — the zero witness (index 0) is pinned by row 0 of
      `Composer::initialized()`, not by the components; the range checks pad with it and the
      decomposition starts its accumulator from it.
    * completeness: the input witness is allocated (`x < c.wit.size`) and `c.val 0 = 0`.
    * `bindTruncationSplit_sound`: `low` must already be range-bounded (`(w low) < 2^N`) — this
      is the documented contract of the Rust helper ("`low` must already be range-checked").
    * `…_exact`: `x = 0 → v = 0` (if the input is the zero witness itself its value is 0) and
      the values are canonical (`< R`).
-/
import Plonk.Proofs.Decomp
namespace Plonk.Props.C11
open Plonk Plonk.Composer

/-- the bounds used by the source -/
theorem placeholder_bounds : Generated.RANGE_MAX_BITS = 256 ∧ Generated.LOGIC_MAX_PAIRS = 127 ∧
    Generated.TRUNCATE_MAX_BITS = 254 ∧ Generated.SPLIT_TOTAL_BITS = 255 := by decide

/-! ## `component_truncate` -/

/-- `component_truncate::<n>` only appends: `c'` extends `c`; the numbers of gates and witnesses
    appended depend on `n` only; the last appended gate is plain (reads no next-row wire, so
    later gates do not disturb the component); `WF` is preserved; the returned witness is the
    first one allocated. -/
theorem componentTruncate_extends (n x : Nat) (c : Composer) :
    Extends c ((componentTruncate n x).run c).2 ∧
    ((componentTruncate n x).run c).2.gates.size = c.gates.size + ctGateCount n ∧
    ((componentTruncate n x).run c).2.wit.size = c.wit.size + ctWitCount n ∧
    (∀ i, i + 1 = ((componentTruncate n x).run c).2.gates.size →
      Gate.plain (((componentTruncate n x).run c).2.gateAt i)) ∧
    (WF c → WF ((componentTruncate n x).run c).2) ∧
    ((componentTruncate n x).run c).1 = c.wit.size :=
  Composer.componentTruncate_extends n x c

/-- non-vacuity: `component_truncate::<3>` costs 88 gates and 269 witnesses; `initialized` is
    well formed -/
example : ctGateCount 3 = 88 ∧ ctWitCount 3 = 269 ∧ WF initialized :=
  ⟨by decide, by decide, initialized_wf⟩

/-- **Soundness of truncation.**  For every `n ≤ 254` and *every* assignment `w` with the zero
    witness at 0: if the rows appended by `component_truncate::<n>(x)` hold — read in `c'` or any
    later state — the returned witness carries the canonical value of `x` modulo `2^n`. -/
theorem componentTruncate_sound (n x : Nat) (c : Composer)
    (hn : n ≤ Generated.TRUNCATE_MAX_BITS) (h : WF c) (c'' : Composer)
    (hext : Extends ((componentTruncate n x).run c).2 c'') (w : Nat → Nat) (h0 : toF (w 0) = 0)
    (hrows : c''.rowsHoldW w c.gates.size ((componentTruncate n x).run c).2.gates.size) :
    (toF (w ((componentTruncate n x).run c).1)).val = (toF (w x)).val % 2 ^ n :=
  Composer.componentTruncate_sound n x c hn h c'' hext w h0 hrows

/-- **Completeness of truncation** (always satisfiable).  For a well-formed state and any value
    of the allocated input, the model's own table satisfies the appended rows (read in any later
    state) and the returned witness holds `x mod 2^n`.  Holds for every `n ≤ 255`, in particular
    for all `n ≤ 254`. -/
theorem componentTruncate_complete (n x : Nat) (c : Composer)
    (hn : n ≤ Generated.SPLIT_TOTAL_BITS) (h : WF c) (hx : x < c.wit.size) (hz : c.val 0 = 0)
    (c'' : Composer) (hext : Extends ((componentTruncate n x).run c).2 c'') :
    c''.rowsHoldW c''.val c.gates.size ((componentTruncate n x).run c).2.gates.size ∧
    ((componentTruncate n x).run c).2.val ((componentTruncate n x).run c).1 = c.val x % 2 ^ n :=
  Composer.componentTruncate_complete n x c hn h hx hz c'' hext

/-- non-vacuity of soundness and completeness together: on `initialized`, witness 2 holds 6;
    `component_truncate::<2>(2)` is satisfied by the model's table, soundness applied to that
    table gives `low = 6 mod 4`, and the model stores `6 % 2^2` there. -/
example :
    (toF (((componentTruncate 2 2).run initialized).2.val ((componentTruncate 2 2).run initialized).1)).val
      = (toF (((componentTruncate 2 2).run initialized).2.val 2)).val % 2 ^ 2 ∧
    ((componentTruncate 2 2).run initialized).2.val ((componentTruncate 2 2).run initialized).1
      = initialized.val 2 % 2 ^ 2 :=
  ⟨componentTruncate_sound 2 2 initialized (by decide) initialized_wf _ (Extends.refl _) _
      (by rw [((componentTruncate_extends 2 2 initialized).1).val_eq (by decide),
            initialized_val_zero]; simp)
      (componentTruncate_complete 2 2 initialized (by decide) initialized_wf (by decide)
        initialized_val_zero _ (Extends.refl _)).1,
   (componentTruncate_complete 2 2 initialized (by decide) initialized_wf (by decide)
        initialized_val_zero _ (Extends.refl _)).2⟩

/-- **C11, truncation.**  For every `n ≤ 254`, every canonical input value `v` and every
    canonical value `l`: the rows appended by `component_truncate::<n>(x)` are satisfiable by an
    assignment giving `x` the value `v` and the returned witness the value `l` (zero witness 0)
    exactly when `l = v mod 2^n`.  In particular the component is satisfiable for every input. -/
theorem truncate_exact (n x : Nat) (c : Composer) (hn : n ≤ Generated.TRUNCATE_MAX_BITS)
    (h : WF c) (hx : x < c.wit.size) (v l : Nat) (hv : v < R) (hl : l < R) (hx0 : x = 0 → v = 0) :
    (∃ w : Nat → Nat, w x = v ∧ w 0 = 0 ∧ w ((componentTruncate n x).run c).1 = l ∧
        ((componentTruncate n x).run c).2.rowsHoldW w c.gates.size
          ((componentTruncate n x).run c).2.gates.size) ↔ l = v % 2 ^ n :=
  truncate_exact_core n x c hn h hx v l hv hl hx0

/-- non-vacuity: both sides occur — on `initialized` with `x = 2`, for the input value 13 and
    `n = 3` the output 5 is accepted and the output 13 is not. -/
example :
    (∃ w : Nat → Nat, w 2 = 13 ∧ w 0 = 0 ∧ w ((componentTruncate 3 2).run initialized).1 = 5 ∧
      ((componentTruncate 3 2).run initialized).2.rowsHoldW w initialized.gates.size
        ((componentTruncate 3 2).run initialized).2.gates.size) ∧
    ¬ (∃ w : Nat → Nat, w 2 = 13 ∧ w 0 = 0 ∧ w ((componentTruncate 3 2).run initialized).1 = 13 ∧
      ((componentTruncate 3 2).run initialized).2.rowsHoldW w initialized.gates.size
        ((componentTruncate 3 2).run initialized).2.gates.size) := by
  constructor
  · exact (truncate_exact 3 2 initialized (by decide) initialized_wf (by decide) 13 5
      (by decide +kernel) (by decide +kernel) (by decide)).mpr (by norm_num)
  · rw [truncate_exact 3 2 initialized (by decide) initialized_wf (by decide) 13 13
      (by decide +kernel) (by decide +kernel) (by decide)]
    norm_num

/-- the output is unique: two satisfying assignments that agree (in the field) on the input agree
    on the returned witness -/
theorem truncate_unique (n x : Nat) (c : Composer) (hn : n ≤ Generated.TRUNCATE_MAX_BITS)
    (h : WF c) (w1 w2 : Nat → Nat) (h1 : toF (w1 0) = 0) (h2 : toF (w2 0) = 0)
    (hx : toF (w1 x) = toF (w2 x))
    (hr1 : ((componentTruncate n x).run c).2.rowsHoldW w1 c.gates.size
      ((componentTruncate n x).run c).2.gates.size)
    (hr2 : ((componentTruncate n x).run c).2.rowsHoldW w2 c.gates.size
      ((componentTruncate n x).run c).2.gates.size) :
    toF (w1 ((componentTruncate n x).run c).1) = toF (w2 ((componentTruncate n x).run c).1) := by
  apply ZMod.val_injective
  rw [componentTruncate_sound n x c hn h _ (Extends.refl _) w1 h1 hr1,
    componentTruncate_sound n x c hn h _ (Extends.refl _) w2 h2 hr2, hx]

example (w1 w2 : Nat → Nat) (h1 : toF (w1 0) = 0) (h2 : toF (w2 0) = 0)
    (hx : toF (w1 2) = toF (w2 2))
    (hr1 : ((componentTruncate 3 2).run initialized).2.rowsHoldW w1 initialized.gates.size
      ((componentTruncate 3 2).run initialized).2.gates.size)
    (hr2 : ((componentTruncate 3 2).run initialized).2.rowsHoldW w2 initialized.gates.size
      ((componentTruncate 3 2).run initialized).2.gates.size) :
    toF (w1 ((componentTruncate 3 2).run initialized).1)
      = toF (w2 ((componentTruncate 3 2).run initialized).1) :=
  truncate_unique 3 2 initialized (by decide) initialized_wf w1 w2 h1 h2 hx hr1 hr2

/-! ## `bind_truncation_split` (shared with the logic component) -/

/-- `bind_truncation_split` only appends; counts depend on `n` only; last gate plain; `WF`
    preserved. -/
theorem bindTruncationSplit_extends (input low n : Nat) (c : Composer) :
    Extends c ((bindTruncationSplit input low n).run c).2 ∧
    ((bindTruncationSplit input low n).run c).2.gates.size = c.gates.size + btsGateCount n ∧
    ((bindTruncationSplit input low n).run c).2.wit.size = c.wit.size + btsWitCount n ∧
    (∀ i, i + 1 = ((bindTruncationSplit input low n).run c).2.gates.size →
      Gate.plain (((bindTruncationSplit input low n).run c).2.gateAt i)) ∧
    (WF c → WF ((bindTruncationSplit input low n).run c).2) :=
  Composer.bindTruncationSplit_extends input low n c

example : btsGateCount 4 = 85 ∧ btsWitCount 4 = 266 := ⟨by decide, by decide⟩

/-- **Soundness of the split binding**, `n ≤ 254`: for every assignment `w` (zero witness 0) in
    which `low` is range-bounded, the appended rows force `low = input mod 2^n` on canonical
    values. -/
theorem bindTruncationSplit_sound (input low n : Nat) (c : Composer)
    (hn : n ≤ Generated.TRUNCATE_MAX_BITS) (h : WF c) (c'' : Composer)
    (hext : Extends ((bindTruncationSplit input low n).run c).2 c'') (w : Nat → Nat)
    (h0 : toF (w 0) = 0) (hL : (toF (w low)).val < 2 ^ n)
    (hrows : c''.rowsHoldW w c.gates.size ((bindTruncationSplit input low n).run c).2.gates.size) :
    (toF (w low)).val = (toF (w input)).val % 2 ^ n :=
  Composer.bindTruncationSplit_sound input low n c hn h c'' hext w h0 hL hrows

/-- **Completeness of the split binding** (`n ≤ 255`): if the model's value of `low` is
    `input mod 2^n`, the model's own table satisfies the appended rows. -/
theorem bindTruncationSplit_complete (input low n : Nat) (c : Composer)
    (hn : n ≤ Generated.SPLIT_TOTAL_BITS) (h : WF c) (hinput : input < c.wit.size)
    (hlow : low < c.wit.size) (hz : c.val 0 = 0) (hval : c.val low = c.val input % 2 ^ n)
    (c'' : Composer) (hext : Extends ((bindTruncationSplit input low n).run c).2 c'') :
    c''.rowsHoldW c''.val c.gates.size ((bindTruncationSplit input low n).run c).2.gates.size :=
  Composer.bindTruncationSplit_complete input low n c hn h hinput hlow hz hval c'' hext

/-- non-vacuity: on `initialized`, witness 4 holds 7 and witness 1 holds 1 `= 7 mod 2`; binding
    `low := 1` to `input := 4` with `n = 1` is satisfied by the model's table, and soundness
    applied to that table returns `1 = 7 mod 2`. -/
example :
    (toF (((bindTruncationSplit 4 1 1).run initialized).2.val 1)).val
      = (toF (((bindTruncationSplit 4 1 1).run initialized).2.val 4)).val % 2 ^ 1 := by
  have hext := (bindTruncationSplit_extends 4 1 1 initialized).1
  refine bindTruncationSplit_sound 4 1 1 initialized (by decide) initialized_wf _ (Extends.refl _) _
    ?_ ?_
    (bindTruncationSplit_complete 4 1 1 initialized (by decide) initialized_wf (by decide)
      (by decide) initialized_val_zero (by decide +kernel) _ (Extends.refl _))
  · rw [hext.val_eq (by decide), initialized_val_zero]; simp
  · rw [hext.val_eq (by decide), initialized_val_one, val_toF_of_lt R_gt_one]; norm_num

/-! ## `component_decomposition` -/

/-- `component_decomposition::<n>` appends exactly `2n + 1` gates, all plain, and `2n`
    witnesses; `WF` is preserved; the returned bit witnesses are `W, W+2, …, W+2(n−1)` with
    `W = c.wit.size` (little endian). -/
theorem componentDecomposition_extends (n x : Nat) (c : Composer) :
    Appends c ((componentDecomposition n x).run c).2 (2 * n + 1) (2 * n) ∧
    (WF c → WF ((componentDecomposition n x).run c).2) ∧
    ((componentDecomposition n x).run c).1 = (List.range n).map (fun j => c.wit.size + 2 * j) :=
  Composer.componentDecomposition_extends n x c

example : ((componentDecomposition 3 2).run initialized).1 = [6, 8, 10] := by
  rw [(componentDecomposition_extends 3 2 initialized).2.2, initialized_wit_size]; rfl

/-- **Soundness of decomposition**, `n ≤ 254`: for every assignment `w` with the zero witness at
    0, if the appended rows hold (read in any later state) then the canonical value of `x` is
    below `2^n` and the `j`-th returned bit witness carries bit `j` of that value. -/
theorem componentDecomposition_sound (n x : Nat) (c : Composer) (hn : n ≤ 254) (h : WF c)
    (c'' : Composer) (hext : Extends ((componentDecomposition n x).run c).2 c'') (w : Nat → Nat)
    (h0 : toF (w 0) = 0)
    (hrows : c''.rowsHoldW w c.gates.size ((componentDecomposition n x).run c).2.gates.size) :
    (toF (w x)).val < 2 ^ n ∧
    ∀ j < n, (toF (w (((componentDecomposition n x).run c).1.getD j 0))).val
      = bit (toF (w x)).val j := by
  obtain ⟨h1, h2, -⟩ := Composer.componentDecomposition_sound n x c hn h c'' hext w h0 hrows
  refine ⟨h1, fun j hj => ?_⟩
  rw [componentDecomposition_getD n x c j hj]
  exact h2 j hj

/-- **Completeness of decomposition** (every width): if the model's value of the allocated input
    is below `2^n`, the model's own table satisfies the appended rows (read in any later state)
    and the `j`-th returned bit witness holds bit `j` of the value. -/
theorem componentDecomposition_complete (n x : Nat) (c : Composer) (h : WF c)
    (hx : x < c.wit.size) (hz : c.val 0 = 0) (hv : c.val x < 2 ^ n) (c'' : Composer)
    (hext : Extends ((componentDecomposition n x).run c).2 c'') :
    c''.rowsHoldW c''.val c.gates.size ((componentDecomposition n x).run c).2.gates.size ∧
    ∀ j < n, ((componentDecomposition n x).run c).2.val
      (((componentDecomposition n x).run c).1.getD j 0) = bit (c.val x) j := by
  obtain ⟨h1, h2⟩ := Composer.componentDecomposition_complete n x c h hx hz hv c'' hext
  refine ⟨h1, fun j hj => ?_⟩
  rw [componentDecomposition_getD n x c j hj]
  exact h2 j hj

/-- non-vacuity: on `initialized`, witness 2 holds `6 < 2^3`; the 3-bit decomposition is
    satisfied by the model's table; soundness applied to that table yields the bits of 6. -/
example :
    (toF (((componentDecomposition 3 2).run initialized).2.val 2)).val < 2 ^ 3 ∧
    ∀ j < 3, (toF (((componentDecomposition 3 2).run initialized).2.val
        (((componentDecomposition 3 2).run initialized).1.getD j 0))).val
      = bit (toF (((componentDecomposition 3 2).run initialized).2.val 2)).val j :=
  componentDecomposition_sound 3 2 initialized (by decide) initialized_wf _ (Extends.refl _) _
    (by rw [(componentDecomposition_extends 3 2 initialized).1.ext.val_eq (by decide),
          initialized_val_zero]; simp)
    (componentDecomposition_complete 3 2 initialized initialized_wf (by decide)
      initialized_val_zero (by decide +kernel) _ (Extends.refl _)).1

/-- **C11, decomposition** (`n ≤ 254`).  For a canonical input value `v` and canonical values
    `β j` of the returned bit witnesses: a satisfying assignment with these values exists exactly
    when `v < 2^n` and `β` is the little-endian bit vector of `v` — the component is satisfiable
    iff the value is below `2^n`, and no other bit vector satisfies it. -/
theorem decomposition_exact (n x : Nat) (c : Composer) (hn : n ≤ 254) (h : WF c)
    (hx : x < c.wit.size) (v : Nat) (β : Nat → Nat) (hv : v < R) (hβ : ∀ j < n, β j < R)
    (hx0 : x = 0 → v = 0) :
    (∃ w : Nat → Nat, w x = v ∧ w 0 = 0 ∧
        (∀ j < n, w (((componentDecomposition n x).run c).1.getD j 0) = β j) ∧
        ((componentDecomposition n x).run c).2.rowsHoldW w c.gates.size
          ((componentDecomposition n x).run c).2.gates.size) ↔
      (v < 2 ^ n ∧ ∀ j < n, β j = bit v j) := by
  have e : ∀ j < n, ((componentDecomposition n x).run c).1.getD j 0 = c.wit.size + 2 * j :=
    fun j hj => componentDecomposition_getD n x c j hj
  rw [← decomposition_exact_core n x c hn h hx v β hv hβ hx0]
  constructor
  · rintro ⟨w, h1, h2, h3, h4⟩
    exact ⟨w, h1, h2, fun j hj => by rw [← e j hj]; exact h3 j hj, h4⟩
  · rintro ⟨w, h1, h2, h3, h4⟩
    exact ⟨w, h1, h2, fun j hj => by rw [e j hj]; exact h3 j hj, h4⟩

/-- non-vacuity: both sides occur — on `initialized` with `x = 2` and `n = 3`: the value 5 with
    bits `1,0,1` is accepted; the value 5 with bits `1,1,1` is not; the value 9 is not accepted
    with any bits. -/
example :
    (∃ w : Nat → Nat, w 2 = 5 ∧ w 0 = 0 ∧
      (∀ j < 3, w (((componentDecomposition 3 2).run initialized).1.getD j 0) = bit 5 j) ∧
      ((componentDecomposition 3 2).run initialized).2.rowsHoldW w initialized.gates.size
        ((componentDecomposition 3 2).run initialized).2.gates.size) ∧
    ¬ (∃ w : Nat → Nat, w 2 = 5 ∧ w 0 = 0 ∧
      (∀ j < 3, w (((componentDecomposition 3 2).run initialized).1.getD j 0) = 1) ∧
      ((componentDecomposition 3 2).run initialized).2.rowsHoldW w initialized.gates.size
        ((componentDecomposition 3 2).run initialized).2.gates.size) ∧
    ∀ β : Nat → Nat, (∀ j < 3, β j < R) →
      ¬ (∃ w : Nat → Nat, w 2 = 9 ∧ w 0 = 0 ∧
        (∀ j < 3, w (((componentDecomposition 3 2).run initialized).1.getD j 0) = β j) ∧
        ((componentDecomposition 3 2).run initialized).2.rowsHoldW w initialized.gates.size
          ((componentDecomposition 3 2).run initialized).2.gates.size) := by
  have hR : (1 : Nat) < R := R_gt_one
  refine ⟨?_, ?_, ?_⟩
  · refine (decomposition_exact 3 2 initialized (by decide) initialized_wf (by decide) 5 (bit 5)
      (by decide +kernel) (fun j _ => ?_) (by decide)).mpr ⟨by norm_num, fun _ _ => rfl⟩
    have := bit_le_one 5 j; omega
  · rw [decomposition_exact 3 2 initialized (by decide) initialized_wf (by decide) 5 (fun _ => 1)
      (by decide +kernel) (fun _ _ => hR) (by decide)]
    rintro ⟨-, hb⟩
    have := hb 1 (by norm_num)
    revert this; decide
  · intro β hβ
    rw [decomposition_exact 3 2 initialized (by decide) initialized_wf (by decide) 9 β
      (by decide +kernel) hβ (by decide)]
    rintro ⟨h9, -⟩
    revert h9; decide

/-- uniqueness of the bit vector for `n ≤ 254`: two satisfying assignments that agree (in the
    field) on the input agree on every returned bit witness -/
theorem decomposition_unique (n x : Nat) (c : Composer) (hn : n ≤ 254) (h : WF c)
    (w1 w2 : Nat → Nat) (h1 : toF (w1 0) = 0) (h2 : toF (w2 0) = 0)
    (hx : toF (w1 x) = toF (w2 x))
    (hr1 : ((componentDecomposition n x).run c).2.rowsHoldW w1 c.gates.size
      ((componentDecomposition n x).run c).2.gates.size)
    (hr2 : ((componentDecomposition n x).run c).2.rowsHoldW w2 c.gates.size
      ((componentDecomposition n x).run c).2.gates.size) :
    ∀ j < n, toF (w1 (((componentDecomposition n x).run c).1.getD j 0))
      = toF (w2 (((componentDecomposition n x).run c).1.getD j 0)) := by
  intro j hj
  apply ZMod.val_injective
  rw [(componentDecomposition_sound n x c hn h _ (Extends.refl _) w1 h1 hr1).2 j hj,
    (componentDecomposition_sound n x c hn h _ (Extends.refl _) w2 h2 hr2).2 j hj, hx]

example (w1 w2 : Nat → Nat) (h1 : toF (w1 0) = 0) (h2 : toF (w2 0) = 0)
    (hx : toF (w1 2) = toF (w2 2))
    (hr1 : ((componentDecomposition 3 2).run initialized).2.rowsHoldW w1 initialized.gates.size
      ((componentDecomposition 3 2).run initialized).2.gates.size)
    (hr2 : ((componentDecomposition 3 2).run initialized).2.rowsHoldW w2 initialized.gates.size
      ((componentDecomposition 3 2).run initialized).2.gates.size) :
    ∀ j < 3, toF (w1 (((componentDecomposition 3 2).run initialized).1.getD j 0))
      = toF (w2 (((componentDecomposition 3 2).run initialized).1.getD j 0)) :=
  decomposition_unique 3 2 initialized (by decide) initialized_wf w1 w2 h1 h2 hx hr1 hr2

/-! ## the defect: widths 255 and 256 -/

/-- **Negation of uniqueness for `n ∈ {255, 256}`** (known finding; no `< r` guard in
    `component_decomposition`).  On `aliasBase` = `Composer::initialized()` plus one witness
    `x = 6` holding 0, there are two assignments `w1`, `w2` that
      * agree with the model's table on all seven pre-existing witnesses (so `x ↦ 0`, zero witness
        `↦ 0`),
      * satisfy **every** row of the circuit — the four rows of `initialized` and the `2n + 1` rows
        appended by `component_decomposition::<n>(x)`,
      * and differ on the first returned bit witness (index 7): `w1` carries the honest bit 0,
        `w2` carries bit 0 of `R`, which is 1 (`w2` carries the bits of `R`, recomposing to
        `R ≡ 0`).
    Hence "no other bit vector satisfies it" fails for the two largest widths the crate allows
    (`Generated.DECOMP_MAX_BITS = 256`). -/
theorem decomposition_alias_255_256 (n : Nat) (hn : n = 255 ∨ n = Generated.DECOMP_MAX_BITS) :
    ∃ w1 w2 : Nat → Nat,
      (∀ i < 7, w1 i = aliasBase.val i) ∧ (∀ i < 7, w2 i = aliasBase.val i) ∧
      w1 6 = 0 ∧ w2 6 = 0 ∧ w1 0 = 0 ∧ w2 0 = 0 ∧
      ((componentDecomposition n 6).run aliasBase).2.rowsHoldW w1 0
        ((componentDecomposition n 6).run aliasBase).2.gates.size ∧
      ((componentDecomposition n 6).run aliasBase).2.rowsHoldW w2 0
        ((componentDecomposition n 6).run aliasBase).2.gates.size ∧
      ((componentDecomposition n 6).run aliasBase).1.head? = some 7 ∧
      toF (w1 7) = 0 ∧ toF (w2 7) = 1 := by
  refine decomposition_alias n ?_
  rcases hn with h | h
  · omega
  · rw [h]; decide

/-- the hypotheses are satisfiable (`n = 255`), `aliasBase` is a well-formed state with 7
    witnesses in which witness 6 holds 0, and the two exhibited bit values are different field
    elements -/
example : (∃ w1 w2 : Nat → Nat, w1 6 = 0 ∧ w2 6 = 0 ∧
      ((componentDecomposition 255 6).run aliasBase).2.rowsHoldW w1 0
        ((componentDecomposition 255 6).run aliasBase).2.gates.size ∧
      ((componentDecomposition 255 6).run aliasBase).2.rowsHoldW w2 0
        ((componentDecomposition 255 6).run aliasBase).2.gates.size ∧
      toF (w1 7) ≠ toF (w2 7)) ∧
    WF aliasBase ∧ aliasBase.wit.size = 7 ∧ aliasBase.val 6 = 0 := by
  obtain ⟨w1, w2, -, -, a, b, -, -, r1, r2, -, e1, e2⟩ :=
    decomposition_alias_255_256 255 (Or.inl rfl)
  exact ⟨⟨w1, w2, a, b, r1, r2, by rw [e1, e2]; exact zero_ne_one⟩, aliasBase_wf,
    aliasBase_wit_size, aliasBase_val_six⟩

end Plonk.Props.C11
