import Plonk.Model.Composer
namespace Plonk.Props.C11
open Plonk
theorem placeholder_bounds : Generated.RANGE_MAX_BITS = 256 ∧ Generated.LOGIC_MAX_PAIRS = 127 ∧ Generated.TRUNCATE_MAX_BITS = 254 ∧ Generated.SPLIT_TOTAL_BITS = 255 := by decide
end Plonk.Props.C11
