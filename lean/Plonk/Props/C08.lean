import Plonk.Model.Composer
namespace Plonk.Props.C08
open Plonk

/-- `MINUS_ONE` of `append_evaluated_output` is the Montgomery form of `−1`. -/
theorem minus_one_mont : Generated.MINUS_ONE_MONT = ((R - 1) * 2 ^ 256) % R := by decide +kernel

end Plonk.Props.C08
