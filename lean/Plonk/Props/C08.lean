/-
  Property C08 — arithmetic, equality, boolean and selection components are exact.

  Conventions.  `c` is the composer state before the call, `c' := ((X args).run c).2` the state
  after it, `w : Nat → Nat` an arbitrary assignment of values to witness indices (what a prover
  may choose), `c'.rowsHoldW w c.gates.size c'.gates.size` says that the rows appended by the call
  hold under `w`, and `toF : Nat → F = ZMod R` interprets values in the scalar field.

  For every component there is
    * `X_layout`  : what is appended (`Appends c c' k m`: `c'` extends `c` by `k` plain gates and
                    `m` witnesses) and which witness index is returned;
    * `X_iff`     : appended rows hold under `w`  ↔  documented algebraic relation on `w`;
    * `X_unique`  : (components returning a witness) two assignments that agree on the input
                    wires and both satisfy the rows agree on the returned witness;
    * `X_exists`  : (components returning a witness) every assignment of the old witnesses
                    extends to one satisfying the rows, i.e. the component constrains nothing
                    but its output;
    * `X_honest`  : the model's own witness table satisfies the rows (when the relation is
                    satisfiable for the inputs).

  Everything is proved at full strength; there is no `_partial` theorem.  Forced hypotheses
  (findings, none of them a defect of the Rust code):
    * `c.WF` in every `_iff`: only its component `pis_zero` is used (no public input is recorded
      for a row index that does not exist yet) — otherwise a stale sparse public input would leak
      into the fresh row.  It is an invariant of every state reachable from `initialized`.
    * `s.hasPi = false → s.pi = 0` in `gateAdd_honest` / `appendEvaluatedOutput_honest`:
      `append_evaluated_output` solves the output with the public-input *coefficient* `s.pi`,
      while the row only carries it when the flag `has_public_input` is set.  Through the public
      Rust API (`Constraint::public`) the coefficient is only ever set together with the flag.
    * operands `< c.wit.size` in `_honest`, `_exists` (the operands were allocated before).
-/
import Plonk.Proofs.Arith
namespace Plonk.Props.C08
open Plonk Plonk.Composer

/-- `MINUS_ONE` of `append_evaluated_output` is the Montgomery form of `−1`. -/
theorem minus_one_mont : Generated.MINUS_ONE_MONT = ((R - 1) * 2 ^ 256) % R := by decide +kernel

/-! ## the general gate `append_gate` -/

theorem appendGate_layout (s : Constraint) (c : Composer) :
    Appends c ((appendGate s).run c).2 1 0 := appendGate_appends s c

example : Appends initialized ((appendGate { ql := 1, a := 3 }).run initialized).2 1 0 :=
  appendGate_layout _ _

/-- The row appended by `append_gate s` holds under `w` iff
    `q_M·a·b + q_L·a + q_R·b + q_O·c + q_F·d + q_C + PI = 0`, `PI` being `s.pi` when the
    constraint carries a public input and `0` otherwise. -/
theorem appendGate_iff (s : Constraint) (c : Composer) (hwf : c.WF) (w : Nat → Nat) :
    ((appendGate s).run c).2.rowsHoldW w c.gates.size ((appendGate s).run c).2.gates.size ↔
      toF s.qm * toF (w s.a) * toF (w s.b) + toF s.ql * toF (w s.a) + toF s.qr * toF (w s.b)
        + toF s.qo * toF (w s.c) + toF s.qf * toF (w s.d) + toF s.qc
        + (if s.hasPi then toF s.pi else 0) = 0 :=
  appendGate_rows_iff s c hwf w

/-- non-vacuity: on `initialized`, the gate `6·7 + 2·6 + 3·7 + 4·(−20) + 1·1 + 4 = 0` of the dummy
    rows, re-appended, is satisfied by the model's own values, and the gate `w₀ + 5 = 0` is not. -/
example :
    ((appendGate { qm := 1, ql := 2, qr := 3, qf := 1, qc := 4, qo := 4,
                   a := 2, b := 4, d := 3, c := 5 }).run initialized).2.rowsHoldW
      initialized.val 4 5 ∧
    ¬ ((appendGate { ql := 1, qc := 5, a := 0 }).run initialized).2.rowsHoldW initialized.val 4 5 := by
  constructor
  · exact (appendGate_iff _ initialized initialized_wf _).mpr (by decide +kernel)
  · intro h
    exact absurd ((appendGate_iff _ initialized initialized_wf _).mp h) (by decide +kernel)

/-- the model's own table satisfies the appended row iff its values satisfy the relation -/
theorem appendGate_honest_iff (s : Constraint) (c : Composer) (hwf : c.WF) :
    ((appendGate s).run c).2.rowsHoldW ((appendGate s).run c).2.val c.gates.size
        ((appendGate s).run c).2.gates.size ↔ s.arithRel c.val :=
  Composer.appendGate_honest_iff s c hwf

example : Composer.WF initialized := initialized_wf

/-! ## `append_evaluated_output` -/

/-- invertible `q_O`: one witness (index `c.wit.size`, returned) and one plain gate are appended -/
theorem appendEvaluatedOutput_layout (s : Constraint) (c : Composer) (h : toF s.qo ≠ 0) :
    ((appendEvaluatedOutput s).run c).1 = some c.wit.size ∧
      Appends c ((appendEvaluatedOutput s).run c).2 1 1 :=
  ⟨appendEvaluatedOutput_fst s c h, appendEvaluatedOutput_appends s c h⟩

/-- non-invertible `q_O`: nothing is returned, no witness is allocated, one gate is appended -/
theorem appendEvaluatedOutput_layout_none (s : Constraint) (c : Composer) (h : toF s.qo = 0) :
    ((appendEvaluatedOutput s).run c).1 = none ∧
      Appends c ((appendEvaluatedOutput s).run c).2 1 0 :=
  ⟨appendEvaluatedOutput_fst_none s c h, appendEvaluatedOutput_appends_none s c h⟩

example : toF ({ qm := 1, qo := 5, a := 2, b := 4 } : Constraint).qo ≠ 0 := by decide +kernel
example : toF ({ qm := 1, qo := R, a := 2, b := 4 } : Constraint).qo = 0 := by decide +kernel

/-- invertible `q_O`: the row holds under `w` iff
    `q_M·a·b + q_L·a + q_R·b + q_F·d + q_C + q_O·o + PI = 0` with `o` the returned witness
    (the wire `c` of `s` is ignored). -/
theorem appendEvaluatedOutput_iff (s : Constraint) (c : Composer) (hwf : c.WF) (h : toF s.qo ≠ 0)
    (w : Nat → Nat) :
    ((appendEvaluatedOutput s).run c).2.rowsHoldW w c.gates.size
        ((appendEvaluatedOutput s).run c).2.gates.size ↔
      toF s.qm * toF (w s.a) * toF (w s.b) + toF s.ql * toF (w s.a) + toF s.qr * toF (w s.b)
        + toF s.qf * toF (w s.d) + toF s.qc + toF s.qo * toF (w c.wit.size)
        + (if s.hasPi then toF s.pi else 0) = 0 :=
  appendEvaluatedOutput_rows_iff s c hwf h w

/-- non-vacuity: `q_O = 5` on `initialized` (general inverse path), model's own values -/
example :
    ((appendEvaluatedOutput { qm := 1, qo := 5, a := 2, b := 4 }).run initialized).2.rowsHoldW
      ((appendEvaluatedOutput { qm := 1, qo := 5, a := 2, b := 4 }).run initialized).2.val 4 5 :=
  appendEvaluatedOutput_honest _ initialized initialized_wf (by decide +kernel) (fun _ => rfl)
    (by decide +kernel) (by decide +kernel) (by decide +kernel)

/-- non-invertible `q_O`: the row is the arithmetic relation of `s` on the *given* wires -/
theorem appendEvaluatedOutput_iff_none (s : Constraint) (c : Composer) (hwf : c.WF)
    (h : toF s.qo = 0) (w : Nat → Nat) :
    ((appendEvaluatedOutput s).run c).2.rowsHoldW w c.gates.size
        ((appendEvaluatedOutput s).run c).2.gates.size ↔
      toF s.qm * toF (w s.a) * toF (w s.b) + toF s.ql * toF (w s.a) + toF s.qr * toF (w s.b)
        + toF s.qo * toF (w s.c) + toF s.qf * toF (w s.d) + toF s.qc
        + (if s.hasPi then toF s.pi else 0) = 0 :=
  appendEvaluatedOutput_rows_iff_none s c hwf h w

example : ((appendEvaluatedOutput { ql := 1, a := 0 }).run initialized).1 = none ∧
    ((appendEvaluatedOutput { ql := 1, a := 0 }).run initialized).2.rowsHoldW initialized.val 4 5 :=
  ⟨(appendEvaluatedOutput_layout_none _ _ (by decide +kernel)).1,
   (appendEvaluatedOutput_iff_none _ initialized initialized_wf (by decide +kernel) _).mpr
     (by decide +kernel)⟩

/-- the returned witness is determined by the input wires -/
theorem appendEvaluatedOutput_unique (s : Constraint) (c : Composer) (hwf : c.WF)
    (h : toF s.qo ≠ 0) (w₁ w₂ : Nat → Nat)
    (ha : toF (w₁ s.a) = toF (w₂ s.a)) (hb : toF (w₁ s.b) = toF (w₂ s.b))
    (hd : toF (w₁ s.d) = toF (w₂ s.d))
    (h₁ : ((appendEvaluatedOutput s).run c).2.rowsHoldW w₁ c.gates.size
        ((appendEvaluatedOutput s).run c).2.gates.size)
    (h₂ : ((appendEvaluatedOutput s).run c).2.rowsHoldW w₂ c.gates.size
        ((appendEvaluatedOutput s).run c).2.gates.size) :
    toF (w₁ c.wit.size) = toF (w₂ c.wit.size) := by
  have e₁ := (appendEvaluatedOutput_iff s c hwf h w₁).mp h₁
  have e₂ := (appendEvaluatedOutput_iff s c hwf h w₂).mp h₂
  rw [ha, hb, hd] at e₁
  have : toF s.qo * (toF (w₁ c.wit.size) - toF (w₂ c.wit.size)) = 0 := by
    linear_combination e₁ - e₂
  rcases mul_eq_zero.mp this with h0 | h0
  · exact absurd h0 h
  · exact sub_eq_zero.mp h0

/-- every assignment of the old witnesses extends to the output -/
theorem appendEvaluatedOutput_exists (s : Constraint) (c : Composer) (hwf : c.WF)
    (h : toF s.qo ≠ 0) (ha : s.a < c.wit.size) (hb : s.b < c.wit.size) (hd : s.d < c.wit.size)
    (w₀ : Nat → Nat) :
    ∃ w, (∀ i, i ≠ c.wit.size → w i = w₀ i) ∧
      ((appendEvaluatedOutput s).run c).2.rowsHoldW w c.gates.size
        ((appendEvaluatedOutput s).run c).2.gates.size :=
  Composer.appendEvaluatedOutput_exists s c hwf h ha hb hd w₀

/-- The value stored by the model is `−(q_M·a·b + q_L·a + q_R·b + q_F·d + q_C + PI)/q_O`, whichever
    of the three code paths (`q_O = 1`, `q_O = −1`, general inverse) computed it. -/
theorem appendEvaluatedOutput_value (s : Constraint) (c : Composer) (h : toF s.qo ≠ 0) :
    toF (((appendEvaluatedOutput s).run c).2.val c.wit.size) =
      -(toF s.qm * toF (c.val s.a) * toF (c.val s.b) + toF s.ql * toF (c.val s.a)
          + toF s.qr * toF (c.val s.b) + toF s.qf * toF (c.val s.d) + toF s.qc + toF s.pi)
        / toF s.qo :=
  appendEvaluatedOutput_val s c h

/-- the model's own table satisfies the appended row -/
theorem appendEvaluatedOutput_honest (s : Constraint) (c : Composer) (hwf : c.WF)
    (h : toF s.qo ≠ 0) (hpi : s.hasPi = false → s.pi = 0)
    (ha : s.a < c.wit.size) (hb : s.b < c.wit.size) (hd : s.d < c.wit.size) :
    ((appendEvaluatedOutput s).run c).2.rowsHoldW ((appendEvaluatedOutput s).run c).2.val
        c.gates.size ((appendEvaluatedOutput s).run c).2.gates.size :=
  Composer.appendEvaluatedOutput_honest s c hwf h hpi ha hb hd

/-- non-vacuity of `_unique`, `_exists`, `_honest`, `_value`: all three code paths on `initialized`
    (`q_O = 1`, `q_O = R − 1`, `q_O = 5`) with a public input -/
example : ∀ qo ∈ [1, R - 1, 5],
    let s : Constraint := { qm := 1, ql := 3, qo := qo, qc := 9, pi := 11, hasPi := true,
                            a := 2, b := 4, d := 3 }
    initialized.WF ∧ toF s.qo ≠ 0 ∧ (s.hasPi = false → s.pi = 0) ∧ s.a < initialized.wit.size ∧
      s.b < initialized.wit.size ∧ s.d < initialized.wit.size := by
  intro qo hq
  simp only [List.mem_cons, List.mem_nil_iff, or_false] at hq
  refine ⟨initialized_wf, ?_, fun h => by simp at h, by show 2 < _; decide +kernel,
    by show 4 < _; decide +kernel, by show 3 < _; decide +kernel⟩
  rcases hq with h | h | h <;> subst h <;> decide +kernel

/-! ## `gate_add` / `gate_mul` -/

/-- one witness (index `c.wit.size`, returned) and one plain gate are appended -/
theorem gateAdd_layout (s : Constraint) (c : Composer) :
    ((gateAdd s).run c).1 = c.wit.size ∧ Appends c ((gateAdd s).run c).2 1 1 :=
  ⟨gateAdd_fst s c, gateAdd_appends s c⟩

example : ((gateAdd { ql := 1, qr := 1, a := 2, b := 4 }).run initialized).1 = 6 :=
  (gateAdd_layout _ _).1

/-- The row of `gate_add s` holds under `w` iff the returned witness `o` carries
    `q_M·a·b + q_L·a + q_R·b + q_F·d + q_C + PI` (`q_O` of `s`, its wire `c` and its internal
    selectors are ignored: `q_O := −1`). -/
theorem gateAdd_iff (s : Constraint) (c : Composer) (hwf : c.WF) (w : Nat → Nat) :
    ((gateAdd s).run c).2.rowsHoldW w c.gates.size ((gateAdd s).run c).2.gates.size ↔
      toF (w ((gateAdd s).run c).1) =
        toF s.qm * toF (w s.a) * toF (w s.b) + toF s.ql * toF (w s.a) + toF s.qr * toF (w s.b)
          + toF s.qf * toF (w s.d) + toF s.qc + (if s.hasPi then toF s.pi else 0) := by
  rw [gateAdd_fst]; exact gateAdd_rows_iff s c hwf w

/-- the returned witness is determined by the input wires -/
theorem gateAdd_unique (s : Constraint) (c : Composer) (hwf : c.WF) (w₁ w₂ : Nat → Nat)
    (ha : toF (w₁ s.a) = toF (w₂ s.a)) (hb : toF (w₁ s.b) = toF (w₂ s.b))
    (hd : toF (w₁ s.d) = toF (w₂ s.d))
    (h₁ : ((gateAdd s).run c).2.rowsHoldW w₁ c.gates.size ((gateAdd s).run c).2.gates.size)
    (h₂ : ((gateAdd s).run c).2.rowsHoldW w₂ c.gates.size ((gateAdd s).run c).2.gates.size) :
    toF (w₁ ((gateAdd s).run c).1) = toF (w₂ ((gateAdd s).run c).1) := by
  rw [(gateAdd_iff s c hwf w₁).mp h₁, (gateAdd_iff s c hwf w₂).mp h₂, ha, hb, hd]

/-- every assignment of the old witnesses extends to the output: `gate_add` constrains nothing
    but its output -/
theorem gateAdd_exists (s : Constraint) (c : Composer) (hwf : c.WF)
    (ha : s.a < c.wit.size) (hb : s.b < c.wit.size) (hd : s.d < c.wit.size) (w₀ : Nat → Nat) :
    ∃ w, (∀ i, i ≠ c.wit.size → w i = w₀ i) ∧
      ((gateAdd s).run c).2.rowsHoldW w c.gates.size ((gateAdd s).run c).2.gates.size :=
  Composer.gateAdd_exists s c hwf ha hb hd w₀

/-- the model's own table satisfies the appended row -/
theorem gateAdd_honest (s : Constraint) (c : Composer) (hwf : c.WF)
    (hpi : s.hasPi = false → s.pi = 0)
    (ha : s.a < c.wit.size) (hb : s.b < c.wit.size) (hd : s.d < c.wit.size) :
    ((gateAdd s).run c).2.rowsHoldW ((gateAdd s).run c).2.val c.gates.size
      ((gateAdd s).run c).2.gates.size :=
  Composer.gateAdd_honest s c hwf hpi ha hb hd

/-- non-vacuity: `o = w₂·w₄ + 2·w₂ + 5` on `initialized` (`w₂ = 6`, `w₄ = 7`): the hypotheses hold,
    the model stores `6·7 + 2·6 + 5 = 59`, and that value is forced. -/
example :
    let s : Constraint := { qm := 1, ql := 2, qc := 5, a := 2, b := 4 }
    initialized.WF ∧ (s.hasPi = false → s.pi = 0) ∧ s.a < initialized.wit.size ∧
      s.b < initialized.wit.size ∧ s.d < initialized.wit.size ∧
      ((gateAdd s).run initialized).2.val 6 = 59 :=
  ⟨initialized_wf, fun _ => rfl, by decide +kernel, by decide +kernel, by decide +kernel,
    by decide +kernel⟩

/-- `gate_mul` is `gate_add`; all of the above applies verbatim. -/
theorem gateMul_iff (s : Constraint) (c : Composer) (hwf : c.WF) (w : Nat → Nat) :
    ((gateMul s).run c).2.rowsHoldW w c.gates.size ((gateMul s).run c).2.gates.size ↔
      toF (w ((gateMul s).run c).1) =
        toF s.qm * toF (w s.a) * toF (w s.b) + toF s.ql * toF (w s.a) + toF s.qr * toF (w s.b)
          + toF s.qf * toF (w s.d) + toF s.qc + (if s.hasPi then toF s.pi else 0) :=
  gateAdd_iff s c hwf w

theorem gateMul_unique (s : Constraint) (c : Composer) (hwf : c.WF) (w₁ w₂ : Nat → Nat)
    (ha : toF (w₁ s.a) = toF (w₂ s.a)) (hb : toF (w₁ s.b) = toF (w₂ s.b))
    (hd : toF (w₁ s.d) = toF (w₂ s.d))
    (h₁ : ((gateMul s).run c).2.rowsHoldW w₁ c.gates.size ((gateMul s).run c).2.gates.size)
    (h₂ : ((gateMul s).run c).2.rowsHoldW w₂ c.gates.size ((gateMul s).run c).2.gates.size) :
    toF (w₁ ((gateMul s).run c).1) = toF (w₂ ((gateMul s).run c).1) :=
  gateAdd_unique s c hwf w₁ w₂ ha hb hd h₁ h₂

example : ∃ w, ((gateMul { qm := 1, a := 2, b := 4 }).run initialized).2.rowsHoldW w 4 5 := by
  obtain ⟨w, -, h⟩ := gateAdd_exists { qm := 1, a := 2, b := 4 } initialized initialized_wf
    (by decide +kernel) (by decide +kernel) (by decide +kernel) (fun _ => 3)
  exact ⟨w, h⟩

/-! ## `assert_equal` -/

theorem assertEqual_layout (a b : Nat) (c : Composer) :
    Appends c ((assertEqual a b).run c).2 1 0 := assertEqual_appends a b c

/-- the row of `assert_equal a b` holds under `w` iff `w a = w b` -/
theorem assertEqual_iff (a b : Nat) (c : Composer) (hwf : c.WF) (w : Nat → Nat) :
    ((assertEqual a b).run c).2.rowsHoldW w c.gates.size ((assertEqual a b).run c).2.gates.size ↔
      toF (w a) = toF (w b) := assertEqual_rows_iff a b c hwf w

/-- the model's own table satisfies the row iff the two stored values are equal -/
theorem assertEqual_honest_iff (a b : Nat) (c : Composer) (hwf : c.WF) :
    ((assertEqual a b).run c).2.rowsHoldW ((assertEqual a b).run c).2.val c.gates.size
      ((assertEqual a b).run c).2.gates.size ↔ c.val a = c.val b :=
  Composer.assertEqual_honest_iff a b c hwf

/-- non-vacuity: on `initialized`, witnesses 1 and 3 both hold `1` (satisfied), 0 and 1 hold
    `0 ≠ 1` (not satisfied) -/
example :
    ((assertEqual 1 3).run initialized).2.rowsHoldW ((assertEqual 1 3).run initialized).2.val 4 5 ∧
    ¬ ((assertEqual 0 1).run initialized).2.rowsHoldW ((assertEqual 0 1).run initialized).2.val 4 5 :=
  ⟨(assertEqual_honest_iff 1 3 initialized initialized_wf).mpr (by decide +kernel),
   fun h => absurd ((assertEqual_honest_iff 0 1 initialized initialized_wf).mp h)
     (by decide +kernel)⟩

/-! ## `assert_equal_constant` -/

theorem assertEqualConstant_layout (a k : Nat) (pub : Option Nat) (c : Composer) :
    Appends c ((assertEqualConstant a k pub).run c).2 1 0 := assertEqualConstant_appends a k pub c

/-- the row of `assert_equal_constant a k pub` holds under `w` iff `w a = k + pub`
    (`pub` read as `0` when absent) -/
theorem assertEqualConstant_iff (a k : Nat) (pub : Option Nat) (c : Composer) (hwf : c.WF)
    (w : Nat → Nat) :
    ((assertEqualConstant a k pub).run c).2.rowsHoldW w c.gates.size
        ((assertEqualConstant a k pub).run c).2.gates.size ↔
      toF (w a) = toF k + (match pub with | some p => toF p | none => 0) := by
  rw [assertEqualConstant_rows_iff a k pub c hwf w]
  cases pub <;> rfl

/-- non-vacuity: witness 2 of `initialized` holds `6 = 4 + 2` and `6 = 6`, but not `5` -/
example :
    ((assertEqualConstant 2 4 (some 2)).run initialized).2.rowsHoldW initialized.val 4 5 ∧
    ((assertEqualConstant 2 6 none).run initialized).2.rowsHoldW initialized.val 4 5 ∧
    ¬ ((assertEqualConstant 2 5 none).run initialized).2.rowsHoldW initialized.val 4 5 :=
  ⟨(assertEqualConstant_iff 2 4 (some 2) initialized initialized_wf _).mpr (by decide +kernel),
   (assertEqualConstant_iff 2 6 none initialized initialized_wf _).mpr (by decide +kernel),
   fun h => absurd ((assertEqualConstant_iff 2 5 none initialized initialized_wf _).mp h)
     (by decide +kernel)⟩

/-! ## `append_constant` -/

theorem appendConstant_layout (v : Nat) (c : Composer) :
    ((appendConstant v).run c).1 = c.wit.size ∧ Appends c ((appendConstant v).run c).2 1 1 :=
  ⟨appendConstant_fst v c, appendConstant_appends v c⟩

/-- the row of `append_constant v` holds under `w` iff the returned witness carries `v` -/
theorem appendConstant_iff (v : Nat) (c : Composer) (hwf : c.WF) (w : Nat → Nat) :
    ((appendConstant v).run c).2.rowsHoldW w c.gates.size ((appendConstant v).run c).2.gates.size ↔
      toF (w ((appendConstant v).run c).1) = toF v := appendConstant_rows_iff v c hwf w

/-- the returned witness is determined (it has no inputs) -/
theorem appendConstant_unique (v : Nat) (c : Composer) (hwf : c.WF) (w₁ w₂ : Nat → Nat)
    (h₁ : ((appendConstant v).run c).2.rowsHoldW w₁ c.gates.size
      ((appendConstant v).run c).2.gates.size)
    (h₂ : ((appendConstant v).run c).2.rowsHoldW w₂ c.gates.size
      ((appendConstant v).run c).2.gates.size) :
    toF (w₁ ((appendConstant v).run c).1) = toF (w₂ ((appendConstant v).run c).1) := by
  rw [(appendConstant_iff v c hwf w₁).mp h₁, (appendConstant_iff v c hwf w₂).mp h₂]

/-- the model's own table satisfies the row, always -/
theorem appendConstant_honest (v : Nat) (c : Composer) (hwf : c.WF) :
    ((appendConstant v).run c).2.rowsHoldW ((appendConstant v).run c).2.val c.gates.size
      ((appendConstant v).run c).2.gates.size := Composer.appendConstant_honest v c hwf

example : ((appendConstant 42).run initialized).2.rowsHoldW
    ((appendConstant 42).run initialized).2.val 4 5 ∧
    ((appendConstant 42).run initialized).2.val 6 = 42 :=
  ⟨appendConstant_honest 42 initialized initialized_wf, by decide +kernel⟩

/-! ## `append_public` -/

theorem appendPublic_layout (v : Nat) (c : Composer) :
    ((appendPublic v).run c).1 = c.wit.size ∧ Appends c ((appendPublic v).run c).2 1 1 ∧
      ((appendPublic v).run c).2.piAt c.gates.size = v % R :=
  ⟨appendPublic_fst v c, appendPublic_appends v c, appendPublic_piAt v c⟩

/-- the row of `append_public v` holds under `w` iff the returned witness equals the public
    input `v` recorded for that row -/
theorem appendPublic_iff (v : Nat) (c : Composer) (hwf : c.WF) (w : Nat → Nat) :
    ((appendPublic v).run c).2.rowsHoldW w c.gates.size ((appendPublic v).run c).2.gates.size ↔
      toF (w ((appendPublic v).run c).1) = toF (((appendPublic v).run c).2.piAt c.gates.size) := by
  rw [appendPublic_piAt, toF_mod]; exact appendPublic_rows_iff v c hwf w

theorem appendPublic_unique (v : Nat) (c : Composer) (hwf : c.WF) (w₁ w₂ : Nat → Nat)
    (h₁ : ((appendPublic v).run c).2.rowsHoldW w₁ c.gates.size
      ((appendPublic v).run c).2.gates.size)
    (h₂ : ((appendPublic v).run c).2.rowsHoldW w₂ c.gates.size
      ((appendPublic v).run c).2.gates.size) :
    toF (w₁ ((appendPublic v).run c).1) = toF (w₂ ((appendPublic v).run c).1) := by
  rw [(appendPublic_iff v c hwf w₁).mp h₁, (appendPublic_iff v c hwf w₂).mp h₂]

/-- the model's own table satisfies the row, always -/
theorem appendPublic_honest (v : Nat) (c : Composer) (hwf : c.WF) :
    ((appendPublic v).run c).2.rowsHoldW ((appendPublic v).run c).2.val c.gates.size
      ((appendPublic v).run c).2.gates.size := Composer.appendPublic_honest v c hwf

example : ((appendPublic 42).run initialized).2.rowsHoldW
    ((appendPublic 42).run initialized).2.val 4 5 ∧
    ((appendPublic 42).run initialized).2.val 6 = 42 ∧
    ((appendPublic 42).run initialized).2.piAt 4 = 42 :=
  ⟨appendPublic_honest 42 initialized initialized_wf, by decide +kernel, by decide +kernel⟩

/-! ## `component_boolean` -/

theorem componentBoolean_layout (a : Nat) (c : Composer) :
    Appends c ((componentBoolean a).run c).2 1 0 := componentBoolean_appends a c

/-- the row of `component_boolean a` holds under `w` iff `x·x = x`, i.e. `x ∈ {0, 1}` -/
theorem componentBoolean_iff (a : Nat) (c : Composer) (hwf : c.WF) (w : Nat → Nat) :
    (((componentBoolean a).run c).2.rowsHoldW w c.gates.size
        ((componentBoolean a).run c).2.gates.size ↔ toF (w a) * toF (w a) = toF (w a)) ∧
    (((componentBoolean a).run c).2.rowsHoldW w c.gates.size
        ((componentBoolean a).run c).2.gates.size ↔ (toF (w a) = 0 ∨ toF (w a) = 1)) :=
  ⟨componentBoolean_rows_iff_sq a c hwf w, componentBoolean_rows_iff a c hwf w⟩

/-- the model's own table satisfies the row iff the stored value is `0` or `1` -/
theorem componentBoolean_honest_iff (a : Nat) (c : Composer) (hwf : c.WF) :
    ((componentBoolean a).run c).2.rowsHoldW ((componentBoolean a).run c).2.val c.gates.size
      ((componentBoolean a).run c).2.gates.size ↔ (c.val a = 0 ∨ c.val a = 1) :=
  Composer.componentBoolean_honest_iff a c hwf

/-- non-vacuity: on `initialized` witnesses 0, 1 (values 0, 1) are boolean, witness 2 (value 6)
    is not -/
example :
    ((componentBoolean 0).run initialized).2.rowsHoldW initialized.val 4 5 ∧
    ((componentBoolean 1).run initialized).2.rowsHoldW initialized.val 4 5 ∧
    ¬ ((componentBoolean 2).run initialized).2.rowsHoldW initialized.val 4 5 :=
  ⟨(componentBoolean_honest_iff 0 initialized initialized_wf).mpr (by decide +kernel),
   (componentBoolean_honest_iff 1 initialized initialized_wf).mpr (by decide +kernel),
   fun h => absurd ((componentBoolean_honest_iff 2 initialized initialized_wf).mp h)
     (by decide +kernel)⟩

/-! ## `component_select` -/

/-- four witnesses `n … n+3` (`n = c.wit.size`) and four plain gates are appended; `n+3` is
    returned -/
theorem componentSelect_layout (bit a b : Nat) (c : Composer) :
    ((componentSelect bit a b).run c).1 = c.wit.size + 3 ∧
      Appends c ((componentSelect bit a b).run c).2 4 4 :=
  ⟨componentSelect_fst bit a b c, componentSelect_appends bit a b c⟩

/-- The four rows of `component_select bit a b` hold under `w` iff the three intermediate
    witnesses carry `bit·a`, `1 − bit`, `(1 − bit)·b` and the returned one carries
    `bit·a + (1 − bit)·b`. -/
theorem componentSelect_iff (bit a b : Nat) (c : Composer) (hwf : c.WF) (w : Nat → Nat) :
    ((componentSelect bit a b).run c).2.rowsHoldW w c.gates.size
        ((componentSelect bit a b).run c).2.gates.size ↔
      (toF (w c.wit.size) = toF (w bit) * toF (w a) ∧
       toF (w (c.wit.size + 1)) = 1 - toF (w bit) ∧
       toF (w (c.wit.size + 2)) = (1 - toF (w bit)) * toF (w b) ∧
       toF (w ((componentSelect bit a b).run c).1) =
         toF (w bit) * toF (w a) + (1 - toF (w bit)) * toF (w b)) := by
  rw [componentSelect_rows_iff bit a b c hwf w, componentSelect_fst]
  constructor
  · rintro ⟨h1, h2, h3, h4⟩
    refine ⟨h1, h2, by rw [h3, h2], by rw [h4, h3, h2, h1]; ring⟩
  · rintro ⟨h1, h2, h3, h4⟩
    refine ⟨h1, h2, by rw [h3, h2], by rw [h4, h3, h1]; ring⟩

/-- the returned witness (and each intermediate one) is determined by the input wires -/
theorem componentSelect_unique (bit a b : Nat) (c : Composer) (hwf : c.WF) (w₁ w₂ : Nat → Nat)
    (hbit : toF (w₁ bit) = toF (w₂ bit)) (ha : toF (w₁ a) = toF (w₂ a))
    (hb : toF (w₁ b) = toF (w₂ b))
    (h₁ : ((componentSelect bit a b).run c).2.rowsHoldW w₁ c.gates.size
        ((componentSelect bit a b).run c).2.gates.size)
    (h₂ : ((componentSelect bit a b).run c).2.rowsHoldW w₂ c.gates.size
        ((componentSelect bit a b).run c).2.gates.size) :
    toF (w₁ ((componentSelect bit a b).run c).1) = toF (w₂ ((componentSelect bit a b).run c).1) ∧
      toF (w₁ c.wit.size) = toF (w₂ c.wit.size) ∧
      toF (w₁ (c.wit.size + 1)) = toF (w₂ (c.wit.size + 1)) ∧
      toF (w₁ (c.wit.size + 2)) = toF (w₂ (c.wit.size + 2)) := by
  obtain ⟨p1, p2, p3, p4⟩ := (componentSelect_iff bit a b c hwf w₁).mp h₁
  obtain ⟨q1, q2, q3, q4⟩ := (componentSelect_iff bit a b c hwf w₂).mp h₂
  refine ⟨?_, ?_, ?_, ?_⟩
  · rw [p4, q4, hbit, ha, hb]
  · rw [p1, q1, hbit, ha]
  · rw [p2, q2, hbit]
  · rw [p3, q3, hbit, hb]

/-- every assignment of the old witnesses extends to the four new ones -/
theorem componentSelect_exists (bit a b : Nat) (c : Composer) (hwf : c.WF)
    (hbit : bit < c.wit.size) (ha : a < c.wit.size) (hb : b < c.wit.size) (w₀ : Nat → Nat) :
    ∃ w, (∀ i, i < c.wit.size → w i = w₀ i) ∧
      ((componentSelect bit a b).run c).2.rowsHoldW w c.gates.size
        ((componentSelect bit a b).run c).2.gates.size :=
  Composer.componentSelect_exists bit a b c hwf hbit ha hb w₀

/-- the model's own table satisfies the four rows -/
theorem componentSelect_honest (bit a b : Nat) (c : Composer) (hwf : c.WF)
    (hbit : bit < c.wit.size) (ha : a < c.wit.size) (hb : b < c.wit.size) :
    ((componentSelect bit a b).run c).2.rowsHoldW ((componentSelect bit a b).run c).2.val
      c.gates.size ((componentSelect bit a b).run c).2.gates.size :=
  Composer.componentSelect_honest bit a b c hwf hbit ha hb

/-- non-vacuity: on `initialized`, `select(w₁ = 1, w₂ = 6, w₄ = 7) = 6` and
    `select(w₀ = 0, w₂ = 6, w₄ = 7) = 7` -/
example :
    initialized.WF ∧ 1 < initialized.wit.size ∧ 2 < initialized.wit.size ∧
      4 < initialized.wit.size ∧
      ((componentSelect 1 2 4).run initialized).2.val 9 = 6 ∧
      ((componentSelect 0 2 4).run initialized).2.val 9 = 7 ∧
      ((componentSelect 1 2 4).run initialized).2.rowsHoldW
        ((componentSelect 1 2 4).run initialized).2.val 4 8 :=
  ⟨initialized_wf, by decide +kernel, by decide +kernel, by decide +kernel, by decide +kernel,
    by decide +kernel,
    componentSelect_honest 1 2 4 initialized initialized_wf (by decide +kernel) (by decide +kernel)
      (by decide +kernel)⟩

/-! ## `component_select_one` -/

theorem componentSelectOne_layout (bit value : Nat) (c : Composer) :
    ((componentSelectOne bit value).run c).1 = c.wit.size ∧
      Appends c ((componentSelectOne bit value).run c).2 1 1 :=
  ⟨componentSelectOne_fst bit value c, componentSelectOne_appends bit value c⟩

/-- the row holds under `w` iff the returned witness carries `1 − bit + bit·value` -/
theorem componentSelectOne_iff (bit value : Nat) (c : Composer) (hwf : c.WF) (w : Nat → Nat) :
    ((componentSelectOne bit value).run c).2.rowsHoldW w c.gates.size
        ((componentSelectOne bit value).run c).2.gates.size ↔
      toF (w ((componentSelectOne bit value).run c).1) =
        1 - toF (w bit) + toF (w bit) * toF (w value) :=
  componentSelectOne_rows_iff bit value c hwf w

theorem componentSelectOne_unique (bit value : Nat) (c : Composer) (hwf : c.WF)
    (w₁ w₂ : Nat → Nat) (hbit : toF (w₁ bit) = toF (w₂ bit))
    (hv : toF (w₁ value) = toF (w₂ value))
    (h₁ : ((componentSelectOne bit value).run c).2.rowsHoldW w₁ c.gates.size
        ((componentSelectOne bit value).run c).2.gates.size)
    (h₂ : ((componentSelectOne bit value).run c).2.rowsHoldW w₂ c.gates.size
        ((componentSelectOne bit value).run c).2.gates.size) :
    toF (w₁ ((componentSelectOne bit value).run c).1) =
      toF (w₂ ((componentSelectOne bit value).run c).1) := by
  rw [(componentSelectOne_iff bit value c hwf w₁).mp h₁,
    (componentSelectOne_iff bit value c hwf w₂).mp h₂, hbit, hv]

theorem componentSelectOne_exists (bit value : Nat) (c : Composer) (hwf : c.WF)
    (hb : bit < c.wit.size) (hv : value < c.wit.size) (w₀ : Nat → Nat) :
    ∃ w, (∀ i, i ≠ c.wit.size → w i = w₀ i) ∧
      ((componentSelectOne bit value).run c).2.rowsHoldW w c.gates.size
        ((componentSelectOne bit value).run c).2.gates.size :=
  Composer.componentSelectOne_exists bit value c hwf hb hv w₀

theorem componentSelectOne_honest (bit value : Nat) (c : Composer) (hwf : c.WF)
    (hb : bit < c.wit.size) (hv : value < c.wit.size) :
    ((componentSelectOne bit value).run c).2.rowsHoldW
      ((componentSelectOne bit value).run c).2.val c.gates.size
      ((componentSelectOne bit value).run c).2.gates.size :=
  Composer.componentSelectOne_honest bit value c hwf hb hv

/-- non-vacuity: `select_one(1, 6) = 6`, `select_one(0, 6) = 1` on `initialized` -/
example :
    ((componentSelectOne 1 2).run initialized).2.val 6 = 6 ∧
    ((componentSelectOne 0 2).run initialized).2.val 6 = 1 ∧
    ((componentSelectOne 1 2).run initialized).2.rowsHoldW
      ((componentSelectOne 1 2).run initialized).2.val 4 5 :=
  ⟨by decide +kernel, by decide +kernel,
    componentSelectOne_honest 1 2 initialized initialized_wf (by decide +kernel)
      (by decide +kernel)⟩

/-! ## `component_select_zero` -/

theorem componentSelectZero_layout (bit value : Nat) (c : Composer) :
    ((componentSelectZero bit value).run c).1 = c.wit.size ∧
      Appends c ((componentSelectZero bit value).run c).2 1 1 :=
  ⟨componentSelectZero_fst bit value c, componentSelectZero_appends bit value c⟩

/-- the row holds under `w` iff the returned witness carries `bit·value` -/
theorem componentSelectZero_iff (bit value : Nat) (c : Composer) (hwf : c.WF) (w : Nat → Nat) :
    ((componentSelectZero bit value).run c).2.rowsHoldW w c.gates.size
        ((componentSelectZero bit value).run c).2.gates.size ↔
      toF (w ((componentSelectZero bit value).run c).1) = toF (w bit) * toF (w value) := by
  rw [componentSelectZero_fst]; exact componentSelectZero_rows_iff bit value c hwf w

theorem componentSelectZero_unique (bit value : Nat) (c : Composer) (hwf : c.WF)
    (w₁ w₂ : Nat → Nat) (hbit : toF (w₁ bit) = toF (w₂ bit))
    (hv : toF (w₁ value) = toF (w₂ value))
    (h₁ : ((componentSelectZero bit value).run c).2.rowsHoldW w₁ c.gates.size
        ((componentSelectZero bit value).run c).2.gates.size)
    (h₂ : ((componentSelectZero bit value).run c).2.rowsHoldW w₂ c.gates.size
        ((componentSelectZero bit value).run c).2.gates.size) :
    toF (w₁ ((componentSelectZero bit value).run c).1) =
      toF (w₂ ((componentSelectZero bit value).run c).1) := by
  rw [(componentSelectZero_iff bit value c hwf w₁).mp h₁,
    (componentSelectZero_iff bit value c hwf w₂).mp h₂, hbit, hv]

theorem componentSelectZero_exists (bit value : Nat) (c : Composer) (hwf : c.WF)
    (hb : bit < c.wit.size) (hv : value < c.wit.size) (w₀ : Nat → Nat) :
    ∃ w, (∀ i, i ≠ c.wit.size → w i = w₀ i) ∧
      ((componentSelectZero bit value).run c).2.rowsHoldW w c.gates.size
        ((componentSelectZero bit value).run c).2.gates.size :=
  Composer.componentSelectZero_exists bit value c hwf hb hv w₀

theorem componentSelectZero_honest (bit value : Nat) (c : Composer) (hwf : c.WF)
    (hb : bit < c.wit.size) (hv : value < c.wit.size) :
    ((componentSelectZero bit value).run c).2.rowsHoldW
      ((componentSelectZero bit value).run c).2.val c.gates.size
      ((componentSelectZero bit value).run c).2.gates.size :=
  Composer.componentSelectZero_honest bit value c hwf hb hv

/-- non-vacuity: `select_zero(1, 6) = 6`, `select_zero(0, 6) = 0` on `initialized` -/
example :
    ((componentSelectZero 1 2).run initialized).2.val 6 = 6 ∧
    ((componentSelectZero 0 2).run initialized).2.val 6 = 0 ∧
    ((componentSelectZero 1 2).run initialized).2.rowsHoldW
      ((componentSelectZero 1 2).run initialized).2.val 4 5 :=
  ⟨by decide +kernel, by decide +kernel,
    componentSelectZero_honest 1 2 initialized initialized_wf (by decide +kernel)
      (by decide +kernel)⟩

/-! ## the initial state and preservation of well-formedness -/

/-- `Composer::initialized()`: 4 plain gates, 6 witnesses, well-formed, its own values satisfy its
    rows, and rows 0 and 1 pin `ZERO = 0`, `ONE = 1` — in `initialized` itself and in every
    extension of it. -/
theorem initialized_spec :
    initialized.gates.size = 4 ∧ initialized.wit.size = 6 ∧ initialized.WF ∧
      initialized.rowsHoldW initialized.val 0 4 ∧
      (∀ c : Composer, Extends initialized c → ∀ w : Nat → Nat, c.rowsHoldW w 0 2 →
        toF (w Composer.ZERO) = 0 ∧ toF (w Composer.ONE) = 1) :=
  ⟨initialized_gates_size, initialized_wit_size, initialized_wf, initialized_honest,
    fun _ hext w h => initialized_base_ext hext w h⟩

example : Extends initialized ((componentSelect 1 2 4).run initialized).2 :=
  componentSelect_extends 1 2 4 initialized

/-- every component of this property preserves well-formedness of the composer state, so the
    hypothesis `c.WF` of the theorems above holds in every state reached from `initialized`
    through them -/
theorem wf_preserved (c : Composer) (hwf : c.WF) :
    (∀ s, ((appendGate s).run c).2.WF) ∧ (∀ s, ((appendEvaluatedOutput s).run c).2.WF) ∧
    (∀ s, ((gateAdd s).run c).2.WF) ∧ (∀ s, ((gateMul s).run c).2.WF) ∧
    (∀ a b, ((assertEqual a b).run c).2.WF) ∧
    (∀ a k pub, ((assertEqualConstant a k pub).run c).2.WF) ∧
    (∀ v, ((appendConstant v).run c).2.WF) ∧ (∀ v, ((appendPublic v).run c).2.WF) ∧
    (∀ a, ((componentBoolean a).run c).2.WF) ∧
    (∀ bit a b, ((componentSelect bit a b).run c).2.WF) ∧
    (∀ bit v, ((componentSelectOne bit v).run c).2.WF) ∧
    (∀ bit v, ((componentSelectZero bit v).run c).2.WF) :=
  ⟨fun s => appendGate_wf s c hwf, fun s => appendEvaluatedOutput_wf s c hwf,
   fun s => gateAdd_wf s c hwf, fun s => gateAdd_wf s c hwf,
   fun a b => assertEqual_wf a b c hwf, fun a k pub => assertEqualConstant_wf a k pub c hwf,
   fun v => appendConstant_wf v c hwf, fun v => appendPublic_wf v c hwf,
   fun a => componentBoolean_wf a c hwf, fun bit a b => componentSelect_wf bit a b c hwf,
   fun bit v => componentSelectOne_wf bit v c hwf,
   fun bit v => componentSelectZero_wf bit v c hwf⟩

example : Composer.WF initialized := initialized_wf

end Plonk.Props.C08
