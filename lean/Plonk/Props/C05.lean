/-
  C05 — "Prover exactness: it proves iff the compiled constraints hold" — ALGEBRAIC HALF.

  What is proved here (all at full strength, no `_partial` theorem), about the model's own functions
  `blindPoly`, `rangeScalar / logicScalar / fixedScalar / varScalar`, `rowHolds`, `quotientEvals`,
  `permVec` (`Model/Prover.lean`, `Model/Verifier.lean`, `Model/Gate.lean`), over `F = ZMod R`:

   1. `blind_agrees_on_domain`   blinding adds a multiple of `X^n − 1`: the blinded polynomials take
                                 the witness values on the domain, whatever the blinders.
   2. `divisible_iff_vanishes`   `(X^n − 1) ∣ N ↔ N(ω^i) = 0` for all `i < n`.
   3. `components_of_weighted_sum`, `range_/logic_/fixed_/var_scalar_zero_iff`, `gate_sum_zero_iff`,
      `gate_sum_bad_set`         from the challenge-weighted sums of the code to the individual
                                 widget identities, i.e. to `Plonk.rowHolds`.
   4. `numerator_at_root`, `numerator_on_table`, `quotient_entry_is_coset_eval`
                                 the numerator polynomial at `ω^i` is the row value `N_i` of rows `i`
                                 and `(i+1) mod n` (cyclic next row); an entry of the model's
                                 `quotientEvals` is the value of `Num/(X^n − 1)` at the stored point;
                                 `quotient_in_prove`: the arrays that `prove` builds do store these
                                 values on the coset `g·⟨ω₈⟩` (index `i+8` wraps: cyclic next row).
   5. `grand_product`            on the model's `permVec`.
   6. `prover_exact_algebra` (+ `prover_exact_rows`, `prover_exact_interpolating`)
                                 `X^n − 1` divides the numerator for all challenges of a grid
                                 ⇔ every row identity holds on every row of the padded table (cyclic
                                 next rows) ∧ `∏ num = ∏ den`.

  Not in this file (other agents / glue):
   * `∏ num = ∏ den` for random `β, γ` ⇔ the values respect the compiled copy classes.
   * `quotient_len_rule` (documentation only, below): the code's detection rule `len > 7n`.
   * unfolding `prove` itself (transcript, commitments, rounds 4–5) and tying its local arrays to the
     ones of `quotient_in_prove` (they are syntactically the same expressions).

  Forced hypotheses (findings):
   * `Quot.SelReduced g` (`g.qrange, g.qlogic, g.qfixed, g.qvar < R`): the model's `rowHolds` tests
     the raw `Nat` selector against `0`, the quotient uses its residue; for a non-canonical selector
     (e.g. `R`) the two differ.  Rust `BlsScalar`s are always canonical, so this is a property of
     the model's representation, not a defect of the code.
   * "for all challenges outside an explicit finite bad set" is stated in grid form: vanishing on
     any grid `S_α × S_ρ × S_λ × S_φ × S_ν` with `|S_α| ≥ 2` and more than `7 / 9 / 7 / 5` separation
     challenges per axis (the degrees of the four weighted sums) suffices; `gate_sum_bad_set` gives
     the per-axis bound on the exceptional challenges of a failing row.
   * `blind_agrees_on_domain` needs no bound on the number of blinders (only `0 < n`, which
     `Domain.new?` guarantees).
-/
import Plonk.Proofs.QuotientExamples
import Plonk.Proofs.QuotientCoset

namespace Plonk.Props.C05
open Plonk Plonk.Quot Polynomial

theorem placeholder_consts : Generated.CIRCUIT_SIZE_PADDING = 6 ∧ Generated.ADDED_BLINDING_DEGREE = 6 := by decide

/-! ### 1. blinding -/

/-- **Blinding is invisible on the domain.** For a domain `d` of `Domain.new?` (size `n`, generator
    `ω` a primitive `n`-th root of unity) and any list of blinders `b₀ b₁ …`:
    `blindPoly d w bs = interp + (Σ_i b_i X^i)·(X^n − 1)` with `interp` the interpolant
    `ofCoeffs (ifft w)`; hence, for a table column `w` of length `n`, the blinded polynomial takes
    the value `w[i]` at `ω^i` for every `i < n`. -/
theorem blind_agrees_on_domain (m : Nat) (d : Domain) (hd : Domain.new? m = some d)
    (w bs : List Nat) :
    0 < d.size ∧ IsPrimitiveRoot (toF d.groupGen) d.size ∧
    toPoly (blindPoly d w bs) =
      toPoly (Poly.ofCoeffs (d.ifft w)) + toPoly bs * (X ^ d.size - 1) ∧
    (w.length = d.size → ∀ i < d.size,
      (toPoly (blindPoly d w bs)).eval (toF d.groupGen ^ i) = toF (w.getD i 0)) := by
  have h := Domain.new?_WF m d hd
  exact ⟨h.size_pos, h.prim, by rw [toPoly_ofCoeffs]; exact toPoly_blindPoly h w bs,
    fun hw i hi => eval_blindPoly h w bs hw i hi⟩

/-- non-vacuity: a domain of size 2, a column of two values, three blinders -/
example : ∃ d, Domain.new? 2 = some d ∧ ([3, 5] : List Nat).length = d.size ∧
    ([7, 11, 13] : List Nat).length = 3 := by
  obtain ⟨d, hd, hs⟩ := exists_domain_two
  exact ⟨d, hd, by rw [hs]; rfl, rfl⟩

/-! ### 2. divisibility by the vanishing polynomial -/

/-- `X^n − 1` divides `N` iff `N` vanishes on the whole subgroup `{ω^i | i < n}` -/
theorem divisible_iff_vanishes {ω : F} {n : ℕ} (hn : 0 < n) (hω : IsPrimitiveRoot ω n) (N : F[X]) :
    (X ^ n - 1 : F[X]) ∣ N ↔ ∀ i < n, N.eval (ω ^ i) = 0 :=
  Quot.divisible_iff_vanishes hn hω N

example : ∃ (ω : F) (n : ℕ), 0 < n ∧ IsPrimitiveRoot ω n ∧ (X ^ n - 1 : F[X]) ∣ (X ^ n - 1) * X := by
  obtain ⟨d, hd, hs⟩ := exists_domain_two
  exact ⟨toF d.groupGen, d.size, (Domain.new?_WF 2 d hd).size_pos, (Domain.new?_WF 2 d hd).prim,
    dvd_mul_right _ _⟩

/-! ### 3. from the weighted sums to the components -/

/-- **Bridge from the challenge-weighted sum to the individual identities.** If
    `sep·(c₀ + c₁ sep² + … + c_k sep^{2k})` (`wsum cs sep`) vanishes for more than `2k+1` distinct
    values of `sep`, every `cⱼ` is zero; conversely, if every component vanishes, the sum vanishes
    for every `sep`. -/
theorem components_of_weighted_sum (cs : List F) (S : Finset F) (hS : 2 * cs.length - 1 < S.card) :
    ((∀ s ∈ S, wsum cs s = 0) → ∀ c ∈ cs, c = 0) ∧
    ((∀ c ∈ cs, c = 0) → ∀ s : F, wsum cs s = 0) :=
  ⟨Quot.components_of_weighted_sum cs S (by omega), fun h s => wsum_of_all_zero cs h s⟩

example : 2 * ([1, 2, 3, 4] : List F).length - 1 < (Finset.univ : Finset F).card := by
  rw [card_univ_F]; have := ten_lt_R; simp; omega

/-- the model's `rangeScalar` is the weighted sum of the four `rangeComps`, with the code's weights:
    it vanishes for all `sep` of a set of more than 7 field elements iff every component is `0` -/
theorem range_scalar_zero_iff (e : Evals) (S : Finset F) (hS : 7 < S.card) :
    (∀ sep : Nat, toF sep ∈ S → rangeScalar sep e = 0) ↔
      allZero (rangeComps e.a e.b e.c e.d e.dw) = true :=
  scalar_zero_iff (fun sep => rangeScalar sep e) (fun _ => fmul_lt _ _) _
    (rangeComps_lt e.a e.b e.c e.d e.dw)
    (fun sep => by rw [toF_rangeScalar, map_toF_rangeComps e.a e.b e.c e.d e.aw e.bw e.dw]) S
    (by simp [rangeComps]; omega)

/-- the same for `logicScalar` and the five `logicComps` (more than 9 challenges) -/
theorem logic_scalar_zero_iff (e : Evals) (S : Finset F) (hS : 9 < S.card) :
    (∀ sep : Nat, toF sep ∈ S → logicScalar sep e = 0) ↔
      allZero (logicComps e.qc e.a e.aw e.b e.bw e.c e.d e.dw) = true :=
  scalar_zero_iff (fun sep => logicScalar sep e) (fun _ => fmul_lt _ _) _
    (logicComps_lt e.qc e.a e.aw e.b e.bw e.c e.d e.dw)
    (fun sep => by rw [toF_logicScalar, map_toF_logicComps]) S (by simp [logicComps]; omega)

/-- the same for `fixedScalar` and the four `fixedComps` (more than 7 challenges) -/
theorem fixed_scalar_zero_iff (e : Evals) (S : Finset F) (hS : 7 < S.card) :
    (∀ sep : Nat, toF sep ∈ S → fixedScalar sep e = 0) ↔
      allZero (fixedComps e.ql e.qr e.qc e.a e.aw e.b e.bw e.c e.d e.dw) = true :=
  scalar_zero_iff (fun sep => fixedScalar sep e) (fun _ => fmul_lt _ _) _
    (fixedComps_lt e.ql e.qr e.qc e.a e.aw e.b e.bw e.c e.d e.dw)
    (fun sep => by rw [toF_fixedScalar, map_toF_fixedComps]) S (by simp [fixedComps]; omega)

/-- the same for `varScalar` and the three `varComps` (more than 5 challenges) -/
theorem var_scalar_zero_iff (e : Evals) (S : Finset F) (hS : 5 < S.card) :
    (∀ sep : Nat, toF sep ∈ S → varScalar sep e = 0) ↔
      allZero (varComps e.a e.aw e.b e.bw e.c e.d e.dw) = true :=
  scalar_zero_iff (fun sep => varScalar sep e) (fun _ => fmul_lt _ _) _
    (varComps_lt e.a e.aw e.b e.bw e.c e.d e.dw)
    (fun sep => by rw [toF_varScalar, map_toF_varComps]) S (by simp [varComps]; omega)

example : 9 < (Finset.univ : Finset F).card := by rw [card_univ_F]; have := ten_lt_R; omega

/-- **The weighted row expression and the model's row check.** For a gate with canonical widget
    selectors and a grid of separation challenges with more than `7 / 9 / 7 / 5` values per axis, the
    full row expression
    `arith + q_range·rangeScalar(ρ) + q_logic·logicScalar(λ) + q_fixed·fixedScalar(φ) + q_var·varScalar(ν) + PI`
    (`gateSumR`) vanishes on the whole grid iff `Plonk.rowHolds` is `true` — and then it vanishes for
    every choice of the challenges. -/
theorem gate_sum_zero_iff (g : Gate) (hg : SelReduced g) (a b c d an bn dn pi : Nat)
    (Sr Sl Sf Sv : Finset F) (hr : 7 < Sr.card) (hl : 9 < Sl.card) (hf : 7 < Sf.card)
    (hv : 5 < Sv.card) :
    ((∀ ρ ∈ Sr, ∀ l ∈ Sl, ∀ φ ∈ Sf, ∀ ν ∈ Sv,
      gateSumR (Quot.selF g) (wiresF a b c d an bn dn) (toF pi) ⟨ρ, l, φ, ν⟩ = 0) ↔
      rowHolds g a b c d an bn dn pi = true) ∧
    (rowHolds g a b c d an bn dn pi = true →
      ∀ s : Seps F, gateSumR (Quot.selF g) (wiresF a b c d an bn dn) (toF pi) s = 0) :=
  ⟨Quot.gate_sum_zero_iff g hg a b c d an bn dn pi Sr Sl Sf Sv hr hl hf hv,
   fun h s => gate_sum_zero_of_rowHolds g hg a b c d an bn dn pi h s⟩

/-- non-vacuity: an arithmetic + range row that holds (`1 + 2 − 3 = 0`, quads `0`), full grids -/
example : SelReduced { ql := 1, qr := 1, qo := R - 1, qarith := 1, qrange := 1 } ∧
    9 < (Finset.univ : Finset F).card ∧
    rowHolds { ql := 1, qr := 1, qo := R - 1, qarith := 1, qrange := 1 } 0 0 0 0 0 0 0 0 = true ∧
    rowHolds { ql := 1, qr := 1, qo := R - 1, qarith := 1 } 1 2 3 0 0 0 0 0 = true := by
  refine ⟨⟨?_, ?_, ?_, ?_⟩, ?_, ?_, ?_⟩
  · exact R_gt_one
  · exact R_pos
  · exact R_pos
  · exact R_pos
  · rw [card_univ_F]; have := ten_lt_R; omega
  · decide +kernel
  · decide +kernel

/-- **The explicit bad set of a failing row.** If `rowHolds` is `false`, the weighted row expression
    is either non-zero for every choice of the challenges, or there is one separation challenge
    (that of a failing widget) such that, whatever the other three, at most `7 / 9 / 7 / 5` values of
    it make the expression vanish. -/
theorem gate_sum_bad_set (g : Gate) (hg : SelReduced g) (a b c d an bn dn pi : Nat)
    (h : rowHolds g a b c d an bn dn pi = false) :
    let E := fun s : Seps F => gateSumR (Quot.selF g) (wiresF a b c d an bn dn) (toF pi) s
    (∀ s, E s ≠ 0) ∨
    (∀ l φ ν, ∀ S : Finset F, (∀ ρ ∈ S, E ⟨ρ, l, φ, ν⟩ = 0) → S.card ≤ 7) ∨
    (∀ ρ φ ν, ∀ S : Finset F, (∀ l ∈ S, E ⟨ρ, l, φ, ν⟩ = 0) → S.card ≤ 9) ∨
    (∀ ρ l ν, ∀ S : Finset F, (∀ φ ∈ S, E ⟨ρ, l, φ, ν⟩ = 0) → S.card ≤ 7) ∨
    (∀ ρ l φ, ∀ S : Finset F, (∀ ν ∈ S, E ⟨ρ, l, φ, ν⟩ = 0) → S.card ≤ 5) :=
  Quot.gate_sum_bad_set g hg a b c d an bn dn pi h

/-- non-vacuity: a range row whose first quad is out of range (`c − 4d = −4`) -/
example : SelReduced { qrange := 1 } ∧
    rowHolds { qrange := 1 } 0 0 0 1 0 0 0 0 = false := by
  refine ⟨⟨R_gt_one, R_pos, R_pos, R_pos⟩, ?_⟩
  decide +kernel

/-! ### 4. the numerator at a domain point -/

/-- **The numerator polynomial at `ω^i`.** For arbitrary polynomials `P` (selectors, wires, public
    inputs, sigmas, accumulator) the numerator polynomial
    `Num = gate(A,B,C,D,A(ωX),B(ωX),D(ωX),Q,PI) + α·(perm identity) + α²·L₁·(Z − 1)` (`NumP`) takes at
    `ω^i`, `i < n`, the value `N_i` (`numR`) computed from the values of the polynomials at row `i`
    and of the wires and the accumulator at row `(i+1) mod n` — the next row is read cyclically over
    the domain — with `L₁(ω^i) = [i = 0]`. -/
theorem numerator_at_root {ω : F} {n : ℕ} (hn : 0 < n) (hω : IsPrimitiveRoot ω n)
    (P : ProverPolys F) (ch : Chal F) (s : Seps F) {i : ℕ} (hi : i < n) :
    (NumP ω n P ch s).eval (ω ^ i) =
      numR (P.Q.map (eval (ω ^ i)))
        ⟨P.a.eval (ω ^ i), P.b.eval (ω ^ i), P.c.eval (ω ^ i), P.d.eval (ω ^ i),
          P.a.eval (ω ^ ((i + 1) % n)), P.b.eval (ω ^ ((i + 1) % n)),
          P.d.eval (ω ^ ((i + 1) % n))⟩ (P.pi.eval (ω ^ i))
        ⟨ω ^ i, P.s1.eval (ω ^ i), P.s2.eval (ω ^ i), P.s3.eval (ω ^ i), P.s4.eval (ω ^ i),
          P.z.eval (ω ^ i), P.z.eval (ω ^ ((i + 1) % n)), if i = 0 then 1 else 0⟩ ch s :=
  numerator_at_root_poly hω (natCast_ne_zero_of_prim hn hω) P ch s hi

example : ∃ (ω : F) (n i : ℕ), 0 < n ∧ IsPrimitiveRoot ω n ∧ i < n ∧ (i + 1) % n = 0 := by
  obtain ⟨d, hd, hs⟩ := exists_domain_two
  exact ⟨toF d.groupGen, d.size, 1, (Domain.new?_WF 2 d hd).size_pos, (Domain.new?_WF 2 d hd).prim,
    by omega, by rw [hs]⟩

/-- the same on the model's table: for polynomials interpolating the table (`Interpolates`), the
    numerator polynomial takes at `ω^i` the value `rowNum … i` built from rows `i` and `(i+1) mod n` of
    the wire columns, the gate rows, the dense public inputs, the sigma values and the accumulator -/
theorem numerator_on_table {ω : F} {n : ℕ} (hn : 0 < n) (hω : IsPrimitiveRoot ω n)
    {P : ProverPolys F} {G : Nat → Gate} {roots aS bS cS dS piS : List Nat} {sigE : List (List Nat)}
    {z : List Nat} (I : Interpolates ω n P G roots aS bS cS dS piS sigE z) (ch : Chal F) (s : Seps F)
    {i : ℕ} (hi : i < n) :
    (NumP ω n P ch s).eval (ω ^ i) = rowNum n G roots aS bS cS dS piS sigE z ch s i :=
  NumP_eval_root hn hω I ch s hi

/-- the polynomials the specification prover builds (`ifft` selector / sigma / public-input columns,
    `blindPoly` wires and accumulator with any blinders) interpolate the table -/
theorem model_polys_interpolate (m : Nat) (d : Domain) (hd : Domain.new? m = some d) (G : Nat → Gate)
    (aS bS cS dS piS : List Nat) (sigE : List (List Nat)) (z ba bb bc bd bz : List Nat)
    (ha : aS.length = d.size) (hb : bS.length = d.size) (hc : cS.length = d.size)
    (hdd : dS.length = d.size) (hpi : piS.length = d.size) (hzl : z.length = d.size)
    (hs : ∀ j < 4, (sigE.getD j []).length = d.size) :
    Interpolates (toF d.groupGen) d.size (modelPolys d G aS bS cS dS piS sigE z ba bb bc bd bz) G
      d.elements aS bS cS dS piS sigE z :=
  modelPolys_interpolates (Domain.new?_WF m d hd) G d.elements aS bS cS dS piS sigE z ba bb bc bd bz
    (elements_roots d) ha hb hc hdd hpi hzl hs

example : ∃ d, Domain.new? 2 = some d ∧ ([1, 2] : List Nat).length = d.size ∧
    ∀ j < 4, ((exSig d).getD j []).length = d.size := by
  obtain ⟨d, hd, hs⟩ := exists_domain_two
  exact ⟨d, hd, by rw [hs]; rfl, exSig_length d⟩

/-- **The coset quotient.** If the arrays handed to the model's `quotientEvals` store at index `i`
    (and `i + 8` for the shifted reads) the values of the prover's polynomials at a point `x` with
    `xⁿ ≠ 1` and at `ωx` (`StoresAt`), entry `i` is the value at `x` of `Num / (Xⁿ − 1)`; if
    `Num = (Xⁿ − 1)·T` it is `T(x)`. -/
theorem quotient_entry_is_coset_eval {ω x : F} {n : Nat} (hx : x ^ n ≠ 1) (P : ProverPolys F)
    (size8 : Nat) (selE sigE8 : Array (Array Nat))
    (linE aE bE cE dE zE piE vh vhInv8 l1Den : Array Nat)
    (nInv8 beta gamma alpha rSep lSep fSep vSep : Nat) (i : Nat) (hi : i < size8)
    (St : StoresAt ω x n P selE sigE8 linE aE bE cE dE zE piE vh vhInv8 l1Den nInv8 i) :
    toF ((quotientEvals size8 selE sigE8 linE aE bE cE dE zE piE vh vhInv8 l1Den nInv8 beta gamma
        alpha rSep lSep fSep vSep).getD i 0) =
      (NumP ω n P ⟨toF beta, toF gamma, toF alpha⟩ ⟨toF rSep, toF lSep, toF fSep, toF vSep⟩).eval x *
        (x ^ n - 1)⁻¹ ∧
    ∀ T : F[X],
      NumP ω n P ⟨toF beta, toF gamma, toF alpha⟩ ⟨toF rSep, toF lSep, toF fSep, toF vSep⟩ =
        (X ^ n - 1) * T →
      toF ((quotientEvals size8 selE sigE8 linE aE bE cE dE zE piE vh vhInv8 l1Den nInv8 beta gamma
        alpha rSep lSep fSep vSep).getD i 0) = T.eval x :=
  ⟨quotient_entry_coset hx P size8 _ _ _ _ _ _ _ _ _ _ _ _ _ _ _ _ _ _ _ _ i hi St,
   fun T hT => quotient_entry_coset_of_dvd hx P size8 _ _ _ _ _ _ _ _ _ _ _ _ _ _ _ _ _ _ _ _ i hi St
     T hT⟩

/-- non-vacuity: arrays storing the values of `exP` at `x = 2` (and at `ωx`, eight places further) -/
example : ((2 : F) ^ 2 ≠ 1) ∧ (0 < 1) ∧
    StoresAt (-1) (2 : F) 2 exP #[] #[] #[2] #[4, 0, 0, 0, 0, 0, 0, 0, 4] #[] #[] #[]
      #[1, 0, 0, 0, 0, 0, 0, 0, 1] #[] #[3] #[finv 3] #[1] (finv 2) 0 := by
  have h3 := three_ne_zero_F
  refine ⟨?_, by omega, ?_⟩
  · intro h
    apply h3
    have : (3 : F) = 2 ^ 2 - 1 := by norm_num
    rw [this, h, sub_self]
  · constructor <;> simp [selAt, Sel.map, exP, toF_finv] <;> norm_num

/-- **The quotient evaluations inside `prove`.** For the two domains of `prove` (`d` of size `n`, `d8`
    of size `8n`) and arbitrary coefficient lists for the selector / sigma / wire / accumulator /
    public-input polynomials, entry `i < 8n` of `quotientEvals` called on the arrays that `compile`
    and `prove` build (`cosetFft` of the key polynomials, `cosetEvals` with 8 wrap-around entries,
    `cosetFft [0,1]`, `vanishingOverCoset`, the two batch inversions, `nInv8 = sizeInv₈·8`) is
    `Num(x_i) / (x_iⁿ − 1)` at the coset point `x_i = g·ω₈^i`, which is never a root of `Xⁿ − 1`; the
    shifted reads at `i + 8` are the values at `ω·x_i`, `ω = ω₈⁸` the generator of `d`. -/
theorem quotient_in_prove (m : Nat) (d d8 : Domain) (hd : Domain.new? m = some d)
    (hd8 : Domain.new? (8 * d.size) = some d8) (sel sigma : Array Poly) (aP bP cP dP zP piP : Poly)
    (vh linE : Array Nat) (hvh : vh = (d8.vanishingOverCoset d.size).toArray)
    (hlin : linE = (d8.cosetFft [0, 1]).toArray)
    (beta gamma alpha rSep lSep fSep vSep : Nat) (i : Nat) (hi : i < d8.size) :
    d8.size = 8 * d.size ∧ toF d8.groupGen ^ 8 = toF d.groupGen ∧
    (toF GENERATOR * toF d8.groupGen ^ i) ^ d.size ≠ 1 ∧
    toF ((quotientEvals d8.size (sel.map fun p => (d8.cosetFft p).toArray)
        (sigma.map fun p => (d8.cosetFft p).toArray) linE (cosetEvals d8 aP) (cosetEvals d8 bP)
        (cosetEvals d8 cP) (cosetEvals d8 dP) (cosetEvals d8 zP) (d8.cosetFft piP).toArray vh
        (batchInversion ((vh.toList).take 8)).toArray
        (batchInversion (linE.toList.map fun e => fsub e 1)).toArray (fmul d8.sizeInv 8)
        beta gamma alpha rSep lSep fSep vSep).getD i 0) =
      (NumP (toF d.groupGen) d.size (polysOf sel sigma aP bP cP dP zP piP)
          ⟨toF beta, toF gamma, toF alpha⟩ ⟨toF rSep, toF lSep, toF fSep, toF vSep⟩).eval
        (toF GENERATOR * toF d8.groupGen ^ i) *
        ((toF GENERATOR * toF d8.groupGen ^ i) ^ d.size - 1)⁻¹ :=
  ⟨(gen8_pow_eight m d d8 hd hd8).1, (gen8_pow_eight m d d8 hd hd8).2,
   coset_pow_ne_one m d d8 hd hd8 i,
   quotient_entry_prove m d d8 hd hd8 sel sigma aP bP cP dP zP piP vh linE hvh hlin beta gamma alpha
     rSep lSep fSep vSep i hi⟩

/-- non-vacuity: the two domains exist for `n = 2` -/
example : ∃ d d8, Domain.new? 2 = some d ∧ Domain.new? (8 * d.size) = some d8 ∧ 3 < d8.size := by
  obtain ⟨d, hd, hs⟩ := exists_domain_two
  have h : (Domain.new? 16).isSome = true := by decide +kernel
  obtain ⟨d8, hd8⟩ := Option.isSome_iff_exists.mp h
  have h16 : Domain.new? (8 * d.size) = some d8 := by rw [hs]; exact hd8
  exact ⟨d, d8, hd, h16, by rw [(gen8_pow_eight 2 d d8 hd h16).1, hs]; omega⟩

/-! ### 5. the grand product -/

/-- **Grand product on the model's `permVec`.** When `permVec` returns `some z` (it returns `none`
    exactly when a denominator vanishes — the Rust code asserts): `z` has `n` entries, `z₀ = 1`, no
    denominator is zero, the permutation step `num_i·z_i − den_i·z_{i+1}` vanishes on every row
    `i < n − 1`, and the wrap-around step of row `n − 1` (next row `0`) vanishes iff
    `∏ num_i = ∏ den_i`. -/
theorem grand_product (n : Nat) (hn : 0 < n) (roots aS bS cS dS : List Nat)
    (sigE : List (List Nat)) (beta gamma : Nat) (z : List Nat)
    (h : permVec n roots aS bS cS dS sigE beta gamma = some z) :
    z.length = n ∧ toF (z.getD 0 0) = 1 ∧
    (∀ i < n, denF aS bS cS dS sigE beta gamma i ≠ 0) ∧
    (∀ i, i + 1 < n → permStepAt n roots aS bS cS dS sigE beta gamma z i = 0) ∧
    (permStepAt n roots aS bS cS dS sigE beta gamma z (n - 1) = 0 ↔
      ∏ i ∈ Finset.range n, numF roots aS bS cS dS beta gamma i =
        ∏ i ∈ Finset.range n, denF aS bS cS dS sigE beta gamma i) :=
  permVec_grand_product n hn roots aS bS cS dS sigE beta gamma z h

example : ∃ (n : Nat) (roots sig : _) (z : List Nat), 0 < n ∧
    permVec n roots [1, 2] [2, 3] [3, 5] [0, 0] sig 5 9 = some z := by
  obtain ⟨d, z, _, hs, hz⟩ := ex_permVec
  exact ⟨d.size, d.elements, exSig d, z, by omega, hz⟩

/-! ### 6. exactness -/

/-- **Exactness on row values.** With the accumulator of the model's `permVec`: all numerator
    values `N_i = gateSum_i(ρ,λ,φ,ν) + α·permStep_i + α²·L₁(ω^i)·(z_i − 1)` (`rowNum`, rows `i` and
    `(i+1) mod n`) vanish for every `α` of a set with at least two elements and every separation
    challenge of a grid with more than `7 / 9 / 7 / 5` values per axis iff every row identity of the
    model holds (`rowOK`: `Plonk.rowHolds` with the next row `(i+1) mod n`) and `∏ num = ∏ den`. -/
theorem prover_exact_rows (n : Nat) (hn : 0 < n) (G : Nat → Gate) (hG : ∀ i < n, SelReduced (G i))
    (roots aS bS cS dS piS : List Nat) (sigE : List (List Nat)) (beta gamma : Nat) (z : List Nat)
    (hz : permVec n roots aS bS cS dS sigE beta gamma = some z)
    (Sα Sr Sl Sf Sv : Finset F) (hα : 1 < Sα.card) (hr : 7 < Sr.card) (hl : 9 < Sl.card)
    (hf : 7 < Sf.card) (hv : 5 < Sv.card) :
    (∀ α ∈ Sα, ∀ ρ ∈ Sr, ∀ l ∈ Sl, ∀ φ ∈ Sf, ∀ ν ∈ Sv, ∀ i < n,
      rowNum n G roots aS bS cS dS piS sigE z ⟨toF beta, toF gamma, α⟩ ⟨ρ, l, φ, ν⟩ i = 0) ↔
    (∀ i < n, rowOK n G aS bS cS dS piS i) ∧
      ∏ i ∈ Finset.range n, numF roots aS bS cS dS beta gamma i =
        ∏ i ∈ Finset.range n, denF aS bS cS dS sigE beta gamma i :=
  prover_exact_model n hn G hG roots aS bS cS dS piS sigE beta gamma z hz Sα Sr Sl Sf Sv hα hr hl hf hv

/-- **Exactness for interpolating polynomials**: the same with "`X^n − 1` divides the numerator
    polynomial" on the left. -/
theorem prover_exact_interpolating {ω : F} {n : ℕ} (hn : 0 < n) (hω : IsPrimitiveRoot ω n)
    (P : ProverPolys F) (G : Nat → Gate) (hG : ∀ i < n, SelReduced (G i))
    (roots aS bS cS dS piS : List Nat) (sigE : List (List Nat)) (beta gamma : Nat) (z : List Nat)
    (hz : permVec n roots aS bS cS dS sigE beta gamma = some z)
    (I : Interpolates ω n P G roots aS bS cS dS piS sigE z)
    (Sα Sr Sl Sf Sv : Finset F) (hα : 1 < Sα.card) (hr : 7 < Sr.card) (hl : 9 < Sl.card)
    (hf : 7 < Sf.card) (hv : 5 < Sv.card) :
    (∀ α ∈ Sα, ∀ ρ ∈ Sr, ∀ l ∈ Sl, ∀ φ ∈ Sf, ∀ ν ∈ Sv,
      (X ^ n - 1 : F[X]) ∣ NumP ω n P ⟨toF beta, toF gamma, α⟩ ⟨ρ, l, φ, ν⟩) ↔
    (∀ i < n, rowOK n G aS bS cS dS piS i) ∧
      ∏ i ∈ Finset.range n, numF roots aS bS cS dS beta gamma i =
        ∏ i ∈ Finset.range n, denF aS bS cS dS sigE beta gamma i :=
  prover_exact_poly hn hω P G hG roots aS bS cS dS piS sigE beta gamma z hz I Sα Sr Sl Sf Sv hα hr hl
    hf hv

/-- **Prover exactness, algebraic half.** For a domain of `Domain.new?` (size `n`), a padded table of
    `n` rows (gate rows `G`, wire columns, dense public inputs, sigma values), the accumulator `z` of
    the model's `permVec` over `d.elements`, and the polynomials the specification prover builds from
    them (`ifft` columns; wires and accumulator blinded by `blindPoly` with *any* blinders):
    the vanishing polynomial `X^n − 1` divides the quotient numerator
    `gate + α·perm + α²·L₁·(Z − 1)` for every `α` of a set with at least two elements and every
    `(ρ, λ, φ, ν)` of a grid with more than `7 / 9 / 7 / 5` values per axis
    **iff** every row identity of the model (`Plonk.rowHolds`: arithmetic with public input, range,
    logic, fixed-base, variable-base) holds on every row of the padded table with the next-row wires
    read cyclically **and** the grand products of the permutation argument agree. -/
theorem prover_exact_algebra (m : Nat) (d : Domain) (hd : Domain.new? m = some d)
    (G : Nat → Gate) (hG : ∀ i < d.size, SelReduced (G i))
    (aS bS cS dS piS : List Nat) (sigE : List (List Nat)) (beta gamma : Nat) (z : List Nat)
    (ba bb bc bd bz : List Nat)
    (ha : aS.length = d.size) (hb : bS.length = d.size) (hc : cS.length = d.size)
    (hdd : dS.length = d.size) (hpi : piS.length = d.size)
    (hs : ∀ j < 4, (sigE.getD j []).length = d.size)
    (hz : permVec d.size d.elements aS bS cS dS sigE beta gamma = some z)
    (Sα Sr Sl Sf Sv : Finset F) (hα : 1 < Sα.card) (hr : 7 < Sr.card) (hl : 9 < Sl.card)
    (hf : 7 < Sf.card) (hv : 5 < Sv.card) :
    (∀ α ∈ Sα, ∀ ρ ∈ Sr, ∀ l ∈ Sl, ∀ φ ∈ Sf, ∀ ν ∈ Sv,
      (X ^ d.size - 1 : F[X]) ∣
        NumP (toF d.groupGen) d.size (modelPolys d G aS bS cS dS piS sigE z ba bb bc bd bz)
          ⟨toF beta, toF gamma, α⟩ ⟨ρ, l, φ, ν⟩) ↔
    (∀ i < d.size, rowOK d.size G aS bS cS dS piS i) ∧
      ∏ i ∈ Finset.range d.size, numF d.elements aS bS cS dS beta gamma i =
        ∏ i ∈ Finset.range d.size, denF aS bS cS dS sigE beta gamma i :=
  prover_exact_modelPolys m d hd G hG aS bS cS dS piS sigE beta gamma z ba bb bc bd bz ha hb hc hdd hpi
    hs hz Sα Sr Sl Sf Sv hα hr hl hf hv

/-- non-vacuity: the two-row instance `1 + 2 = 3`, `2 + 3 = 5` over the domain of size 2 with the
    identity permutation satisfies every hypothesis (with the full field as challenge sets), and its
    rows hold -/
example : ∃ (d : Domain) (z : List Nat), Domain.new? 2 = some d ∧
    (∀ i < d.size, SelReduced (exG i)) ∧
    ([1, 2] : List Nat).length = d.size ∧ ([2, 3] : List Nat).length = d.size ∧
    ([3, 5] : List Nat).length = d.size ∧ ([0, 0] : List Nat).length = d.size ∧
    (∀ j < 4, ((exSig d).getD j []).length = d.size) ∧
    permVec d.size d.elements [1, 2] [2, 3] [3, 5] [0, 0] (exSig d) 5 9 = some z ∧
    1 < (Finset.univ : Finset F).card ∧ 9 < (Finset.univ : Finset F).card ∧
    (∀ i < d.size, rowOK d.size exG [1, 2] [2, 3] [3, 5] [0, 0] [0, 0] i) := by
  obtain ⟨d, z, hd, hs, hz⟩ := ex_permVec
  have hc : 10 < (Finset.univ : Finset F).card := by rw [card_univ_F]; exact ten_lt_R
  refine ⟨d, z, hd, fun _ _ => ⟨R_pos, R_pos, R_pos, R_pos⟩, by rw [hs]; rfl, by rw [hs]; rfl,
    by rw [hs]; rfl, by rw [hs]; rfl, exSig_length d, hz, by omega, by omega, ?_⟩
  rw [hs]
  intro i hi
  unfold rowOK exG
  interval_cases i <;> decide +kernel

/-! ### `quotient_len_rule` (documentation only — handled by another agent)

  The code's detection rule: with `quot` the coset values of `Num·Z_H⁻¹` (`quotientEvals`, item 4) and
  `tPoly := ofCoeffs (cosetIfft quot)` the interpolant on the coset of size `8n`, `prove` returns
  `circuitUnsatisfied` iff `tPoly.length > 7n`.  Intended meaning: `len > 7n ⇔ Num mod (X^n − 1) ≠ 0`,
  i.e. (items 2 and 6) iff some row identity fails or the grand products differ.  Not stated as a
  theorem in this file. -/

end Plonk.Props.C05
