import Plonk.Model.System
namespace Plonk.Props.C05
open Plonk
theorem placeholder_consts : Generated.CIRCUIT_SIZE_PADDING = 6 ∧ Generated.ADDED_BLINDING_DEGREE = 6 := by decide
end Plonk.Props.C05
