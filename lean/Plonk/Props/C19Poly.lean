/-
  C19 (polynomial half): the coefficient-list arithmetic of `src/fft/polynomial.rs`
  (model: `Plonk/Model/Poly.lean`) agrees with schoolbook arithmetic in `(ZMod R)[X]`.

  Interpretation: `toPoly p = Σ_i C (toF p[i]) * X^i` (Mathlib `Polynomial`, `F = ZMod R`).
  `Reduced p`: every coefficient `< R`;  `Trimmed p`: empty or last coefficient `≠ 0`.

  All refinement statements hold for *arbitrary* coefficient lists (trimmed or not, reduced or
  not), i.e. the `degree a ≥ degree b` branches with `zip` are harmless.

  Finding recorded here (statement not weakened, the exceptional case is excluded by an explicit
  hypothesis and exhibited by `addConst_untrimmed_witness`): `&p + &k` (`addConst`) does not
  truncate, so a constant polynomial `[c]` plus `k = −c` yields the untrimmed list `[0]`
  (which `is_zero()` still recognises as zero, and `degree()` reports as 0).
-/
import Plonk.Proofs.PolyBridge

namespace Plonk.Props.C19Poly
open Plonk Polynomial

/-! ## 1. interpretation -/

/-- `toPoly p = Σ_i C (toF p[i]) · X^i` -/
theorem toPoly_sum (p : List Nat) :
    toPoly p = ∑ i ∈ Finset.range p.length, C (toF (p.getD i 0)) * X ^ i := toPoly_eq_sum p
example : toPoly [3, 0, 5] = C (toF 3) + X * (C (toF 0) + X * (C (toF 5) + X * 0)) := rfl

theorem toPoly_cons (x : Nat) (xs : List Nat) : toPoly (x :: xs) = C (toF x) + X * toPoly xs := rfl

theorem toPoly_coeff (p : List Nat) (i : Nat) : (toPoly p).coeff i = toF (p.getD i 0) :=
  coeff_toPoly p i

/-- `truncate_leading_zeros` does not change the polynomial and yields a trimmed list -/
theorem trim_spec (p : List Nat) : toPoly (Poly.trim p) = toPoly p ∧ Trimmed (Poly.trim p) :=
  ⟨toPoly_trim p, Poly.trimmed_trim p⟩
example : Poly.trim [1, 0, 2, 0, 0] = [1, 0, 2] := by decide

/-- `from_coefficients_vec`: same polynomial, canonical (reduced and trimmed) representation -/
theorem ofCoeffs_spec (p : List Nat) :
    toPoly (Poly.ofCoeffs p) = toPoly p ∧ Reduced (Poly.ofCoeffs p) ∧ Trimmed (Poly.ofCoeffs p) :=
  ⟨toPoly_ofCoeffs p, reduced_ofCoeffs p, trimmed_ofCoeffs p⟩
example : Poly.ofCoeffs [1, R + 2, R, 0] = [1, 2] := by decide +kernel

/-- `is_zero()` decides `toPoly p = 0` (reduced coefficients, as `BlsScalar`s always are) -/
theorem isZero_spec {p : List Nat} (hp : Reduced p) : toPoly p = 0 ↔ Poly.isZero p = true :=
  toPoly_eq_zero_iff hp
example : Reduced [0, 0, 4] := by intro x hx; simp at hx; rcases hx with rfl | rfl <;> decide +kernel

/-- `degree()` is the `natDegree` of the polynomial (and 0 for the zero polynomial) -/
theorem degree_spec {p : List Nat} (hp : Reduced p) : Poly.degree p = (toPoly p).natDegree :=
  degree_eq_natDegree hp
example : Poly.degree [1, 0, 2, 0, 0] = 2 := by decide

/-- reduced, trimmed lists are unique representatives of their polynomial -/
theorem canonical_unique {p q : List Nat} (hp : Reduced p) (hq : Reduced q)
    (tp : Trimmed p) (tq : Trimmed q) (h : toPoly p = toPoly q) : p = q :=
  toPoly_injective hp hq tp tq h
example : Reduced [1, 2] ∧ Trimmed [1, 2] :=
  ⟨by intro x hx; simp at hx; rcases hx with rfl | rfl <;> decide +kernel, by intro _; simp⟩

/-! ## 2. ring operations (for ALL lists) -/

/-- `&a + &b` -/
theorem add_spec (a b : List Nat) :
    toPoly (Poly.add a b) = toPoly a + toPoly b ∧ Trimmed (Poly.add a b) :=
  ⟨toPoly_add a b, trimmed_add a b⟩
-- untrimmed operand whose list is longer although its degree is smaller
example : Poly.add [1, 2, 3] [5, 0, 0, 0, 0] = [6, 2, 3] := by decide +kernel
example : Poly.add [1, 2] [5, R - 2] = [6] := by decide +kernel

/-- `a += &b` -/
theorem addAssign_spec (a b : List Nat) :
    toPoly (Poly.addAssign a b) = toPoly a + toPoly b ∧ Trimmed (Poly.addAssign a b) :=
  ⟨toPoly_addAssign a b, trimmed_addAssign a b⟩
example : Poly.addAssign [1] [5, 7, 0] = [6, 7] := by
  rw [Poly.addAssign]; simp only [Poly.zipLong]; decide +kernel

/-- `a += (f, &b)` -/
theorem addAssignScaled_spec (a : List Nat) (f : Nat) (b : List Nat) :
    toPoly (Poly.addAssignScaled a f b) = toPoly a + C (toF f) * toPoly b ∧
      Trimmed (Poly.addAssignScaled a f b) :=
  ⟨toPoly_addAssignScaled a f b, trimmed_addAssignScaled a f b⟩
example : Poly.addAssignScaled [1, 1] 3 [5, 7, 1] = [16, 22, 3] := by
  rw [Poly.addAssignScaled]; simp only [Poly.zipLong]; decide +kernel

/-- `&a - &b` -/
theorem sub_spec (a b : List Nat) :
    toPoly (Poly.sub a b) = toPoly a - toPoly b ∧ Trimmed (Poly.sub a b) :=
  ⟨toPoly_sub a b, trimmed_sub a b⟩
example : Poly.sub [7, 2, 3] [5, 2, 3, 0] = [2] := by decide +kernel

/-- `a -= &b` -/
theorem subAssign_spec (a b : List Nat) :
    toPoly (Poly.subAssign a b) = toPoly a - toPoly b ∧ Trimmed (Poly.subAssign a b) :=
  ⟨toPoly_subAssign a b, trimmed_subAssign a b⟩
example : Poly.subAssign [0, 0] [5, 2] = [R - 5, R - 2] := by
  rw [Poly.subAssign]; simp only [List.take, List.length, Poly.zipLong]; decide +kernel

/-- `&p * &k` (scalar) -/
theorem scale_spec (p : List Nat) (k : Nat) :
    toPoly (Poly.scale p k) = C (toF k) * toPoly p ∧ Reduced (Poly.scale p k) ∧
      Trimmed (Poly.scale p k) :=
  ⟨toPoly_scale p k, reduced_scale p k, trimmed_scale p k⟩
example : Poly.scale [1, 2, 0] 3 = [3, 6] := by decide +kernel

/-- `&p + &k` (constant); trimmed unless a constant polynomial is cancelled exactly -/
theorem addConst_spec (p : List Nat) (k : Nat) :
    toPoly (Poly.addConst p k) = toPoly p + C (toF k) ∧
      (Trimmed p → (2 ≤ p.length ∨ toPoly p + C (toF k) ≠ 0) → Trimmed (Poly.addConst p k)) :=
  ⟨toPoly_addConst p k, fun hp h => trimmed_addConst hp k h⟩
example : Poly.addConst [1, 2] 3 = [4, 2] := by decide +kernel
/-- the excluded case is real: `[5] + (−5)` is the untrimmed list `[0]` -/
theorem addConst_untrimmed_witness : Poly.addConst [5] (R - 5) = [0] ∧ ¬ Trimmed [0] :=
  ⟨by decide +kernel, fun h => h (by simp) (by simp)⟩

/-- `&p - &k` (constant) -/
theorem subConst_spec (p : List Nat) (k : Nat) :
    toPoly (Poly.subConst p k) = toPoly p - C (toF k) := toPoly_subConst p k
example : Poly.subConst [4, 2] 3 = [1, 2] := by decide +kernel

/-- the schoolbook product is the product -/
theorem mulSchool_spec (a b : List Nat) :
    toPoly (Poly.mulSchool a b) = toPoly a * toPoly b ∧ Reduced (Poly.mulSchool a b) :=
  ⟨toPoly_mulSchool a b, reduced_mulSchool a b⟩
example : Poly.mulSchool [1, 1] [1, 1] = [1, 2, 1] := by
  simp only [Poly.mulSchool, List.map, Poly.zipLong]; decide +kernel

/-- reduced inputs give reduced outputs -/
theorem reduced_closed {a b : List Nat} (ha : Reduced a) (hb : Reduced b) (f k : Nat) :
    Reduced (Poly.add a b) ∧ Reduced (Poly.addAssign a b) ∧ Reduced (Poly.addAssignScaled a f b) ∧
    Reduced (Poly.sub a b) ∧ Reduced (Poly.subAssign a b) ∧ Reduced (Poly.addConst a k) :=
  ⟨reduced_add ha hb, reduced_addAssign ha hb, reduced_addAssignScaled ha f b, reduced_sub ha b,
   reduced_subAssign ha b, reduced_addConst ha k⟩
example : Reduced ([] : List Nat) := reduced_nil

/-! ## 3. evaluation -/

theorem evaluate_spec (p : List Nat) (z : Nat) :
    toF (Poly.evaluate p z) = (toPoly p).eval (toF z) ∧ Poly.evaluate p z < R :=
  ⟨Plonk.evaluate_spec p z, evaluate_lt p z⟩
example : Poly.evaluate [1, 2, 3] 2 = 17 := by decide +kernel

/-! ## 4. division by a linear factor -/

/-- `ruffini(z)` is the quotient of the division by `X − z`; the dropped remainder is `p(z)` -/
theorem ruffini_spec (p : List Nat) (z : Nat) :
    toPoly p = toPoly (Poly.ruffini p z) * (X - C (toF z)) + C ((toPoly p).eval (toF z)) ∧
    toPoly (Poly.ruffini p z) = toPoly p /ₘ (X - C (toF z)) ∧
    Reduced (Poly.ruffini p z) ∧ Trimmed (Poly.ruffini p z) :=
  ⟨Plonk.ruffini_spec p z, ruffini_eq_divByMonic p z, reduced_ruffini p z, trimmed_ruffini p z⟩
-- (X² − 1) / (X − 1) = X + 1
example : Poly.ruffini [R - 1, 0, 1] 1 = [1, 1] := by decide +kernel

/-- exact division at a root -/
theorem ruffini_root (p : List Nat) (z : Nat) (h : (toPoly p).eval (toF z) = 0) :
    toPoly p = toPoly (Poly.ruffini p z) * (X - C (toF z)) := ruffini_of_root p z h
example : (toPoly [R - 1, 0, 1]).eval (toF 1) = 0 := by
  rw [← Plonk.evaluate_spec]
  have : Poly.evaluate [R - 1, 0, 1] 1 = 0 := by decide +kernel
  rw [this]; simp

end Plonk.Props.C19Poly
