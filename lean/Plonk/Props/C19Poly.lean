/-
  C19 (polynomial half): the coefficient-list arithmetic of `src/fft/polynomial.rs`
  (model: `Plonk/Model/Poly.lean`) agrees with schoolbook arithmetic in `(ZMod R)[X]`.

  Interpretation: `toPoly p = Σ_i C (toF p[i]) * X^i` (Mathlib `Polynomial`, `F = ZMod R`).
  `Reduced p`: every coefficient `< R`;  `Trimmed p`: empty or last coefficient `≠ 0`.

  All refinement statements hold for *arbitrary* coefficient lists (trimmed or not, reduced or
  not), i.e. the `degree a ≥ degree b` branches with `zip` are harmless.

  Finding recorded here (statement not weakened, the exceptional case is excluded by an explicit
  hypothesis and exhibited by `addConst_untrimmed_witness`): `&p + &k` (`addConst`) does not
  truncate, so a constant polynomial `[c]` plus `k = −c` yields the untrimmed list `[0]`
  (which `is_zero()` still recognises as zero, and `degree()` reports as 0).

  Sections 5–6: `batch_inversion` and the closed-form evaluations of `src/fft/domain.rs` /
  `src/proof_system/linearization_poly.rs`.  A domain is assumed well formed (`DomainOK d`:
  `size > 0`, `group_gen` a primitive `size`-th root of unity, `size_inv = size⁻¹`,
  `group_gen_inv = group_gen⁻¹`); `new_domain_ok` proves this for every domain returned by
  `EvaluationDomain::new`.  `L_i(τ)` is `lagrangeF n ω τ i = (τ^n − 1)·ω^i / (n·(τ − ω^i))`.
  Forced side conditions (all benign, they restate that the model's `fpow` takes exponents
  `< 2^256`, while the Rust exponents are `u64`): `deg < 2^256` in `vanishingOverCoset_spec`,
  `evals.length ≤ 2^256` in `barycentric_spec`.
-/
import Plonk.Proofs.PolyBridge
import Plonk.Proofs.DomainSpec

namespace Plonk.Props.C19Poly
open Plonk Plonk.PolyC19 Polynomial

/-! ## 1. interpretation -/

/-- `toPoly p = Σ_i C (toF p[i]) · X^i` -/
theorem toPoly_sum (p : List Nat) :
    toPoly p = ∑ i ∈ Finset.range p.length, C (toF (p.getD i 0)) * X ^ i := toPoly_eq_sum p
example : toPoly [3, 0, 5] = C (toF 3) + X * (C (toF 0) + X * (C (toF 5) + X * 0)) := rfl

theorem toPoly_cons (x : Nat) (xs : List Nat) : toPoly (x :: xs) = C (toF x) + X * toPoly xs := rfl

theorem toPoly_coeff (p : List Nat) (i : Nat) : (toPoly p).coeff i = toF (p.getD i 0) :=
  coeff_toPoly p i

/-- `truncate_leading_zeros` does not change the polynomial and yields a trimmed list -/
theorem trim_spec (p : List Nat) : toPoly (Poly.trim p) = toPoly p ∧ Trimmed (Poly.trim p) :=
  ⟨toPoly_trim p, Poly.trimmed_trim p⟩
example : Poly.trim [1, 0, 2, 0, 0] = [1, 0, 2] := by decide

/-- `from_coefficients_vec`: same polynomial, canonical (reduced and trimmed) representation -/
theorem ofCoeffs_spec (p : List Nat) :
    toPoly (Poly.ofCoeffs p) = toPoly p ∧ Reduced (Poly.ofCoeffs p) ∧ Trimmed (Poly.ofCoeffs p) :=
  ⟨toPoly_ofCoeffs p, reduced_ofCoeffs p, trimmed_ofCoeffs p⟩
example : Poly.ofCoeffs [1, R + 2, R, 0] = [1, 2] := by decide +kernel

/-- `is_zero()` decides `toPoly p = 0` (reduced coefficients, as `BlsScalar`s always are) -/
theorem isZero_spec {p : List Nat} (hp : Reduced p) : toPoly p = 0 ↔ Poly.isZero p = true :=
  toPoly_eq_zero_iff hp
example : Reduced [0, 0, 4] := by intro x hx; simp at hx; rcases hx with rfl | rfl <;> decide +kernel

/-- `degree()` is the `natDegree` of the polynomial (and 0 for the zero polynomial) -/
theorem degree_spec {p : List Nat} (hp : Reduced p) : Poly.degree p = (toPoly p).natDegree :=
  degree_eq_natDegree hp
example : Poly.degree [1, 0, 2, 0, 0] = 2 := by decide

/-- reduced, trimmed lists are unique representatives of their polynomial -/
theorem canonical_unique {p q : List Nat} (hp : Reduced p) (hq : Reduced q)
    (tp : Trimmed p) (tq : Trimmed q) (h : toPoly p = toPoly q) : p = q :=
  toPoly_injective hp hq tp tq h
example : Reduced [1, 2] ∧ Trimmed [1, 2] :=
  ⟨by intro x hx; simp at hx; rcases hx with rfl | rfl <;> decide +kernel, by intro _; simp⟩

/-! ## 2. ring operations (for ALL lists) -/

/-- `&a + &b` -/
theorem add_spec (a b : List Nat) :
    toPoly (Poly.add a b) = toPoly a + toPoly b ∧ Trimmed (Poly.add a b) :=
  ⟨toPoly_add a b, trimmed_add a b⟩
-- untrimmed operand whose list is longer although its degree is smaller
example : Poly.add [1, 2, 3] [5, 0, 0, 0, 0] = [6, 2, 3] := by decide +kernel
example : Poly.add [1, 2] [5, R - 2] = [6] := by decide +kernel

/-- `a += &b` -/
theorem addAssign_spec (a b : List Nat) :
    toPoly (Poly.addAssign a b) = toPoly a + toPoly b ∧ Trimmed (Poly.addAssign a b) :=
  ⟨toPoly_addAssign a b, trimmed_addAssign a b⟩
example : Poly.addAssign [1] [5, 7, 0] = [6, 7] := by
  rw [Poly.addAssign]; simp only [Poly.zipLong]; decide +kernel

/-- `a += (f, &b)` -/
theorem addAssignScaled_spec (a : List Nat) (f : Nat) (b : List Nat) :
    toPoly (Poly.addAssignScaled a f b) = toPoly a + C (toF f) * toPoly b ∧
      Trimmed (Poly.addAssignScaled a f b) :=
  ⟨toPoly_addAssignScaled a f b, trimmed_addAssignScaled a f b⟩
example : Poly.addAssignScaled [1, 1] 3 [5, 7, 1] = [16, 22, 3] := by
  rw [Poly.addAssignScaled]; simp only [Poly.zipLong]; decide +kernel

/-- `&a - &b` -/
theorem sub_spec (a b : List Nat) :
    toPoly (Poly.sub a b) = toPoly a - toPoly b ∧ Trimmed (Poly.sub a b) :=
  ⟨toPoly_sub a b, trimmed_sub a b⟩
example : Poly.sub [7, 2, 3] [5, 2, 3, 0] = [2] := by decide +kernel

/-- `a -= &b` -/
theorem subAssign_spec (a b : List Nat) :
    toPoly (Poly.subAssign a b) = toPoly a - toPoly b ∧ Trimmed (Poly.subAssign a b) :=
  ⟨toPoly_subAssign a b, trimmed_subAssign a b⟩
example : Poly.subAssign [0, 0] [5, 2] = [R - 5, R - 2] := by
  rw [Poly.subAssign]; simp only [List.take, List.length, Poly.zipLong]; decide +kernel

/-- `&p * &k` (scalar) -/
theorem scale_spec (p : List Nat) (k : Nat) :
    toPoly (Poly.scale p k) = C (toF k) * toPoly p ∧ Reduced (Poly.scale p k) ∧
      Trimmed (Poly.scale p k) :=
  ⟨toPoly_scale p k, reduced_scale p k, trimmed_scale p k⟩
example : Poly.scale [1, 2, 0] 3 = [3, 6] := by decide +kernel

/-- `&p + &k` (constant); trimmed unless a constant polynomial is cancelled exactly -/
theorem addConst_spec (p : List Nat) (k : Nat) :
    toPoly (Poly.addConst p k) = toPoly p + C (toF k) ∧
      (Trimmed p → (2 ≤ p.length ∨ toPoly p + C (toF k) ≠ 0) → Trimmed (Poly.addConst p k)) :=
  ⟨toPoly_addConst p k, fun hp h => trimmed_addConst hp k h⟩
example : Poly.addConst [1, 2] 3 = [4, 2] := by decide +kernel
/-- the excluded case is real: `[5] + (−5)` is the untrimmed list `[0]` -/
theorem addConst_untrimmed_witness : Poly.addConst [5] (R - 5) = [0] ∧ ¬ Trimmed [0] :=
  ⟨by decide +kernel, fun h => h (by simp) (by simp)⟩

/-- `&p - &k` (constant) -/
theorem subConst_spec (p : List Nat) (k : Nat) :
    toPoly (Poly.subConst p k) = toPoly p - C (toF k) := toPoly_subConst p k
example : Poly.subConst [4, 2] 3 = [1, 2] := by decide +kernel

/-- the schoolbook product is the product -/
theorem mulSchool_spec (a b : List Nat) :
    toPoly (Poly.mulSchool a b) = toPoly a * toPoly b ∧ Reduced (Poly.mulSchool a b) :=
  ⟨toPoly_mulSchool a b, reduced_mulSchool a b⟩
example : Poly.mulSchool [1, 1] [1, 1] = [1, 2, 1] := by
  simp only [Poly.mulSchool, List.map, Poly.zipLong]; decide +kernel

/-- reduced inputs give reduced outputs -/
theorem reduced_closed {a b : List Nat} (ha : Reduced a) (hb : Reduced b) (f k : Nat) :
    Reduced (Poly.add a b) ∧ Reduced (Poly.addAssign a b) ∧ Reduced (Poly.addAssignScaled a f b) ∧
    Reduced (Poly.sub a b) ∧ Reduced (Poly.subAssign a b) ∧ Reduced (Poly.addConst a k) :=
  ⟨reduced_add ha hb, reduced_addAssign ha hb, reduced_addAssignScaled ha f b, reduced_sub ha b,
   reduced_subAssign ha b, reduced_addConst ha k⟩
example : Reduced ([] : List Nat) := reduced_nil

/-! ## 3. evaluation -/

theorem evaluate_spec (p : List Nat) (z : Nat) :
    toF (Poly.evaluate p z) = (toPoly p).eval (toF z) ∧ Poly.evaluate p z < R :=
  ⟨Plonk.evaluate_spec p z, evaluate_lt p z⟩
example : Poly.evaluate [1, 2, 3] 2 = 17 := by decide +kernel

/-! ## 4. division by a linear factor -/

/-- `ruffini(z)` is the quotient of the division by `X − z`; the dropped remainder is `p(z)` -/
theorem ruffini_spec (p : List Nat) (z : Nat) :
    toPoly p = toPoly (Poly.ruffini p z) * (X - C (toF z)) + C ((toPoly p).eval (toF z)) ∧
    toPoly (Poly.ruffini p z) = toPoly p /ₘ (X - C (toF z)) ∧
    Reduced (Poly.ruffini p z) ∧ Trimmed (Poly.ruffini p z) :=
  ⟨Plonk.ruffini_spec p z, ruffini_eq_divByMonic p z, reduced_ruffini p z, trimmed_ruffini p z⟩
-- (X² − 1) / (X − 1) = X + 1
example : Poly.ruffini [R - 1, 0, 1] 1 = [1, 1] := by decide +kernel

/-- exact division at a root -/
theorem ruffini_root (p : List Nat) (z : Nat) (h : (toPoly p).eval (toF z) = 0) :
    toPoly p = toPoly (Poly.ruffini p z) * (X - C (toF z)) := ruffini_of_root p z h
example : (toPoly [R - 1, 0, 1]).eval (toF 1) = 0 := by
  rw [← Plonk.evaluate_spec]
  have : Poly.evaluate [R - 1, 0, 1] 1 = 0 := by decide +kernel
  rw [this]; simp


/-! ## 5. batch inversion -/

/-- `batch_inversion`: length preserved; every entry is replaced by its inverse, zero entries
    (mod `R`) become / stay `0`; all outputs are reduced -/
theorem batchInversion_spec (v : List Nat) :
    (batchInversion v).length = v.length ∧
    ∀ i (h : i < v.length), ∃ h' : i < (batchInversion v).length,
      toF (batchInversion v)[i] = (toF v[i])⁻¹ ∧ (batchInversion v)[i] < R ∧
      (v[i] % R = 0 → (batchInversion v)[i] = 0) ∧
      (v[i] % R ≠ 0 → toF v[i] * toF (batchInversion v)[i] = 1) :=
  ⟨batchInversion_length v, batchInversion_entry v⟩
example : batchInversion [2, 0, R, 1] = [(R + 1) / 2, 0, 0, 1] := by decide +kernel

/-! ## 6. closed forms on a domain -/

/-- every domain returned by `EvaluationDomain::new` is well formed -/
theorem new_domain_ok (k : Nat) (d : Domain) (h : Domain.new? k = some d) : DomainOK d :=
  domainOK_of_new? k d h
example : ∃ d : Domain, Domain.new? 4 = some d ∧ d.size = 4 ∧ DomainOK d := exists_domainOK_four

/-- `ROOT_OF_UNITY` is a primitive `2^32`-th root of unity -/
theorem root_of_unity_primitive : IsPrimitiveRoot (toF ROOT_OF_UNITY) (2 ^ 32) := root_primitive

/-- `elements()` = `[ω^0, …, ω^(n−1)]` (canonical representatives) -/
theorem elements_spec (d : Domain) :
    d.elements = (List.range d.size).map (fun i => (toF d.groupGen ^ i).val) ∧
    d.elements.map toF = (List.range d.size).map (fun i => toF d.groupGen ^ i) :=
  ⟨elements_eq d, elements_map_toF d⟩
example : ∃ d : Domain, Domain.new? 4 = some d ∧ d.elements.length = 4 := by
  obtain ⟨d, hd, hs, _⟩ := exists_domainOK_four
  exact ⟨d, hd, by rw [elements_length, hs]⟩

/-- `evaluate_vanishing_polynomial(τ) = τ^n − 1 = ∏_{i<n} (τ − ω^i)` -/
theorem vanishing_spec {d : Domain} (ok : DomainOK d) (tau : Nat) :
    toF (d.evaluateVanishing tau) = toF tau ^ d.size - 1 ∧
    toF tau ^ d.size - 1 = ∏ i ∈ Finset.range d.size, (toF tau - toF d.groupGen ^ i) :=
  ⟨toF_evaluateVanishing ok.size_lt tau, vanishing_eq_prod ok.size_pos ok.prim _⟩
example : ∃ d : Domain, DomainOK d := let ⟨d, _, _, ok⟩ := exists_domainOK_four; ⟨d, ok⟩

/-- membership in the domain: `τ^n = 1 ↔ τ = ω^i` for some `i < n` -/
theorem mem_domain_iff {d : Domain} (ok : DomainOK d) (tau : Nat) :
    toF tau ^ d.size = 1 ↔ ∃ i < d.size, toF tau = toF d.groupGen ^ i :=
  pow_eq_one_iff_mem ok.size_pos ok.prim _

/-- `evaluate_all_lagrange_coefficients(τ)`, `τ` outside the domain: entry `i` is `L_i(τ)`;
    `L_i(τ)` is the value at `τ` of the Lagrange basis polynomial `∏_{j≠i} (X − ω^j)/(ω^i − ω^j)`
    (degree `< n`, `1` at `ω^i`, `0` at the other `ω^j`), hence `Σ_i L_i(τ)·f(ω^i) = f(τ)` for every
    `f` of degree `< n` -/
theorem lagrangeCoeffs_spec_outside {d : Domain} (ok : DomainOK d) (tau : Nat)
    (h : toF tau ^ d.size ≠ 1) :
    d.lagrangeCoeffs tau =
      (List.range d.size).map (fun i => (lagrangeF d.size (toF d.groupGen) (toF tau) i).val) ∧
    (∀ i < d.size, lagrangeF d.size (toF d.groupGen) (toF tau) i =
      eval (toF tau) (Lagrange.basis (Finset.range d.size) (fun i : ℕ => toF d.groupGen ^ i) i)) ∧
    (∀ f : F[X], f.degree < d.size →
      ∑ i ∈ Finset.range d.size,
        lagrangeF d.size (toF d.groupGen) (toF tau) i * f.eval (toF d.groupGen ^ i) = f.eval (toF tau)) :=
  ⟨lagrangeCoeffs_outside ok tau h,
   fun _ hi => lagrangeF_eq_basis ok.size_pos ok.prim h hi,
   fun f hf => sum_lagrangeF_mul_eval ok.size_pos ok.prim h f hf⟩
example : ∃ d : Domain, DomainOK d ∧ toF 2 ^ d.size ≠ 1 := by
  obtain ⟨d, _, hs, ok⟩ := exists_domainOK_four
  exact ⟨d, ok, by rw [hs]; exact two_pow_four_ne_one⟩

/-- `τ = ω^k` in the domain: the indicator vector of `k` -/
theorem lagrangeCoeffs_spec_inside {d : Domain} (ok : DomainOK d) (tau k : Nat) (hk : k < d.size)
    (h : toF tau = toF d.groupGen ^ k) :
    d.lagrangeCoeffs tau = (List.range d.size).map (fun i => if i = k then 1 else 0) :=
  lagrangeCoeffs_inside ok tau k hk h
example : ∃ d : Domain, DomainOK d ∧ 2 < d.size ∧
    toF (toF d.groupGen ^ 2).val = toF d.groupGen ^ 2 := by
  obtain ⟨d, _, hs, ok⟩ := exists_domainOK_four
  exact ⟨d, ok, by omega, toF_val _⟩

/-- `compute_barycentric_eval`: `Σ_i evals[i]·L_i(point)`; outside the domain and with one
    evaluation per element this is the value of the interpolation polynomial at `point` -/
theorem barycentric_spec {d : Domain} (ok : DomainOK d) (evals : List Nat) (point : Nat)
    (hlen : evals.length ≤ 2 ^ 256) :
    toF (d.barycentric evals point) =
      ∑ i ∈ Finset.range evals.length,
        toF (evals.getD i 0) * lagrangeF d.size (toF d.groupGen) (toF point) i ∧
    (evals.length = d.size → toF point ^ d.size ≠ 1 →
      toF (d.barycentric evals point) =
        eval (toF point) (Lagrange.interpolate (Finset.range d.size)
          (fun i : ℕ => toF d.groupGen ^ i) (fun i => toF (evals.getD i 0)))) :=
  ⟨barycentric_eq ok evals point hlen, fun h1 h2 => barycentric_eq_interpolate ok evals point h1 h2⟩
example : ∃ d : Domain, DomainOK d ∧ [5, 0, 7, 1].length = d.size ∧ toF 2 ^ d.size ≠ 1 := by
  obtain ⟨d, _, hs, ok⟩ := exists_domainOK_four
  exact ⟨d, ok, by rw [hs]; rfl, by rw [hs]; exact two_pow_four_ne_one⟩

/-- `compute_lagrange_and_barycentric_evaluations` fails exactly when a denominator vanishes -/
theorem lagrangeAndPi_none_spec {d : Domain} (ok : DomainOK d) (roots evals : List Nat)
    (point : Nat) :
    d.lagrangeAndPi roots evals point = none ↔
      toF point = 1 ∨ ∃ re ∈ roots.zip evals, toF re.2 ≠ 0 ∧ toF re.1 * toF point = 1 :=
  lagrangeAndPi_eq_none_iff ok roots evals point

/-- … and otherwise returns `(L_0(point), Σ_j evals[j]·(Z_H(point)/n)/(root_j·point − 1))`;
    a term with `root_j = ω^(−i)` is `evals[j]·L_i(point)` -/
theorem lagrangeAndPi_some_spec {d : Domain} (ok : DomainOK d) (roots evals : List Nat)
    (point l1 pi : Nat) (h : d.lagrangeAndPi roots evals point = some (l1, pi)) :
    (toF l1 = lagrangeF d.size (toF d.groupGen) (toF point) 0 ∧
     toF pi = ((roots.zip evals).map (fun re : Nat × Nat =>
       toF re.2 * ((toF point ^ d.size - 1) * ((d.size : F))⁻¹ *
         (toF re.1 * toF point - 1)⁻¹))).sum ∧
     l1 < R ∧ pi < R) ∧
    (∀ (e : F) (i : Nat),
      e * ((toF point ^ d.size - 1) * ((d.size : F))⁻¹ *
          ((toF d.groupGen)⁻¹ ^ i * toF point - 1)⁻¹) =
        e * lagrangeF d.size (toF d.groupGen) (toF point) i) :=
  ⟨lagrangeAndPi_some ok roots evals point l1 pi h, fun e i => pi_term_eq_lagrangeF ok _ e i⟩
example : ∃ d : Domain, DomainOK d ∧ (d.lagrangeAndPi [1] [3] 2).isSome = true := by
  obtain ⟨d, _, hs, ok⟩ := exists_domainOK_four
  refine ⟨d, ok, ?_⟩
  rw [Option.isSome_iff_ne_none, Ne, lagrangeAndPi_eq_none_iff ok]
  have h21 : toF 2 ≠ 1 := by
    rw [← toF_one, Ne, toF_inj_of_lt (by decide +kernel) R_gt_one]; decide
  rintro (h | ⟨re, hre, _, h1⟩)
  · exact h21 h
  · simp only [List.zip_cons_cons, List.zip_nil_right, List.mem_singleton] at hre
    subst hre
    rw [toF_one, one_mul] at h1
    exact h21 h1

/-- `vanishing_poly_over_coset(deg)`: entry `i` is `(g·ω^i)^deg − 1` with `g = 7` -/
theorem vanishingOverCoset_spec (d : Domain) (deg : Nat) (hdeg : deg < 2 ^ 256) :
    d.vanishingOverCoset deg =
      (List.range d.size).map (fun i => (((7 : F) * toF d.groupGen ^ i) ^ deg - 1).val) :=
  vanishingOverCoset_eq d deg hdeg
example : (8 : Nat) < 2 ^ 256 := by norm_num

/-- `matches_linear_over_coset` accepts exactly the evaluations of `X` on the coset -/
theorem matchesLinearOverCoset_spec (d : Domain) (ev : List Nat) :
    d.matchesLinearOverCoset ev = true ↔
      ev = (List.range d.size).map (fun i => ((7 : F) * toF d.groupGen ^ i).val) :=
  matchesLinearOverCoset_iff d ev

/-- `matches_vanishing_over_coset` accepts exactly `deg < n` and the evaluations of
    `X^deg − 1` on the coset -/
theorem matchesVanishingOverCoset_spec {d : Domain} (ok : DomainOK d) (deg : Nat) (ev : List Nat) :
    d.matchesVanishingOverCoset deg ev = true ↔
      deg < d.size ∧
      ev = (List.range d.size).map (fun i => (((7 : F) * toF d.groupGen ^ i) ^ deg - 1).val) :=
  matchesVanishingOverCoset_iff d deg ev ok.size_lt.le
example : ∃ d : Domain, DomainOK d ∧ 1 < d.size := by
  obtain ⟨d, _, hs, ok⟩ := exists_domainOK_four
  exact ⟨d, ok, by omega⟩

end Plonk.Props.C19Poly
