/-
  C19, FFT half — property-level theorems.

  "Forward and inverse FFTs, plain and over the coset, of any vector on a power-of-two domain equal
  direct evaluation and interpolation on that subgroup or coset, for every worker-thread count, and
  are mutually inverse."

  Everything below is proved at full strength about the model's own `Domain.fft / ifft / cosetFft /
  cosetIfft` (i.e. through `bestFft` with its three-way switch, the parallel butterfly with explicit
  `threads`, `serialFft`, `bitreversePermute`, `foldMod`, `resize`, `distributePowers`), for every
  domain returned by `Domain.new?` and every `threads ≥ 1`.  Nothing is missing; there is no
  `_partial` theorem.  The chain is
    `bestFft = serialFft` (thread independence, thresholds `Generated.PARALLEL_*` never unfolded)
    `serialFft = dft` (loop invariant over the stages) `= fftRec` (radix-2 recursion)
    `toF ∘ dft = dftN` (field-level DFT) = evaluation of the coefficient polynomial.

  Field-level vocabulary (from `Plonk/Proofs`): `F = ZMod R`, `toF : Nat → F`,
  `seqF v j = toF (v.getD j 0)`, `polyN n u = Σ_{j<n} C (u j) X^j`,
  `dftN ω n u i = Σ_{j<n} u j · ω^(i·j)`.

  Remarks on hypotheses:
  * `1 ≤ threads`: with `threads = 0` the model's `parallelButterflyChunk` is a no-op
    (`divCeil m 0 = 0`); rayon never reports 0 threads.
  * `v.length ≤ d.size` in `fft_ifft_inverse`: a longer input is reduced modulo `X^n − 1` by `fft`
    (see `fft_long_input_is_evaluation`), so it cannot be recovered.
  * `e.length = d.size` for interpolation: `ifft` zero-pads / truncates (`resize`) other lengths.
-/
import Plonk.Proofs.FftDomain

namespace Plonk.Props.C19Fft
open Plonk FftMath Polynomial

/-- The domain: `d.size = 2^d.logSize ≥ m`, `d.logSize < 32`, and `d.groupGen` is a primitive
    `d.size`-th root of unity (so `i ↦ groupGen^i` enumerates the subgroup without repetition),
    `d.size ≠ 0` in the field, and the stored inverses are inverses. -/
theorem domain_is_subgroup (m : Nat) (d : Domain) (hd : Domain.new? m = some d) :
    d.size = 2 ^ d.logSize ∧ m ≤ d.size ∧ d.logSize < 32 ∧
    IsPrimitiveRoot (toF d.groupGen) d.size ∧ ((d.size : ℕ) : F) ≠ 0 ∧
    toF d.groupGenInv = (toF d.groupGen)⁻¹ ∧ toF d.sizeInv = ((d.size : ℕ) : F)⁻¹ ∧
    toF d.generatorInv = (toF GENERATOR)⁻¹ ∧ toF GENERATOR ≠ 0 :=
  have h := Domain.new?_wf m d hd
  ⟨h.1.size_eq, Domain.new?_size_ge m d hd, h.2, h.1.prim, h.1.size_ne_zero, h.1.genInv,
    h.1.sizeInv, h.1.generatorInv, generator_ne_zero⟩

example : ∃ d, Domain.new? 5 = some d :=
  Option.isSome_iff_exists.mp (by decide +kernel)

/-- **Forward FFT = direct evaluation on the subgroup.** For a coefficient vector that fits the
    domain, `fft` returns exactly the model's O(n²) `dft` of the zero-padded reduced vector, and its
    `i`-th entry is the value of the coefficient polynomial at `groupGen^i`. -/
theorem fft_is_evaluation (m : Nat) (d : Domain) (hd : Domain.new? m = some d) (threads : Nat)
    (ht : 1 ≤ threads) (v : List Nat) (hlen : v.length ≤ d.size) :
    (d.fft v threads).length = d.size ∧
    d.fft v threads = dft d.groupGen (resize (v.map (· % R)) d.size) ∧
    (∀ x ∈ d.fft v threads, x < R) ∧
    ∀ i, i < d.size →
      toF ((d.fft v threads).getD i 0) = (polyN v.length (seqF v)).eval (toF d.groupGen ^ i) := by
  have h := Domain.new?_WF m d hd
  refine ⟨Domain.fft_length h ht v, ?_, Domain.fft_mem_lt h ht v,
    fun i hi => Domain.toF_fft_getD h ht v i hi⟩
  rw [Domain.fft_eq_dft h ht, foldMod_eq_resize _ _ (by simpa using hlen),
    map_mod_of_lt _ (map_mod_lt v)]

example : ∃ d, Domain.new? 5 = some d ∧ 1 ≤ 3 ∧ ([7, 0, R + 2, 5, 1] : List Nat).length ≤ d.size := by
  obtain ⟨d, hd⟩ : ∃ d, Domain.new? 5 = some d := Option.isSome_iff_exists.mp (by decide +kernel)
  exact ⟨d, hd, by omega, Domain.new?_size_ge 5 d hd⟩

/-- **Long inputs.** For an input of *any* length `fft` returns the `dft` of the vector folded
    modulo `X^n − 1`, and its `i`-th entry is still the value of the full (long) coefficient
    polynomial at `groupGen^i`. -/
theorem fft_long_input_is_evaluation (m : Nat) (d : Domain) (hd : Domain.new? m = some d)
    (threads : Nat) (ht : 1 ≤ threads) (v : List Nat) :
    (d.fft v threads).length = d.size ∧
    d.fft v threads = dft d.groupGen (foldMod (v.map (· % R)) d.size) ∧
    ∀ i, i < d.size →
      toF ((d.fft v threads).getD i 0) = (polyN v.length (seqF v)).eval (toF d.groupGen ^ i) := by
  have h := Domain.new?_WF m d hd
  exact ⟨Domain.fft_length h ht v, Domain.fft_eq_dft h ht v,
    fun i hi => Domain.toF_fft_getD h ht v i hi⟩

example : ∃ d, Domain.new? 2 = some d ∧ 1 ≤ 16 ∧ d.size < ([1, 2, 3, 4, 5, 6, 7] : List Nat).length := by
  obtain ⟨d, hd⟩ : ∃ d, Domain.new? 2 = some d := Option.isSome_iff_exists.mp (by decide +kernel)
  refine ⟨d, hd, by omega, ?_⟩
  have : d.size = 2 := by
    have : (Domain.new? 2).map (·.size) = some 2 := by decide +kernel
    rw [hd] at this; simpa using this
  rw [this]; decide

/-- **Inverse FFT = interpolation on the subgroup.** `ifft e` has `d.size` canonical entries, is
    `1/n` times the model's `dft` with the inverse root, equals the field-level inverse DFT, and
    the polynomial with these coefficients takes the value `e[i]` at `groupGen^i`. -/
theorem ifft_is_interpolation (m : Nat) (d : Domain) (hd : Domain.new? m = some d) (threads : Nat)
    (ht : 1 ≤ threads) (e : List Nat) (he : e.length = d.size) :
    (d.ifft e threads).length = d.size ∧
    d.ifft e threads = (dft d.groupGenInv (e.map (· % R))).map (fmul · d.sizeInv) ∧
    (∀ x ∈ d.ifft e threads, x < R) ∧
    (∀ j, j < d.size → toF ((d.ifft e threads).getD j 0)
        = ((d.size : ℕ) : F)⁻¹ * dftN (toF d.groupGen)⁻¹ d.size (seqF e) j) ∧
    ∀ i, i < d.size →
      (polyN d.size (seqF (d.ifft e threads))).eval (toF d.groupGen ^ i) = toF (e.getD i 0) := by
  have h := Domain.new?_WF m d hd
  refine ⟨Domain.ifft_length h ht e, ?_, Domain.ifft_mem_lt h ht e, ?_,
    fun i hi => Domain.eval_ifft h ht e he i hi⟩
  · rw [Domain.ifft_eq_dft h ht]
    have : resize (e.map (· % R)) d.size = e.map (· % R) := by
      rw [← he, ← List.length_map (f := (· % R)) (as := e)]; exact resize_self _
    rw [this]
  · intro j hj
    rw [Domain.toF_ifft_getD h ht e j hj, seqF_resize e _ (by omega)]

example : ∃ d, Domain.new? 4 = some d ∧ 1 ≤ 2 ∧ ([9, 8, 7, 6] : List Nat).length = d.size := by
  obtain ⟨d, hd⟩ : ∃ d, Domain.new? 4 = some d := Option.isSome_iff_exists.mp (by decide +kernel)
  refine ⟨d, hd, by omega, ?_⟩
  have : (Domain.new? 4).map (·.size) = some 4 := by decide +kernel
  rw [hd] at this
  simpa using (Option.some.inj this).symm

/-- **Coset FFT = evaluation on the coset `g·⟨groupGen⟩`** (`g = GENERATOR = 7`), for inputs of any
    length; and **coset inverse FFT = interpolation on the coset**. -/
theorem coset_fft_is_evaluation (m : Nat) (d : Domain) (hd : Domain.new? m = some d)
    (threads : Nat) (ht : 1 ≤ threads) :
    (∀ v : List Nat, (d.cosetFft v threads).length = d.size ∧
      ∀ i, i < d.size → toF ((d.cosetFft v threads).getD i 0)
        = (polyN v.length (seqF v)).eval (toF GENERATOR * toF d.groupGen ^ i)) ∧
    (∀ e : List Nat, e.length = d.size → (d.cosetIfft e threads).length = d.size ∧
      ∀ i, i < d.size →
        (polyN d.size (seqF (d.cosetIfft e threads))).eval (toF GENERATOR * toF d.groupGen ^ i)
          = toF (e.getD i 0)) := by
  have h := Domain.new?_WF m d hd
  exact ⟨fun v => ⟨Domain.cosetFft_length h ht v, fun i hi => Domain.toF_cosetFft_getD h ht v i hi⟩,
    fun e he => ⟨Domain.cosetIfft_length h ht e, fun i hi => Domain.eval_cosetIfft h ht e he i hi⟩⟩

example : ∃ d, Domain.new? 8 = some d ∧ 1 ≤ 5 ∧
    ∃ e : List Nat, e.length = d.size := by
  obtain ⟨d, hd⟩ : ∃ d, Domain.new? 8 = some d := Option.isSome_iff_exists.mp (by decide +kernel)
  exact ⟨d, hd, by omega, List.replicate d.size 3, by simp⟩

/-- **Mutually inverse** (as lists of canonical `Nat`s, with possibly different thread counts for
    the two transforms): `ifft ∘ fft` returns the reduced, zero-padded input; `fft ∘ ifft` returns
    the reduced input; the same for the coset pair. -/
theorem fft_ifft_inverse (m : Nat) (d : Domain) (hd : Domain.new? m = some d) (t1 t2 : Nat)
    (ht1 : 1 ≤ t1) (ht2 : 1 ≤ t2) :
    (∀ v : List Nat, v.length ≤ d.size →
      d.ifft (d.fft v t1) t2 = resize (v.map (· % R)) d.size ∧
      d.cosetIfft (d.cosetFft v t1) t2 = resize (v.map (· % R)) d.size) ∧
    (∀ e : List Nat, e.length = d.size →
      d.fft (d.ifft e t1) t2 = e.map (· % R) ∧
      d.cosetFft (d.cosetIfft e t1) t2 = e.map (· % R)) := by
  have h := Domain.new?_WF m d hd
  exact ⟨fun v hv => ⟨Domain.ifft_fft h ht2 ht1 v hv, Domain.cosetIfft_cosetFft h ht2 ht1 v hv⟩,
    fun e he => ⟨Domain.fft_ifft h ht2 ht1 e he, Domain.cosetFft_cosetIfft h ht2 ht1 e he⟩⟩

example : ∃ d, Domain.new? 3 = some d ∧ 1 ≤ 1 ∧ 1 ≤ 64 ∧
    ([5, R, 11] : List Nat).length ≤ d.size ∧ ∃ e : List Nat, e.length = d.size := by
  obtain ⟨d, hd⟩ : ∃ d, Domain.new? 3 = some d := Option.isSome_iff_exists.mp (by decide +kernel)
  exact ⟨d, hd, by omega, by omega, Domain.new?_size_ge 3 d hd, List.replicate d.size 1, by simp⟩

/-- **Thread independence**: all four transforms return the same list for every `threads ≥ 1`
    (proved for arbitrary values of the `Generated.PARALLEL_*` thresholds; needs only
    `d.logSize ≤ 256`, which every `Domain.new?` domain satisfies — see `domain_is_subgroup`). -/
theorem fft_threads_irrelevant (d : Domain) (hlog : d.logSize ≤ 256) (v : List Nat)
    (threads threads' : Nat) (ht : 1 ≤ threads) (ht' : 1 ≤ threads') :
    d.fft v threads = d.fft v threads' ∧ d.ifft v threads = d.ifft v threads' ∧
    d.cosetFft v threads = d.cosetFft v threads' ∧ d.cosetIfft v threads = d.cosetIfft v threads' := by
  obtain ⟨a1, a2, a3, a4⟩ := Domain.threads_irrelevant d hlog v threads ht
  obtain ⟨b1, b2, b3, b4⟩ := Domain.threads_irrelevant d hlog v threads' ht'
  exact ⟨a1.trans b1.symm, a2.trans b2.symm, a3.trans b3.symm, a4.trans b4.symm⟩

example : ∃ d, Domain.new? 1000 = some d ∧ d.logSize ≤ 256 ∧ 1 ≤ 7 ∧ 1 ≤ 32 := by
  obtain ⟨d, hd⟩ : ∃ d, Domain.new? 1000 = some d := Option.isSome_iff_exists.mp (by decide +kernel)
  have := (Domain.new?_wf 1000 d hd).2
  exact ⟨d, hd, by omega, by omega, by omega⟩

/-- **One chunk**: the parallel butterfly equals the serial butterfly chunk for every
    `threads ≥ 1` (no bounds hypothesis; `m < 2^256` is the range of the model's `fpow`). -/
theorem parallel_chunk_threads_irrelevant (a : Array Nat) (lo m wm threads : Nat)
    (ht : 1 ≤ threads) (hm : m < 2 ^ 256) :
    parallelButterflyChunk a lo m wm threads = butterflyChunk a lo m wm :=
  parallelButterflyChunk_eq_butterflyChunk a lo m wm threads ht hm

example : (1 : Nat) ≤ 3 ∧ (8 : Nat) < 2 ^ 256 := by constructor <;> norm_num

/-- **The kernels**: on a vector of `2^L` canonical entries and a primitive `2^L`-th root, the
    iterative in-place transform, the thread-switched `bestFft`, the radix-2 recursion and the
    O(n²) definition all coincide. -/
theorem kernels_agree (L ω : Nat) (v : List Nat) (hlen : v.length = 2 ^ L)
    (hlt : ∀ x ∈ v, x < R) (hprim : IsPrimitiveRoot (toF ω) (2 ^ L)) (threads : Nat)
    (ht : 1 ≤ threads) :
    (serialFft v.toArray ω L).toList = dft ω v ∧
    (bestFft v.toArray ω L threads).toList = dft ω v ∧
    fftRec L ω v = dft ω v ∧
    ∀ i, i < 2 ^ L → toF ((dft ω v).getD i 0) = (polyN (2 ^ L) (seqF v)).eval (toF ω ^ i) := by
  refine ⟨serialFft_toList_eq_dft L ω v hlen hlt hprim,
    bestFft_eq_dft L ω threads v ht hlen hlt hprim, fftRec_eq_dft L ω v hlen hlt hprim, ?_⟩
  intro i hi
  have hb : 2 ^ L < 2 ^ 256 := order_lt_of_primitive (Nat.pow_pos (by omega)) hprim
  rw [toF_dft_getD ω v i (by omega) (by omega), hlen, dftN_eq_eval]

example : ∃ (L ω : Nat) (v : List Nat), L = 3 ∧ v.length = 2 ^ L ∧ (∀ x ∈ v, x < R) ∧
    IsPrimitiveRoot (toF ω) (2 ^ L) ∧ 1 ≤ 4 := by
  obtain ⟨d, hd⟩ : ∃ d, Domain.new? 8 = some d := Option.isSome_iff_exists.mp (by decide +kernel)
  have hL : d.logSize = 3 := by
    have : (Domain.new? 8).map (·.logSize) = some 3 := by decide +kernel
    rw [hd] at this; simpa using this
  have h := Domain.new?_WF 8 d hd
  refine ⟨d.logSize, d.groupGen, [1, 2, 3, 4, 5, 6, 7, 8], hL, by rw [hL]; rfl, ?_, ?_, by omega⟩
  · intro x hx
    have : x ≤ 8 := by
      simp only [List.mem_cons, List.not_mem_nil, or_false] at hx
      omega
    have : 8 < R := by decide +kernel
    omega
  · rw [← h.size_eq]; exact h.prim

end Plonk.Props.C19Fft
