/-
  Tie by translation, composer gadgets (used by C07–C14): the Rust source of the constraint builder
  (`src/composer/constraint_system/constraint.rs`), of the composer primitives (`src/composer.rs`), of the boolean /
  selection components (`src/composer/{bits,select}.rs`) and of the straight-line point gadgets
  (`src/composer/point.rs`) — regenerated into `Plonk/GeneratedComposer.lean` by `tools/rs2lean_composer.py` on every
  run — IS the hand-written model (`Plonk/Model/{Gate,Composer}.lean`) that the gadget theorems are about.
  `R…` names are the translated Rust functions; the right-hand sides are the model's definitions.
-/
import Plonk.Proofs.ComposerSource

namespace Plonk.Props.ComposerTie
open Plonk Plonk.Composer Plonk.GeneratedComposer Plonk.ComposerSource

/-- **The translator's view of the Rust arrays is faithful for the source at hand.** The discriminants of `Selector`
    are exactly the slots `0 .. COEFFICIENTS-1` of `coefficients` (in the order of the model's record fields), those of
    `WiredWitness` the slots `0 .. WITNESSES-1` of `witnesses` — no access is out of bounds, distinct selectors address
    distinct slots — and the Montgomery constant of the prelude is `2^-256 mod r`. -/
theorem array_view_is_faithful :
    Selector.all.map Selector.toNat = List.range RConstraint.COEFFICIENTS ∧ (∀ r : Selector, r ∈ Selector.all) ∧
    WiredWitness.all.map WiredWitness.toNat = List.range RConstraint.WITNESSES ∧
    (∀ r : WiredWitness, r ∈ WiredWitness.all) ∧
    (2 ^ 256 * MONT_RINV) % R = 1 :=
  ⟨selector_slots, selector_all, wire_slots, wire_all, mont_rinv_ok⟩

/-- **`Constraint` builder, setters.** `Constraint::new()` is the all-zero record on the zero witness; each of
    `mult / left / right / output / fourth / constant / public` stores the (reduced) scalar in the coefficient the model
    calls `qm / ql / qr / qo / qf / qc / pi` (and `public` raises the flag); `a / b / c / d` set the wire of that name;
    `coeff` / `witness` / `has_public_input` read them back. -/
theorem constraint_setters_are_the_source (s : Constraint) (v w : Nat) (r : Selector) (x : WiredWitness) :
    RConstraint.new = ({} : Constraint) ∧ RConstraint.default_ = ({} : Constraint) ∧
    RConstraint.mult s v = { s with qm := v % R } ∧ RConstraint.left s v = { s with ql := v % R } ∧
    RConstraint.right s v = { s with qr := v % R } ∧ RConstraint.output s v = { s with qo := v % R } ∧
    RConstraint.fourth s v = { s with qf := v % R } ∧ RConstraint.constant_ s v = { s with qc := v % R } ∧
    RConstraint.public_ s v = { s with pi := v % R, hasPi := true } ∧
    RConstraint.a s w = { s with a := w } ∧ RConstraint.b s w = { s with b := w } ∧
    RConstraint.c s w = { s with c := w } ∧ RConstraint.d s w = { s with d := w } ∧
    RConstraint.set s r v = setSel s (v % R) r ∧ RConstraint.coeff s r = getSel s r ∧
    RConstraint.set_witness s x w = setWire s w x ∧ RConstraint.witness s x = getWire s x ∧
    RConstraint.has_public_input s = s.hasPi :=
  ⟨new_eq, default_eq, mult_eq s v, left_eq s v, right_eq s v, output_eq s v, fourth_eq s v, constant_eq s v,
   public_eq s v, a_eq s w, b_eq s w, c_eq s w, d_eq s w, set_eq s r v, coeff_eq s r, set_witness_eq s x w,
   witness_eq s x, has_public_input_eq s⟩

/-- **`Constraint` builder, internal selectors.** `from_external` keeps exactly the seven external coefficients, the
    wires and the flag; `arithmetic / range / logic / logic_xor / group_add_fixed_base / group_add_variable_base` are
    the model's functions (which selector is raised, with which value — `logic` also sets `q_c := 1`, `logic_xor`
    sets both to `−1`). -/
theorem constraint_selectors_are_the_source :
    RConstraint.from_external = Constraint.fromExternal ∧
    RConstraint.arithmetic = Constraint.arithmetic ∧ RConstraint.range = Constraint.range ∧
    RConstraint.logic = Constraint.logic ∧ RConstraint.logic_xor = Constraint.logicXor ∧
    RConstraint.group_add_fixed_base = Constraint.groupAddFixedBase ∧
    RConstraint.group_add_variable_base = Constraint.groupAddVariableBase :=
  ⟨from_external_eq, arithmetic_eq, range_eq, logic_eq, logic_xor_eq, group_add_fixed_base_eq,
   group_add_variable_base_eq⟩

/-- **Witness / point handles** are erased newtypes: `Witness::new(i)` is `i`, `Composer::ZERO / ONE` are witnesses 0
    and 1, `WitnessPoint::new(x, y)` is the pair, `.x()` / `.y()` its components (also through
    `TorsionFreeWitnessPoint`). -/
theorem handles_are_the_source (i x y : Nat) (p : Pt) :
    RWitness.new i = i ∧ RWitness.index i = i ∧
    RComposer.ZERO = Composer.ZERO ∧ RComposer.ONE = Composer.ONE ∧
    RWitnessPoint.new x y = (x, y) ∧ RWitnessPoint.x p = p.1 ∧ RWitnessPoint.y p = p.2 ∧
    RTorsionFreeWitnessPoint.new_unchecked p = p ∧ RTorsionFreeWitnessPoint.x p = p.1 ∧
    RTorsionFreeWitnessPoint.y p = p.2 ∧ RWitnessPoint.from_ p = p :=
  ⟨rfl, rfl, rfl, rfl, rfl, rfl, rfl, rfl, rfl, rfl, rfl⟩

/-- **Composer primitives** (`src/composer.rs`): reading a witness, allocating one, appending a (custom / arithmetic)
    gate — the gate row is built from the coefficient of the selector of the same name, the public input goes to the
    sparse map under the row index — `append_evaluated_output` (the solved output incl. the two fast paths and the
    inversion), `gate_add`, `gate_mul`, `assert_equal`, `assert_equal_constant`, `append_constant`, `append_public`,
    the two dummy gates and `Composer::initialized()`. -/
theorem composer_primitives_are_the_source :
    RComposer.index = getVal ∧
    (∀ v c, (RComposer.append_witness_internal v).run c = (c.wit.size, { c with wit := c.wit.push v })) ∧
    RComposer.append_witness = appendWitness ∧
    RComposer.append_custom_gate_internal = appendCustomGate ∧
    RComposer.append_custom_gate = appendCustomGate ∧
    RComposer.append_gate = appendGate ∧
    RComposer.append_evaluated_output = appendEvaluatedOutput ∧
    RComposer.gate_add = gateAdd ∧ RComposer.gate_mul = gateMul ∧
    RComposer.assert_equal = assertEqual ∧ RComposer.assert_equal_constant = assertEqualConstant ∧
    RComposer.append_constant = appendConstant ∧ RComposer.append_public = appendPublic ∧
    RComposer.append_dummy_gates = appendDummyGates ∧
    RComposer.uninitialized = ({} : Composer) ∧ RComposer.initialized = Composer.initialized :=
  ⟨index_eq, append_witness_internal_eq, append_witness_eq, append_custom_gate_internal_eq, append_custom_gate_eq,
   append_gate_eq, append_evaluated_output_eq, gate_add_eq, gate_mul_eq, assert_equal_eq, assert_equal_constant_eq,
   append_constant_eq, append_public_eq, append_dummy_gates_eq, uninitialized_eq, initialized_eq⟩

/-- the raw-limb constants of the source: the `MINUS_ONE` fast-path constant of `append_evaluated_output` is `−1`, and
    `EIGHT_INV` of `point.rs` is the constant the model (and C13) uses -/
theorem source_constants :
    fromMontLimbs [0xfffffffd00000003, 0xfb38ec08fffb13fc, 0x99ad88181ce5880f, 0x5bc8f5f97cd877d8] = R - 1 ∧
    EIGHT_INV = Generated.EIGHT_INV :=
  ⟨minus_one_limbs, eight_inv_eq⟩

/-- `gate_add` / `gate_mul` call `.expect(..)` on the result of `append_evaluated_output`; the translator models the
    panic of `None` by witness 0. The `None` arm is dead: with `q_O = −1` the output is always solved. -/
theorem gate_add_never_panics (s : Constraint) (c : Composer) :
    ((RComposer.append_evaluated_output (RConstraint.output (RConstraint.arithmetic s) (fneg (intoScalar 1)))).run c).1
      ≠ none := by
  rw [append_evaluated_output_eq, arithmetic_eq]
  have h : RConstraint.output (Constraint.arithmetic s) (fneg (intoScalar 1)) = { Constraint.arithmetic s with qo := R - 1 } := rfl
  rw [h]
  have h1 : ((R - 1) == 1 % R) = false := by decide
  simp [appendEvaluatedOutput, h1, bind, StateT.bind, getVal, appendWitness, appendGate, appendCustomGate, pure,
    StateT.pure, StateT.run]

/-- **Boolean and selection components** (`bits.rs`, `select.rs`). -/
theorem bit_and_select_components_are_the_source :
    RComposer.component_boolean = componentBoolean ∧
    RComposer.component_select = componentSelect ∧
    RComposer.component_select_one = componentSelectOne ∧
    RComposer.component_select_zero = componentSelectZero :=
  ⟨component_boolean_eq, component_select_eq, component_select_one_eq, component_select_zero_eq⟩

/-- **Point gadgets** (`point.rs`): allocation (private / constant / public, with the `Z = 0` and subgroup guards and
    their error codes), equality assertions, negation, addition (gate layout AND the host-side witness values: the
    extended mixed addition with its `Z = 0` fallback is the model's affine `edAddOrId`), subtraction, the two point
    muxes, and the torsion-freeness check (`assert_torsion_free_point` returns its argument re-typed; the model's
    function returns `()`). -/
theorem point_gadgets_are_the_source :
    RComposer.append_affine_point = appendAffinePoint ∧
    RComposer.append_point = appendPoint ∧
    RComposer.append_constant_point = appendConstantPoint ∧
    RComposer.append_public_point = appendPublicPoint ∧
    RComposer.assert_equal_point = assertEqualPoint ∧
    RComposer.assert_equal_public_point = assertEqualPublicPoint ∧
    RComposer.add_point_gates = addPointGates ∧
    RComposer.component_add_point = componentAddPoint ∧
    RComposer.component_neg_point = componentNegPoint ∧
    RComposer.component_sub_point = componentSubPoint ∧
    RComposer.select_identity_gates = selectIdentityGates ∧
    RComposer.component_select_identity = componentSelectIdentity ∧
    RComposer.component_select_point = componentSelectPoint ∧
    RComposer.assert_torsion_free_gates = assertTorsionFreeGates ∧
    RComposer.assert_torsion_free_point = (fun p => assertTorsionFreePoint p >>= fun _ => pure p) :=
  ⟨append_affine_point_eq, append_point_eq, append_constant_point_eq, append_public_point_eq, assert_equal_point_eq,
   assert_equal_public_point_eq, add_point_gates_eq, component_add_point_eq, component_neg_point_eq,
   component_sub_point_eq, select_identity_gates_eq, component_select_identity_eq, component_select_point_eq,
   assert_torsion_free_gates_eq, assert_torsion_free_point_eq⟩

/-- non-vacuity: the translated `initialized()` has the 4 gates / 6 witnesses of the model, and the translated
    `component_select` appends 4 gates and 4 witnesses to it -/
example : RComposer.initialized.gates.size = 4 ∧ RComposer.initialized.wit.size = 6 ∧
    ((RComposer.component_select 1 2 3).run RComposer.initialized).2.gates.size = 8 := by decide

end Plonk.Props.ComposerTie
