/-
  C19 — FFT and polynomial kernels equal their mathematical definitions.
  Property theorems: `Plonk/Props/C19Fft.lean` (transforms, thread independence, iterative =
  recursive = DFT) and `Plonk/Props/C19Poly.lean` (polynomial arithmetic, evaluation, Ruffini,
  batch inversion, closed forms); this file adds the constants they rest on.
-/
import Plonk.Props.C19Fft
import Plonk.Props.C19Poly
namespace Plonk.Props.C19
open Plonk
/-- `ROOT_OF_UNITY` is `7^((r−1)/2^32)` -/
theorem root_of_unity_def : ROOT_OF_UNITY = fpow 7 ((R - 1) / 2 ^ 32) := by decide +kernel
theorem root_of_unity_order : fpow ROOT_OF_UNITY (2 ^ 32) = 1 ∧ fpow ROOT_OF_UNITY (2 ^ 31) = R - 1 := by decide +kernel
end Plonk.Props.C19
