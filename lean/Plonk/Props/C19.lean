import Plonk.Model.FFT
namespace Plonk.Props.C19
open Plonk
/-- `ROOT_OF_UNITY` is `7^((r−1)/2^32)` -/
theorem root_of_unity_def : ROOT_OF_UNITY = fpow 7 ((R - 1) / 2 ^ 32) := by decide +kernel
theorem root_of_unity_order : fpow ROOT_OF_UNITY (2 ^ 32) = 1 ∧ fpow ROOT_OF_UNITY (2 ^ 31) = R - 1 := by decide +kernel
end Plonk.Props.C19
