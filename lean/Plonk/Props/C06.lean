/-
  C06 — zero-knowledge masking (model level).

  "Each proof masks the four wire polynomials with independent random degree-1 multiples of the
  domain's vanishing polynomial and the permutation polynomial with a random degree-2 multiple, and
  re-randomises the four quotient shares, drawing each of the 14 masking scalars exactly once from
  the caller's RNG and no other randomness.  Hence every opening in a proof equals the unmasked
  value plus the prescribed mask."

  All theorems are about the model's own `blindPoly`, `splitQuotient`, `takeDraws`, `prove`
  (`Plonk/Model/Prover.lean`); `toPoly p = Σ_i C (toF p[i]) X^i` (`Plonk/Proofs/PolyBridge.lean`).

  What is proved, at full strength (no `_partial` theorem):
  * `blinding_mask_form`, `wire_blinding`, `perm_blinding`, `opening_mask`: the mask form of
    `blind_poly_with_blinders`, as polynomials and as evaluations, for ANY number of blinders
    (the hypothesis "number of blinders ≤ domain size" turned out not to be needed).
  * `split_quotient_mask_form`: the four quotient shares, their telescoping recombination, and the
    exact failure condition of the slicing.
  * `rng_draws`, `rng_prefix`, `draw_partition`: `prove` succeeds only with ≥ 14 draws, reports
    `drawsUsed = 14`, reports `NotEnoughDraws` only with < 14 draws, its whole result (error or
    proof) is a function of the first 14 draws reduced mod r, and those 14 draws are partitioned
    into the six blinder groups `[0,2) [2,4) [4,6) [6,8) [8,11) [11,14)`.
  * `proof_commitments_blinded`: about `prove` itself — the commitments `a b c d z t_low … t_fourth` of
    every proof it outputs are `commit`s of `blindPoly … [b₀,b₁]`, …, `blindPoly perm [b₈,b₉,b₁₀]` and
    of `splitQuotient n t b₁₁ b₁₂ b₁₃`, `b_i = draws[i] mod r`: all 14 scalars, one site each.
  * `proof_openings_masked`: about `prove` itself — in every proof it outputs, the evaluations
    `a b c d` at `z`, `a_w b_w d_w z_w` at `zω` are the unmasked interpolants' values plus
    `(b_i + b_{i+1} x)(xⁿ − 1)` resp. `(b₈ + b₉x + b₁₀x²)(xⁿ − 1)` with `b_i = draws[i]`.

  Forced hypothesis (benign): `0 < n` in the recombination of the quotient shares (with `n = 0`
  the code's `sub0` finds empty slices and the blinders no longer telescope; `n` is a domain size).

  Non-vacuity of the hypothesis `prove k c ds v3 = .ok tr`: the Lean kernel cannot evaluate the
  Merlin/STROBE transcript inside `prove` ("deep recursion"), so no closed `example` of a successful
  `prove` is given here; the instance `exK exC exDraws` below (4 gates, domain of size 4, identity
  permutation) does return `.ok` under `#eval` (and the differential harness compares every such
  run with the Rust prover).  What IS checked by the kernel on that instance: the failure
  `prove exK exC [] = .error .notEnoughDraws`, and all stage-level examples.

  Not covered here (needs a probabilistic model): that the masks make the openings uniformly
  distributed; only the algebraic shape "unmasked value + prescribed mask, each scalar used once"
  is established.
-/
import Plonk.Proofs.ProverMask

namespace Plonk.Props.C06
open Plonk Plonk.ProverMask Polynomial

theorem placeholder_consts : Generated.ADDED_BLINDING_DEGREE = 6 := by decide

/-! ## 1. blinding of the wire and permutation polynomials -/

/-- **Mask form of `blind_poly_with_blinders`.** For every domain returned by
    `EvaluationDomain::new`, every value vector `w` and every blinder list `[b₀,…,b_k]`:
    `blinded = interpolant(w) + (Σ_i b_i X^i)·(Xⁿ − 1)`, with at most `n + k + 1` coefficients. -/
theorem blinding_mask_form (m : Nat) (d : Domain) (hd : Domain.new? m = some d) (w bs : List Nat) :
    toPoly (blindPoly d w bs)
      = toPoly (Poly.ofCoeffs (d.ifft w))
        + (∑ i ∈ Finset.range bs.length, C (toF (bs.getD i 0)) * X ^ i) * (X ^ d.size - 1) ∧
    (blindPoly d w bs).length ≤ d.size + bs.length := by
  have h := Domain.new?_WF m d hd
  exact ⟨by rw [blindPoly_mask_form d h, toPoly_eq_sum bs], blindPoly_length_le d h w bs⟩

/-- a domain of size 4 and a concrete blinding: the two blinders end up as the two top coefficients
    and are subtracted from the two lowest ones -/
example : (Domain.new? 4).map (fun d => blindPoly d [3, 1, 4, 1] [5, 6])
    = (Domain.new? 4).map (fun d =>
        let u := Poly.ofCoeffs (d.ifft [3, 1, 4, 1])
        [fsub (u.getD 0 0) 5, fsub (u.getD 1 0) 6, u.getD 2 0, u.getD 3 0, 5, 6]) := by
  decide +kernel

/-- **Wire polynomials** (two blinders): the mask is the degree-1 multiple `(b₁ + b₂X)(Xⁿ − 1)` of
    the vanishing polynomial, and the blinded polynomial still takes the wire values on the
    domain. -/
theorem wire_blinding (m : Nat) (d : Domain) (hd : Domain.new? m = some d) (w : List Nat)
    (b1 b2 : Nat) :
    toPoly (blindPoly d w [b1, b2])
      = toPoly (Poly.ofCoeffs (d.ifft w)) + (C (toF b1) + C (toF b2) * X) * (X ^ d.size - 1) ∧
    (C (toF b1) + C (toF b2) * X : F[X]).natDegree ≤ 1 ∧
    (blindPoly d w [b1, b2]).length ≤ d.size + 2 ∧
    (w.length = d.size → ∀ i, i < d.size →
      (toPoly (blindPoly d w [b1, b2])).eval (toF d.groupGen ^ i) = toF (w.getD i 0)) := by
  have h := Domain.new?_WF m d hd
  refine ⟨?_, ?_, blindPoly_length_le d h w _, fun hw i hi => blindPoly_interpolates d h w _ hw i hi⟩
  · rw [blindPoly_mask_form d h]; simp only [toPoly_cons, toPoly_nil]; ring
  · have e : (C (toF b1) + C (toF b2) * X : F[X]) = toPoly [b1, b2] := by
      simp only [toPoly_cons, toPoly_nil]; ring
    have := natDegree_toPoly_lt [b1, b2] (by simp)
    rw [e]
    simp only [List.length_cons, List.length_nil] at this
    omega

example : ∃ d, Domain.new? 4 = some d ∧ ([3, 1, 4, 1] : List Nat).length = d.size := by
  obtain ⟨d, hd⟩ : ∃ d, Domain.new? 4 = some d := Option.isSome_iff_exists.mp (by decide +kernel)
  refine ⟨d, hd, ?_⟩
  have : (Domain.new? 4).map (·.size) = some 4 := by decide +kernel
  rw [hd] at this
  simpa using (Option.some.inj this).symm

/-- **Permutation polynomial** (three blinders): mask `(b₁ + b₂X + b₃X²)(Xⁿ − 1)`. -/
theorem perm_blinding (m : Nat) (d : Domain) (hd : Domain.new? m = some d) (w : List Nat)
    (b1 b2 b3 : Nat) :
    toPoly (blindPoly d w [b1, b2, b3])
      = toPoly (Poly.ofCoeffs (d.ifft w))
        + (C (toF b1) + C (toF b2) * X + C (toF b3) * X ^ 2) * (X ^ d.size - 1) ∧
    (C (toF b1) + C (toF b2) * X + C (toF b3) * X ^ 2 : F[X]).natDegree ≤ 2 ∧
    (blindPoly d w [b1, b2, b3]).length ≤ d.size + 3 ∧
    (w.length = d.size → ∀ i, i < d.size →
      (toPoly (blindPoly d w [b1, b2, b3])).eval (toF d.groupGen ^ i) = toF (w.getD i 0)) := by
  have h := Domain.new?_WF m d hd
  refine ⟨?_, ?_, blindPoly_length_le d h w _, fun hw i hi => blindPoly_interpolates d h w _ hw i hi⟩
  · rw [blindPoly_mask_form d h]; simp only [toPoly_cons, toPoly_nil]; ring
  · have e : (C (toF b1) + C (toF b2) * X + C (toF b3) * X ^ 2 : F[X]) = toPoly [b1, b2, b3] := by
      simp only [toPoly_cons, toPoly_nil]; ring
    have := natDegree_toPoly_lt [b1, b2, b3] (by simp)
    rw [e]
    simp only [List.length_cons, List.length_nil] at this
    omega

example : (Domain.new? 4).map (fun d => (blindPoly d [1, 5, 25, 125] [7, 8, 9]).drop 4)
    = some [7, 8, 9] := by decide +kernel

/-- **Every opening of a blinded polynomial equals the unmasked value plus the mask**
    `(Σ_i b_i zⁱ)(zⁿ − 1)` (values of the model's own `Poly.evaluate`). -/
theorem opening_mask (m : Nat) (d : Domain) (hd : Domain.new? m = some d) (w bs : List Nat)
    (z : Nat) :
    toF (Poly.evaluate (blindPoly d w bs) z)
      = toF (Poly.evaluate (Poly.ofCoeffs (d.ifft w)) z)
        + (∑ i ∈ Finset.range bs.length, toF (bs.getD i 0) * toF z ^ i) * (toF z ^ d.size - 1) := by
  rw [blindPoly_eval d (Domain.new?_WF m d hd), toPoly_eq_sum]
  simp [eval_finsetSum]

example : (Domain.new? 4).map (fun d => fsub (Poly.evaluate (blindPoly d [3, 1, 4, 1] [5, 6]) 2)
      (Poly.evaluate (Poly.ofCoeffs (d.ifft [3, 1, 4, 1])) 2)) = some ((5 + 6 * 2) * (2 ^ 4 - 1)) := by
  decide +kernel

/-! ## 2. re-randomised split of the quotient -/

/-- **Quotient shares.** `splitQuotient` fails exactly when `t` has at most `3n` coefficients (the
    Rust slicing `t_poly[3n..]` / `t_fourth_vec[0]` panics); otherwise each share is its slice plus
    its mask `+b₁₂Xⁿ`, `−b₁₂ + b₁₃Xⁿ`, `−b₁₃ + b₁₄Xⁿ`, `−b₁₄`, the shares have at most `n + 1`
    (resp. `|t| − 3n`) coefficients, and — the blinders telescope — they recombine to `t`. -/
theorem split_quotient_mask_form (n : Nat) (t : Poly) (b12 b13 b14 : Nat) :
    (splitQuotient n t b12 b13 b14 = none ↔ t.length ≤ 3 * n) ∧
    ∀ tl tm th tf, splitQuotient n t b12 b13 b14 = some (tl, tm, th, tf) → 0 < n →
      toPoly tl = toPoly (t.take n) + C (toF b12) * X ^ n ∧
      toPoly tm = toPoly ((t.drop n).take n) - C (toF b12) + C (toF b13) * X ^ n ∧
      toPoly th = toPoly ((t.drop (2 * n)).take n) - C (toF b13) + C (toF b14) * X ^ n ∧
      toPoly tf = toPoly (t.drop (3 * n)) - C (toF b14) ∧
      toPoly (t.take n) + X ^ n * toPoly ((t.drop n).take n)
        + X ^ (2 * n) * toPoly ((t.drop (2 * n)).take n) + X ^ (3 * n) * toPoly (t.drop (3 * n))
        = toPoly t ∧
      toPoly tl + X ^ n * toPoly tm + X ^ (2 * n) * toPoly th + X ^ (3 * n) * toPoly tf = toPoly t ∧
      tl.length ≤ n + 1 ∧ tm.length ≤ n + 1 ∧ th.length ≤ n + 1 ∧ tf.length ≤ t.length - 3 * n := by
  refine ⟨splitQuotient_none_iff n t b12 b13 b14, fun tl tm th tf h hn => ?_⟩
  obtain ⟨hlen, h1, h2, h3, h4⟩ := splitQuotient_mask_form hn h
  obtain ⟨l1, l2, l3, l4⟩ := splitQuotient_lengths h
  exact ⟨h1, h2, h3, h4, slices_recombine t n (by omega), split_recombine hn h, l1, l2, l3, l4⟩

example : splitQuotient 4 [1, 2, 3, 4, 5, 6, 7, 8, 9, 10, 11, 12, 13, 14] 21 22 23
    = some ([1, 2, 3, 4, 21], [fsub 5 21, 6, 7, 8, 22], [fsub 9 22, 10, 11, 12, 23], [fsub 13 23, 14])
    ∧ 0 < 4 := by
  decide +kernel

example : splitQuotient 4 [1, 2, 3, 4, 5, 6, 7, 8, 9, 10, 11, 12] 21 22 23 = none := by
  decide +kernel

/-! ## 3. the 14 masking scalars and the caller's RNG -/

/-- the instance used for the examples about `prove`: 4 gates without selectors, 16 distinct
    witnesses, identity permutation, domain of size 4 -/
def exC : Composer :=
  { gates := #[{a := 0, b := 1, c := 2, d := 3}, {a := 4, b := 5, c := 6, d := 7},
               {a := 8, b := 9, c := 10, d := 11}, {a := 12, b := 13, c := 14, d := 15}],
    wit := #[3, 1, 4, 1, 5, 9, 2, 6, 5, 3, 5, 8, 9, 7, 9, 3] }

def exSigma : Array Poly := #[[0, 1], [0, Generated.K1], [0, Generated.K2], [0, Generated.K3]]

def exK : PKey :=
  match Domain.new? 32 with
  | none => default
  | some d8 =>
    { n := 4, constraints := 4, label := [], sel := #[], sigma := exSigma, vk := default,
      piIndexes := [], x := 5, g := .inf, ckLen := 64, lay := exC,
      selE := #[], sigE8 := exSigma.map fun p => (d8.cosetFft p).toArray,
      linE := (d8.cosetFft [0, 1]).toArray, vh := (d8.vanishingOverCoset 4).toArray }

def exDraws : List Nat := [11, 12, 13, 14, 15, 16, 17, 18, 19, 20, 21, 22, 23, 24]

/-- **RNG draws.** A successful `prove` has consumed exactly the 14 masking scalars (it needs at
    least 14 draws and reports `drawsUsed = 14`), and `NotEnoughDraws` is reported only when fewer
    than 14 draws are available. -/
theorem rng_draws (k : PKey) (c : Composer) (ds : List Nat) (v3 : Bool) :
    (∀ tr, prove k c ds v3 = .ok tr → 14 ≤ ds.length ∧ tr.drawsUsed = 14) ∧
    (prove k c ds v3 = .error .notEnoughDraws → ds.length < 14) :=
  ⟨fun _ h => ⟨prove_ok_reads h, prove_ok_drawsUsed h⟩, prove_notEnoughDraws_lt⟩

/-- the failure branch is reachable (kernel-checked on the domain-of-size-4 instance) -/
example : prove exK exC [] true = .error .notEnoughDraws := by
  have : (match prove exK exC [] true with | .error .notEnoughDraws => true | _ => false) = true := by
    decide +kernel
  split at this
  · assumption
  · cases this

/-- **No other randomness.** The whole result of `prove` (proof, challenges or error) is a function
    of the first 14 draws reduced mod r: extra draws are never read. -/
theorem rng_prefix (k : PKey) (c : Composer) (v3 : Bool) :
    (∀ ds ds' : List Nat, 14 ≤ ds.length → 14 ≤ ds'.length →
      (ds.take 14).map (· % R) = (ds'.take 14).map (· % R) → prove k c ds v3 = prove k c ds' v3) ∧
    (∀ ds extra : List Nat, ds.length = 14 → prove k c (ds ++ extra) v3 = prove k c ds v3) :=
  ⟨fun ds ds' => prove_first_14 k c v3 ds ds', fun ds extra => prove_append k c v3 ds extra⟩

example : 14 ≤ exDraws.length ∧ 14 ≤ (exDraws ++ [99, 100]).length ∧
    (exDraws.take 14).map (· % R) = ((exDraws ++ [99, 100]).take 14).map (· % R) := by decide +kernel

/-- **Each scalar exactly once.** The three reads of `prove` (`takeDraws 8`, `3`, `3`) succeed
    exactly on the first 14 draws, which they partition; the blinder lists handed to the blinding
    sites (`a`: `wb.take 2`, `b`: `(wb.drop 2).take 2`, `c`, `d`, `z`: `zb`, quotient: `tb[0..3)`)
    are the consecutive slices `[0,2) [2,4) [4,6) [6,8) [8,11) [11,14)` of the draw list. -/
theorem draw_partition (ds : List Nat) (h : 14 ≤ ds.length) :
    let wb := (ds.take 8).map (· % R)
    let zb := ((ds.drop 8).take 3).map (· % R)
    let tb := ((ds.drop 11).take 3).map (· % R)
    takeDraws 8 ds = some (wb, ds.drop 8) ∧
    takeDraws 3 (ds.drop 8) = some (zb, ds.drop 11) ∧
    takeDraws 3 (ds.drop 11) = some (tb, ds.drop 14) ∧
    wb.take 2 = [ds.getD 0 0 % R, ds.getD 1 0 % R] ∧
    (wb.drop 2).take 2 = [ds.getD 2 0 % R, ds.getD 3 0 % R] ∧
    (wb.drop 4).take 2 = [ds.getD 4 0 % R, ds.getD 5 0 % R] ∧
    (wb.drop 6).take 2 = [ds.getD 6 0 % R, ds.getD 7 0 % R] ∧
    zb = [ds.getD 8 0 % R, ds.getD 9 0 % R, ds.getD 10 0 % R] ∧
    tb.getD 0 0 = ds.getD 11 0 % R ∧ tb.getD 1 0 = ds.getD 12 0 % R ∧
    tb.getD 2 0 = ds.getD 13 0 % R ∧
    ds.take 14 = ds.take 2 ++ (ds.drop 2).take 2 ++ (ds.drop 4).take 2 ++ (ds.drop 6).take 2
                  ++ (ds.drop 8).take 3 ++ (ds.drop 11).take 3 := by
  obtain ⟨h8, h3, h3b⟩ := takeDraws_stages ds h
  obtain ⟨s1, s2, s3, s4, s5⟩ := draw_sites ds
  have t0 := take_drop_two ds 0 (by omega)
  rw [List.drop_zero] at t0
  refine ⟨h8, h3, h3b, ?_, ?_, ?_, ?_, ?_, ?_, ?_, ?_, s5⟩
  · rw [s1, t0]; rfl
  · rw [s2, take_drop_two ds 2 (by omega)]; rfl
  · rw [s3, take_drop_two ds 4 (by omega)]; rfl
  · rw [s4, take_drop_two ds 6 (by omega)]; rfl
  · rw [take_drop_three ds 8 (by omega)]; rfl
  · exact getD_map_mod_take_drop ds 11 0 (by omega) (by omega)
  · exact getD_map_mod_take_drop ds 11 1 (by omega) (by omega)
  · exact getD_map_mod_take_drop ds 11 2 (by omega) (by omega)

example : 14 ≤ exDraws.length := by decide

/-- with fewer than 14 draws one of the three reads fails -/
theorem draw_shortage (ds : List Nat) :
    (takeDraws 8 ds = none ∨
      (∃ wb d1, takeDraws 8 ds = some (wb, d1) ∧
        (takeDraws 3 d1 = none ∨ ∃ zb d2, takeDraws 3 d1 = some (zb, d2) ∧ takeDraws 3 d2 = none)))
      ↔ ds.length < 14 := by
  constructor
  · exact takeDraws_fail_lt
  · intro h
    rcases h8 : takeDraws 8 ds with _ | ⟨wb, d1⟩
    · exact Or.inl rfl
    refine Or.inr ⟨wb, d1, rfl, ?_⟩
    rcases h3 : takeDraws 3 d1 with _ | ⟨zb, d2⟩
    · exact Or.inl rfl
    refine Or.inr ⟨zb, d2, rfl, ?_⟩
    rcases h3b : takeDraws 3 d2 with _ | ⟨tb, d3⟩
    · rfl
    · have := (takeDraws_stages_inv h8 h3 h3b).1; omega

example : takeDraws 8 (exDraws.take 9) = some ((exDraws.take 8).map (· % R), [19]) ∧
    takeDraws 3 [19] = none := by decide +kernel

/-! ## 4. the openings of a proof -/

/-- **Every opening in a proof equals the unmasked value plus the prescribed mask.**  If `prove`
    returns a proof then, with `d` the proving domain (`n = d.size`), `z` the evaluation challenge,
    `u_w` the unmasked interpolant `ifft w` of a wire column `w` (resp. of the permutation vector
    `perm` computed from the transcript's `β, γ`) and `b_i = draws[i]`:
    `a(z) = u_a(z) + (b₀ + b₁z)(zⁿ − 1)`, …, `d(z) = u_d(z) + (b₆ + b₇z)(zⁿ − 1)`, the same at `zω`
    for `a_w, b_w, d_w`, and `z_w = u_perm(zω) + (b₈ + b₉zω + b₁₀(zω)²)((zω)ⁿ − 1)`. -/
theorem proof_openings_masked (k : PKey) (c : Composer) (ds : List Nat) (v3 : Bool)
    (tr : ProveTrace) (h : prove k c ds v3 = .ok tr) :
    ∃ d perm, Domain.new? k.constraints = some d ∧
      permVec d.size d.elements (wireCol k c (·.a)) (wireCol k c (·.b)) (wireCol k c (·.c))
        (wireCol k c (·.d)) ((List.range 4).map fun i => d.fft (k.sigma.getD i []))
        tr.ch.beta tr.ch.gamma = some perm ∧
      let n := d.size
      let z : F := toF tr.ch.z
      let zw : F := toF tr.ch.z * toF d.groupGen
      let u (w : List Nat) (x : F) : F := (toPoly (Poly.ofCoeffs (d.ifft w))).eval x
      let b (i : Nat) : Nat := ds.getD i 0
      toF tr.proof.ev.a = u (wireCol k c (·.a)) z + mask2 n (b 0) (b 1) z ∧
      toF tr.proof.ev.b = u (wireCol k c (·.b)) z + mask2 n (b 2) (b 3) z ∧
      toF tr.proof.ev.c = u (wireCol k c (·.c)) z + mask2 n (b 4) (b 5) z ∧
      toF tr.proof.ev.d = u (wireCol k c (·.d)) z + mask2 n (b 6) (b 7) z ∧
      toF tr.proof.ev.aw = u (wireCol k c (·.a)) zw + mask2 n (b 0) (b 1) zw ∧
      toF tr.proof.ev.bw = u (wireCol k c (·.b)) zw + mask2 n (b 2) (b 3) zw ∧
      toF tr.proof.ev.dw = u (wireCol k c (·.d)) zw + mask2 n (b 6) (b 7) zw ∧
      toF tr.proof.ev.z = u perm zw + mask3 n (b 8) (b 9) (b 10) zw :=
  prove_openings_masked h

/-- **The commitments of a proof are commitments to the blinded polynomials**, and all 14 draws
    `b_i = draws[i] mod r` are used, each at exactly one site: `b₀b₁ | b₂b₃ | b₄b₅ | b₆b₇` blind the wire
    polynomials `a b c d`, `b₈b₉b₁₀` the permutation polynomial, `b₁₁b₁₂b₁₃` re-randomise the
    quotient shares (`t` is the quotient computed by the prover; the forms of all these polynomials
    are given by `wire_blinding`, `perm_blinding`, `split_quotient_mask_form`). -/
theorem proof_commitments_blinded (k : PKey) (c : Composer) (ds : List Nat) (v3 : Bool)
    (tr : ProveTrace) (h : prove k c ds v3 = .ok tr) :
    ∃ d perm, Domain.new? k.constraints = some d ∧
      permVec d.size d.elements (wireCol k c (·.a)) (wireCol k c (·.b)) (wireCol k c (·.c))
        (wireCol k c (·.d)) ((List.range 4).map fun i => d.fft (k.sigma.getD i []))
        tr.ch.beta tr.ch.gamma = some perm ∧
      let b (i : Nat) : Nat := ds.getD i 0 % R
      commit4 k (blindPoly d (wireCol k c (·.a)) [b 0, b 1])
          (blindPoly d (wireCol k c (·.b)) [b 2, b 3])
          (blindPoly d (wireCol k c (·.c)) [b 4, b 5])
          (blindPoly d (wireCol k c (·.d)) [b 6, b 7])
        = .ok (tr.proof.aC, tr.proof.bC, tr.proof.cC, tr.proof.dC) ∧
      commitT k (blindPoly d perm [b 8, b 9, b 10]) = .ok tr.proof.zC ∧
      ∃ t tl tm th tf, t.length ≤ 7 * d.size ∧
        splitQuotient d.size t (b 11) (b 12) (b 13) = some (tl, tm, th, tf) ∧
        commit4 k tl tm th tf
          = .ok (tr.proof.tLow, tr.proof.tMid, tr.proof.tHigh, tr.proof.tFourth) :=
  prove_commitments_blinded h

/-- stage-level instance on the size-4 domain: the four blinded wire polynomials of `exC` with the
    draws `exDraws` are accepted by `commit4` under the key `exK` -/
example : (Domain.new? exK.constraints).map (fun d =>
      match commit4 exK (blindPoly d (wireCol exK exC (·.a)) [11, 12])
          (blindPoly d (wireCol exK exC (·.b)) [13, 14]) (blindPoly d (wireCol exK exC (·.c)) [15, 16])
          (blindPoly d (wireCol exK exC (·.d)) [17, 18]) with
      | .ok _ => true | .error _ => false) = some true := by decide +kernel

/-- the masks of `proof_openings_masked`, spelled out -/
theorem mask_def (n b1 b2 b3 : Nat) (x : F) :
    mask2 n b1 b2 x = (toF b1 + toF b2 * x) * (x ^ n - 1) ∧
    mask3 n b1 b2 b3 x = (toF b1 + toF b2 * x + toF b3 * x ^ 2) * (x ^ n - 1) := ⟨rfl, rfl⟩

/-- the wire columns of the instance are the padded witness columns (size-4 domain, non-trivial) -/
example : wireCol exK exC (·.a) = [3, 5, 5, 9] ∧ wireCol exK exC (·.d) = [1, 6, 8, 3] ∧
    (Domain.new? exK.constraints).map (·.size) = some 4 := by decide +kernel

end Plonk.Props.C06
