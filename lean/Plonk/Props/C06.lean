import Plonk.Model.Prover
namespace Plonk.Props.C06
open Plonk
theorem placeholder_consts : Generated.ADDED_BLINDING_DEGREE = 6 := by decide
end Plonk.Props.C06
