/-
  C16 — serialization round trips preserve keys, proofs and parameters; proof encoding is canonical.

  All statements are about the model's own codecs (`Plonk/Model/{Bls,Verifier,Codec}.lean`), the ones
  the driver compares with the Rust decoders.  `AllBytes bs` says that `bs` is a list of bytes
  (entries `< 256`); it is needed only by the canonicity statements (the model lists are `List Nat`).

  Status.
  * Full: byte/value round trips (LE and BE), canonical scalars, compressed `G1` (round trip and
    canonicity; `P` is proved prime in `Proofs/PrimeP.lean`, so no primality hypothesis is left),
    proofs (round trip on the 1008-byte prefix, canonicity), verifier keys (round trip; canonicity on
    the 728 bytes that are read — the trailing 240 bytes of the 968-byte buffer are ignored by the
    decoder, so canonicity cannot say anything about them), evaluation vectors, raw (Montgomery)
    `G1` points and raw commit keys, public parameters.
  * With an explicit hypothesis: opening keys, verifiers and public parameters contain two `G2`
    points; their own compressed round trip (`G2.fromCompressed? p.toCompressed = some p`) goes through
    the `F_p²` square root of the external crate, which is modelled but not verified here, so it is a
    hypothesis (`hh`, `hxh` / `hok`).  It is discharged by kernel evaluation for the generator in the
    examples.
  * Forced hypotheses (findings, all benign): `verifier_roundtrip` needs the total length
    `label + 968 + 240 + 8·#indices < 2^64` (otherwise the decoder's checked additions fail with
    `notEnoughBytes`), indices / size / constraints `< 2^64` (8-byte fields), and the existence of the
    domain of `vk.n` (`Verifier::new` fails otherwise).  `commitkey_raw_roundtrip` needs a non-empty key
    (the decoder rejects `len = 0`) whose encoding fits `usize`.  `pp_roundtrip` needs a non-empty commit
    key (the decoder rejects inputs of at most 240 bytes).
  * `pkey_roundtrip` / `prover_roundtrip` are full round trips for well-formed keys (`PKeyRaw.WF`, the
    same predicate that `C17.pkey_wf` shows for every accepted key; it includes that the polynomials
    are stored trimmed — no trailing zero coefficient: the decoder trims, so an untrimmed polynomial
    cannot come back), plus the conditions checked by `Prover::new`; both are forced.  Nothing is
    `_partial`.
-/
import Plonk.Proofs.CodecExamples
import Plonk.Proofs.CodecAllBytes

-- sequential elaboration (thread creation fails under the memory cap of the shared machine)
set_option Elab.async false

namespace Plonk.Props.C16
open Plonk Plonk.CodecEx

/-- the Montgomery radix used by the raw commit-key codec -/
theorem mont_r_inv : pmul MONT_R MONT_RINV = 1 := by decide +kernel

/-- the two field moduli the codecs rely on are prime (Pratt certificates) -/
theorem moduli_prime : Nat.Prime P ∧ Nat.Prime R ∧ Nat.Prime RJ := ⟨P_prime, R_prime, RJ_prime⟩

/-! ### bytes -/

/-- value → bytes → value, little and big endian -/
theorem bytes_value_roundtrip {v len : Nat} (h : v < 256 ^ len) :
    bytesToNatLE (natToBytesLE v len) = v ∧ bytesToNatBE (natToBytesBE v len) = v ∧
    (natToBytesLE v len).length = len ∧ (natToBytesBE v len).length = len :=
  ⟨bytesToNatLE_natToBytesLE h, bytesToNatBE_natToBytesBE h, natToBytesLE_length _ _, natToBytesBE_length _ _⟩

example : (300 : Nat) < 256 ^ 2 := by norm_num

/-- bytes → value → bytes, little and big endian -/
theorem bytes_bytes_roundtrip {bs : List Nat} (h : AllBytes bs) :
    natToBytesLE (bytesToNatLE bs) bs.length = bs ∧ natToBytesBE (bytesToNatBE bs) bs.length = bs :=
  ⟨natToBytesLE_bytesToNatLE h, natToBytesBE_bytesToNatBE h⟩

example : AllBytes [1, 0, 255] := by intro b hb; simp at hb; rcases hb with rfl | rfl | rfl <;> norm_num

/-- scalar round trip -/
theorem scalar_roundtrip {x : Nat} (h : x < R) : scalarFromBytes? (scalarBytesLE x) = some x :=
  scalarFromBytes_scalarBytesLE h

example : R - 1 < R := by decide +kernel

/-- scalar decoding is canonical -/
theorem scalar_canonical {bs : List Nat} {x : Nat} (hb : AllBytes bs) (h : scalarFromBytes? bs = some x) :
    scalarBytesLE x = bs ∧ x < R :=
  scalarFromBytes_canonical hb h

example : AllBytes (scalarBytesLE 5) ∧ scalarFromBytes? (scalarBytesLE 5) = some 5 :=
  ⟨scalarBytesLE_allBytes 5, scalarFromBytes_scalarBytesLE (by decide +kernel)⟩

/-! ### compressed `G1` -/

/-- compressed round trip, without and with the subgroup check (`G1.Valid`: the identity, or reduced
    coordinates on the curve).  No exclusion of `y = 0` is needed: the decoder's choice between `y` and
    `−y` is right in every case. -/
theorem g1_compressed_roundtrip {p : G1} (hp : p.Valid) :
    G1.fromCompressedUnchecked? p.toCompressed = some p ∧
    (p.torsionFree = true → G1.fromCompressed? p.toCompressed = some p) :=
  ⟨G1.fromCompressedUnchecked_toCompressed hp, fun ht => G1.fromCompressed_toCompressed hp ht⟩

example : G1.gen.Valid ∧ G1.gen.torsionFree = true := gen_ok

/-- compressed decoding is canonical (flag bits, `x < p`, the identity exactly `c0 00 … 00`; it uses that
    the curve has no point with `y = 0`, i.e. `−4` is not a cube in `F_p`, which is proved) -/
theorem g1_compressed_canonical {bs : List Nat} {p : G1} (hb : AllBytes bs)
    (h : G1.fromCompressedUnchecked? bs = some p) : p.toCompressed = bs :=
  (G1.fromCompressedUnchecked_spec h).1 hb

example : AllBytes G1.gen.toCompressed ∧ G1.fromCompressedUnchecked? G1.gen.toCompressed = some G1.gen :=
  ⟨G1.toCompressed_allBytes gen_valid, G1.fromCompressedUnchecked_toCompressed gen_valid⟩

/-! ### proofs -/

/-- proof round trip; longer inputs: the 1008-byte prefix is read -/
theorem proof_roundtrip {p : ProofM} (hp : p.WF) (extra : List Nat) :
    ProofM.fromBytes? p.toBytes = some p ∧ ProofM.fromBytes? (p.toBytes ++ extra) = some p ∧
    p.toBytes.length = 1008 :=
  ⟨ProofM.fromBytes_toBytes hp, ProofM.fromBytes_toBytes_append hp extra, ProofM.toBytes_length p⟩

example : exProof.WF := exProof_wf

/-- **proof encoding is canonical**: any byte string the proof decoder accepts re-encodes to itself
    (to its 1008-byte prefix when it is longer) -/
theorem proof_canonical {bs : List Nat} {p : ProofM} (hb : AllBytes bs) (h : ProofM.fromBytes? bs = some p) :
    p.toBytes = bs.take 1008 :=
  ProofM.fromBytes_canonical hb h

theorem proof_canonical_exact {bs : List Nat} {p : ProofM} (hb : AllBytes bs) (hl : bs.length = 1008)
    (h : ProofM.fromBytes? bs = some p) : p.toBytes = bs := by
  rw [ProofM.fromBytes_canonical hb h, ← hl, List.take_length]

example : AllBytes exProof.toBytes ∧ ProofM.fromBytes? exProof.toBytes = some exProof ∧
    exProof.toBytes.length = 1008 :=
  ⟨ProofM.toBytes_allBytes exProof_wf, ProofM.fromBytes_toBytes exProof_wf, ProofM.toBytes_length _⟩

/-! ### verifier keys -/

/-- verifier-key round trip (968-byte buffer) -/
theorem vkey_roundtrip {k : VKey} (hk : k.WF) : VKey.fromBytes? k.toBytes = some k ∧ k.toBytes.length = 968 :=
  ⟨VKey.fromBytes_toBytes hk, VKey.toBytes_length k⟩

example : (exVKey 4).WF := exVKey_wf 4 (by norm_num)

/-- verifier-key decoding is canonical on the bytes it reads: 8 + 15·48 = 728; the 240 trailing bytes of
    the buffer are ignored by the decoder (`k.toBytes = k.body ++ 240 zero bytes`) -/
theorem vkey_canonical {bs : List Nat} {k : VKey} (hb : AllBytes bs) (h : VKey.fromBytes? bs = some k) :
    k.body = bs.take 728 ∧ k.toBytes = bs.take 728 ++ List.replicate 240 0 := by
  have := VKey.fromBytes_canonical hb h
  exact ⟨this, by rw [VKey.toBytes_eq, this]⟩

example : AllBytes (exVKey 4).toBytes ∧ VKey.fromBytes? (exVKey 4).toBytes = some (exVKey 4) :=
  ⟨VKey.toBytes_allBytes (exVKey_wf 4 (by norm_num)), VKey.fromBytes_toBytes (exVKey_wf 4 (by norm_num))⟩

/-! ### opening keys, verifiers, public parameters -/

/-- opening-key round trip (`G2` round trips as hypotheses, see the header) -/
theorem openingkey_roundtrip {k : OpeningKeyM} (hg : k.g.Valid ∧ k.g.torsionFree = true)
    (hh : G2.fromCompressed? k.h.toCompressed = some k.h)
    (hxh : G2.fromCompressed? k.xh.toCompressed = some k.xh)
    (hne : k.g ≠ .inf ∧ k.h ≠ .inf ∧ k.xh ≠ .inf) :
    OpeningKeyM.fromBytes? k.toBytes = some k ∧ k.toBytes.length = 240 :=
  ⟨OpeningKeyM.fromBytes_toBytes hg hh hxh hne, OpeningKeyM.toBytes_length k⟩

example : OpeningKeyM.fromBytes? exOK.toBytes = some exOK := exOK_roundtrip

/-- verifier round trip -/
theorem verifier_roundtrip {v : VerifierM} (hvk : v.vk.WF)
    (hok : OpeningKeyM.fromBytes? v.ok.toBytes = some v.ok)
    (hd : (Domain.new? v.vk.n).isSome = true) (hpi : ∀ i ∈ v.piIndexes, i < 2 ^ 64)
    (hs : v.size < 2 ^ 64) (hc : v.constraints < 2 ^ 64)
    (hfit : v.label.length + 968 + 240 + 8 * v.piIndexes.length < 2 ^ 64) :
    VerifierM.fromBytes v.toBytes = .ok v :=
  VerifierM.fromBytes_toBytes hvk hok hd hpi hs hc hfit

example : VerifierM.fromBytes exVerifier.toBytes = .ok exVerifier := exVerifier_roundtrip

/-- public-parameter round trip -/
theorem pp_roundtrip {ok : OpeningKeyM} {ck : List G1} (hok : OpeningKeyM.fromBytes? ok.toBytes = some ok)
    (hne : ck ≠ []) (h : ∀ p ∈ ck, p.Valid ∧ p.torsionFree = true) :
    ppFromBytes (ppToBytes ok ck) = .ok (ok, ck) :=
  ppFromBytes_ppToBytes hok hne h

example : ppFromBytes (ppToBytes exOK [G1.gen, .inf]) = .ok (exOK, [G1.gen, .inf]) :=
  ppFromBytes_ppToBytes exOK_roundtrip (by simp) (by
    intro p hp; simp at hp; rcases hp with rfl | rfl
    · exact gen_ok
    · exact inf_ok)

/-! ### prover side -/

/-- evaluation-vector round trip (`Domain.new? d.size = some d` holds for every domain built by
    `Domain.new?`, see `Domain.new?_idem`) -/
theorem evals_roundtrip {d : Domain} {ev : List Nat} (hd : Domain.new? d.size = some d)
    (hl : ev.length = d.size) (hev : ∀ e ∈ ev, e < R) :
    evalsFromBytes (evalsToBytes d ev) = .ok (d, ev) :=
  evalsFromBytes_evalsToBytes hd hl hev

example : ∃ (d : Domain) (ev : List Nat), Domain.new? d.size = some d ∧ ev.length = d.size ∧
    (∀ e ∈ ev, e < R) ∧ d.size = 4 := exEvals

/-- evaluation-vector decoding is canonical -/
theorem evals_canonical {bs : List Nat} {d : Domain} {ev : List Nat} (hb : AllBytes bs)
    (h : evalsFromBytes bs = .ok (d, ev)) : evalsToBytes d ev = bs :=
  (evalsFromBytes_wf h).2.2.2.2.2.2.2.2 hb

example : ∃ (d : Domain) (ev : List Nat), AllBytes (evalsToBytes d ev) ∧
    evalsFromBytes (evalsToBytes d ev) = .ok (d, ev) := by
  obtain ⟨d, ev, h1, h2, h3, _⟩ := exEvals
  exact ⟨d, ev, evalsToBytes_allBytes d ev, evalsFromBytes_evalsToBytes h1 h2 h3⟩

/-- raw (Montgomery) point round trip -/
theorem raw_roundtrip {p : G1} (hp : p.Valid) (ht : p.torsionFree = true) :
    G1.fromRawChecked p.toRaw = some p ∧ p.toRaw.length = 97 :=
  ⟨G1.fromRawChecked_toRaw hp ht, G1.toRaw_length p⟩

example : G1.fromRawChecked G1.gen.toRaw = some G1.gen := G1.fromRawChecked_toRaw gen_valid gen_torsionFree

/-- raw point decoding is canonical on 97-byte chunks (flag byte, both Montgomery limbs, canonical
    identity) -/
theorem raw_canonical {bs : List Nat} {p : G1} (hb : AllBytes bs) (hl : bs.length = 97)
    (h : G1.fromRawChecked bs = some p) : p.toRaw = bs :=
  G1.fromRawChecked_canonical hb hl h

example : AllBytes G1.gen.toRaw ∧ G1.gen.toRaw.length = 97 ∧ G1.fromRawChecked G1.gen.toRaw = some G1.gen :=
  ⟨G1.toRaw_allBytes _, G1.toRaw_length _, G1.fromRawChecked_toRaw gen_valid gen_torsionFree⟩

/-- raw commit-key round trip -/
theorem commitkey_raw_roundtrip {ck : List G1} (hne : ck ≠ []) (hfit : 8 + ck.length * 97 ≤ USIZE_MAX)
    (h : ∀ p ∈ ck, p.Valid ∧ p.torsionFree = true) :
    commitKeyFromRaw (commitKeyToRaw ck) = .ok ck :=
  commitKeyFromRaw_toRaw hne hfit h

example : commitKeyFromRaw (commitKeyToRaw [G1.gen, .inf]) = .ok [G1.gen, .inf] :=
  commitKeyFromRaw_toRaw (by simp) (by rw [USIZE_MAX_eq]; simp) (by
    intro p hp; simp at hp; rcases hp with rfl | rfl
    · exact gen_ok
    · exact inf_ok)

/-- raw commit-key decoding is canonical -/
theorem commitkey_raw_canonical {bs : List Nat} {ck : List G1} (hb : AllBytes bs)
    (h : commitKeyFromRaw bs = .ok ck) : commitKeyToRaw ck = bs :=
  (commitKeyFromRaw_wf h).2.2.2.2 hb

example : AllBytes (commitKeyToRaw [G1.gen]) ∧ commitKeyFromRaw (commitKeyToRaw [G1.gen]) = .ok [G1.gen] :=
  ⟨commitKeyToRaw_allBytes _, commitKeyFromRaw_toRaw (by simp) (by rw [USIZE_MAX_eq]; simp) (by
    intro p hp; simp at hp; subst hp; exact gen_ok)⟩

/-- prover-key round trip (the zero padding of the encoder's buffer is ignored by the decoder) -/
theorem pkey_roundtrip {k : PKeyRaw} {d8 : Domain} (wf : k.WF d8) : PKeyRaw.fromBytes k.toBytes = .ok k :=
  PKeyRaw.fromBytes_toBytes wf

example : exPKey.WF exD8 := exPKey_wf

/-- whatever the prover-key decoder accepts re-encodes to bytes that decode to the same key -/
theorem pkey_reencode {bs : List Nat} {k : PKeyRaw} (h : PKeyRaw.fromBytes bs = .ok k) :
    PKeyRaw.fromBytes k.toBytes = .ok k :=
  PKeyRaw.fromBytes_reencode h

example : PKeyRaw.fromBytes exPKey.toBytes = .ok exPKey := exPKey_roundtrip

/-- prover round trip -/
theorem prover_roundtrip {p : ProverM} {d8 : Domain} (wf : p.key.WF d8)
    (hck : p.ck ≠ [] ∧ ∀ q ∈ p.ck, q.Valid ∧ q.torsionFree = true) (hvk : p.vk.WF)
    (hc : p.constraints ≤ 2 ^ 63) (hsz : nextPow2' p.constraints = p.size) (hn : p.key.n = p.size)
    (hd : (Domain.new? p.constraints).isSome = true) (hvz : ∀ x ∈ p.key.vh, x ≠ 0)
    (hfit : p.label.length + p.key.toBytes.length + (8 + 97 * p.ck.length) + 968 < 2 ^ 64) :
    ProverM.fromBytes p.toBytes = .ok p :=
  ProverM.fromBytes_toBytes wf hck hvk hc hsz hn hd hvz hfit

example : ProverM.fromBytes exProver.toBytes = .ok exProver := exProver_roundtrip

end Plonk.Props.C16
