import Plonk.Model.Codec
namespace Plonk.Props.C16
open Plonk
/-- the Montgomery radix used by the raw commit-key codec -/
theorem mont_r_inv : pmul MONT_R MONT_RINV = 1 := by decide +kernel
end Plonk.Props.C16
