/-
  C05 (permutation half; the same facts serve C18 and C15) — the copy-constraint argument.

  What is proved (all FULL, no `_partial`):

  1. `cosets_disjoint`, `id_label_injective` — for `ω` a primitive `2^k`-th root of unity in
     `F = ZMod R`, `k ≤ 32`: `K_a ω^i = K_b ω^j → a = b ∧ i ≡ j (mod 2^k)` for the coset
     representatives `kOf 0..3 = 1, K1, K2, K3`; `(col, i) ↦ K_col ω^i` is injective on
     `{0..3} × {0..2^k-1}`.
  2. `sigmaMaps_is_permutation` — the model's `sigmaMaps c n` (`compute_sigma_permutations`) is the
     table of the function `σ = Perm.sigmaFn c`, which (a) is a bijection of the position set
     `{0..3} × {0..n-1}` (for `n ≥` number of gates), (b) sends every position to a position wired
     to the same witness, (c) reaches, by iteration, every position of the same class, and never
     leaves the class; rows `≥ c.gates.size` are fixed.  "Class" = positions of the gate table
     wired to the same *allocated* witness (`Perm.SameClass`).
     FINDING (model vs Rust): a wire index `≥ c.wit.size` is silently ignored by the model's
     `wirePositions` (`Array.modify` out of range) — such positions are fixed points of `σ`; the
     Rust code asserts `valid_witnesses` instead.  Everything here is proved without assuming
     that wires are in range; the classes are restricted to allocated witnesses accordingly.
  3. `perm_respects_iff` — `(∀ p, val (σ p) = val p)` ⇔ `val` constant on every class ⇔
     `Composer.copyViolation lay c = none` (values read from the proving-time composer `c`).
  4. `perm_product_sound` — soundness of the grand-product check with an explicit bad set:
     for fixed wire values there are at most `(4n)²` bad `β`; for every other `β`, if
     `∏_p (val p + β·id p + γ) = ∏_p (val p + β·id(σ p) + γ)` for more than `4n` values of `γ`,
     then `val (σ p) = val p` for all `p`; `perm_product_sound_poly` is the two-variable
     polynomial-identity form (no bad set), `perm_product_complete` the converse, and
     `grand_product_no_copy_violation` chains soundness down to `copyViolation = none`.
     This is the mathematical (field-level) statement; `Perm.toF_permVec_num/den`,
     `Perm.prod_posSet_rows`, `Perm.sigma_column_evals` (Proofs/PermutationModel) relate the
     factors to the expressions of the model's `permVec` / `compile`, but the closing of the
     accumulator `z` by the quotient identity is not part of this file.
  5. `sigma_order_independent` — `Perm.sigmaMapsOrder c n order` (the model's loop, visiting the
     witnesses in the order `order`) equals `sigmaMaps c n` for every permutation `order` of the
     witness indices (C18: `HashMap` iteration order is irrelevant).
  6. `relabel_sigma` — relabelling the witnesses by a map injective on the wires in use (and
     preserving "allocated") does not change `sigmaMaps` (C15; the corollaries for
     `decompressCompress` / `compile` are delivered by the C15 files, which consume this theorem).
-/
import Plonk.Proofs.Permutation
import Plonk.Proofs.FftDomain

namespace Plonk.Props.C05Perm
open Plonk Plonk.Perm

/-! ### the running example: 3 gates, 4 witnesses -/

/-- a three-gate layout: witness 0 sits at (a,0) (c,1) (d,2); witness 1 at (b,0) (b,1) (a,2) (b,2);
    witness 2 at (c,0) (a,1) (c,2); witness 3 at (d,0) (d,1) -/
def exLay : Composer :=
  { gates := #[{ a := 0, b := 1, c := 2, d := 3 }, { a := 2, b := 1, c := 0, d := 3 },
               { a := 1, b := 1, c := 2, d := 0 }],
    wit := #[5, 7, 12, 0] }

/-- a proving-time composer with the same number of gates whose wiring disagrees with `exLay`
    at position (c,1) -/
def exBad : Composer :=
  { gates := #[{ a := 0, b := 1, c := 2, d := 3 }, { a := 2, b := 1, c := 1, d := 3 },
               { a := 1, b := 1, c := 2, d := 0 }],
    wit := #[5, 7, 12, 0] }

/-- a primitive 4th root of unity of `F` -/
theorem exOmega : IsPrimitiveRoot (toF ROOT_OF_UNITY ^ 2 ^ 30) (2 ^ 2) := by
  have h := root_of_unity_primitive.pow_of_dvd (p := 2 ^ 30) (by decide) (by decide)
  have e : 2 ^ 32 / 2 ^ 30 = 2 ^ 2 := by decide
  rwa [e] at h

/-! ### 1. disjoint cosets -/

theorem cosets_disjoint {ω : F} {k : Nat} (hk : k ≤ 32) (hω : IsPrimitiveRoot ω (2 ^ k))
    {a b : Nat} (ha : a < 4) (hb : b < 4) {i j : Nat}
    (h : toF (kOf a) * ω ^ i = toF (kOf b) * ω ^ j) : a = b ∧ i ≡ j [MOD 2 ^ k] :=
  coset_disjoint_mod hk hω ha hb h

theorem id_label_injective {ω : F} {k : Nat} (hk : k ≤ 32) (hω : IsPrimitiveRoot ω (2 ^ k))
    {p q : Nat × Nat} (hp1 : p.1 < 4) (hp2 : p.2 < 2 ^ k) (hq1 : q.1 < 4) (hq2 : q.2 < 2 ^ k)
    (h : toF (kOf p.1) * ω ^ p.2 = toF (kOf q.1) * ω ^ q.2) : p = q :=
  idLabel_injOn hk hω hp1 hp2 hq1 hq2 h

/-- non-vacuity: the hypotheses hold for the crate's root of unity (`k = 32`) and for `k = 2` -/
example : (32 ≤ 32) ∧ IsPrimitiveRoot (toF ROOT_OF_UNITY) (2 ^ 32) ∧ IsPrimitiveRoot (toF ROOT_OF_UNITY ^ 2 ^ 30) (2 ^ 2) :=
  ⟨le_refl _, root_of_unity_primitive, exOmega⟩

/-! ### 2. `sigmaMaps` is a permutation whose cycles are the wiring classes -/

theorem sigmaMaps_is_permutation (c : Composer) (n : Nat) (hn : c.gates.size ≤ n) :
    -- the model's table is the table of `σ`
    (sigmaMaps c n = (Array.range 4).map fun col => (Array.range n).map fun i => sigmaFn c (col, i)) ∧
    (∀ p : Nat × Nat, p.1 < 4 → p.2 < n → ((sigmaMaps c n).getD p.1 #[]).getD p.2 p = sigmaFn c p) ∧
    -- (a) bijection of the position set
    Set.BijOn (sigmaFn c) (posSet n : Set (Nat × Nat)) (posSet n : Set (Nat × Nat)) ∧
    -- (b) same witness
    (∀ p, wireAt c (sigmaFn c p) = wireAt c p) ∧
    -- (c) the orbit of `p` is exactly its class
    (∀ p q, SameClass c p q → ∃ t, (sigmaFn c)^[t] p = q) ∧
    (∀ p t, SameClass c p p → SameClass c p ((sigmaFn c)^[t] p)) ∧
    -- padded rows are fixed
    (∀ p : Nat × Nat, c.gates.size ≤ p.2 → sigmaFn c p = p) :=
  ⟨sigmaMaps_eq_table c n, readS_sigmaMaps c n, sigmaFn_bijOn c n hn, wireAt_sigmaFn c,
   fun p q h => sigmaFn_reaches ((sameClass_iff_mem c p q).mp h).1 ((sameClass_iff_mem c p q).mp h).2,
   fun p t h => (sameClass_iff_mem c p _).mpr
     ⟨((sameClass_iff_mem c p p).mp h).1, sigmaFn_iterate_mem ((sameClass_iff_mem c p p).mp h).1 t⟩,
   sigmaFn_fixed_of_row_ge c⟩

/-- non-vacuity: on the example (padded to `n = 4 ≥ 3`) the table is a non-trivial permutation -/
example : exLay.gates.size ≤ 4 ∧
    sigmaMaps exLay 4 =
      #[#[(2, 1), (2, 2), (1, 2), (0, 3)], #[(1, 1), (0, 2), (1, 0), (1, 3)],
        #[(0, 1), (3, 2), (2, 0), (2, 3)], #[(3, 1), (3, 0), (0, 0), (3, 3)]] := by
  decide +kernel

example : SameClass exLay (0, 0) (3, 2) ∧ (sigmaFn exLay)^[2] (0, 0) = (3, 2) := by
  decide +kernel

/-! ### 3. respecting `σ` ⇔ constant on classes ⇔ no copy violation -/

theorem perm_respects_iff (lay c : Composer) :
    ((∀ p, valAt c (sigmaFn lay p) = valAt c p) ↔ (∀ p q, SameClass lay p q → valAt c p = valAt c q)) ∧
    ((∀ p q, SameClass lay p q → valAt c p = valAt c q) ↔ Composer.copyViolation lay c = none) :=
  Perm.perm_respects_iff lay c

/-- the first equivalence for arbitrary values (e.g. field elements chosen by an adversary) -/
theorem perm_respects_iff_const {α : Type} (lay : Composer) (val : Nat × Nat → α) :
    (∀ p, val (sigmaFn lay p) = val p) ↔ (∀ p q, SameClass lay p q → val p = val q) :=
  respects_iff_const lay val

/-- non-vacuity: both outcomes occur -/
example : Composer.copyViolation exLay exLay = none ∧ Composer.copyViolation exLay exBad = some 0 := by
  decide +kernel

/-! ### 4. the grand-product check -/

theorem perm_product_sound (lay : Composer) {k : Nat} (hk : k ≤ 32) (hn : lay.gates.size ≤ 2 ^ k)
    {ω : F} (hω : IsPrimitiveRoot ω (2 ^ k)) (val : Nat × Nat → F) :
    ∃ B : Finset F, B.card ≤ (4 * 2 ^ k) * (4 * 2 ^ k) ∧
      ∀ β, β ∉ B → ∀ Γ : Finset F, 4 * 2 ^ k < Γ.card →
        (∀ γ ∈ Γ, ∏ p ∈ posSet (2 ^ k), (val p + β * idLabel ω p + γ) =
                  ∏ p ∈ posSet (2 ^ k), (val p + β * idLabel ω (sigmaFn lay p) + γ)) →
        ∀ p, val (sigmaFn lay p) = val p :=
  perm_product_sound_model lay hk hn hω val

open Polynomial in
theorem perm_product_sound_poly (lay : Composer) {k : Nat} (hk : k ≤ 32) (hn : lay.gates.size ≤ 2 ^ k)
    {ω : F} (hω : IsPrimitiveRoot ω (2 ^ k)) (val : Nat × Nat → F)
    (h : (∏ p ∈ posSet (2 ^ k), (X + C (C (val p) + X * C (idLabel ω p))) : F[X][X]) =
         ∏ p ∈ posSet (2 ^ k), (X + C (C (val p) + X * C (idLabel ω (sigmaFn lay p))))) :
    ∀ p ∈ posSet (2 ^ k), val (sigmaFn lay p) = val p :=
  Perm.perm_product_sound_poly (posSet (2 ^ k)) val (idLabel ω) (sigmaFn lay)
    (fun _ hp => (sigmaFn_bijOn lay _ hn).mapsTo hp) (idLabel_injOn_posSet hk hω) h

theorem perm_product_complete (lay : Composer) (n : Nat) (hn : lay.gates.size ≤ n)
    (idl : Nat × Nat → F) (val : Nat × Nat → F) (hval : ∀ p, val (sigmaFn lay p) = val p) (β γ : F) :
    ∏ p ∈ posSet n, (val p + β * idl p + γ) = ∏ p ∈ posSet n, (val p + β * idl (sigmaFn lay p) + γ) :=
  perm_product_complete_model lay n hn idl val hval β γ

theorem grand_product_no_copy_violation (lay c : Composer) {k : Nat} (hk : k ≤ 32)
    (hn : lay.gates.size ≤ 2 ^ k) {ω : F} (hω : IsPrimitiveRoot ω (2 ^ k))
    (hred : ∀ p, valAt c p < R) :
    ∃ B : Finset F, B.card ≤ (4 * 2 ^ k) * (4 * 2 ^ k) ∧
      ∀ β, β ∉ B → ∀ Γ : Finset F, 4 * 2 ^ k < Γ.card →
        (∀ γ ∈ Γ, ∏ p ∈ posSet (2 ^ k), (toF (valAt c p) + β * idLabel ω p + γ) =
                  ∏ p ∈ posSet (2 ^ k), (toF (valAt c p) + β * idLabel ω (sigmaFn lay p) + γ)) →
        Composer.copyViolation lay c = none :=
  Perm.grand_product_no_copy_violation lay c hk hn hω hred

/-- non-vacuity: for the example (`k = 2`, `n = 4`) the structural hypotheses hold, and the
    product hypothesis is satisfiable — the honest values satisfy it for all `β`, `γ` -/
example : (2 ≤ 32) ∧ exLay.gates.size ≤ 2 ^ 2 ∧ IsPrimitiveRoot (toF ROOT_OF_UNITY ^ 2 ^ 30) (2 ^ 2) ∧
    (∀ p, valAt exLay p < R) ∧
    (∀ β γ : F, ∏ p ∈ posSet (2 ^ 2), (toF (valAt exLay p) + β * idLabel (toF ROOT_OF_UNITY ^ 2 ^ 30) p + γ) =
      ∏ p ∈ posSet (2 ^ 2), (toF (valAt exLay p) +
        β * idLabel (toF ROOT_OF_UNITY ^ 2 ^ 30) (sigmaFn exLay p) + γ)) := by
  have hcv : Composer.copyViolation exLay exLay = none := by decide +kernel
  have hresp : ∀ p, valAt exLay (sigmaFn exLay p) = valAt exLay p :=
    (Perm.perm_respects_iff exLay exLay).1.mpr ((Perm.perm_respects_iff exLay exLay).2.mpr hcv)
  refine ⟨by decide, by decide, exOmega, ?_, ?_⟩
  · intro p
    have hw : ∀ w, exLay.val w < R := by
      intro w
      unfold Composer.val exLay
      rw [Array.getD_eq_getD_getElem?]
      rcases w with _ | _ | _ | _ | w
      · decide +kernel
      · decide +kernel
      · decide +kernel
      · decide +kernel
      · have : (#[5, 7, 12, 0] : Array Nat)[w + 4]? = none := by simp
        rw [this]; exact R_pos
    unfold valAt Composer.rowVals
    split <;> split <;> first | exact hw _ | exact R_pos
  · intro β γ
    exact perm_product_complete_model exLay _ (by decide) _ _
      (fun p => by rw [hresp p]) β γ

/-! ### 5. order independence (C18) -/

theorem sigma_order_independent (c : Composer) (n : Nat) (order : List Nat)
    (h : order.Perm (List.range c.wit.size)) : sigmaMapsOrder c n order = sigmaMaps c n :=
  Perm.sigma_order_independent c n order h

/-- non-vacuity: a non-identity visiting order -/
example : [2, 0, 3, 1].Perm (List.range exLay.wit.size) ∧
    sigmaMapsOrder exLay 4 [2, 0, 3, 1] = sigmaMaps exLay 4 := by
  decide +kernel

/-! ### 6. relabelling invariance (C15) -/

theorem relabel_sigma (f : Nat → Nat) (c c' : Composer) (n : Nat)
    (hg : c'.gates = c.gates.map (relabelGate f))
    (hinj : ∀ p q : Nat × Nat, p.1 < 4 → p.2 < c.gates.size → q.1 < 4 → q.2 < c.gates.size →
      f (wireAt c p) = f (wireAt c q) → wireAt c p = wireAt c q)
    (hrg : ∀ p : Nat × Nat, p.1 < 4 → p.2 < c.gates.size →
      (wireAt c p < c.wit.size ↔ f (wireAt c p) < c'.wit.size)) :
    sigmaMaps c' n = sigmaMaps c n :=
  Perm.relabel_sigma f c c' n hg hinj hrg

theorem sigmaMaps_congr (c c' : Composer) (n : Nat) (hsz : c.gates.size = c'.gates.size)
    (heq : ∀ p q : Nat × Nat, p.1 < 4 → p.2 < c.gates.size → q.1 < 4 → q.2 < c.gates.size →
      (wireAt c p = wireAt c q ↔ wireAt c' p = wireAt c' q))
    (hrg : ∀ p : Nat × Nat, p.1 < 4 → p.2 < c.gates.size →
      (wireAt c p < c.wit.size ↔ wireAt c' p < c'.wit.size)) :
    sigmaMaps c n = sigmaMaps c' n :=
  Perm.sigmaMaps_congr c c' n hsz heq hrg

/-- non-vacuity: reversing the four witness labels of the example -/
example : sigmaMaps (mapWires (fun w => if w < 4 then 3 - w else w) exLay) 4 = sigmaMaps exLay 4 ∧
    (mapWires (fun w => if w < 4 then 3 - w else w) exLay).gates ≠ exLay.gates := by
  refine ⟨relabel_sigma_of_injective _ ?_ exLay 4 ?_, by decide +kernel⟩
  · intro a b h
    simp only at h
    split at h <;> split at h <;> omega
  · intro w
    show w < 4 ↔ (if w < 4 then 3 - w else w) < 4
    split <;> omega

end Plonk.Props.C05Perm
