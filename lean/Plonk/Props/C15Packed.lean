/-
  C15 / C17 at the BYTE level — the bounded reader of compressed circuit descriptions
  (`Plonk/Model/Packed.lean`: `unpackBounded` = `CompressedCircuit::unpack_bounded`, `pack`, `fromPayload` =
  `CompressedCircuit::from_bytes` on the inflated payload, `rebuild` = its reconstruction loop).

  C15: "Decompression work and memory are bounded by the capacity of the supplied public parameters: a description
  that needs more constraints than they allow, or that carries trailing or out-of-range data, is rejected with an
  error."   C17: "the checked decoders … return a value or an error - they never panic, hang, or allocate beyond a
  small multiple … of the parameters' capacity.  Whatever they accept consists only of canonically encoded field
  elements".

  Totality: every function of `Model/Packed.lean` is a kernel-checked structural recursion (no `partial`), so each
  returns `some/none`, `.ok/.error` on every byte list; what is proved here is WHAT they return.

  Status (all statements are about the model's own functions; everything below is FULL, no `_partial`):
  * T1 trailing data: `readers_prefix_stable`, `no_trailing_data`, `no_trailing_data_payload`,
    `accepted_prefix_unique`.
  * T2 bounded work: `bounded_counts`, `over_capacity_rejected` (declared length checked before any item is read,
    for EVERY item reader), `work_bound` (items ≤ 369·m), `items_backed_by_bytes` (every decoded item is backed by
    an input byte that was present, so work is also ≤ the payload length ≤ 857·m + 30),
    `smaller_capacity_rejected` (the same bytes under a capacity they exceed are rejected).
  * T3 `unpack_pack` (reader ∘ writer = id on representable values within capacity), `pack_within_limit` (the
    canonical encoding never trips the inflate limit), `pack_accepted`.
  * T4 `accepted_is_valid` (ties to `CompressedShape.valid` of `Model/Compress.lean`), `rejected_iff` (exact
    error classification), `accepted_canonical` (32-byte scalars below `R`, every rebuilt selector below `R`).
  * T5 `rebuild_shape` (accepted payload), `rebuild_shape_any` (ANY packed circuit: gate count, wire ranges,
    witness count ≤ 4·constraints whatever the declared `witnesses` field says).
  * T6 `roundtrip_bytes` (FULL): `from_bytes(compress payload) = decompressCompress`, for either setting of the
    hades flag, with `roundtrip_reader`, `encoder_output_good`, `dictionaries_decode`, `scalar_bytes_roundtrip`
    (proofs in `Plonk/Proofs/PackedRoundtrip.lean`).  Hypotheses (`Compressible comp m`): selectors `< R`, gate
    wires `< wit.size < 2^64`, public-input rows `< gates.size` (NOT necessarily distinct: both sides sort and
    de-duplicate), `gates.size ≤ m`, and `11 · gates.size < 2^32` — a sufficient form of a FORCED condition: the four
    vector lengths must fit the `array 32` header (beyond `2^32 - 1` the model's `packArrayLen` truncates).  The length guard needs no hypothesis: `pack_within_limit`.
  Forced hypotheses: in `unpack_pack` the representability bounds (`< 2^64`, `< 2^32`, 32 / 11 / 5 entries) are
  what the Rust types guarantee (`usize`, `[u8; 32]`, structs, msgpack `array 32`); the byte range `< 256` of the
  scalar bytes is NOT needed by the model (its `unpackU8` returns the `Nat` it is given), it is kept in
  `Representable` because the model's bytes are `Nat`s.
-/
import Plonk.Proofs.PackedLemmas
import Plonk.Proofs.PackedRoundtrip
namespace Plonk.Props.C15Packed
open Plonk Plonk.Packed Plonk.PackedLemmas Plonk.PackedRoundtrip

theorem placeholder_consts : Generated.PACKED_BYTES_PER_CONSTRAINT = 857 ∧ Generated.PACKED_FIXED_BYTES = 30 ∧
    Generated.SELECTORS_PER_POLYNOMIAL = 11 := by decide

/-! ### the running example: 3 constraints, rows 0 and 2 public, 2 extra scalars (one with high bytes), a
    declared witness count (300) far above the labels in use, one label (200) that needs the `uint8` form -/

def exP : PackedCircuit :=
  { hades := false, publicInputs := [0, 2], witnesses := 300,
    scalars := [leBytes32 5, leBytes32 (R - 2)],
    polynomials := [[0, 1, 0, 3, 0, 0, 1, 0, 0, 0, 0], [4, 0, 0, 0, 0, 2, 0, 0, 0, 0, 0]],
    constraints := [[0, 4, 1, 4, 0], [1, 1, 3, 0, 0], [0, 3, 3, 4, 200]] }

def exBytes : List Nat := pack exP

theorem exBytes_accepted : unpackBounded exBytes 3 = some exP := by decide +kernel

theorem exBytes_length : exBytes.length = 131 ∧ packedSizeLimit 3 = 2601 := by decide +kernel

theorem exP_valid : validateIndices exP (baseScalars exP.hades).length = true := by decide +kernel

theorem exP_canonical : ∀ s ∈ exP.scalars, leNat s < R := by decide +kernel

/-- the example payload is accepted by `fromPayload` -/
theorem exBytes_ok :
    fromPayload exBytes 3 = .ok (rebuild exP (baseScalars exP.hades ++ exP.scalars.map leNat)) :=
  fromPayload_eq_ok.2 ⟨by decide +kernel, exP, exBytes_accepted, exP_valid, exP_canonical, rfl⟩

/-! ## T1. trailing data -/

/-- every primitive reader returns the same value, and the same remainder followed by `e`, when `e` is appended
    to its input -/
theorem readers_prefix_stable :
    Stable unpackUsize ∧ Stable unpackU8 ∧ Stable unpackBool ∧ Stable unpackArrayLen ∧
    (∀ {α : Type} (f : List Nat → Option (α × List Nat)), Stable f → ∀ n, Stable (unpackMany f n)) ∧
    (∀ {α : Type} (f : List Nat → Option (α × List Nat)), Stable f → ∀ maxLen, Stable (unpackVec f maxLen)) :=
  ⟨unpackUsize_stable, unpackU8_stable, unpackBool_stable, unpackArrayLen_stable,
   fun _ hf n => unpackMany_stable hf n, fun _ hf maxLen => unpackVec_stable hf maxLen⟩

example : unpackUsize [0xcd, 1, 44] = some (300, []) ∧ unpackUsize ([0xcd, 1, 44] ++ [9, 9]) = some (300, [9, 9]) := by
  decide

/-- `no_trailing_data`: an accepted byte string followed by anything non-empty is rejected -/
theorem no_trailing_data {bs : List Nat} {m : Nat} {c : PackedCircuit} (h : unpackBounded bs m = some c) :
    ∀ x xs, unpackBounded (bs ++ x :: xs) m = none :=
  unpackBounded_append_none h

example : unpackBounded exBytes 3 = some exP ∧ unpackBounded (exBytes ++ [0]) 3 = none := by decide +kernel

/-- the same at the `from_bytes` level: accepted payload + any extra byte ⇒ `InvalidCompressedCircuit` -/
theorem no_trailing_data_payload {bs : List Nat} {m : Nat} {comp : Composer} (h : fromPayload bs m = .ok comp) :
    ∀ x xs, fromPayload (bs ++ x :: xs) m = .error .invalid := by
  obtain ⟨-, c, hc, -⟩ := fromPayload_eq_ok.1 h
  intro x xs
  exact fromPayload_eq_error.2 (Or.inl ⟨rfl, Or.inr (Or.inl (unpackBounded_append_none hc x xs))⟩)

example : ∃ comp, fromPayload exBytes 3 = .ok comp := ⟨_, exBytes_ok⟩

/-- at most one prefix of a byte string is an accepted payload -/
theorem accepted_prefix_unique {bs bs' : List Nat} {m : Nat} {c c' : PackedCircuit}
    (h : unpackBounded bs m = some c) (h' : unpackBounded bs' m = some c') (hp : bs <+: bs') : bs = bs' :=
  unpackBounded_prefix_unique h h' hp

example : unpackBounded exBytes 3 = some exP ∧ exBytes <+: exBytes := ⟨exBytes_accepted, List.prefix_refl _⟩

/-! ## T2. bounded work and memory -/

/-- `bounded_counts`: every vector of an accepted description is within the capacity, and every item has its
    fixed arity -/
theorem bounded_counts {bs : List Nat} {m : Nat} {c : PackedCircuit} (h : unpackBounded bs m = some c) :
    c.publicInputs.length ≤ m ∧ c.scalars.length ≤ m * Generated.SELECTORS_PER_POLYNOMIAL ∧
    c.polynomials.length ≤ m ∧ c.constraints.length ≤ m ∧
    (∀ s ∈ c.scalars, s.length = 32) ∧ (∀ p ∈ c.polynomials, p.length = 11) ∧
    (∀ k ∈ c.constraints, k.length = 5) :=
  unpackBounded_counts h

example : unpackBounded exBytes 3 = some exP := exBytes_accepted

/-- `over_capacity_rejected`: a declared length above the bound is rejected whatever the item reader is — no item
    is read, nothing is allocated from the length field -/
theorem over_capacity_rejected {α : Type} (f : List Nat → Option (α × List Nat)) {maxLen len : Nat}
    {bs r : List Nat} (h : unpackArrayLen bs = some (len, r)) (hgt : len > maxLen) :
    unpackVec f maxLen bs = none :=
  unpackVec_over_capacity f h hgt

/-- header `array 32` announcing `2^32 - 1` items and no item at all: rejected under capacity 1000 -/
example : unpackArrayLen [0xdd, 0xff, 0xff, 0xff, 0xff] = some (4294967295, []) ∧ 4294967295 > 1000 := by decide

/-- `work_bound`: the number of decoded items (rows, scalar bytes, scalar indices, constraint fields) is at most
    `369 = 1 + 32·11 + 11 + 5` per unit of capacity -/
theorem work_bound {bs : List Nat} {m : Nat} {c : PackedCircuit} (h : unpackBounded bs m = some c) :
    c.publicInputs.length + 32 * c.scalars.length + 11 * c.polynomials.length + 5 * c.constraints.length
      ≤ (1 + 32 * 11 + 11 + 5) * m := by
  obtain ⟨h1, h2, h3, h4, -⟩ := unpackBounded_counts h
  simp only [Generated.SELECTORS_PER_POLYNOMIAL] at h2
  omega

example : unpackBounded exBytes 3 = some exP := exBytes_accepted

/-- every decoded item is backed by at least one input byte that was present (plus one byte for the flag, the
    witness count and each of the four headers): the reader's work is bounded by the payload length, which
    `fromPayload` bounds by `packedSizeLimit m = 857·m + 30` -/
theorem items_backed_by_bytes {bs : List Nat} {m : Nat} {c : PackedCircuit} (h : unpackBounded bs m = some c) :
    6 + c.publicInputs.length + 32 * c.scalars.length + 11 * c.polynomials.length + 5 * c.constraints.length
      ≤ bs.length :=
  unpackBounded_bytes h

example : unpackBounded exBytes 3 = some exP := exBytes_accepted

/-- the capacity only gates: bytes accepted under some capacity are rejected under any capacity that one of
    their vectors exceeds ("a description that needs more constraints than they allow is rejected") -/
theorem smaller_capacity_rejected {bs : List Nat} {m m' : Nat} {c : PackedCircuit}
    (h : unpackBounded bs m = some c)
    (hgt : m' < c.publicInputs.length ∨ m' * Generated.SELECTORS_PER_POLYNOMIAL < c.scalars.length ∨
      m' < c.polynomials.length ∨ m' < c.constraints.length) : unpackBounded bs m' = none := by
  cases h' : unpackBounded bs m' with
  | none => rfl
  | some c' =>
    have e := unpackBounded_bound_irrel h h'
    subst e
    obtain ⟨h1, h2, h3, h4, -⟩ := unpackBounded_counts h'
    omega

example : unpackBounded exBytes 3 = some exP ∧ 2 < exP.constraints.length ∧ unpackBounded exBytes 2 = none := by
  decide +kernel

/-- and `from_bytes` turns that into `InvalidCompressedCircuit` -/
theorem smaller_capacity_invalid {bs : List Nat} {m m' : Nat} {c : PackedCircuit}
    (h : unpackBounded bs m = some c)
    (hgt : m' < c.publicInputs.length ∨ m' * Generated.SELECTORS_PER_POLYNOMIAL < c.scalars.length ∨
      m' < c.polynomials.length ∨ m' < c.constraints.length) : fromPayload bs m' = .error .invalid :=
  fromPayload_eq_error.2 (Or.inl ⟨rfl, Or.inr (Or.inl (smaller_capacity_rejected h hgt))⟩)

example : unpackBounded exBytes 3 = some exP ∧ 2 < exP.constraints.length := by decide +kernel

/-! ## T3. reader ∘ writer -/

/-- `unpack_pack`: what the writer produces for a representable description within capacity is read back
    unchanged -/
theorem unpack_pack {c : PackedCircuit} {m : Nat} (hr : Representable c) (hc : WithinCapacity c m) :
    unpackBounded (pack c) m = some c :=
  unpackBounded_pack hr hc

theorem exP_representable : Representable exP := by
  refine ⟨by decide, by decide, ?_, by decide, by decide, by decide, by decide, by decide, by decide⟩
  decide +kernel

theorem exP_within : WithinCapacity exP 3 := ⟨by decide, by decide, by decide, by decide⟩

example : Representable exP ∧ WithinCapacity exP 3 := ⟨exP_representable, exP_within⟩

/-- the key lemmas of `unpack_pack`, for reference -/
theorem primitive_roundtrips :
    (∀ v r, v < 2 ^ 64 → unpackUsize (packUsize v ++ r) = some (v, r)) ∧
    (∀ v r, unpackU8 (packU8 v ++ r) = some (v, r)) ∧
    (∀ b r, unpackBool (packBool b ++ r) = some (b, r)) ∧
    (∀ len r, len < 2 ^ 32 → unpackArrayLen (packArrayLen len ++ r) = some (len, r)) :=
  ⟨unpackUsize_packUsize, unpackU8_packU8, unpackBool_packBool, unpackArrayLen_packArrayLen⟩

example : packUsize 300 = [0xcd, 1, 44] ∧ packUsize (2 ^ 64 - 1) = [0xcf, 255, 255, 255, 255, 255, 255, 255, 255] ∧
    packArrayLen 16 = [0xdc, 0, 16] := by decide

/-- `pack_within_limit`: the canonical encoding of a description within capacity never exceeds the inflate limit
    of `from_bytes` — the crate's constants `857` per constraint and `30` fixed are sufficient -/
theorem pack_within_limit {c : PackedCircuit} {m : Nat} (hs : ∀ s ∈ c.scalars, s.length = 32)
    (hp : ∀ p ∈ c.polynomials, p.length = 11) (hk : ∀ k ∈ c.constraints, k.length = 5)
    (hc : WithinCapacity c m) : (pack c).length ≤ packedSizeLimit m :=
  pack_length_le hs hp hk hc

example : (∀ s ∈ exP.scalars, s.length = 32) ∧ (∀ p ∈ exP.polynomials, p.length = 11) ∧
    (∀ k ∈ exP.constraints, k.length = 5) := by decide +kernel

/-- so `from_bytes` accepts the canonical encoding of every representable, valid, canonical description -/
theorem pack_accepted {c : PackedCircuit} {m : Nat} (hr : Representable c) (hc : WithinCapacity c m)
    (hv : validateIndices c (baseScalars c.hades).length = true) (hs : ∀ s ∈ c.scalars, leNat s < R) :
    fromPayload (pack c) m = .ok (rebuild c (baseScalars c.hades ++ c.scalars.map leNat)) :=
  fromPayload_eq_ok.2 ⟨pack_length_le (fun s h => (hr.scalars s h).1) (fun s h => (hr.polynomials s h).1)
    (fun s h => (hr.constraints s h).1) hc, c, unpackBounded_pack hr hc, hv, hs, rfl⟩

example : Representable exP ∧ WithinCapacity exP 3 ∧ validateIndices exP (baseScalars exP.hades).length = true ∧
    (∀ s ∈ exP.scalars, leNat s < R) := ⟨exP_representable, exP_within, exP_valid, exP_canonical⟩

/-! ## T4. what is accepted, what is rejected -/

/-- `accepted_is_valid`: an accepted payload is within the inflate limit, is read by the bounded reader into a
    description that is structurally valid in the sense of `Model/Compress.lean` (`CompressedShape.valid`:
    counts within capacity, rows strictly increasing and below the constraint count, every scalar / polynomial /
    witness index in range), carries only canonical scalars, and the result is the rebuilt composer -/
theorem accepted_is_valid {bs : List Nat} {m : Nat} {comp : Composer} (h : fromPayload bs m = .ok comp) :
    ∃ c, unpackBounded bs m = some c ∧ c.shape.valid (baseScalars c.hades).length m = true ∧
      (∀ s ∈ c.scalars, leNat s < R) ∧ bs.length ≤ packedSizeLimit m ∧
      comp = rebuild c (baseScalars c.hades ++ c.scalars.map leNat) := by
  obtain ⟨hl, c, hc, hv, hs, rfl⟩ := fromPayload_eq_ok.1 h
  obtain ⟨h1, h2, h3, h4, -⟩ := unpackBounded_counts hc
  exact ⟨c, hc, shape_valid h1 h2 h3 h4 hv, hs, hl, rfl⟩

example : ∃ comp, fromPayload exBytes 3 = .ok comp := ⟨_, exBytes_ok⟩

/-- the structural validity is exactly the counts plus `validate_indices` -/
theorem valid_iff_counts_and_indices (c : PackedCircuit) (m base : Nat) : c.shape.valid base m = true ↔
    (c.publicInputs.length ≤ m ∧ c.scalars.length ≤ m * Generated.SELECTORS_PER_POLYNOMIAL ∧
     c.polynomials.length ≤ m ∧ c.constraints.length ≤ m) ∧ validateIndices c base = true :=
  shape_valid_iff

/-- `rejected_iff`: the exact error classification.  `InvalidCompressedCircuit` iff the payload exceeds the
    inflate limit, or the bounded reader fails (truncated, malformed tag, over capacity, trailing bytes), or
    `validate_indices` fails; `BlsScalarMalformed` iff all of those pass and some scalar is not canonical -/
theorem rejected_iff {bs : List Nat} {m : Nat} {e : Packed.PErr} :
    fromPayload bs m = .error e ↔
      (e = .invalid ∧ (bs.length > packedSizeLimit m ∨ unpackBounded bs m = none ∨
        ∃ c, unpackBounded bs m = some c ∧ validateIndices c (baseScalars c.hades).length = false)) ∨
      (e = .scalarMalformed ∧ bs.length ≤ packedSizeLimit m ∧
        ∃ c, unpackBounded bs m = some c ∧ validateIndices c (baseScalars c.hades).length = true ∧
          ∃ s ∈ c.scalars, R ≤ leNat s) :=
  fromPayload_eq_error

/-- both error classes are inhabited: a row equal to the constraint count (out of range), and the scalar `R` -/
example :
    fromPayload (pack { exP with publicInputs := [0, 3] }) 3 = .error .invalid ∧
    fromPayload (pack { exP with scalars := [leBytes32 5, leBytes32 R] }) 3 = .error .scalarMalformed := by
  constructor
  · refine rejected_iff.2 (Or.inl ⟨rfl, Or.inr (Or.inr ⟨{ exP with publicInputs := [0, 3] }, ?_, ?_⟩)⟩)
    · decide +kernel
    · decide +kernel
  · refine rejected_iff.2 (Or.inr ⟨rfl, ?_, { exP with scalars := [leBytes32 5, leBytes32 R] }, ?_, ?_, leBytes32 R, ?_, ?_⟩)
    · decide +kernel
    · decide +kernel
    · decide +kernel
    · decide +kernel
    · decide +kernel

/-- the decoder is total with exactly these outcomes -/
theorem outcome_trichotomy (bs : List Nat) (m : Nat) :
    (∃ comp, fromPayload bs m = .ok comp) ∨ fromPayload bs m = .error .invalid ∨
    fromPayload bs m = .error .scalarMalformed := by
  cases h : fromPayload bs m with
  | ok comp => exact Or.inl ⟨comp, rfl⟩
  | error e => cases e with
    | invalid => exact Or.inr (Or.inl rfl)
    | scalarMalformed => exact Or.inr (Or.inr rfl)

/-- `accepted_canonical` (C17): whatever is accepted consists only of canonically encoded field elements — every
    transmitted scalar is 32 bytes with value below `R`, every entry of the built-in dictionary is below `R`, and
    hence every selector of every rebuilt gate is below `R` -/
theorem accepted_canonical {bs : List Nat} {m : Nat} {comp : Composer} (h : fromPayload bs m = .ok comp) :
    (∃ c, unpackBounded bs m = some c ∧ (∀ s ∈ c.scalars, s.length = 32 ∧ leNat s < R) ∧
      (∀ x ∈ baseScalars c.hades, x < R)) ∧
    (∀ g ∈ comp.gates.toList, ∀ s ∈ gateSelectors g, s < R) := by
  obtain ⟨-, c, hc, -, hs, rfl⟩ := fromPayload_eq_ok.1 h
  obtain ⟨-, -, -, -, h32, -⟩ := unpackBounded_counts hc
  refine ⟨⟨c, hc, fun s hm => ⟨h32 s hm, hs s hm⟩, baseScalars_lt c.hades⟩, ?_⟩
  apply rebuild_canon
  intro x hx
  rcases List.mem_append.1 hx with hx | hx
  · exact baseScalars_lt c.hades x hx
  · obtain ⟨s, hm, rfl⟩ := List.mem_map.1 hx
    exact hs s hm

example : ∃ comp, fromPayload exBytes 3 = .ok comp := ⟨_, exBytes_ok⟩

/-! ## T5. the rebuilt composer -/

/-- `rebuild_shape_any`: for ANY packed circuit and scalar table the rebuilt composer has one gate per
    constraint, only zero witnesses, every gate wire allocated, and at most `4` witnesses per constraint — the
    declared `witnesses` field (up to `2^64 - 1`) allocates nothing -/
theorem rebuild_shape_any (c : PackedCircuit) (scalars : List Nat) :
    (rebuild c scalars).gates.size = c.constraints.length ∧
    (rebuild c scalars).wit.size ≤ 4 * c.constraints.length ∧
    (∀ v ∈ (rebuild c scalars).wit.toList, v = 0) ∧
    (∀ g ∈ (rebuild c scalars).gates.toList,
      g.a < (rebuild c scalars).wit.size ∧ g.b < (rebuild c scalars).wit.size ∧
      g.c < (rebuild c scalars).wit.size ∧ g.d < (rebuild c scalars).wit.size) :=
  PackedLemmas.rebuild_shape c scalars

/-- `rebuild_shape`: for an accepted payload the rebuilt composer has exactly `c.constraints.length ≤ m` gates,
    a zero-valued public input on exactly the rows `c.publicInputs` (in order), only zero witnesses, every gate
    wire below `wit.size`, and `wit.size ≤ 4 · c.constraints.length ≤ 4 · m` -/
theorem rebuild_shape {bs : List Nat} {m : Nat} {comp : Composer} (h : fromPayload bs m = .ok comp) :
    ∃ c, unpackBounded bs m = some c ∧
      comp.gates.size = c.constraints.length ∧ comp.gates.size ≤ m ∧
      comp.pis.toList = c.publicInputs.map (fun r => (r, 0)) ∧
      (∀ v ∈ comp.wit.toList, v = 0) ∧
      (∀ g ∈ comp.gates.toList, g.a < comp.wit.size ∧ g.b < comp.wit.size ∧ g.c < comp.wit.size ∧
        g.d < comp.wit.size) ∧
      comp.wit.size ≤ 4 * c.constraints.length ∧ comp.wit.size ≤ 4 * m := by
  obtain ⟨-, c, hc, hv, -, rfl⟩ := fromPayload_eq_ok.1 h
  obtain ⟨-, -, -, h4, -⟩ := unpackBounded_counts hc
  obtain ⟨s1, s2, s3, s4⟩ := PackedLemmas.rebuild_shape c (baseScalars c.hades ++ c.scalars.map leNat)
  obtain ⟨p1, p2⟩ := validateIndices_pis hv
  exact ⟨c, hc, s1, by omega, rebuild_pis c _ p1 p2, s3, s4, s2, by omega⟩

/-- on the example: 3 gates, 5 witnesses (labels 4, 1, 0, 3, 200 in order of first use; the declared count is
    300), rows 0 and 2 -/
example : ∃ comp, fromPayload exBytes 3 = .ok comp ∧ comp.gates.size = 3 ∧ comp.wit.size = 5 ∧
    comp.pis.toList = [(0, 0), (2, 0)] ∧
    comp.gates.toList.map (fun g => [g.a, g.b, g.c, g.d]) = [[0, 1, 0, 2], [1, 3, 2, 2], [3, 3, 0, 4]] ∧
    comp.gates.toList.map gateSelectors =
      [[0, 1, 0, 5, 0, 0, 1, 0, 0, 0, 0], [R - 2, 0, 0, 0, 0, R - 1, 0, 0, 0, 0, 0], [0, 1, 0, 5, 0, 0, 1, 0, 0, 0, 0]] := by
  refine ⟨_, exBytes_ok, ?_, ?_, ?_, ?_, ?_⟩ <;> decide +kernel

/-! ## T6. the byte-level round trip -/

/-- the composer of `Props/C15.lean`: 3 gates, witness 2 unused, gates 0 and 2 share their selector tuple, a
    public input on row 0 and row 2 inserted twice -/
def exComp : Composer :=
  { gates := #[{ ql := 1, qo := 2, qarith := 1, a := 4, b := 1, c := 4, d := 0 },
               { qm := 3, qc := 5, a := 1, b := 3, c := 0, d := 0 },
               { ql := 1, qo := 2, qarith := 1, a := 3, b := 3, c := 4, d := 0 }],
    wit := #[0, 11, 12, 13, 14],
    pis := #[(2, 9), (0, 0), (2, 5)] }

theorem exComp_compressible : Compressible exComp 3 :=
  ⟨by decide +kernel, by decide +kernel, by decide, by decide, by decide, by decide⟩

/-- `roundtrip_bytes`: decoding the payload that `Circuit::compress()` deflates gives the composer
    `decompressCompress` of `Model/Compress.lean` (same gates with wires relabelled in order of first use, zero
    witnesses, sorted de-duplicated zero-valued public-input rows) — so the compiled keys are the ones of
    `Props/C15.lean::compress_compile_same_keys` -/
theorem roundtrip_bytes {comp : Composer} {m : Nat} (h : Compressible comp m) :
    fromPayload (compressPayload comp) m = .ok (decompressCompress comp) :=
  fromPayload_compressPayload h

example : Compressible exComp 3 := exComp_compressible

/-- the same for either setting of the hades flag of `from_composer` -/
theorem roundtrip_bytes_any_flag {comp : Composer} {m : Nat} (hades : Bool) (h : Compressible comp m) :
    fromPayload (pack (fromComposer hades comp)) m = .ok (decompressCompress comp) :=
  fromPayload_pack_fromComposer hades h

/-- evaluated on the example without the hades table (no SHA-512 in the kernel): 2 extra scalars, 2 polynomials -/
example : Compressible exComp 3 ∧
    fromComposer false exComp =
      { hades := false, publicInputs := [0, 2], witnesses := 5, scalars := [leBytes32 2, leBytes32 3, leBytes32 5],
        polynomials := [[0, 1, 0, 3, 0, 0, 1, 0, 0, 0, 0], [4, 0, 0, 0, 0, 5, 0, 0, 0, 0, 0]],
        constraints := [[0, 4, 1, 4, 0], [1, 1, 3, 0, 0], [0, 3, 3, 4, 0]] } ∧
    unpackBounded (pack (fromComposer false exComp)) 3 = some (fromComposer false exComp) := by
  refine ⟨exComp_compressible, ?_, ?_⟩ <;> decide +kernel

/-- `roundtrip_reader`: the bounded reader returns exactly the encoder's description -/
theorem roundtrip_reader {comp : Composer} {m : Nat} (hades : Bool) (h : Compressible comp m) :
    unpackBounded (pack (fromComposer hades comp)) m = some (fromComposer hades comp) :=
  unpackBounded_pack_fromComposer hades h

example : Compressible exComp 3 := exComp_compressible

/-- `encoder_output_good`: what the encoder produces is representable, within capacity, passes
    `validate_indices`, carries only canonical scalars, and rebuilds to `decompressCompress` -/
theorem encoder_output_good {comp : Composer} {m : Nat} (hades : Bool) (h : Compressible comp m) :
    Representable (fromComposer hades comp) ∧ WithinCapacity (fromComposer hades comp) m ∧
    validateIndices (fromComposer hades comp) (baseScalars hades).length = true ∧
    (∀ s ∈ (fromComposer hades comp).scalars, leNat s < R) ∧
    rebuild (fromComposer hades comp) (baseScalars hades ++ (fromComposer hades comp).scalars.map leNat) =
      decompressCompress comp :=
  fromComposer_good hades h

example : Compressible exComp 3 := exComp_compressible

/-- `dictionaries_decode` (no hypothesis on the composer): the scalar table `S` extends the built-in one, its tail
    is what is transmitted, all its entries are canonical, and every constraint `[pi, a, b, c, d]` names a
    polynomial whose eleven indices look up, in the FINAL tables, the selectors of its gate reduced mod `R` -/
theorem dictionaries_decode (hades : Bool) (comp : Composer) :
    ∃ S : List Nat, baseScalars hades <+: S ∧ (∀ x ∈ S, x < R) ∧
      (fromComposer hades comp).scalars = (S.drop (baseScalars hades).length).map leBytes32 ∧
      List.Forall₂ (fun g k => ∃ pi idx, k = [pi, g.a, g.b, g.c, g.d] ∧
          (fromComposer hades comp).polynomials[pi]? = some idx ∧
          idx.map (fun i => S[i]?) = ((gateSelectors g).map (· % R)).map some)
        comp.gates.toList (fromComposer hades comp).constraints :=
  fromComposer_dictionaries hades comp

/-- `scalar_bytes_roundtrip`: the 32 little-endian bytes of a canonical scalar decode to it -/
theorem scalar_bytes_roundtrip {v : Nat} (h : v < R) :
    (leBytes32 v).length = 32 ∧ (∀ b ∈ leBytes32 v, b < 256) ∧ leNat (leBytes32 v) = v :=
  ⟨leBytes32_length v, leBytes32_lt v, leNat_leBytes32 h⟩

example : (5 : Nat) < R ∧ R - 2 < R := by decide

/-- the built-in dictionary has at most `3 + 335 + 25` entries, all canonical (proved without evaluating a single
    SHA-512) -/
theorem builtin_dictionary (hades : Bool) :
    (baseScalars hades).length ≤ 363 ∧ ∀ x ∈ baseScalars hades, x < R :=
  ⟨baseScalars_length_le hades, baseScalars_lt hades⟩

end Plonk.Props.C15Packed
