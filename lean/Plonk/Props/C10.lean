/-
  Property C10 — the bitwise AND / XOR components return exactly the truncated result.

  "For every width of up to 127 bit pairs, the logic components are satisfiable for all inputs
  and the witness they return equals the bitwise AND (respectively XOR) of the low 2·pairs bits
  of the canonical values of both inputs.  No satisfying assignment exists in which the returned
  witness holds any other value."

  Conventions.  `c` is the composer state before the call, `isXor = false` is
  `append_logic_and::<pairs>`, `isXor = true` is `append_logic_xor::<pairs>`;
  `c' := ((appendLogicComponent pairs a b isXor).run c).2` the state after the call and
  `out := (…).1` the returned witness index; `w : Nat → Nat` is an arbitrary assignment of values
  to witness indices (everything a prover may choose: the three accumulator chains, the product
  wires, and every helper witness of the two truncation bindings); `c''.rowsHoldW w c.gates.size
  c'.gates.size` says that the rows appended by the call hold under `w` (read in `c'` itself or
  in any later state `c''`); `toF : Nat → F = ZMod R`; `logicOp false x y = x &&& y`,
  `logicOp true x y = x ^^^ y` (`LogicRows.lean`); `x % 4 ^ pairs` is the low `2·pairs` bits.

  Everything is proved at full strength for every `pairs ≤ Generated.LOGIC_MAX_PAIRS = 127`
  (including `pairs = 0`); there is no `_partial` theorem.

  Forced hypotheses (findings; none of them is a defect of the Rust code):
    * `WF c` (every stored witness value is `< R`, and no public input is recorded for a row that
      does not exist yet — `PiFresh`): invariant of every state reachable from `initialized`
      (`initialized_wf`), preserved by the component (`logic_extends`).  The `PiFresh` half is what
      the logic rows need (a stale sparse public input would leak into the fresh rows); the
      `val < R` half is only used by the glue of `bind_truncation_split` (`Trunc.lean`).
    * `toF (w 0) = 0`: row 0 of the loop is wired to the constant-zero witness (index 0) as the
      initial accumulator of all three chains; its value is pinned by row 0 of
      `Composer::initialized()`, not by the component.
    * completeness: `a, b < c.wit.size` (the inputs were allocated) and `c.val 0 = 0`.
    * `logic_exact`: `a = 0 → va = 0`, `b = 0 → vb = 0` (an input that *is* the zero witness can
      only carry 0) and `a = b → va = vb` (the same witness cannot carry two values); `va, vb, v`
      canonical (`< R`).
  Remarks.
    * The accumulators are **not** range-checked by a separate gadget: the bound
      `acc < 4^pairs` that `bind_truncation_split` needs for its `low` argument (it does not
      range-check `low` itself) is a consequence of the logic rows (`logic_chain_sound_val`);
      this is where `pairs ≤ 127` (`4^127 < R`) is used, together with `2·pairs ≤ 254` for the
      canonical-split guard.
    * `pairs = 0` (`logic_zero_pairs`): one unselected row, the zero witness is returned and
      nothing is constrained about `a`, `b` — consistent with the statement (`x % 4^0 = 0`).
-/
import Plonk.Proofs.Logic
namespace Plonk.Props.C10
open Plonk Plonk.Composer

/-! ## what is appended -/

/-- `append_logic_component` only appends: `c'` extends `c`; the numbers of gates and witnesses
    appended are functions of `pairs` alone (`pairs + 1` rows and `4·pairs` witnesses for the
    loop and its closing row, plus two `bind_truncation_split` blocks when `pairs ≠ 0`); the last
    appended gate is plain (it reads no next-row wire, so whatever is appended later does not
    disturb the component); well-formedness `WF` (which contains `PiFresh`) is preserved; the
    returned index is the zero witness for `pairs = 0`, else the last output accumulator. -/
theorem logic_extends (c : Composer) (pairs a b : Nat) (isXor : Bool) :
    Extends c ((appendLogicComponent pairs a b isXor).run c).2 ∧
    ((appendLogicComponent pairs a b isXor).run c).2.gates.size
      = c.gates.size + logicGateCount pairs ∧
    ((appendLogicComponent pairs a b isXor).run c).2.wit.size
      = c.wit.size + logicWitCount pairs ∧
    (∀ i, i + 1 = ((appendLogicComponent pairs a b isXor).run c).2.gates.size →
      Gate.plain (((appendLogicComponent pairs a b isXor).run c).2.gateAt i)) ∧
    (WF c → WF ((appendLogicComponent pairs a b isXor).run c).2) ∧
    ((appendLogicComponent pairs a b isXor).run c).1
      = (if pairs = 0 then 0 else c.wit.size + 4 * (pairs - 1) + 3) := by
  rw [appendLogicComponent_snd, appendLogicComponent_fst]
  exact ⟨logicOut_extends pairs a b isXor c, logicOut_gates_size pairs a b isXor c,
    logicOut_wit_size pairs a b isXor c, logicOut_lastPlain pairs a b isXor c,
    logicOut_wf pairs a b isXor c, rfl⟩

/-- the counts -/
theorem logic_counts (pairs : Nat) :
    logicGateCount pairs = pairs + 1 + (if pairs = 0 then 0 else 2 * btsGateCount (pairs * 2)) ∧
    logicWitCount pairs = 4 * pairs + (if pairs = 0 then 0 else 2 * btsWitCount (pairs * 2)) :=
  ⟨rfl, rfl⟩

/-- non-vacuity: sizes for `pairs = 0, 2, 32` (`u64` operands); `initialized` is well-formed -/
example : logicGateCount 0 = 1 ∧ logicWitCount 0 = 0 ∧
    logicGateCount 2 = 3 + 2 * btsGateCount 4 ∧ logicWitCount 32 = 128 + 2 * btsWitCount 64 ∧
    WF initialized :=
  ⟨rfl, rfl, rfl, rfl, initialized_wf⟩

/-! ## soundness -/

/-- **Soundness.**  For every `pairs ≤ 127` and *every* assignment `w` (accumulators, product
    wires, truncation helpers all prover-chosen) with the zero witness equal to 0: if the rows
    appended by the component hold under `w` — read in `c'` or in any later state `c''` — then
    the canonical value of the returned witness is `op` of the canonical values of the two inputs
    reduced modulo `4^pairs`.  So no satisfying assignment has any other output. -/
theorem logic_sound (c : Composer) (pairs a b : Nat) (isXor : Bool)
    (hp : pairs ≤ Generated.LOGIC_MAX_PAIRS) (h : WF c) (c'' : Composer)
    (hext : Extends ((appendLogicComponent pairs a b isXor).run c).2 c'')
    (w : Nat → Nat) (h0 : toF (w 0) = 0)
    (hrows : c''.rowsHoldW w c.gates.size
      ((appendLogicComponent pairs a b isXor).run c).2.gates.size) :
    (toF (w ((appendLogicComponent pairs a b isXor).run c).1)).val =
      logicOp isXor ((toF (w a)).val % 4 ^ pairs) ((toF (w b)).val % 4 ^ pairs) := by
  rw [appendLogicComponent_snd] at hext hrows
  rw [appendLogicComponent_fst]
  exact logicOut_sound pairs a b isXor c hp h hext w h0 hrows

/-- soundness of `append_logic_and::<pairs>`: bitwise AND of the low `2·pairs` bits -/
theorem logic_and_sound (c : Composer) (pairs a b : Nat)
    (hp : pairs ≤ Generated.LOGIC_MAX_PAIRS) (h : WF c) (c'' : Composer)
    (hext : Extends ((appendLogicComponent pairs a b false).run c).2 c'')
    (w : Nat → Nat) (h0 : toF (w 0) = 0)
    (hrows : c''.rowsHoldW w c.gates.size
      ((appendLogicComponent pairs a b false).run c).2.gates.size) :
    (toF (w ((appendLogicComponent pairs a b false).run c).1)).val =
      ((toF (w a)).val % 2 ^ (2 * pairs)) &&& ((toF (w b)).val % 2 ^ (2 * pairs)) := by
  rw [← four_pow_eq]
  exact logic_sound c pairs a b false hp h c'' hext w h0 hrows

/-- soundness of `append_logic_xor::<pairs>`: bitwise XOR of the low `2·pairs` bits -/
theorem logic_xor_sound (c : Composer) (pairs a b : Nat)
    (hp : pairs ≤ Generated.LOGIC_MAX_PAIRS) (h : WF c) (c'' : Composer)
    (hext : Extends ((appendLogicComponent pairs a b true).run c).2 c'')
    (w : Nat → Nat) (h0 : toF (w 0) = 0)
    (hrows : c''.rowsHoldW w c.gates.size
      ((appendLogicComponent pairs a b true).run c).2.gates.size) :
    (toF (w ((appendLogicComponent pairs a b true).run c).1)).val =
      ((toF (w a)).val % 2 ^ (2 * pairs)) ^^^ ((toF (w b)).val % 2 ^ (2 * pairs)) := by
  rw [← four_pow_eq]
  exact logic_sound c pairs a b true hp h c'' hext w h0 hrows

/-! ## completeness -/

/-- **Completeness.**  For a well-formed state with both inputs allocated and the zero witness
    at 0, and *any* values of the inputs, the model's own witness table satisfies every appended
    row — read in `c'` or in any later state `c''` — and the returned witness holds
    `op (a mod 4^pairs) (b mod 4^pairs)`. -/
theorem logic_complete (c : Composer) (pairs a b : Nat) (isXor : Bool)
    (hp : pairs ≤ Generated.LOGIC_MAX_PAIRS) (h : WF c) (ha : a < c.wit.size)
    (hb : b < c.wit.size) (hz : c.val 0 = 0) (c'' : Composer)
    (hext : Extends ((appendLogicComponent pairs a b isXor).run c).2 c'') :
    c''.rowsHoldW c''.val c.gates.size
      ((appendLogicComponent pairs a b isXor).run c).2.gates.size ∧
    ((appendLogicComponent pairs a b isXor).run c).2.val
        ((appendLogicComponent pairs a b isXor).run c).1 =
      logicOp isXor (c.val a % 4 ^ pairs) (c.val b % 4 ^ pairs) := by
  rw [appendLogicComponent_snd] at hext ⊢
  rw [appendLogicComponent_fst]
  exact ⟨logicOut_complete pairs a b isXor c hp h ha hb hz hext,
    logicOut_val_out pairs a b isXor c hp (by omega) hz⟩

/-- non-vacuity of soundness and completeness together: on `initialized` witness 2 holds 6 and
    witness 4 holds 7; the 2-pair AND component on them is satisfied by the model's own table,
    and soundness applied to that table gives the output `(6 % 16) &&& (7 % 16)`. -/
example :
    (toF (((appendLogicComponent 2 2 4 false).run initialized).2.val
        ((appendLogicComponent 2 2 4 false).run initialized).1)).val =
      logicOp false
        ((toF (((appendLogicComponent 2 2 4 false).run initialized).2.val 2)).val % 4 ^ 2)
        ((toF (((appendLogicComponent 2 2 4 false).run initialized).2.val 4)).val % 4 ^ 2) :=
  logic_sound initialized 2 2 4 false (by decide) initialized_wf _ (Extends.refl _) _
    (by rw [(logic_extends initialized 2 2 4 false).1.val_eq (by rw [initialized_wit_size]; norm_num),
          initialized_val_zero]; simp)
    (logic_complete initialized 2 2 4 false (by decide) initialized_wf
      (by rw [initialized_wit_size]; norm_num) (by rw [initialized_wit_size]; norm_num)
      initialized_val_zero _ (Extends.refl _)).1

/-! ## `pairs = 0` -/

/-- With zero pairs the component appends one unselected row, allocates nothing, returns the
    zero witness, and constrains nothing: *every* assignment satisfies the appended row (in
    particular nothing is implied about `a`, `b`). -/
theorem logic_zero_pairs (c : Composer) (a b : Nat) (isXor : Bool) (hpi : PiFresh c) :
    ((appendLogicComponent 0 a b isXor).run c).1 = 0 ∧
    ((appendLogicComponent 0 a b isXor).run c).2.gates.size = c.gates.size + 1 ∧
    ((appendLogicComponent 0 a b isXor).run c).2.wit.size = c.wit.size ∧
    ∀ w : Nat → Nat, ((appendLogicComponent 0 a b isXor).run c).2.rowsHoldW w c.gates.size
      ((appendLogicComponent 0 a b isXor).run c).2.gates.size := by
  rw [appendLogicComponent_snd, appendLogicComponent_fst]
  refine ⟨rfl, logicOut_gates_size 0 a b isXor c, logicOut_wit_size 0 a b isXor c, fun w => ?_⟩
  rw [logicOut_gates_size]
  exact (logicCore_rows_iff 0 a b isXor c hpi _
    (by rw [logicOut_zero _ _ _ _ _ rfl]; exact Extends.refl _) w).mpr
    (fun j hj => absurd hj (Nat.not_lt_zero j))

/-- non-vacuity: on `initialized`, even the assignment that gives every witness the value 1 (so
    `a = b = 1`, output wire `0 ↦ 1`) satisfies the row appended by the 0-pair component -/
example : ((appendLogicComponent 0 2 4 true).run initialized).2.rowsHoldW (fun _ => 1)
    initialized.gates.size ((appendLogicComponent 0 2 4 true).run initialized).2.gates.size :=
  (logic_zero_pairs initialized 2 4 true initialized_wf.pis_zero).2.2.2 _

/-! ## the property -/

/-- **C10, exact characterisation for a fixed circuit.**  For every `pairs ≤ 127`, canonical
    input values `va`, `vb` and canonical `v`: an assignment that gives `a`, `b` the values `va`,
    `vb` (zero witness 0), gives the returned witness the value `v`, and satisfies every row of
    the component exists **iff** `v = op (va mod 4^pairs) (vb mod 4^pairs)`.
    (⇐ : satisfiable for all inputs, with the right output; ⇒ : no satisfying assignment in
    which the returned witness holds any other value.) -/
theorem logic_exact (c : Composer) (pairs a b : Nat) (isXor : Bool)
    (hp : pairs ≤ Generated.LOGIC_MAX_PAIRS) (h : WF c) (ha : a < c.wit.size)
    (hb : b < c.wit.size) (va vb v : Nat) (hva : va < R) (hvb : vb < R) (hv : v < R)
    (ha0 : a = 0 → va = 0) (hb0 : b = 0 → vb = 0) (hab : a = b → va = vb) :
    (∃ w : Nat → Nat, w a = va ∧ w b = vb ∧ w 0 = 0 ∧
        w ((appendLogicComponent pairs a b isXor).run c).1 = v ∧
        ((appendLogicComponent pairs a b isXor).run c).2.rowsHoldW w c.gates.size
          ((appendLogicComponent pairs a b isXor).run c).2.gates.size)
      ↔ v = logicOp isXor (va % 4 ^ pairs) (vb % 4 ^ pairs) := by
  constructor
  · rintro ⟨w, hwa, hwb, hw0, hwo, hrows⟩
    have := logic_sound c pairs a b isXor hp h _ (Extends.refl _) w (by rw [hw0]; simp) hrows
    rwa [hwo, hwa, hwb, val_toF_of_lt hv, val_toF_of_lt hva, val_toF_of_lt hvb] at this
  · intro hvv
    obtain ⟨w, h1, h2, h3, h4, h5⟩ :=
      logicOut_exists pairs a b isXor c hp h ha hb va vb hva hvb ha0 hb0 hab
    rw [appendLogicComponent_snd, appendLogicComponent_fst]
    exact ⟨w, h1, h2, h3, by rw [h4, hvv], h5⟩

/-- **C10 for `append_logic_and`**: satisfiable with output `v` iff `v` is the bitwise AND of the
    low `2·pairs` bits of the inputs. -/
theorem logic_and_exact (c : Composer) (pairs a b : Nat)
    (hp : pairs ≤ Generated.LOGIC_MAX_PAIRS) (h : WF c) (ha : a < c.wit.size)
    (hb : b < c.wit.size) (va vb v : Nat) (hva : va < R) (hvb : vb < R) (hv : v < R)
    (ha0 : a = 0 → va = 0) (hb0 : b = 0 → vb = 0) (hab : a = b → va = vb) :
    (∃ w : Nat → Nat, w a = va ∧ w b = vb ∧ w 0 = 0 ∧
        w ((appendLogicComponent pairs a b false).run c).1 = v ∧
        ((appendLogicComponent pairs a b false).run c).2.rowsHoldW w c.gates.size
          ((appendLogicComponent pairs a b false).run c).2.gates.size)
      ↔ v = (va % 2 ^ (2 * pairs)) &&& (vb % 2 ^ (2 * pairs)) := by
  rw [← four_pow_eq]
  exact logic_exact c pairs a b false hp h ha hb va vb v hva hvb hv ha0 hb0 hab

/-- **C10 for `append_logic_xor`**: satisfiable with output `v` iff `v` is the bitwise XOR of the
    low `2·pairs` bits of the inputs. -/
theorem logic_xor_exact (c : Composer) (pairs a b : Nat)
    (hp : pairs ≤ Generated.LOGIC_MAX_PAIRS) (h : WF c) (ha : a < c.wit.size)
    (hb : b < c.wit.size) (va vb v : Nat) (hva : va < R) (hvb : vb < R) (hv : v < R)
    (ha0 : a = 0 → va = 0) (hb0 : b = 0 → vb = 0) (hab : a = b → va = vb) :
    (∃ w : Nat → Nat, w a = va ∧ w b = vb ∧ w 0 = 0 ∧
        w ((appendLogicComponent pairs a b true).run c).1 = v ∧
        ((appendLogicComponent pairs a b true).run c).2.rowsHoldW w c.gates.size
          ((appendLogicComponent pairs a b true).run c).2.gates.size)
      ↔ v = (va % 2 ^ (2 * pairs)) ^^^ (vb % 2 ^ (2 * pairs)) := by
  rw [← four_pow_eq]
  exact logic_exact c pairs a b true hp h ha hb va vb v hva hvb hv ha0 hb0 hab

/-- non-vacuity, both sides of the equivalence, with a genuine truncation: on `initialized` with
    `a = 2`, `b = 4` and one bit pair, for the input values `6 = 0b110` and `7 = 0b111` the output
    `2 = (6 % 4) &&& (7 % 4)` is reachable, and the untruncated `6 = 6 &&& 7` is not. -/
example :
    (∃ w : Nat → Nat, w 2 = 6 ∧ w 4 = 7 ∧ w 0 = 0 ∧
      w ((appendLogicComponent 1 2 4 false).run initialized).1 = 2 ∧
      ((appendLogicComponent 1 2 4 false).run initialized).2.rowsHoldW w initialized.gates.size
        ((appendLogicComponent 1 2 4 false).run initialized).2.gates.size) ∧
    ¬ (∃ w : Nat → Nat, w 2 = 6 ∧ w 4 = 7 ∧ w 0 = 0 ∧
      w ((appendLogicComponent 1 2 4 false).run initialized).1 = 6 ∧
      ((appendLogicComponent 1 2 4 false).run initialized).2.rowsHoldW w initialized.gates.size
        ((appendLogicComponent 1 2 4 false).run initialized).2.gates.size) := by
  have h2 : 2 < initialized.wit.size := by rw [initialized_wit_size]; norm_num
  have h4 : 4 < initialized.wit.size := by rw [initialized_wit_size]; norm_num
  constructor
  · exact (logic_and_exact initialized 1 2 4 (by decide) initialized_wf h2 h4 6 7 2
      (by decide +kernel) (by decide +kernel) (by decide +kernel) (by decide) (by decide)
      (by decide)).mpr (by decide)
  · rw [logic_and_exact initialized 1 2 4 (by decide) initialized_wf h2 h4 6 7 6
      (by decide +kernel) (by decide +kernel) (by decide +kernel) (by decide) (by decide)
      (by decide)]
    decide

/-- non-vacuity for XOR over two pairs: `(6 % 16) ^^^ (7 % 16) = 1` is the only reachable output -/
example (v : Nat) (hv : v < R) :
    (∃ w : Nat → Nat, w 2 = 6 ∧ w 4 = 7 ∧ w 0 = 0 ∧
      w ((appendLogicComponent 2 2 4 true).run initialized).1 = v ∧
      ((appendLogicComponent 2 2 4 true).run initialized).2.rowsHoldW w initialized.gates.size
        ((appendLogicComponent 2 2 4 true).run initialized).2.gates.size) ↔ v = 1 := by
  have h2 : 2 < initialized.wit.size := by rw [initialized_wit_size]; norm_num
  have h4 : 4 < initialized.wit.size := by rw [initialized_wit_size]; norm_num
  rw [logic_xor_exact initialized 2 2 4 (by decide) initialized_wf h2 h4 6 7 v
      (by decide +kernel) (by decide +kernel) hv (by decide) (by decide) (by decide)]
  have : (6 % 2 ^ (2 * 2)) ^^^ (7 % 2 ^ (2 * 2)) = 1 := by decide
  rw [this]

end Plonk.Props.C10
