/-
  Tie by translation (used by C02, C03, C05): the Rust formulas of every widget — regenerated from
  `src/proof_system/widget/**/{proverkey,verifierkey}.rs` into `Plonk/GeneratedWidgets.lean` by `tools/rs2lean.py`
  on every run — are the model's formulas. Three statements, one per site of the code; each is the conjunction over
  the six widgets (arithmetic, range, logic, fixed-base, curve addition, permutation).
-/
import Plonk.Proofs.WidgetSource

namespace Plonk.Props.WidgetTie
open Plonk Plonk.GeneratedWidgets Plonk.WidgetSource

/-- **Verifier** (`VerifierKey::compute_linearization_commitment` of every widget): the scalars pushed next to the
    selector / `z` / `s_sigma_4` commitments are the model's `linearizationTerms` scalars. -/
theorem verifier_terms_are_the_source (sepR sepL sepF sepV : Nat) (e : Evals) (ch : Challenges) (l1 : Nat) :
    arith_verifier (A := F) (evaluations_a_eval := toF e.a) (evaluations_b_eval := toF e.b)
        (evaluations_c_eval := toF e.c) (evaluations_d_eval := toF e.d) (evaluations_q_arith_eval := toF e.qarith)
      = [(toF (fmul (fmul e.a e.b) e.qarith), "self_q_m_0"), (toF (fmul e.a e.qarith), "self_q_l_0"),
         (toF (fmul e.b e.qarith), "self_q_r_0"), (toF (fmul e.c e.qarith), "self_q_o_0"),
         (toF (fmul e.d e.qarith), "self_q_f_0"), (toF e.qarith, "self_q_c_0")] ∧
    range_verifier (A := F) (evaluations_a_eval := toF e.a) (evaluations_b_eval := toF e.b)
        (evaluations_c_eval := toF e.c) (evaluations_d_eval := toF e.d) (evaluations_d_w_eval := toF e.dw)
        (range_separation_challenge := toF sepR)
      = [(toF (rangeScalar sepR e), "self_q_range_0")] ∧
    logic_verifier (A := F) (evaluations_a_eval := toF e.a) (evaluations_a_w_eval := toF e.aw)
        (evaluations_b_eval := toF e.b) (evaluations_b_w_eval := toF e.bw) (evaluations_c_eval := toF e.c)
        (evaluations_d_eval := toF e.d) (evaluations_d_w_eval := toF e.dw) (evaluations_q_c_eval := toF e.qc)
        (logic_separation_challenge := toF sepL)
      = [(toF (logicScalar sepL e), "self_q_logic_0")] ∧
    fixed_verifier (A := F) (EDWARDS_D := dF) (ecc_separation_challenge := toF sepF)
        (evaluations_a_eval := toF e.a) (evaluations_a_w_eval := toF e.aw) (evaluations_b_eval := toF e.b)
        (evaluations_b_w_eval := toF e.bw) (evaluations_c_eval := toF e.c) (evaluations_d_eval := toF e.d)
        (evaluations_d_w_eval := toF e.dw) (evaluations_q_c_eval := toF e.qc) (evaluations_q_l_eval := toF e.ql)
        (evaluations_q_r_eval := toF e.qr)
      = [(toF (fixedScalar sepF e), "self_q_fixed_group_add_0")] ∧
    var_verifier (A := F) (EDWARDS_D := dF) (curve_add_separation_challenge := toF sepV)
        (evaluations_a_eval := toF e.a) (evaluations_a_w_eval := toF e.aw) (evaluations_b_eval := toF e.b)
        (evaluations_b_w_eval := toF e.bw) (evaluations_c_eval := toF e.c) (evaluations_d_eval := toF e.d)
        (evaluations_d_w_eval := toF e.dw)
      = [(toF (varScalar sepV e), "self_q_variable_group_add_0")] ∧
    perm_verifier (A := F) (K1 := toF Generated.K1) (K2 := toF Generated.K2) (K3 := toF Generated.K3)
        (alpha := toF ch.alpha) (beta := toF ch.beta) (evaluations_a_eval := toF e.a) (evaluations_b_eval := toF e.b)
        (evaluations_c_eval := toF e.c) (evaluations_d_eval := toF e.d) (evaluations_s_sigma_1_eval := toF e.s1)
        (evaluations_s_sigma_2_eval := toF e.s2) (evaluations_s_sigma_3_eval := toF e.s3)
        (evaluations_z_eval := toF e.z) (gamma := toF ch.gamma) (l1_eval := toF l1) (u_challenge := toF ch.u)
        (z_challenge := toF ch.z)
      = [(toF (permZScalar e ch l1), "z_comm"), (toF (permS4Scalar e ch), "self_s_sigma_4_0")] :=
  ⟨arith_verifier_source e, range_verifier_source sepR e, logic_verifier_source sepL e,
   fixed_verifier_source sepF e, var_verifier_source sepV e, perm_verifier_source e ch l1⟩

/-- the copied permutation scalars ARE entries 10 and 11 of the model's `linearizationTerms` -/
theorem perm_scalars_are_the_models (k : VKey) (p : ProofM) (ch : Challenges) (zh l1 : Nat) :
    (linearizationTerms k p ch zh l1)[10]? = some (permZScalar p.ev ch l1, p.zC) ∧
    (linearizationTerms k p ch zh l1)[11]? = some (permS4Scalar p.ev ch, k.s4) :=
  linearizationTerms_perm k p ch zh l1

/-- **Prover, quotient** (`ProverKey::compute_quotient_i` of every widget): the term of row `i` is the selector value
    times the SAME model scalar evaluated on the row's wire values (and `arithVal` for the arithmetic widget,
    `permQuotTerm` = the model's `idp + cpp + (z − 1)·l1α²` for the permutation). -/
theorem prover_quotient_terms_are_the_source (g : Gate) (sep a aw b bw c d dw ql qr qc : Nat) (q : F)
    (z zw x s1 s2 s3 s4 alpha beta gamma l1a2 : Nat) :
    arith_quotient_i (A := F) (a_i := toF a) (b_i := toF b) (c_i := toF c) (d_i := toF d)
        (self_q_arith_1_index := toF g.qarith) (self_q_c_1_index := toF g.qc) (self_q_f_1_index := toF g.qf)
        (self_q_l_1_index := toF g.ql) (self_q_m_1_index := toF g.qm) (self_q_o_1_index := toF g.qo)
        (self_q_r_1_index := toF g.qr)
      = toF (arithVal g a b c d 0) ∧
    range_quotient_i (A := F) (a_i := toF a) (b_i := toF b) (c_i := toF c) (d_i := toF d) (d_i_w := toF dw)
        (range_separation_challenge := toF sep) (self_q_range_1_index := q)
      = q * toF (rangeScalar sep (rowEvals a b c d 0 0 dw 0 0 0)) ∧
    logic_quotient_i (A := F) (a_i := toF a) (a_i_w := toF aw) (b_i := toF b) (b_i_w := toF bw) (c_i := toF c)
        (d_i := toF d) (d_i_w := toF dw) (logic_separation_challenge := toF sep) (self_q_c_1_index := toF qc)
        (self_q_logic_1_index := q)
      = q * toF (logicScalar sep (rowEvals a b c d aw bw dw 0 0 qc)) ∧
    fixed_quotient_i (A := F) (EDWARDS_D := dF) (a_i := toF a) (a_i_w := toF aw) (b_i := toF b) (b_i_w := toF bw)
        (c_i := toF c) (d_i := toF d) (d_i_w := toF dw) (ecc_separation_challenge := toF sep)
        (self_q_c_1_index := toF qc) (self_q_fixed_group_add_1_index := q) (self_q_l_1_index := toF ql)
        (self_q_r_1_index := toF qr)
      = q * toF (fixedScalar sep (rowEvals a b c d aw bw dw ql qr qc)) ∧
    var_quotient_i (A := F) (EDWARDS_D := dF) (a_i := toF a) (a_i_w := toF aw) (b_i := toF b) (b_i_w := toF bw)
        (c_i := toF c) (curve_add_separation_challenge := toF sep) (d_i := toF d) (d_i_w := toF dw)
        (self_q_variable_group_add_1_index := q)
      = q * toF (varScalar sep (rowEvals a b c d aw bw dw 0 0 0)) ∧
    perm_quotient_i (A := F) (K1 := toF Generated.K1) (K2 := toF Generated.K2) (K3 := toF Generated.K3)
        (a_i := toF a) (alpha := toF alpha) (b_i := toF b) (beta := toF beta) (c_i := toF c) (d_i := toF d)
        (gamma := toF gamma) (l1_alpha_sq := toF l1a2) (self_linear_evaluations_index := toF x)
        (self_s_sigma_1_1_index := toF s1) (self_s_sigma_2_1_index := toF s2) (self_s_sigma_3_1_index := toF s3)
        (self_s_sigma_4_1_index := toF s4) (z_i := toF z) (z_i_w := toF zw)
      = toF (permQuotTerm a b c d z zw x s1 s2 s3 s4 alpha beta gamma l1a2) :=
  ⟨arith_quotient_source g a b c d, range_quotient_source sep a b c d dw q,
   logic_quotient_source sep a aw b bw c d dw qc q, fixed_quotient_source sep a aw b bw c d dw ql qr qc q,
   var_quotient_source sep a aw b bw c d dw q,
   perm_quotient_source a b c d z zw x s1 s2 s3 s4 alpha beta gamma l1a2⟩

/-- **Prover, linearisation** (`ProverKey::compute_linearization` of every widget): the multiplier of each selector
    polynomial is the verifier's scalar for the same commitment. -/
theorem prover_linearization_terms_are_the_source (sepR sepL sepF sepV : Nat) (e : Evals) (ch : Challenges)
    (qR qL qF qV qm ql qr qo qf qc zpoly s4poly : F) :
    arith_linearization (A := F) (evaluations_a_eval := toF e.a) (evaluations_b_eval := toF e.b)
        (evaluations_c_eval := toF e.c) (evaluations_d_eval := toF e.d) (evaluations_q_arith_eval := toF e.qarith)
        (self_q_c_0 := qc) (self_q_f_0 := qf) (self_q_l_0 := ql) (self_q_m_0 := qm) (self_q_o_0 := qo) (self_q_r_0 := qr)
      = toF (fmul (fmul e.a e.b) e.qarith) * qm + toF (fmul e.a e.qarith) * ql + toF (fmul e.b e.qarith) * qr
        + toF (fmul e.c e.qarith) * qo + toF (fmul e.d e.qarith) * qf + toF e.qarith * qc ∧
    range_linearization (A := F) (evaluations_a_eval := toF e.a) (evaluations_b_eval := toF e.b)
        (evaluations_c_eval := toF e.c) (evaluations_d_eval := toF e.d) (evaluations_d_w_eval := toF e.dw)
        (range_separation_challenge := toF sepR) (self_q_range_0 := qR)
      = qR * toF (rangeScalar sepR e) ∧
    logic_linearization (A := F) (evaluations_a_eval := toF e.a) (evaluations_a_w_eval := toF e.aw)
        (evaluations_b_eval := toF e.b) (evaluations_b_w_eval := toF e.bw) (evaluations_c_eval := toF e.c)
        (evaluations_d_eval := toF e.d) (evaluations_d_w_eval := toF e.dw) (evaluations_q_c_eval := toF e.qc)
        (logic_separation_challenge := toF sepL) (self_q_logic_0 := qL)
      = qL * toF (logicScalar sepL e) ∧
    fixed_linearization (A := F) (EDWARDS_D := dF) (ecc_separation_challenge := toF sepF)
        (evaluations_a_eval := toF e.a) (evaluations_a_w_eval := toF e.aw) (evaluations_b_eval := toF e.b)
        (evaluations_b_w_eval := toF e.bw) (evaluations_c_eval := toF e.c) (evaluations_d_eval := toF e.d)
        (evaluations_d_w_eval := toF e.dw) (evaluations_q_c_eval := toF e.qc) (evaluations_q_l_eval := toF e.ql)
        (evaluations_q_r_eval := toF e.qr) (self_q_fixed_group_add_0 := qF)
      = qF * toF (fixedScalar sepF e) ∧
    var_linearization (A := F) (EDWARDS_D := dF) (curve_add_separation_challenge := toF sepV)
        (evaluations_a_eval := toF e.a) (evaluations_a_w_eval := toF e.aw) (evaluations_b_eval := toF e.b)
        (evaluations_b_w_eval := toF e.bw) (evaluations_c_eval := toF e.c) (evaluations_d_eval := toF e.d)
        (evaluations_d_w_eval := toF e.dw) (self_q_variable_group_add_0 := qV)
      = qV * toF (varScalar sepV e) ∧
    perm_linearizer_identity (A := F) (K1 := toF Generated.K1) (K2 := toF Generated.K2) (K3 := toF Generated.K3)
        (a_eval := toF e.a) (alpha := toF ch.alpha) (b_eval := toF e.b) (beta := toF ch.beta) (c_eval := toF e.c)
        (d_eval := toF e.d) (gamma := toF ch.gamma) (z_challenge := toF ch.z) (z_poly := zpoly)
      + perm_linearizer_copy (A := F) (a_eval := toF e.a) (alpha := toF ch.alpha) (b_eval := toF e.b)
        (beta := toF ch.beta) (c_eval := toF e.c) (gamma := toF ch.gamma) (s_sigma_4_poly := s4poly)
        (sigma_1_eval := toF e.s1) (sigma_2_eval := toF e.s2) (sigma_3_eval := toF e.s3) (z_eval := toF e.z)
      = zpoly * (toF (permZScalar e ch 0) - toF ch.u) + s4poly * toF (permS4Scalar e ch) :=
  ⟨arith_linearization_source e qm ql qr qo qf qc, range_linearization_source sepR e qR,
   logic_linearization_source sepL e qL, fixed_linearization_source sepF e qF, var_linearization_source sepV e qV,
   perm_linearizer_source e ch zpoly s4poly⟩

/-- **`proof.rs`**: the widget terms are appended in the model's order; the four quotient terms and `r_0` (both
    verification routes) are the model's. -/
theorem verify_assembly_is_the_source (k : VKey) (p : ProofM) (e : Evals) (ch : Challenges) (zh l1 pi : Nat) :
    verify_lin_terms_calls = ["arithmetic", "range", "logic", "fixed_base", "variable_base", "permutation"] ∧
    (linearizationTerms k p ch zh l1).drop 12
      = [((quotientScalars zh).getD 0 0, p.tLow), ((quotientScalars zh).getD 1 0, p.tMid),
         ((quotientScalars zh).getD 2 0, p.tHigh), ((quotientScalars zh).getD 3 0, p.tFourth)] ∧
    verify_lin_terms (A := F) (z_h_eval := toF zh)
      = [(toF ((quotientScalars zh).getD 0 0), "self_t_low_comm_0"), (toF ((quotientScalars zh).getD 1 0), "self_t_mid_comm_0"),
         (toF ((quotientScalars zh).getD 2 0), "self_t_high_comm_0"), (toF ((quotientScalars zh).getD 3 0), "self_t_fourth_comm_0")] ∧
    verify_r0 (A := F) (alpha := toF ch.alpha) (beta := toF ch.beta) (gamma := toF ch.gamma) (l1_eval := toF l1)
      (pi_eval := toF pi) (self_evaluations_a_eval := toF e.a) (self_evaluations_b_eval := toF e.b)
      (self_evaluations_c_eval := toF e.c) (self_evaluations_d_eval := toF e.d)
      (self_evaluations_s_sigma_1_eval := toF e.s1) (self_evaluations_s_sigma_2_eval := toF e.s2)
      (self_evaluations_s_sigma_3_eval := toF e.s3) (self_evaluations_z_eval := toF e.z)
      = toF (r0Eval e ch l1 pi) ∧
    verify_legacy_r0 (A := F) (alpha := toF ch.alpha) (beta := toF ch.beta) (gamma := toF ch.gamma) (l1_eval := toF l1)
      (pi_eval := toF pi) (self_evaluations_a_eval := toF e.a) (self_evaluations_b_eval := toF e.b)
      (self_evaluations_c_eval := toF e.c) (self_evaluations_d_eval := toF e.d)
      (self_evaluations_s_sigma_1_eval := toF e.s1) (self_evaluations_s_sigma_2_eval := toF e.s2)
      (self_evaluations_s_sigma_3_eval := toF e.s3) (self_evaluations_z_eval := toF e.z)
      = toF (r0Eval e ch l1 pi) :=
  ⟨verify_call_order, linearizationTerms_quotient k p ch zh l1, verify_lin_terms_source zh,
   (verify_r0_source e ch l1 pi).1, (verify_r0_source e ch l1 pi).2⟩

/-- non-vacuity: the translated range verifier scalar on a concrete row (c − 4d = 5 is not a quad) is non-zero -/
example : range_verifier (A := F) (evaluations_a_eval := 0) (evaluations_b_eval := 0) (evaluations_c_eval := 5)
    (evaluations_d_eval := 0) (evaluations_d_w_eval := 0) (range_separation_challenge := 1)
    = [((5 * (5 - 1) * (5 - 2) * (5 - 3) + (-20) * (-20 - 1) * (-20 - 2) * (-20 - 3) : F), "self_q_range_0")] := by
  simp only [range_verifier, range_delta]
  congr 2

end Plonk.Props.WidgetTie
