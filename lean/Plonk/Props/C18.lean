import Plonk.Props.C19Fft
import Plonk.Model.Prover
namespace Plonk.Props.C18
open Plonk
/-- the FFT result does not depend on the number of worker threads (all four transforms) -/
theorem fft_threads_irrelevant (d : Domain) (hlog : d.logSize ≤ 256) (v : List Nat)
    (threads threads' : Nat) (ht : 1 ≤ threads) (ht' : 1 ≤ threads') :
    d.fft v threads = d.fft v threads' ∧ d.ifft v threads = d.ifft v threads' ∧
    d.cosetFft v threads = d.cosetFft v threads' ∧ d.cosetIfft v threads = d.cosetIfft v threads' :=
  Plonk.Props.C19Fft.fft_threads_irrelevant d hlog v threads threads' ht ht'
end Plonk.Props.C18
