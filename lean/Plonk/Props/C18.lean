/-
  C18 — determinism.

  "Compilation is a function of the circuit, label and public parameters, and proving is a function
  of the keys, the circuit instance and the bytes drawn from the caller's RNG: repeated runs give
  byte-identical keys and proofs.  The result does not depend on the number of worker threads, on
  how work is scheduled among them, on per-process hash seeds (HashMap iteration order of
  `public_inputs` / `witness_map`), or on whether the parallel (std) or the serial (alloc-only)
  code paths are compiled in."

  In the pure model "is a function" is free (§5: `compile_is_function`, `join_is_pair` are
  definitional and labelled so).  What is PROVED is that every place where the Rust result could
  depend on a thread count, a schedule, a chunking, a reduction tree or a hash-map iteration order
  is order / partition independent.  The sites (grep of `par_iter|par_chunks|rayon::|HashMap` in
  `/repo/src`, prover and compiler side) and the theorem that covers each:

  | Rust site                                                         | theorem                                   |
  |-------------------------------------------------------------------|-------------------------------------------|
  | fft/domain.rs `best_fft` three-way switch, `rayon::current_num_threads()` | `fft_switch_arms_agree`, `fft_threads_irrelevant`, `prover_transforms_threads_irrelevant` |
  | fft/domain.rs `par_chunks_mut(2m).for_each(butterfly_chunk)`      | `fft_chunks_schedule_irrelevant`          |
  | fft/domain.rs `parallel_butterfly_chunk` (pieces of one chunk, precomputed seeds) | `fft_pieces_schedule_irrelevant` (any order of the pieces), `fft_switch_arms_agree` (= serial chunk for every thread count) |
  | fft/domain.rs `ifft_in_place` `par_iter_mut().for_each(*= size_inv)`, lagrange `par_iter_mut().zip` | `chunked_map_eq` (index-wise maps) |
  | composer/permutation.rs `witness_map.iter()` (HashMap)            | `sigma_hash_order_irrelevant`             |
  | composer.rs `public_inputs` (HashMap) + `public_input_indexes().sort()` | `public_inputs_sorted`, `pi_order_irrelevant` |
  | composer/permutation.rs numerators / denominators `into_par_iter().map().collect()`, sequential product | `perm_vec_sequential` |
  | proof_system/quotient_poly.rs the three `into_par_iter().map().collect()` loops, `par_iter_mut` over the 5 coset FFT slots | `quotient_evals_indexwise`, `chunked_map_eq` |
  | proof_system/proof.rs `compute_barycentric_eval` `filter().collect()`, `map().sum()` | `chunked_filter_eq`, `parallel_sum_eq`, `barycentric_sum_tree` |
  | compiler/prover.rs `rayon::join` (blinding, commitments)          | `join_is_pair` (definitional); error precedence `a? b? c? d?` is `commit4` in both builds |
  | caller's RNG                                                      | `prove_is_function_of_draws`              |
  | `#[cfg(feature = "std")]` vs `alloc`                               | `serial_equals_parallel_build`            |

  All theorems are FULL (no `_partial`).  Remarks / forced hypotheses:

  * `1 ≤ threads` everywhere: with `threads = 0` the model's `parallelButterflyChunk` is a no-op
    (`divCeil m 0 = 0`); rayon never reports 0 threads.  `m < 2^256`, `logSize ≤ 256`: range of the
    model's `fpow` (every `Domain.new?` domain has `logSize < 32`).
  * `fft_chunks_schedule_irrelevant` needs `cnt·2m ≤ a.size` (the chunks lie inside the array —
    true in `bestFft`, where `cnt = n / (2m)`).
  * `compile` / `prove` of the model have NO `threads` and NO visiting-order parameter (they call
    the transforms with the default `threads := 1` and `sigmaMaps` in index order).  This file
    therefore uses `Det.compileWith threads order` — the text of `compile` with the thread count
    passed to every transform and `Perm.sigmaMapsOrder … order` in place of `sigmaMaps` — and
    `Det.proveWith threads` — the text of `prove` with the thread count passed to every transform
    (including those inside `blindPoly` / `cosetEvals`: `Det.blindPolyWith`, `Det.cosetEvalsWith`) —
    and proves `compileWith threads order = compile`, `proveWith threads = prove` for all
    `threads ≥ 1` and all permutations `order`.  (The copies are ordinary definitions in
    `Plonk/Proofs/Determinism.lean`; their proofs name the auto-generated matchers of the two
    copies, `prove_matchers_eq` / `cs_matcher_eq`, which is loud — not silent — if the model text
    changes.)
  * `fft_pieces_schedule_irrelevant` needs `lo + 2m ≤ a.size` (the chunk lies inside the array).
  * NOT covered: (a) the verifier-side `par_iter().sum()` of G1 points in `kzg10/proof.rs`
    (group-level, outside the scalar model); (b) that rayon's `collect` / `sum` really are
    "concatenate in index order" / "some reduction tree over consecutive pieces", and that a
    `for_each` over disjoint `&mut` chunks is "run every chunk once in some order" — these are the
    modelling assumptions behind `chunked_map_eq` / `parallel_sum_eq` / the two FFT schedule theorems.
-/
import Plonk.Props.C19Fft
import Plonk.Proofs.Determinism
import Plonk.Proofs.ProverMask

namespace Plonk.Props.C18
open Plonk Plonk.Det

/-! ## 1. FFT: thread count, switch arms, chunk schedule -/

/-- the FFT result does not depend on the number of worker threads (all four transforms) -/
theorem fft_threads_irrelevant (d : Domain) (hlog : d.logSize ≤ 256) (v : List Nat)
    (threads threads' : Nat) (ht : 1 ≤ threads) (ht' : 1 ≤ threads') :
    d.fft v threads = d.fft v threads' ∧ d.ifft v threads = d.ifft v threads' ∧
    d.cosetFft v threads = d.cosetFft v threads' ∧ d.cosetIfft v threads = d.cosetIfft v threads' :=
  Plonk.Props.C19Fft.fft_threads_irrelevant d hlog v threads threads' ht ht'

example : ∃ d, Domain.new? 1000 = some d ∧ d.logSize ≤ 256 ∧ 1 ≤ 7 ∧ 1 ≤ 32 := by
  obtain ⟨d, hd⟩ : ∃ d, Domain.new? 1000 = some d := Option.isSome_iff_exists.mp (by decide +kernel)
  have := (Domain.new?_wf 1000 d hd).2
  exact ⟨d, hd, by omega, by omega, by omega⟩

/-- **the three arms of the switch inside one stage of `best_fft` agree** — `par_chunks_mut`
    (`armPar`), `parallel_butterfly_chunk` per chunk (`armFinal`, depends on the thread count) and the
    serial loop (`armSerial`) — hence the stage, with the thresholds of the code, is the serial
    stage, whatever `threads ≥ 1` is and whatever values the three thresholds have -/
theorem fft_switch_arms_agree (a : Array Nat) (n m wm threads : Nat) (ht : 1 ≤ threads)
    (hm : m < 2 ^ 256) :
    let chunkCount := n / (2 * m)
    let armPar := (List.range chunkCount).foldl (fun a c => butterflyChunk a (c * 2 * m) m wm) a
    let armFinal :=
      (List.range chunkCount).foldl (fun a c => parallelButterflyChunk a (c * 2 * m) m wm threads) a
    let armSerial := (List.range chunkCount).foldl (fun a c => butterflyChunk a (c * 2 * m) m wm) a
    armFinal = armSerial ∧ armPar = armSerial ∧
    (if chunkCount ≥ Generated.PARALLEL_FFT_MIN_CHUNKS then armPar
     else if n ≥ Generated.PARALLEL_FINAL_FFT_MIN_LEN ∧ threads ≥ Generated.PARALLEL_FINAL_FFT_MIN_THREADS
       then armFinal else armSerial) = armSerial ∧
    -- and for the whole transform
    (∀ (omega logN : Nat), logN ≤ 256 → bestFft a omega logN threads = serialFft a omega logN) := by
  intro chunkCount armPar armFinal armSerial
  have h1 : armFinal = armSerial := parallel_arm_eq_serial_arm a m wm chunkCount threads ht hm
  refine ⟨h1, rfl, ?_, fun omega logN hl => bestFft_eq_serialFft a omega logN threads ht hl⟩
  split
  · rfl
  · split
    · exact h1
    · rfl

/-- non-vacuity: the thresholds of the code are the ones the theorem mentions, and the middle arm is
    really taken for some sizes (`n = 4096`, last stage `m = 2048`: one chunk, `threads = 8`) -/
example : (1 : Nat) ≤ 8 ∧ (2048 : Nat) < 2 ^ 256 ∧
    ¬ (4096 / (2 * 2048) ≥ Generated.PARALLEL_FFT_MIN_CHUNKS) ∧
    (4096 ≥ Generated.PARALLEL_FINAL_FFT_MIN_LEN ∧ 8 ≥ Generated.PARALLEL_FINAL_FFT_MIN_THREADS) := by
  decide

/-- **`par_chunks_mut(2m).for_each(|chunk| butterfly_chunk(chunk, m, w_m))`**: the chunks of one
    stage may be processed in ANY order (every schedule that runs each chunk once): same array as the
    serial loop.  (Chunks touch pairwise disjoint index ranges.) -/
theorem fft_chunks_schedule_irrelevant (a : Array Nat) (m wm cnt : Nat) (hb : cnt * (2 * m) ≤ a.size)
    (order : List Nat) (hp : order.Perm (List.range cnt)) :
    order.foldl (fun a c => butterflyChunk a (c * 2 * m) m wm) a
      = (List.range cnt).foldl (fun a c => butterflyChunk a (c * 2 * m) m wm) a :=
  chunks_order_irrelevant a m wm cnt hb order hp

/-- non-vacuity: 4 chunks of length 2 in an array of 8, visited in the order 2,0,3,1 -/
example : 4 * (2 * 1) ≤ (#[1, 2, 3, 4, 5, 6, 7, 8] : Array Nat).size ∧
    [2, 0, 3, 1].Perm (List.range 4) := by decide

/-- **the pieces of one `parallel_butterfly_chunk`** (`left.par_chunks_mut(range_len).zip(right…)
    .zip(seeds).for_each(butterfly_range)`, the seeds being computed sequentially beforehand —
    `Det.pieceSeed`): processing the pieces in ANY order gives the model's `parallelButterflyChunk`,
    i.e. (by `fft_switch_arms_agree`) the serial `butterflyChunk` -/
theorem fft_pieces_schedule_irrelevant (a : Array Nat) (lo m wm threads : Nat) (ht : 1 ≤ threads)
    (hm : m < 2 ^ 256) (hb : lo + 2 * m ≤ a.size) (order : List Nat)
    (hp : order.Perm (List.range (divCeil m (divCeil m threads)))) :
    order.foldl (fun a r => butterflyRange a lo m (r * divCeil m threads)
        (min (divCeil m threads) (m - r * divCeil m threads)) wm
        (pieceSeed wm (divCeil m threads) r)) a
      = parallelButterflyChunk a lo m wm threads ∧
    parallelButterflyChunk a lo m wm threads = butterflyChunk a lo m wm :=
  ⟨pieces_order_irrelevant a lo m wm threads ht hb order hp,
   parallelButterflyChunk_eq_butterflyChunk a lo m wm threads ht hm⟩

/-- non-vacuity: a half of 8 butterflies on 3 threads is cut into 3 pieces (3 + 3 + 2), visited in
    the order 2, 0, 1 -/
example : (1 : Nat) ≤ 3 ∧ (8 : Nat) < 2 ^ 256 ∧ 0 + 2 * 8 ≤ (Array.replicate 16 (1 : Nat)).size ∧
    [2, 0, 1].Perm (List.range (divCeil 8 (divCeil 8 3))) := by decide

/-- **every transform the compiler and the prover call**: their domains come from `Domain.new?`,
    and on such a domain each of the four transforms, run with any thread count, equals the call the
    model makes (default `threads := 1`) -/
theorem prover_transforms_threads_irrelevant (m : Nat) (d : Domain) (hd : Domain.new? m = some d)
    (threads : Nat) (ht : 1 ≤ threads) (v : List Nat) :
    d.fft v threads = d.fft v ∧ d.ifft v threads = d.ifft v ∧
    d.cosetFft v threads = d.cosetFft v ∧ d.cosetIfft v threads = d.cosetIfft v :=
  transforms_threads m d hd threads ht v

example : ∃ d, Domain.new? 4096 = some d ∧ 1 ≤ 16 :=
  ⟨_, (Option.isSome_iff_exists.mp (by decide +kernel : (Domain.new? 4096).isSome)).choose_spec, by omega⟩

/-! ## 2. `HashMap` iteration order of `witness_map` -/

/-- a three-gate layout (the example of C05): witness 0 sits at (a,0) (c,1) (d,2); witness 1 at
    (b,0) (b,1) (a,2) (b,2); witness 2 at (c,0) (a,1) (c,2); witness 3 at (d,0) (d,1) -/
def exLay : Composer :=
  { gates := #[{ a := 0, b := 1, c := 2, d := 3 }, { a := 2, b := 1, c := 0, d := 3 },
               { a := 1, b := 1, c := 2, d := 0 }],
    wit := #[5, 7, 12, 0] }

/-- **`compute_sigma_permutations` iterates a `HashMap`**: visiting the witnesses in any order (any
    permutation of the key set) gives the same sigma tables, and the whole compilation — with the
    visiting order threaded through (`Det.compileWith`), and any thread count — is `compile` -/
theorem sigma_hash_order_irrelevant (c : Composer) (order : List Nat)
    (ho : order.Perm (List.range c.wit.size)) :
    (∀ n, Perm.sigmaMapsOrder c n order = sigmaMaps c n) ∧
    (∀ (threads : Nat), 1 ≤ threads → ∀ (srs : SRS) (srsLen : Nat) (label : List Nat),
      compileWith threads order srs srsLen label c = compile srs srsLen label c) :=
  ⟨fun n => Perm.sigma_order_independent c n order ho,
   fun threads ht srs srsLen label => compileWith_eq threads ht order srs srsLen label c ho⟩

/-- non-vacuity: a non-identity visiting order; the tables are a non-trivial permutation -/
example : [2, 0, 3, 1].Perm (List.range exLay.wit.size) ∧
    Perm.sigmaMapsOrder exLay 4 [2, 0, 3, 1] =
      #[#[(2, 1), (2, 2), (1, 2), (0, 3)], #[(1, 1), (0, 2), (1, 0), (1, 3)],
        #[(0, 1), (3, 2), (2, 0), (2, 3)], #[(3, 1), (3, 0), (0, 0), (3, 3)]] := by
  decide +kernel

/-! ## 3. `HashMap` iteration order of `public_inputs` -/

/-- **the recorded public-input rows are strictly increasing** (and point at existing gates): this
    holds for `Composer::initialized()` and is preserved by every computation built from the
    primitive state transformers `appendWitness` / `appendCustomGate` / `getVal` / `get` (`Det.Built`),
    in particular by every gadget of the model and by every program (with early exit) made of
    such steps -/
theorem public_inputs_sorted :
    Det.PisSorted Composer.initialized ∧
    (∀ {α : Type} (m : CM α), Built m → ∀ c, PisSorted c → PisSorted (m.run c).2) ∧
    (∀ (fs : List Step), (∀ f ∈ fs, ∀ regs, BuiltE (f regs)) → ∀ regs c, PisSorted c →
      PisSorted ((runSteps fs regs).run.run c).2) ∧
    (∀ c, PisSorted c → (c.pis.toList.map (·.1)).Pairwise (· < ·) ∧ (c.pis.toList.map (·.1)).Nodup) :=
  ⟨pisSorted_initialized, fun _ h c hc => h.pisSorted c hc,
   fun _ h regs c hc => Built.pisSorted (built_runSteps h regs) c hc,
   fun _ hc => ⟨hc.1, hc.nodup_rows⟩⟩

/-- **all gadgets only use the primitives** (so `public_inputs_sorted` applies to them) -/
theorem gadgets_built :
    (∀ s, Built (Composer.appendGate s)) ∧ (∀ s, Built (Composer.appendEvaluatedOutput s)) ∧
    (∀ s, Built (Composer.gateAdd s)) ∧ (∀ s, Built (Composer.gateMul s)) ∧
    (∀ a b, Built (Composer.assertEqual a b)) ∧ (∀ a k p, Built (Composer.assertEqualConstant a k p)) ∧
    (∀ v, Built (Composer.appendConstant v)) ∧ (∀ v, Built (Composer.appendPublic v)) ∧
    Built Composer.appendDummyGates ∧ (∀ a, Built (Composer.componentBoolean a)) ∧
    (∀ n s, Built (Composer.componentDecomposition n s)) ∧ (∀ b x y, Built (Composer.componentSelect b x y)) ∧
    (∀ b v, Built (Composer.componentSelectOne b v)) ∧ (∀ b v, Built (Composer.componentSelectZero b v)) ∧
    (∀ w n, Built (Composer.rangeCheck w n)) ∧ (∀ b w, Built (Composer.componentRangeBits b w)) ∧
    (∀ b w, Built (Composer.componentRange b w)) ∧ (∀ n w, Built (Composer.componentTruncate n w)) ∧
    (∀ p a b x, Built (Composer.appendLogicComponent p a b x)) ∧
    (∀ e, Built (Composer.appendPoint e)) ∧ (∀ e, Built (Composer.appendConstantPoint e)) ∧
    (∀ e, Built (Composer.appendPublicPoint e)) ∧ (∀ a b, Built (Composer.assertEqualPoint a b)) ∧
    (∀ p e, Built (Composer.assertEqualPublicPoint p e)) ∧ (∀ p, Built (Composer.assertTorsionFreePoint p)) ∧
    (∀ a b, Built (Composer.componentAddPoint a b)) ∧ (∀ a b, Built (Composer.componentSubPoint a b)) ∧
    (∀ b a, Built (Composer.componentSelectIdentity b a)) ∧ (∀ b x y, Built (Composer.componentSelectPoint b x y)) ∧
    (∀ s p, Built (Composer.componentMulPoint s p)) ∧
    (∀ s g ds, Built (Composer.appendFixedBaseSignedDigits s g ds)) ∧
    (∀ s g, Built (Composer.componentMulGenerator s g)) :=
  ⟨built_appendGate, built_appendEvaluatedOutput, built_gateAdd, built_gateMul, built_assertEqual,
   built_assertEqualConstant, built_appendConstant, built_appendPublic, built_appendDummyGates,
   built_componentBoolean, built_componentDecomposition, built_componentSelect, built_componentSelectOne,
   built_componentSelectZero, built_rangeCheck, built_componentRangeBits, built_componentRange,
   built_componentTruncate, built_appendLogicComponent, built_appendPoint, built_appendConstantPoint,
   built_appendPublicPoint, built_assertEqualPoint, built_assertEqualPublicPoint,
   built_assertTorsionFreePoint, built_componentAddPoint, built_componentSubPoint,
   built_componentSelectIdentity, built_componentSelectPoint, built_componentMulPoint,
   built_appendFixedBaseSignedDigits, built_componentMulGenerator⟩

/-- a small circuit with three public inputs, interleaved with other gates -/
def exProg : CM Nat := do
  let a ← Composer.appendPublic 5
  let b ← Composer.appendPublic 7
  let s ← Composer.gateAdd { ql := 1, qr := 1, a := a, b := b }
  Composer.componentBoolean s
  Composer.appendPublic 12

theorem exProg_built : Built exProg := by
  unfold exProg; built_tac

/-- non-vacuity: the program is `Built`, and run from the initial state it records the rows 4, 5, 8 -/
example : Built exProg ∧ PisSorted Composer.initialized ∧
    (exProg.run Composer.initialized).2.pis.toList = [(4, 5), (5, 7), (8, 12)] :=
  ⟨exProg_built, pisSorted_initialized, by decide +kernel⟩

/-- **`public_inputs` is a `HashMap`; `public_input_indexes()` collects its keys in iteration order and
    sorts them**.  For a composer state whose rows are strictly increasing (every reachable state, by
    `public_inputs_sorted`) and ANY permutation `l'` of its `(row, value)` pairs (any iteration order):
    the model's sorted insertion of `l'` (`sortedPis'`, `sortedRows`), and `mergeSort` of `l'` by row,
    all return the insertion-ordered list of the model.  In particular (with `l' = pis`) sorting is
    the identity. -/
theorem pi_order_irrelevant (c : Composer) (hc : PisSorted c) (l' : List (Nat × Nat))
    (hp : l'.Perm c.pis.toList) :
    prove.Plonk.Driver.sortedPis' { c with pis := l'.toArray } = c.pis.toList ∧
    compile.Plonk.Driver.sortedRows { c with pis := l'.toArray } = c.pis.toList.map (·.1) ∧
    l'.mergeSort (fun p q => decide (p.1 ≤ q.1)) = c.pis.toList ∧
    prove.Plonk.Driver.sortedPis' c = c.pis.toList ∧
    compile.Plonk.Driver.sortedRows c = c.pis.toList.map (·.1) := by
  have hL : c.pis.toList.Pairwise RowLt := by
    have := hc.1
    rw [List.pairwise_map] at this
    exact this
  refine ⟨?_, ?_, mergeSort_perm_sorted hL hp, ?_, ?_⟩
  · rw [sortedPis'_eq]; exact insFoldPair_perm_sorted hL hp
  · rw [CompressModel.sortedRows_eq]
    exact insFold_perm_sorted hc.1 (by simpa using hp.map (·.1))
  · rw [sortedPis'_eq]; exact insFoldPair_perm_sorted hL (List.Perm.refl _)
  · rw [CompressModel.sortedRows_eq]; exact insFold_perm_sorted hc.1 (List.Perm.refl _)

/-- non-vacuity: the state reached by `exProg` and a reversed / rotated iteration order -/
example : PisSorted (exProg.run Composer.initialized).2 ∧
    [(8, 12), (4, 5), (5, 7)].Perm (exProg.run Composer.initialized).2.pis.toList :=
  ⟨exProg_built.pisSorted _ pisSorted_initialized, by decide +kernel⟩

/-! ## 4. parallel loops: chunking, scheduling, reduction trees -/

/-- **`into_par_iter().map(f).collect()` / `par_iter_mut().for_each` / `par_chunks`**: cut `0..n` into
    consecutive chunks of ANY sizes, let the chunks be computed under ANY schedule (each chunk at
    least once, in any order) into their slots, concatenate the slots in index order: the result is
    `(List.range n).map f`.  Also in the plain form: for any list of chunks, mapping chunk-wise and
    concatenating is mapping the concatenation. -/
theorem chunked_map_eq {β : Type} (f : Nat → β) :
    (∀ (sizes sched : List Nat), (∀ j, j < sizes.length → j ∈ sched) →
      (runSchedule sizes.length (fun j => ((chunksFrom 0 sizes).getD j []).map f) [] sched).toList.flatten
        = (List.range sizes.sum).map f) ∧
    (∀ sizes : List Nat, (chunksFrom 0 sizes).flatten = List.range sizes.sum) ∧
    (∀ chunks : List (List Nat), (chunks.map fun ch => ch.map f).flatten = chunks.flatten.map f) :=
  ⟨fun sizes sched h => chunked_scheduled_map f sizes sched h,
   fun sizes => by rw [chunksFrom_flatten, List.range_eq_range'],
   fun chunks => chunked_map_flatten f chunks⟩

/-- non-vacuity: 8 indices cut into chunks of sizes 3, 0, 5, computed in the order 2, 0, 1, 0 -/
example : (∀ j, j < [3, 0, 5].length → j ∈ [2, 0, 1, 0]) ∧
    (runSchedule 3 (fun j => ((chunksFrom 0 [3, 0, 5]).getD j []).map (· * 10)) [] [2, 0, 1, 0]).toList.flatten
      = [0, 10, 20, 30, 40, 50, 60, 70] := by
  decide +kernel

/-- `filter().collect()` over chunks keeps the index order -/
theorem chunked_filter_eq {α : Type} (p : α → Bool) (chunks : List (List α)) :
    (chunks.map fun ch => ch.filter p).flatten = chunks.flatten.filter p :=
  chunked_filter_flatten p chunks

example : ([[1, 2], [], [3, 4, 5]].map fun ch => ch.filter (· % 2 == 1)).flatten = [1, 3, 5] := by decide

/-- **the quotient loop is an index-wise map**: `quotientEvals` is `(List.range size8).map` of a
    function of the index and the inputs only (`Det.quotientAt`, the loop body); hence entry `i` does
    not depend on `size8` nor on other entries, and every chunked / scheduled evaluation gives the
    same list -/
theorem quotient_evals_indexwise (size8 : Nat) (selE sigE8 : Array (Array Nat))
    (linE aE bE cE dE zE piE vh vhInv8 l1Den : Array Nat)
    (nInv8 beta gamma alpha rSep lSep fSep vSep : Nat) :
    let at_ := quotientAt selE sigE8 linE aE bE cE dE zE piE vh vhInv8 l1Den nInv8 beta gamma alpha
      rSep lSep fSep vSep
    let q := quotientEvals size8 selE sigE8 linE aE bE cE dE zE piE vh vhInv8 l1Den nInv8 beta gamma
      alpha rSep lSep fSep vSep
    q = (List.range size8).map at_ ∧ q.length = size8 ∧
    (∀ i, i < size8 → q.getD i 0 = at_ i) ∧
    (∀ (sizes sched : List Nat), sizes.sum = size8 → (∀ j, j < sizes.length → j ∈ sched) →
      (runSchedule sizes.length (fun j => ((chunksFrom 0 sizes).getD j []).map at_) [] sched).toList.flatten
        = q) := by
  intro at_ q
  have hq : q = (List.range size8).map at_ := quotientEvals_eq_map ..
  refine ⟨hq, by rw [hq]; simp, fun i hi => ?_, fun sizes sched hs hall => ?_⟩
  · rw [hq]; exact getD_map_range _ _ _ hi
  · rw [hq, ← hs]; exact chunked_scheduled_map at_ sizes sched hall

/-- non-vacuity: chunk sizes summing to the size, a schedule covering the chunks -/
example : ([3, 1, 4] : List Nat).sum = 8 ∧ (∀ j, j < [3, 1, 4].length → j ∈ [1, 2, 0]) := by decide

/-- **`compute_permutation_vec`**: numerators and denominators are index-wise maps (bodies
    `Det.permNumAt`, `Det.permDenAt`), and the vector is the sequence of iterates of a sequential
    accumulator, `z₀ = 1`, `z_{i+1} = step i z_i` (deterministic by construction: entry `i + 1` is a
    function of entry `i`) -/
theorem perm_vec_sequential (n : Nat) (roots aS bS cS dS : List Nat) (sigE : List (List Nat))
    (beta gamma : Nat) :
    let nums := (List.range n).map (permNumAt roots aS bS cS dS beta gamma)
    let dens := (List.range n).map (permDenAt aS bS cS dS sigE beta gamma)
    let step := permStep n nums (batchInversion dens)
    permVec n roots aS bS cS dS sigE beta gamma =
      (if dens.any (· == 0) then none
       else some ((List.range n).map (Quot.iterFrom step (1 % R)))) ∧
    Quot.iterFrom step (1 % R) 0 = 1 % R ∧
    (∀ i, Quot.iterFrom step (1 % R) (i + 1) = step i (Quot.iterFrom step (1 % R) i)) :=
  ⟨permVec_structure n roots aS bS cS dS sigE beta gamma, rfl, fun _ => rfl⟩

/-- non-vacuity: a two-row instance that is not the error case -/
example : (permVec 2 [1, 5] [1, 2] [3, 4] [5, 6] [7, 8] [[1, 2], [3, 4], [5, 6], [7, 8]] 2 3).isSome := by
  decide +kernel

/-- **`par_iter().map(..).sum()`**: every reduction tree (leaves = consecutive pieces summed from
    zero, inner nodes = field addition of the sub-results) yields the sequential sum of its items -/
theorem parallel_sum_eq (t : RTree) : t.sum = seqSum t.items := t.sum_eq

example : (RTree.node (.node (.leaf [1, 2]) (.leaf [])) (.node (.leaf [R - 1]) (.leaf [4, 5]))).items
    = [1, 2, R - 1, 4, 5] := rfl

/-- the sum of `compute_barycentric_eval` (used by the prover for the public-input evaluation)
    computed along any reduction tree over its terms gives the model's `barycentric` -/
theorem barycentric_sum_tree (d : Domain) (evals : List Nat) (point : Nat) (t : RTree)
    (ht : t.items = ((evals.zipIdx.filter (fun x => x.1 % R != 0)).zip
        (batchInversion ((evals.zipIdx.filter (fun x => x.1 % R != 0)).map
          fun x => fsub (fmul (fpow d.groupGenInv x.2) point) 1))).map fun x => fmul x.2 x.1.1) :
    d.barycentric evals point = fmul t.sum (fmul (fsub (fpow point d.size) 1) d.sizeInv) := by
  rw [barycentric_eq_seqSum, t.sum_eq, ht]

/-- non-vacuity: the one-leaf tree always qualifies -/
example (d : Domain) (evals : List Nat) (point : Nat) : ∃ t : RTree,
    t.items = ((evals.zipIdx.filter (fun x => x.1 % R != 0)).zip
        (batchInversion ((evals.zipIdx.filter (fun x => x.1 % R != 0)).map
          fun x => fsub (fmul (fpow d.groupGenInv x.2) point) 1))).map fun x => fmul x.2 x.1.1 :=
  ⟨.leaf _, rfl⟩

/-! ## 5. "is a function" (definitional statements, labelled as such) -/

/-- DEFINITIONAL: `rayon::join(a, b)` is modelled as the pair of the two results; in a pure language
    the order of two independent `let`s is irrelevant -/
theorem join_is_pair {α β : Type} (a : Unit → α) (b : Unit → β) :
    (let x := a (); let y := b (); (x, y)) = (let y := b (); let x := a (); (x, y)) := rfl

example : (let x := (fun _ : Unit => 1) (); let y := (fun _ : Unit => 2) (); (x, y)) = (1, 2) := rfl

/-- DEFINITIONAL: two compilations with equal arguments are equal -/
theorem compile_is_function (srs srs' : SRS) (srsLen srsLen' : Nat) (label label' : List Nat)
    (c c' : Composer) (h1 : srs = srs') (h2 : srsLen = srsLen') (h3 : label = label') (h4 : c = c') :
    compile srs srsLen label c = compile srs' srsLen' label' c' := by
  subst h1 h2 h3 h4; rfl

example (srs : SRS) (c : Composer) : srs = srs ∧ (5 : Nat) = 5 ∧ ([1, 2] : List Nat) = [1, 2] ∧ c = c :=
  ⟨rfl, rfl, rfl, rfl⟩

/-- **proving is a function of the keys, the instance and the first 14 draws** (this is
    `C06.rng_prefix`, restated): beyond `k`, `c`, `v3` the result depends on the draw list only
    through its first 14 entries reduced mod r; further bytes of the RNG are never read -/
theorem prove_is_function_of_draws (k : PKey) (c : Composer) (v3 : Bool) :
    (∀ ds ds' : List Nat, 14 ≤ ds.length → 14 ≤ ds'.length →
      (ds.take 14).map (· % R) = (ds'.take 14).map (· % R) → prove k c ds v3 = prove k c ds' v3) ∧
    (∀ ds extra : List Nat, ds.length = 14 → prove k c (ds ++ extra) v3 = prove k c ds v3) :=
  ⟨fun ds ds' => ProverMask.prove_first_14 k c v3 ds ds',
   fun ds extra => ProverMask.prove_append k c v3 ds extra⟩

example : 14 ≤ (List.range 14).length ∧ 14 ≤ (List.range 14 ++ [99, 100]).length ∧
    ((List.range 14).take 14).map (· % R) = ((List.range 14 ++ [99, 100]).take 14).map (· % R) := by
  decide +kernel

/-! ## 6. `std` build = `alloc`-only build -/

/-- **the alloc-only code path** uses `serial_fft` and plain sequential loops.  (a) `bestFft` with any
    thread count is `serialFft`; (b) each of the transforms, with any thread count, is the same
    expression with `serialFft` as kernel; (c) the compiler with the thread count threaded through
    every transform is `compile` (which runs with `threads = 1`, where `bestFft` never takes the
    parallel arm's multi-piece path); the loops are covered by §4.  `prove` has no `threads`
    parameter in the model — see the header. -/
theorem serial_equals_parallel_build (threads : Nat) (ht : 1 ≤ threads) :
    (∀ (a : Array Nat) (omega logN : Nat), logN ≤ 256 →
      bestFft a omega logN threads = serialFft a omega logN) ∧
    (∀ (m : Nat) (d : Domain), Domain.new? m = some d → ∀ v : List Nat,
      d.fft v threads
        = (serialFft (foldMod (v.map (· % R)) d.size).toArray d.groupGen d.logSize).toList ∧
      d.ifft v threads
        = ((serialFft (resize (v.map (· % R)) d.size).toArray d.groupGenInv d.logSize).toList).map
            (fmul · d.sizeInv) ∧
      d.cosetFft v threads
        = (serialFft (foldMod ((Domain.distributePowers v GENERATOR).map (· % R)) d.size).toArray
            d.groupGen d.logSize).toList ∧
      d.cosetIfft v threads
        = Domain.distributePowers
            (((serialFft (resize (v.map (· % R)) d.size).toArray d.groupGenInv d.logSize).toList).map
              (fmul · d.sizeInv)) d.generatorInv) ∧
    (∀ (srs : SRS) (srsLen : Nat) (label : List Nat) (c : Composer),
      compileWith threads (List.range c.wit.size) srs srsLen label c = compile srs srsLen label c) ∧
    (∀ (k : PKey) (c : Composer) (ds : List Nat) (v3 : Bool),
      proveWith threads k c ds v3 = prove k c ds v3) := by
  refine ⟨fun a omega logN hl => bestFft_eq_serialFft a omega logN threads ht hl, ?_,
    fun srs srsLen label c => compileWith_eq threads ht _ srs srsLen label c (List.Perm.refl _),
    fun k c ds v3 => proveWith_eq threads ht k c ds v3⟩
  intro m d hd v
  have hl : d.logSize ≤ 256 := by have := (Domain.new?_wf m d hd).2; omega
  refine ⟨Domain.fft_eq_serial d hl v threads ht, Domain.ifft_eq_serial d hl v threads ht, ?_, ?_⟩
  · unfold Domain.cosetFft; exact Domain.fft_eq_serial d hl _ threads ht
  · unfold Domain.cosetIfft; rw [Domain.ifft_eq_serial d hl v threads ht]

example : (1 : Nat) ≤ 12 ∧ ∃ d, Domain.new? 16 = some d :=
  ⟨by omega, Option.isSome_iff_exists.mp (by decide +kernel)⟩

end Plonk.Props.C18
