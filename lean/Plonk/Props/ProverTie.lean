/-
  Tie by translation, part 2 (used by C01, C02, C05, C06): the PROVER-SIDE GLUE of /repo — how `quotient_poly.rs` assembles
  the quotient numerator and applies the `len > 7·(size/8)` rule, how `linearization_poly.rs` (with the evaluations taken in
  `prove_inner`) assembles the linearisation polynomial, how `composer/permutation.rs` builds the accumulator — regenerated
  into `Plonk/GeneratedProver.lean` by `tools/rs2lean_prover.py` on every run, IS what the model's `prove` does
  (`quotientEvals`, `permVec`, rounds 4 and 5). Proofs: `Plonk/Proofs/ProverSource.lean`.
-/
import Plonk.Proofs.ProverSource

namespace Plonk.Props.ProverTie
open Plonk Plonk.GeneratedWidgets Plonk.GeneratedProver Plonk.WidgetSource Plonk.ProverSource Plonk.Quot Polynomial

/-- **(a) `quotient_poly::compute`, as `prove` calls it.** On the big domain `d8` (size `8n`), with the kernels
    `Domain.cosetFft` / `Domain.cosetIfft` and the arrays of the prover key, the translated function — coset evaluations,
    8 wrap-around pushes, numerator per index (`i`, `i + 8`, which widget gets which wires / selectors / challenge, `+ pi`,
    the L1 vector), `· vanishing_coset_inverses[i & 7]`, `coset_ifft`, `from_coefficients_vec`, `len() > 7 * (size / 8)` —
    is the text of round 3 of the model's `prove` (`quotientEvals`, `Poly.ofCoeffs ∘ cosetIfft`, `length > 7 * n`). -/
theorem quotient_of_prove_is_the_source (k : PKey) (m : Nat) (d d8 : Domain) (hd : Domain.new? m = some d)
    (hd8 : Domain.new? (8 * d.size) = some d8) (zP aP bP cP dP piP : Poly)
    (alpha beta gamma rSep lSep fSep vSep : Nat) :
    quotient_compute (A := F) (Pol := Poly) (dom_coset_fft := fun (d : Domain) p => (d.cosetFft p).map toF)
      (dom_size := Domain.size) (dom_size_inv := fun d => toF d.sizeInv)
      (dom_coset_ifft := fun d l => (d.cosetIfft (l.map ZMod.val)).map toF)
      (poly_from_coefficients_vec := fun l => Poly.ofCoeffs (l.map ZMod.val)) (poly_len := List.length)
      (quotient_domain := d8)
      (z_poly := zP) (a_poly := aP) (b_poly := bP) (c_poly := cP) (d_poly := dP) (public_inputs_poly := piP)
      (vanishing_coset_inverses := arrF (batchInversion (k.vh.toList.take 8)).toArray)
      (alpha := toF alpha) (beta := toF beta) (gamma := toF gamma)
      (range_challenge := toF rSep) (logic_challenge := toF lSep) (fixed_base_challenge := toF fSep)
      (var_base_challenge := toF vSep)
      (EDWARDS_D := dF) (K1 := toF Generated.K1) (K2 := toF Generated.K2) (K3 := toF Generated.K3)
      (prover_key_arithmetic_q_m_1 := arrF (k.selE.getD 0 #[])) (prover_key_arithmetic_q_l_1 := arrF (k.selE.getD 1 #[]))
      (prover_key_arithmetic_q_r_1 := arrF (k.selE.getD 2 #[])) (prover_key_arithmetic_q_o_1 := arrF (k.selE.getD 3 #[]))
      (prover_key_arithmetic_q_f_1 := arrF (k.selE.getD 4 #[])) (prover_key_arithmetic_q_c_1 := arrF (k.selE.getD 5 #[]))
      (prover_key_arithmetic_q_arith_1 := arrF (k.selE.getD 6 #[]))
      (prover_key_range_q_range_1 := arrF (k.selE.getD 7 #[]))
      (prover_key_logic_q_logic_1 := arrF (k.selE.getD 8 #[])) (prover_key_logic_q_c_1 := arrF (k.selE.getD 5 #[]))
      (prover_key_fixed_base_q_fixed_group_add_1 := arrF (k.selE.getD 9 #[]))
      (prover_key_fixed_base_q_c_1 := arrF (k.selE.getD 5 #[])) (prover_key_fixed_base_q_l_1 := arrF (k.selE.getD 1 #[]))
      (prover_key_fixed_base_q_r_1 := arrF (k.selE.getD 2 #[]))
      (prover_key_variable_base_q_variable_group_add_1 := arrF (k.selE.getD 10 #[]))
      (prover_key_permutation_linear_evaluations := arrF k.linE)
      (prover_key_permutation_linear_evaluations_evals := arrF k.linE)
      (prover_key_permutation_s_sigma_1_1 := arrF (k.sigE8.getD 0 #[]))
      (prover_key_permutation_s_sigma_2_1 := arrF (k.sigE8.getD 1 #[]))
      (prover_key_permutation_s_sigma_3_1 := arrF (k.sigE8.getD 2 #[]))
      (prover_key_permutation_s_sigma_4_1 := arrF (k.sigE8.getD 3 #[]))
      (prover_key_v_h_coset_8n_evals := arrF k.vh)
    = (let quot := quotientEvals d8.size k.selE k.sigE8 k.linE (cosetEvals d8 aP) (cosetEvals d8 bP) (cosetEvals d8 cP)
        (cosetEvals d8 dP) (cosetEvals d8 zP) (d8.cosetFft piP).toArray k.vh
        (batchInversion (k.vh.toList.take 8)).toArray
        (batchInversion (k.linE.toList.map fun e => fsub e 1)).toArray (fmul d8.sizeInv 8)
        beta gamma alpha rSep lSep fSep vSep
       let tPoly := Poly.ofCoeffs (d8.cosetIfft quot)
       if tPoly.length > 7 * d.size then Except.error "Error::CircuitUnsatisfied" else Except.ok tPoly) :=
  quotient_compute_prove k m d d8 hd hd8 zP aP bP cP dP piP alpha beta gamma rSep lSep fSep vSep

/-- **(a) the numerator vector for arbitrary evaluation lists** (no assumption on the transform kernel `cf`): entry `i` of
    the translated `quotient` is entry `i` of the model's `quotientEvals`. -/
theorem quotient_numerator_is_the_source {Dom Pol : Type} (cf : Dom → Pol → List Nat) (sz : Dom → Nat) (szInv : Dom → Nat)
    (qd : Dom) (zP aP bP cP dP piP : Pol) (selE sigE8 : Array (Array Nat)) (linE vh vhInv8 : Array Nat)
    (alpha beta gamma rSep lSep fSep vSep : Nat)
    (hz : 8 ≤ (cf qd zP).length) (ha : 8 ≤ (cf qd aP).length) (hb : 8 ≤ (cf qd bP).length)
    (hd : 8 ≤ (cf qd dP).length) (hc : sz qd ≤ (cf qd cP).length) :
    quotient_compute_quotient (A := F) (dom_coset_fft := fun d p => (cf d p).map toF) (dom_size := sz)
      (dom_size_inv := fun d => toF (szInv d)) (quotient_domain := qd)
      (z_poly := zP) (a_poly := aP) (b_poly := bP) (c_poly := cP) (d_poly := dP) (public_inputs_poly := piP)
      (vanishing_coset_inverses := arrF vhInv8)
      (alpha := toF alpha) (beta := toF beta) (gamma := toF gamma)
      (range_challenge := toF rSep) (logic_challenge := toF lSep) (fixed_base_challenge := toF fSep)
      (var_base_challenge := toF vSep)
      (EDWARDS_D := dF) (K1 := toF Generated.K1) (K2 := toF Generated.K2) (K3 := toF Generated.K3)
      (prover_key_arithmetic_q_m_1 := arrF (selE.getD 0 #[])) (prover_key_arithmetic_q_l_1 := arrF (selE.getD 1 #[]))
      (prover_key_arithmetic_q_r_1 := arrF (selE.getD 2 #[])) (prover_key_arithmetic_q_o_1 := arrF (selE.getD 3 #[]))
      (prover_key_arithmetic_q_f_1 := arrF (selE.getD 4 #[])) (prover_key_arithmetic_q_c_1 := arrF (selE.getD 5 #[]))
      (prover_key_arithmetic_q_arith_1 := arrF (selE.getD 6 #[]))
      (prover_key_range_q_range_1 := arrF (selE.getD 7 #[]))
      (prover_key_logic_q_logic_1 := arrF (selE.getD 8 #[])) (prover_key_logic_q_c_1 := arrF (selE.getD 5 #[]))
      (prover_key_fixed_base_q_fixed_group_add_1 := arrF (selE.getD 9 #[]))
      (prover_key_fixed_base_q_c_1 := arrF (selE.getD 5 #[])) (prover_key_fixed_base_q_l_1 := arrF (selE.getD 1 #[]))
      (prover_key_fixed_base_q_r_1 := arrF (selE.getD 2 #[]))
      (prover_key_variable_base_q_variable_group_add_1 := arrF (selE.getD 10 #[]))
      (prover_key_permutation_linear_evaluations := arrF linE)
      (prover_key_permutation_linear_evaluations_evals := arrF linE)
      (prover_key_permutation_s_sigma_1_1 := arrF (sigE8.getD 0 #[]))
      (prover_key_permutation_s_sigma_2_1 := arrF (sigE8.getD 1 #[]))
      (prover_key_permutation_s_sigma_3_1 := arrF (sigE8.getD 2 #[]))
      (prover_key_permutation_s_sigma_4_1 := arrF (sigE8.getD 3 #[]))
      (prover_key_v_h_coset_8n_evals := arrF vh)
    = (quotientEvals (sz qd) selE sigE8 linE (wrap8 (cf qd aP)) (wrap8 (cf qd bP)) (wrap8 (cf qd cP))
        (wrap8 (cf qd dP)) (wrap8 (cf qd zP)) (cf qd piP).toArray vh vhInv8
        (batchInversion (linE.toList.map fun e => fsub e 1)).toArray (fmul (szInv qd) 8)
        beta gamma alpha rSep lSep fSep vSep).map toF :=
  quotient_evals_source cf sz szInv qd zP aP bP cP dP piP selE sigE8 linE vh vhInv8 alpha beta gamma rSep lSep fSep vSep hz ha hb hd hc

/-- **(c) `compute_permutation_vec`** is the model's `permVec` (including where it panics / returns `none`). -/
theorem accumulator_is_the_source {Dom : Type} (sz : Dom → Nat) (els : Dom → List Nat) (dom : Dom)
    (aS bS cS dS : List Nat) (sigE : List (List Nat)) (beta gamma : Nat)
    (hr : (els dom).length = sz dom) (ha : aS.length = sz dom) :
    compute_permutation_vec (A := F) (dom_size := sz) (dom_elements := fun d => (els d).map toF) (domain := dom)
      (wires := [aS.map toF, bS.map toF, cS.map toF, dS.map toF]) (beta := toF beta) (gamma := toF gamma)
      (sigma_evaluations := sigE.map (List.map toF))
      (K1 := toF Generated.K1) (K2 := toF Generated.K2) (K3 := toF Generated.K3)
    = (permVec (sz dom) (els dom) aS bS cS dS sigE beta gamma).map (List.map toF) :=
  compute_permutation_vec_source sz els dom aS bS cS dS sigE beta gamma hr ha

/-- **(b) `linearization_poly::compute`** (with `compute_circuit_satisfiability` and the permutation widget's
    `compute_linearization`) is round 5 of the model's `prove`, as polynomials over `F`: widget terms with their selector
    polynomials and separation challenges, `+ PI(z)`, the three permutation terms, `(t_low + zⁿ t_mid + z²ⁿ t_high +
    z³ⁿ t_fourth)·(−Z_H(z))`. The untranslated kernels are quantified; each hypothesis says that the kernel returns the
    model's value on the arguments the SOURCE passes to it. -/
theorem linearisation_is_the_source {Dom : Type} (k : PKey) (d : Domain) (ev : Evals) (zP tLowP tMidP tHighP tFourthP : Poly)
    (pis : List Nat) (beta gamma alpha rSep lSep fSep vSep zc : Nat)
    (bary : List F[X] → F[X] → Dom → F[X]) (deg : F[X] → Nat) (dnew : Nat → Dom) (lag : Dom → F[X] → List F[X])
    (dsz : Dom → Nat) (van : Dom → F[X] → F[X]) (dom : Dom)
    (hsz : dsz dom = d.size)
    (hbary : bary (pis.map fun x => C (toF x)) (C (toF zc)) dom = C (toF (d.barycentric pis zc)))
    (hlag : (lag (dnew (deg (toPoly zP) - 2)) (C (toF zc))).getD 0 0
              = C (toF ((((Domain.new? (Poly.degree zP - 2)).getD d).lagrangeCoeffs zc).headD 0)))
    (hvan : van dom (C (toF zc)) = C (toF (d.evaluateVanishing zc)))
    (hn : 3 * d.size < 2 ^ 256) :
    lin_compute (A := F[X]) (compute_barycentric_eval := bary) (poly_degree := deg) (dom_new := dnew)
      (dom_evaluate_all_lagrange_coefficients := lag) (dom_size := dsz) (dom_evaluate_vanishing_polynomial := van)
      (z_poly := toPoly zP) (domain := dom) (t_low_poly := toPoly tLowP) (t_mid_poly := toPoly tMidP)
      (t_high_poly := toPoly tHighP) (t_fourth_poly := toPoly tFourthP) (pub_inputs := pis.map fun x => C (toF x))
      (EDWARDS_D := C dF) (K1 := C (toF Generated.K1)) (K2 := C (toF Generated.K2)) (K3 := C (toF Generated.K3))
      (challenges_alpha := C (toF alpha)) (challenges_beta := C (toF beta)) (challenges_gamma := C (toF gamma))
      (challenges_range_separation := C (toF rSep)) (challenges_logic_separation := C (toF lSep))
      (challenges_fixed_base_separation := C (toF fSep)) (challenges_variable_base_separation := C (toF vSep))
      (challenges_z := C (toF zc))
      (evaluations_a_eval := C (toF ev.a)) (evaluations_b_eval := C (toF ev.b)) (evaluations_c_eval := C (toF ev.c))
      (evaluations_d_eval := C (toF ev.d)) (evaluations_a_w_eval := C (toF ev.aw)) (evaluations_b_w_eval := C (toF ev.bw))
      (evaluations_d_w_eval := C (toF ev.dw)) (evaluations_q_arith_eval := C (toF ev.qarith))
      (evaluations_q_c_eval := C (toF ev.qc)) (evaluations_q_l_eval := C (toF ev.ql)) (evaluations_q_r_eval := C (toF ev.qr))
      (evaluations_s_sigma_1_eval := C (toF ev.s1)) (evaluations_s_sigma_2_eval := C (toF ev.s2))
      (evaluations_s_sigma_3_eval := C (toF ev.s3)) (evaluations_z_eval := C (toF ev.z))
      (prover_key_arithmetic_q_m_0 := toPoly (k.sel.getD 0 [])) (prover_key_arithmetic_q_l_0 := toPoly (k.sel.getD 1 []))
      (prover_key_arithmetic_q_r_0 := toPoly (k.sel.getD 2 [])) (prover_key_arithmetic_q_o_0 := toPoly (k.sel.getD 3 []))
      (prover_key_arithmetic_q_f_0 := toPoly (k.sel.getD 4 [])) (prover_key_arithmetic_q_c_0 := toPoly (k.sel.getD 5 []))
      (prover_key_range_q_range_0 := toPoly (k.sel.getD 7 [])) (prover_key_logic_q_logic_0 := toPoly (k.sel.getD 8 []))
      (prover_key_fixed_base_q_fixed_group_add_0 := toPoly (k.sel.getD 9 []))
      (prover_key_variable_base_q_variable_group_add_0 := toPoly (k.sel.getD 10 []))
      (prover_key_permutation_s_sigma_4_0 := toPoly (k.sigma.getD 3 []))
    = toPoly (linPolyModel k d ev zP tLowP tMidP tHighP tFourthP pis beta gamma alpha rSep lSep fSep vSep zc) :=
  lin_compute_source k d ev zP tLowP tMidP tHighP tFourthP pis beta gamma alpha rSep lSep fSep vSep zc bary deg dnew lag dsz van dom hsz hbary hlag hvan hn

/-- **(b) round 4 of `prove_inner`**: which polynomial is evaluated at `z` and which at `z·ω`, field by field. -/
theorem evaluations_are_the_source (k : PKey) (d : Domain) (aP bP cP dP zP : Poly) (zc : Nat) :
    prover_evaluations (A := F) (Pol := Poly) (Dom := Domain) (poly_evaluate := fun p z => (toPoly p).eval z)
      (dom_group_gen := fun d => toF d.groupGen) (a_poly := aP) (b_poly := bP) (c_poly := cP) (d_poly := dP) (domain := d)
      (self_prover_key_arithmetic_q_arith_0 := k.sel.getD 6 []) (self_prover_key_arithmetic_q_c_0 := k.sel.getD 5 [])
      (self_prover_key_arithmetic_q_l_0 := k.sel.getD 1 []) (self_prover_key_arithmetic_q_r_0 := k.sel.getD 2 [])
      (self_prover_key_permutation_s_sigma_1_0 := k.sigma.getD 0 [])
      (self_prover_key_permutation_s_sigma_2_0 := k.sigma.getD 1 [])
      (self_prover_key_permutation_s_sigma_3_0 := k.sigma.getD 2 []) (z_challenge := toF zc) (z_poly := zP)
    = ["a_eval", "b_eval", "c_eval", "d_eval", "a_w_eval", "b_w_eval", "d_w_eval", "q_arith_eval", "q_c_eval", "q_l_eval",
       "q_r_eval", "s_sigma_1_eval", "s_sigma_2_eval", "s_sigma_3_eval", "z_eval"].map
        (fun l => (l, toF ((evalsModel k d aP bP cP dP zP zc).byLabel l))) :=
  prover_evaluations_source k d aP bP cP dP zP zc

/-- **call site, round 2**: `compute_permutation_vec(&domain, [a, b, c, d], β, γ, sigma_evaluations[0..3])`. -/
theorem call_site_accumulator {Dom : Type} (sz : Dom → Nat) (els : Dom → List Nat) (dom : Dom)
    (aS bS cS dS s0 s1 s2 s3 : List Nat) (beta gamma : Nat)
    (hr : (els dom).length = sz dom) (ha : aS.length = sz dom) :
    prover_permutation (A := F) (dom_size := sz) (dom_elements := fun d => (els d).map toF) (domain := dom)
      (K1 := toF Generated.K1) (K2 := toF Generated.K2) (K3 := toF Generated.K3)
      (a_scalars := aS.map toF) (b_scalars := bS.map toF) (c_scalars := cS.map toF) (d_scalars := dS.map toF)
      (beta := toF beta) (gamma := toF gamma)
      (self_sigma_evaluations := [s0.map toF, s1.map toF, s2.map toF, s3.map toF])
    = (permVec (sz dom) (els dom) aS bS cS dS [s0, s1, s2, s3] beta gamma).map (List.map toF) :=
  prover_permutation_source sz els dom aS bS cS dS s0 s1 s2 s3 beta gamma hr ha

/-- **call site, round 3**: the arguments of `quotient_poly::compute` in `prove_inner` (tuple `wires`, tuple `args`). -/
theorem call_site_quotient {Dom : Type} (cf : Dom → Poly → List Nat) (ci : Dom → List Nat → List Nat)
    (sz : Dom → Nat) (szInv : Dom → Nat)
    (qd : Dom) (zP aP bP cP dP piP : Poly) (selE sigE8 : Array (Array Nat)) (linE vh vhInv8 : Array Nat)
    (alpha beta gamma rSep lSep fSep vSep : Nat)
    (hz : 8 ≤ (cf qd zP).length) (ha : 8 ≤ (cf qd aP).length) (hb : 8 ≤ (cf qd bP).length)
    (hd : 8 ≤ (cf qd dP).length) (hc : sz qd ≤ (cf qd cP).length) :
    prover_t_poly (A := F) (Pol := Poly) (dom_coset_fft := fun d p => (cf d p).map toF) (dom_size := sz)
      (dom_size_inv := fun d => toF (szInv d))
      (dom_coset_ifft := fun d l => (ci d (l.map ZMod.val)).map toF)
      (poly_from_coefficients_vec := fun l => Poly.ofCoeffs (l.map ZMod.val)) (poly_len := List.length)
      (self_quotient_domain := qd)
      (z_poly := zP) (a_poly := aP) (b_poly := bP) (c_poly := cP) (d_poly := dP) (pi_poly := piP)
      (self_vanishing_coset_inverses := arrF vhInv8)
      (alpha := toF alpha) (beta := toF beta) (gamma := toF gamma)
      (range_sep_challenge := toF rSep) (logic_sep_challenge := toF lSep) (fixed_base_sep_challenge := toF fSep)
      (var_base_sep_challenge := toF vSep)
      (EDWARDS_D := dF) (K1 := toF Generated.K1) (K2 := toF Generated.K2) (K3 := toF Generated.K3)
      (self_prover_key_arithmetic_q_m_1 := arrF (selE.getD 0 #[]))
      (self_prover_key_arithmetic_q_l_1 := arrF (selE.getD 1 #[]))
      (self_prover_key_arithmetic_q_r_1 := arrF (selE.getD 2 #[]))
      (self_prover_key_arithmetic_q_o_1 := arrF (selE.getD 3 #[]))
      (self_prover_key_arithmetic_q_f_1 := arrF (selE.getD 4 #[]))
      (self_prover_key_arithmetic_q_c_1 := arrF (selE.getD 5 #[]))
      (self_prover_key_arithmetic_q_arith_1 := arrF (selE.getD 6 #[]))
      (self_prover_key_range_q_range_1 := arrF (selE.getD 7 #[]))
      (self_prover_key_logic_q_logic_1 := arrF (selE.getD 8 #[]))
      (self_prover_key_logic_q_c_1 := arrF (selE.getD 5 #[]))
      (self_prover_key_fixed_base_q_fixed_group_add_1 := arrF (selE.getD 9 #[]))
      (self_prover_key_fixed_base_q_c_1 := arrF (selE.getD 5 #[]))
      (self_prover_key_fixed_base_q_l_1 := arrF (selE.getD 1 #[]))
      (self_prover_key_fixed_base_q_r_1 := arrF (selE.getD 2 #[]))
      (self_prover_key_variable_base_q_variable_group_add_1 := arrF (selE.getD 10 #[]))
      (self_prover_key_permutation_linear_evaluations := arrF linE)
      (self_prover_key_permutation_linear_evaluations_evals := arrF linE)
      (self_prover_key_permutation_s_sigma_1_1 := arrF (sigE8.getD 0 #[]))
      (self_prover_key_permutation_s_sigma_2_1 := arrF (sigE8.getD 1 #[]))
      (self_prover_key_permutation_s_sigma_3_1 := arrF (sigE8.getD 2 #[]))
      (self_prover_key_permutation_s_sigma_4_1 := arrF (sigE8.getD 3 #[]))
      (self_prover_key_v_h_coset_8n_evals := arrF vh)
    = (let quot := quotientEvals (sz qd) selE sigE8 linE (wrap8 (cf qd aP)) (wrap8 (cf qd bP)) (wrap8 (cf qd cP))
        (wrap8 (cf qd dP)) (wrap8 (cf qd zP)) (cf qd piP).toArray vh vhInv8
        (batchInversion (linE.toList.map fun e => fsub e 1)).toArray (fmul (szInv qd) 8)
        beta gamma alpha rSep lSep fSep vSep
       let tPoly := Poly.ofCoeffs (ci qd (quot.map (· % R)))
       if tPoly.length > 7 * (sz qd / 8) then Except.error "Error::CircuitUnsatisfied" else Except.ok tPoly) :=
  prover_t_poly_source cf ci sz szInv qd zP aP bP cP dP piP selE sigE8 linE vh vhInv8 alpha beta gamma rSep lSep fSep vSep hz ha hb hd hc

/-- **call site, rounds 4–5**: the `ProofEvaluations` and `LinearizationChallenges` literals and the arguments of
    `linearization_poly::compute` in `prove_inner`. -/
theorem call_site_linearisation {Dom : Type} (k : PKey) (d : Domain) (aP bP cP dP zP tLowP tMidP tHighP tFourthP : Poly)
    (pis : List Nat) (beta gamma alpha rSep lSep fSep vSep zc : Nat)
    (bary : List F[X] → F[X] → Dom → F[X]) (deg : F[X] → Nat) (dnew : Nat → Dom) (lag : Dom → F[X] → List F[X])
    (dsz : Dom → Nat) (van : Dom → F[X] → F[X]) (dom : Dom)
    (hsz : dsz dom = d.size)
    (hbary : bary (pis.map fun x => C (toF x)) (C (toF zc)) dom = C (toF (d.barycentric pis zc)))
    (hlag : (lag (dnew (deg (toPoly zP) - 2)) (C (toF zc))).getD 0 0
              = C (toF ((((Domain.new? (Poly.degree zP - 2)).getD d).lagrangeCoeffs zc).headD 0)))
    (hvan : van dom (C (toF zc)) = C (toF (d.evaluateVanishing zc)))
    (hn : 3 * d.size < 2 ^ 256) :
    prover_r_poly (A := F[X]) (poly_evaluate := fun p z => C (p.eval (z.coeff 0)))
      (dom_group_gen := fun _ => C (toF d.groupGen))
      (compute_barycentric_eval := bary) (poly_degree := deg) (dom_new := dnew)
      (dom_evaluate_all_lagrange_coefficients := lag) (dom_size := dsz) (dom_evaluate_vanishing_polynomial := van)
      (EDWARDS_D := C dF) (K1 := C (toF Generated.K1)) (K2 := C (toF Generated.K2)) (K3 := C (toF Generated.K3))
      (a_poly := toPoly aP) (b_poly := toPoly bP) (c_poly := toPoly cP) (d_poly := toPoly dP) (z_poly := toPoly zP)
      (alpha := C (toF alpha)) (beta := C (toF beta)) (gamma := C (toF gamma))
      (range_sep_challenge := C (toF rSep)) (logic_sep_challenge := C (toF lSep))
      (fixed_base_sep_challenge := C (toF fSep)) (var_base_sep_challenge := C (toF vSep))
      (z_challenge := C (toF zc)) (domain := dom) (public_inputs := pis.map fun x => C (toF x))
      (self_prover_key_arithmetic_q_m_0 := toPoly (k.sel.getD 0 []))
      (self_prover_key_arithmetic_q_l_0 := toPoly (k.sel.getD 1 []))
      (self_prover_key_arithmetic_q_r_0 := toPoly (k.sel.getD 2 []))
      (self_prover_key_arithmetic_q_o_0 := toPoly (k.sel.getD 3 []))
      (self_prover_key_arithmetic_q_f_0 := toPoly (k.sel.getD 4 []))
      (self_prover_key_arithmetic_q_c_0 := toPoly (k.sel.getD 5 []))
      (self_prover_key_arithmetic_q_arith_0 := toPoly (k.sel.getD 6 []))
      (self_prover_key_range_q_range_0 := toPoly (k.sel.getD 7 []))
      (self_prover_key_logic_q_logic_0 := toPoly (k.sel.getD 8 []))
      (self_prover_key_fixed_base_q_fixed_group_add_0 := toPoly (k.sel.getD 9 []))
      (self_prover_key_variable_base_q_variable_group_add_0 := toPoly (k.sel.getD 10 []))
      (self_prover_key_permutation_s_sigma_1_0 := toPoly (k.sigma.getD 0 []))
      (self_prover_key_permutation_s_sigma_2_0 := toPoly (k.sigma.getD 1 []))
      (self_prover_key_permutation_s_sigma_3_0 := toPoly (k.sigma.getD 2 []))
      (self_prover_key_permutation_s_sigma_4_0 := toPoly (k.sigma.getD 3 []))
      (t_low_poly := toPoly tLowP) (t_mid_poly := toPoly tMidP) (t_high_poly := toPoly tHighP)
      (t_fourth_poly := toPoly tFourthP)
    = toPoly (linPolyModel k d (evalsModel k d aP bP cP dP zP zc) zP tLowP tMidP tHighP tFourthP pis beta gamma alpha
        rSep lSep fSep vSep zc) :=
  prover_r_poly_source k d aP bP cP dP zP tLowP tMidP tHighP tFourthP pis beta gamma alpha rSep lSep fSep vSep zc bary deg dnew lag dsz van dom hsz hbary hlag hvan hn

/-- non-vacuity of the kernel hypotheses of `linearisation_is_the_source`: constant kernels satisfy them -/
example (k : PKey) (d : Domain) (ev : Evals) (zP tLowP tMidP tHighP tFourthP : Poly) (pis : List Nat)
    (beta gamma alpha rSep lSep fSep vSep zc : Nat) (hn : 3 * d.size < 2 ^ 256) :
    ∃ r : F[X], r = toPoly (linPolyModel k d ev zP tLowP tMidP tHighP tFourthP pis beta gamma alpha rSep lSep fSep vSep zc) :=
  ⟨_, linearisation_is_the_source (Dom := Unit) k d ev zP tLowP tMidP tHighP tFourthP pis beta gamma alpha rSep lSep fSep
    vSep zc (fun _ _ _ => C (toF (d.barycentric pis zc))) (fun _ => 0) (fun _ => ())
    (fun _ _ => [C (toF ((((Domain.new? (Poly.degree zP - 2)).getD d).lagrangeCoeffs zc).headD 0))])
    (fun _ => d.size) (fun _ _ => C (toF (d.evaluateVanishing zc))) () rfl rfl rfl rfl hn⟩

/-- non-vacuity: the translated accumulator on a concrete two-row input (field `ℚ`; `K₁ K₂ K₃ = 2 3 4`, identity sigma on
    row 0 scaled by the same constants, so the first ratio is `1`) -/
example : compute_permutation_vec (A := ℚ) (Dom := Unit) (dom_size := fun _ => 2) (dom_elements := fun _ => [1, -1])
    (domain := ()) (wires := [[5, 6], [7, 8], [9, 10], [11, 12]]) (beta := 1) (gamma := 0)
    (sigma_evaluations := [[1, -1], [2, -2], [3, -3], [4, -4]]) (K1 := 2) (K2 := 3) (K3 := 4) = some [1, 1] := by
  simp only [compute_permutation_vec, permutation_numerators, permutation_denominators]
  norm_num [List.range_succ]

end Plonk.Props.ProverTie
