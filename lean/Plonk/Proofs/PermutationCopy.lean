/-
  C05 (permutation half), part 5: values that respect `σ` are exactly the values that are constant
  on every wiring class, and this is what the model's `Composer.copyViolation` decides.
-/
import Plonk.Proofs.PermutationCycles

namespace Plonk
namespace Perm
open Composer

/-! ### respecting `σ` ⇔ constant on the classes -/

/-- two positions of the gate table wired to the same allocated witness -/
def SameClass (c : Composer) (p q : Pos) : Prop :=
  (p.1 < 4 ∧ p.2 < c.gates.size) ∧ (q.1 < 4 ∧ q.2 < c.gates.size) ∧
  wireAt c p = wireAt c q ∧ wireAt c p < c.wit.size

instance (c : Composer) (p q : Pos) : Decidable (SameClass c p q) := by
  unfold SameClass; infer_instance

theorem sameClass_iff_mem (c : Composer) (p q : Pos) :
    SameClass c p q ↔ Active c p ∧ q ∈ classOf c (wireAt c p) := by
  unfold SameClass Active
  rw [mem_classOf]
  constructor
  · rintro ⟨h1, h2, h3, h4⟩; exact ⟨⟨h1, h4⟩, h2, h3.symm⟩
  · rintro ⟨⟨h1, h4⟩, h2, h3⟩; exact ⟨h1, h2, h3.symm, h4⟩

theorem sameClass_sigmaFn {c : Composer} {p : Pos} (h : Active c p) : SameClass c p (sigmaFn c p) :=
  (sameClass_iff_mem c p _).mpr ⟨h, sigmaFn_mem_class h⟩

theorem iterate_respects {α : Type} (c : Composer) (val : Pos → α) (h : ∀ p, val (sigmaFn c p) = val p)
    (p : Pos) (t : Nat) : val ((sigmaFn c)^[t] p) = val p := by
  induction t with
  | zero => rfl
  | succ t ih => rw [Function.iterate_succ_apply', h, ih]

/-- **values respect `σ` iff they are constant on every class** -/
theorem respects_iff_const {α : Type} (c : Composer) (val : Pos → α) :
    (∀ p, val (sigmaFn c p) = val p) ↔ (∀ p q, SameClass c p q → val p = val q) := by
  constructor
  · intro h p q hpq
    obtain ⟨ha, hq⟩ := (sameClass_iff_mem c p q).mp hpq
    obtain ⟨t, rfl⟩ := sigmaFn_reaches ha hq
    exact (iterate_respects c val h p t).symm
  · intro h p
    by_cases ha : Active c p
    · exact (h p _ (sameClass_sigmaFn ha)).symm
    · rw [sigmaFn_of_not_active ha]

/-! ### the model's `copyViolation` as a scan -/

abbrev CState := Option (Option Nat) × Array (Option Nat)

def innerBody (x : Nat × Nat) (s : CState) : Id (ForInStep CState) :=
  match s.2.getD x.1 none with
  | none => pure (ForInStep.yield (none, s.2.setIfInBounds x.1 (some x.2)))
  | some v0 => if (v0 != x.2) = true then pure (ForInStep.done (some (some x.1), s.2))
               else pure (ForInStep.yield (none, s.2))

def rowPairs (lay c : Composer) (i : Nat) : List (Nat × Nat) :=
  [((lay.gateAt i).a, (c.rowVals i).a), ((lay.gateAt i).b, (c.rowVals i).b),
   ((lay.gateAt i).c, (c.rowVals i).c), ((lay.gateAt i).d, (c.rowVals i).d)]

def outerBody (lay c : Composer) (i : Nat) (s : CState) : Id (ForInStep CState) :=
  match (forIn (m := Id) (rowPairs lay c i) (none, s.2) innerBody).1 with
  | some r => pure (ForInStep.done (some r, (forIn (m := Id) (rowPairs lay c i) (none, s.2) innerBody).2))
  | none => pure (ForInStep.yield (none, (forIn (m := Id) (rowPairs lay c i) (none, s.2) innerBody).2))

theorem copyViolation_eq (lay c : Composer) :
    copyViolation lay c =
      match (forIn (m := Id) (List.range lay.gates.size) ((none, Array.replicate lay.wit.size none) : CState)
        (outerBody lay c)).1 with
      | some r => r
      | none => none := by
  unfold copyViolation
  have hsz : ([:lay.gates.size] : Std.Legacy.Range).size = lay.gates.size := by
    simp [Std.Legacy.Range.size]
  simp only [Std.Legacy.Range.forIn_eq_forIn_range', hsz, ← List.range_eq_range']
  set_option smartUnfolding false in rfl

/-- first-value-seen scan over `(witness, value)` pairs -/
def scan : List (Nat × Nat) → Array (Option Nat) → Option Nat
  | [], _ => none
  | x :: r, seen =>
    match seen.getD x.1 none with
    | none => scan r (seen.setIfInBounds x.1 (some x.2))
    | some v0 => if (v0 != x.2) = true then some x.1 else scan r seen

theorem scan_inner (rest : List (Nat × Nat)) : ∀ (xs : List (Nat × Nat)) (seen : Array (Option Nat)),
    scan (xs ++ rest) seen =
      match (forIn (m := Id) xs ((none, seen) : CState) innerBody).1 with
      | some r => r
      | none => scan rest (forIn (m := Id) xs ((none, seen) : CState) innerBody).2 := by
  intro xs
  induction xs with
  | nil => intro seen; simp [pure]
  | cons x xs ih =>
    intro seen
    rw [List.forIn_cons, List.cons_append]
    cases h : seen.getD x.1 none with
    | none =>
      have e : innerBody x (none, seen) = pure (ForInStep.yield (none, seen.setIfInBounds x.1 (some x.2))) := by
        simp [innerBody, h]
      rw [e]
      simp only [scan, h]
      exact ih _
    | some v0 =>
      by_cases hv : (v0 != x.2) = true
      · have e : innerBody x (none, seen) = pure (ForInStep.done (some (some x.1), seen)) := by
          simp only [innerBody, h, hv, if_true]
        rw [e]
        simp only [scan, h, hv, if_true]
        rfl
      · have e : innerBody x (none, seen) = pure (ForInStep.yield (none, seen)) := by
          simp only [innerBody, h, hv]
          rfl
        rw [e]
        simp only [scan, h, hv]
        exact ih _

theorem scan_outer (lay c : Composer) : ∀ (is : List Nat) (seen : Array (Option Nat)),
    scan (is.flatMap (rowPairs lay c)) seen =
      match (forIn (m := Id) is ((none, seen) : CState) (outerBody lay c)).1 with
      | some r => r
      | none => none := by
  intro is
  induction is with
  | nil => intro seen; simp [pure, scan]
  | cons i is ih =>
    intro seen
    rw [List.forIn_cons, List.flatMap_cons, scan_inner]
    cases h : (forIn (m := Id) (rowPairs lay c i) ((none, seen) : CState) innerBody).1 with
    | none =>
      have e : outerBody lay c i (none, seen) = pure (ForInStep.yield
          (none, (forIn (m := Id) (rowPairs lay c i) ((none, seen) : CState) innerBody).2)) := by
        simp only [outerBody, h]
      rw [e]
      exact ih _
    | some r =>
      have e : outerBody lay c i (none, seen) = pure (ForInStep.done
          (some r, (forIn (m := Id) (rowPairs lay c i) ((none, seen) : CState) innerBody).2)) := by
        simp only [outerBody, h]
      rw [e]
      rfl

/-- value of the proving-time composer at a wire position -/
def valAt (c : Composer) (p : Pos) : Nat :=
  match p.1 with
  | 0 => (c.rowVals p.2).a
  | 1 => (c.rowVals p.2).b
  | 2 => (c.rowVals p.2).c
  | _ => (c.rowVals p.2).d

theorem copyViolation_eq_scan (lay c : Composer) :
    copyViolation lay c =
      scan ((allPos lay.gates.size).map fun p => (wireAt lay p, valAt c p)) (Array.replicate lay.wit.size none) := by
  rw [copyViolation_eq, ← scan_outer]
  congr 1
  unfold allPos
  rw [List.map_flatMap]
  rfl

/-! ### when the scan finds nothing -/

theorem getD_setIfInBounds' {α : Type} (a : Array α) (i j : Nat) (v q : α) :
    (a.setIfInBounds i v).getD j q = if i = j ∧ i < a.size then v else a.getD j q := by
  rw [Array.getD_eq_getD_getElem?, Array.getD_eq_getD_getElem?, Array.getElem?_setIfInBounds]
  by_cases h : i = j
  · subst h
    by_cases h2 : i < a.size
    · simp [h2]
    · simp [h2]
  · simp [h]

theorem getD_some_lt {a : Array (Option Nat)} {i v : Nat} (h : a.getD i none = some v) : i < a.size := by
  by_contra hc
  rw [Array.getD_eq_getD_getElem?, Array.getElem?_eq_none (by omega)] at h
  simp at h

theorem scan_eq_none_iff : ∀ (wv : List (Nat × Nat)) (seen : Array (Option Nat)),
    scan wv seen = none ↔
      (∀ x ∈ wv, ∀ v0, seen.getD x.1 none = some v0 → v0 = x.2) ∧
      wv.Pairwise (fun x y => x.1 = y.1 → x.1 < seen.size → x.2 = y.2) := by
  intro wv
  induction wv with
  | nil => intro seen; simp [scan]
  | cons x r ih =>
    intro seen
    rw [List.pairwise_cons]
    cases h : seen.getD x.1 none with
    | none =>
      have e : scan (x :: r) seen = scan r (seen.setIfInBounds x.1 (some x.2)) := by simp only [scan, h]
      rw [e, ih, Array.size_setIfInBounds]
      constructor
      · rintro ⟨h1, h2⟩
        refine ⟨?_, ?_, h2⟩
        · intro y hy v0 hv0
          rcases List.mem_cons.mp hy with rfl | hy
          · rw [h] at hv0; exact absurd hv0 (by simp)
          · have hne : ¬ (x.1 = y.1 ∧ x.1 < seen.size) := by
              rintro ⟨e1, _⟩; rw [← e1, h] at hv0; exact absurd hv0 (by simp)
            have := h1 y hy v0
            rw [getD_setIfInBounds', if_neg hne] at this
            exact this hv0
        · intro y hy e1 hlt
          have := h1 y hy x.2
          rw [getD_setIfInBounds', if_pos ⟨e1, hlt⟩] at this
          exact this rfl
      · rintro ⟨h1, h2, h3⟩
        refine ⟨?_, h3⟩
        intro y hy v0 hv0
        rw [getD_setIfInBounds'] at hv0
        split at hv0
        · next hc =>
          rw [← Option.some.inj hv0]
          exact h2 y hy hc.1 hc.2
        · exact h1 y (List.mem_cons_of_mem _ hy) v0 hv0
    | some v0 =>
      by_cases hv : (v0 != x.2) = true
      · have e : scan (x :: r) seen = some x.1 := by simp only [scan, h, hv, if_true]
        rw [e]
        constructor
        · intro hh; exact absurd hh (by simp)
        · rintro ⟨h1, _⟩
          have := h1 x List.mem_cons_self v0 h
          rw [this] at hv
          simp at hv
      · have e : scan (x :: r) seen = scan r seen := by
          simp only [scan, h, hv]
          rfl
        have hv' : v0 = x.2 := by simpa using hv
        rw [e, ih]
        constructor
        · rintro ⟨h1, h2⟩
          refine ⟨?_, ?_, h2⟩
          · intro y hy w hw
            rcases List.mem_cons.mp hy with rfl | hy
            · rw [h] at hw; rw [← Option.some.inj hw]; exact hv'
            · exact h1 y hy w hw
          · intro y hy e1 _
            have := h1 y hy v0 (by rw [← e1]; exact h)
            rw [← this]; exact hv'.symm
        · rintro ⟨h1, _, h3⟩
          exact ⟨fun y hy => h1 y (List.mem_cons_of_mem _ hy), h3⟩

/-- **`copyViolation` finds nothing iff positions wired to the same allocated witness of the
    layout carry equal values** -/
theorem copyViolation_eq_none_iff (lay c : Composer) :
    copyViolation lay c = none ↔ ∀ p q, SameClass lay p q → valAt c p = valAt c q := by
  rw [copyViolation_eq_scan, scan_eq_none_iff, List.pairwise_map]
  have h0 : ∀ w, (Array.replicate lay.wit.size (none : Option Nat)).getD w none = none := by
    intro w
    rw [Array.getD_eq_getD_getElem?]
    by_cases hw : w < lay.wit.size
    · simp [hw]
    · rw [Array.getElem?_eq_none (by simpa using hw)]; rfl
  constructor
  · rintro ⟨_, h2⟩ p q ⟨hp, hq, hw, hlt⟩
    have hsymm : (allPos lay.gates.size).Pairwise (flip fun a b : Pos =>
        (wireAt lay a, valAt c a).1 = (wireAt lay b, valAt c b).1 →
          (wireAt lay a, valAt c a).1 < (Array.replicate lay.wit.size (none : Option Nat)).size →
          (wireAt lay a, valAt c a).2 = (wireAt lay b, valAt c b).2) := by
      refine h2.imp ?_
      intro a b hab e1 e2
      exact (hab e1.symm (by rw [e1.symm]; exact e2)).symm
    have := List.Pairwise.forall_of_forall_of_flip (fun x _ _ _ => rfl) h2 hsymm
      ((mem_allPos _ p).mpr hp) ((mem_allPos _ q).mpr hq)
    exact this hw (by simpa using hlt)
  · intro h
    refine ⟨?_, ?_⟩
    · intro x _ v0 hv0
      rw [h0] at hv0; exact absurd hv0 (by simp)
    · apply List.pairwise_of_forall_mem_list
      intro p hp q hq e1 e2
      exact h p q ⟨(mem_allPos _ p).mp hp, (mem_allPos _ q).mp hq, e1, by simpa using e2⟩

/-- **`perm_respects_iff`**: the three formulations of the copy constraints agree -/
theorem perm_respects_iff (lay c : Composer) :
    ((∀ p, valAt c (sigmaFn lay p) = valAt c p) ↔ (∀ p q, SameClass lay p q → valAt c p = valAt c q)) ∧
    ((∀ p q, SameClass lay p q → valAt c p = valAt c q) ↔ copyViolation lay c = none) :=
  ⟨respects_iff_const lay (valAt c), (copyViolation_eq_none_iff lay c).symm⟩

end Perm
end Plonk
