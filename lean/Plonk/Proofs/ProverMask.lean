/-
  C06 / C01 helper lemmas about the stage functions of the specification prover
  (`Plonk/Model/Prover.lean`): the blinding of the wire / permutation polynomials
  (`blindPoly`), the re-randomised split of the quotient (`splitQuotient`), the RNG draws
  (`takeDraws`, and `prove` as a function of its draw list), the opening identity of
  `aggregateWitness`, and the capacity of the trimmed commit key (`truncateLen`, `commitT`).
-/
import Plonk.Proofs.PolyBridge
import Plonk.Proofs.KzgModel
import Plonk.Proofs.FftDomain
import Plonk.Model.Prover

namespace Plonk
namespace ProverMask
open Polynomial Poly KzgMath FftMath

/-! ### small list / polynomial facts -/

theorem toPoly_set (cs : List Nat) (i v : Nat) (hi : i < cs.length) :
    toPoly (cs.set i v) = toPoly cs + C (toF v - toF (cs.getD i 0)) * X ^ i := by
  ext k
  rw [coeff_add, coeff_toPoly, coeff_toPoly, coeff_C_mul_X_pow]
  by_cases hk : k = i
  · subst hk
    rw [if_pos rfl, List.getD_eq_getElem?_getD, List.getD_eq_getElem?_getD, List.getElem?_set_self hi]
    simp
  · rw [if_neg hk, List.getD_eq_getElem?_getD, List.getD_eq_getElem?_getD,
      List.getElem?_set_ne (Ne.symm hk)]
    simp

theorem toPoly_singleton (b : Nat) : toPoly [b] = C (toF b) := by simp

theorem degree_toPoly_lt (p : List Nat) : (toPoly p).degree < p.length := by
  rw [degree_lt_iff_coeff_zero]
  intro m hm
  rw [coeff_toPoly, List.getD_eq_default _ _ (by exact_mod_cast hm)]
  simp

theorem natDegree_toPoly_lt (p : List Nat) (hp : p ≠ []) : (toPoly p).natDegree < p.length := by
  have hlen : 0 < p.length := List.length_pos_iff.mpr hp
  by_cases h0 : toPoly p = 0
  · rw [h0]; simpa using hlen
  · exact (natDegree_lt_iff_degree_lt h0).mpr (degree_toPoly_lt p)

theorem length_ofCoeffs_le (p : List Nat) : (Poly.ofCoeffs p).length ≤ p.length := by
  unfold Poly.ofCoeffs
  exact le_trans (length_trim_le _) (by simp)

/-- `toPoly` of a list of length `n` is the `polyN` of its sequence -/
theorem toPoly_eq_polyN (p : List Nat) : toPoly p = polyN p.length (seqF p) := by
  rw [toPoly_eq_sum]; rfl

/-! ### `blindPoly` -/

/-- the blinding fold, started at blinder index `k` on a coefficient list of length `n + k` -/
theorem blind_fold (n : Nat) (hn : 0 < n) (bs : List Nat) :
    ∀ (k : Nat) (cs : List Nat), cs.length = n + k →
      (((bs.zipIdx k).foldl (fun (cs : List Nat) (bi : Nat × Nat) =>
          (cs.set bi.2 (fsub (cs.getD bi.2 0) bi.1)) ++ [bi.1 % R]) cs).length = n + k + bs.length) ∧
      toPoly ((bs.zipIdx k).foldl (fun (cs : List Nat) (bi : Nat × Nat) =>
          (cs.set bi.2 (fsub (cs.getD bi.2 0) bi.1)) ++ [bi.1 % R]) cs)
        = toPoly cs + X ^ k * toPoly bs * (X ^ n - 1) := by
  induction bs with
  | nil => intro k cs h; simp [h]
  | cons b bs ih =>
    intro k cs hlen
    rw [List.zipIdx_cons, List.foldl_cons]
    have hlen' : (cs.set k (fsub (cs.getD k 0) b) ++ [b % R]).length = n + (k + 1) := by
      simp [hlen]; omega
    obtain ⟨h1, h2⟩ := ih (k + 1) _ hlen'
    refine ⟨by rw [h1]; simp; omega, ?_⟩
    rw [h2, toPoly_append, toPoly_set _ _ _ (by omega), List.length_set, hlen, toPoly_singleton,
      toPoly_cons]
    simp only [toF_fsub, toF_mod]
    rw [pow_add, pow_succ]
    simp only [C_sub]
    ring

/-- **Mask form of `blind_poly_with_blinders`.**  The blinded polynomial is the interpolant
    `ifft w` plus `(Σ_i b_i X^i)·(X^n − 1)`; `toPoly bs = Σ_i C (toF b_i) X^i`. -/
theorem blindPoly_mask_form (d : Domain) (hd : d.WF) (w bs : List Nat) :
    toPoly (blindPoly d w bs)
      = toPoly (Poly.ofCoeffs (d.ifft w)) + toPoly bs * (X ^ d.size - 1) := by
  unfold blindPoly
  have hlen : (d.ifft w).length = d.size + 0 := Domain.ifft_length hd (le_refl 1) w
  have := (blind_fold d.size hd.size_pos bs 0 (d.ifft w) hlen).2
  simp only [toPoly_ofCoeffs]
  rw [pow_zero, one_mul] at this
  exact this

theorem blindPoly_length_le (d : Domain) (hd : d.WF) (w bs : List Nat) :
    (blindPoly d w bs).length ≤ d.size + bs.length := by
  unfold blindPoly
  have hlen : (d.ifft w).length = d.size + 0 := Domain.ifft_length hd (le_refl 1) w
  have := (blind_fold d.size hd.size_pos bs 0 (d.ifft w) hlen).1
  exact le_trans (length_ofCoeffs_le _) (by rw [this]; omega)

/-- evaluation form: every opening of a blinded polynomial is the unmasked value plus the mask -/
theorem blindPoly_eval (d : Domain) (hd : d.WF) (w bs : List Nat) (z : Nat) :
    toF (Poly.evaluate (blindPoly d w bs) z)
      = toF (Poly.evaluate (Poly.ofCoeffs (d.ifft w)) z)
        + (toPoly bs).eval (toF z) * (toF z ^ d.size - 1) := by
  rw [evaluate_spec, evaluate_spec, blindPoly_mask_form d hd]
  simp

/-- the unmasked polynomial interpolates the wire values on the domain -/
theorem unmasked_interpolates (d : Domain) (hd : d.WF) (w : List Nat) (hw : w.length = d.size)
    (i : Nat) (hi : i < d.size) :
    (toPoly (Poly.ofCoeffs (d.ifft w))).eval (toF d.groupGen ^ i) = toF (w.getD i 0) := by
  rw [toPoly_ofCoeffs, toPoly_eq_polyN, Domain.ifft_length hd (le_refl 1) w]
  exact Domain.eval_ifft hd (le_refl 1) w hw i hi

/-- the mask vanishes on the domain: the blinded polynomial still interpolates the wire values -/
theorem blindPoly_interpolates (d : Domain) (hd : d.WF) (w bs : List Nat) (hw : w.length = d.size)
    (i : Nat) (hi : i < d.size) :
    (toPoly (blindPoly d w bs)).eval (toF d.groupGen ^ i) = toF (w.getD i 0) := by
  rw [blindPoly_mask_form d hd, eval_add, unmasked_interpolates d hd w hw i hi]
  have : (toF d.groupGen ^ i) ^ d.size = 1 := by
    rw [← pow_mul, mul_comm, pow_mul, hd.prim.pow_eq_one, one_pow]
  simp [this]

/-! ### `splitQuotient` -/

/-- the private helper `sub0` of `splitQuotient`, restated -/
def sub0 (l : List Nat) (b : Nat) : List Nat := match l with | [] => [] | h :: r => fsub h b :: r

theorem toPoly_sub0 (l : List Nat) (b : Nat) (hl : l ≠ []) :
    toPoly (sub0 l b) = toPoly l - C (toF b) := by
  cases l with
  | nil => exact absurd rfl hl
  | cons h r => simp [sub0]; ring

theorem length_sub0 (l : List Nat) (b : Nat) : (sub0 l b).length = l.length := by
  cases l <;> simp [sub0]

theorem splitQuotient_eq (n : Nat) (t : Poly) (b12 b13 b14 : Nat) :
    splitQuotient n t b12 b13 b14 =
      if t.length ≤ 3 * n then none else
      some (Poly.ofCoeffs (t.take n ++ [b12]),
            Poly.ofCoeffs (sub0 ((t.drop n).take n) b12 ++ [b13]),
            Poly.ofCoeffs (sub0 ((t.drop (2 * n)).take n) b13 ++ [b14]),
            Poly.ofCoeffs (sub0 (t.drop (3 * n)) b14)) := by
  unfold splitQuotient
  by_cases h1 : t.length < 3 * n
  · simp [h1, Nat.le_of_lt h1]
  · by_cases h2 : t.length = 3 * n
    · have : t.drop (3 * n) = [] := List.drop_eq_nil_of_le (by omega)
      simp [h2, this]
    · have h3 : ¬ t.length ≤ 3 * n := by omega
      have : (t.drop (3 * n)).isEmpty = false := by
        rw [List.isEmpty_eq_false_iff]
        intro h
        have := congrArg List.length h
        simp at this; omega
      simp only [h1, if_false, this, h3]
      rfl

/-- the exact failure condition (`t_poly[3n..]` empty or out of range) -/
theorem splitQuotient_none_iff (n : Nat) (t : Poly) (b12 b13 b14 : Nat) :
    splitQuotient n t b12 b13 b14 = none ↔ t.length ≤ 3 * n := by
  rw [splitQuotient_eq]
  by_cases h : t.length ≤ 3 * n <;> simp [h]

/-- each share is the unmasked slice plus its mask -/
theorem splitQuotient_mask_form {n : Nat} (hn : 0 < n) {t : Poly} {b12 b13 b14 : Nat}
    {tl tm th tf : Poly} (h : splitQuotient n t b12 b13 b14 = some (tl, tm, th, tf)) :
    3 * n < t.length ∧
    toPoly tl = toPoly (t.take n) + C (toF b12) * X ^ n ∧
    toPoly tm = toPoly ((t.drop n).take n) - C (toF b12) + C (toF b13) * X ^ n ∧
    toPoly th = toPoly ((t.drop (2 * n)).take n) - C (toF b13) + C (toF b14) * X ^ n ∧
    toPoly tf = toPoly (t.drop (3 * n)) - C (toF b14) := by
  rw [splitQuotient_eq] at h
  by_cases hlen : t.length ≤ 3 * n
  · simp [hlen] at h
  · rw [if_neg hlen] at h
    simp only [Option.some.injEq, Prod.mk.injEq] at h
    obtain ⟨rfl, rfl, rfl, rfl⟩ := h
    have l1 : (t.take n).length = n := by simp; omega
    have l2 : ((t.drop n).take n).length = n := by simp; omega
    have l3 : ((t.drop (2 * n)).take n).length = n := by simp; omega
    have l4 : (t.drop (3 * n)).length ≠ 0 := by simp; omega
    have ne (l : List Nat) (hl : l.length = n) : l ≠ [] := by
      intro h0; rw [h0] at hl; simp at hl; omega
    refine ⟨by omega, ?_, ?_, ?_, ?_⟩
    · rw [toPoly_ofCoeffs, toPoly_append, l1, toPoly_singleton]; ring
    · rw [toPoly_ofCoeffs, toPoly_append, length_sub0, l2, toPoly_singleton,
        toPoly_sub0 _ _ (ne _ l2)]; ring
    · rw [toPoly_ofCoeffs, toPoly_append, length_sub0, l3, toPoly_singleton,
        toPoly_sub0 _ _ (ne _ l3)]; ring
    · rw [toPoly_ofCoeffs, toPoly_sub0 _ _ (by intro h0; rw [h0] at l4; exact l4 rfl)]

theorem toPoly_take_drop (t : List Nat) (n : Nat) (h : n ≤ t.length) :
    toPoly t = toPoly (t.take n) + X ^ n * toPoly (t.drop n) := by
  conv_lhs => rw [← List.take_append_drop n t]
  rw [toPoly_append, List.length_take, Nat.min_eq_left h]

/-- the four slices recombine to the quotient -/
theorem slices_recombine (t : List Nat) (n : Nat) (h : 3 * n ≤ t.length) :
    toPoly (t.take n) + X ^ n * toPoly ((t.drop n).take n)
      + X ^ (2 * n) * toPoly ((t.drop (2 * n)).take n) + X ^ (3 * n) * toPoly (t.drop (3 * n))
      = toPoly t := by
  have e1 := toPoly_take_drop t n (by omega)
  have e2 := toPoly_take_drop (t.drop n) n (by simp; omega)
  have e3 := toPoly_take_drop ((t.drop n).drop n) n (by simp; omega)
  rw [List.drop_drop] at e2 e3
  rw [List.drop_drop] at e3
  have a1 : n + n = 2 * n := by omega
  have a2 : 2 * n + n = 3 * n := by omega
  rw [a1] at e2 e3
  rw [a2] at e3
  rw [e1, e2, e3]
  have p2 : (X : F[X]) ^ (2 * n) = X ^ n * X ^ n := by rw [← pow_add]; congr 1; omega
  have p3 : (X : F[X]) ^ (3 * n) = X ^ n * X ^ n * X ^ n := by
    rw [← pow_add, ← pow_add]; congr 1; omega
  rw [p2, p3]; ring

/-- **the blinders telescope**: the four re-randomised shares recombine to the quotient -/
theorem split_recombine {n : Nat} (hn : 0 < n) {t : Poly} {b12 b13 b14 : Nat}
    {tl tm th tf : Poly} (h : splitQuotient n t b12 b13 b14 = some (tl, tm, th, tf)) :
    toPoly tl + X ^ n * toPoly tm + X ^ (2 * n) * toPoly th + X ^ (3 * n) * toPoly tf
      = toPoly t := by
  obtain ⟨hlen, h1, h2, h3, h4⟩ := splitQuotient_mask_form hn h
  rw [h1, h2, h3, h4, ← slices_recombine t n (by omega)]
  have p2 : (X : F[X]) ^ (2 * n) = X ^ n * X ^ n := by rw [← pow_add]; congr 1; omega
  have p3 : (X : F[X]) ^ (3 * n) = X ^ n * X ^ n * X ^ n := by
    rw [← pow_add, ← pow_add]; congr 1; omega
  rw [p2, p3]; ring

/-- lengths of the shares (for the capacity of the commit key) -/
theorem splitQuotient_lengths {n : Nat} {t : Poly} {b12 b13 b14 : Nat}
    {tl tm th tf : Poly} (h : splitQuotient n t b12 b13 b14 = some (tl, tm, th, tf)) :
    tl.length ≤ n + 1 ∧ tm.length ≤ n + 1 ∧ th.length ≤ n + 1 ∧ tf.length ≤ t.length - 3 * n := by
  rw [splitQuotient_eq] at h
  by_cases hlen : t.length ≤ 3 * n
  · simp [hlen] at h
  · rw [if_neg hlen] at h
    simp only [Option.some.injEq, Prod.mk.injEq] at h
    obtain ⟨rfl, rfl, rfl, rfl⟩ := h
    refine ⟨le_trans (length_ofCoeffs_le _) ?_, le_trans (length_ofCoeffs_le _) ?_,
      le_trans (length_ofCoeffs_le _) ?_, le_trans (length_ofCoeffs_le _) ?_⟩
    · simp
    · simp [length_sub0]
    · simp [length_sub0]
    · simp [length_sub0]

/-! ### `takeDraws` -/

theorem takeDraws_none_iff (n : Nat) (ds : List Nat) : takeDraws n ds = none ↔ ds.length < n := by
  unfold takeDraws; by_cases h : ds.length < n <;> simp [h]

theorem takeDraws_some_iff (n : Nat) (ds : List Nat) (a r : List Nat) :
    takeDraws n ds = some (a, r) ↔ n ≤ ds.length ∧ a = (ds.take n).map (· % R) ∧ r = ds.drop n := by
  unfold takeDraws
  by_cases h : ds.length < n
  · simp [h]
  · simp [h, eq_comm]; omega

/-- the three successive reads of `prove` (8 wire blinders, 3 permutation blinders, 3 quotient
    blinders) succeed exactly when there are 14 draws, and partition the first 14 draws -/
theorem takeDraws_stages (ds : List Nat) (h : 14 ≤ ds.length) :
    takeDraws 8 ds = some ((ds.take 8).map (· % R), ds.drop 8) ∧
    takeDraws 3 (ds.drop 8) = some (((ds.drop 8).take 3).map (· % R), ds.drop 11) ∧
    takeDraws 3 (ds.drop 11) = some (((ds.drop 11).take 3).map (· % R), ds.drop 14) := by
  refine ⟨?_, ?_, ?_⟩ <;> rw [takeDraws_some_iff] <;> simp <;> (try omega)

theorem takeDraws_stages_inv {ds wb zb tb d1 d2 d3 : List Nat}
    (h8 : takeDraws 8 ds = some (wb, d1)) (h3 : takeDraws 3 d1 = some (zb, d2))
    (h3b : takeDraws 3 d2 = some (tb, d3)) :
    14 ≤ ds.length ∧ wb = (ds.take 8).map (· % R) ∧ zb = ((ds.drop 8).take 3).map (· % R) ∧
      tb = ((ds.drop 11).take 3).map (· % R) ∧ d3 = ds.drop 14 := by
  rw [takeDraws_some_iff] at h8 h3 h3b
  obtain ⟨l1, rfl, rfl⟩ := h8
  obtain ⟨l2, rfl, rfl⟩ := h3
  obtain ⟨l3, rfl, rfl⟩ := h3b
  simp only [List.length_drop] at l2 l3
  refine ⟨by omega, rfl, rfl, ?_, ?_⟩ <;> simp [List.drop_drop]

theorem takeDraws_fail_lt {ds : List Nat}
    (h : takeDraws 8 ds = none ∨
      (∃ wb d1, takeDraws 8 ds = some (wb, d1) ∧
        (takeDraws 3 d1 = none ∨ ∃ zb d2, takeDraws 3 d1 = some (zb, d2) ∧ takeDraws 3 d2 = none))) :
    ds.length < 14 := by
  rcases h with h | ⟨wb, d1, h8, h | ⟨zb, d2, h3, h⟩⟩
  · rw [takeDraws_none_iff] at h; omega
  · rw [takeDraws_some_iff] at h8; rw [takeDraws_none_iff] at h
    obtain ⟨_, _, rfl⟩ := h8
    simp at h; omega
  · rw [takeDraws_some_iff] at h8 h3; rw [takeDraws_none_iff] at h
    obtain ⟨_, _, rfl⟩ := h8
    obtain ⟨_, _, rfl⟩ := h3
    simp at h; omega

/-- each of the first 14 draws feeds exactly one blinding site: the blinder lists that `prove`
    passes to `blindPoly` / `splitQuotient` are consecutive slices of the draw list -/
theorem draw_sites (ds : List Nat) :
    let wb := (ds.take 8).map (· % R)
    wb.take 2 = (ds.take 2).map (· % R) ∧
    (wb.drop 2).take 2 = ((ds.drop 2).take 2).map (· % R) ∧
    (wb.drop 4).take 2 = ((ds.drop 4).take 2).map (· % R) ∧
    (wb.drop 6).take 2 = ((ds.drop 6).take 2).map (· % R) ∧
    ds.take 14 = ds.take 2 ++ (ds.drop 2).take 2 ++ (ds.drop 4).take 2 ++ (ds.drop 6).take 2
                  ++ (ds.drop 8).take 3 ++ (ds.drop 11).take 3 := by
  have e (a b : Nat) : ds.take (a + b) = ds.take a ++ (ds.drop a).take b := List.take_add
  refine ⟨?_, ?_, ?_, ?_, ?_⟩
  · simp [← List.map_take, List.take_take]
  · simp [← List.map_take, ← List.map_drop, List.take_take, List.drop_take]
  · simp [← List.map_take, ← List.map_drop, List.take_take, List.drop_take]
  · simp [← List.map_take, ← List.map_drop, List.take_take, List.drop_take]
  · rw [← e 2 2, ← e 4 2, ← e 6 2, ← e 8 3, ← e 11 3]

theorem getD_map_mod_take_drop (ds : List Nat) (a i : Nat) (hi : i < 3) (h : a + 3 ≤ ds.length) :
    (((ds.drop a).take 3).map (· % R)).getD i 0 = ds.getD (a + i) 0 % R := by
  rw [List.getD_eq_getElem?_getD, List.getD_eq_getElem?_getD, List.getElem?_map,
    List.getElem?_take_of_lt hi, List.getElem?_drop]
  rw [List.getElem?_eq_getElem (by omega)]
  simp

/-! ### `commitT`, `commit4` -/

theorem commitT_error {k : PKey} {p : Poly} {e : KErr} (h : commitT k p = .error e) :
    e = .polynomialDegreeTooLarge ∧ k.ckLen - 1 < Poly.degree p := by
  unfold commitT at h
  split at h
  · next hgt => cases h; exact ⟨rfl, hgt⟩
  · cases h

theorem commitT_error' {k : PKey} {p : Poly} {e : KErr} (h : commitT k p = .error e) :
    PErr.commit e = PErr.commit .polynomialDegreeTooLarge := by
  rw [(commitT_error h).1]

theorem commit4_error {k : PKey} {a b c d : Poly} {e : PErr} (h : commit4 k a b c d = .error e) :
    e = .commit .polynomialDegreeTooLarge := by
  unfold commit4 at h
  split at h
  · cases h
  all_goals
    cases h
    exact commitT_error' (by assumption)

theorem degree_le_length (p : Poly) : Poly.degree p ≤ p.length - 1 := by
  unfold Poly.degree
  have := length_trim_le p
  omega

/-- the degree guard of `CommitKey::commit` accepts every coefficient list not longer than the key -/
theorem commitT_ok_of_length {k : PKey} {p : Poly} (h : p.length ≤ k.ckLen) :
    commitT k p = .ok (G1.smul (Poly.evaluate (Poly.trim p) k.x) k.g) := by
  unfold commitT
  have := degree_le_length p
  rw [if_neg (by omega)]

theorem commit4_ok_of_length {k : PKey} {a b c d : Poly} (ha : a.length ≤ k.ckLen)
    (hb : b.length ≤ k.ckLen) (hc : c.length ≤ k.ckLen) (hd : d.length ≤ k.ckLen) :
    ∃ r, commit4 k a b c d = .ok r := by
  unfold commit4
  rw [commitT_ok_of_length ha, commitT_ok_of_length hb, commitT_ok_of_length hc,
    commitT_ok_of_length hd]
  exact ⟨_, rfl⟩

/-! ### the opening identity of `aggregateWitness` -/

/-- `W·(X − z) = Σ_j v^j (p_j − p_j(z))` for the aggregate witness `W` the prover commits to -/
theorem opening_identity (ps : List Poly) (z v : Nat) :
    toPoly (aggregateWitness ps z v) * (X - C (toF z))
      = ∑ j ∈ Finset.range ps.length,
          C (toF v ^ j) * (toPoly (ps.getD j []) - C (toF (Poly.evaluate (ps.getD j []) z))) := by
  have h := aggregateWitness_quot ps z v
  rw [eval_agg] at h
  have h' : toPoly (aggregateWitness ps z v) * (X - C (toF z))
      = agg (toF v) ps.length (fun j => toPoly (ps.getD j []))
        - C (agg (toF v) ps.length (fun j => (toPoly (ps.getD j [])).eval (toF z))) := by
    rw [eq_sub_iff_add_eq]; exact h.symm
  rw [h']
  simp only [agg, smul_eq_C_mul, smul_eq_mul, evaluate_spec, mul_sub, Finset.sum_sub_distrib]
  congr 1
  rw [map_sum]
  apply Finset.sum_congr rfl
  intro j _
  rw [C_mul]

theorem ruffini_length_le (p : Poly) (z : Nat) : (Poly.ruffini p z).length ≤ p.length - 1 := by
  unfold Poly.ruffini
  have key : ∀ (l : List Nat) (acc : List Nat × Nat),
      (l.foldl (fun (acc : List Nat × Nat) c => (fadd c acc.2 :: acc.1, fmul z (fadd c acc.2))) acc).1.length
        = acc.1.length + l.length := by
    intro l
    induction l with
    | nil => intro acc; simp
    | cons c cs ih => intro acc; rw [List.foldl_cons, ih]; simp; omega
  have := key p.reverse ([], 0)
  simp only [List.length_nil, List.length_reverse, Nat.zero_add] at this
  refine le_trans (length_ofCoeffs_le _) ?_
  rw [List.length_tail]
  exact le_of_eq (by rw [← this])

theorem foldl_max_le (ps : List Poly) (L : Nat) (h : ∀ p ∈ ps, p.length ≤ L) :
    ∀ m0, m0 ≤ L → ps.foldl (fun m p => max m p.length) m0 ≤ L := by
  induction ps with
  | nil => intro m0 h0; simpa using h0
  | cons q qs ih =>
    intro m0 h0
    rw [List.foldl_cons]
    exact ih (fun p hp => h p (List.mem_cons_of_mem _ hp)) _
      (max_le h0 (h q (by simp)))

theorem aggregate_fold_length (v : Nat) (polys : List Poly) :
    ∀ (c0 : List Nat) (w : Nat),
    (polys.foldl (fun (acc : List Nat × Nat) p =>
        (Poly.zipOnto (fun c t => fadd c (fmul t acc.2)) acc.1 p, fmul acc.2 v)) (c0, w)).1.length
      = c0.length := by
  induction polys with
  | nil => intro c0 w; rfl
  | cons p ps ih => intro c0 w; rw [List.foldl_cons, ih, length_zipOnto]

/-- the aggregate witness is one coefficient shorter than the longest aggregated polynomial -/
theorem aggregateWitness_length_le (ps : List Poly) (z v L : Nat) (h : ∀ p ∈ ps, p.length ≤ L) :
    (aggregateWitness ps z v).length ≤ L - 1 := by
  unfold aggregateWitness
  split
  · simp
  · dsimp only
    refine le_trans (ruffini_length_le _ _) (Nat.sub_le_sub_right
      (le_trans (length_ofCoeffs_le _) ?_) 1)
    rw [aggregate_fold_length, List.length_replicate]
    exact foldl_max_le ps L h 0 (Nat.zero_le _)


/-! ### `prove` as a function of its draw list

  `prove` is a large definition; it is never unfolded on both sides of a defeq check here.  The
  three `takeDraws` results are substituted by `simp -zeta only`, and the remaining chain of
  `match`es is walked one `match` at a time (`split` / `extract_lets`). -/

/-- one step at a time through the `match` chain of `prove` in hypothesis `h` -/
macro "walk_prove" h:ident : tactic => `(tactic|
  repeat' first
    | split at $h:ident
    | extract_lets at $h:ident
    | (cases $h:ident; done))

/-- the result of `prove` depends on the draw list only through the three reads -/
theorem prove_congr_draws (k : PKey) (c : Composer) (v3 : Bool) (ds ds' : List Nat)
    {wb zb tb d1 d1' d2 d2' d3 d3' : List Nat}
    (h8 : takeDraws 8 ds = some (wb, d1)) (h8' : takeDraws 8 ds' = some (wb, d1'))
    (h3 : takeDraws 3 d1 = some (zb, d2)) (h3' : takeDraws 3 d1' = some (zb, d2'))
    (h3b : takeDraws 3 d2 = some (tb, d3)) (h3b' : takeDraws 3 d2' = some (tb, d3')) :
    prove k c ds v3 = prove k c ds' v3 := by
  simp -zeta only [prove, h8, h8', h3, h3', h3b, h3b']

/-- the restated private helper `wcol` of `prove`: a wire column on the padded domain -/
def wireCol (k : PKey) (c : Composer) (f : RowVals → Nat) : List Nat :=
  (List.range k.n).map fun i => f (c.rowVals i)

set_option maxRecDepth 8192 in
set_option maxHeartbeats 400000 in
/-- when the three reads succeed and `prove` succeeds: 14 draws used, and every opened wire /
    permutation evaluation is an evaluation of the corresponding blinded polynomial -/
theorem prove_ok_aux (k : PKey) (c : Composer) (v3 : Bool) (ds : List Nat) (tr : ProveTrace)
    {wb zb tb d1 d2 d3 : List Nat}
    (h8 : takeDraws 8 ds = some (wb, d1))
    (h3 : takeDraws 3 d1 = some (zb, d2))
    (h3b : takeDraws 3 d2 = some (tb, d3))
    (h : prove k c ds v3 = .ok tr) :
    tr.drawsUsed = 14 ∧
    ∃ d perm, Domain.new? k.constraints = some d ∧
      permVec d.size d.elements (wireCol k c (·.a)) (wireCol k c (·.b)) (wireCol k c (·.c))
        (wireCol k c (·.d)) ((List.range 4).map fun i => d.fft (k.sigma.getD i []))
        tr.ch.beta tr.ch.gamma = some perm ∧
      tr.proof.ev.a = Poly.evaluate (blindPoly d (wireCol k c (·.a)) (wb.take 2)) tr.ch.z ∧
      tr.proof.ev.b = Poly.evaluate (blindPoly d (wireCol k c (·.b)) ((wb.drop 2).take 2)) tr.ch.z ∧
      tr.proof.ev.c = Poly.evaluate (blindPoly d (wireCol k c (·.c)) ((wb.drop 4).take 2)) tr.ch.z ∧
      tr.proof.ev.d = Poly.evaluate (blindPoly d (wireCol k c (·.d)) ((wb.drop 6).take 2)) tr.ch.z ∧
      tr.proof.ev.aw = Poly.evaluate (blindPoly d (wireCol k c (·.a)) (wb.take 2))
        (fmul tr.ch.z d.groupGen) ∧
      tr.proof.ev.bw = Poly.evaluate (blindPoly d (wireCol k c (·.b)) ((wb.drop 2).take 2))
        (fmul tr.ch.z d.groupGen) ∧
      tr.proof.ev.dw = Poly.evaluate (blindPoly d (wireCol k c (·.d)) ((wb.drop 6).take 2))
        (fmul tr.ch.z d.groupGen) ∧
      tr.proof.ev.z = Poly.evaluate (blindPoly d perm zb) (fmul tr.ch.z d.groupGen) := by
  simp -zeta only [prove, h8, h3, h3b] at h
  split at h
  · cases h
  split at h
  swap
  · cases h
  rename_i d d8 hd hd8
  extract_lets at h
  split at h
  · cases h
  extract_lets at h
  split at h
  · cases h
  rename_i perm hperm
  walk_prove h
  cases h
  refine ⟨rfl, d, perm, hd, ?_, ?_⟩
  · exact hperm
  · exact ⟨rfl, rfl, rfl, rfl, rfl, rfl, rfl, rfl⟩


set_option maxRecDepth 8192 in
set_option maxHeartbeats 400000 in
theorem prove_ne_notEnough (k : PKey) (c : Composer) (v3 : Bool) (ds : List Nat)
    {wb zb tb d1 d2 d3 : List Nat}
    (h8 : takeDraws 8 ds = some (wb, d1))
    (h3 : takeDraws 3 d1 = some (zb, d2))
    (h3b : takeDraws 3 d2 = some (tb, d3))
    (h : prove k c ds v3 = .error .notEnoughDraws) : False := by
  simp -zeta only [prove, h8, h3, h3b] at h
  walk_prove h
  all_goals
    rename_i he
    rw [commit4_error he] at h
    cases h

set_option maxHeartbeats 400000 in
theorem prove_fail8 (k : PKey) (c : Composer) (v3 : Bool) (ds : List Nat) (tr : ProveTrace)
    (h8 : takeDraws 8 ds = none)
    (h : prove k c ds v3 = .ok tr) : False := by
  simp -zeta only [prove, h8] at h
  walk_prove h

set_option maxHeartbeats 400000 in
theorem prove_fail11 (k : PKey) (c : Composer) (v3 : Bool) (ds : List Nat) (tr : ProveTrace)
    {wb d1 : List Nat}
    (h8 : takeDraws 8 ds = some (wb, d1))
    (h3 : takeDraws 3 d1 = none)
    (h : prove k c ds v3 = .ok tr) : False := by
  simp -zeta only [prove, h8, h3] at h
  walk_prove h

set_option maxHeartbeats 400000 in
theorem prove_fail14 (k : PKey) (c : Composer) (v3 : Bool) (ds : List Nat) (tr : ProveTrace)
    {wb zb d1 d2 : List Nat}
    (h8 : takeDraws 8 ds = some (wb, d1))
    (h3 : takeDraws 3 d1 = some (zb, d2))
    (h3b : takeDraws 3 d2 = none)
    (h : prove k c ds v3 = .ok tr) : False := by
  simp -zeta only [prove, h8, h3, h3b] at h
  walk_prove h

/-- a successful `prove` has read all three blinder groups -/
theorem prove_ok_reads {k : PKey} {c : Composer} {v3 : Bool} {ds : List Nat} {tr : ProveTrace}
    (h : prove k c ds v3 = .ok tr) : 14 ≤ ds.length := by
  by_contra hlt
  rcases h8 : takeDraws 8 ds with _ | ⟨wb, d1⟩
  · exact prove_fail8 k c v3 ds tr h8 h
  rcases h3 : takeDraws 3 d1 with _ | ⟨zb, d2⟩
  · exact prove_fail11 k c v3 ds tr h8 h3 h
  rcases h3b : takeDraws 3 d2 with _ | ⟨tb, d3⟩
  · exact prove_fail14 k c v3 ds tr h8 h3 h3b h
  · exact hlt (takeDraws_stages_inv h8 h3 h3b).1

theorem prove_ok_drawsUsed {k : PKey} {c : Composer} {v3 : Bool} {ds : List Nat} {tr : ProveTrace}
    (h : prove k c ds v3 = .ok tr) : tr.drawsUsed = 14 := by
  obtain ⟨h8, h3, h3b⟩ := takeDraws_stages ds (prove_ok_reads h)
  exact (prove_ok_aux k c v3 ds tr h8 h3 h3b h).1

/-- `NotEnoughDraws` is reported only when fewer than 14 draws are available -/
theorem prove_notEnoughDraws_lt {k : PKey} {c : Composer} {v3 : Bool} {ds : List Nat}
    (h : prove k c ds v3 = .error .notEnoughDraws) : ds.length < 14 := by
  by_contra hlt
  obtain ⟨h8, h3, h3b⟩ := takeDraws_stages ds (by omega)
  exact prove_ne_notEnough k c v3 ds h8 h3 h3b h

/-- the result depends only on the first 14 draws (reduced mod `R`) -/
theorem prove_first_14 (k : PKey) (c : Composer) (v3 : Bool) (ds ds' : List Nat)
    (h : 14 ≤ ds.length) (h' : 14 ≤ ds'.length)
    (heq : (ds.take 14).map (· % R) = (ds'.take 14).map (· % R)) :
    prove k c ds v3 = prove k c ds' v3 := by
  obtain ⟨h8, h3, h3b⟩ := takeDraws_stages ds h
  obtain ⟨h8', h3', h3b'⟩ := takeDraws_stages ds' h'
  have e1 : (ds.take 8).map (· % R) = (ds'.take 8).map (· % R) := by
    have := congrArg (List.take 8) heq
    simpa [← List.map_take, List.take_take] using this
  have e2 : ((ds.drop 8).take 3).map (· % R) = ((ds'.drop 8).take 3).map (· % R) := by
    have := congrArg (fun l => (l.drop 8).take 3) heq
    simpa [← List.map_take, ← List.map_drop, List.take_take, List.drop_take] using this
  have e3 : ((ds.drop 11).take 3).map (· % R) = ((ds'.drop 11).take 3).map (· % R) := by
    have := congrArg (fun l => (l.drop 11).take 3) heq
    simpa [← List.map_take, ← List.map_drop, List.take_take, List.drop_take] using this
  rw [e1] at h8; rw [e2] at h3; rw [e3] at h3b
  exact prove_congr_draws k c v3 ds ds' h8 h8' h3 h3' h3b h3b'

theorem prove_append (k : PKey) (c : Composer) (v3 : Bool) (ds extra : List Nat)
    (h : ds.length = 14) : prove k c (ds ++ extra) v3 = prove k c ds v3 := by
  apply prove_first_14 k c v3 _ _ (by simp; omega) (by omega)
  rw [List.take_append_of_le_length (by omega)]

/-! ### capacity of the trimmed commit key -/

theorem nextPow2_go_eq (n : Nat) : ∀ f p, nextPow2.go n f p = nextPow2'.go n f p := by
  intro f
  induction f with
  | zero => intro p; rfl
  | succ f ih => intro p; unfold nextPow2.go nextPow2'.go; rw [ih]

theorem nextPow2_eq (n : Nat) : nextPow2 n = nextPow2' n := nextPow2_go_eq n 64 1

theorem nextPow2_mono {n n' : Nat} (h : n ≤ n') : nextPow2 n ≤ nextPow2 n' := by
  rw [nextPow2_eq, nextPow2_eq]; exact nextPow2'_mono h

theorem truncateLen_ok_iff (len d ck : Nat) :
    truncateLen len d = .ok ck ↔
      d ≠ 0 ∧ d ≤ len - 1 ∧ ck = min len ((if d = 1 then 2 else d) + 1) := by
  unfold truncateLen
  by_cases h0 : d = 0
  · simp [h0]
  · by_cases h1 : d > len - 1
    · simp [h0, h1]
    · simp only [beq_iff_eq, h0, if_false, h1, Except.ok.injEq, ne_eq, not_false_eq_true,
        true_and]
      constructor
      · rintro rfl; exact ⟨by omega, rfl⟩
      · rintro ⟨_, rfl⟩; rfl

theorem truncateLen_tooLarge_iff (len d : Nat) :
    truncateLen len d = .error .truncatedDegreeTooLarge ↔ d ≠ 0 ∧ d > len - 1 := by
  unfold truncateLen
  by_cases h0 : d = 0
  · simp [h0]
  · by_cases h1 : d > len - 1
    · simp [h0, h1]
    · simp [h0, h1]

/-- **capacity**: the key the compiler trims to holds `nextPow2 c + 7` coefficients, for every
    constraint count `c` -/
theorem capacity (c srsLen ckLen : Nat)
    (h : truncateLen srsLen (nextPow2 (c + Generated.CIRCUIT_SIZE_PADDING)
          + Generated.ADDED_BLINDING_DEGREE) = .ok ckLen) :
    ckLen = nextPow2 (c + Generated.CIRCUIT_SIZE_PADDING) + 7 ∧ nextPow2 c + 7 ≤ ckLen := by
  rw [truncateLen_ok_iff] at h
  obtain ⟨_, h1, h2⟩ := h
  have hm := nextPow2_mono (Nat.le_add_right c Generated.CIRCUIT_SIZE_PADDING)
  rw [blinding_eq] at h1 h2
  generalize nextPow2 (c + Generated.CIRCUIT_SIZE_PADDING) = m at *
  have : ¬ (m + 6 = 1) := by omega
  rw [if_neg this] at h2
  omega

/-! ### `compile` and the trimmed key -/

set_option maxHeartbeats 400000 in
theorem compile_tooLarge_imp (srs : SRS) (srsLen : Nat) (label : List Nat) (c : Composer)
    (h : compile srs srsLen label c = .error (.compile .truncatedDegreeTooLarge)) :
    nextPow2 (c.gates.size + Generated.CIRCUIT_SIZE_PADDING) + Generated.ADDED_BLINDING_DEGREE
      > srsLen - 1 := by
  simp -zeta only [compile] at h
  walk_prove h
  all_goals
    rename_i he
    first
    | (cases h; exact ((truncateLen_tooLarge_iff _ _).1 he).2)
    | (have := commit4_error he; cases this; cases h)

set_option maxHeartbeats 400000 in
theorem compile_tooLarge_of (srs : SRS) (srsLen : Nat) (label : List Nat) (c : Composer)
    (h : nextPow2 (c.gates.size + Generated.CIRCUIT_SIZE_PADDING) + Generated.ADDED_BLINDING_DEGREE
      > srsLen - 1) :
    compile srs srsLen label c = .error (.compile .truncatedDegreeTooLarge) := by
  have hT := (truncateLen_tooLarge_iff srsLen _).2 ⟨by rw [blinding_eq]; omega, h⟩
  simp only [compile, hT]

set_option maxHeartbeats 400000 in
/-- what a successful compilation records in the prover key -/
theorem compile_ok (srs : SRS) (srsLen : Nat) (label : List Nat) (c : Composer) (k : PKey)
    (h : compile srs srsLen label c = .ok k) :
    truncateLen srsLen (nextPow2 (c.gates.size + Generated.CIRCUIT_SIZE_PADDING)
        + Generated.ADDED_BLINDING_DEGREE) = .ok k.ckLen ∧
    k.constraints = c.gates.size ∧ k.x = srs.x ∧ k.g = srs.g ∧
    ∃ d, Domain.new? (nextPow2 c.gates.size - 1) = some d ∧ k.n = d.size := by
  simp -zeta only [compile] at h
  extract_lets at h
  split at h
  · cases h
  rename_i ckLen hck
  split at h
  · cases h
  rename_i d hd
  walk_prove h
  cases h
  exact ⟨hck, rfl, rfl, rfl, d, hd, rfl⟩

theorem Domain.new?_size_eq {m : Nat} {d : Domain} (h : Domain.new? m = some d) :
    d.size = nextPow2' m := by
  unfold Domain.new? at h
  extract_lets size lg at h
  split at h
  · cases h
  · injection h with h; subst h; rfl

/-- the key of a compiled circuit holds `n + 7` coefficients, `n` the size of the prover's domain -/
theorem compiled_key_capacity {srs : SRS} {srsLen : Nat} {label : List Nat} {c : Composer}
    {k : PKey} (h : compile srs srsLen label c = .ok k) {d : Domain}
    (hd : Domain.new? k.constraints = some d) : d.size + 7 ≤ k.ckLen := by
  obtain ⟨hT, hc, _⟩ := compile_ok srs srsLen label c k h
  rw [Domain.new?_size_eq hd, hc, ← nextPow2_eq]
  exact (capacity _ _ _ hT).2

/-! ### openings of a proof in mask form -/

theorem take_drop_two (ds : List Nat) (a : Nat) (h : a + 2 ≤ ds.length) :
    (ds.drop a).take 2 = [ds.getD a 0, ds.getD (a + 1) 0] := by
  rw [List.drop_eq_getElem_cons (show a < ds.length by omega),
    List.drop_eq_getElem_cons (show a + 1 < ds.length by omega),
    List.getD_eq_getElem _ _ (show a < ds.length by omega),
    List.getD_eq_getElem _ _ (show a + 1 < ds.length by omega)]
  rfl

theorem take_drop_three (ds : List Nat) (a : Nat) (h : a + 3 ≤ ds.length) :
    (ds.drop a).take 3 = [ds.getD a 0, ds.getD (a + 1) 0, ds.getD (a + 2) 0] := by
  rw [List.drop_eq_getElem_cons (show a < ds.length by omega),
    List.drop_eq_getElem_cons (show a + 1 < ds.length by omega),
    List.drop_eq_getElem_cons (show a + 1 + 1 < ds.length by omega),
    List.getD_eq_getElem _ _ (show a < ds.length by omega),
    List.getD_eq_getElem _ _ (show a + 1 < ds.length by omega),
    List.getD_eq_getElem _ _ (show a + 2 < ds.length by omega)]
  rfl

/-- mask of a wire polynomial: `(b₁ + b₂X)(Xⁿ − 1)` evaluated at `x` -/
def mask2 (n : Nat) (b1 b2 : Nat) (x : F) : F := (toF b1 + toF b2 * x) * (x ^ n - 1)
/-- mask of the permutation polynomial: `(b₁ + b₂X + b₃X²)(Xⁿ − 1)` evaluated at `x` -/
def mask3 (n : Nat) (b1 b2 b3 : Nat) (x : F) : F :=
  (toF b1 + toF b2 * x + toF b3 * x ^ 2) * (x ^ n - 1)

theorem blindPoly_eval2 (d : Domain) (hd : d.WF) (w : List Nat) (b1 b2 z : Nat) :
    toF (Poly.evaluate (blindPoly d w [b1 % R, b2 % R]) z)
      = (toPoly (Poly.ofCoeffs (d.ifft w))).eval (toF z) + mask2 d.size b1 b2 (toF z) := by
  rw [blindPoly_eval d hd, evaluate_spec]
  simp only [mask2, toPoly_cons, toPoly_nil, toF_mod, eval_add, eval_mul, eval_C, eval_X,
    mul_zero, add_zero]
  ring

theorem blindPoly_eval3 (d : Domain) (hd : d.WF) (w : List Nat) (b1 b2 b3 z : Nat) :
    toF (Poly.evaluate (blindPoly d w [b1 % R, b2 % R, b3 % R]) z)
      = (toPoly (Poly.ofCoeffs (d.ifft w))).eval (toF z) + mask3 d.size b1 b2 b3 (toF z) := by
  rw [blindPoly_eval d hd, evaluate_spec]
  simp only [mask3, toPoly_cons, toPoly_nil, toF_mod, eval_add, eval_mul, eval_C, eval_X,
    mul_zero, add_zero]
  ring

/-- **every opening of a proof is the unmasked value plus the prescribed mask**, the 11 masking
    scalars involved being the draws number 0..10 of the caller's RNG, each used at one site -/
theorem prove_openings_masked {k : PKey} {c : Composer} {v3 : Bool} {ds : List Nat}
    {tr : ProveTrace} (h : prove k c ds v3 = .ok tr) :
    ∃ d perm, Domain.new? k.constraints = some d ∧
      permVec d.size d.elements (wireCol k c (·.a)) (wireCol k c (·.b)) (wireCol k c (·.c))
        (wireCol k c (·.d)) ((List.range 4).map fun i => d.fft (k.sigma.getD i []))
        tr.ch.beta tr.ch.gamma = some perm ∧
      let n := d.size
      let z : F := toF tr.ch.z
      let zw : F := toF tr.ch.z * toF d.groupGen
      let u (w : List Nat) (x : F) : F := (toPoly (Poly.ofCoeffs (d.ifft w))).eval x
      let b (i : Nat) : Nat := ds.getD i 0
      toF tr.proof.ev.a = u (wireCol k c (·.a)) z + mask2 n (b 0) (b 1) z ∧
      toF tr.proof.ev.b = u (wireCol k c (·.b)) z + mask2 n (b 2) (b 3) z ∧
      toF tr.proof.ev.c = u (wireCol k c (·.c)) z + mask2 n (b 4) (b 5) z ∧
      toF tr.proof.ev.d = u (wireCol k c (·.d)) z + mask2 n (b 6) (b 7) z ∧
      toF tr.proof.ev.aw = u (wireCol k c (·.a)) zw + mask2 n (b 0) (b 1) zw ∧
      toF tr.proof.ev.bw = u (wireCol k c (·.b)) zw + mask2 n (b 2) (b 3) zw ∧
      toF tr.proof.ev.dw = u (wireCol k c (·.d)) zw + mask2 n (b 6) (b 7) zw ∧
      toF tr.proof.ev.z = u perm zw + mask3 n (b 8) (b 9) (b 10) zw := by
  have hlen := prove_ok_reads h
  obtain ⟨h8, h3, h3b⟩ := takeDraws_stages ds hlen
  obtain ⟨_, d, perm, hd, hperm, ea, eb, ec, ed, eaw, ebw, edw, ez⟩ :=
    prove_ok_aux k c v3 ds tr h8 h3 h3b h
  obtain ⟨s1, s2, s3, s4, _⟩ := draw_sites ds
  rw [s1] at ea eaw
  rw [s2] at eb ebw
  rw [s3] at ec
  rw [s4] at ed edw
  have t0 := take_drop_two ds 0 (by omega)
  rw [List.drop_zero] at t0
  rw [t0] at ea eaw
  rw [take_drop_two ds 2 (by omega)] at eb ebw
  rw [take_drop_two ds 4 (by omega)] at ec
  rw [take_drop_two ds 6 (by omega)] at ed edw
  rw [take_drop_three ds 8 (by omega)] at ez
  have hwf := Domain.new?_WF _ d hd
  refine ⟨d, perm, hd, hperm, ?_⟩
  simp only [List.map_cons, List.map_nil] at ea eb ec ed eaw ebw edw ez
  refine ⟨?_, ?_, ?_, ?_, ?_, ?_, ?_, ?_⟩
  · rw [ea]; exact blindPoly_eval2 d hwf _ _ _ _
  · rw [eb]; exact blindPoly_eval2 d hwf _ _ _ _
  · rw [ec]; exact blindPoly_eval2 d hwf _ _ _ _
  · rw [ed]; exact blindPoly_eval2 d hwf _ _ _ _
  · rw [eaw, ← toF_fmul]; exact blindPoly_eval2 d hwf _ _ _ _
  · rw [ebw, ← toF_fmul]; exact blindPoly_eval2 d hwf _ _ _ _
  · rw [edw, ← toF_fmul]; exact blindPoly_eval2 d hwf _ _ _ _
  · rw [ez, ← toF_fmul]; exact blindPoly_eval3 d hwf _ _ _ _ _

/-! ### every polynomial the prover commits to fits the trimmed key -/

theorem commitments_fit (k : PKey) (d : Domain) (hd : d.WF) (hcap : d.size + 7 ≤ k.ckLen) :
    (∀ w bs : List Nat, bs.length ≤ 7 → ∃ g, commitT k (blindPoly d w bs) = .ok g) ∧
    (∀ (t : Poly) (b12 b13 b14 : Nat) (tl tm th tf : Poly),
      splitQuotient d.size t b12 b13 b14 = some (tl, tm, th, tf) → t.length ≤ 4 * d.size + 7 →
      ∃ r, commit4 k tl tm th tf = .ok r) ∧
    (∀ (ps : List Poly) (z v : Nat), (∀ p ∈ ps, p.length ≤ d.size + 8) →
      ∃ g, commitT k (aggregateWitness ps z v) = .ok g) := by
  refine ⟨fun w bs hbs => ⟨_, commitT_ok_of_length ?_⟩, fun t b12 b13 b14 tl tm th tf h ht => ?_,
    fun ps z v hps => ⟨_, commitT_ok_of_length ?_⟩⟩
  · have := blindPoly_length_le d hd w bs; omega
  · obtain ⟨l1, l2, l3, l4⟩ := splitQuotient_lengths h
    exact commit4_ok_of_length (by omega) (by omega) (by omega) (by omega)
  · have := aggregateWitness_length_le ps z v _ hps; omega

/-- evaluation form of `split_recombine`: what the linearisation uses as `t(z)` -/
theorem split_eval {n : Nat} (hn : 0 < n) {t : Poly} {b12 b13 b14 : Nat}
    {tl tm th tf : Poly} (h : splitQuotient n t b12 b13 b14 = some (tl, tm, th, tf)) (z : Nat) :
    toF (Poly.evaluate tl z) + toF z ^ n * toF (Poly.evaluate tm z)
      + toF z ^ (2 * n) * toF (Poly.evaluate th z) + toF z ^ (3 * n) * toF (Poly.evaluate tf z)
      = toF (Poly.evaluate t z) := by
  simp only [evaluate_spec]
  rw [← split_recombine hn h]
  simp

/-! ### the commitments of a proof -/

set_option maxRecDepth 8192 in
set_option maxHeartbeats 400000 in
/-- the commitments of a proof are commitments to the blinded polynomials / re-randomised shares -/
theorem prove_ok_commitments (k : PKey) (c : Composer) (v3 : Bool) (ds : List Nat) (tr : ProveTrace)
    {wb zb tb d1 d2 d3 : List Nat}
    (h8 : takeDraws 8 ds = some (wb, d1))
    (h3 : takeDraws 3 d1 = some (zb, d2))
    (h3b : takeDraws 3 d2 = some (tb, d3))
    (h : prove k c ds v3 = .ok tr) :
    ∃ d perm, Domain.new? k.constraints = some d ∧
      permVec d.size d.elements (wireCol k c (·.a)) (wireCol k c (·.b)) (wireCol k c (·.c))
        (wireCol k c (·.d)) ((List.range 4).map fun i => d.fft (k.sigma.getD i []))
        tr.ch.beta tr.ch.gamma = some perm ∧
      commit4 k (blindPoly d (wireCol k c (·.a)) (wb.take 2))
          (blindPoly d (wireCol k c (·.b)) ((wb.drop 2).take 2))
          (blindPoly d (wireCol k c (·.c)) ((wb.drop 4).take 2))
          (blindPoly d (wireCol k c (·.d)) ((wb.drop 6).take 2))
        = .ok (tr.proof.aC, tr.proof.bC, tr.proof.cC, tr.proof.dC) ∧
      commitT k (blindPoly d perm zb) = .ok tr.proof.zC ∧
      ∃ t tl tm th tf, t.length ≤ 7 * d.size ∧
        splitQuotient d.size t (tb.getD 0 0) (tb.getD 1 0) (tb.getD 2 0) = some (tl, tm, th, tf) ∧
        commit4 k tl tm th tf
          = .ok (tr.proof.tLow, tr.proof.tMid, tr.proof.tHigh, tr.proof.tFourth) := by
  simp -zeta only [prove, h8, h3, h3b] at h
  split at h
  · cases h
  split at h
  swap
  · cases h
  rename_i d d8 hd hd8
  extract_lets at h
  split at h
  · cases h
  rename_i aC bC cC dC hc4
  extract_lets at h
  split at h
  · cases h
  rename_i perm hperm
  extract_lets at h
  split at h
  · cases h
  rename_i zC hzC
  extract_lets at h
  split at h
  · cases h
  rename_i hlen
  split at h
  · cases h
  rename_i tl tm th tf hsq
  split at h
  · cases h
  rename_i tlC tmC thC tfC hc4b
  walk_prove h
  cases h
  exact ⟨d, perm, hd, hperm, hc4, hzC, _, tl, tm, th, tf, Nat.le_of_not_lt hlen, hsq, hc4b⟩

/-- the same with the blinders named by their position in the draw list: all 14 draws, each at one
    site -/
theorem prove_commitments_blinded {k : PKey} {c : Composer} {v3 : Bool} {ds : List Nat}
    {tr : ProveTrace} (h : prove k c ds v3 = .ok tr) :
    ∃ d perm, Domain.new? k.constraints = some d ∧
      permVec d.size d.elements (wireCol k c (·.a)) (wireCol k c (·.b)) (wireCol k c (·.c))
        (wireCol k c (·.d)) ((List.range 4).map fun i => d.fft (k.sigma.getD i []))
        tr.ch.beta tr.ch.gamma = some perm ∧
      let b (i : Nat) : Nat := ds.getD i 0 % R
      commit4 k (blindPoly d (wireCol k c (·.a)) [b 0, b 1])
          (blindPoly d (wireCol k c (·.b)) [b 2, b 3])
          (blindPoly d (wireCol k c (·.c)) [b 4, b 5])
          (blindPoly d (wireCol k c (·.d)) [b 6, b 7])
        = .ok (tr.proof.aC, tr.proof.bC, tr.proof.cC, tr.proof.dC) ∧
      commitT k (blindPoly d perm [b 8, b 9, b 10]) = .ok tr.proof.zC ∧
      ∃ t tl tm th tf, t.length ≤ 7 * d.size ∧
        splitQuotient d.size t (b 11) (b 12) (b 13) = some (tl, tm, th, tf) ∧
        commit4 k tl tm th tf
          = .ok (tr.proof.tLow, tr.proof.tMid, tr.proof.tHigh, tr.proof.tFourth) := by
  have hlen := prove_ok_reads h
  obtain ⟨h8, h3, h3b⟩ := takeDraws_stages ds hlen
  obtain ⟨d, perm, hd, hperm, hc, hz, t, tl, tm, th, tf, ht, hsq, hq⟩ :=
    prove_ok_commitments k c v3 ds tr h8 h3 h3b h
  obtain ⟨s1, s2, s3, s4, _⟩ := draw_sites ds
  rw [s1, s2, s3, s4] at hc
  have t0 := take_drop_two ds 0 (by omega)
  rw [List.drop_zero] at t0
  rw [t0, take_drop_two ds 2 (by omega), take_drop_two ds 4 (by omega),
    take_drop_two ds 6 (by omega)] at hc
  rw [take_drop_three ds 8 (by omega)] at hz
  rw [getD_map_mod_take_drop ds 11 0 (by omega) (by omega),
    getD_map_mod_take_drop ds 11 1 (by omega) (by omega),
    getD_map_mod_take_drop ds 11 2 (by omega) (by omega)] at hsq
  exact ⟨d, perm, hd, hperm, hc, hz, t, tl, tm, th, tf, ht, hsq, hq⟩

/-- trapdoor view of a successful commitment -/
theorem commitT_ok_val {k : PKey} {p : Poly} {g : G1} (h : commitT k p = .ok g) :
    g = G1.smul (Poly.evaluate (Poly.trim p) k.x) k.g := by
  unfold commitT at h
  split at h
  · cases h
  · cases h; rfl

end ProverMask
end Plonk
