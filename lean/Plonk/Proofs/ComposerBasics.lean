/-
  Basic facts about the composer state machine: what each primitive does to the state.
-/
import Plonk.Proofs.RowBridge

namespace Plonk
open Plonk Plonk.Composer

namespace Composer

@[simp] theorem appendWitness_run (v : Nat) (c : Composer) :
    (appendWitness v).run c = (c.wit.size, { c with wit := c.wit.push (v % R) }) := rfl

@[simp] theorem getVal_run (w : Nat) (c : Composer) : (getVal w).run c = (c.val w, c) := rfl

@[simp] theorem appendCustomGate_run (s : Constraint) (c : Composer) :
    (appendCustomGate s).run c =
      ((), { c with gates := c.gates.push s.toGate,
                    pis := if s.hasPi then c.pis.push (c.gates.size, s.pi) else c.pis }) := rfl

@[simp] theorem appendGate_run (s : Constraint) (c : Composer) :
    (appendGate s).run c = (appendCustomGate (Constraint.arithmetic s)).run c := rfl

/-- reading a value that was just pushed -/
theorem val_push_self (c : Composer) (v : Nat) :
    ({ c with wit := c.wit.push v } : Composer).val c.wit.size = v := by
  simp [val]

/-- pushing a witness does not change older values -/
theorem val_push_of_lt (c : Composer) (v : Nat) {w : Nat} (h : w < c.wit.size) :
    ({ c with wit := c.wit.push v } : Composer).val w = c.val w := by
  simp [val, Array.getElem?_push, Nat.ne_of_lt h]

end Composer
end Plonk
