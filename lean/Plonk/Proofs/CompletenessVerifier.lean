/-
  C01 (completeness): the verifier's side.

  * `linPoly`, `linPoly_eval` : with `Num = T·(Xⁿ − 1)`, the quotient shares recombining to `T`
    (`quotientOf ι p n = T`, what `ProverMask.split_recombine` proves of the model's
    `splitQuotient`) and TRUE evaluations, the model verifier's linearisation polynomial
    `D − u·Z` (`linearizationTerms`) takes the value `−r₀` (`r0Eval`) at the challenge point.
  * `openPolys / openEvals / openCount / openPoint / openChal` : the two aggregated openings of the
    protocol (at `z`: `D − u·Z, a, b, c, d, σ₁, σ₂, σ₃, q_arith, q_c, q_l, q_r` — the last four only in
    V2/V3 — with claimed values `−r₀, ā, …`; at `ω·z`: `Z, a, b, d`), in the shape of
    `Props/C02.forged_evaluation_rejected`.
  * `batch_check_of_true_evals` : honest witnesses and true evaluations pass the batched check in
    the trapdoor view — for EVERY `g` (no non-degeneracy needed in this direction).
  * `verifier_equation_holds` : the composition.
-/
import Plonk.Proofs.SoundnessVerifier
import Plonk.Proofs.SoundnessOpen
import Plonk.Proofs.CompletenessCore

namespace Plonk.Complete
open Polynomial Plonk Plonk.Quot Plonk.Sound
open Plonk.KzgMath (agg defect)

/-! ### the linearisation polynomial at the challenge point -/

/-- the polynomial behind `[D] − u·[z]`, the first commitment of the opening at `z` -/
noncomputable def linPoly (ι : G1 → F[X]) (k : VKey) (p : ProofM) (ch : Challenges) (zh l1 : Nat) :
    F[X] :=
  evalTerms ι (linearizationTerms k p ch zh l1) - toF ch.u • ι p.zC

/-- **the verifier's opening claim `(D − u·Z)(z) = −r₀` holds for the honest quotient** -/
theorem linPoly_eval (ι : G1 → F[X]) (k : VKey) (p : ProofM) (ch : Challenges) (zh l1 piEval : Nat)
    (ω : F) (n : ℕ) (P : ProverPolys F) (A : AgmRep ι k p P) (E : TrueEvals ω (toF ch.z) p.ev P)
    (hzh : toF zh = toF ch.z ^ n - 1) (hl1 : toF l1 = (L1P n).eval (toF ch.z))
    (hpi : toF piEval = P.pi.eval (toF ch.z)) (T : F[X]) (hq : quotientOf ι p n = T)
    (hT : NumP ω n P ⟨toF ch.beta, toF ch.gamma, toF ch.alpha⟩
      ⟨toF ch.rangeSep, toF ch.logicSep, toF ch.fixedSep, toF ch.varSep⟩ = T * (X ^ n - 1)) :
    (linPoly ι k p ch zh l1).eval (toF ch.z) = - toF (r0Eval p.ev ch l1 piEval) := by
  unfold linPoly
  rw [verifier_claim_iff_quotient_identity ι k p ch zh l1 piEval ω n P A E hzh hl1 hpi, hq]
  exact eval_of_quotient _ T hT _

/-! ### the two aggregated openings -/

/-- the polynomials opened at `z` (index `0`) and at `ω·z` (index `1`) -/
noncomputable def openPolys (D : F[X]) (P : ProverPolys F) (i j : ℕ) : F[X] :=
  if i = 0 then
    ([D, P.a, P.b, P.c, P.d, P.s1, P.s2, P.s3, P.Q.qarith, P.Q.qc, P.Q.ql, P.Q.qr] : List F[X]).getD j 0
  else ([P.z, P.a, P.b, P.d] : List F[X]).getD j 0

/-- the claimed evaluations: `−r₀` for `D − u·Z`, then the evaluations carried by the proof -/
def openEvals (r0 : F) (e : Evals) (i j : ℕ) : F :=
  if i = 0 then
    ([-r0, toF e.a, toF e.b, toF e.c, toF e.d, toF e.s1, toF e.s2, toF e.s3, toF e.qarith, toF e.qc,
      toF e.ql, toF e.qr] : List F).getD j 0
  else ([toF e.z, toF e.aw, toF e.bw, toF e.dw] : List F).getD j 0

/-- number of polynomials per point: `12` at `z` (`8` in the legacy V1 equation), `4` at `ω·z` -/
def openCount (legacy : Bool) (i : ℕ) : ℕ := if i = 0 then (if legacy then 8 else 12) else 4

/-- the two opening points -/
def openPoint (ω z : F) (i : ℕ) : F := if i = 0 then z else ω * z

/-- the two aggregation challenges -/
def openChal (v vw : F) (i : ℕ) : F := if i = 0 then v else vw

/-- every claimed evaluation of the two openings is the true one -/
theorem open_evals_true {ω z : F} {e : Evals} {P : ProverPolys F} (E : TrueEvals ω z e P) (D : F[X])
    (r0 : F) (hD : D.eval z = -r0) (legacy : Bool) :
    ∀ i < 2, ∀ j < openCount legacy i,
      openEvals r0 e i j = (openPolys D P i j).eval (openPoint ω z i) := by
  intro i hi j hj
  have hj12 : i = 0 → j < 12 := by
    intro h0
    rw [openCount, if_pos h0] at hj
    cases legacy <;> simp at hj <;> omega
  interval_cases i
  · have := hj12 rfl
    simp only [openEvals, openPolys, openPoint, if_true]
    interval_cases j
    · simp [hD]
    · simp [E.a]
    · simp [E.b]
    · simp [E.c]
    · simp [E.d]
    · simp [E.s1]
    · simp [E.s2]
    · simp [E.s3]
    · simp [E.qarith]
    · simp [E.qc]
    · simp [E.ql]
    · simp [E.qr]
  · have hj4 : j < 4 := by simpa [openCount] using hj
    simp only [openEvals, openPolys, openPoint, if_neg (by omega : ¬ (1 = 0))]
    interval_cases j
    · simp [E.z]
    · simp [E.aw]
    · simp [E.bw]
    · simp [E.dw]

/-! ### honest openings pass the batched check -/

section batch
variable {G : Type*} [AddCommGroup G] [Module F G]

/-- the accumulated check for arbitrary scalars, completeness direction: no hypothesis on `g` -/
theorem batch_check_of_zero (g : G) (x u : F) (n : ℕ) (w c z e : ℕ → F)
    (h : agg u n (fun i => (x - z i) * w i - c i + e i) = 0) :
    x • agg u n (fun i => w i • g)
        = agg u n (fun i => c i • g + z i • (w i • g)) - agg u n e • g := by
  have hh : x • agg u n (fun i => w i • g)
        - (agg u n (fun i => c i • g + z i • (w i • g)) - agg u n e • g)
      = agg u n (fun i => (x - z i) * w i - c i + e i) • g := by
    have h' : ∀ a b c' : G, a - (b - c') = a - b + c' := fun a b c' => by abel
    rw [h']
    unfold KzgMath.agg
    rw [Finset.smul_sum, Finset.sum_smul, Finset.sum_smul, ← Finset.sum_sub_distrib,
      ← Finset.sum_add_distrib]
    refine Finset.sum_congr rfl (fun i _ => ?_)
    simp only [smul_eq_mul]
    module
  rw [← sub_eq_zero, hh, h, zero_smul]

/-- **honest witnesses and true evaluations pass the batched opening check** (trapdoor view), for
    every `g`, `x`, `u`, `vᵢ` — the completeness half of `Sound.batch_open_sound` -/
theorem batch_check_of_true_evals (g : G) (x u : F) (n : ℕ) (v z : ℕ → F) (k : ℕ → ℕ)
    (p : ℕ → ℕ → F[X]) (e : ℕ → ℕ → F)
    (he : ∀ i < n, ∀ j < k i, e i j = (p i j).eval (z i)) :
    x • agg u n (fun i => KzgMath.commit x g (agg (v i) (k i) (p i) /ₘ (X - C (z i))))
        = agg u n (fun i => agg (v i) (k i) (fun j => KzgMath.commit x g (p i j))
            + z i • KzgMath.commit x g (agg (v i) (k i) (p i) /ₘ (X - C (z i))))
          - agg u n (fun i => agg (v i) (k i) (e i)) • g := by
  have hC : ∀ i, agg (v i) (k i) (fun j => KzgMath.commit x g (p i j))
      = (agg (v i) (k i) (p i)).eval x • g := fun i => by
    rw [KzgMath.commit_agg, KzgMath.commit_eval]
  simp only [hC]
  simp only [KzgMath.commit_eval]
  apply batch_check_of_zero
  have : agg u n (fun i => (x - z i) * ((agg (v i) (k i) (p i)) /ₘ (X - C (z i))).eval x
        - (agg (v i) (k i) (p i)).eval x + agg (v i) (k i) (e i)) = agg u n (fun _ => (0 : F)) := by
    refine KzgMath.agg_congr u n (fun i hi => ?_)
    rw [KzgMath.quot_eval (KzgMath.divByMonic_quot _ (z i)),
      KzgMath.agg_congr (v i) (k i) (he i hi), KzgMath.eval_agg (v i) (k i) (p i) (z i)]
    ring
  rw [this, KzgMath.agg_zero_fun]

end batch

/-! ### 4. the verification equation holds -/

/-- **`verifier_equation_holds`.**  See `Props/C01Complete.lean` for the reading. -/
theorem verifier_equation_core {G : Type*} [AddCommGroup G] [Module F G] (g : G) (x : F)
    (ι : G1 → F[X]) (k : VKey) (p : ProofM) (ch : Challenges) (zh l1 piEval : Nat)
    (ω : F) (n : ℕ) (P : ProverPolys F) (A : AgmRep ι k p P) (E : TrueEvals ω (toF ch.z) p.ev P)
    (hzh : toF zh = toF ch.z ^ n - 1) (hl1 : toF l1 = (L1P n).eval (toF ch.z))
    (hpi : toF piEval = P.pi.eval (toF ch.z)) (T : F[X]) (hq : quotientOf ι p n = T)
    (hT : NumP ω n P ⟨toF ch.beta, toF ch.gamma, toF ch.alpha⟩
      ⟨toF ch.rangeSep, toF ch.logicSep, toF ch.fixedSep, toF ch.varSep⟩ = T * (X ^ n - 1))
    (legacy : Bool) :
    let D := linPoly ι k p ch zh l1
    let r0 := toF (r0Eval p.ev ch l1 piEval)
    let v := openChal (toF ch.v) (toF ch.vw)
    let pt := openPoint ω (toF ch.z)
    let cnt := openCount legacy
    x • agg (toF ch.u) 2 (fun i =>
          KzgMath.commit x g (agg (v i) (cnt i) (openPolys D P i) /ₘ (X - C (pt i))))
      = agg (toF ch.u) 2 (fun i =>
            agg (v i) (cnt i) (fun j => KzgMath.commit x g (openPolys D P i j))
            + pt i • KzgMath.commit x g (agg (v i) (cnt i) (openPolys D P i) /ₘ (X - C (pt i))))
          - agg (toF ch.u) 2 (fun i => agg (v i) (cnt i) (openEvals r0 p.ev i)) • g := by
  intro D r0 v pt cnt
  exact batch_check_of_true_evals g x (toF ch.u) 2 v pt cnt (openPolys D P) (openEvals r0 p.ev)
    (open_evals_true E D r0
      (linPoly_eval ι k p ch zh l1 piEval ω n P A E hzh hl1 hpi T hq hT) legacy)

end Plonk.Complete
