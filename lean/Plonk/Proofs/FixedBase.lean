/-
  C14 — glue for `fixed_base.rs`: `assert_canonical_jubjub_scalar`,
  `append_fixed_base_signed_digits`, `component_mul_generator`.

  * canonical-scalar gadget: explicit states, framing, soundness and completeness,
  * the fixed-base ladder: explicit output state `fbOut`, the meaning of every emitted row
    (`fb_rows_iff`), digit extraction and the no-wrap argument, point accumulation, and the
    group-law corollary (the returned point is `[s]G`; associativity of the addition law is
    proved in `EdwardsAssoc.lean`, so no hypothesis structure is needed),
  * completeness for the model's own witness table (any admissible digit vector, in particular
    the width-2 NAF),
  * the host-side decision logic of `component_mul_generator`.
-/
import Plonk.Proofs.Range
import Plonk.Proofs.Arith
import Plonk.Proofs.ScalarMath
import Plonk.Proofs.FixedBaseRows

namespace Plonk
open Plonk Plonk.Composer

namespace Composer

/-! ### well-formedness through the pieces used here -/

theorem wf_of_extends_new {c c' : Composer} (h : WF c) (hext : Extends c c')
    (hnew : ∀ i, c.wit.size ≤ i → c'.val i < R) (hpi : PiFresh c') : WF c' := by
  refine ⟨fun i => ?_, hpi⟩
  by_cases hi : i < c.wit.size
  · rw [hext.val_eq hi]; exact h.val_lt i
  · exact hnew i (by omega)

theorem rangeCheck_wf_even (c : Composer) (x n : Nat) (hn : n % 2 = 0) (h : WF c) :
    WF ((rangeCheck x n).run c).2 := by
  refine wf_of_extends_new h (rangeCheck_extends c x n) ?_ (rangeCheck_piFresh c x n h.pis_zero)
  intro i hi
  by_cases h2 : i < c.wit.size + n / 2
  · obtain ⟨j, rfl⟩ : ∃ j, i = c.wit.size + j := ⟨i - c.wit.size, by omega⟩
    rw [rangeCheck_even_eq x n hn, rangeCheckEven_val_new c x n hn (by omega)]
    exact Nat.mod_lt _ R_pos
  · rw [val_of_size_le]
    · exact R_pos
    · rw [rangeCheck_wit_size]; unfold rangeWitCount; rw [if_pos hn]; omega

/-! ### `assert_canonical_jubjub_scalar`

  All intermediate states carry the width `n` as a parameter (instantiated with
  `JUBJUB_SCALAR_BITS` only in the final statements): with a literal width the unifier would
  evaluate the range check symbolically. -/

theorem scalar_bits_even : JUBJUB_SCALAR_BITS % 2 = 0 := by decide
theorem scalar_bits_le : JUBJUB_SCALAR_BITS ≤ 254 := by decide

/-- the constraint of the distance gate: `dist = (r_J − 1) − scalar` -/
def distC (s : Nat) : Constraint := { ql := R - 1, a := s, qc := (RJ - 1) % R }

/-- `assert_canonical_jubjub_scalar` with the width as a parameter -/
def canonM (n s : Nat) : CM Unit := do
  rangeCheck s n
  let dist ← gateAdd { ql := R - 1, a := s, qc := (RJ - 1) % R }
  rangeCheck dist n

theorem assertCanonicalJubjubScalar_eq (s : Nat) :
    assertCanonicalJubjubScalar s = canonM JUBJUB_SCALAR_BITS s := rfl

/-- state after the first range check -/
def canon1 (c : Composer) (s n : Nat) : Composer := ((rangeCheck s n).run c).2
/-- state after the distance gate; the distance witness is `(canon1 c s n).wit.size` -/
def canon2 (c : Composer) (s n : Nat) : Composer := ((gateAdd (distC s)).run (canon1 c s n)).2
/-- index of the distance witness -/
def canonDist (c : Composer) (s n : Nat) : Nat := (canon1 c s n).wit.size
/-- state after `assert_canonical_jubjub_scalar` -/
def canonOut (c : Composer) (s n : Nat) : Composer :=
  ((rangeCheck (canonDist c s n) n).run (canon2 c s n)).2

theorem canonM_run (n s : Nat) (c : Composer) :
    ((canonM n s).run c).2 = canonOut c s n := by
  unfold canonM
  rw [run_bind', run_bind']
  have h := gateAdd_fst (distC s) (canon1 c s n)
  unfold canonOut canon2 canonDist
  show ((rangeCheck ((gateAdd (distC s)).run (canon1 c s n)).1 n).run _).2 = _
  rw [h]
  rfl

section canon
variable (c : Composer) (s n : Nat)

theorem canon1_wf (hn : n % 2 = 0) (h : WF c) : WF (canon1 c s n) :=
  rangeCheck_wf_even c s _ hn h
theorem canon2_wf (hn : n % 2 = 0) (h : WF c) : WF (canon2 c s n) :=
  gateAdd_wf _ _ (canon1_wf c s n hn h)
theorem canonOut_wf (hn : n % 2 = 0) (h : WF c) : WF (canonOut c s n) :=
  rangeCheck_wf_even _ _ _ hn (canon2_wf c s n hn h)

theorem canon1_extends : Extends c (canon1 c s n) := rangeCheck_extends c s _
theorem canon2_appends : Appends (canon1 c s n) (canon2 c s n) 1 1 :=
  gateAdd_appends _ _
theorem canonOut_extends2 : Extends (canon2 c s n) (canonOut c s n) :=
  rangeCheck_extends _ _ _
theorem canonOut_extends : Extends c (canonOut c s n) :=
  ((canon1_extends c s n).trans (canon2_appends c s n).ext).trans (canonOut_extends2 c s n)

/-- gates appended by the canonical-scalar gadget: two range checks and the distance gate -/
def canonGateCount (n : Nat) : Nat := 2 * rangeGateCount n + 1
/-- witnesses appended: the accumulators of the two range checks and the distance -/
def canonWitCount (n : Nat) : Nat := 2 * rangeWitCount n + 1

theorem canon1_gates_size :
    (canon1 c s n).gates.size = c.gates.size + rangeGateCount n :=
  rangeCheck_gates_size c s _
theorem canon2_gates_size :
    (canon2 c s n).gates.size = c.gates.size + rangeGateCount n + 1 := by
  rw [(canon2_appends c s n).gates, canon1_gates_size]
theorem canonOut_gates_size :
    (canonOut c s n).gates.size = c.gates.size + canonGateCount n := by
  unfold canonOut canonGateCount
  rw [rangeCheck_gates_size, canon2_gates_size]; omega
theorem canonOut_wit_size :
    (canonOut c s n).wit.size = c.wit.size + canonWitCount n := by
  unfold canonOut canonWitCount
  rw [rangeCheck_wit_size, (canon2_appends c s n).wit]
  unfold canon1; rw [rangeCheck_wit_size]; omega
theorem canonOut_last_plain :
    ∀ i, i + 1 = (canonOut c s n).gates.size → Gate.plain ((canonOut c s n).gateAt i) :=
  rangeCheck_last_plain _ _ _

/-- the three blocks of rows of the canonical-scalar gadget, read in any later state -/
theorem canon_rows_split (c'' : Composer)
    (hext : Extends (canonOut c s n) c'') (w : Nat → Nat) :
    c''.rowsHoldW w c.gates.size (canonOut c s n).gates.size ↔
      c''.rowsHoldW w c.gates.size (canon1 c s n).gates.size ∧
      (canon2 c s n).rowsHoldW w (canon1 c s n).gates.size (canon2 c s n).gates.size ∧
      c''.rowsHoldW w (canon2 c s n).gates.size (canonOut c s n).gates.size := by
  have e1 := (canon1_extends c s n).gates_size
  have e2 := (canon2_appends c s n).ext.gates_size
  have e3 := (canonOut_extends2 c s n).gates_size
  rw [rowsHoldW_split c'' w e1 (Nat.le_trans e2 e3), rowsHoldW_split c'' w e2 e3,
    ((canonOut_extends2 c s n).trans hext).rowsHoldW_of_plain w (Nat.le_refl _)
      (fun i hlo hhi => (canon2_appends c s n).plain i hlo hhi)]

theorem distC_rows_iff (hn : n % 2 = 0) (h : WF c) (w : Nat → Nat) :
    (canon2 c s n).rowsHoldW w (canon1 c s n).gates.size (canon2 c s n).gates.size ↔
      toF (w (canonDist c s n)) = toF ((RJ - 1) % R) - toF (w s) := by
  unfold canon2 canonDist
  rw [gateAdd_rows_iff _ _ (canon1_wf c s n hn h)]
  simp only [Constraint.evalF, Constraint.piF, distC, toF_zero, toF_R_sub_one]
  constructor <;> intro h <;> simp at h ⊢ <;> linear_combination h

/-- soundness, generic width: both range bounds -/
theorem canon_sound (hn : n % 2 = 0) (h254 : n ≤ 254) (hwf : WF c)
    (c'' : Composer) (hext : Extends (canonOut c s n) c'') (w : Nat → Nat) (h0 : toF (w 0) = 0)
    (h : c''.rowsHoldW w c.gates.size (canonOut c s n).gates.size) :
    (toF (w s)).val < 2 ^ n ∧ (toF ((RJ - 1) % R) - toF (w s)).val < 2 ^ n := by
  obtain ⟨h1, h2, h3⟩ := (canon_rows_split c s n c'' hext w).mp h
  have b1 := rangeCheck_sound_ext c s n h254 hwf.pis_zero c''
    (((canon2_appends c s n).ext.trans (canonOut_extends2 c s n)).trans hext) w h0 h1
  have b2 := rangeCheck_sound_ext (canon2 c s n) (canonDist c s n) n h254
    (canon2_wf c s n hn hwf).pis_zero c'' hext w h0 h3
  rw [(distC_rows_iff c s n hn hwf w).mp h2] at b2
  exact ⟨b1, b2⟩

/-- completeness, generic width -/
theorem canon_complete (hn : n % 2 = 0) (hwf : WF c)
    (hs : s < c.wit.size) (hz : c.val 0 = 0) (hv1 : c.val s < 2 ^ n)
    (hv2 : (toF ((RJ - 1) % R) - toF (c.val s)).val < 2 ^ n)
    (c'' : Composer) (hext : Extends (canonOut c s n) c'') :
    c''.rowsHoldW c''.val c.gates.size (canonOut c s n).gates.size := by
  have hx1 := (canon1_extends c s n)
  have hx2 := (canon2_appends c s n)
  have hx3 := canonOut_extends2 c s n
  have hw1 : c.wit.size ≤ (canon1 c s n).wit.size := hx1.wit_size
  refine (canon_rows_split c s n c'' hext _).mpr ⟨?_, ?_, ?_⟩
  · exact rangeCheck_complete_ext c s _ hwf.pis_zero hs hz hv1 c''
      ((hx2.ext.trans hx3).trans hext)
  · exact gateAdd_honest_ext (distC s) (canon1 c s n) (canon1_wf c s n hn hwf) (fun _ => rfl)
      (show s < _ by omega) (show 0 < _ by omega) (show 0 < _ by omega) (hx3.trans hext)
  · have hd : toF ((canon2 c s n).val (canonDist c s n))
        = toF ((RJ - 1) % R) - toF (c.val s) := by
      unfold canon2 canonDist
      rw [gateAdd_val]
      simp only [Constraint.evalF, distC, toF_zero, toF_R_sub_one]
      rw [hx1.val_eq hs]; ring
    have hlt := (canon2_wf c s n hn hwf).val_lt (canonDist c s n)
    have hval : (canon2 c s n).val (canonDist c s n)
        = (toF ((RJ - 1) % R) - toF (c.val s)).val := by
      rw [← hd, val_toF_of_lt hlt]
    refine rangeCheck_complete_ext (canon2 c s n) (canonDist c s n) _
      (canon2_wf c s n hn hwf).pis_zero ?_ ?_ ?_ c'' hext
    · unfold canonDist; rw [hx2.wit]; omega
    · rw [(hx1.trans hx2.ext).val_eq (by omega)]; exact hz
    · rw [hval]; exact hv2

/-- **soundness** of `assert_canonical_jubjub_scalar`: for every assignment `w` with the zero
    witness equal to `0`, if the rows of the gadget hold then the canonical value of the scalar
    witness is below `r_J`. -/
theorem assertCanonicalJubjubScalar_sound (hwf : WF c)
    (c'' : Composer) (hext : Extends (canonOut c s JUBJUB_SCALAR_BITS) c'') (w : Nat → Nat)
    (h0 : toF (w 0) = 0)
    (h : c''.rowsHoldW w c.gates.size (canonOut c s JUBJUB_SCALAR_BITS).gates.size) :
    (toF (w s)).val < RJ :=
  (canonical_scalar_iff (toF (w s))).mp
    (canon_sound c s _ scalar_bits_even scalar_bits_le hwf c'' hext w h0 h)

/-- **completeness** of `assert_canonical_jubjub_scalar`: when the stored scalar is below `r_J`
    the model's own witness table (read in any later state) satisfies the rows of the gadget. -/
theorem assertCanonicalJubjubScalar_complete (hwf : WF c)
    (hs : s < c.wit.size) (hz : c.val 0 = 0) (hv : c.val s < RJ)
    (c'' : Composer) (hext : Extends (canonOut c s JUBJUB_SCALAR_BITS) c'') :
    c''.rowsHoldW c''.val c.gates.size (canonOut c s JUBJUB_SCALAR_BITS).gates.size := by
  have hcan := (canonical_scalar_iff (toF (c.val s))).mpr
    (by rw [val_toF_of_lt (hwf.val_lt s)]; exact hv)
  have hcan1 := hcan.1
  rw [val_toF_of_lt (hwf.val_lt s)] at hcan1
  exact canon_complete c s _ scalar_bits_even hwf hs hz hcan1 hcan.2 c'' hext

end canon

/-! ### `append_fixed_base_signed_digits`: explicit output state -/

/-- the witness values laid down by the ladder: per round `acc_x, acc_y, accumulated_bit,
    xy_alpha`, then the final `acc_x, acc_y, accumulated_bit` -/
def fbWitList (acc : List (Nat × Pt × Nat) × (Nat × Pt)) : List Nat :=
  acc.1.flatMap (fun (sa, pa, xy) => [pa.1, pa.2, sa, xy]) ++ [acc.2.2.1, acc.2.2.2, acc.2.1]

/-- the fixed-base constraints, one per table entry -/
def fbConstraints (base : Nat) (mults : List Pt) : List Constraint :=
  (mults.zipIdx).map fun (m, i) => Constraint.groupAddFixedBase
    { ql := m.1, qr := m.2, qc := fmul m.1 m.2, a := base + 4 * i, b := base + 4 * i + 1,
      c := base + 4 * i + 3, d := base + 4 * i + 2 }

/-- the part of `append_fixed_base_signed_digits` after the canonical-scalar check and the digit
    validation, with the table of multiples, the host-side accumulators and the number of pinned
    leading rounds as parameters -/
def fbTail (L s : Nat) (mults : List Pt) (acc : List (Nat × Pt × Nat) × (Nat × Pt)) :
    CM (Except CErr Pt) := do
  let base := (← get).wit.size
  appendWitnesses (fbWitList acc)
  assertEqualConstant (base + 4 * 0) 0 none
  assertEqualConstant (base + 4 * 0 + 1) 1 none
  assertEqualConstant (base + 4 * 0 + 2) 0 none
  appendCustomGates (fbConstraints base mults)
  let n := acc.1.length
  appendGate { a := base + 4 * n, b := base + 4 * n + 1, d := base + 4 * n + 2 }
  assertEqualConstant (base + 4 * L + 2) 0 none
  assertEqual (base + 4 * n + 2) s
  pure (.ok (base + 4 * n, base + 4 * n + 1))

/-- the host-side table `[2^(rounds−1−i)]G` -/
def fbMults (g : Pt) : List Pt := (doublings Generated.FIXED_BASE_SIGNED_DIGIT_ROUNDS g).reverse
/-- the host-side accumulators -/
def fbAccs (g : Pt) (digits : List Int) : List (Nat × Pt × Nat) × (Nat × Pt) :=
  fixedAccs (digits.reverse.zip (fbMults g)) 0 Pt.id

def digitsBad (digits : List Int) : Bool := digits.any (fun d => d != 0 && d != 1 && d != -1)

theorem appendFixedBaseSignedDigits_eq (s : Nat) (g : Pt) (digits : List Int) (c : Composer) :
    (appendFixedBaseSignedDigits s g digits).run c =
      if digitsBad digits then (.error .unsupportedWnaf, canonOut c s JUBJUB_SCALAR_BITS)
      else (fbTail FIXED_BASE_LEADING_ZERO_ROUNDS s (fbMults g) (fbAccs g digits)).run
        (canonOut c s JUBJUB_SCALAR_BITS) := by
  unfold appendFixedBaseSignedDigits
  rw [run_bind', assertCanonicalJubjubScalar_eq, canonM_run]
  unfold digitsBad
  split
  · rfl
  · rfl


/-- the gate of `assert_equal_constant(a, k)` without public input -/
def pinGate (a k : Nat) : Gate :=
  (Constraint.arithmetic { ql := R - 1, a := a, qc := k % R }).toGate

/-- the closing row carrying the final accumulators on wires `a, b, d` -/
def fbCloseGate (base n : Nat) : Gate :=
  (Constraint.arithmetic { a := base + 4 * n, b := base + 4 * n + 1, d := base + 4 * n + 2 }).toGate

/-- explicit output state of the ladder part -/
def fbOut (cs : Composer) (L s : Nat) (mults : List Pt)
    (acc : List (Nat × Pt × Nat) × (Nat × Pt)) : Composer :=
  { gates := cs.gates
      ++ #[pinGate cs.wit.size 0, pinGate (cs.wit.size + 1) 1, pinGate (cs.wit.size + 2) 0]
      ++ ((fbConstraints cs.wit.size mults).map Constraint.toGate).toArray
      ++ #[fbCloseGate cs.wit.size acc.1.length, pinGate (cs.wit.size + 4 * L + 2) 0,
           eqGate (cs.wit.size + 4 * acc.1.length + 2) s],
    wit := cs.wit ++ ((fbWitList acc).map (· % R)).toArray,
    pis := cs.pis }

theorem fbConstraints_hasPi (base : Nat) (mults : List Pt) :
    ∀ s ∈ fbConstraints base mults, s.hasPi = false := by
  intro s hs
  simp only [fbConstraints, List.mem_map] at hs
  obtain ⟨x, _, rfl⟩ := hs
  rfl

theorem get_run' (c : Composer) : (get : CM Composer).run c = (c, c) := rfl

theorem assertEqualConstant_none_run (a k : Nat) (c : Composer) :
    (assertEqualConstant a k none).run c =
      ((), { c with gates := c.gates.push (pinGate a k) }) := rfl

theorem assertEqual_run' (a b : Nat) (c : Composer) :
    (assertEqual a b).run c = ((), { c with gates := c.gates.push (eqGate a b) }) := rfl

theorem appendGate_close_run (base n : Nat) (c : Composer) :
    (appendGate { a := base + 4 * n, b := base + 4 * n + 1, d := base + 4 * n + 2 }).run c =
      ((), { c with gates := c.gates.push (fbCloseGate base n) }) := rfl

theorem fbTail_run (L s : Nat) (mults : List Pt) (acc : List (Nat × Pt × Nat) × (Nat × Pt))
    (cs : Composer) :
    (fbTail L s mults acc).run cs =
      (.ok (cs.wit.size + 4 * acc.1.length, cs.wit.size + 4 * acc.1.length + 1),
        fbOut cs L s mults acc) := by
  unfold fbTail
  simp only [run_bind', get_run', appendWitnesses_run, assertEqualConstant_none_run,
    appendCustomGates_run _ (fbConstraints_hasPi _ _), appendGate_close_run, assertEqual_run']
  simp only [Nat.mul_zero, Nat.add_zero]
  show (_, _) = (_, _)
  congr 1

/-! ### the emitted gates -/

/-- the fixed-base gate of round `i` with table entry `m` -/
def fbGateAt (base : Nat) (m : Pt) (i : Nat) : Gate :=
  (Constraint.groupAddFixedBase
    { ql := m.1, qr := m.2, qc := fmul m.1 m.2, a := base + 4 * i, b := base + 4 * i + 1,
      c := base + 4 * i + 3, d := base + 4 * i + 2 }).toGate

theorem fbConstraints_length (base : Nat) (mults : List Pt) :
    ((fbConstraints base mults).map Constraint.toGate).length = mults.length := by
  simp [fbConstraints]

theorem fbConstraints_get (base : Nat) (mults : List Pt) (i : Nat) (hi : i < mults.length) :
    ((fbConstraints base mults).map Constraint.toGate)[i]? = some (fbGateAt base mults[i] i) := by
  simp [fbConstraints, hi, fbGateAt]

section out
variable (cs : Composer) (L s : Nat) (mults : List Pt) (acc : List (Nat × Pt × Nat) × (Nat × Pt))

theorem fbOut_gates_size :
    (fbOut cs L s mults acc).gates.size = cs.gates.size + mults.length + 6 := by
  simp [fbOut, fbConstraints]; omega

theorem fbOut_wit_size :
    (fbOut cs L s mults acc).wit.size = cs.wit.size + (4 * acc.1.length + 3) := by
  simp [fbOut, fbWitList, List.length_flatMap]
  omega

theorem fbOut_piAt (i : Nat) : (fbOut cs L s mults acc).piAt i = cs.piAt i := rfl

theorem fbOut_extends : Extends cs (fbOut cs L s mults acc) :=
  extends_of_append _ _ (by unfold fbOut; simp only [Array.append_assoc]; rfl) rfl rfl

theorem fbOut_get_pin (j : Nat) (hj : j < 3) :
    (fbOut cs L s mults acc).gates[cs.gates.size + j]? =
      some (#[pinGate cs.wit.size 0, pinGate (cs.wit.size + 1) 1, pinGate (cs.wit.size + 2) 0][j]'hj) := by
  unfold fbOut
  simp only
  rw [Array.getElem?_append_left (by simp; omega), Array.getElem?_append_left (by simp; omega),
    Array.getElem?_append_right (by omega)]
  simp [hj]

theorem fbOut_get_fixed (i : Nat) (hi : i < mults.length) :
    (fbOut cs L s mults acc).gates[cs.gates.size + 3 + i]? =
      some (fbGateAt cs.wit.size mults[i] i) := by
  unfold fbOut
  simp only
  rw [Array.getElem?_append_left (by simp [fbConstraints]; omega),
    Array.getElem?_append_right (by simp)]
  simp only [Array.size_append, List.size_toArray, List.length_cons, List.length_nil,
    List.getElem?_toArray]
  rw [show cs.gates.size + 3 + i - (cs.gates.size + (0 + 1 + 1 + 1)) = i by omega]
  exact fbConstraints_get _ _ _ hi

theorem fbOut_get_tail (j : Nat) (hj : j < 3) :
    (fbOut cs L s mults acc).gates[cs.gates.size + 3 + mults.length + j]? =
      some (#[fbCloseGate cs.wit.size acc.1.length, pinGate (cs.wit.size + 4 * L + 2) 0,
           eqGate (cs.wit.size + 4 * acc.1.length + 2) s][j]'hj) := by
  unfold fbOut
  simp only
  rw [Array.getElem?_append_right (by simp [fbConstraints]; omega)]
  simp only [fbConstraints_length, Array.size_append, List.size_toArray, List.length_cons,
    List.length_nil, List.getElem?_toArray]
  rw [show cs.gates.size + 3 + mults.length + j - (cs.gates.size + (0 + 1 + 1 + 1) + mults.length) = j by omega]
  simp [hj]


/-! ### the emitted rows -/

theorem pinGate_plain (a k : Nat) : Gate.plain (pinGate a k) := ⟨rfl, rfl, rfl, rfl⟩
theorem fbCloseGate_plain (base n : Nat) : Gate.plain (fbCloseGate base n) := ⟨rfl, rfl, rfl, rfl⟩

theorem rowHolds_pinGate (a k va vb vc vd an bn dn : Nat) :
    rowHolds (pinGate a k) va vb vc vd an bn dn 0 = true ↔ toF va = toF k := by
  rw [rowHolds_arith _ rfl rfl rfl rfl]
  unfold arithF pinGate
  simp only [Constraint.arithmetic, Constraint.fromExternal, Constraint.toGate, toF_R_sub_one,
    toF_zero, toF_one, toF_mod]
  constructor <;> intro h <;> linear_combination -h

theorem rowHolds_fbCloseGate (base n va vb vc vd an bn dn : Nat) :
    rowHolds (fbCloseGate base n) va vb vc vd an bn dn 0 = true := by
  rw [rowHolds_arith _ rfl rfl rfl rfl]
  unfold arithF fbCloseGate
  simp [Constraint.arithmetic, Constraint.fromExternal, Constraint.toGate]

theorem rowHoldsW_pin {c : Composer} {w : Nat → Nat} {i a k : Nat}
    (h1 : c.gates[i]? = some (pinGate a k)) (hp : c.piAt i = 0) :
    c.rowHoldsW w i = true ↔ toF (w a) = toF k := by
  rw [rowHoldsW_of_get_plain h1 (pinGate_plain _ _) hp, rowHolds_pinGate]; rfl

theorem rowHoldsW_eq {c : Composer} {w : Nat → Nat} {i a b : Nat}
    (h1 : c.gates[i]? = some (eqGate a b)) (hp : c.piAt i = 0) :
    c.rowHoldsW w i = true ↔ toF (w a) = toF (w b) := by
  rw [rowHoldsW_of_get_plain h1 (eqGate_plain _ _) hp, rowHolds_eqGate]; rfl

theorem rowHoldsW_fbClose {c : Composer} {w : Nat → Nat} {i base n : Nat}
    (h1 : c.gates[i]? = some (fbCloseGate base n)) (hp : c.piAt i = 0) :
    c.rowHoldsW w i = true := by
  rw [rowHoldsW_of_get_plain h1 (fbCloseGate_plain _ _) hp, rowHolds_fbCloseGate]

/-- the row after fixed-base row `i` carries the accumulators of round `i + 1` on `a, b, d` -/
theorem fbOut_next (hn : acc.1.length = mults.length) (i : Nat) (hi : i < mults.length) :
    ∃ g', (fbOut cs L s mults acc).gates[cs.gates.size + 3 + i + 1]? = some g' ∧
      g'.a = cs.wit.size + 4 * (i + 1) ∧ g'.b = cs.wit.size + 4 * (i + 1) + 1 ∧
      g'.d = cs.wit.size + 4 * (i + 1) + 2 := by
  by_cases h : i + 1 < mults.length
  · exact ⟨_, by rw [Nat.add_assoc]; exact fbOut_get_fixed cs L s mults acc (i + 1) h,
      rfl, rfl, rfl⟩
  · have e : i + 1 = mults.length := by omega
    refine ⟨_, by rw [Nat.add_assoc, e]; exact fbOut_get_tail cs L s mults acc 0 (by omega),
      ?_, ?_, ?_⟩ <;> simp [fbCloseGate, Constraint.arithmetic, Constraint.fromExternal,
        Constraint.toGate, hn, e]

/-- **meaning of fixed-base row `i`**: the widget relation between the accumulators of rounds
    `i` and `i + 1`, with the table entry `mults[i]` as `(x_β, y_β)` and the scalar increment
    `acc_bit(i+1) − 2·acc_bit(i)` as the signed digit. -/
theorem fb_row_iff (hpi : PiFresh cs) (hn : acc.1.length = mults.length) (w : Nat → Nat)
    (i : Nat) (hi : i < mults.length) :
    (fbOut cs L s mults acc).rowHoldsW w (cs.gates.size + 3 + i) = true ↔
      FixedRowF (toF mults[i].1) (toF mults[i].2) (toF (fmul mults[i].1 mults[i].2))
        (toF (w (cs.wit.size + 4 * i))) (toF (w (cs.wit.size + 4 * i + 1)))
        (toF (w (cs.wit.size + 4 * i + 3)))
        (toF (w (cs.wit.size + 4 * (i + 1)))) (toF (w (cs.wit.size + 4 * (i + 1) + 1)))
        (toF (w (cs.wit.size + 4 * (i + 1) + 2)) - 2 * toF (w (cs.wit.size + 4 * i + 2))) := by
  obtain ⟨g', h2, ha, hb, hd⟩ := fbOut_next cs L s mults acc hn i hi
  rw [rowHoldsW_of_get (fbOut_get_fixed cs L s mults acc i hi) h2 (hpi _ (by omega)),
    rowHolds_fixed _ rfl rfl rfl rfl rfl, ha, hb, hd]
  exact Iff.rfl

/-- the relation expressed by all rows of the ladder part -/
def FbRel (base L s : Nat) (mults : List Pt) (w : Nat → Nat) : Prop :=
  toF (w base) = 0 ∧ toF (w (base + 1)) = 1 ∧ toF (w (base + 2)) = 0 ∧
  (∀ i (hi : i < mults.length),
    FixedRowF (toF mults[i].1) (toF mults[i].2) (toF (fmul mults[i].1 mults[i].2))
      (toF (w (base + 4 * i))) (toF (w (base + 4 * i + 1))) (toF (w (base + 4 * i + 3)))
      (toF (w (base + 4 * (i + 1)))) (toF (w (base + 4 * (i + 1) + 1)))
      (toF (w (base + 4 * (i + 1) + 2)) - 2 * toF (w (base + 4 * i + 2)))) ∧
  toF (w (base + 4 * L + 2)) = 0 ∧
  toF (w (base + 4 * mults.length + 2)) = toF (w s)

theorem fb_rows_iff (hpi : PiFresh cs) (hn : acc.1.length = mults.length) (w : Nat → Nat) :
    (fbOut cs L s mults acc).rowsHoldW w cs.gates.size (fbOut cs L s mults acc).gates.size ↔
      FbRel cs.wit.size L s mults w := by
  rw [fbOut_gates_size]
  have hp0 := fbOut_get_pin cs L s mults acc 0 (by omega)
  have hp1 := fbOut_get_pin cs L s mults acc 1 (by omega)
  have hp2 := fbOut_get_pin cs L s mults acc 2 (by omega)
  have ht0 := fbOut_get_tail cs L s mults acc 0 (by omega)
  have ht1 := fbOut_get_tail cs L s mults acc 1 (by omega)
  have ht2 := fbOut_get_tail cs L s mults acc 2 (by omega)
  simp only [List.getElem_toArray, List.getElem_cons_zero, List.getElem_cons_succ] at hp0 hp1 hp2 ht0 ht1 ht2
  have r0 := rowHoldsW_pin (w := w) hp0 (hpi _ (by omega))
  have r1 := rowHoldsW_pin (w := w) hp1 (hpi _ (by omega))
  have r2 := rowHoldsW_pin (w := w) hp2 (hpi _ (by omega))
  have t0 := rowHoldsW_fbClose (w := w) ht0 (hpi _ (by omega))
  have t1 := rowHoldsW_pin (w := w) ht1 (hpi _ (by omega))
  have t2 := rowHoldsW_eq (w := w) ht2 (hpi _ (by omega))
  rw [hn] at t2
  simp only [toF_zero, toF_one, Nat.add_zero] at r0 r1 r2 t1
  constructor
  · intro h
    refine ⟨?_, ?_, ?_, ?_, ?_, ?_⟩
    · exact r0.mp (h _ (by omega) (by omega))
    · exact r1.mp (h _ (by omega) (by omega))
    · exact r2.mp (h _ (by omega) (by omega))
    · intro i hi
      exact (fb_row_iff cs L s mults acc hpi hn w i hi).mp (h _ (by omega) (by omega))
    · exact t1.mp (h _ (by omega) (by omega))
    · exact t2.mp (h _ (by omega) (by omega))
  · rintro ⟨a0, a1, a2, hf, aL, aE⟩ i hlo hhi
    obtain ⟨j, rfl⟩ : ∃ j, i = cs.gates.size + j := ⟨i - cs.gates.size, by omega⟩
    by_cases c0 : j = 0
    · subst c0; exact r0.mpr a0
    by_cases c1 : j = 1
    · subst c1; exact r1.mpr a1
    by_cases c2 : j = 2
    · subst c2; exact r2.mpr a2
    by_cases c3 : j < 3 + mults.length
    · obtain ⟨i, rfl⟩ : ∃ i, j = 3 + i := ⟨j - 3, by omega⟩
      rw [← Nat.add_assoc, fb_row_iff cs L s mults acc hpi hn w i (by omega)]
      exact hf i (by omega)
    by_cases c4 : j = 3 + mults.length
    · subst c4; rw [← Nat.add_assoc]; exact t0
    by_cases c5 : j = 3 + mults.length + 1
    · subst c5; rw [← Nat.add_assoc, ← Nat.add_assoc]; exact t1.mpr aL
    · have c6 : j = 3 + mults.length + 2 := by omega
      subst c6; rw [← Nat.add_assoc, ← Nat.add_assoc]; exact t2.mpr aE

end out

end Composer

/-! ### field-level ladder -/

/-- the iterated Edwards sum of the ladder (field-level addition law), most significant digit
    first: `P₀ = O`, `P_{k+1} = P_k + d_(n−1−k) • [2^(n−1−k)]G` -/
def sdPointF (G : PtF) (d : Nat → ℤ) (n : Nat) : Nat → PtF
  | 0 => idF
  | k + 1 => addF (sdPointF G d n k) (zsmulF (d (n - 1 - k)) (smulF (2 ^ (n - 1 - k)) G))

/-- the integer accumulated by the first `k` rounds, each digit with its weight -/
def sdPartZ (d : Nat → ℤ) (n : Nat) : Nat → ℤ
  | 0 => 0
  | k + 1 => sdPartZ d n k + d (n - 1 - k) * 2 ^ (n - 1 - k)

theorem sdPointF_on_curve {G : PtF} (hG : OnCurveP G) (d : Nat → ℤ) (n k : Nat) :
    OnCurveP (sdPointF G d n k) := by
  induction k with
  | zero => exact id_on_curveP
  | succ k ih => exact add_on_curveP ih (zsmulF_on_curve _ (smulF_on_curve _ hG))

/-- the iterated sum is the scalar multiple by the accumulated integer (uses associativity of
    the addition law, which is proved) -/
theorem sdPointF_eq {G : PtF} (hG : OnCurveP G) (d : Nat → ℤ) (n k : Nat) :
    sdPointF G d n k = zsmulF (sdPartZ d n k) G := by
  induction k with
  | zero => rfl
  | succ k ih =>
    simp only [sdPointF, sdPartZ]
    rw [ih, zsmulF_add _ _ hG, zsmulF_mul _ _ hG]
    have : ((2 : ℤ) ^ (n - 1 - k)) = ((2 ^ (n - 1 - k) : ℕ) : ℤ) := by push_cast; rfl
    rw [this, zsmulF_natCast]

open Finset in
theorem sdPartZ_eq_sum (d : Nat → ℤ) (n k : Nat) :
    sdPartZ d n k = ∑ i ∈ range k, d (n - 1 - i) * 2 ^ (n - 1 - i) := by
  induction k with
  | zero => simp [sdPartZ]
  | succ k ih => rw [sdPartZ, ih, Finset.sum_range_succ]

open Finset in
theorem sdPartZ_full (d : Nat → ℤ) (n : Nat) :
    sdPartZ d n n = ∑ i ∈ range n, d i * 2 ^ i := by
  rw [sdPartZ_eq_sum]
  exact Finset.sum_range_reflect (fun i => d i * 2 ^ i) n


/-! ### soundness of the ladder rows (generic table) -/

section chain
variable (mults : List Pt) (A : Nat → PtF) (S xy : Nat → F)

theorem fb_chain_on_curve (hm : ∀ m ∈ mults, onCurve m = true) (hA0 : A 0 = idF)
    (hrow : ∀ i (hi : i < mults.length),
      FixedRowF (toF mults[i].1) (toF mults[i].2) (toF (fmul mults[i].1 mults[i].2))
        (A i).1 (A i).2 (xy i) (A (i + 1)).1 (A (i + 1)).2 (S (i + 1) - 2 * S i)) :
    ∀ k, k ≤ mults.length → OnCurveP (A k) := by
  intro k
  induction k with
  | zero => intro _; rw [hA0]; exact id_on_curveP
  | succ k ih =>
    intro hk
    have hk' : k < mults.length := by omega
    have hβ := (onCurve_iff mults[k]).mp (hm _ (List.getElem_mem hk'))
    exact fixedRowF_on_curve hβ (toF_fmul _ _) (ih (by omega)) (hrow k hk')

theorem fb_chain_step (hm : ∀ m ∈ mults, onCurve m = true) (hA0 : A 0 = idF)
    (hrow : ∀ i (hi : i < mults.length),
      FixedRowF (toF mults[i].1) (toF mults[i].2) (toF (fmul mults[i].1 mults[i].2))
        (A i).1 (A i).2 (xy i) (A (i + 1)).1 (A (i + 1)).2 (S (i + 1) - 2 * S i))
    (i : Nat) (hi : i < mults.length) :
    xy i = (S (i + 1) - 2 * S i) * toF mults[i].1 * toF mults[i].2 ∧
    A (i + 1) = addF (A i) (selF (S (i + 1) - 2 * S i) (toFP mults[i])) := by
  have hβ := (onCurve_iff mults[i]).mp (hm _ (List.getElem_mem hi))
  have hacc := fb_chain_on_curve mults A S xy hm hA0 hrow i (by omega)
  obtain ⟨-, h2, h3⟩ := (fixedRowF_iff_of_on_curve hβ (toF_fmul _ _) hacc _ _ _ _).mp (hrow i hi)
  exact ⟨h2, h3⟩

/-- with integer digits for the scalar increments and `mults[i] = [2^(n−1−i)]G`, the point
    accumulators are the iterated Edwards sum -/
theorem fb_chain_point (G : PtF) (d : Nat → ℤ)
    (hm : ∀ m ∈ mults, onCurve m = true) (hA0 : A 0 = idF)
    (hrow : ∀ i (hi : i < mults.length),
      FixedRowF (toF mults[i].1) (toF mults[i].2) (toF (fmul mults[i].1 mults[i].2))
        (A i).1 (A i).2 (xy i) (A (i + 1)).1 (A (i + 1)).2 (S (i + 1) - 2 * S i))
    (hmG : ∀ i (hi : i < mults.length), toFP mults[i] = smulF (2 ^ (mults.length - 1 - i)) G)
    (hd : ∀ i, i < mults.length → d i = -1 ∨ d i = 0 ∨ d i = 1)
    (hinc : ∀ i, i < mults.length → S (i + 1) - 2 * S i = ((d (mults.length - 1 - i) : ℤ) : F)) :
    ∀ k, k ≤ mults.length → A k = sdPointF G d mults.length k := by
  intro k
  induction k with
  | zero => intro _; rw [hA0]; rfl
  | succ k ih =>
    intro hk
    have hk' : k < mults.length := by omega
    obtain ⟨-, h⟩ := fb_chain_step mults A S xy hm hA0 hrow k hk'
    have hdk : d (mults.length - 1 - k) = 0 ∨ d (mults.length - 1 - k) = 1 ∨
        d (mults.length - 1 - k) = -1 := by
      rcases hd (mults.length - 1 - k) (by omega) with h | h | h <;> simp [h]
    rw [h, hinc k hk', selF_intCast hdk, hmG k hk', ih (by omega)]
    rfl

end chain

/-! ### the table of the model -/

namespace Composer

/-- number of rounds (from the extracted constant) -/
abbrev fbN : Nat := Generated.FIXED_BASE_SIGNED_DIGIT_ROUNDS

theorem fbMults_length (g : Pt) : (fbMults g).length = fbN := by
  unfold fbMults; rw [List.length_reverse, doublings_length]

theorem fbMults_on_curve (g : Pt) (hg : onCurve g = true) :
    ∀ m ∈ fbMults g, onCurve m = true := by
  intro m hm
  unfold fbMults at hm
  rw [List.mem_reverse] at hm
  exact doublings_on_curve _ g hg m hm

theorem reverse_doublings_get (n : Nat) (g : Pt) (hg : onCurve g = true) (i : Nat)
    (hi : i < (doublings n g).reverse.length) :
    toFP (doublings n g).reverse[i] = smulF (2 ^ ((doublings n g).reverse.length - 1 - i)) (toFP g) := by
  have hlen : (doublings n g).reverse.length = n := by rw [List.length_reverse, doublings_length]
  have hi2 : i < n := by rw [← hlen]; exact hi
  rw [hlen]
  apply doublings_getElem? n g hg
  have hj : n - 1 - i < (doublings n g).length := by rw [doublings_length]; omega
  rw [List.getElem?_eq_getElem hj]
  congr 1
  simp only [List.getElem_reverse, doublings_length]

theorem fbMults_get (g : Pt) (hg : onCurve g = true) (i : Nat) (hi : i < (fbMults g).length) :
    toFP (fbMults g)[i] = smulF (2 ^ ((fbMults g).length - 1 - i)) (toFP g) :=
  reverse_doublings_get _ g hg i hi


/-! ### soundness of the ladder part -/

open Finset in
/-- **soundness of the ladder rows** (generic table of length `FIXED_BASE_SIGNED_DIGIT_ROUNDS`
    whose entry `i` is `[2^(n−1−i)]G`): every assignment satisfying the relation of the rows
    determines integer digits in `{−1,0,1}` — the increments of the scalar accumulator — with the
    leading ones zero, recomposing the scalar over ℤ; every point accumulator is the iterated
    Edwards sum of those digits and the final one is `[s]G`. -/
theorem fbRel_sound (mults : List Pt) (hlen : mults.length = Generated.FIXED_BASE_SIGNED_DIGIT_ROUNDS)
    (hm : ∀ m ∈ mults, onCurve m = true) (G : PtF) (hG : OnCurveP G)
    (hmG : ∀ i (hi : i < mults.length), toFP mults[i] = smulF (2 ^ (mults.length - 1 - i)) G)
    (base s : Nat) (w : Nat → Nat)
    (hrel : FbRel base Generated.FIXED_BASE_LEADING_ZERO_ROUNDS s mults w)
    (hs : (toF (w s)).val < 2 ^ Generated.JUBJUB_SCALAR_BITS) :
    ∃ d : Nat → ℤ,
      (∀ i < Generated.FIXED_BASE_SIGNED_DIGIT_ROUNDS, d i = -1 ∨ d i = 0 ∨ d i = 1) ∧
      (∀ i < Generated.FIXED_BASE_SIGNED_DIGIT_ROUNDS,
        toF (w (base + 4 * (i + 1) + 2)) - 2 * toF (w (base + 4 * i + 2))
          = ((d (Generated.FIXED_BASE_SIGNED_DIGIT_ROUNDS - 1 - i) : ℤ) : F)) ∧
      (∀ j < Generated.FIXED_BASE_LEADING_ZERO_ROUNDS,
        d (Generated.FIXED_BASE_SIGNED_DIGIT_ROUNDS - 1 - j) = 0) ∧
      (∑ i ∈ range Generated.FIXED_BASE_SIGNED_DIGIT_ROUNDS, d i * 2 ^ i = ((toF (w s)).val : ℤ)) ∧
      (∀ k ≤ Generated.FIXED_BASE_SIGNED_DIGIT_ROUNDS,
        (toF (w (base + 4 * k)), toF (w (base + 4 * k + 1)))
          = sdPointF G d Generated.FIXED_BASE_SIGNED_DIGIT_ROUNDS k) ∧
      (toF (w (base + 4 * Generated.FIXED_BASE_SIGNED_DIGIT_ROUNDS)),
        toF (w (base + 4 * Generated.FIXED_BASE_SIGNED_DIGIT_ROUNDS + 1)))
          = smulF (toF (w s)).val G := by
  obtain ⟨p0, p1, p2, hrow, pL, pE⟩ := hrel
  rw [hlen] at pE
  let A : Nat → PtF := fun k => (toF (w (base + 4 * k)), toF (w (base + 4 * k + 1)))
  let S : Nat → F := fun k => toF (w (base + 4 * k + 2))
  let xy : Nat → F := fun k => toF (w (base + 4 * k + 3))
  have hA0 : A 0 = idF := by
    show (toF (w (base + 4 * 0)), toF (w (base + 4 * 0 + 1))) = idF
    rw [Nat.mul_zero, Nat.add_zero, p0, p1]; rfl
  have hS0 : S 0 = 0 := by
    show toF (w (base + 4 * 0 + 2)) = 0
    rw [Nat.mul_zero, Nat.add_zero, p2]
  have hrow' : ∀ i (hi : i < mults.length),
      FixedRowF (toF mults[i].1) (toF mults[i].2) (toF (fmul mults[i].1 mults[i].2))
        (A i).1 (A i).2 (xy i) (A (i + 1)).1 (A (i + 1)).2 (S (i + 1) - 2 * S i) := hrow
  obtain ⟨d, hd, hinc, htop, hsum⟩ := signed_digit_chain S (toF (w s)) hS0
    (fun i hi => (hrow' i (by rw [hlen]; exact hi)).1) pL pE hs
  have hpt := fb_chain_point mults A S xy G d hm hA0 hrow' hmG
    (fun i hi => hd i (by rw [← hlen]; exact hi))
    (fun i hi => by rw [hlen]; exact hinc i (by rw [← hlen]; exact hi))
  rw [hlen] at hpt
  refine ⟨d, hd, hinc, htop, hsum, hpt, ?_⟩
  have := hpt _ (Nat.le_refl _)
  rw [sdPointF_eq hG, sdPartZ_full, hsum, zsmulF_natCast] at this
  exact this

end Composer


namespace Composer

/-! ### the host-side accumulators (`fixedAccs`) -/

/-- host state `(scalarAcc, pointAcc)` after `k` rounds over the list `l` of `(digit, multiple)` -/
def hostAt : List (Int × Pt) → Nat → Pt → Nat → Nat × Pt
  | [], sa, pa, _ => (sa, pa)
  | _ :: _, sa, pa, 0 => (sa, pa)
  | (e, m) :: rest, sa, pa, k + 1 =>
    hostAt rest (fadd (fmul 2 sa) (digitSel e m).1) (edAddOrId pa (digitSel e m).2) k

theorem hostAt_zero (l : List (Int × Pt)) (sa : Nat) (pa : Pt) : hostAt l sa pa 0 = (sa, pa) := by
  cases l <;> rfl

theorem fixedAccs_length (l : List (Int × Pt)) (sa : Nat) (pa : Pt) :
    (fixedAccs l sa pa).1.length = l.length := by
  induction l generalizing sa pa with
  | nil => rfl
  | cons x rest ih =>
    obtain ⟨e, m⟩ := x
    rw [fixedAccs_cons]; simp [ih]

theorem fixedAccs_fin (l : List (Int × Pt)) (sa : Nat) (pa : Pt) :
    (fixedAccs l sa pa).2 = hostAt l sa pa l.length := by
  induction l generalizing sa pa with
  | nil => rfl
  | cons x rest ih =>
    obtain ⟨e, m⟩ := x
    rw [fixedAccs_cons]; simp only [List.length_cons, hostAt]; exact ih _ _

theorem fixedAccs_get (l : List (Int × Pt)) (sa : Nat) (pa : Pt) (k : Nat) (hk : k < l.length) :
    (fixedAccs l sa pa).1[k]? =
      some ((hostAt l sa pa k).1, (hostAt l sa pa k).2,
        fmul (digitSel l[k].1 l[k].2).2.1 (digitSel l[k].1 l[k].2).2.2) := by
  induction l generalizing sa pa k with
  | nil => simp at hk
  | cons x rest ih =>
    obtain ⟨e, m⟩ := x
    rw [fixedAccs_cons]
    cases k with
    | zero => simp [hostAt]
    | succ k =>
      simp only [List.getElem?_cons_succ, List.getElem_cons_succ, hostAt]
      exact ih _ _ k (by simpa using hk)

theorem hostAt_succ (l : List (Int × Pt)) (sa : Nat) (pa : Pt) (k : Nat) (hk : k < l.length) :
    hostAt l sa pa (k + 1) =
      (fadd (fmul 2 (hostAt l sa pa k).1) (digitSel l[k].1 l[k].2).1,
        edAddOrId (hostAt l sa pa k).2 (digitSel l[k].1 l[k].2).2) := by
  induction l generalizing sa pa k with
  | nil => simp at hk
  | cons x rest ih =>
    obtain ⟨e, m⟩ := x
    cases k with
    | zero => simp [hostAt, hostAt_zero]
    | succ k =>
      simp only [hostAt, List.getElem_cons_succ]
      exact ih _ _ k (by simpa using hk)

theorem hostAt_on_curve (l : List (Int × Pt)) (hl : ∀ x ∈ l, onCurve x.2 = true) (sa : Nat) (pa : Pt)
    (hpa : onCurve pa = true) (k : Nat) : onCurve (hostAt l sa pa k).2 = true := by
  induction l generalizing sa pa k with
  | nil => exact hpa
  | cons x rest ih =>
    obtain ⟨e, m⟩ := x
    cases k with
    | zero => exact hpa
    | succ k =>
      simp only [hostAt]
      have hm : onCurve m = true := hl (e, m) List.mem_cons_self
      exact ih (fun x hx => hl x (List.mem_cons_of_mem _ hx)) _ _
        (edAddOrId_on_curve _ _ hpa (digitSel_on_curve m hm)) k


/-- the scalar accumulator of the host is the cast of the integer chain `sdAccZ` -/
theorem hostAt_scalar (l : List (Int × Pt)) (d : Nat → ℤ) (n : Nat) (pa : Pt)
    (hd : ∀ k (hk : k < l.length), l[k].1 = d (n - 1 - k))
    (hv : ∀ k, d k = -1 ∨ d k = 0 ∨ d k = 1) :
    ∀ k, k ≤ l.length → toF (hostAt l 0 pa k).1 = ((sdAccZ d n k : ℤ) : F) := by
  intro k
  induction k with
  | zero => intro _; rw [hostAt_zero]; simp [sdAccZ]
  | succ k ih =>
    intro hk
    have hk' : k < l.length := by omega
    rw [hostAt_succ l 0 pa k hk']
    have he : l[k].1 = 0 ∨ l[k].1 = 1 ∨ l[k].1 = -1 := by
      rw [hd k hk']; rcases hv (n - 1 - k) with h | h | h <;> simp [h]
    have hsel := (digitSel_spec he l[k].2).1
    rw [hd k hk'] at hsel
    simp only [toF_fadd, toF_fmul, toF_two, hsel, ih (by omega), sdAccZ, hd k hk']
    push_cast; ring

/-! ### the witness table -/

theorem flatMap4_get {α : Type} (f : α → List Nat) (hf : ∀ x, (f x).length = 4) (t : List Nat)
    (l : List α) (k : Nat) (hk : k < l.length) (j : Nat) (hj : j < 4) :
    (l.flatMap f ++ t)[4 * k + j]? = (f l[k])[j]? := by
  induction l generalizing k with
  | nil => simp at hk
  | cons x xs ih =>
    rw [List.flatMap_cons, List.append_assoc]
    cases k with
    | zero =>
      rw [List.getElem?_append_left (by rw [hf]; omega)]; simp
    | succ k =>
      rw [List.getElem?_append_right (by rw [hf]; omega), hf,
        show 4 * (k + 1) + j - 4 = 4 * k + j by omega]
      simp only [List.getElem_cons_succ]
      exact ih k (by simpa using hk)

theorem flatMap4_get_tail {α : Type} (f : α → List Nat) (hf : ∀ x, (f x).length = 4) (t : List Nat)
    (l : List α) (j : Nat) :
    (l.flatMap f ++ t)[4 * l.length + j]? = t[j]? := by
  have hlen : (l.flatMap f).length = 4 * l.length := by
    induction l with
    | nil => rfl
    | cons x xs ih => rw [List.flatMap_cons, List.length_append, hf, ih, List.length_cons]; omega
  rw [List.getElem?_append_right (by omega), hlen, Nat.add_sub_cancel_left]

section table
variable (cs : Composer) (L s : Nat) (mults : List Pt) (acc : List (Nat × Pt × Nat) × (Nat × Pt))

theorem fbOut_val (idx v : Nat) (h : (fbWitList acc)[idx]? = some v) :
    toF ((fbOut cs L s mults acc).val (cs.wit.size + idx)) = toF v := by
  unfold fbOut
  rw [val_append_ge]
  simp [h]

theorem fbWitList_get (k : Nat) (sa : Nat) (pa : Pt) (xy : Nat)
    (hk : acc.1[k]? = some (sa, pa, xy)) :
    (fbWitList acc)[4 * k]? = some pa.1 ∧ (fbWitList acc)[4 * k + 1]? = some pa.2 ∧
    (fbWitList acc)[4 * k + 2]? = some sa ∧ (fbWitList acc)[4 * k + 3]? = some xy := by
  obtain ⟨hlt, hget⟩ := List.getElem?_eq_some_iff.mp hk
  have key := fun j hj => flatMap4_get (fun x : Nat × Pt × Nat => [x.2.1.1, x.2.1.2, x.1, x.2.2])
    (fun _ => rfl) [acc.2.2.1, acc.2.2.2, acc.2.1] acc.1 k hlt j hj
  unfold fbWitList
  refine ⟨?_, ?_, ?_, ?_⟩
  · have := key 0 (by omega); rw [Nat.add_zero] at this; rw [this, hget]; rfl
  · rw [key 1 (by omega), hget]; rfl
  · rw [key 2 (by omega), hget]; rfl
  · rw [key 3 (by omega), hget]; rfl

theorem fbWitList_get_fin :
    (fbWitList acc)[4 * acc.1.length]? = some acc.2.2.1 ∧
    (fbWitList acc)[4 * acc.1.length + 1]? = some acc.2.2.2 ∧
    (fbWitList acc)[4 * acc.1.length + 2]? = some acc.2.1 := by
  have key := fun j => flatMap4_get_tail (fun x : Nat × Pt × Nat => [x.2.1.1, x.2.1.2, x.1, x.2.2])
    (fun _ => rfl) [acc.2.2.1, acc.2.2.2, acc.2.1] acc.1 j
  unfold fbWitList
  refine ⟨?_, ?_, ?_⟩
  · have := key 0; rw [Nat.add_zero] at this; rw [this]; rfl
  · rw [key 1]; rfl
  · rw [key 2]; rfl

end table

/-! ### completeness of the ladder part -/

section honest
variable (cs : Composer) (L s : Nat) (mults : List Pt) (l : List (Int × Pt))

/-- values of the model's table at the accumulator positions -/
theorem fbOut_val_acc (k : Nat) (hk : k ≤ l.length) :
    let o := fbOut cs L s mults (fixedAccs l 0 Pt.id)
    toF (o.val (cs.wit.size + 4 * k)) = toF (hostAt l 0 Pt.id k).2.1 ∧
    toF (o.val (cs.wit.size + 4 * k + 1)) = toF (hostAt l 0 Pt.id k).2.2 ∧
    toF (o.val (cs.wit.size + 4 * k + 2)) = toF (hostAt l 0 Pt.id k).1 := by
  intro o
  by_cases h : k < l.length
  · obtain ⟨h0, h1, h2, -⟩ := fbWitList_get (fixedAccs l 0 Pt.id) k _ _ _
      (fixedAccs_get l 0 Pt.id k h)
    exact ⟨fbOut_val cs L s mults _ _ _ h0, by rw [Nat.add_assoc]; exact fbOut_val cs L s mults _ _ _ h1,
      by rw [Nat.add_assoc]; exact fbOut_val cs L s mults _ _ _ h2⟩
  · have e : k = l.length := by omega
    subst e
    obtain ⟨h0, h1, h2⟩ := fbWitList_get_fin (fixedAccs l 0 Pt.id)
    rw [fixedAccs_length, fixedAccs_fin] at h0 h1 h2
    exact ⟨fbOut_val cs L s mults _ _ _ h0, by rw [Nat.add_assoc]; exact fbOut_val cs L s mults _ _ _ h1,
      by rw [Nat.add_assoc]; exact fbOut_val cs L s mults _ _ _ h2⟩

theorem fbOut_val_xy (k : Nat) (hk : k < l.length) :
    toF ((fbOut cs L s mults (fixedAccs l 0 Pt.id)).val (cs.wit.size + 4 * k + 3)) =
      toF (fmul (digitSel l[k].1 l[k].2).2.1 (digitSel l[k].1 l[k].2).2.2) := by
  obtain ⟨-, -, -, h3⟩ := fbWitList_get (fixedAccs l 0 Pt.id) k _ _ _
    (fixedAccs_get l 0 Pt.id k hk)
  rw [Nat.add_assoc]; exact fbOut_val cs L s mults _ _ _ h3

/-- **completeness of the ladder rows**: the model's own table satisfies the relation of the
    rows, provided the host's scalar accumulator vanishes after the `L` pinned rounds and ends in
    the stored scalar. -/
theorem fbRel_honest (hlen : mults.length = l.length)
    (hml : ∀ i (h1 : i < mults.length) (h2 : i < l.length), mults[i] = l[i].2)
    (hcurve : ∀ m ∈ mults, onCurve m = true)
    (hdig : ∀ i (h : i < l.length), l[i].1 = 0 ∨ l[i].1 = 1 ∨ l[i].1 = -1)
    (hL : L ≤ l.length) (hLz : toF (hostAt l 0 Pt.id L).1 = 0)
    (hs : s < cs.wit.size) (hfin : toF (hostAt l 0 Pt.id l.length).1 = toF (cs.val s))
    (c'' : Composer) (hext : Extends (fbOut cs L s mults (fixedAccs l 0 Pt.id)) c'') :
    FbRel cs.wit.size L s mults c''.val := by
  have hws := fbOut_wit_size cs L s mults (fixedAccs l 0 Pt.id)
  rw [fixedAccs_length] at hws
  have hv : ∀ idx, idx < 4 * l.length + 3 →
      c''.val (cs.wit.size + idx) =
        (fbOut cs L s mults (fixedAccs l 0 Pt.id)).val (cs.wit.size + idx) :=
    fun idx hi => hext.val_eq (by omega)
  have hv0 : ∀ k, 4 * k < 4 * l.length + 3 →
      c''.val (cs.wit.size + 4 * k) =
        (fbOut cs L s mults (fixedAccs l 0 Pt.id)).val (cs.wit.size + 4 * k) :=
    fun k hi => hext.val_eq (by omega)
  have hv2 : ∀ k j, 4 * k + j < 4 * l.length + 3 →
      c''.val (cs.wit.size + 4 * k + j) =
        (fbOut cs L s mults (fixedAccs l 0 Pt.id)).val (cs.wit.size + 4 * k + j) :=
    fun k j hi => hext.val_eq (by omega)
  have hl2 : ∀ x ∈ l, onCurve x.2 = true := by
    intro x hx
    obtain ⟨i, hi, rfl⟩ := List.getElem_of_mem hx
    rw [← hml i (by omega) hi]; exact hcurve _ (List.getElem_mem _)
  have h0 := fbOut_val_acc cs L s mults l 0 (by omega)
  simp only [Nat.mul_zero, Nat.add_zero, hostAt_zero] at h0
  refine ⟨?_, ?_, ?_, ?_, ?_, ?_⟩
  · have := hv 0 (by omega); rw [Nat.add_zero] at this; rw [this, h0.1]; rfl
  · rw [hv 1 (by omega), h0.2.1]; rfl
  · rw [hv 2 (by omega), h0.2.2]; rfl
  · intro i hi
    have hi' : i < l.length := by omega
    have hcur := hostAt_on_curve l hl2 0 Pt.id id_on_curve_model i
    have a0 := fbOut_val_acc cs L s mults l i (by omega)
    have a1 := fbOut_val_acc cs L s mults l (i + 1) (by omega)
    have ax := fbOut_val_xy cs L s mults l i hi'
    simp only at a0 a1
    rw [hv0 i (by omega), hv2 i 1 (by omega), hv2 i 3 (by omega),
      hv0 (i + 1) (by omega), hv2 (i + 1) 1 (by omega),
      hv2 (i + 1) 2 (by omega), hv2 i 2 (by omega),
      a0.1, a0.2.1, a0.2.2, a1.1, a1.2.1, a1.2.2, ax, hostAt_succ l 0 Pt.id i hi', hml i hi hi']
    have := fixedComps_honest (hdig i hi') l[i].2 (hl2 _ (List.getElem_mem _))
      (hostAt l 0 Pt.id i).2.1 (hostAt l 0 Pt.id i).2.2 (hostAt l 0 Pt.id i).1 hcur
    rw [fixedComps_zero_iff] at this
    exact this
  · have a := fbOut_val_acc cs L s mults l L hL
    simp only at a
    rw [hv2 L 2 (by omega), a.2.2, hLz]
  · have a := fbOut_val_acc cs L s mults l l.length (Nat.le_refl _)
    simp only at a
    rw [hlen, hv2 l.length 2 (by omega), a.2.2, hfin,
      ((fbOut_extends cs L s mults _).trans hext).val_eq hs]

end honest


/-! ### the component as a whole -/

/-- first witness index of the ladder -/
def fbBase (c : Composer) (s : Nat) : Nat := (canonOut c s JUBJUB_SCALAR_BITS).wit.size

/-- state after `append_fixed_base_signed_digits` with admissible digits -/
def fbState (c : Composer) (s : Nat) (g : Pt) (digits : List Int) : Composer :=
  fbOut (canonOut c s JUBJUB_SCALAR_BITS) FIXED_BASE_LEADING_ZERO_ROUNDS s (fbMults g)
    (fbAccs g digits)

theorem fbAccs_length (g : Pt) (digits : List Int) (hlen : digits.length = fbN) :
    (fbAccs g digits).1.length = (fbMults g).length := by
  unfold fbAccs
  rw [fixedAccs_length, List.length_zip, List.length_reverse, fbMults_length, hlen, Nat.min_self]

theorem appendFixedBaseSignedDigits_ok (s : Nat) (g : Pt) (digits : List Int) (c : Composer)
    (hbad : digitsBad digits = false) (hlen : digits.length = fbN) :
    (appendFixedBaseSignedDigits s g digits).run c =
      (.ok (fbBase c s + 4 * fbN, fbBase c s + 4 * fbN + 1), fbState c s g digits) := by
  rw [appendFixedBaseSignedDigits_eq, hbad, fbTail_run, fbAccs_length g digits hlen,
    fbMults_length]
  rfl

theorem appendFixedBaseSignedDigits_bad (s : Nat) (g : Pt) (digits : List Int) (c : Composer)
    (hbad : digitsBad digits = true) :
    (appendFixedBaseSignedDigits s g digits).run c =
      (.error .unsupportedWnaf, canonOut c s JUBJUB_SCALAR_BITS) := by
  rw [appendFixedBaseSignedDigits_eq, hbad]; rfl


theorem gateAdd_pis (s : Constraint) (c : Composer) (h : s.hasPi = false) :
    ((gateAdd s).run c).2.pis = c.pis := by
  rw [gateAdd_snd]
  obtain ⟨cv, -, hr⟩ := appendEvaluatedOutput_some (gateAddC s) c (toF_gateAddC_qo s)
  rw [hr]
  have : (Constraint.arithmetic { gateAddC s with c := c.wit.size }).hasPi = false := h
  simp only [appendGate_run, appendCustomGate_run, appendWitness_run, this]
  rfl

theorem canonOut_pis (c : Composer) (s n : Nat) : (canonOut c s n).pis = c.pis := by
  unfold canonOut canon2 canon1
  rw [rangeCheck_pis, gateAdd_pis _ _ rfl, rangeCheck_pis]

theorem fbOut_pis (cs : Composer) (L s : Nat) (mults : List Pt)
    (acc : List (Nat × Pt × Nat) × (Nat × Pt)) : (fbOut cs L s mults acc).pis = cs.pis := rfl

theorem fbOut_wf (cs : Composer) (L s : Nat) (mults : List Pt)
    (acc : List (Nat × Pt × Nat) × (Nat × Pt)) (h : WF cs) : WF (fbOut cs L s mults acc) := by
  refine wf_of_extends_new h (fbOut_extends cs L s mults acc) ?_ ?_
  · intro i hi
    obtain ⟨j, rfl⟩ : ∃ j, i = cs.wit.size + j := ⟨i - cs.wit.size, by omega⟩
    unfold fbOut
    rw [val_append_ge]
    by_cases hj : j < (fbWitList acc).length
    · simp [hj, Nat.mod_lt _ R_pos]
    · simp [hj, R_pos]
  · exact piFresh_of_pis h.pis_zero rfl (fbOut_extends cs L s mults acc).gates_size

theorem fbOut_last_plain (cs : Composer) (L s : Nat) (mults : List Pt)
    (acc : List (Nat × Pt × Nat) × (Nat × Pt)) :
    ∀ i, i + 1 = (fbOut cs L s mults acc).gates.size →
      Gate.plain ((fbOut cs L s mults acc).gateAt i) := by
  intro i hi
  rw [fbOut_gates_size] at hi
  have : i = cs.gates.size + 3 + mults.length + 2 := by omega
  subst this
  rw [gateAt_of_get (fbOut_get_tail cs L s mults acc 2 (by omega))]
  exact eqGate_plain _ _

section whole
variable (c : Composer) (s : Nat) (g : Pt) (digits : List Int)

/-- gates appended by the whole component -/
def fbGateCount : Nat := canonGateCount JUBJUB_SCALAR_BITS + fbN + 6
/-- witnesses appended by the whole component -/
def fbWitCount : Nat := canonWitCount JUBJUB_SCALAR_BITS + (4 * fbN + 3)

theorem fbState_extends_canon :
    Extends (canonOut c s JUBJUB_SCALAR_BITS) (fbState c s g digits) := fbOut_extends _ _ _ _ _

theorem fbState_extends : Extends c (fbState c s g digits) :=
  (canonOut_extends c s _).trans (fbState_extends_canon c s g digits)

theorem fbState_gates_size : (fbState c s g digits).gates.size = c.gates.size + fbGateCount := by
  unfold fbState fbGateCount
  rw [fbOut_gates_size, canonOut_gates_size, fbMults_length]; omega

theorem fbState_wit_size (hlen : digits.length = fbN) :
    (fbState c s g digits).wit.size = c.wit.size + fbWitCount := by
  unfold fbState fbWitCount
  rw [fbOut_wit_size, canonOut_wit_size, fbAccs_length g digits hlen, fbMults_length]; omega

theorem fbState_wf (h : WF c) : WF (fbState c s g digits) :=
  fbOut_wf _ _ _ _ _ (canonOut_wf c s _ scalar_bits_even h)

theorem fbState_last_plain : ∀ i, i + 1 = (fbState c s g digits).gates.size →
    Gate.plain ((fbState c s g digits).gateAt i) := fbOut_last_plain _ _ _ _ _

theorem fbState_pis : (fbState c s g digits).pis = c.pis := by
  unfold fbState
  rw [fbOut_pis, canonOut_pis]


/-- the rows of the whole component: the canonical-scalar block and the relation of the ladder
    rows, read in any later state -/
theorem fb_rows_split (hwf : WF c) (hlen : digits.length = fbN) (c'' : Composer)
    (hext : Extends (fbState c s g digits) c'') (w : Nat → Nat) :
    c''.rowsHoldW w c.gates.size (fbState c s g digits).gates.size ↔
      c''.rowsHoldW w c.gates.size (canonOut c s JUBJUB_SCALAR_BITS).gates.size ∧
      FbRel (fbBase c s) FIXED_BASE_LEADING_ZERO_ROUNDS s (fbMults g) w := by
  have e1 := (canonOut_extends c s JUBJUB_SCALAR_BITS).gates_size
  have e2 := (fbState_extends_canon c s g digits).gates_size
  have hpi := (canonOut_wf c s _ scalar_bits_even hwf).pis_zero
  rw [rowsHoldW_split c'' w e1 e2,
    hext.rowsHoldW_iff w _ (fbState_last_plain c s g digits)]
  unfold fbState fbBase
  rw [fb_rows_iff _ _ _ _ _ hpi (fbAccs_length g digits hlen) w]

open Finset in
/-- **soundness of `append_fixed_base_signed_digits`** (any digit vector supplied by the host):
    for every assignment `w` satisfying the rows of the component — the zero witness being `0` —
    the scalar witness is canonical (`< r_J`), and there are integer digits `d_i ∈ {−1,0,1}`,
    *read off `w`* as the increments of the scalar accumulator, with the leading
    `FIXED_BASE_LEADING_ZERO_ROUNDS` ones zero, such that `Σ d_i·2^i` equals the scalar **over ℤ**
    (no wrap modulo `r`); every point accumulator is the iterated Edwards sum of these digits and
    the returned point is `[s]G`. -/
theorem fixedBase_sound (hwf : WF c) (hg : onCurve g = true) (hlen : digits.length = fbN)
    (c'' : Composer) (hext : Extends (fbState c s g digits) c'') (w : Nat → Nat)
    (h0 : toF (w 0) = 0)
    (h : c''.rowsHoldW w c.gates.size (fbState c s g digits).gates.size) :
    (toF (w s)).val < RJ ∧
    ∃ d : Nat → ℤ,
      (∀ i < fbN, d i = -1 ∨ d i = 0 ∨ d i = 1) ∧
      (∀ i < fbN, toF (w (fbBase c s + 4 * (i + 1) + 2)) - 2 * toF (w (fbBase c s + 4 * i + 2))
          = ((d (fbN - 1 - i) : ℤ) : F)) ∧
      (∀ j < FIXED_BASE_LEADING_ZERO_ROUNDS, d (fbN - 1 - j) = 0) ∧
      (∑ i ∈ range fbN, d i * 2 ^ i = ((toF (w s)).val : ℤ)) ∧
      (∀ k ≤ fbN, (toF (w (fbBase c s + 4 * k)), toF (w (fbBase c s + 4 * k + 1)))
          = sdPointF (toFP g) d fbN k) ∧
      (toF (w (fbBase c s + 4 * fbN)), toF (w (fbBase c s + 4 * fbN + 1)))
          = smulF (toF (w s)).val (toFP g) := by
  obtain ⟨h1, h2⟩ := (fb_rows_split c s g digits hwf hlen c'' hext w).mp h
  have hs := assertCanonicalJubjubScalar_sound c s hwf c''
    ((fbState_extends_canon c s g digits).trans hext) w h0 h1
  refine ⟨hs, ?_⟩
  exact fbRel_sound (fbMults g) (fbMults_length g) (fbMults_on_curve g hg) (toFP g)
    ((onCurve_iff_P g).mp hg) (fbMults_get g hg) (fbBase c s) s w h2
    (Nat.lt_of_lt_of_le hs RJ_le_two_pow)


/-- the host's list of `(digit, multiple)` pairs -/
theorem fbList_facts (hlen : digits.length = fbN) :
    let l := digits.reverse.zip (fbMults g)
    l.length = fbN ∧
    (∀ i (h1 : i < (fbMults g).length) (h2 : i < l.length), (fbMults g)[i] = l[i].2) ∧
    (∀ k (hk : k < l.length), l[k].1 = digits.getD (fbN - 1 - k) 0) := by
  intro l
  have hl : l.length = fbN := by
    simp only [l, List.length_zip, List.length_reverse, fbMults_length, hlen, Nat.min_self]
  refine ⟨hl, ?_, ?_⟩
  · intro i h1 h2; simp only [l, List.getElem_zip]
  · intro k hk
    rw [hl] at hk
    simp only [l, List.getElem_zip, List.getElem_reverse, hlen]
    rw [List.getD_eq_getElem]

/-- **completeness of `append_fixed_base_signed_digits`**: for a stored scalar below `r_J`, an
    on-curve generator and any admissible digit vector (256 digits in `{−1,0,1}`, the leading
    rounds accumulating to `0`, the whole vector recomposing the scalar), the model's own witness
    table — read in any later state — satisfies all rows of the component. -/
theorem fixedBase_complete (hwf : WF c) (hs : s < c.wit.size) (hz : c.val 0 = 0)
    (hg : onCurve g = true) (hlen : digits.length = fbN)
    (hdig : ∀ i, digits.getD i 0 = -1 ∨ digits.getD i 0 = 0 ∨ digits.getD i 0 = 1)
    (hLz : sdAccZ (fun i => digits.getD i 0) fbN FIXED_BASE_LEADING_ZERO_ROUNDS = 0)
    (hfin : sdAccZ (fun i => digits.getD i 0) fbN fbN = (c.val s : ℤ))
    (hv : c.val s < RJ) (c'' : Composer) (hext : Extends (fbState c s g digits) c'') :
    c''.rowsHoldW c''.val c.gates.size (fbState c s g digits).gates.size := by
  refine (fb_rows_split c s g digits hwf hlen c'' hext _).mpr ⟨?_, ?_⟩
  · exact assertCanonicalJubjubScalar_complete c s hwf hs hz hv c''
      ((fbState_extends_canon c s g digits).trans hext)
  · obtain ⟨hl, hml, hld⟩ := fbList_facts g digits hlen
    have hcs := canonOut_extends c s JUBJUB_SCALAR_BITS
    have hsc := hostAt_scalar (digits.reverse.zip (fbMults g)) (fun i => digits.getD i 0) fbN
      Pt.id hld hdig
    unfold fbState fbAccs at hext
    unfold fbBase
    refine fbRel_honest _ _ s (fbMults g) (digits.reverse.zip (fbMults g))
      (by rw [hl, fbMults_length]) hml (fbMults_on_curve g hg) ?_ ?_ ?_ ?_ ?_ c'' hext
    · intro i h
      rw [hld i h]
      rcases hdig (fbN - 1 - i) with h | h | h <;> rw [h] <;> simp
    · rw [hl]; exact leading_le_rounds
    · rw [hsc _ (by rw [hl]; exact leading_le_rounds), hLz]; simp
    · exact Nat.lt_of_lt_of_le hs hcs.wit_size
    · rw [hsc _ (Nat.le_refl _), hl, hfin, hcs.val_eq hs]; simp [toF]

end whole


/-! ### the width-2 NAF and `component_mul_generator` -/

theorem wnaf2_length (k : Nat) : (wnaf2 k).length = fbN := by
  rw [wnaf2_eq, nafList_length]; rfl

theorem wnaf2_not_bad (k : Nat) : digitsBad (wnaf2 k) = false := by
  unfold digitsBad
  rw [List.any_eq_false]
  intro d hd
  rw [wnaf2_eq] at hd
  rcases nafList_digits _ _ d hd with h | h | h <;> rw [h] <;> decide

/-- completeness with the digits the host actually uses -/
theorem fixedBase_complete_naf (c : Composer) (s : Nat) (g : Pt) (hwf : WF c)
    (hs : s < c.wit.size) (hz : c.val 0 = 0) (hg : onCurve g = true) (hv : c.val s < RJ)
    (c'' : Composer) (hext : Extends (fbState c s g (wnaf2 (c.val s))) c'') :
    c''.rowsHoldW c''.val c.gates.size (fbState c s g (wnaf2 (c.val s))).gates.size := by
  obtain ⟨h1, h2, h3⟩ := naf_chain_complete (c.val s) hv
  exact fixedBase_complete c s g _ hwf hs hz hg (wnaf2_length _) h1 h2 h3 hv c'' hext

/-- the affine generator used by `component_mul_generator` -/
def genAffine (gen : Ext) : Pt := (gen.toAffine?).getD Pt.id

/-- the host-side validation of the generator -/
def genOk (gen : Ext) : Bool := !(gen.z == 0 || !gen.onCurve || !gen.primeOrder)

/-- `component_mul_generator`, all three outcomes -/
theorem componentMulGenerator_run (s : Nat) (gen : Ext) (c : Composer) :
    (componentMulGenerator s gen).run c =
      if genOk gen = false then (.error .generatorNotPrime, c)
      else if RJ ≤ c.val s then (.error .scalarMalformed, c)
      else (.ok (fbBase c s + 4 * fbN, fbBase c s + 4 * fbN + 1),
        fbState c s (genAffine gen) (wnaf2 (c.val s))) := by
  unfold componentMulGenerator genOk
  by_cases h1 : (gen.z == 0 || !gen.onCurve || !gen.primeOrder) = true
  · simp only [h1, if_true, Bool.not_true]; rfl
  · have h1' : (gen.z == 0 || !gen.onCurve || !gen.primeOrder) = false := by
      simpa using h1
    simp only [h1', Bool.not_false, Bool.false_eq_true, if_false, Bool.true_eq_false]
    rw [run_bind', getVal_run]
    by_cases h2 : RJ ≤ c.val s
    · simp only [ge_iff_le, h2, if_true]; rfl
    · simp only [ge_iff_le, h2, if_false]
      exact appendFixedBaseSignedDigits_ok s _ _ c (wnaf2_not_bad _) (wnaf2_length _)

/-- a validated generator is an affine point on the curve -/
theorem genOk_on_curve (gen : Ext) (h : genOk gen = true) : onCurve (genAffine gen) = true := by
  unfold genOk at h
  simp only [Bool.not_eq_true', Bool.or_eq_false_iff, Bool.not_eq_false'] at h
  obtain ⟨⟨-, h2⟩, -⟩ := h
  unfold Ext.onCurve at h2
  unfold genAffine
  cases ha : gen.toAffine? with
  | none => rw [ha] at h2; simp at h2
  | some a =>
    rw [ha] at h2
    simp only [Bool.and_eq_true] at h2
    exact h2.1

/-! ### the layout does not depend on the witness values -/

theorem gateAdd_gates (s : Constraint) (c : Composer) :
    ((gateAdd s).run c).2.gates =
      c.gates.push (Constraint.arithmetic { gateAddC s with c := c.wit.size }).toGate := by
  rw [gateAdd_snd]
  obtain ⟨cv, -, hr⟩ := appendEvaluatedOutput_some (gateAddC s) c (toF_gateAddC_qo s)
  rw [hr]
  rfl

theorem gateAdd_layout {c1 c2 : Composer} (h : SameLayout c1 c2) (s : Constraint)
    (hs : s.hasPi = false) :
    SameLayout ((gateAdd s).run c1).2 ((gateAdd s).run c2).2 :=
  ⟨by rw [gateAdd_gates, gateAdd_gates, h.gates, h.wsize],
   by rw [(gateAdd_appends s c1).wit, (gateAdd_appends s c2).wit, h.wsize],
   by rw [gateAdd_pis _ _ hs, gateAdd_pis _ _ hs, h.pis]⟩

theorem canonOut_layout {c1 c2 : Composer} (h : SameLayout c1 c2) (s n : Nat) :
    SameLayout (canonOut c1 s n) (canonOut c2 s n) := by
  have h1 : SameLayout (canon1 c1 s n) (canon1 c2 s n) := rangeCheck_layout h s n
  have h2 : SameLayout (canon2 c1 s n) (canon2 c2 s n) := gateAdd_layout h1 _ rfl
  unfold canonOut canonDist
  rw [h1.wsize]
  exact rangeCheck_layout h2 _ n

theorem fbOut_layout {cs1 cs2 : Composer} (h : SameLayout cs1 cs2) (L s : Nat) (mults : List Pt)
    (acc1 acc2 : List (Nat × Pt × Nat) × (Nat × Pt)) (hl : acc1.1.length = acc2.1.length) :
    SameLayout (fbOut cs1 L s mults acc1) (fbOut cs2 L s mults acc2) :=
  ⟨by simp only [fbOut, h.gates, h.wsize, hl],
   by rw [fbOut_wit_size, fbOut_wit_size, h.wsize, hl],
   by rw [fbOut_pis, fbOut_pis, h.pis]⟩

theorem fbState_layout {c1 c2 : Composer} (h : SameLayout c1 c2) (s : Nat) (g : Pt)
    (d1 d2 : List Int) (h1 : d1.length = fbN) (h2 : d2.length = fbN) :
    SameLayout (fbState c1 s g d1) (fbState c2 s g d2) :=
  fbOut_layout (canonOut_layout h s _) _ _ _ _ _
    (by rw [fbAccs_length g d1 h1, fbAccs_length g d2 h2])

theorem withValue_wf (c : Composer) (x v : Nat) (h : WF c) (hv : v < R) : WF (withValue c x v) := by
  refine ⟨fun i => ?_, h.pis_zero⟩
  have hi := h.val_lt i
  unfold withValue val at *
  simp only [Array.getD_eq_getD_getElem?, Array.getElem?_setIfInBounds, Array.size_setIfInBounds] at *
  split
  · split
    · exact hv
    · exact R_pos
  · split
    · split
      · exact R_pos
      · exact R_pos
    · exact hi


/-- for the layout of a successful ladder call, and any target value `v` of the scalar witness:
    a satisfying assignment exists iff `v < r_J` -/
theorem fbState_satisfiable_iff (c : Composer) (s : Nat) (g : Pt) (digits : List Int)
    (hwf : WF c) (hs : s < c.wit.size) (hg : onCurve g = true) (hlen : digits.length = fbN)
    (v : Nat) (hvR : v < R) (hs0 : s = 0 → v = 0) :
    (∃ w : Nat → Nat, w s = v ∧ w 0 = 0 ∧
      (fbState c s g digits).rowsHoldW w c.gates.size (fbState c s g digits).gates.size) ↔
      v < RJ := by
  constructor
  · rintro ⟨w, hws, hw0, hrows⟩
    have := (fixedBase_sound c s g digits hwf hg hlen _ (Extends.refl _) w
      (by rw [hw0]; simp) hrows).1
    rwa [hws, val_toF_of_lt hvR] at this
  · intro hv
    have hl := withValue_layout c s v
    have hwf2 := withValue_wf c s v hwf hvR
    have hs2 : s < (withValue c s v).wit.size := by rw [← hl.wsize]; exact hs
    have hval : (withValue c s v).val s = v := withValue_val_self c s v hs
    have hz2 := withValue_val_zero c s v hs0
    have hL := fbState_layout hl s g digits (wnaf2 ((withValue c s v).val s)) hlen
      (wnaf2_length _)
    have hext := fbState_extends (withValue c s v) s g (wnaf2 ((withValue c s v).val s))
    have hcomp := fixedBase_complete_naf (withValue c s v) s g hwf2 hs2 hz2 hg
      (by rw [hval]; exact hv) _ (Extends.refl _)
    refine ⟨(fbState (withValue c s v) s g (wnaf2 ((withValue c s v).val s))).val, ?_, ?_, ?_⟩
    · rw [hext.val_eq hs2, hval]
    · rw [hext.val_eq (by omega), hz2]
    · rw [hL.rowsHoldW_iff, hL.gates, hl.gates]
      exact hcomp


/-- inversion of a successful `component_mul_generator` call -/
theorem componentMulGenerator_ok_inv (c : Composer) (s : Nat) (gen : Ext) (p : Pt) (c' : Composer)
    (hrun : (componentMulGenerator s gen).run c = (.ok p, c')) :
    genOk gen = true ∧ c.val s < RJ ∧
    p = (fbBase c s + 4 * fbN, fbBase c s + 4 * fbN + 1) ∧
    c' = fbState c s (genAffine gen) (wnaf2 (c.val s)) := by
  have hr := componentMulGenerator_run s gen c
  rw [hrun] at hr
  by_cases h1 : genOk gen = true
  · by_cases h2 : RJ ≤ c.val s
    · rw [if_neg (by simp [h1]), if_pos h2] at hr
      exact absurd (congrArg Prod.fst hr) (fun h => by cases h)
    · rw [if_neg (by simp [h1]), if_neg h2] at hr
      have hp : p = (fbBase c s + 4 * fbN, fbBase c s + 4 * fbN + 1) := by
        have := congrArg Prod.fst hr; simpa using this
      exact ⟨h1, by omega, hp, congrArg Prod.snd hr⟩
  · have h1f : genOk gen = false := by simpa using h1
    rw [if_pos h1f] at hr
    exact absurd (congrArg Prod.fst hr) (fun h => by cases h)

/-! ### interface definitions used by the property file -/

/-- a digit vector as accepted by the widget: 256 entries in `{−1, 0, 1}` -/
def ValidDigits (digits : List Int) : Prop :=
  digits.length = 256 ∧ ∀ d ∈ digits, d = -1 ∨ d = 0 ∨ d = 1

theorem validDigits_iff (digits : List Int) :
    ValidDigits digits ↔ digits.length = fbN ∧ digitsBad digits = false := by
  unfold ValidDigits digitsBad
  rw [List.any_eq_false]
  constructor
  · rintro ⟨h1, h2⟩
    refine ⟨h1, fun d hd => ?_⟩
    rcases h2 d hd with h | h | h <;> rw [h] <;> decide
  · rintro ⟨h1, h2⟩
    refine ⟨h1, fun d hd => ?_⟩
    have := h2 d hd
    by_cases a : d = 0
    · exact Or.inr (Or.inl a)
    by_cases b : d = 1
    · exact Or.inr (Or.inr b)
    by_cases e : d = -1
    · exact Or.inl e
    · simp [a, b, e] at this

/-- the host-side validation of the generator, as written in the source -/
theorem genOk_iff (gen : Ext) :
    genOk gen = true ↔ gen.z ≠ 0 ∧ gen.onCurve = true ∧ gen.primeOrder = true := by
  unfold genOk
  simp [and_assoc]

end Composer
end Plonk
