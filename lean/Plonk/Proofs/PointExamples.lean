/-
  Concrete instance for the non-vacuity examples of `Plonk/Props/C12.lean`: the initialized
  composer with two curve points appended (`exG` on wires (6,7), `2·exG` on wires (8,9)).
  Wires 0, 1, 2 of `initialized` hold 0, 1, 6.
-/
import Plonk.Proofs.MulPoint
import Plonk.Proofs.EdwardsExamples

namespace Plonk
open Plonk Plonk.Composer

/-- `2·exG` -/
def exH : Pt := edAddOrId exG exG

theorem exH_on_curve : onCurve exH = true := edAddOrId_on_curve _ _ exG_on_curve exG_on_curve

namespace Composer

/-- `initialized` plus the affine points `exG` (wires 6, 7) and `exH = 2·exG` (wires 8, 9) -/
def exC : Composer := ((appendAffinePoint exH).run ((appendAffinePoint exG).run initialized).2).2

theorem exC_wit_size : exC.wit.size = 10 := by decide +kernel
theorem exC_gates_size : exC.gates.size = 4 := by decide +kernel
theorem exC_pis : exC.pis = #[] := by decide +kernel
theorem exC_val0 : exC.val 0 = 0 := by decide +kernel
theorem exC_val1 : exC.val 1 = 1 := by decide +kernel
theorem exC_val2 : exC.val 2 = 6 := by decide +kernel
theorem exC_val6 : exC.val 6 = exG.1 := by decide +kernel
theorem exC_val7 : exC.val 7 = exG.2 := by decide +kernel
theorem exC_val8 : exC.val 8 = exH.1 := by decide +kernel
theorem exC_val9 : exC.val 9 = exH.2 := by decide +kernel

theorem exC_wf : WF exC := by
  apply wf_of_wit
  · decide +kernel
  · intro i _
    unfold piAt; rw [exC_pis]; rfl

theorem exC_allocG : PtAlloc exC (6, 7) := by unfold PtAlloc; rw [exC_wit_size]; decide
theorem exC_allocH : PtAlloc exC (8, 9) := by unfold PtAlloc; rw [exC_wit_size]; decide

theorem exC_ptG : ptW exC.val (6, 7) = toFP exG := by
  unfold ptW toFP; simp only [exC_val6, exC_val7]
theorem exC_ptH : ptW exC.val (8, 9) = toFP exH := by
  unfold ptW toFP; simp only [exC_val8, exC_val9]

theorem exC_onG : OnCurveP (ptW exC.val (6, 7)) := by
  rw [exC_ptG]; exact (onCurve_iff_P exG).mp exG_on_curve
theorem exC_onH : OnCurveP (ptW exC.val (8, 9)) := by
  rw [exC_ptH]; exact (onCurve_iff_P exH).mp exH_on_curve

/-- in any state built on `Composer::initialized()` the model's own table satisfies the two base
    rows that pin the constants `0` and `1` -/
theorem initialized_base_rows_honest (c' : Composer) (hx : Extends initialized c') :
    c'.rowsHoldW c'.val 0 2 := by
  rw [hx.rowsHoldW_of_plain _ (by rw [initialized_gates_size]; omega)
    (fun i _ _ => initialized_plain i)]
  intro i h1 h2
  exact initialized_rows_of_agree _
    (fun j hj => hx.val_eq (by rw [initialized_wit_size]; exact hj)) i h1 (by omega)

end Composer
end Plonk
